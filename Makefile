# Builds the Coq development (full .vo build), the extracted model and the OCaml driver.
# Everything generated goes to /verif/build or stays beside the sources (ignored by git).
COQJOBS ?= 16
BUILD := build
.PHONY: all all_locked coq driver clean
# the whole build runs under an exclusive lock so that checks started in parallel (each of them
# begins with `make -C /verif all`) never see a half-written Makefile.coq, .vo file or driver
all:
	@mkdir -p $(BUILD)
	@flock $(BUILD)/.build.lock $(MAKE) --no-print-directory all_locked
all_locked: coq driver

coq:
	cd coq && coq_makefile -f _CoqProject -o Makefile.coq > /dev/null
	cd coq && timeout 3000 $(MAKE) -f Makefile.coq -j$(COQJOBS) --no-print-directory

driver: coq
	@$(MAKE) --no-print-directory $(BUILD)/driver

$(BUILD)/driver: coq/model.ml $(wildcard ocaml/*.ml)
	mkdir -p $(BUILD)/ocaml
	cp coq/model.ml coq/model.mli ocaml/*.ml $(BUILD)/ocaml/
	cd $(BUILD)/ocaml && rm -f *.cmi *.cmx *.o && ocamlfind ocamlopt -w -a model.mli model.ml drv_core.ml cmd_scene.ml $(filter-out cmd_scene.ml,$(sort $(notdir $(wildcard ocaml/cmd_*.ml)))) driver.ml -o ../driver

clean:
	-cd coq && [ -f Makefile.coq ] && $(MAKE) -f Makefile.coq clean
	rm -rf $(BUILD) coq/model.ml coq/model.mli coq/Makefile.coq coq/Makefile.coq.conf coq/.*.aux
