# Builds the Coq development (full .vo build), the extracted model and the OCaml driver.
# Everything generated goes to /verif/build or stays beside the sources (ignored by git).
COQJOBS ?= 16
BUILD := build
.PHONY: all coq driver clean
all: coq driver

coq:
	cd coq && coq_makefile -f _CoqProject -o Makefile.coq > /dev/null
	cd coq && timeout 3000 $(MAKE) -f Makefile.coq -j$(COQJOBS) --no-print-directory

driver: coq
	mkdir -p $(BUILD)/ocaml
	cp coq/model.ml coq/model.mli ocaml/driver.ml $(BUILD)/ocaml/
	cd $(BUILD)/ocaml && ocamlfind ocamlopt -O3 -w -a -package str model.mli model.ml driver.ml -o ../driver 2>/dev/null || \
	  (cd $(BUILD)/ocaml && ocamlfind ocamlopt -w -a model.mli model.ml driver.ml -o ../driver)

clean:
	-cd coq && [ -f Makefile.coq ] && $(MAKE) -f Makefile.coq clean
	rm -rf $(BUILD) coq/model.ml coq/model.mli coq/Makefile.coq coq/Makefile.coq.conf coq/.*.aux
