(* Commands for the BRDF constructor models (Model/Brdf.v). *)
open Model
open Drv_core

let () =
  (* q_brdf_scat n nb cos[n] w[n] mu[n] s[nb] a[nb]  ->  w_hat[n] then brdf[n][n][nb] *)
  register "q_brdf_scat" (fun cmd ->
       let n = rnat () in let nb = rnat () in
       let cosv = r1 rflt in let w = r1 rflt in let mu = r1 rnat in
       let s = r1 rflt in let a = r1 rflt in
       start cmd;
       p1 pf (norm_weights fops w);
       p3 pf (from_scattering fops n nb cosv w mu s a);
       finish ());
  (* q_brdf_dir ns nr nb cos[nr] w[nr] ds[ns][nr][nb] a[nb]  ->  brdf[ns][nr][nb] *)
  register "q_brdf_dir" (fun cmd ->
       let ns = rnat () in let nr = rnat () in let nb = rnat () in
       let cosv = r1 rflt in let w = r1 rflt in
       let ds = r3 rflt in let a = r1 rflt in
       start cmd;
       p3 pf (from_directional fops ns nr nb cosv w ds a);
       finish ())
