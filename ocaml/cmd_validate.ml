(* Command for the validation model (Model/Validate.v): q_validate <abstract state>.
   Token layout (same order as the record fields):
     shape        = n d1 .. dn
     opt x        = 0 | 1 x
     ids          = 0 z | 1 n z1 .. zn | 2 shape(rank >= 2)
     brdf         = opt (n shape1 .. shapen)
     dirs         = opt (n k1 .. kn)      k = 1 coordinate object, 0 anything else
     scalar       = opt float *)
open Model
open Drv_core

let rec pos_of_int i =
  if i = 1 then XH else if i land 1 = 0 then XO (pos_of_int (i lsr 1)) else XI (pos_of_int (i lsr 1))
let z_of_int i = if i = 0 then Z0 else if i > 0 then Zpos (pos_of_int i) else Zneg (pos_of_int (- i))

let rshape () = r1 rnat
let rz () = z_of_int (rint ())
let rids () =
  match rint () with
  | 0 -> IdsScalar (rz ())
  | 1 -> IdsVec (r1 rz)
  | _ -> (match rshape () with
          | a :: b :: rest -> IdsND (a, b, rest)
          | _ -> failwith "q_validate: IdsND needs rank >= 2")
let rkind () = if rbool () then Coord else NotCoord

let read_state () : float state =
  let walls = rshape () in
  let normal = rshape () in
  let up = rshape () in
  let patches = rshape () in
  let np = rnat () in
  let ids = rids () in
  let vis = ropt rshape in
  let visp = ropt rshape in
  let ff = ropt rshape in
  let tilde = ropt rshape in
  let freq = ropt rshape in
  let brdf = ropt (fun () -> r1 rshape) in
  let bidx = ropt rshape in
  let din = ropt (fun () -> r1 rkind) in
  let dout = ropt (fun () -> r1 rkind) in
  let csize = rnat () in
  let p2o = ropt rshape in
  let att = ropt rshape in
  let c = ropt rflt in
  let dt = ropt rflt in
  let dur = ropt rflt in
  let dist = ropt rshape in
  let e0 = ropt rshape in
  let hist = ropt rshape in
  { v_walls_points = walls; v_walls_normal = normal; v_walls_up_vector = up;
    v_patches_points = patches; v_n_patches = np; v_patch_to_wall_ids = ids;
    v_visibility_matrix = vis; v_visible_patches = visp; v_form_factors = ff;
    v_form_factors_tilde = tilde; v_frequencies = freq; v_brdf = brdf; v_brdf_index = bidx;
    v_brdf_incoming_directions = din; v_brdf_outgoing_directions = dout; v_out_csize = csize;
    v_patch_2_brdf_outgoing_index = p2o; v_air_attenuation = att; v_speed_of_sound = c;
    v_etc_time_resolution = dt; v_etc_duration = dur; v_distance_patches_to_source = dist;
    v_energy_init_source = e0; v_energy_exchange_etc = hist }

let () =
  register "q_validate" (fun cmd ->
      let s = read_state () in
      start cmd;
      Buffer.add_string buf
        (match construct fops s with
         | Ok -> " Ok" | ValueError -> " ValueError" | OtherError -> " OtherError");
      finish ())
