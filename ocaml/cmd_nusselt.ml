(* Commands for the Nusselt-analogue form-factor model (Model/Nusselt.v). *)
open Model
open Drv_core

let pvec ((x, y), z) = pf x; pf y; pf z
let rv2 () = let x = rflt () in let y = rflt () in (x, y)

let () =
  register "nus_round" (fun cmd ->
       (* xs -> round_he of each *)
       let xs = r1 rflt in
       start cmd; List.iter (fun x -> pn (round_he fops x)) xs; finish ());
  register "nus_lagrange" (fun cmd ->
       (* thr_lag x[3] y[3] -> 3 coefficients, then _poly_integration(coefs, x) *)
       let th = rflt () in
       let x0 = rflt () in let x1 = rflt () in let x2 = rflt () in
       let y0 = rflt () in let y1 = rflt () in let y2 = rflt () in
       let ((c0, c1), c2) as c = lagrange3 fops th x0 x1 x2 y0 y1 y2 in
       start cmd; pf c0; pf c1; pf c2; pf (poly_integration3 fops c x0 x2); finish ());
  register "nus_auc" (fun cmd ->
       (* thr_lag, three 2-D points -> _area_under_curve *)
       let th = rflt () in let p0 = rv2 () in let p1 = rv2 () in let p2 = rv2 () in
       start cmd; pf (area_under_curve fops th p0 p1 p2); finish ());
  register "nus_analog" (fun cmd ->
       (* thr_seg thr_dot thr_lag normal pts pnormal origins -> one value per origin *)
       let t1 = rflt () in let t2 = rflt () in let t3 = rflt () in
       let n = rvec () in let pts = r1 rvec in let pn_ = rvec () in let os = r1 rvec in
       start cmd; List.iter (fun o -> pf (nusselt_analog fops t1 t2 t3 o n pts pn_)) os; finish ());
  register "nus_grid" (fun cmd ->
       (* el npoints -> npointsx npointsz, then the sample points *)
       let el = r1 rvec in let np = rnat () in
       start "nus_grid_n"; pn (grid_nx fops el np); pn (grid_nz fops el np); finish ();
       start cmd; p1 pvec (surf_grid fops el np); finish ());
  register "nus_integration" (fun cmd ->
       (* thr_seg thr_dot thr_lag patch_i patch_j normal_i normal_j nsamples -> value *)
       let t1 = rflt () in let t2 = rflt () in let t3 = rflt () in
       let pi = r1 rvec in let pj = r1 rvec in let ni = rvec () in let nj = rvec () in
       let ns = rnat () in
       start cmd; pf (nusselt_integration fops t1 t2 t3 pi pj ni nj ns); finish ());
  register "nus_uff" (fun cmd ->
       (* thres cut thr_seg thr_dot thr_lag src src_n area rcv rcv_n -> universal_ff_full *)
       let th = rflt () in let cut = rflt () in
       let t1 = rflt () in let t2 = rflt () in let t3 = rflt () in
       let src = r1 rvec in let sn = rvec () in let a = rflt () in
       let rcv = r1 rvec in let rn = rvec () in
       start cmd; pf (universal_ff_full fops th cut t1 t2 t3 src sn a rcv rn); finish ());
  register "nus_p2p" (fun cmd ->
       (* thres cut thr_seg thr_dot thr_lag pts[n][nv] normals[n] areas pairs -> form-factor matrix *)
       let th = rflt () in let cut = rflt () in
       let t1 = rflt () in let t2 = rflt () in let t3 = rflt () in
       let pts = r2 rvec in let normals = r1 rvec in let areas = r1 rflt in
       let pairs = r1 (fun () -> let i = rnat () in let j = rnat () in (i, j)) in
       start cmd; p2 pf (patch2patch_ff_full fops th cut t1 t2 t3 pts normals areas pairs); finish ());
  ()
