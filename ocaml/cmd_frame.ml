(* Commands for Model/Frame.v *)
open Model
open Drv_core

let pv ((x, y), z) = pf x; pf y; pf z

let () =
  register "q_walldirs" (fun cmd ->
      let normal = rvec () in let up = rvec () in let dirs = r1 rvec in
      start cmd; List.iter pv (wall_dirs fops normal up dirs); finish ());
  register "q_rot" (fun cmd ->
      let n = rvec () in let u = rvec () in let v = rvec () in
      start cmd; pv (rot fops n u v); pv (rotT fops n u v); finish ());
  ()
