(* Commands for the source-directivity model (Model/Directivity.v). *)
open Model
open Drv_core

let cur_ori : float orientation option ref = ref None
let get_ori () = match !cur_ori with Some x -> x | None -> failwith "no directivity"

(* a scene that carries only what source_dirfac / recv_dirfac read: patch count, band count, centres *)
let bare_scene centers nb =
  { s_np = n_of_int (List.length centers); s_nd = n_of_int 1; s_nb = n_of_int nb;
    s_centers = centers; s_areas = []; s_wall = []; s_visU = []; s_F = []; s_att = [];
    s_tables = []; s_tidx = []; s_in = []; s_out = [] }
let bare_source pos = { src_pos = pos; src_vis = []; src_share = []; src_dirfac = None }

let pvec ((x, y), z) = pf x; pf y; pf z

let () =
  (* receivers (count + vectors), measured frequencies, real table [receiver][frequency], view, up *)
  register "directivity" (fun cmd ->
       let recv = r1 rvec in
       let freqs = r1 rflt in
       let table = r2 rflt in
       let view = rvec () in
       let up = rvec () in
       cur_ori := Some { o_view = view; o_up = up;
                         o_dv = { dv_recv = recv; dv_freqs = freqs; dv_table = table } });
  (* pos, targets -> the unit vectors handed to find_nearest *)
  register "q_framedir" (fun cmd ->
       let o = get_ori () in
       let pos = rvec () in
       let targets = r1 rvec in
       start cmd;
       List.iter (fun t -> pvec (frame_dir fops pos o.o_view o.o_up t)) targets; finish ());
  (* pos, targets -> receiver index per target *)
  register "q_dirindex" (fun cmd ->
       let o = get_ori () in
       let pos = rvec () in
       let targets = r1 rvec in
       start cmd; List.iter (fun t -> pn (dir_index fops o pos t)) targets; finish ());
  (* frequencies -> index of the nearest measured frequency *)
  register "q_freqindex" (fun cmd ->
       let o = get_ori () in
       let fs = r1 rflt in
       start cmd; List.iter (fun f -> pn (freq_index fops o f)) fs; finish ());
  (* pos, targets, frequency -> factor per target *)
  register "q_dirfac" (fun cmd ->
       let o = get_ori () in
       let pos = rvec () in
       let targets = r1 rvec in
       let f = rflt () in
       start cmd; List.iter (fun t -> pf (dirfac fops o pos t f)) targets; finish ());
  (* patch centres, band frequencies, source position -> src_dirfac matrix [patch][band] *)
  register "q_source_dirfac" (fun cmd ->
       let centers = r1 rvec in
       let bandf = r1 rflt in
       let pos = rvec () in
       let sc = bare_scene centers (List.length bandf) in
       start cmd; p2 pf (source_dirfac fops sc bandf (get_ori ()) (bare_source pos)); finish ());
  (* patch centres, band frequencies, source position, receiver position -> rdirfac [band] *)
  register "q_recv_dirfac" (fun cmd ->
       let centers = r1 rvec in
       let bandf = r1 rflt in
       let pos = rvec () in
       let rpos = rvec () in
       let sc = bare_scene centers (List.length bandf) in
       let r = { r_pos = rpos; r_vis = []; r_share = [] } in
       start cmd; p1 pf (recv_dirfac fops sc bandf (get_ori ()) (bare_source pos) r); finish ());
  ()
