(* Commands for the visibility kernels (Model/Visibility.v).
   Every query takes the tolerances explicitly: eps (= epsilon of _project_to_plane) and
   eta (= eta of _point_in_polygon / _basic_visibility). *)
open Model
open Drv_core

let pvec ((x, y), z) = pf x; pf y; pf z
let pmat ((r0, r1), r2) = pvec r0; pvec r1; pvec r2
let pb b = pi_ (if b then 1 else 0)
let rsurf () = let pts = r1 rvec in let n = rvec () in (pts, n)

let () =
  (* n_in n_out -> 9 floats, row major *)
  register "q_vis_rot" (fun cmd ->
       let n_in = rvec () in let n_out = rvec () in
       start cmd; pmat (rotation_matrix fops n_in n_out); finish ());
  (* n_in -> 9 floats (default n_out = +z) *)
  register "q_rotz" (fun cmd ->
       let n_in = rvec () in
       start cmd; pmat (rotation_to_z fops n_in); finish ());
  (* matrix (9 floats) vector -> 3 floats *)
  register "q_mvec" (fun cmd ->
       let r0 = rvec () in let r1 = rvec () in let r2 = rvec () in let v = rvec () in
       start cmd; pvec (mvec fops ((r0, r1), r2) v); finish ());
  (* check_normal eps origin point plane_pt normal -> flag, 3 floats *)
  register "q_proj" (fun cmd ->
       let cn = rbool () in let eps = rflt () in
       let o = rvec () in let p = rvec () in let pp = rvec () in let n = rvec () in
       start cmd;
       (match project_to_plane fops cn eps o p pp n with
        | Some x -> pi_ 1; pvec x
        | None -> pi_ 0; pf 0.0; pf 0.0; pf 0.0);
       finish ());
  (* eps eta poly normal, then k points -> k bools *)
  register "q_pip" (fun cmd ->
       let eps = rflt () in let eta = rflt () in
       let (pts, n) = rsurf () in
       let qs = r1 rvec in
       start cmd; List.iter (fun p -> pb (point_in_polygon fops eps eta p pts n)) qs; finish ());
  (* eps eta surface, then k segments (p q) -> k bools *)
  register "q_bvis" (fun cmd ->
       let eps = rflt () in let eta = rflt () in
       let s = rsurf () in
       let segs = r1 (fun () -> let p = rvec () in let q = rvec () in (p, q)) in
       start cmd; List.iter (fun (p, q) -> pb (basic_visibility fops eps eta p q s)) segs; finish ());
  (* eps eta centers surfaces -> n*n bools (while-loop model) then n*n bools (forallb form) *)
  register "q_vis_p2p" (fun cmd ->
       let eps = rflt () in let eta = rflt () in
       let centers = r1 rvec in
       let surfs = r1 rsurf in
       start cmd;
       p2 pb (check_patch2patch fops eps eta centers surfs);
       List.iteri (fun i ci -> List.iteri (fun j cj ->
           pb (i < j && visible_all fops eps eta surfs ci cj)) centers) centers;
       finish ());
  (* eps eta point centers surfaces -> n bools (while-loop model) then n bools (forallb form) *)
  register "q_pt2p" (fun cmd ->
       let eps = rflt () in let eta = rflt () in
       let p = rvec () in
       let centers = r1 rvec in
       let surfs = r1 rsurf in
       start cmd;
       p1 pb (check_point2patch fops eps eta p centers surfs);
       List.iter (fun c -> pb (visible_all fops eps eta surfs p c)) centers;
       finish ());
  ()
