(* Command for the L2 object state machine (Model/Object.v):
     q_object nw np nvis nops op_1 .. op_nops
   ops:  0 k w_1..w_k tab dirs n fid nb negz   set_wall_brdf
         1 aid fid nb                          set_air_attenuation
         2                                     bake_geometry
         3 src                                 init_source_energy
         4 tid ns order recalc                 calculate_energy_exchange
         5 recv direct                         collect_energy_receiver_mono
         6 / 7                                 from_dict(to_dict()) / from_read(write())
   Output: two lines per op:
     o_step <class> <obs> <field_1> .. <field_25>
     o_check <class of check() on the state after the op>
   obs / field = "None" or kind:own:shape:term  (shape d1xd2.. or "-"; term without blanks). *)
open Model
open Drv_core

let sym_name = function
  | SGeo -> "geo" | SFreq -> "freq" | STab -> "tab" | SDefTab -> "deftab" | SDirs -> "dirs"
  | SNoneEl -> "noneel" | SAtt -> "att" | SZeroAtt -> "zeroatt" | SSrc -> "src" | SRecv -> "recv"
  | SC -> "c" | SDt -> "dt" | SDur -> "dur" | SList -> "list" | SPair -> "pair" | SIdx -> "idx"
  | SNPatches -> "npatches" | SVis -> "vis" | SPairs -> "pairs" | SFF -> "ff" | SP2O -> "p2o"
  | SP2OZero -> "p2ozero" | STilde -> "tilde" | SSrcVis -> "srcvis" | SE0 -> "e0" | SDist -> "dist"
  | SEtc0 -> "etc0" | SEtc -> "etc" | SCollect -> "collect" | SDirect -> "direct" | SNone -> "none"

let rec term_str (TApp (f, nums, args)) =
  let b = Buffer.create 64 in
  Buffer.add_string b (sym_name f);
  if nums <> [] then begin
    Buffer.add_char b '[';
    Buffer.add_string b (String.concat "," (List.map (fun n -> string_of_int (int_of_n n)) nums));
    Buffer.add_char b ']'
  end;
  if args <> [] then begin
    Buffer.add_char b '(';
    Buffer.add_string b (String.concat "," (List.map term_str args));
    Buffer.add_char b ')'
  end;
  Buffer.contents b

let kind_str = function
  | KArrB -> "arrb" | KArrI -> "arri" | KArrF -> "arrf" | KObjArr -> "objarr" | KList -> "list"
  | KInt -> "int" | KFloat -> "float" | KObj -> "obj"
let shape_str sh =
  if sh = [] then "-" else String.concat "x" (List.map (fun n -> string_of_int (int_of_n n)) sh)
let own_str = function Fresh -> "F" | Alias -> "A"
let class_str = function
  | ROk -> "Ok" | RAssertion -> "AssertionError" | RValue -> "ValueError"
  | RAttribute -> "AttributeError" | RType -> "TypeError" | RUnspec -> "Unspec"

let desc_str = function
  | None -> "None"
  | Some d -> String.concat ":" [kind_str d.dk; own_str d.dow; shape_str d.dsh; term_str d.dv]
let obs_str = function
  | ONone -> "None"
  | OVal (sh, v) -> String.concat ":" ["arrf"; "F"; shape_str sh; term_str v]

let read_op () =
  match rint () with
  | 0 -> let walls = r1 rnat in
    let tab = rnat () in let dirs = rnat () in let n = rnat () in
    let fid = rnat () in let nb = rnat () in let negz = rbool () in
    OpSetBrdf (walls, tab, dirs, n, fid, nb, negz)
  | 1 -> let aid = rnat () in let fid = rnat () in let nb = rnat () in OpSetAtt (aid, fid, nb)
  | 2 -> OpBake
  | 3 -> OpInitSource (rnat ())
  | 4 -> let tid = rnat () in let ns = rnat () in let order = rnat () in let rc = rbool () in
    OpExchange (tid, ns, order, rc)
  | 5 -> let recv = rnat () in let d = rbool () in OpCollect (recv, d)
  | 6 -> OpDictRoundTrip
  | 7 -> OpFileRoundTrip
  | k -> failwith ("q_object: unknown op " ^ string_of_int k)

let () =
  register "q_object" (fun _cmd ->
      let nw = rnat () in let np = rnat () in let nvis = rnat () in
      let g = { g_nw = nw; g_np = np; g_nvis = nvis } in
      let nops = rint () in
      let ops = rlist nops read_op in
      let tr = otrace g (init g) ops in
      List.iter (fun ((c, s), ob) ->
          start "o_step";
          Buffer.add_char buf ' '; Buffer.add_string buf (class_str c);
          Buffer.add_char buf ' '; Buffer.add_string buf (obs_str ob);
          List.iter (fun f -> Buffer.add_char buf ' '; Buffer.add_string buf (desc_str (get f s)))
            all_fields;
          finish ();
          (* what check() -- run by every restore -- answers for this state *)
          start "o_check";
          Buffer.add_char buf ' '; Buffer.add_string buf (class_str (ocheck g s));
          finish ()) tr;
      start "o_end"; finish ())
