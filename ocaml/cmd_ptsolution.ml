(* Commands for Model/PtSolution.v: _sphere_tangent_vector, pt_solution (both modes),
   _polygon_area, _source2patch_energy_universal, _patch2receiver_energy_universal. *)
open Model
open Drv_core

let pvec ((x, y), z) = pf x; pf y; pf z

(* a scene that carries only what energy0 / src_dist read: centres and attenuation *)
let mini_scene centers att =
  { s_np = n_of_int (List.length centers); s_nd = n_of_int 1; s_nb = n_of_int (List.length att);
    s_centers = centers; s_areas = []; s_wall = []; s_visU = []; s_F = []; s_att = att;
    s_tables = []; s_tidx = []; s_in = []; s_out = [] }

let () =
  register "q_tangent" (fun cmd ->
       (* thr, then k pairs (v0, v1) -> k tangent vectors *)
       let thr = rflt () in
       let pairs = r1 (fun () -> let a = rvec () in let b = rvec () in (a, b)) in
       start cmd; List.iter (fun (a, b) -> pvec (sphere_tangent fops thr a b)) pairs; finish ());
  register "q_ptsol" (fun cmd ->
       (* thr point vertices -> n, on-sphere vertices, angles, angle sum, excess, area,
          share (source mode), share (receiver mode) *)
       let thr = rflt () in
       let pt = rvec () in
       let pts = r1 rvec in
       let s = on_sphere fops pt pts in
       start cmd;
       pi_ (List.length pts);
       List.iter pvec s;
       List.iteri (fun i _ -> pf (angle_at fops thr s (n_of_int i))) s;
       pf (angle_sum fops thr s);
       pf (excess fops thr pt pts);
       pf (poly_area fops pts);
       pf (pt_solution fops thr false pt pts);
       pf (pt_solution fops thr true pt pts);
       finish ());
  register "q_s2p" (fun cmd ->
       (* thr pos centres patches[np][nv] vis att -> energy[np][nb], distance[np] *)
       let thr = rflt () in
       let pos = rvec () in
       let centers = r1 rvec in
       let patches = r2 rvec in
       let vis = r1 rbool in
       let att = r1 rflt in
       let sc = mini_scene centers att in
       start cmd;
       List.iteri (fun j _ ->
           List.iteri (fun b _ -> pf (s2p_energy fops thr sc pos vis patches (n_of_int j) (n_of_int b))) att)
         centers;
       List.iteri (fun j _ -> pf (s2p_dist fops thr sc pos vis patches (n_of_int j))) centers;
       finish ());
  register "q_p2r" (fun cmd ->
       (* thr pos patches[np][nv] vis -> factor[np] *)
       let thr = rflt () in
       let pos = rvec () in
       let patches = r2 rvec in
       let vis = r1 rbool in
       start cmd;
       List.iteri (fun k _ -> pf (p2r_factor fops thr pos vis patches (n_of_int k))) patches;
       finish ());
  ()
