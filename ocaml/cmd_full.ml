(* Commands for Model/Full.v: the composed model from wall polygons to the pipeline scene. *)
open Model
open Drv_core

let cur_room : float room option ref = ref None

let rquad () =
  let a = rvec () in let b = rvec () in let c = rvec () in let d = rvec () in
  { q0 = a; q1 = b; q2 = c; q3 = d }

let read_room () =
  let walls = r1 rquad in
  let normals = r1 rvec in
  let ups = r1 rvec in
  let ps = rflt () in
  let rin = r1 rvec in
  let rout = r1 rvec in
  let tables = r4 rflt in
  let tidx = r1 rnat in
  let att = r1 rflt in
  let nb = rnat () in
  let thr = rflt () in let eps = rflt () in let eta = rflt () in
  let thres = rflt () in let cut = rflt () in
  let tseg = rflt () in let tdot = rflt () in let tlag = rflt () in
  { rm_walls = walls; rm_normals = normals; rm_ups = ups; rm_patch_size = ps;
    rm_ref_in = rin; rm_ref_out = rout; rm_tables = tables; rm_tidx = tidx; rm_att = att;
    rm_nb = nb; rm_thr = thr; rm_eps = eps; rm_eta = eta;
    rm_thres = thres; rm_cut = cut; rm_thr_seg = tseg; rm_thr_dot = tdot; rm_thr_lag = tlag }

let pv ((x, y), z) = pf x; pf y; pf z
let pb b = pi_ (if b then 1 else 0)

let () =
  (* room <data>: installs the composed scene as the current scene of cmd_scene *)
  register "room" (fun cmd ->
      let rm = read_room () in
      cur_room := Some rm;
      Cmd_scene.cur_scene := Some (room_scene fops rm));
  (* geometry the composed model derived from the polygons *)
  register "q_room_geom" (fun cmd ->
      let sc = Cmd_scene.get Cmd_scene.cur_scene "scene" in
      start cmd; pn sc.s_np; pn sc.s_nd;
      List.iter pv sc.s_centers; p1 pf sc.s_areas; p1 pn sc.s_wall; finish ();
      start "q_room_vis"; p2 pb sc.s_visU; finish ();
      start "q_room_ff"; p2 pf sc.s_F; finish ();
      start "q_room_dirs"; List.iter (List.iter pv) sc.s_in; List.iter (List.iter pv) sc.s_out; finish ());
  (* source / receiver derived by the model: visibility against the walls + pt_solution shares *)
  register "room_source" (fun cmd ->
      let pos = rvec () in
      let s = room_source fops (Cmd_scene.get cur_room "room") pos in
      Cmd_scene.cur_source := Some s;
      start cmd; p1 pb s.src_vis; p1 pf s.src_share; finish ());
  register "room_receiver" (fun cmd ->
      let pos = rvec () in
      let r = room_receiver fops (Cmd_scene.get cur_room "room") pos in
      Cmd_scene.cur_recv := Some r;
      start cmd; p1 pb r.r_vis; p1 pf r.r_share; finish ());
  ()
