(* Main loop: reads the case file (argv[1] or stdin) and dispatches each command token. *)
open Drv_core
let () =
  let ic = if Array.length Sys.argv > 1 then open_in Sys.argv.(1) else stdin in
  load ic;
  while has_next () do
    let cmd = next () in
    match Hashtbl.find_opt commands cmd with
    | Some f -> f cmd
    | None -> failwith ("unknown command " ^ cmd)
  done
