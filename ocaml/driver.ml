(* Driver for the extracted Gallina models: float instance of [ops], a token
   reader for case files written by the Python harness, one result line per query.
   Floats travel as C99 hex literals in both directions (no decimal rounding). *)
open Model

let rec n_of_int i = if i <= 0 then O else S (n_of_int (i - 1))
let rec int_of_n = function O -> 0 | S n -> 1 + int_of_n n

let fops : float ops = {
  tzero = 0.0; tone = 1.0;
  tadd = ( +. ); tmul = ( *. ); tsub = ( -. ); topp = (fun x -> -. x);
  tdiv = ( /. );
  tleb = (fun a b -> a <= b); tltb = (fun a b -> a < b); teqb = (fun a b -> a = b);
  tofnat = (fun n -> float_of_int (int_of_n n));
  ttrunc = (fun x -> n_of_int (int_of_float x));
  tceil = (fun x -> n_of_int (int_of_float (ceil x)));
  tsqrt = sqrt; texp = exp; tln = log; tacos = acos; tatan = atan;
  tpi = 4.0 *. atan 1.0;
  tabs = abs_float }

(* ---- token reader ---- *)
let tokens : string Queue.t = Queue.create ()
let load ic =
  (try
     while true do
       let line = input_line ic in
       List.iter (fun s -> if s <> "" then Queue.add s tokens)
         (String.split_on_char ' ' line)
     done
   with End_of_file -> ())
let next () = Queue.pop tokens
let has_next () = not (Queue.is_empty tokens)
let rint () = int_of_string (next ())
let rnat () = n_of_int (rint ())
let rflt () = float_of_string (next ())
let rbool () = rint () <> 0
let rlist n f = List.init n (fun _ -> f ())
(* arrays with explicit shape header: rank then dims *)
let r1 f = let n = rint () in rlist n f
let r2 f = let a = rint () in let b = rint () in rlist a (fun () -> rlist b f)
let r3 f = let a = rint () in let b = rint () in let c = rint () in
  rlist a (fun () -> rlist b (fun () -> rlist c f))
let r4 f = let a = rint () in let b = rint () in let c = rint () in let d = rint () in
  rlist a (fun () -> rlist b (fun () -> rlist c (fun () -> rlist d f)))
let rvec () = let x = rflt () in let y = rflt () in let z = rflt () in ((x, y), z)
let ropt f = if rbool () then Some (f ()) else None

(* ---- printers ---- *)
let buf = Buffer.create 65536
let pf x = Buffer.add_char buf ' '; Buffer.add_string buf (Printf.sprintf "%h" x)
let pi_ n = Buffer.add_char buf ' '; Buffer.add_string buf (string_of_int n)
let pn n = pi_ (int_of_n n)
let start name = Buffer.clear buf; Buffer.add_string buf name
let finish () = print_string (Buffer.contents buf); print_newline ()
let p1 f l = List.iter f l
let p2 f l = List.iter (p1 f) l
let p3 f l = List.iter (p2 f) l
let p4 f l = List.iter (p3 f) l

(* ---- session state ---- *)
let cur_scene : float scene option ref = ref None
let cur_timing : float timing option ref = ref None
let cur_source : float source option ref = ref None
let cur_recv : float receiver option ref = ref None
let cur_E : float arr4 option ref = ref None
let get r what = match !r with Some x -> x | None -> failwith ("no " ^ what)

let read_scene () =
  let np = rnat () in let nd = rnat () in let nb = rnat () in
  let centers = r1 rvec in
  let areas = r1 rflt in
  let wall = r1 rnat in
  let visU = r2 rbool in
  let f = r2 rflt in
  let att = r1 rflt in
  let tables = r4 rflt in
  let tidx = r1 rnat in
  let ins = r2 rvec in
  let outs = r2 rvec in
  { s_np = np; s_nd = nd; s_nb = nb; s_centers = centers; s_areas = areas; s_wall = wall;
    s_visU = visU; s_F = f; s_att = att; s_tables = tables; s_tidx = tidx; s_in = ins; s_out = outs }

let read_source () =
  let pos = rvec () in
  let vis = r1 rbool in
  let share = r1 rflt in
  let df = ropt (fun () -> r2 rflt) in
  { src_pos = pos; src_vis = vis; src_share = share; src_dirfac = df }

let read_receiver () =
  let pos = rvec () in
  let vis = r1 rbool in
  let share = r1 rflt in
  { r_pos = pos; r_vis = vis; r_share = share }

let () =
  let ic = if Array.length Sys.argv > 1 then open_in Sys.argv.(1) else stdin in
  load ic;
  while has_next () do
    let cmd = next () in
    (match cmd with
     | "scene" -> cur_scene := Some (read_scene ())
     | "timing" ->
       let c = rflt () in let dt = rflt () in let dur = rflt () in
       cur_timing := Some { t_c = c; t_dt = dt; t_dur = dur }
     | "source" -> cur_source := Some (read_source ())
     | "receiver" -> cur_recv := Some (read_receiver ())
     | "set_E" -> cur_E := Some (r4 rflt)
     | "q_nsamples" -> start cmd; pn (n_samples fops (get cur_timing "timing")); finish ()
     | "q_pairs" ->
       start cmd; List.iter (fun (i, j) -> pn i; pn j) (vis_pairs (get cur_scene "scene")); finish ()
     | "q_tilde" -> start cmd; p4 pf (tilde fops (get cur_scene "scene")); finish ()
     | "q_p2o" -> start cmd; p2 pn (p2o fops (get cur_scene "scene")); finish ()
     | "q_delaymat" ->
       start cmd; p2 pn (delay_matrix fops (get cur_scene "scene") (get cur_timing "timing")); finish ()
     | "q_e0dir" ->
       start cmd; p3 pf (e0dir fops (get cur_scene "scene") (get cur_source "source")); finish ()
     | "q_delay0" ->
       start cmd;
       p1 pn (delay0 fops (get cur_scene "scene") (get cur_timing "timing") (get cur_source "source"));
       finish ()
     | "q_srcdist" ->
       let sc = get cur_scene "scene" and s = get cur_source "source" in
       start cmd;
       List.iteri (fun j _ -> pf (src_dist fops sc s (n_of_int j))) sc.s_centers; finish ()
     | "q_hist" ->
       let k = rnat () in
       let e = patch_hist fops (get cur_scene "scene") (get cur_timing "timing")
           (get cur_source "source") k in
       cur_E := Some e; start cmd; p4 pf e; finish ()
     | "q_patchwise" ->
       start cmd;
       p3 pf (patchwise fops (get cur_scene "scene") (get cur_timing "timing")
                (get cur_E "E") (get cur_recv "receiver")); finish ()
     | "q_mono" ->
       let direct = rbool () in
       let df = ropt (fun () -> r1 rflt) in
       start cmd;
       p2 pf (mono fops (get cur_scene "scene") (get cur_timing "timing") (get cur_E "E")
                (get cur_source "source") (get cur_recv "receiver") direct df); finish ()
     | "q_exchange" ->
       (* stand-alone kernel: K np nd nb N, pairs, e0, delay0, fft, p2o, delay *)
       let k = rnat () in let np = rnat () in let nd = rnat () in let nb = rnat () in
       let n = rnat () in
       let pairs = r1 (fun () -> let i = rnat () in let j = rnat () in (i, j)) in
       let e0 = r3 rflt in let d0 = r1 rnat in let fft = r4 rflt in
       let p2o_ = r2 rnat in let dl = r2 rnat in
       start cmd; p4 pf (exchange fops k pairs np nd nb n e0 d0 fft p2o_ dl); finish ()
     | "q_shift" ->
       let n = rnat () in let d = rnat () in let h = r1 rflt in
       start cmd; p1 pf (shift_trunc fops n d h); finish ()
     | "q_delays" ->
       (* distance c dt -> floor bin, ceil bin *)
       let d = rflt () in let c = rflt () in let dt = rflt () in
       start cmd; pn (delay_floor fops d c dt); pn (delay_ceil fops d c dt); finish ()
     | "q_nearest" ->
       let dirs = r1 rvec in let v = rvec () in
       start cmd; pn (nearest fops dirs v); finish ()
     | "q_centroid_area" ->
       let pts = r1 rvec in
       start cmd;
       let ((x, y), z) = centroid fops pts in pf x; pf y; pf z;
       (match pts with p0 :: r -> pf (fan_area fops p0 r) | [] -> pf 0.0); finish ()
     | _ -> failwith ("unknown command " ^ cmd))
  done
