(* Commands for the pipeline models (Model/Exchange.v, Model/Scene.v). *)
open Model
open Drv_core

(* ---- session state ---- *)
let cur_scene : float scene option ref = ref None
let cur_timing : float timing option ref = ref None
let cur_source : float source option ref = ref None
let cur_recv : float receiver option ref = ref None
let cur_E : float arr4 option ref = ref None
let get r what = match !r with Some x -> x | None -> failwith ("no " ^ what)

let read_scene () =
  let np = rnat () in let nd = rnat () in let nb = rnat () in
  let centers = r1 rvec in
  let areas = r1 rflt in
  let wall = r1 rnat in
  let visU = r2 rbool in
  let f = r2 rflt in
  let att = r1 rflt in
  let tables = r4 rflt in
  let tidx = r1 rnat in
  let ins = r2 rvec in
  let outs = r2 rvec in
  { s_np = np; s_nd = nd; s_nb = nb; s_centers = centers; s_areas = areas; s_wall = wall;
    s_visU = visU; s_F = f; s_att = att; s_tables = tables; s_tidx = tidx; s_in = ins; s_out = outs }

let read_source () =
  let pos = rvec () in
  let vis = r1 rbool in
  let share = r1 rflt in
  let df = ropt (fun () -> r2 rflt) in
  { src_pos = pos; src_vis = vis; src_share = share; src_dirfac = df }

let read_receiver () =
  let pos = rvec () in
  let vis = r1 rbool in
  let share = r1 rflt in
  { r_pos = pos; r_vis = vis; r_share = share }

let () =
  register "scene" (fun cmd -> cur_scene := Some (read_scene ()));
  register "timing" (fun cmd ->
       let c = rflt () in let dt = rflt () in let dur = rflt () in
       cur_timing := Some { t_c = c; t_dt = dt; t_dur = dur });
  register "source" (fun cmd -> cur_source := Some (read_source ()));
  register "receiver" (fun cmd -> cur_recv := Some (read_receiver ()));
  register "set_E" (fun cmd -> cur_E := Some (r4 rflt));
  register "q_nsamples" (fun cmd -> start cmd; pn (n_samples fops (get cur_timing "timing")); finish ());
  register "q_pairs" (fun cmd ->
       start cmd; List.iter (fun (i, j) -> pn i; pn j) (vis_pairs (get cur_scene "scene")); finish ());
  register "q_tilde" (fun cmd -> start cmd; p4 pf (tilde fops (get cur_scene "scene")); finish ());
  register "q_p2o" (fun cmd -> start cmd; p2 pn (p2o fops (get cur_scene "scene")); finish ());
  register "q_delaymat" (fun cmd ->
       start cmd; p2 pn (delay_matrix fops (get cur_scene "scene") (get cur_timing "timing")); finish ());
  register "q_e0dir" (fun cmd ->
       start cmd; p3 pf (e0dir fops (get cur_scene "scene") (get cur_source "source")); finish ());
  register "q_delay0" (fun cmd ->
       start cmd;
       p1 pn (delay0 fops (get cur_scene "scene") (get cur_timing "timing") (get cur_source "source"));
       finish ());
  register "q_srcdist" (fun cmd ->
       let sc = get cur_scene "scene" and s = get cur_source "source" in
       start cmd;
       List.iteri (fun j _ -> pf (src_dist fops sc s (n_of_int j))) sc.s_centers; finish ());
  register "q_hist" (fun cmd ->
       let k = rnat () in
       let e = patch_hist fops (get cur_scene "scene") (get cur_timing "timing")
           (get cur_source "source") k in
       cur_E := Some e; start cmd; p4 pf e; finish ());
  register "q_patchwise" (fun cmd ->
       start cmd;
       p3 pf (patchwise fops (get cur_scene "scene") (get cur_timing "timing")
                (get cur_E "E") (get cur_recv "receiver")); finish ());
  register "q_mono" (fun cmd ->
       let direct = rbool () in
       let df = ropt (fun () -> r1 rflt) in
       start cmd;
       p2 pf (mono fops (get cur_scene "scene") (get cur_timing "timing") (get cur_E "E")
                (get cur_source "source") (get cur_recv "receiver") direct df); finish ());
  register "q_exchange" (fun cmd ->
       (* stand-alone kernel: K np nd nb N, pairs, e0, delay0, fft, p2o, delay *)
       let k = rnat () in let np = rnat () in let nd = rnat () in let nb = rnat () in
       let n = rnat () in
       let pairs = r1 (fun () -> let i = rnat () in let j = rnat () in (i, j)) in
       let e0 = r3 rflt in let d0 = r1 rnat in let fft = r4 rflt in
       let p2o_ = r2 rnat in let dl = r2 rnat in
       start cmd; p4 pf (exchange fops k pairs np nd nb n e0 d0 fft p2o_ dl); finish ());
  register "q_shift" (fun cmd ->
       let n = rnat () in let d = rnat () in let h = r1 rflt in
       start cmd; p1 pf (shift_trunc fops n d h); finish ());
  register "q_delays" (fun cmd ->
       (* distance c dt -> floor bin, ceil bin *)
       let d = rflt () in let c = rflt () in let dt = rflt () in
       start cmd; pn (delay_floor fops d c dt); pn (delay_ceil fops d c dt); finish ());
  register "q_nearest" (fun cmd ->
       let dirs = r1 rvec in let v = rvec () in
       start cmd; pn (nearest fops dirs v); finish ());
  register "q_centroid_area" (fun cmd ->
       let pts = r1 rvec in
       start cmd;
       let ((x, y), z) = centroid fops pts in pf x; pf y; pf z;
       (match pts with p0 :: r -> pf (fan_area fops p0 r) | [] -> pf 0.0); finish ());
  ()
