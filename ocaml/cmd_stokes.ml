(* Commands for the Stokes form-factor model and the form-factor assembly (Model/Stokes.v). *)
open Model
open Drv_core

let pvec ((x, y), z) = pf x; pf y; pf z

let () =
  register "q_sample" (fun cmd ->
       (* npoints, el -> points, then connectivity rows *)
       let np = rnat () in let el = r1 rvec in
       start cmd; p1 pvec (sample_pts fops np el); finish ();
       start "q_sample_conn"; p2 pn (sample_conn np (n_of_int (List.length el))); finish ());
  register "q_boole" (fun cmd ->
       let x = r1 rflt in let y = r1 rflt in
       start cmd; pf (newton_cotes_4th fops x y); finish ());
  register "q_entries" (fun cmd ->
       let a = r1 rvec in let b = r1 rvec in
       start cmd; p2 pf (load_stokes_entries fops a b); finish ());
  register "q_stokes" (fun cmd ->
       (* cut, patch_i, patch_j, area_i -> stokes_integration, stokes_nocut *)
       let cut = rflt () in let pi = r1 rvec in let pj = r1 rvec in let a = rflt () in
       start cmd; pf (stokes_integration fops cut pi pj a); pf (stokes_nocut fops pi pj a); finish ());
  register "q_coinc" (fun cmd ->
       let th = rflt () in let p0 = r1 rvec in let p1_ = r1 rvec in
       start cmd; pi_ (if coincidence_check fops th p0 p1_ then 1 else 0); finish ());
  register "q_branch" (fun cmd ->
       (* thres cut src area rcv -> 1 value (Stokes) | 0 0 (Nusselt) *)
       let th = rflt () in let cut = rflt () in
       let src = r1 rvec in let a = rflt () in let rcv = r1 rvec in
       start cmd;
       (match universal_branch fops th cut src a rcv with
        | Inl v -> pi_ 1; pf v
        | Inr _ -> pi_ 0; pf 0.0);
       finish ());
  register "q_p2p" (fun cmd ->
       (* thres cut pts[n][nv] areas pairs nus -> form-factor matrix, then ff_full matrix,
          then the branch taken per listed pair (1 Stokes / 0 Nusselt) *)
       let th = rflt () in let cut = rflt () in
       let pts = r2 rvec in let areas = r1 rflt in
       let pairs = r1 (fun () -> let i = rnat () in let j = rnat () in (i, j)) in
       let nus = r2 rflt in
       let f = patch2patch_ff fops th cut pts areas pairs nus in
       start cmd; p2 pf f; finish ();
       let n = List.length areas in
       let sc = { s_np = n_of_int n; s_nd = O; s_nb = O; s_centers = []; s_areas = areas; s_wall = [];
                  s_visU = []; s_F = f; s_att = []; s_tables = []; s_tidx = []; s_in = []; s_out = [] } in
       start "q_p2p_full";
       for i = 0 to n - 1 do for j = 0 to n - 1 do
           pf (if i = j then 0.0 else ff_full fops sc (n_of_int i) (n_of_int j)) done done;
       finish ();
       start "q_p2p_branch";
       List.iter (fun (i, j) ->
           let gi k = List.nth pts (int_of_n k) in
           match universal_branch fops th cut (gi i) (List.nth areas (int_of_n i)) (gi j) with
           | Inl _ -> pi_ 1 | Inr _ -> pi_ 0) pairs;
       finish ());
  ()
