(* Core of the driver for the extracted Gallina models: float instance of [ops], a token
   reader for case files written by the Python harness, result printers, command registry.
   Floats travel as C99 hex literals in both directions (no decimal rounding). *)
open Model

let rec n_of_int i = if i <= 0 then O else S (n_of_int (i - 1))
let rec int_of_n = function O -> 0 | S n -> 1 + int_of_n n

let fops : float ops = {
  tzero = 0.0; tone = 1.0;
  tadd = ( +. ); tmul = ( *. ); tsub = ( -. ); topp = (fun x -> -. x);
  tdiv = ( /. );
  tleb = (fun a b -> a <= b); tltb = (fun a b -> a < b); teqb = (fun a b -> a = b);
  tofnat = (fun n -> float_of_int (int_of_n n));
  ttrunc = (fun x -> n_of_int (int_of_float x));
  tceil = (fun x -> n_of_int (int_of_float (ceil x)));
  tsqrt = sqrt; texp = exp; tln = log; tacos = acos; tatan = atan;
  tpi = 4.0 *. atan 1.0;
  tabs = abs_float }

(* ---- token reader ---- *)
let tokens : string Queue.t = Queue.create ()
let load ic =
  (try
     while true do
       let line = input_line ic in
       List.iter (fun s -> if s <> "" then Queue.add s tokens)
         (String.split_on_char ' ' line)
     done
   with End_of_file -> ())
let next () = Queue.pop tokens
let has_next () = not (Queue.is_empty tokens)
let rint () = int_of_string (next ())
let rnat () = n_of_int (rint ())
let rflt () = float_of_string (next ())
let rbool () = rint () <> 0
let rlist n f = List.init n (fun _ -> f ())
(* arrays with explicit shape header: rank then dims *)
let r1 f = let n = rint () in rlist n f
let r2 f = let a = rint () in let b = rint () in rlist a (fun () -> rlist b f)
let r3 f = let a = rint () in let b = rint () in let c = rint () in
  rlist a (fun () -> rlist b (fun () -> rlist c f))
let r4 f = let a = rint () in let b = rint () in let c = rint () in let d = rint () in
  rlist a (fun () -> rlist b (fun () -> rlist c (fun () -> rlist d f)))
let rvec () = let x = rflt () in let y = rflt () in let z = rflt () in ((x, y), z)
let ropt f = if rbool () then Some (f ()) else None

(* ---- printers ---- *)
let buf = Buffer.create 65536
let pf x = Buffer.add_char buf ' '; Buffer.add_string buf (Printf.sprintf "%h" x)
let pi_ n = Buffer.add_char buf ' '; Buffer.add_string buf (string_of_int n)
let pn n = pi_ (int_of_n n)
let start name = Buffer.clear buf; Buffer.add_string buf name
let finish () = print_string (Buffer.contents buf); print_newline ()
let p1 f l = List.iter f l
let p2 f l = List.iter (p1 f) l
let p3 f l = List.iter (p2 f) l
let p4 f l = List.iter (p3 f) l


(* ---- command registry: each cmd_*.ml registers its commands at load time ---- *)
let commands : (string, string -> unit) Hashtbl.t = Hashtbl.create 64
let register name (f : string -> unit) =
  if Hashtbl.mem commands name then failwith ("duplicate driver command " ^ name);
  Hashtbl.replace commands name f
