(* Commands for the patch-subdivision model (Model/Tiling.v). *)
open Model
open Drv_core

let rquad () =
  let a = rvec () in let b = rvec () in let c = rvec () in let d = rvec () in
  { q0 = a; q1 = b; q2 = c; q3 = d }
let pvec ((x, y), z) = pf x; pf y; pf z
let pquad q = pvec q.q0; pvec q.q1; pvec q.q2; pvec q.q3

let () =
  (* q_tiling: quad p -> defined flag, _total_number_of_patches, len(_create_patches); then the points *)
  register "q_tiling" (fun cmd ->
       let q = rquad () in let p = rflt () in
       let l = create_patches fops q p in
       start "tiling_meta";
       pi_ (if tiling_defined fops q p then 1 else 0);
       pn (total_number_of_patches fops q p); pi_ (List.length l); finish ();
       start "tiling_pts"; List.iter pquad l; finish ());
  (* q_kang: quad p -> number of patches; then the points *)
  register "q_kang" (fun cmd ->
       let q = rquad () in let p = rflt () in
       let l = kang_patches fops q p in
       start "kang_meta"; pi_ (List.length l); finish ();
       start "kang_pts"; List.iter pquad l; finish ());
  (* q_process: walls normals p -> n_patches, len(points); wall ids; points; normals *)
  register "q_process" (fun cmd ->
       let walls = r1 rquad in let normals = r1 rvec in let p = rflt () in
       let r = process fops walls normals p in
       start "process_meta"; pn r.pr_n; pi_ (List.length r.pr_points); finish ();
       start "process_ids"; List.iter pn r.pr_wall_ids; finish ();
       start "process_pts"; List.iter pquad r.pr_points; finish ();
       start "process_normals"; List.iter pvec r.pr_normals; finish ());
  (* q_patch_geom: quads -> centers; areas *)
  register "q_patch_geom" (fun cmd ->
       let l = r1 rquad in
       start "geom_centers"; List.iter (fun q -> pvec (patch_center fops q)) l; finish ();
       start "geom_areas"; List.iter (fun q -> pf (patch_area fops q)) l; finish ());
  ()
