(* Commands for the Kang engine model (Model/Kang.v). *)
open Model
open Drv_core

let kang_sc : float kscene option ref = ref None
let kang_E : float kstate list option ref = ref None
let kget r what = match !r with Some x -> x | None -> failwith ("no " ^ what)
let rvecs () = let n = rint () in rlist n rvec

let read_kwall () =
  let centers = rvecs () in
  let sizes = rvecs () in
  let normal = rvec () in
  let wcenter = rvec () in
  let maxsize = rflt () in
  let oth = r1 rnat in
  let scat = r1 rflt in
  let alpha = r1 rflt in
  let att = r1 rflt in
  { kw_centers = centers; kw_sizes = sizes; kw_normal = normal; kw_wcenter = wcenter;
    kw_maxsize = maxsize; kw_others = oth; kw_scat = scat; kw_alpha = alpha; kw_att = att }

let read_kscene () =
  let n = rint () in
  let walls = rlist n read_kwall in
  let nb = rnat () in
  let c = rflt () in let fs = rflt () in let len = rflt () in
  let src = rvec () in let power = rflt () in
  { ks_walls = walls; ks_nb = nb; ks_c = c; ks_fs = fs; ks_len = len; ks_src = src; ks_power = power }

let () =
  register "kang_scene" (fun cmd -> kang_sc := Some (read_kscene ()); kang_E := None);
  register "q_kang_N" (fun cmd -> start cmd; pn (kN fops (kget kang_sc "kang scene")); finish ());
  register "q_kang_ff" (fun cmd ->
      start cmd; p3 pf (kang_ffs fops (kget kang_sc "kang scene")); finish ());
  register "q_kang_init" (fun cmd ->
      let sc = kget kang_sc "kang scene" in
      start cmd;
      List.iteri (fun w wl ->
          List.iteri (fun r _ ->
              pn (kdelay0 fops sc (n_of_int w) (n_of_int r));
              for b = 0 to int_of_n sc.ks_nb - 1 do
                pf (ke0 fops sc (n_of_int w) (n_of_int r) (n_of_int b))
              done) wl.kw_centers) sc.ks_walls;
      finish ());
  register "q_kang_run" (fun cmd ->
      let k = rnat () in
      let e = kang_run fops (kget kang_sc "kang scene") k in
      kang_E := Some e; start cmd; List.iter (p4 pf) e; finish ());
  (* recursion on supplied data: form-factor matrices, source->patch bins, order-0 energies *)
  register "q_kang_run_data" (fun cmd ->
      let sc = kget kang_sc "kang scene" in
      let k = rnat () in
      let n = rnat () in
      let nwalls = List.length sc.ks_walls in
      let ffs = rlist nwalls (fun () -> r2 rflt) in
      let d0 = rlist nwalls (fun () -> r1 rint) in
      let e0 = rlist nwalls (fun () -> r2 rflt) in
      let d0f w r = n_of_int (List.nth (List.nth d0 (int_of_n w)) (int_of_n r)) in
      let e0f w r b = List.nth (List.nth (List.nth e0 (int_of_n w)) (int_of_n r)) (int_of_n b) in
      let init = kinit_with fops sc d0f e0f n in
      let e = korders_from fops sc n ffs init k in
      kang_E := Some e; start cmd; List.iter (p4 pf) e; finish ());
  register "q_kang_resp" (fun cmd ->
      let k = rnat () in
      let ignore_direct = rbool () in
      let recv = rvec () in
      start cmd;
      p2 pf (kang_resp fops (kget kang_sc "kang scene") (kget kang_E "kang E") k recv ignore_direct);
      finish ())
