(** * Source directivity (definitions only).

    [sound_object._get_metrics] followed by [pf.Coordinates.from_spherical_elevation(az, el, 1)]
    in [DirectivityMS.get_directivity], [SoundSource.get_directivity], the normalisation of
    view/up in [SoundObject.__init__], and the way the factors enter the pipeline
    ([init_source_energy], [calculate_direct_sound]).

    The code computes, with d = target - position,
        w = (<d, view x up>, <d, up>, <d, -view>),
        az = atan2(-w_x, -w_z),  el = asin(w_y / sqrt(<w,w>)),
    and looks up the receiver nearest to (cos el cos az, cos el sin az, sin el).  On the
    unit sphere that point is (-w_z, -w_x, w_y) / sqrt(<w,w>): the model is this trig-free
    form (the correspondence run, not a theorem, ties it to the atan2/asin/cos/sin chain).
    The KD-tree [find_nearest] is the exhaustive first argmin of the squared distance. *)
From Coq Require Import List Arith Bool.
Import ListNotations.
From SV Require Import Base.Ops Base.Arr Model.Vec3 Model.Exchange Model.Scene.

Section Directivity.
  Context {T : Type} {O : Ops T}.

  Definition vopp (a : @vec T) : vec := mkv (- vx a)%T (- vy a)%T (- vz a)%T.

  (** [SoundObject.__init__]: [v /= np.sqrt(np.dot(v, v))] *)
  Definition unit_of (a : @vec T) : vec := vdivs a (tsqrt (vdot a a)).

  (** [_get_metrics]: coordinates of the direction in the frame x' = view x up, y' = up, z' = -view *)
  Definition metrics_w (pos view up target : @vec T) : vec :=
    let d := vsub target pos in
    mkv (vdot d (vcross view up)) (vdot d up) (vdot d (vopp view)).

  (** unit vector handed to [find_nearest], for an already normalised view/up (the arguments
      [DirectivityMS.get_directivity] receives) *)
  Definition frame_dir_n (pos view up target : @vec T) : vec :=
    let w := metrics_w pos view up target in
    vdivs (mkv (- vz w)%T (- vx w)%T (vy w)) (tsqrt (vdot w w)).

  (** the same for the view/up given to the [SoundSource] constructor *)
  Definition frame_dir (pos view up target : @vec T) : vec :=
    frame_dir_n pos (unit_of view) (unit_of up) target.

  (** [self.receivers.find_nearest(find)] *)
  Definition lookup (receivers : list (@vec T)) (v : vec) : nat := nearest receivers v.

  (** [np.argmin(np.abs(frequencies - frequency))] *)
  Definition nearest_freq (freqs : list T) (f : T) : nat :=
    argmin tltb (map (fun fk => tabs (fk - f)%T) freqs).

  (** a [DirectivityMS]: receiver positions (cartesian), measured frequencies, and the real
      part of the table, [receiver][frequency] *)
  Record directivity := mkDirectivity {
    dv_recv : list (@vec T);
    dv_freqs : list T;
    dv_table : list (list T)
  }.

  (** an oriented source: the view/up as passed to the constructor, and the directivity *)
  Record orientation := mkOrientation {
    o_view : @vec T;
    o_up : @vec T;
    o_dv : directivity
  }.

  (** receiver index and frequency index used for a target point and a band frequency *)
  Definition dir_index (ori : orientation) (pos target : @vec T) : nat :=
    lookup (dv_recv (o_dv ori)) (frame_dir pos (o_view ori) (o_up ori) target).
  Definition freq_index (ori : orientation) (f : T) : nat := nearest_freq (dv_freqs (o_dv ori)) f.

  (** [np.real(source.get_directivity(target, f))] *)
  Definition dirfac (ori : orientation) (pos target : @vec T) (f : T) : T :=
    get2 (dv_table (o_dv ori)) (dir_index ori pos target) (freq_index ori f).

  Variable sc : @scene T.
  Variable bandf : list T.        (* the band centre frequencies [self._frequencies] *)

  (** factor of patch [i] in band [b]: target = patch centre *)
  Definition dirfac_patch (ori : orientation) (s : @source T) (i b : nat) : T :=
    dirfac ori (src_pos s) (center sc i) (nthT bandf b).
  (** factor of the direct sound at receiver [r] in band [b]: target = receiver position *)
  Definition dirfac_recv (ori : orientation) (s : @source T) (r : @receiver T) (b : nat) : T :=
    dirfac ori (src_pos s) (r_pos r) (nthT bandf b).

  (** the [directivity] array of [init_source_energy], [patch][band] (constant over the
      outgoing-direction slots): the [src_dirfac] input of [Scene.e0dir_entry] *)
  Definition source_dirfac (ori : orientation) (s : @source T) : list (list T) :=
    tab (s_np sc) (fun i => tab (s_nb sc) (fun b => dirfac_patch ori s i b)).
  (** the factors of [calculate_direct_sound], [band]: the [rdirfac] input of [Scene.direct_val] *)
  Definition recv_dirfac (ori : orientation) (s : @source T) (r : @receiver T) : list T :=
    tab (s_nb sc) (fun b => dirfac_recv ori s r b).

  (** a [SoundSource] with / without directivity at the position (and with the visibility
      and shares) of [s] *)
  Definition with_directivity (ori : orientation) (s : @source T) : source :=
    mkSource (src_pos s) (src_vis s) (src_share s) (Some (source_dirfac ori s)).
  Definition omni (s : @source T) : source :=
    mkSource (src_pos s) (src_vis s) (src_share s) None.
End Directivity.
