(** * L1 executable model of the visibility kernels of [sparrowpy/geometry.py]
    ([_project_to_plane], [_rotation_matrix], [_matrix_vector_product], [_point_in_polygon],
    [_basic_visibility], [_check_point2patch_visibility], [_check_patch2patch_visibility]).

    Definitions only, polymorphic in the scalar type, no law is used.  The two tolerances
    that the Python code takes from keyword defaults are explicit inputs here:
    [eps] = [epsilon] of [_project_to_plane] (1e-6) and [eta] = [eta] of [_point_in_polygon]
    and [_basic_visibility] (1e-6).  The 2-D steps of the winding loop reuse 3-vectors with
    third component 0 (the dimension-generic Python code is run on 2-vectors there). *)
From Coq Require Import List Arith Bool ZArith.
Import ListNotations.
From SV Require Import Base.Ops Base.Arr Model.Vec3.

Section Visibility.
  Context {T : Type} {O : Ops T}.
  Local Notation vec := (@vec T).

  (** 3x3 matrices as three rows *)
  Definition mat : Type := (vec * vec * vec)%type.
  Definition mrow0 (m : mat) : vec := fst (fst m).
  Definition mrow1 (m : mat) : vec := snd (fst m).
  Definition mrow2 (m : mat) : vec := snd m.
  Definition mkm (r0 r1 r2 : vec) : mat := (r0, r1, r2).
  Definition mcol0 (m : mat) : vec := mkv (vx (mrow0 m)) (vx (mrow1 m)) (vx (mrow2 m)).
  Definition mcol1 (m : mat) : vec := mkv (vy (mrow0 m)) (vy (mrow1 m)) (vy (mrow2 m)).
  Definition mcol2 (m : mat) : vec := mkv (vz (mrow0 m)) (vz (mrow1 m)) (vz (mrow2 m)).

  Definition mat_id : mat := mkm (mkv 1 0 0)%T (mkv 0 1 0)%T (mkv 0 0 1)%T.
  (** the fixed matrix returned for antiparallel vectors *)
  Definition mat_flip : mat := mkm (mkv (- (1)) 0 0)%T (mkv 0 1 0)%T (mkv 0 0 (- (1)))%T.

  Definition madd (a b : mat) : mat :=
    mkm (vadd (mrow0 a) (mrow0 b)) (vadd (mrow1 a) (mrow1 b)) (vadd (mrow2 a) (mrow2 b)).
  (** elementwise [m * s] (matrix entry on the left) *)
  Definition vscale_r (a : vec) (s : T) : vec := mkv (vx a * s)%T (vy a * s)%T (vz a * s)%T.
  Definition mscale_r (m : mat) (s : T) : mat :=
    mkm (vscale_r (mrow0 m) s) (vscale_r (mrow1 m) s) (vscale_r (mrow2 m) s).
  Definition mrow_mul (r : vec) (b : mat) : vec :=
    mkv (vdot r (mcol0 b)) (vdot r (mcol1 b)) (vdot r (mcol2 b)).
  Definition mmul (a b : mat) : mat :=
    mkm (mrow_mul (mrow0 a) b) (mrow_mul (mrow1 a) b) (mrow_mul (mrow2 a) b).

  (** [_matrix_vector_product]: out[i] = dot(matrix[i], vector) *)
  Definition mvec (m : mat) (v : vec) : vec :=
    mkv (vdot (mrow0 m) v) (vdot (mrow1 m) v) (vdot (mrow2 m) v).

  (** [_project_to_plane(origin, point, plane_pt, plane_normal, epsilon, check_normal)] *)
  Definition project_to_plane (check_normal : bool) (eps : T)
             (origin point plane_pt n : vec) : option vec :=
    let v := vsub point origin in
    let d := vdot v n in
    let cond := if check_normal then tltb d (- eps)%T else tltb eps (tabs d) in
    if cond then
      let w := vsub point plane_pt in
      let fac := (- (vdot n w / d))%T in
      Some (vadd (vadd w plane_pt) (vscale fac v))
    else None.

  (** [_rotation_matrix(n_in, n_out)] *)
  Definition veqb (a b : vec) : bool :=
    teqb (vx a) (vx b) && teqb (vy a) (vy b) && teqb (vz a) (vz b).
  Definition ez : vec := (mkv 0 0 1)%T.
  Definition kmat (v : vec) : mat :=
    mkm (mkv 0 (- vz v) (vy v))%T (mkv (vz v) 0 (- vx v))%T (mkv (- vy v) (vx v) 0)%T.
  Definition rotation_matrix (n_in n_out : vec) : mat :=
    if veqb n_in n_out then mat_id
    else
      let a := vdivs n_in (vnorm n_in) in
      let b := vdivs n_out (vnorm n_out) in
      let c := vdot a b in
      if teqb c 1%T then mat_id       (* parallel vectors of different length (fix in /repo) *)
      else if teqb c (- (1))%T then mat_flip
      else
        let v := vcross a b in
        let s := vnorm v in
        let k := kmat v in
        madd (madd mat_id k) (mscale_r (mmul k k) ((1 - c) / (s * s))%T).
  (** default [n_out]: the +z axis *)
  Definition rotation_to_z (n_in : vec) : mat := rotation_matrix n_in ez.

  (** drop the z component: [[0:2]] *)
  Definition flat (v : vec) : vec := mkv (vx v) (vy v) 0%T.

  (** consecutive vertex pairs (a0, a1) = (poly[i], poly[(i+1) % N]) *)
  Definition sides (poly : list vec) : list (vec * vec) :=
    match poly with
    | [] => []
    | h :: t => combine poly (t ++ [h])
    end.

  (** contribution of one polygon side to the winding count of [_point_in_polygon] *)
  Definition side_count (eps eta : T) (pt : vec) (s : vec * vec) : Z :=
    let a0 := fst s in
    let a1 := snd s in
    let side := vsub a1 a0 in
    let nl := vdivs ((mkv (- vy side) (vx side) 0)%T) (vnorm side) in
    match project_to_plane false eps pt (vadd pt ((mkv 1 0 0)%T)) a1 nl with
    | Some b =>
        if tltb (vx pt) (vx b) then
          if tleb (tabs ((vnorm (vsub b a0) + vnorm (vsub b a1)) - vnorm (vsub a1 a0))%T) eta then
            let d := vdot (vsub b pt) nl in
            if tltb 0%T d then 1%Z else if tltb d 0%T then (-1)%Z else 0%Z
          else 0%Z
        else 0%Z
    | None => 0%Z
    end.

  Definition winding (eps eta : T) (pt : vec) (poly2 : list vec) : Z :=
    fold_left Z.add (map (side_count eps eta pt) (sides poly2)) 0%Z.

  (** [_point_in_polygon(point3d, polygon3d, plane_normal, eta)] *)
  Definition point_in_polygon (eps eta : T) (p : vec) (poly : list vec) (n : vec) : bool :=
    if tltb eta (tabs (vdot (vsub p (nthv poly 0)) n)) then false
    else
      let r := rotation_to_z n in
      let pt := flat (mvec r p) in
      let poly2 := map (fun q => flat (mvec r q)) poly in
      negb (Z.eqb (winding eps eta pt poly2) 0%Z).

  (** a possibly blocking surface: boundary points and normal *)
  Definition surface : Type := (list vec * vec)%type.
  Definition s_pts (s : surface) : list vec := fst s.
  Definition s_nrm (s : surface) : vec := snd s.
  Definition s_p0 (s : surface) : vec := nthv (s_pts s) 0.

  Definition pip (eps eta : T) (s : surface) (p : vec) : bool :=
    point_in_polygon eps eta p (s_pts s) (s_nrm s).

  (** [_basic_visibility(vis_point, eval_point, surf_points, surf_normal, eta)]:
      the four-way branch exactly as written *)
  Definition basic_visibility (eps eta : T) (p q : vec) (s : surface) : bool :=
    let n := s_nrm s in
    let vin := pip eps eta s p in
    let ein := pip eps eta s q in
    if negb vin && negb ein then
      match project_to_plane false eps p q (s_p0 s) n with
      | Some x =>
          if pip eps eta s x then
            if tltb (vdot (vsub x p) (vsub x q)) 0%T then false else true
          else true
      | None => true
      end
    else if vin && negb ein && tltb (vdot n (vsub q p)) 0%T then false
    else if negb vin && ein && tltb (vdot n (vsub p q)) 0%T then false
    else if tltb (tabs (vdot (vsub p (s_p0 s)) n)) eta
            && tltb (tabs (vdot (vsub q (s_p0 s)) n)) eta
            && (vin || ein) then false
    else true.

  (** the loop [while visible and surfid != len(surf_normal): visible = _basic_visibility(...,
      surf[surfid]); surfid += 1], on the list of surfaces that are still to be visited *)
  Fixpoint scan_while (eps eta : T) (p q : vec) (visible : bool) (rest : list surface) : bool :=
    match rest with
    | [] => visible
    | s :: r => if visible then scan_while eps eta p q (basic_visibility eps eta p q s) r
                else visible
    end.

  (** the conjunction the loops compute (see Proofs/VisibilityProofs.v) *)
  Definition visible_all (eps eta : T) (surfs : list surface) (p q : vec) : bool :=
    forallb (basic_visibility eps eta p q) surfs.

  (** [_check_point2patch_visibility]: vector preloaded with True *)
  Definition check_point2patch (eps eta : T) (pnt : vec) (centers : list vec)
             (surfs : list surface) : list bool :=
    map (fun c => scan_while eps eta pnt c true surfs) centers.

  (** [_check_patch2patch_visibility]: matrix preloaded with False, True for i < j, and the
      scan run on the entries i < j only (a scan started on False returns False) *)
  Definition check_patch2patch (eps eta : T) (centers : list vec) (surfs : list surface)
    : list (list bool) :=
    let n := length centers in
    tab n (fun i => tab n (fun j =>
      scan_while eps eta (nthv centers i) (nthv centers j) (i <? j) surfs)).
End Visibility.
