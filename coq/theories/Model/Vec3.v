(** * 3-vectors over an [Ops] scalar type (definitions only). *)
From Coq Require Import List Arith Bool.
Import ListNotations.
From SV Require Import Base.Ops Base.Arr.

Section Vec3.
  Context {T : Type} {O : Ops T}.

  Definition vec : Type := (T * T * T)%type.
  Definition vx (v : vec) : T := fst (fst v).
  Definition vy (v : vec) : T := snd (fst v).
  Definition vz (v : vec) : T := snd v.
  Definition mkv (x y z : T) : vec := (x, y, z).
  Definition vzero : vec := (0, 0, 0)%T.

  Definition vadd (a b : vec) : vec := mkv (vx a + vx b)%T (vy a + vy b)%T (vz a + vz b)%T.
  Definition vsub (a b : vec) : vec := mkv (vx a - vx b)%T (vy a - vy b)%T (vz a - vz b)%T.
  Definition vscale (s : T) (a : vec) : vec := mkv (s * vx a)%T (s * vy a)%T (s * vz a)%T.
  Definition vdivs (a : vec) (s : T) : vec := mkv (vx a / s)%T (vy a / s)%T (vz a / s)%T.
  Definition vdot (a b : vec) : T := ((vx a * vx b + vy a * vy b) + vz a * vz b)%T.
  Definition vcross (a b : vec) : vec :=
    mkv (vy a * vz b - vz a * vy b)%T (vz a * vx b - vx a * vz b)%T (vx a * vy b - vy a * vx b)%T.
  Definition vnorm2 (a : vec) : T := vdot a a.
  Definition vnorm (a : vec) : T := tsqrt (vnorm2 a).
  Definition vnormalize (a : vec) : vec := vdivs a (vnorm a).
  Definition vdist (a b : vec) : T := vnorm (vsub a b).
  (** squared Euclidean distance, numpy's [np.sum((a-b)**2, axis=-1)] *)
  Definition vdist2 (a b : vec) : T :=
    let d := vsub a b in ((vx d * vx d + vy d * vy d) + vz d * vz d)%T.

  Definition nthv (l : list vec) (i : nat) : vec := nth i l vzero.

  (** centroid of a vertex list: [np.sum(points, axis=-2) / n] *)
  Definition vsum (l : list vec) : vec := fold_left vadd l vzero.
  Definition centroid (l : list vec) : vec := vdivs (vsum l) (tofnat (length l)).

  (** first index of the direction nearest to [v] in squared distance ([np.argmin]) *)
  Definition nearest (dirs : list vec) (v : vec) : nat :=
    argmin tltb (map (fun d => vdist2 d v) dirs).

  (** [_polygon_area]: fan of triangles from vertex 0 *)
  Definition tri_area (p0 p1 p2 : vec) : T :=
    ((tone / (tone + tone)) * vnorm (vcross (vsub p1 p0) (vsub p2 p0)))%T.
  Fixpoint fan_area (p0 : vec) (l : list vec) : T :=
    match l with
    | p1 :: ((p2 :: _) as r) => (tri_area p0 p1 p2 + fan_area p0 r)%T
    | _ => 0%T
    end.
End Vec3.
