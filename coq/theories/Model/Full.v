(** * The composed model: from wall polygons to the pipeline scene.

    [from_polygon] (tiling), [patches_center]/[patches_area], [bake_geometry] (patch-to-patch
    visibility with the PATCHES as blockers, visible-pair list, form-factor assembly with BOTH
    branches computed: Stokes contour integral, and the Nusselt analogue of [Model/Nusselt.v] for
    coincident pairs; wall frames of the BRDF direction sets), [init_source_energy] and the
    receiver collection (point visibility with the WALLS as blockers, point-to-patch shares).
    No form-factor value enters as data: the inputs are the polygons, the BRDF tables, the
    attenuation and the literal tolerances of the code. *)
From Coq Require Import List Arith Bool.
Import ListNotations.
From SV Require Import Base.Ops Base.Arr Model.Vec3 Model.Exchange Model.Scene Model.Frame
  Model.Tiling Model.Visibility Model.Stokes Model.Nusselt Model.PtSolution.

Section Full.
  Context {T : Type} {O : Ops T}.

  Record room := mkRoom {
    rm_walls : list (@quad T);
    rm_normals : list (@vec T);
    rm_ups : list (@vec T);
    rm_patch_size : T;
    rm_ref_in : list (@vec T);           (* incoming directions in the reference frame *)
    rm_ref_out : list (@vec T);
    rm_tables : list (list (list (list T)));
    rm_tidx : list nat;
    rm_att : list T;
    rm_nb : nat;
    rm_thr : T;                          (* 1e-10: tangent-vector branch of pt_solution *)
    rm_eps : T;                          (* 1e-6: _project_to_plane *)
    rm_eta : T;                          (* 1e-6: _point_in_polygon / _basic_visibility *)
    rm_thres : T;                        (* 1e-6: _coincidence_check *)
    rm_cut : T;                          (* Stokes segment cut-off *)
    rm_thr_seg : T;                      (* 1e-6: nusselt_analog, norm(cross(..)) > 1e-6 *)
    rm_thr_dot : T;                      (* 1e-6: nusselt_analog, dot(..) >= 1e-6 *)
    rm_thr_lag : T                       (* 1e-6: _poly_estimation_Lagrange, abs(x[-1]-x[0]) < 1e-6 *)
  }.

  Variable rm : room.

  Definition rm_processed := process (rm_walls rm) (rm_normals rm) (rm_patch_size rm).
  Definition rm_patch_pts : list (list (@vec T)) := map verts (pr_points rm_processed).
  Definition rm_centers : list (@vec T) := map centroid rm_patch_pts.
  Definition rm_areas : list T := map poly_area rm_patch_pts.
  Definition rm_np : nat := length rm_patch_pts.
  Definition rm_patch_surfs : list (@surface T) := combine rm_patch_pts (pr_normals rm_processed).
  Definition rm_wall_surfs : list (@surface T) := combine (map verts (rm_walls rm)) (rm_normals rm).
  Definition rm_visU : list (list bool) :=
    check_patch2patch (rm_eps rm) (rm_eta rm) rm_centers rm_patch_surfs.
  Definition pairs_of (visU : list (list bool)) (n : nat) : list (nat * nat) :=
    flat_map (fun i => flat_map (fun j => if get2b visU i j then [(i, j)] else []) (seq 0 n)) (seq 0 n).
  (** [patch2patch_ff_universal(patches_points, patches_normal, patches_area, visible_patches)],
      Stokes and Nusselt branch both computed by the model *)
  Definition rm_pairs : list (nat * nat) := pairs_of rm_visU rm_np.
  Definition rm_F : @arr2 T :=
    patch2patch_ff_full (rm_thres rm) (rm_cut rm) (rm_thr_seg rm) (rm_thr_dot rm) (rm_thr_lag rm)
      rm_patch_pts (pr_normals rm_processed) rm_areas rm_pairs.

  Definition room_scene : @scene T :=
    mkScene rm_np (length (rm_ref_out rm)) (rm_nb rm) rm_centers rm_areas (pr_wall_ids rm_processed)
            rm_visU rm_F (rm_att rm) (rm_tables rm) (rm_tidx rm)
            (map (fun w => wall_dirs (nthv (rm_normals rm) w) (nthv (rm_ups rm) w) (rm_ref_in rm))
                 (seq 0 (length (rm_walls rm))))
            (map (fun w => wall_dirs (nthv (rm_normals rm) w) (nthv (rm_ups rm) w) (rm_ref_out rm))
                 (seq 0 (length (rm_walls rm)))).

  Definition room_point_vis (pos : @vec T) : list bool :=
    check_point2patch (rm_eps rm) (rm_eta rm) pos rm_centers rm_wall_surfs.
  Definition room_source (pos : @vec T) : @source T :=
    source_at (rm_thr rm) pos (room_point_vis pos) rm_patch_pts.
  Definition room_receiver (pos : @vec T) : @receiver T :=
    receiver_at (rm_thr rm) pos (room_point_vis pos) rm_patch_pts.

  (** the whole pipeline from polygons to the mono curve *)
  Definition room_mono (tm : @timing T) (src rcv : @vec T) (K : nat) (direct : bool) : @arr2 T :=
    let sc := room_scene in
    let s := room_source src in
    mono sc tm (patch_hist sc tm s K) s (room_receiver rcv) direct None.
End Full.
