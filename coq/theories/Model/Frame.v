(** * Wall frames: carrying BRDF direction sets given in the reference frame
    (normal +z, up +x) to a wall ([RadiosityFast._rotate_coords_to_normal], [set_wall_brdf]). *)
From Coq Require Import List Arith Bool.
Import ListNotations.
From SV Require Import Base.Ops Base.Arr Model.Vec3.

Section Frame.
  Context {T : Type} {O : Ops T}.

  (** the rotation with columns (u, n x u, n): maps +x to u, +y to n x u, +z to n *)
  Definition rot (n u : @vec T) (v : @vec T) : @vec T :=
    vadd (vadd (vscale (vx v) u) (vscale (vy v) (vcross n u))) (vscale (vz v) n).
  (** its transpose: coordinates of v in the wall frame *)
  Definition rotT (n u : @vec T) (v : @vec T) : @vec T :=
    mkv (vdot u v) (vdot (vcross n u) v) (vdot n v).

  (** what the code does for one direction: normalise the wall's normal and up vector, rotate,
      and reset the radius to 1 *)
  Definition wall_dir (normal up : @vec T) (d : @vec T) : @vec T :=
    vnormalize (rot (vnormalize normal) (vnormalize up) d).
  Definition wall_dirs (normal up : @vec T) (dirs : list (@vec T)) : list (@vec T) :=
    map (wall_dir normal up) dirs.

  (** [set_wall_brdf] bookkeeping: table list grows by one, listed walls point to it *)
  Definition set_index (tidx : list nat) (walls : list nat) (new_table : nat) : list nat :=
    tab (length tidx) (fun w => if existsb (Nat.eqb w) walls then new_table else nthn tidx w).
End Frame.
