(** * L1 executable model of the BRDF constructors of [sparrowpy/brdf.py]
    ([create_from_scattering], [create_from_directional_scattering]).

    Tables are nested lists [brdf[i][o][b]] (incident direction, outgoing direction, band).
    Inputs that the code obtains from pyfar enter as data:
    - [cosv]  : cos(colatitude) of every direction ([np.cos(source_directions.colatitude)],
                resp. [np.cos(receiver_directions.colatitude)]),
    - [w]     : the raw (un-normalised) receiver weights,
    - [mu]    : the mirror map, [receiver_directions.find_nearest(image_source)[0][0]].
    The model keeps the code's floating-point evaluation order and, for
    [create_from_scattering], the code's index pattern: [cos_factor] has shape
    (n_receivers, n_sources) with [cos_factor[r][s] = cos_s * w_hat_r] but is read as
    [cos_factor[i_sources, i_receiver]], i.e. the value used for incident direction [i] is
    [cos_(mu i) * w_hat_i].  (The code therefore presupposes n_sources = n_receivers.) *)
From Coq Require Import List Arith Bool.
Import ListNotations.
From SV Require Import Base.Ops Base.Arr Base.Sums Model.Exchange.

Section Brdf.
  Context {T : Type} {O : Ops T}.

  (** [np.sum(receiver_weights)] (left-to-right accumulation) *)
  Definition wsum (w : list T) : T := suml w (fun x => x).

  (** [receiver_weights *= 2 * np.pi / np.sum(receiver_weights)]: the right-hand side
      [(2*pi)/sum] is evaluated first, then every weight is multiplied by it. *)
  Definition norm_factor (w : list T) : T := (((1 + 1) * tpi) / wsum w)%T.
  Definition norm_weights (w : list T) : list T :=
    let k := norm_factor w in map (fun x => (x * k)%T) w.

  (** [create_from_scattering]:
        brdf = zeros; brdf += s/pi;
        brdf[i, mu i, :] += (1 - s) / cos_factor[i, mu i];   brdf *= (1 - a) *)
  Definition scat_base (s : list T) (b : nat) : T := (0 + nthT s b / tpi)%T.
  Definition scat_cos_factor (cosv wh : list T) (mu : list nat) (i : nat) : T :=
    (nthT cosv (nthn mu i) * nthT wh i)%T.
  Definition scat_entry (cosv wh : list T) (mu : list nat) (s a : list T) (i o b : nat) : T :=
    let base := scat_base s b in
    let v := if o =? nthn mu i
             then (base + (1 - nthT s b) / scat_cos_factor cosv wh mu i)%T
             else base in
    (v * (1 - nthT a b))%T.
  Definition from_scattering (n nb : nat) (cosv w : list T) (mu : list nat) (s a : list T) : arr3 :=
    let wh := norm_weights w in
    tab n (fun i => tab n (fun o => tab nb (fun b => scat_entry cosv wh mu s a i o b))).

  (** [create_from_directional_scattering]:
        brdf = ds / w_hat[o] / cos[o];   brdf *= (1 - a)
      ([ns] source directions, [nr] receiver directions; [cosv], [w] belong to the receivers) *)
  Definition dir_entry (cosv wh : list T) (ds : arr3) (a : list T) (i o b : nat) : T :=
    (((get3 ds i o b / nthT wh o) / nthT cosv o) * (1 - nthT a b))%T.
  Definition from_directional (ns nr nb : nat) (cosv w : list T) (ds : arr3) (a : list T) : arr3 :=
    let wh := norm_weights w in
    tab ns (fun i => tab nr (fun o => tab nb (fun b => dir_entry cosv wh ds a i o b))).

  (** energy reflected for incident direction [i] in band [b]:
      sum over outgoing directions of brdf * cos * normalised weight *)
  Definition reflected (n : nat) (brdf : arr3) (cosv wh : list T) (i b : nat) : T :=
    sumf (seq 0 n) (fun o => (get3 brdf i o b * nthT cosv o * nthT wh o)%T).
End Brdf.
