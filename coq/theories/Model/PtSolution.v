(** * L1 executable model of the point-to-patch geometric factor
    ([form_factor/integration.py: pt_solution], [geometry.py: _sphere_tangent_vector],
    [_polygon_area]) and of the two kernels that gate it by visibility
    ([form_factor/universal.py: _source2patch_energy_universal],
    [_patch2receiver_energy_universal]).

    Definitions only; no law is used.  The float evaluation order of the Python code is
    mirrored (parenthesisation, left-to-right accumulation).  The decision threshold
    [1e-10] of [_sphere_tangent_vector] is an input constant [thr : T] supplied by the driver. *)
From Coq Require Import List Arith Bool.
Import ListNotations.
From SV Require Import Base.Ops Base.Arr Model.Vec3 Model.Exchange Model.Scene.

Section PtSolution.
  Context {T : Type} {O : Ops T}.

  (** [_sphere_tangent_vector(v0, v1)]:
<<
      if np.abs(np.dot(v0,v1)) > 1e-10:
          vout = (v1-v0) - np.dot((v1-v0),v0)/np.dot(v0,v0)*v0
          vout /= np.linalg.norm(vout)
      else:
          vout = v1/np.linalg.norm(v1)
>> *)
  Definition tangent_raw (v0 v1 : @vec T) : vec :=
    let d := vsub v1 v0 in
    vsub d (vscale (vdot d v0 / vdot v0 v0)%T v0).
  Definition sphere_tangent (thr : T) (v0 v1 : @vec T) : vec :=
    if tltb thr (tabs (vdot v0 v1))
    then vnormalize (tangent_raw v0 v1)
    else vnormalize v1.

  (** projection of a vertex onto the unit sphere around [pt] *)
  Definition to_sphere (pt p : @vec T) : vec := vnormalize (vsub p pt).
  Definition on_sphere (pt : @vec T) (pts : list (@vec T)) : list vec := map (to_sphere pt) pts.

  (** Python's [(i-1) % n] and [(i+1) % n] for [0 <= i < n] *)
  Definition prev_idx (n i : nat) : nat := match i with 0 => n - 1 | S k => k end.
  Definition next_idx (n i : nat) : nat := if S i =? n then 0 else S i.

  (** interior angle of the spherical polygon [S] at vertex [i] *)
  Definition angle_of (thr : T) (c a b : @vec T) : T :=
    tacos (vdot (sphere_tangent thr c a) (sphere_tangent thr c b)).
  Definition angle_at (thr : T) (S : list (@vec T)) (i : nat) : T :=
    let n := length S in
    angle_of thr (nthv S i) (nthv S (prev_idx n i)) (nthv S (next_idx n i)).

  (** [interior_angle_sum], accumulated left to right from 0 *)
  Definition angle_sum (thr : T) (S : list (@vec T)) : T :=
    fold_left (fun acc i => (acc + angle_at thr S i)%T) (seq 0 (length S)) 0%T.

  (** [factor = interior_angle_sum - (len(patch_points)-2)*np.pi] *)
  Definition excess (thr : T) (pt : @vec T) (pts : list (@vec T)) : T :=
    (angle_sum thr (on_sphere pt pts) - tofnat (length pts - 2) * tpi)%T.

  (** [_polygon_area]: triangle fan from vertex 0, accumulated left to right from 0
      ([Vec3.fan_area] is the right fold; the two differ by rounding for more than 4 vertices) *)
  Definition poly_area (pts : list (@vec T)) : T :=
    match pts with
    | [] => 0%T
    | p0 :: r => fold_left (fun acc pr => (acc + tri_area p0 (fst pr) (snd pr))%T)
                           (combine r (tl r)) 0%T
    end.

  (** [pt_solution(point, patch_points, mode)]; [recv = true] is mode 'receiver' *)
  Definition source_area (recv : bool) (pts : list (@vec T)) : T :=
    if recv then poly_area pts else four.
  Definition pt_solution (thr : T) (recv : bool) (pt : @vec T) (pts : list (@vec T)) : T :=
    (excess thr pt pts / (tpi * source_area recv pts))%T.

  (** [_source2patch_energy_universal]: the source record of the pipeline model with the
      shares computed by [pt_solution]; energy and distance are [Scene.energy0], [Scene.src_dist] *)
  Definition source_at (thr : T) (pos : @vec T) (vis : list bool) (patches : list (list (@vec T)))
      : @source T :=
    mkSource pos vis (map (pt_solution thr false pos) patches) None.
  Definition s2p_energy (thr : T) (sc : @scene T) pos vis patches (j b : nat) : T :=
    energy0 sc (source_at thr pos vis patches) j b.
  Definition s2p_dist (thr : T) (sc : @scene T) pos vis patches (j : nat) : T :=
    src_dist sc (source_at thr pos vis patches) j.

  (** [_patch2receiver_energy_universal] *)
  Definition receiver_at (thr : T) (pos : @vec T) (vis : list bool) (patches : list (list (@vec T)))
      : @receiver T :=
    mkReceiver pos vis (map (pt_solution thr true pos) patches).
  Definition p2r_factor (thr : T) pos vis patches (k : nat) : T :=
    r_factor (receiver_at thr pos vis patches) k.
End PtSolution.
