(** * L1 executable model of the patch subdivision (definitions only, no law used).

    [geometry._create_patches], [_total_number_of_patches], [_process_patches] and,
    written separately as the code writes it, the tiling loop of
    [RadiosityKang.PatchesKang.__init__].

    A wall is a quadrilateral: the four rows of the (4,3) array [polygon_points].
    Coordinates are addressed by the axis index 0,1,2 as in the code. *)
From Coq Require Import List Arith Bool.
Import ListNotations.
From SV Require Import Base.Ops Base.Arr Model.Vec3.

Section Tiling.
  Context {T : Type} {O : Ops T}.

  Record quad := mkQuad { q0 : @vec T; q1 : @vec T; q2 : @vec T; q3 : @vec T }.
  Definition verts (q : quad) : list vec := [q0 q; q1 q; q2 q; q3 q].

  (** [v[a]] and [v[a] = x] for an axis index (any index above 1 addresses the last axis) *)
  Definition vget (v : vec) (a : nat) : T :=
    match a with 0 => vx v | 1 => vy v | _ => vz v end.
  Definition vset (v : vec) (a : nat) (x : T) : vec :=
    match a with
    | 0 => mkv x (vy v) (vz v)
    | 1 => mkv (vx v) x (vz v)
    | _ => mkv (vx v) (vy v) x
    end.

  (** [np.min] / [np.max] of two values, then of the column [polygon_points[:, a]] *)
  Definition tmin2 (a b : T) : T := if tleb a b then a else b.
  Definition tmax2 (a b : T) : T := if tleb a b then b else a.
  Definition col_min (q : quad) (a : nat) : T :=
    tmin2 (tmin2 (tmin2 (vget (q0 q) a) (vget (q1 q) a)) (vget (q2 q) a)) (vget (q3 q) a).
  Definition col_max (q : quad) (a : nat) : T :=
    tmax2 (tmax2 (tmax2 (vget (q0 q) a) (vget (q1 q) a)) (vget (q2 q) a)) (vget (q3 q) a).

  (** [size[i] = polygon_points[:, i].max() - polygon_points[:, i].min()] *)
  Definition size (q : quad) (a : nat) : T := (col_max q a - col_min q a)%T.
  (** [patch_nums = [int(n) for n in size/max_size]] *)
  Definition patch_num (q : quad) (p : T) (a : nat) : nat := ttrunc (size q a / p)%T.
  (** [real_size = size/patch_nums] *)
  Definition real_size (q : quad) (p : T) (a : nat) : T := (size q a / tofnat (patch_num q p a))%T.

  (** the three [if patch_nums[k] == 0] statements; a later one overrides an earlier one, so
      axis 0 is tested first here.  [None]: no count is zero, the code then fails with
      [UnboundLocalError] (outside the property's domain). *)
  Definition axes_of (n0 n1 n2 : nat) : option (nat * nat) :=
    if n0 =? 0 then Some (1, 2)
    else if n1 =? 0 then Some (0, 2)
    else if n2 =? 0 then Some (0, 1)
    else None.
  Definition axes (q : quad) (p : T) : option (nat * nat) :=
    axes_of (patch_num q p 0) (patch_num q p 1) (patch_num q p 2).
  Definition tiling_defined (q : quad) (p : T) : bool :=
    match axes q p with Some _ => true | None => false end.

  (** body of the double loop: [points = polygon_points.copy()] and eight assignments, written
      for the vertices in the code's order 0, 1, 3, 2.  The coordinate on the third axis of
      vertex [k] stays that of the input polygon's vertex [k]. *)
  Definition patch_at (q : quad) (xi yi : nat) (x_min y_min rx ry : T) (ix iy : nat) : quad :=
    let p0 := vset (vset (q0 q) xi (x_min + tofnat ix * rx)%T) yi (y_min + tofnat iy * ry)%T in
    let p1 := vset (vset (q1 q) xi (x_min + tofnat (S ix) * rx)%T) yi (y_min + tofnat iy * ry)%T in
    let p3 := vset (vset (q3 q) xi (x_min + tofnat ix * rx)%T) yi (y_min + tofnat (S iy) * ry)%T in
    let p2 := vset (vset (q2 q) xi (x_min + tofnat (S ix) * rx)%T) yi (y_min + tofnat (S iy) * ry)%T in
    mkQuad p0 p1 p2 p3.

  (** [for i_x in range(nx): for i_y in range(ny): patches_points[i] = points; i += 1] *)
  Definition grid (q : quad) (xi yi : nat) (x_min y_min rx ry : T) (nx ny : nat) : list quad :=
    concat (tab nx (fun ix => tab ny (fun iy => patch_at q xi yi x_min y_min rx ry ix iy))).

  (** [_create_patches] *)
  Definition create_patches (q : quad) (p : T) : list quad :=
    match axes q p with
    | Some (xi, yi) =>
        grid q xi yi (col_min q xi) (col_min q yi) (real_size q p xi) (real_size q p yi)
             (patch_num q p xi) (patch_num q p yi)
    | None => []
    end.

  (** [_total_number_of_patches] *)
  Definition total_number_of_patches (q : quad) (p : T) : nat :=
    match axes q p with
    | Some (xi, yi) => patch_num q p xi * patch_num q p yi
    | None => 0
    end.

  (** [_process_patches]: the count is first summed from [_total_number_of_patches]; the
      patch blocks of the walls are written one after the other ([j_start], [j_end] are the
      running sums of [patches_per_wall]), [patch_to_wall_ids[j_start:j_end] = i], and
      [patches_normal = walls_normal[patch_to_wall_ids]]. *)
  Fixpoint wall_ids_from (w : nat) (counts : list nat) : list nat :=
    match counts with
    | [] => []
    | c :: r => repeat w c ++ wall_ids_from (S w) r
    end.
  Definition sumn (l : list nat) : nat := fold_left Nat.add l 0.

  Record processed := mkProcessed {
    pr_points : list quad;
    pr_normals : list (@vec T);
    pr_n : nat;
    pr_wall_ids : list nat
  }.
  Definition process (walls : list quad) (normals : list (@vec T)) (p : T) : processed :=
    let per_wall := map (fun q => create_patches q p) walls in
    let ids := wall_ids_from 0 (map (@length quad) per_wall) in
    mkProcessed (concat per_wall)
                (map (fun w => nthv normals w) ids)
                (sumn (map (fun q => total_number_of_patches q p) walls))
                ids.

  (** ** Kang engine: [PatchesKang.__init__], as written there: [min_point], [max_point] and
      [size] are vectors, the patches are appended to a list one by one. *)
  Definition kang_min_point (q : quad) : vec := mkv (col_min q 0) (col_min q 1) (col_min q 2).
  Definition kang_max_point (q : quad) : vec := mkv (col_max q 0) (col_max q 1) (col_max q 2).
  Definition kang_patches (q : quad) (p : T) : list quad :=
    let sz := vsub (kang_max_point q) (kang_min_point q) in
    let n0 := ttrunc (vx sz / p)%T in
    let n1 := ttrunc (vy sz / p)%T in
    let n2 := ttrunc (vz sz / p)%T in
    let pn := fun a => match a with 0 => n0 | 1 => n1 | _ => n2 end in
    let rs := fun a => (vget sz a / tofnat (pn a))%T in
    match axes_of n0 n1 n2 with
    | Some (xi, yi) =>
        let x_min := col_min q xi in
        let y_min := col_min q yi in
        fold_left (fun acc ix =>
                     fold_left (fun acc' iy => acc' ++ [patch_at q xi yi x_min y_min (rs xi) (rs yi) ix iy])
                               (seq 0 (pn yi)) acc)
                  (seq 0 (pn xi)) []
    | None => []
    end.

  (** per-patch quantities of the fast engine: [_calculate_center], [_polygon_area] *)
  Definition patch_center (P : quad) : vec := centroid (verts P).
  Definition patch_area (P : quad) : T := fan_area (q0 P) [q1 P; q2 P; q3 P].
End Tiling.
