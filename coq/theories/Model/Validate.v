(** * Validation of a [DirectionalRadiosityFast] state: [__init__] conversions + [check()].

    Model of /repo/sparrowpy/classes/RadiosityFast.py, [DirectionalRadiosityFast.__init__]
    (the input conversions) followed by [check()] (the cascade of tests, in the code's order).
    [from_dict] decodes the ['None'] placeholders and calls the constructor; [from_read] reads
    the file, decodes and calls [from_dict] -- both end in [construct].

    The state is abstract: every constructor argument is represented by the part of it that
    the conversions and the tests look at.
      - array arguments: the shape the caller passed (RAW, before the conversion); the model
        applies [np.atleast_3d] / [np.atleast_2d] / [np.atleast_1d] itself, because that is
        where a wrong rank can be masked;
      - [patch_to_wall_ids]: rank class and the integer entries (as [Z]: negative entries and
        entries >= n_walls are representable);
      - the three scalars: elements of the ordered scalar type [T];
      - the two direction lists: the kind of every element (coordinate object / anything else)
        and, as an input, [csize] of the first outgoing direction object;
      - optional arguments: [option], [None] = Python [None].
    Not represented (the harness never produces them): ragged nested lists, non-numeric
    scalars, a [None] for [patch_to_wall_ids], unknown / missing dictionary keys -- all of them
    fail inside numpy / [float()] / the call itself, before [check()] runs.

    DEFINITIONS ONLY; no law of [T] is used. *)
From Coq Require Import List Arith Bool ZArith.
Import ListNotations.
From SV Require Import Base.Ops.

Inductive result : Type := Ok | ValueError | OtherError.

Definition shape := list nat.

(** numpy's rank-raising conversions, on shapes *)
Definition atleast_3d (sh : shape) : shape :=
  match sh with
  | [] => [1; 1; 1]
  | [n] => [1; n; 1]
  | [m; n] => [m; n; 1]
  | _ => sh
  end.

Definition atleast_2d (sh : shape) : shape :=
  match sh with
  | [] => [1; 1]
  | [n] => [1; n]
  | _ => sh
  end.

Fixpoint shape_eqb (a b : shape) : bool :=
  match a, b with
  | [], [] => true
  | x :: a', y :: b' => (x =? y) && shape_eqb a' b'
  | _, _ => false
  end.

(** [ndarray.size] *)
Definition size_of (sh : shape) : nat := fold_right Nat.mul 1 sh.

(** element kinds of the direction lists *)
Inductive dirkind : Type := Coord | NotCoord.
Definition is_coord (k : dirkind) : bool := match k with Coord => true | NotCoord => false end.

(** [patch_to_wall_ids] as passed: a bare integer, a flat sequence, or something of rank >= 2
    (only its shape matters then: the shape test rejects it before the entries are read). *)
Inductive ids_desc : Type :=
| IdsScalar (z : Z)
| IdsVec (l : list Z)
| IdsND (a b : nat) (rest : shape).     (* rank >= 2: shape a :: b :: rest *)

(** shape after [np.atleast_1d(np.array(., dtype=int))] *)
Definition ids_shape (d : ids_desc) : shape :=
  match d with
  | IdsScalar _ => [1]
  | IdsVec l => [length l]
  | IdsND a b rest => a :: b :: rest
  end.

(** entries after the conversion (rank-1 case; irrelevant otherwise) *)
Definition ids_vals (d : ids_desc) : list Z :=
  match d with
  | IdsScalar z => [z]
  | IdsVec l => l
  | IdsND _ _ _ => []
  end.

Record state {T : Type} : Type := mkState {
  v_walls_points : shape;
  v_walls_normal : shape;
  v_walls_up_vector : shape;
  v_patches_points : shape;
  v_n_patches : nat;
  v_patch_to_wall_ids : ids_desc;
  v_visibility_matrix : option shape;
  v_visible_patches : option shape;
  v_form_factors : option shape;
  v_form_factors_tilde : option shape;
  v_frequencies : option shape;
  v_brdf : option (list shape);
  v_brdf_index : option shape;
  v_brdf_incoming_directions : option (list dirkind);
  v_brdf_outgoing_directions : option (list dirkind);
  v_out_csize : nat;                       (* csize of the first outgoing direction object *)
  v_patch_2_brdf_outgoing_index : option shape;
  v_air_attenuation : option shape;
  v_speed_of_sound : option T;
  v_etc_time_resolution : option T;
  v_etc_duration : option T;
  v_distance_patches_to_source : option shape;
  v_energy_init_source : option shape;
  v_energy_exchange_etc : option shape
}.
Arguments state : clear implicits.

Section Validate.
  Context {T : Type} {O : Ops T}.
  Notation state := (state T).

  (** values [check()] derives from the converted state *)
  Definition conv_walls (s : state) : shape := atleast_3d (v_walls_points s).
  Definition conv_patches (s : state) : shape := atleast_3d (v_patches_points s).
  Definition n_walls (s : state) : nat := hd 0 (conv_walls s).          (* shape[0] *)
  Definition n_bins (s : state) : nat :=
    match v_frequencies s with None => 1 | Some sh => size_of sh end.
  Definition n_dirs (s : state) : nat :=
    match v_brdf_outgoing_directions s with None => 1 | Some _ => v_out_csize s end.

  Definition in_range (nw : nat) (z : Z) : bool := (0 <=? z)%Z && (z <? Z.of_nat nw)%Z.
  Definition has_wall (l : list Z) (w : nat) : bool := existsb (Z.eqb (Z.of_nat w)) l.

  (** One test of the cascade: [None] = passed, [Some r] = raises the exception class [r]. *)
  Definition verdict := option result.
  Definition raise_if (b : bool) : verdict := if b then Some ValueError else None.

  Definition t_walls (s : state) : verdict :=
    raise_if (negb (length (conv_walls s) =? 3) || negb (nth 2 (conv_walls s) 0 =? 3)).
  Definition t_up (s : state) : verdict :=
    raise_if (negb (shape_eqb (atleast_2d (v_walls_up_vector s)) [n_walls s; 3])).
  Definition t_normal (s : state) : verdict :=
    raise_if (negb (shape_eqb (atleast_2d (v_walls_normal s)) [n_walls s; 3])).
  Definition t_patches (s : state) : verdict :=
    raise_if (negb (length (conv_patches s) =? 3)
              || negb (hd 0 (conv_patches s) =? v_n_patches s)
              || negb (nth 2 (conv_patches s) 0 =? 3)).
  Definition t_ids_shape (s : state) : verdict :=
    raise_if (negb (shape_eqb (ids_shape (v_patch_to_wall_ids s)) [v_n_patches s])).
  Definition t_ids_range (s : state) : verdict :=
    raise_if (negb (forallb (in_range (n_walls s)) (ids_vals (v_patch_to_wall_ids s)))).
  Definition t_ids_cover (s : state) : verdict :=
    raise_if (negb (forallb (has_wall (ids_vals (v_patch_to_wall_ids s))) (seq 0 (n_walls s)))).
  Definition t_freq (s : state) : verdict :=
    match v_frequencies s with
    | None => None
    | Some sh => raise_if (negb (length sh =? 1))
    end.
  Definition t_form_factors (s : state) : verdict :=
    match v_form_factors s with
    | None => None
    | Some sh => raise_if (negb (shape_eqb sh [v_n_patches s; v_n_patches s]))
    end.
  (** [len(brdf_index) != n_walls]: [len()] of a 0-d array raises TypeError *)
  Definition t_brdf_index (s : state) : verdict :=
    match v_brdf_index s with
    | None => None
    | Some [] => Some OtherError
    | Some (n :: _) => raise_if (negb (n =? n_walls s))
    end.
  Definition t_in_dirs (s : state) : verdict :=
    match v_brdf_incoming_directions s with
    | None => None
    | Some l => raise_if (negb (forallb is_coord l))
    end.
  (** the [any(...)] test, then [self._brdf_outgoing_directions[0].csize]: IndexError on [] *)
  Definition t_out_dirs (s : state) : verdict :=
    match v_brdf_outgoing_directions s with
    | None => None
    | Some l => if negb (forallb is_coord l) then Some ValueError
                else match l with [] => Some OtherError | _ :: _ => None end
    end.
  Definition t_tilde (s : state) : verdict :=
    match v_form_factors_tilde s with
    | None => None
    | Some sh => raise_if (negb (shape_eqb sh [v_n_patches s; v_n_patches s; n_dirs s; n_bins s]))
    end.
  Definition t_attenuation (s : state) : verdict :=
    match v_air_attenuation s with
    | None => None
    | Some sh => if negb (length sh =? 1) then Some ValueError
                 else raise_if (negb (hd 0 sh =? n_bins s))
    end.
  Definition t_positive (x : option T) : verdict :=
    match x with
    | None => None
    | Some v => raise_if (tleb v 0%T)
    end.
  Definition t_speed (s : state) : verdict := t_positive (v_speed_of_sound s).
  Definition t_resolution (s : state) : verdict := t_positive (v_etc_time_resolution s).
  Definition t_duration (s : state) : verdict := t_positive (v_etc_duration s).
  Definition t_distance (s : state) : verdict :=
    match v_distance_patches_to_source s with
    | None => None
    | Some sh => raise_if (negb (shape_eqb sh [v_n_patches s]))
    end.
  Definition t_energy_init (s : state) : verdict :=
    match v_energy_init_source s with
    | None => None
    | Some sh => raise_if (negb (shape_eqb sh [v_n_patches s; n_dirs s; n_bins s]))
    end.
  (** [n_samples = int(etc_duration / etc_time_resolution)]: TypeError when either is None *)
  Definition hist_samples (d r : T) : nat := ttrunc (d / r)%T.
  Definition t_histogram (s : state) : verdict :=
    match v_energy_exchange_etc s with
    | None => None
    | Some sh =>
        match v_etc_duration s, v_etc_time_resolution s with
        | Some d, Some r =>
            raise_if (negb (shape_eqb sh [v_n_patches s; n_dirs s; n_bins s; hist_samples d r]))
        | _, _ => Some OtherError
        end
    end.

  (** the cascade, in the order of [check()] *)
  Definition cascade : list (state -> verdict) :=
    [ t_walls; t_up; t_normal; t_patches; t_ids_shape; t_ids_range; t_ids_cover;
      t_freq; t_form_factors; t_brdf_index; t_in_dirs; t_out_dirs; t_tilde; t_attenuation;
      t_speed; t_resolution; t_duration; t_distance; t_energy_init; t_histogram ].

  Fixpoint run_cascade (l : list (state -> verdict)) (s : state) : result :=
    match l with
    | [] => Ok
    | t :: r => match t s with Some e => e | None => run_cascade r s end
    end.

  (** the constructor called with the state as keyword arguments / [from_dict]: the first failing test decides *)
  Definition construct (s : state) : result := run_cascade cascade s.
End Validate.
