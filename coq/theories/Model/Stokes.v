(** * L1 executable model of the Stokes (contour) form-factor integrator and of the
    form-factor assembly ([form_factor/integration.py], [form_factor/universal.py],
    [geometry._coincidence_check]).

    Definitions only, polymorphic in the scalar type, no law is used.  The outputs of the Nusselt
    integrator enter [patch2patch_ff] as data here; [Model/Nusselt.v] models the integrator and
    [patch2patch_ff_full] there computes both branches. *)
From Coq Require Import List Arith Bool.
Import ListNotations.
From SV Require Import Base.Ops Base.Arr Model.Vec3 Model.Exchange.

Section Stokes.
  Context {T : Type} {O : Ops T}.

  (** small integer constants as the code's int->float conversions (all exact in binary64) *)
  Fixpoint tnat (n : nat) : T := match n with 0 => 0%T | S m => (tnat m + 1)%T end.
  Definition c2 : T := (1 + 1)%T.
  Definition c4 : T := (c2 * c2)%T.
  Definition c7 : T := ((c4 + c2) + 1)%T.
  Definition c12 : T := (c4 * (c2 + 1))%T.
  Definition c32 : T := ((c4 * c4) * c2)%T.
  Definition c45 : T := ((c4 + 1) * ((c4 * c2) + 1))%T.

  (** ** [_sample_boundary_regular(el, npoints)]
      point [i*n_div+ii] is [el[i] + ii*(el[(i+1)%n]-el[i])/n_div]; connectivity row [i] lists
      the [npoints] indices of edge [i], the last one wrapping around to point 0. *)
  Definition bpoint (nd : nat) (el : list vec) (k : nat) : vec :=
    let i := k / nd in
    let ii := k mod nd in
    let a := nthv el i in
    let b := nthv el ((i + 1) mod (length el)) in
    vadd a (vdivs (vscale (tnat ii) (vsub b a)) (tnat nd)).
  Definition sample_pts (npoints : nat) (el : list vec) : list vec :=
    tab (length el * (npoints - 1)) (bpoint (npoints - 1) el).
  Definition sample_conn (npoints n : nat) : list (list nat) :=
    tab n (fun i => tab npoints (fun ii => (i * (npoints - 1) + ii) mod ((npoints - 1) * n))).

  (** ** [load_stokes_entries]: ln of the distance between boundary points *)
  Definition stokes_entry (p q : vec) : T := tln (vnorm (vsub p q)).
  Definition load_stokes_entries (ib jb : list vec) : arr2 :=
    map (fun p => map (fun q => stokes_entry p q) jb) ib.

  (** ** [_newton_cotes_4th]: Boole's rule, [2*h/45*(7*y0+32*y1+12*y2+32*y3+7*y4)], [h = x[1]-x[0]] *)
  Definition boole_h (h y0 y1 y2 y3 y4 : T) : T :=
    (((c2 * h) / c45) * ((((c7 * y0 + c32 * y1) + c12 * y2) + c32 * y3) + c7 * y4))%T.
  Definition newton_cotes_4th (x y : list T) : T :=
    boole_h (nthT x 1 - nthT x 0)%T (nthT y 0) (nthT y 1) (nthT y 2) (nthT y 3) (nthT y 4).

  (** ** [stokes_integration] *)
  Definition coord (dim : nat) (v : vec) : T :=
    match dim with 0 => vx v | 1 => vy v | _ => vz v end.
  Definition seg_coords (pts : list vec) (seg : list nat) (dim : nat) : list T :=
    map (fun k => coord dim (nthv pts k)) seg.
  (** [x[-1] - x[0]] *)
  Definition seg_extent (x : list T) : T := (nthT x (length x - 1) - nthT x 0)%T.

  (** [act e] decides whether a segment of signed coordinate extent [e] is integrated *)
  Variable act : T -> bool.

  (** inner integral of boundary point [i] of patch i over the segments of patch j *)
  Definition inner_int (fm : arr2) (jb : list vec) (jconn : list (list nat)) (dim i : nat) : T :=
    fold_left (fun acc seg =>
      let xj := seg_coords jb seg dim in
      if act (seg_extent xj)
      then (acc + newton_cotes_4th xj (map (fun k => get2 fm i k) seg))%T
      else acc) jconn 0%T.
  (** outer integral over the segments of patch i, accumulated into [acc0] *)
  Definition outer_dim (fm : arr2) (ib : list vec) (iconn : list (list nat))
      (jb : list vec) (jconn : list (list nat)) (dim : nat) (acc0 : T) : T :=
    fold_left (fun acc seg =>
      let xi := seg_coords ib seg dim in
      if act (seg_extent xi)
      then (acc + newton_cotes_4th xi (map (fun k => inner_int fm jb jconn dim k) seg))%T
      else acc) iconn acc0.
  Definition stokes_outer (patch_i patch_j : list vec) : T :=
    let ib := sample_pts 5 patch_i in
    let jb := sample_pts 5 patch_j in
    let iconn := sample_conn 5 (length patch_i) in
    let jconn := sample_conn 5 (length patch_j) in
    let fm := load_stokes_entries ib jb in
    fold_left (fun acc dim => outer_dim fm ib iconn jb jconn dim acc) (seq 0 3) 0%T.
  Definition stokes_gen (patch_i patch_j : list vec) (area_i : T) : T :=
    tabs (stokes_outer patch_i patch_j / ((c2 * tpi) * area_i))%T.
End Stokes.

Section Universal.
  Context {T : Type} {O : Ops T}.

  (** [np.abs(x[-1]-x[0]) > cut] *)
  Definition cut_active (cut e : T) : bool := tltb cut (tabs e).
  (** the code, with its cut-off ([cut] = 1e-3 in /repo) *)
  Definition stokes_integration (cut : T) : list vec -> list vec -> T -> T :=
    stokes_gen (cut_active cut).
  (** the same double Boole sum with every segment integrated *)
  Definition stokes_nocut : list vec -> list vec -> T -> T := stokes_gen (fun _ => true).

  (** ** [geometry._coincidence_check(p0, p1, thres)] *)
  Definition coincidence_check (thres : T) (p0 p1 : list vec) : bool :=
    existsb (fun a => existsb (fun b => tltb (vnorm (vsub a b)) thres) p1) p0.

  (** ** [universal_form_factor]: [inl v] = Stokes branch with value [v];
      [inr tt] = the Nusselt integrator is called (not modelled). *)
  Definition universal_branch (thres cut : T) (src : list vec) (src_area : T) (rcv : list vec)
      : T + unit :=
    if coincidence_check thres rcv src then inr tt
    else inl (stokes_integration cut src rcv src_area).
  Definition universal_ff (thres cut nusselt : T) (src : list vec) (src_area : T) (rcv : list vec) : T :=
    match universal_branch thres cut src src_area rcv with inl v => v | inr _ => nusselt end.

  (** ** [patch2patch_ff_universal]: zero matrix, only pairs of the list are written.
      [nus] carries the Nusselt integrator's outputs (read only on that branch). *)
  Definition pair_in (pairs : list (nat * nat)) (i j : nat) : bool :=
    existsb (fun p => (fst p =? i) && (snd p =? j)) pairs.
  Definition patch2patch_ff (thres cut : T) (pts : list (list vec)) (areas : list T)
      (pairs : list (nat * nat)) (nus : arr2) : arr2 :=
    let n := length areas in
    tab n (fun i => tab n (fun j =>
      if pair_in pairs i j
      then universal_ff thres cut (get2 nus i j) (nth i pts []) (nthT areas i) (nth j pts [])
      else 0%T)).
End Universal.
