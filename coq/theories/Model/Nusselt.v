(** * L1 executable model of the Nusselt-analogue form-factor integrator
    ([form_factor/integration.py]: [nusselt_analog], [nusselt_integration],
    [_surf_sample_regulargrid], [_area_under_curve], [_poly_estimation_Lagrange],
    [_poly_integration]; [_sample_boundary_regular] with npoints = 3, [geometry._polygon_area],
    [_rotation_matrix], [_matrix_vector_product] are the existing [Stokes.sample_pts],
    [PtSolution.poly_area], [Visibility.rotation_to_z], [Visibility.mvec]) and of the
    [universal_form_factor] assembly with the Nusselt branch computed by this model.

    Definitions only, polymorphic in the scalar type, no law is used.  The float evaluation order
    of the Python code is mirrored.  The three literals 1e-6 of the code are inputs:
    [thr_seg] ([norm(cross(..)) > 1e-6]), [thr_dot] ([dot(..) >= 1e-6]) and [thr_lag]
    ([abs(x[-1]-x[0]) < 1e-6] in [_poly_estimation_Lagrange]).

    Two library calls are replaced by closed forms (compared with /repo at relative 1e-9):
    - [np.linalg.inv] of the 3x3 Vandermonde matrix followed by the matrix-vector product is the
      vector of coefficients of the Lagrange interpolation polynomial ([lagrange3]);
    - [x**k] with an integer k is the k-fold product ([tpow]).
    Python's [round] (round-half-to-even on a float, result an int) is [round_he]. *)
From Coq Require Import List Arith Bool.
Import ListNotations.
From SV Require Import Base.Ops Base.Arr Model.Vec3 Model.Exchange Model.Scene Model.PtSolution
  Model.Visibility Model.Stokes.

Section Nusselt.
  Context {T : Type} {O : Ops T}.
  Local Notation vec := (@vec T).

  (** [np.sign] *)
  Definition tsign (x : T) : T :=
    if tltb 0%T x then 1%T else if tltb x 0%T then (- (1))%T else 0%T.

  (** [x**k] for a non-negative Python int k *)
  Fixpoint tpow (x : T) (k : nat) : T :=
    match k with 0 => 1%T | S m => (tpow x m * x)%T end.

  (** Python's [round(x)] for a float [x >= 0]: nearest integer, ties to the even one.
      [x - trunc x] is computed exactly in binary floating point. *)
  Definition round_he (x : T) : nat :=
    let n := ttrunc x in
    let f := (x - tnat n)%T in
    let h := (1 / c2)%T in
    if tltb f h then n else if tltb h f then S n else if Nat.even n then n else S n.

  (** ** 2-vectors ([plnPts], the arrays inside [_area_under_curve]) *)
  Definition v2 : Type := (T * T)%type.
  Definition v2sub (a b : v2) : v2 := ((fst a - fst b)%T, (snd a - snd b)%T).
  Definition v2dot (a b : v2) : T := (fst a * fst b + snd a * snd b)%T.
  Definition v2norm (a : v2) : T := tsqrt (v2dot a a).
  Definition v2zero : v2 := (0%T, 0%T).
  Definition nth2 (l : list v2) (i : nat) : v2 := nth i l v2zero.
  (** [w[:-1]] of a 3-vector, and the 3-vector [(x, y, 0.)] of [projPts] *)
  Definition drop_z (w : vec) : v2 := (vx w, vy w).
  Definition lift0 (p : v2) : vec := mkv (fst p) (snd p) 0%T.

  (** ** [_poly_estimation_Lagrange(x, y)] for three samples.
      [inv(xmat) . y] with rows [xi**2, xi, 1] is the coefficient vector (highest power first) of
      the interpolation polynomial  sum_k y_k prod_{m<>k} (X - x_m)/(x_k - x_m). *)
  Definition lagrange3 (thr_lag x0 x1 x2 y0 y1 y2 : T) : T * T * T :=
    if tltb (tabs (x2 - x0)%T) thr_lag then (0%T, 0%T, 0%T)
    else
      let l0 := (y0 / ((x0 - x1) * (x0 - x2)))%T in
      let l1 := (y1 / ((x1 - x0) * (x1 - x2)))%T in
      let l2 := (y2 / ((x2 - x0) * (x2 - x1)))%T in
      (((l0 + l1) + l2)%T,
       (- ((l0 * (x1 + x2) + l1 * (x0 + x2)) + l2 * (x0 + x1)))%T,
       ((l0 * (x1 * x2) + l1 * (x0 * x2)) + l2 * (x0 * x1))%T).

  (** ** [_poly_integration(c, x)] for three coefficients; [xa = x[0]], [xb = x[-1]]:
      [out += c[i]*x[-1]**(3-i)/(3-i); out -= c[i]*x[0]**(3-i)/(3-i)] *)
  Definition poly_step (xa xb : T) (out : T) (ck : T * nat) : T :=
    let c := fst ck in
    let k := snd ck in
    ((out + (c * tpow xb k) / tnat k) - (c * tpow xa k) / tnat k)%T.
  Definition poly_integration3 (c : T * T * T) (xa xb : T) : T :=
    fold_left (poly_step xa xb) [(fst (fst c), 3); (snd (fst c), 2); (snd c, 1)] 0%T.

  (** ** [_area_under_curve(ps, order=2)] for three 2-D samples (order = min(2, len(ps)-1) = 2):
      rotate the chord [ps[-1]-ps[0]] onto the x axis, interpolate, integrate.
      [x[0] = y[0] = 0] (np.zeros; the loop starts at k = 1). *)
  Definition area_under_curve (thr_lag : T) (p0 p1 p2 : v2) : T :=
    let f := v2sub p2 p0 in
    let n := v2norm f in
    let r0 : v2 := ((fst f / n)%T, (snd f / n)%T) in
    let r1 : v2 := (((- snd f) / n)%T, (fst f / n)%T) in
    let c1 := v2sub p1 p0 in
    let c2' := v2sub p2 p0 in
    let x1 := v2dot r0 c1 in
    let y1 := v2dot r1 c1 in
    let x2 := v2dot r0 c2' in
    let y2 := v2dot r1 c2' in
    poly_integration3 (lagrange3 thr_lag 0%T x1 x2 0%T y1 y2) 0%T x2.

  (** every other entry: [projPts[0::2]] *)
  Fixpoint evens {A} (l : list A) : list A :=
    match l with
    | [] => []
    | a :: r => a :: match r with [] => [] | _ :: r' => evens r' end
    end.

  (** ** one boundary segment of [nusselt_analog]: the term added to [curved_area]
      ([None]: the segment is skipped).  [sph] = sphPts, [pln] = plnPts, [rot] = rotmat. *)
  Definition seg_term (thr_seg thr_dot thr_lag : T) (rot : @mat T) (sph : list vec) (pln : list v2)
      (seg : list nat) : option T :=
    let i0 := nthn seg 0 in
    let i1 := nthn seg 1 in
    let i2 := nthn seg (length seg - 1) in
    let P0 := nth2 pln i0 in
    let P1 := nth2 pln i1 in
    let P2 := nth2 pln i2 in
    if tltb thr_seg (vnorm (vcross (lift0 P2) (lift0 P0))) then
      if tleb thr_dot (v2dot P2 P0) then
        (* the points on the segment span less than 90 degrees *)
        Some (area_under_curve thr_lag P0 P1 P2)
      else
        let S0 := nthv sph i0 in
        let S2 := nthv sph i2 in
        let mpoint := vadd S0 (vdivs (vsub S2 S0) c2) in
        let marc := vdivs mpoint (vnorm mpoint) in
        let a := vadd S0 (vdivs (vsub marc S0) c2) in
        let b := vadd marc (vdivs (vsub S2 marc) c2) in
        let mpoint2 := drop_z (mvec rot mpoint) in
        let marc2 := drop_z (mvec rot marc) in
        let a2 := drop_z (mvec rot (vdivs a (vnorm a))) in
        let b2 := drop_z (mvec rot (vdivs b (vnorm b))) in
        let linArea := ((v2norm (v2sub P2 P0) * v2norm (v2sub mpoint2 marc2)) / c2)%T in
        let left := area_under_curve thr_lag P0 a2 marc2 in
        let right := area_under_curve thr_lag marc2 b2 P2 in
        Some ((linArea * tsign left + left) + right)%T
    else None.

  (** ** [nusselt_analog(surf_origin, surf_normal, patch_points, patch_normal)] *)
  Definition hand_of (pts : list vec) (pnormal : vec) : T :=
    tsign (vdot (vcross (vsub (nthv pts 1) (nthv pts 0)) (vsub (nthv pts 2) (nthv pts 1))) pnormal).
  (** the part that sees the geometry only through the points on the unit sphere *)
  Definition analog_of_sphere (thr_seg thr_dot thr_lag : T) (normal : vec) (hand : T)
      (sph : list vec) (nvert : nat) : T :=
    let rot := rotation_to_z normal in
    let pln := map (fun s => drop_z (mvec rot s)) sph in
    let big_poly := poly_area (map lift0 (evens pln)) in
    let curved := fold_left (fun acc seg =>
        match seg_term thr_seg thr_dot thr_lag rot sph pln seg with
        | Some a => (acc + a)%T
        | None => acc
        end) (sample_conn 3 nvert) 0%T in
    (big_poly + hand * curved)%T.
  Definition nusselt_analog (thr_seg thr_dot thr_lag : T) (origin normal : vec) (pts : list vec)
      (pnormal : vec) : T :=
    analog_of_sphere thr_seg thr_dot thr_lag normal (hand_of pts pnormal)
      (on_sphere origin (sample_pts 3 pts)) (length pts).

  (** ** [_surf_sample_regulargrid(el, npoints)] *)
  (** [np.linspace(0, stop, n)[i]] for [i < n] *)
  Definition linspace0 (stop : T) (n i : nat) : T :=
    if n <=? 1 then (tnat i * stop)%T
    else if i =? n - 1 then stop
    else (tnat i * (stop / tnat (n - 1)))%T.
  Definition grid_u (el : list vec) : vec := vsub (nthv el 1) (nthv el 0).
  Definition grid_v (el : list vec) : vec := vsub (nthv el (length el - 1)) (nthv el 0).
  Definition grid_a (el : list vec) : nat := if length el =? 3 then 2 else 1.
  Definition nonzero (n : nat) : nat := if n =? 0 then 1 else n.
  Definition grid_nx (el : list vec) (npoints : nat) : nat :=
    nonzero (round_he ((vnorm (grid_u el) / vnorm (grid_v el)) * tsqrt (tnat (grid_a el * npoints)))%T).
  Definition grid_nz (el : list vec) (npoints : nat) : nat :=
    nonzero (round_he ((vnorm (grid_v el) / vnorm (grid_u el)) * tsqrt (tnat (grid_a el * npoints)))%T).
  (** [tt[i]] resp. [tz[i]]: [linspace(0, 1-1/n, n)[i] + 1/(n*2)] *)
  Definition grid_coord (n i : nat) : T :=
    (linspace0 (1 - 1 / tnat n)%T n i + 1 / tnat (n * 2))%T.
  (** the end index of [tz[0:len(tz)-r]] (Python slice semantics for a negative stop) *)
  Definition slice_stop (len r : nat) : nat := if r <=? len then len - r else (len + len) - r.
  (** the two loops; [tri]: the patch is a triangle, [o] = [el[0]] *)
  Definition grid_pts (tri : bool) (nx nz : nat) (u v o : vec) : list vec :=
    let sstep := (1 / tnat (nx * 2))%T in
    let sstepz := (1 / tnat (nz * 2))%T in
    let thres := (tsqrt (sstepz * sstepz + sstep * sstep) / c2)%T in
    flat_map (fun i =>
      let s := grid_coord nx i in
      let jj := if tri then i else 0 in
      let stop := slice_stop nz (round_he ((tnat nz / tnat nx) * tnat jj)%T) in
      flat_map (fun j =>
        let t := grid_coord nz j in
        let inside := tleb (s + t)%T (1 - thres)%T in
        if tri && negb inside then []
        else [vadd (vadd (vscale s u) (vscale t v)) o]) (seq 0 stop)) (seq 0 nx).
  Definition surf_grid (el : list vec) (npoints : nat) : list vec :=
    grid_pts (length el =? 3) (grid_nx el npoints) (grid_nz el npoints) (grid_u el) (grid_v el) (nthv el 0).

  (** ** [nusselt_integration(patch_i, patch_j, patch_i_normal, patch_j_normal, nsamples, random=False)] *)
  Definition nusselt_integration (thr_seg thr_dot thr_lag : T) (patch_i patch_j : list vec)
      (ni nj : vec) (nsamples : nat) : T :=
    let p0 := surf_grid patch_i nsamples in
    let out := fold_left (fun acc p =>
      (acc + nusselt_analog thr_seg thr_dot thr_lag p ni patch_j nj)%T) p0 0%T in
    (out * (1 / (tpi * tnat (length p0))))%T.

  (** ** the Nusselt branch of [universal_form_factor]: [nsamples=64] *)
  Definition nusselt_ff (thr_seg thr_dot thr_lag : T) (src : list vec) (src_n : vec)
      (rcv : list vec) (rcv_n : vec) : T :=
    nusselt_integration thr_seg thr_dot thr_lag src rcv src_n rcv_n 64.

  (** [universal_form_factor] with both branches computed *)
  Definition universal_ff_full (thres cut thr_seg thr_dot thr_lag : T) (src : list vec) (src_n : vec)
      (src_area : T) (rcv : list vec) (rcv_n : vec) : T :=
    match universal_branch thres cut src src_area rcv with
    | inl v => v
    | inr _ => nusselt_ff thr_seg thr_dot thr_lag src src_n rcv rcv_n
    end.

  (** [patch2patch_ff_universal] with both branches computed *)
  Definition patch2patch_ff_full (thres cut thr_seg thr_dot thr_lag : T) (pts : list (list vec))
      (normals : list vec) (areas : list T) (pairs : list (nat * nat)) : arr2 :=
    let n := length areas in
    tab n (fun i => tab n (fun j =>
      if pair_in pairs i j
      then universal_ff_full thres cut thr_seg thr_dot thr_lag (nth i pts []) (nthv normals i)
             (nthT areas i) (nth j pts []) (nthv normals j)
      else 0%T)).
  (** the matrix of Nusselt values that [Stokes.patch2patch_ff] takes as data *)
  Definition nusselt_matrix (thr_seg thr_dot thr_lag : T) (pts : list (list vec)) (normals : list vec)
      (n : nat) : arr2 :=
    tab n (fun i => tab n (fun j =>
      nusselt_ff thr_seg thr_dot thr_lag (nth i pts []) (nthv normals i) (nth j pts []) (nthv normals j))).
End Nusselt.
