(** * L1 executable model of the time-resolved energy exchange
    ([RadiosityFast._energy_exchange_init_energy], [_energy_exchange]).

    Histograms are lists of length [N]; 4-d arrays are nested lists
    [E[j][d][b][t]] (patch, outgoing-direction slot, band, time bin).
    Written in gather form: each output element is a fold over the directed
    pair list of the contributions that target it, in the pair-list order the
    code accumulates in. *)
From Coq Require Import List Arith Bool.
Import ListNotations.
From SV Require Import Base.Ops Base.Arr.

Section Exchange.
  Context {T : Type} {O : Ops T}.

  Definition arr4 := list (list (list (list T))).
  Definition arr3 := list (list (list T)).
  Definition arr2 := list (list T).

  Definition nthT (l : list T) (i : nat) : T := nth i l 0%T.
  Definition get2 (a : arr2) i j : T := nthT (nthl a i) j.
  Definition get3 (a : arr3) i j k : T := nthT (nthl (nthl a i) j) k.
  Definition get4 (a : arr4) i j k l : T := nthT (nthl (nthl (nthl a i) j) k) l.

  (** [int(x / c / dt)] and [int(ceil(x / c / dt))] *)
  Definition delay_floor (dist c dt : T) : nat := ttrunc ((dist / c) / dt)%T.
  Definition delay_ceil (dist c dt : T) : nat := tceil ((dist / c) / dt)%T.

  (** slice-semantics shift: [out[d:] = h[:N-d]], zero fill, nothing wraps *)
  Definition shift_trunc (N d : nat) (h : list T) : list T :=
    tab N (fun t => if t <? d then 0%T else nthT h (t - d)).
  (** [np.roll] (kept to state what the repaired code no longer does) *)
  Definition roll (N d : nat) (h : list T) : list T :=
    tab N (fun t => nthT h ((t + (N - d mod N)) mod N)).

  (** directed pair list: both directions of a visible pair are adjacent *)
  Definition directed (vis : list (nat * nat)) : list (nat * nat) :=
    flat_map (fun p => [(fst p, snd p); (snd p, fst p)]) vis.

  (** order 0: the initial energy in the source->patch bin; energy whose bin is
      beyond the histogram end is dropped *)
  Definition init_hist (np nd nb N : nat) (e0 : arr3) (delay0 : list nat) : arr4 :=
    tab np (fun i => tab nd (fun d => tab nb (fun b => tab N (fun t =>
      if t =? nthn delay0 i then get3 e0 i d b else 0%T)))).

  (** one reflection order *)
  Definition step (dpairs : list (nat * nat)) (np nd nb N : nat)
      (fft : arr4) (p2o delay : list (list nat)) (prev : arr4) : arr4 :=
    tab np (fun j => tab nd (fun d => tab nb (fun b => tab N (fun t =>
      fold_left (fun acc p =>
        let i := fst p in
        if snd p =? j then
          let dl := get2n delay i j in
          if t <? dl then acc
          else (acc + get4 fft i j d b * get4 prev i (get2n p2o i j) b (t - dl))%T
        else acc) dpairs 0%T)))).

  Definition add4 (np nd nb N : nat) (a b : arr4) : arr4 :=
    tab np (fun j => tab nd (fun d => tab nb (fun bb => tab N (fun t =>
      (get4 a j d bb t + get4 b j d bb t)%T)))).

  Fixpoint run (K : nat) dpairs np nd nb N fft p2o delay (cur tot : arr4) : arr4 :=
    match K with
    | 0 => tot
    | S K' =>
      let nxt := step dpairs np nd nb N fft p2o delay cur in
      run K' dpairs np nd nb N fft p2o delay nxt (add4 np nd nb N tot nxt)
    end.

  (** [_energy_exchange] *)
  Definition exchange (K : nat) (vis : list (nat * nat)) np nd nb N
      (e0 : arr3) (delay0 : list nat) fft p2o delay : arr4 :=
    let i0 := init_hist np nd nb N e0 delay0 in
    run K (directed vis) np nd nb N fft p2o delay i0 i0.

  (** the individual order-k histograms (for per-order energy accounting) *)
  Fixpoint order_k (k : nat) dpairs np nd nb N fft p2o delay (init : arr4) : arr4 :=
    match k with
    | 0 => init
    | S k' => step dpairs np nd nb N fft p2o delay (order_k k' dpairs np nd nb N fft p2o delay init)
    end.
End Exchange.
