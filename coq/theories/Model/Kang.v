(** * L1 executable model of the Kang radiosity engine
    ([sparrowpy/classes/RadiosityKang.py]: [PatchesKang.init_energy_exchange],
    [_init_energy_exchange], [calculate_form_factor], [get_form_factor],
    [calculate_energy_exchange], [_add_delay], [PatchesKang.energy_at_receiver],
    [RadiosityKang.run], [RadiosityKang.energy_at_receiver]).

    A scene is a list of walls; each wall carries its patch centres and sizes (the
    [Polygon.center]/[Polygon.size] of [PatchesKang.patches], in list order), its
    normal, the centre of the wall polygon, [max_size], [other_wall_ids] and the
    per-band scattering / absorption / air-attenuation arrays.  The per-order energy is
    [E[w][b][r][t]] (wall, band, patch, time bin); the code stores [E_matrix[b][k][r][t]]
    per wall.  Floating-point evaluation order mirrors the code. *)
From Coq Require Import List Arith Bool.
Import ListNotations.
From SV Require Import Base.Ops Base.Arr Model.Vec3 Model.Exchange.

Section Kang.
  Context {T : Type} {O : Ops T}.

  Record kwall := mkKwall {
    kw_centers : list (@vec T);     (* patch centres *)
    kw_sizes : list (@vec T);       (* patch sizes ([Polygon.size]) *)
    kw_normal : @vec T;
    kw_wcenter : @vec T;            (* centre of the wall polygon *)
    kw_maxsize : T;
    kw_others : list nat;           (* other_wall_ids, in the order given *)
    kw_scat : list T;
    kw_alpha : list T;
    kw_att : list T                 (* sound_attenuation_factor *)
  }.

  Record kscene := mkKscene {
    ks_walls : list kwall;
    ks_nb : nat;                    (* frequency bands *)
    ks_c : T;                       (* speed of sound *)
    ks_fs : T;                      (* sampling rate *)
    ks_len : T;                     (* ir_length_s *)
    ks_src : @vec T;
    ks_power : T
  }.

  (** ** small helpers *)
  Definition ksq (x : T) : T := (x * x)%T.
  Definition ktwo : T := (1 + 1)%T.
  Definition khalf : T := (1 / ktwo)%T.
  Definition kneg1 : T := (- (1))%T.
  Fixpoint kpow10 (n : nat) : T :=
    match n with 0 => 1%T | S n' => (kpow10 n' * tofnat 10)%T end.
  Definition keps5 : T := (1 / kpow10 5)%T.       (* 1e-5 *)
  Definition keps11 : T := (1 / kpow10 11)%T.     (* 1e-11 *)
  Definition keps12 : T := (1 / kpow10 12)%T.     (* 1e-12 *)
  Definition kc099 : T := (tofnat 99 / tofnat 100)%T.   (* 0.99 *)

  Definition kcomp (v : @vec T) (i : nat) : T :=
    match i with 0 => vx v | 1 => vy v | _ => vz v end.
  Definition kvabs (v : @vec T) : @vec T := mkv (tabs (vx v)) (tabs (vy v)) (tabs (vz v)).

  Definition khzero (N : nat) : list T := tab N (fun _ => 0%T).
  (** [a += e] on histograms of [N] bins *)
  Definition khadd (N : nat) (a e : list T) : list T :=
    tab N (fun t => (nthT a t + nthT e t)%T).

  (** ** scalar formulas *)

  (** [_init_energy_exchange] without the per-band constants:
      [(|sin_phi_delta - sin_phi|, beta)] *)
  Definition ke0_geom (dl dm dn ddl ddm Sx Sy Sz : T) : T * T :=
    let hl := (ddl / ktwo)%T in
    let hm := (ddm / ktwo)%T in
    let spd := (((dl + hl) - Sx) /
                tsqrt ((ksq ((dl + hl) - Sx) + ksq (dm - Sy)) + ksq (dn - Sz)))%T in
    let kphi := if tleb (dl - hl)%T Sx && tleb Sx (dl + hl)%T then kneg1 else 1%T in
    let sp0 := ((kphi * ((dl - hl) - Sx)) /
                tsqrt ((ksq ((dl - hl) - Sx) + ksq (dm - Sy)) + ksq (dn - Sz)))%T in
    let sp := if tltb (spd - sp0)%T keps11 then (sp0 * kneg1)%T else sp0 in
    let plus := tatan (tabs (((dm + hm) - Sy) / tabs Sz))%T in
    let minus := tatan (tabs (((dm - hm) - Sy) / tabs Sz))%T in
    let kbeta := if tleb (dm - hm)%T Sy && tleb Sy (dm + hm)%T then kneg1 else 1%T in
    (tabs (spd - sp)%T, tabs (plus - (kbeta * minus))%T).

  (** orthogonal walls, eq. (11)-(15): [dl], [dl'] coordinates along the shared axis,
      [dm] distance along the receiver's normal axis, [dn'] along the source's *)
  Definition kff_orth (dl dl' dm dn' dd : T) : T :=
    let h := (khalf * dd)%T in
    let A := ((dm - h) / tsqrt ((ksq (dl - dl') + ksq (dm - h)) + ksq dn'))%T in
    let B := ((dm + h) / tsqrt ((ksq (dl - dl') + ksq (dm + h)) + ksq dn'))%T in
    let one := tatan (tabs (((dl - h) - dl') / dn'))%T in
    let two := tatan (tabs (((dl + h) - dl') / dn'))%T in
    let k := if tltb (tabs (dl - dl')%T) keps12 then kneg1 else 1%T in
    let theta := tabs (one - (k * two))%T in
    (((1 / (ktwo * tpi)) * tabs (ksq A - ksq B)) * theta)%T.

  (** parallel walls, eq. (16): arguments are coordinate differences receiver - source *)
  Definition kff_par (el en em dd : T) : T :=
    let d := tsqrt ((ksq el + ksq en) + ksq em)%T in
    (((dd * dd) * ksq em) / (tpi * ((d * d) * (d * d))))%T.

  Definition kgt_abs (x e : T) : bool := tltb e (tabs x).
  (** first axis (x, y, z) on which the normal has a component above 1e-5; 3 = none *)
  Definition kaxis_of (n : @vec T) : nat :=
    if kgt_abs (vx n) keps5 then 0 else if kgt_abs (vy n) keps5 then 1
    else if kgt_abs (vz n) keps5 then 2 else 3.
  (** axis selection of [init_energy_exchange] (z, then y, then x; threshold 0.99) *)
  Definition kaxis99 (n : @vec T) : nat :=
    if kgt_abs (vz n) kc099 then 2 else if kgt_abs (vy n) kc099 then 1
    else if kgt_abs (vx n) kc099 then 0 else 3.

  (** ** scene accessors *)
  Variable sc : kscene.

  Definition kwall_nil : kwall := mkKwall [] [] vzero vzero 0%T [] [] [] [].
  Definition knw : nat := length (ks_walls sc).
  Definition kwl (w : nat) : kwall := nth w (ks_walls sc) kwall_nil.
  Definition knpat (w : nat) : nat := length (kw_centers (kwl w)).
  Definition kpc (w r : nat) : @vec T := nthv (kw_centers (kwl w)) r.
  Definition kpsize (w r : nat) : @vec T := nthv (kw_sizes (kwl w)) r.
  Definition kothers (w : nat) : list nat := kw_others (kwl w).
  Definition kscat (w b : nat) : T := nthT (kw_scat (kwl w)) b.
  Definition kalpha (w b : nat) : T := nthT (kw_alpha (kwl w)) b.
  Definition katt (w b : nat) : T := nthT (kw_att (kwl w)) b.

  (** [E_n_samples = int(ir_length_s * sampling_rate)] *)
  Definition kN : nat := ttrunc (ks_len sc * ks_fs sc)%T.
  (** [int(distance / speed_of_sound * sampling_rate)] *)
  Definition kdelay (d : T) : nat := ttrunc ((d / ks_c sc) * ks_fs sc)%T.
  (** centre-to-centre distance, [norm(receiver - source)] *)
  Definition kpdist (w' s w r : nat) : T := vnorm (vsub (kpc w r) (kpc w' s)).

  (** ** [init_energy_exchange] *)
  Definition ksrc_dist (w r : nat) : T := vnorm (vsub (kpc w r) (ks_src sc)).
  Definition kdelay0 (w r : nat) : nat := kdelay (ksrc_dist w r).
  Definition ke0_pair (w r : nat) : T * T :=
    let ax := kaxis99 (kw_normal (kwl w)) in
    match ax with
    | 3 => (0%T, 0%T)            (* the code raises AssertionError: not axis-aligned *)
    | _ =>
      let i0 := (ax + 1) mod 3 in
      let i1 := (ax + 2) mod 3 in
      let rp := kpc w r in
      let sp := ks_src sc in
      let off := kcomp rp ax in
      ke0_geom (kcomp rp i0) (kcomp rp i1) (tabs (kcomp rp ax - off)%T)
              (kcomp (kpsize w r) i0) (kcomp (kpsize w r) i1)
              (kcomp sp i0) (kcomp sp i1) (tabs (kcomp sp ax - off)%T)
    end.
  Definition ke0 (w r b : nat) : T :=
    let g := ke0_pair w r in
    let const := ((ks_power sc * (1 - kalpha w b)) * texp ((- katt w b) * ksrc_dist w r))%T in
    (((const * fst g) * snd g) / (tofnat 4 * tpi))%T.

  Definition kstate := list (list (list (list T))).     (* [w][b][r][t] *)
  Definition khist (cur : kstate) (w b r : nat) : list T := nthl (nthl (nthl cur w) b) r.

  Definition kinit_with (d0 : nat -> nat -> nat) (en : nat -> nat -> nat -> T) (N : nat) : kstate :=
    tab knw (fun w => tab (ks_nb sc) (fun b => tab (knpat w) (fun r => tab N (fun t =>
      if t =? d0 w r then (0 + en w r b)%T else 0%T)))).
  Definition kinit (N : nat) : kstate := kinit_with kdelay0 ke0 N.

  (** ** [calculate_form_factor] *)
  Definition kff_entry (w s o r : nat) : T :=
    let ns := kw_normal (kwl w) in
    let nr := kw_normal (kwl o) in
    let scn := kpc w s in
    let rcn := kpc o r in
    let dd := kw_maxsize (kwl w) in
    if teqb (vdot nr ns) 0%T then
      let a_s := kaxis_of ns in
      let a_r := kaxis_of nr in
      let l := 3 - a_s - a_r in
      kff_orth (kcomp scn l) (kcomp rcn l)
              (tabs (kcomp scn a_r - kcomp rcn a_r)%T)
              (tabs (kcomp scn a_s - kcomp rcn a_s)%T) dd
    else
      let df := kvabs (vsub (kw_wcenter (kwl o)) (kw_wcenter (kwl w))) in
      if tltb keps5 (vx df) then
        kff_par (vy rcn - vy scn)%T (vz rcn - vz scn)%T (vx rcn - vx scn)%T dd
      else if tltb keps5 (vy df) then
        kff_par (vx rcn - vx scn)%T (vz rcn - vz scn)%T (vy rcn - vy scn)%T dd
      else if tltb keps5 (vz df) then
        kff_par (vy rcn - vy scn)%T (vx rcn - vx scn)%T (vz rcn - vz scn)%T dd
      else 0%T.                   (* the code raises AssertionError *)

  (** row layout: the blocks of the other walls in [other_wall_ids] order *)
  Definition kff_row (F : nat -> nat -> T) (oth : list nat) : list T :=
    flat_map (fun o => tab (knpat o) (fun r => F o r)) oth.
  Definition kff_matrix (w : nat) : list (list T) :=
    tab (knpat w) (fun s => kff_row (fun o r => kff_entry w s o r) (kothers w)).
  Definition kang_ffs : list (list (list T)) := tab knw kff_matrix.

  (** ** [get_form_factor]: column = patch id + patches of the walls that precede the
      receiver wall in the SOURCE wall's [other_wall_ids] *)
  Fixpoint kff_offset (oth : list nat) (target acc : nat) : nat :=
    match oth with
    | [] => acc                  (* not listed: the code raises UnboundLocalError *)
    | o :: rest => if o =? target then acc else kff_offset rest target (acc + knpat o)
    end.
  Definition kget_ff (ffs : list (list (list T))) (w' s w r : nat) : T :=
    get2 (nthl ffs w') s (r + kff_offset (kothers w') w 0).

  (** ** [calculate_energy_exchange]: one order *)
  Definition kcoef_scale (ff scat al ex a : T) : T := ((((a * ff) * scat) * (1 - al)) * ex)%T.
  Definition kterm (N : nat) ffs (cur : kstate) (w b r w' s : nat) : list T :=
    let d := kpdist w' s w r in
    let A := shift_trunc N (kdelay d) (khist cur w' b s) in
    let ff := kget_ff ffs w' s w r in
    let ex := texp ((- katt w b) * d)%T in
    map (kcoef_scale ff (kscat w b) (kalpha w b) ex) A.
  Definition kstep_hist (N : nat) ffs (cur : kstate) (w b r : nat) : list T :=
    fold_left (fun acc w' =>
      fold_left (fun acc s => khadd N acc (kterm N ffs cur w b r w' s)) (seq 0 (knpat w')) acc)
      (kothers w) (khzero N).
  Definition kstep (N : nat) ffs (cur : kstate) : kstate :=
    tab knw (fun w => tab (ks_nb sc) (fun b => tab (knpat w) (fun r => kstep_hist N ffs cur w b r))).

  Fixpoint korder (N : nat) ffs (init : kstate) (k : nat) : kstate :=
    match k with 0 => init | S k' => kstep N ffs (korder N ffs init k') end.
  (** all orders [0..K] ([RadiosityKang.run]) *)
  Fixpoint korders_from (N : nat) ffs (cur : kstate) (K : nat) : list kstate :=
    cur :: match K with 0 => [] | S K' => korders_from N ffs (kstep N ffs cur) K' end.
  Definition kang_run (K : nat) : list kstate := korders_from kN kang_ffs (kinit kN) K.

  (** ** [PatchesKang.energy_at_receiver] *)
  Definition krcv_R (recv : @vec T) (w s : nat) : T := vnorm (vsub (kpc w s) recv).
  Definition krcv_delay (recv : @vec T) (w s : nat) : nat := kdelay (krcv_R recv w s).
  Definition krcv_cos (recv : @vec T) (w s : nat) : T :=
    (tabs (vdot (kw_normal (kwl w)) (kvabs (vsub recv (kpc w s)))) / krcv_R recv w s)%T.
  Definition krcv_factor (recv : @vec T) (w s b : nat) : T :=
    let R := krcv_R recv w s in
    ((krcv_cos recv w s * texp ((- katt w b) * R)) / (tpi * (R * R)))%T.
  Definition kord (E : list kstate) (k : nat) : kstate := nth k E [].
  Definition kwall_resp (N : nat) (E : list kstate) (K : nat) (recv : @vec T) (w b : nat) : list T :=
    fold_left (fun acc s =>
      fold_left (fun acc k =>
        khadd N acc (map (fun a => (a * krcv_factor recv w s b)%T)
                        (shift_trunc N (krcv_delay recv w s) (khist (kord E k) w b s))))
        (seq 0 (S K)) acc)
      (seq 0 (knpat w)) (khzero N).

  (** ** [RadiosityKang.energy_at_receiver] *)
  Definition kresp_patches (N : nat) (E : list kstate) (K : nat) (recv : @vec T) (b : nat) : list T :=
    fold_left (fun acc w => khadd N acc (kwall_resp N E K recv w b)) (seq 0 knw) (khzero N).
  Definition kdirect_r (recv : @vec T) : T := tsqrt (vdist2 recv (ks_src sc)).
  Definition kdirect_val (recv : @vec T) (b : nat) : T :=
    let r := kdirect_r recv in
    ((1 / ((tofnat 4 * tpi) * (r * r))) * texp ((- katt 0 b) * r))%T.
  Definition kdirect_bin (recv : @vec T) : nat := kdelay (kdirect_r recv).
  Definition kresp (N : nat) (E : list kstate) (K : nat) (recv : @vec T) (ignore_direct : bool)
      (b : nat) : list T :=
    let h := kresp_patches N E K recv b in
    if ignore_direct then h
    else if kdirect_bin recv <? N then
      tab N (fun t => if t =? kdirect_bin recv then (nthT h t + kdirect_val recv b)%T else nthT h t)
    else h.
  Definition kang_resp (E : list kstate) (K : nat) (recv : @vec T) (ignore_direct : bool)
    : list (list T) := tab (ks_nb sc) (kresp kN E K recv ignore_direct).
End Kang.
