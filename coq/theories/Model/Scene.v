(** * L1 executable model of the DirectionalRadiosityFast pipeline stages
    (bake assembly, source initialisation, exchange, receiver collection).

    Geometry kernels that are modelled separately (form-factor integrals,
    visibility, point-to-patch shares) enter here as data fields of the scene. *)
From Coq Require Import List Arith Bool.
Import ListNotations.
From SV Require Import Base.Ops Base.Arr Model.Vec3 Model.Exchange.

Section Scene.
  Context {T : Type} {O : Ops T}.

  Record scene := mkScene {
    s_np : nat;                       (* patches *)
    s_nd : nat;                       (* outgoing direction slots *)
    s_nb : nat;                       (* frequency bands *)
    s_centers : list (@vec T);        (* patch centroids *)
    s_areas : list T;
    s_wall : list nat;                (* patch -> wall *)
    s_visU : list (list bool);        (* strict upper-triangular visibility matrix *)
    s_F : @arr2 T;                    (* form factors, entries (i,j) with i<j *)
    s_att : list T;                   (* air attenuation per band, Np/m *)
    s_tables : list (list (list (list T)));  (* table -> in -> out -> band; already times pi *)
    s_tidx : list nat;                (* wall -> table *)
    s_in : list (list (@vec T));      (* wall -> incoming direction set (wall frame applied) *)
    s_out : list (list (@vec T))      (* wall -> outgoing direction set *)
  }.

  Variable sc : scene.

  Definition center i := nthv (s_centers sc) i.
  Definition area i := nthT (s_areas sc) i.
  Definition wall i := nthn (s_wall sc) i.
  Definition att b := nthT (s_att sc) b.
  Definition in_dirs w : list vec := nth w (s_in sc) [].
  Definition out_dirs w : list vec := nth w (s_out sc) [].
  (** pi * BRDF of wall [w], incoming sample [a], outgoing slot [d], band [b] *)
  Definition beta (w a d b : nat) : T :=
    nthT (nthl (nthl (nthl (s_tables sc) (nthn (s_tidx sc) w)) a) d) b.

  Definition vis_sym (i j : nat) : bool :=
    if i <? j then get2b (s_visU sc) i j else get2b (s_visU sc) j i.

  (** visible pair list in row-major order ([bake_geometry]) *)
  Definition vis_pairs : list (nat * nat) :=
    flat_map (fun i => flat_map (fun j => if get2b (s_visU sc) i j then [(i, j)] else [])
                                (seq 0 (s_np sc))) (seq 0 (s_np sc)).

  (** full form-factor matrix from the stored upper triangle (area-ratio rule) *)
  Definition ff_full (i j : nat) : T :=
    if i <? j then get2 (s_F sc) i j
    else ((get2 (s_F sc) j i * area j) / area i)%T.

  Definition dist (i j : nat) : T := vdist (center i) (center j).
  Definition attn (b : nat) (d : T) : T := texp ((- att b) * d)%T.

  (** incoming-direction sample of the RECEIVING patch [j] for energy coming from [i] *)
  Definition in_index (i j : nat) : nat :=
    nearest (in_dirs (wall j)) (vnormalize (vsub (center i) (center j))).
  (** outgoing-direction slot of patch [i] towards patch [j] *)
  Definition out_index (i j : nat) : nat :=
    nearest (out_dirs (wall i)) (vnormalize (vsub (center j) (center i))).

  (** [_form_factors_with_directivity_dim] *)
  Definition tilde_entry (i j d b : nat) : T :=
    if vis_sym i j
    then ((ff_full i j * attn b (dist i j)) * beta (wall j) (in_index i j) d b)%T
    else 0%T.
  Definition tilde : arr4 :=
    tab (s_np sc) (fun i => tab (s_np sc) (fun j => tab (s_nd sc) (fun d => tab (s_nb sc) (fun b =>
      tilde_entry i j d b)))).

  (** [patch_2_brdf_outgoing_index]; invisible pairs keep the invalid preload [nd] *)
  Definition p2o : list (list nat) :=
    tab (s_np sc) (fun i => tab (s_np sc) (fun j =>
      if vis_sym i j then out_index i j else s_nd sc)).

  (** time grid *)
  Record timing := mkTiming { t_c : T; t_dt : T; t_dur : T }.
  Definition n_samples (tm : timing) : nat := ttrunc (t_dur tm / t_dt tm)%T.

  Definition delay_matrix (tm : timing) : list (list nat) :=
    tab (s_np sc) (fun i => tab (s_np sc) (fun j => delay_floor (dist i j) (t_c tm) (t_dt tm))).

  (** source *)
  Record source := mkSource {
    src_pos : @vec T;
    src_vis : list bool;          (* point-to-patch visibility *)
    src_share : list T;           (* solid-angle share of each patch (pt_solution, source mode) *)
    src_dirfac : option (list (list T))   (* directivity factor [patch][band], if any *)
  }.

  Definition src_dist (s : source) (j : nat) : T :=
    if nthb (src_vis s) j then vdist (src_pos s) (center j) else 0%T.
  (** [_source2patch_energy_universal] *)
  Definition energy0 (s : source) (j b : nat) : T :=
    if nthb (src_vis s) j then (attn b (src_dist s j) * nthT (src_share s) j)%T else 0%T.
  Definition src_in_index (s : source) (i : nat) : nat :=
    nearest (in_dirs (wall i)) (vnormalize (vsub (src_pos s) (center i))).
  (** [_add_directional] followed by the directivity block of [init_source_energy] *)
  Definition e0dir_entry (s : source) (i d b : nat) : T :=
    let e := (energy0 s i b * beta (wall i) (src_in_index s i) d b)%T in
    match src_dirfac s with
    | None => e
    | Some f => (e * get2 f i b)%T
    end.
  Definition e0dir (s : source) : arr3 :=
    tab (s_np sc) (fun i => tab (s_nd sc) (fun d => tab (s_nb sc) (fun b => e0dir_entry s i d b))).
  Definition delay0 (tm : timing) (s : source) : list nat :=
    tab (s_np sc) (fun i => delay_floor (src_dist s i) (t_c tm) (t_dt tm)).

  (** [calculate_energy_exchange] with [max_reflection_order = K] *)
  Definition patch_hist (tm : timing) (s : source) (K : nat) : arr4 :=
    exchange K vis_pairs (s_np sc) (s_nd sc) (s_nb sc) (n_samples tm)
             (e0dir s) (delay0 tm s) tilde p2o (delay_matrix tm).

  (** receiver *)
  Record receiver := mkReceiver {
    r_pos : @vec T;
    r_vis : list bool;
    r_share : list T             (* pt_solution, receiver mode: excess / (pi * area) *)
  }.
  Definition r_dist (r : receiver) (k : nat) : T := vdist (center k) (r_pos r).
  Definition r_out_index (r : receiver) (k : nat) : nat :=
    nearest (out_dirs (wall k)) (vnormalize (vsub (r_pos r) (center k))).
  Definition r_factor (r : receiver) (k : nat) : T :=
    if nthb (r_vis r) k then nthT (r_share r) k else 0%T.

  (** [collect_energy_receiver_patchwise] for one receiver: [k][b][t].
      The code delays with [np.roll]: energy delayed beyond the histogram end re-appears
      at its start (known finding C02/receiver-wrap; the repair breaks 5 tests of the
      pinned suite that use a 1-bin histogram as an energy integrator). *)
  Definition patchwise (tm : timing) (E : arr4) (r : receiver) : arr3 :=
    let N := n_samples tm in
    tab (s_np sc) (fun k => tab (s_nb sc) (fun b =>
      roll N (delay_ceil (r_dist r k) (t_c tm) (t_dt tm))
        (tab N (fun t => ((get4 E k (r_out_index r k) b t * r_factor r k) * attn b (r_dist r k))%T)))).

  (** sum over patches ([np.sum(axis=1)], sequential in k) *)
  Definition mono_of (tm : timing) (pw : arr3) : arr2 :=
    let N := n_samples tm in
    tab (s_nb sc) (fun b => tab N (fun t =>
      fold_left (fun acc k => (acc + get3 pw k b t)%T) (seq 0 (s_np sc)) 0%T)).

  (** [calculate_direct_sound]: value per band and bin *)
  Definition four : T := ((1 + 1) + (1 + 1))%T.
  Definition direct_r (s : source) (r : receiver) : T := vnorm (vsub (r_pos r) (src_pos s)).
  Definition direct_val (s : source) (r : receiver) (rdirfac : option (list T)) (b : nat) : T :=
    let rr := direct_r s r in
    let v := ((1 * (1 / ((four * tpi) * (rr * rr)))) * attn b rr)%T in
    match rdirfac with None => v | Some f => (v * nthT f b)%T end.
  Definition direct_bin (tm : timing) (s : source) (r : receiver) : nat :=
    delay_floor (direct_r s r) (t_c tm) (t_dt tm).

  (** [collect_energy_receiver_mono] *)
  Definition mono (tm : timing) (E : arr4) (s : source) (r : receiver)
      (direct : bool) (rdirfac : option (list T)) : arr2 :=
    let N := n_samples tm in
    let m := mono_of tm (patchwise tm E r) in
    if direct then
      tab (s_nb sc) (fun b => tab N (fun t =>
        if t =? direct_bin tm s r then (get2 m b t + direct_val s r rdirfac b)%T else get2 m b t))
    else m.
End Scene.
