(** * L2 object state machine of [DirectionalRadiosityFast] (C15, C16).

    Model of /repo/sparrowpy/classes/RadiosityFast.py at HEAD: the public methods
    [set_wall_brdf], [set_air_attenuation], [bake_geometry], [init_source_energy],
    [calculate_energy_exchange], [collect_energy_receiver_mono], [to_dict] / [from_dict],
    [write] / [from_read] acting on the 23 serialised attributes and the 2 attributes that
    are NOT serialised ([_source], [_source_visibility]).

    Stage numerics are not modelled.  Every attribute is an optional descriptor:
      - [dk]  the kind (ndarray of bool/int/float, object ndarray, list, int, float, object),
      - [dsh] the shape,
      - [dv]  a PROVENANCE TERM naming exactly the inputs the value was computed from,
      - [dow] whether the object holds the caller's own datum ([Alias]) or a copy / a freshly
              computed value ([Fresh]).
    [ostep] returns the exception class (methods that raise keep their PARTIAL effects: a
    failed [bake_geometry] has already stored the visibility data, a failed
    [init_source_energy] has already stored [_source] and the default attenuation), the
    successor state and the observation (the value returned to the caller).
    [RUnspec] marks the situations in which the outcome depends on array contents (stale
    cached arrays whose dimensions no longer fit the configuration, malformed arguments):
    the correspondence stops comparing a run there.

    DEFINITIONS ONLY. *)
From Coq Require Import List Arith Bool.
Import ListNotations.

Inductive okind : Type := KArrB | KArrI | KArrF | KObjArr | KList | KInt | KFloat | KObj.
Inductive oown : Type := Fresh | Alias.

(** function symbols of the provenance terms *)
Inductive fsym : Type :=
| SGeo      (* [i]            i-th constructor argument (geometry)                          *)
| SFreq     (* [id]           frequency vector; id 0 = the default np.array([0])            *)
| STab      (* [id;nin;nout;nb]  caller table, brdf.freq * pi                               *)
| SDefTab   (* [nb]           default table of init_source_energy: ones * pi, shape (1,nb)  *)
| SDirs     (* [id;wall;io;n] caller directions id (0 = the pole (0,0,1)) rotated to wall   *)
| SNoneEl   (*                unset element of an np.empty object array                     *)
| SAtt      (* [id]           caller attenuation                                            *)
| SZeroAtt  (* [nb]           default attenuation zeros                                     *)
| SSrc | SRecv      (* [id]   caller source / receiver coordinates                          *)
| SC | SDt | SDur   (* [id] / [id] / [id;n_samples]  the three scalars of a timing          *)
| SList | SPair | SIdx (* SIdx nums: index+1 per wall, 0 = the fill value -1               *)
| SNPatches
| SVis | SPairs | SFF | SP2O | SP2OZero | STilde | SSrcVis | SE0 | SDist | SEtc0 | SEtc
| SCollect | SDirect | SNone.

Inductive term : Type := TApp (f : fsym) (nums : list nat) (args : list term).

Record desc : Type := mkD { dk : okind; dsh : list nat; dv : term; dow : oown }.

Inductive field : Type :=
  FWallsPoints | FWallsNormal | FWallsUp | FPatchesPoints | FNPatches | FWallIds | FVis | FPairs | FFF | FTilde | FFreq | FBrdf | FBrdfIndex | FDirsIn | FDirsOut | FP2O | FAtt | FC | FDt | FDur | FDist | FE0 | FEtc | FSource | FSourceVis.

Record ostate : Type := mkO {
  o_walls_points : option desc;
  o_walls_normal : option desc;
  o_walls_up : option desc;
  o_patches_points : option desc;
  o_n_patches : option desc;
  o_wall_ids : option desc;
  o_vis : option desc;
  o_pairs : option desc;
  o_ff : option desc;
  o_tilde : option desc;
  o_freq : option desc;
  o_brdf : option desc;
  o_brdf_index : option desc;
  o_dirs_in : option desc;
  o_dirs_out : option desc;
  o_p2o : option desc;
  o_att : option desc;
  o_c : option desc;
  o_dt : option desc;
  o_dur : option desc;
  o_dist : option desc;
  o_e0 : option desc;
  o_etc : option desc;
  o_source : option desc;
  o_source_vis : option desc }.

Definition get (f : field) (s : ostate) : option desc :=
  match f with
  | FWallsPoints => o_walls_points s
  | FWallsNormal => o_walls_normal s
  | FWallsUp => o_walls_up s
  | FPatchesPoints => o_patches_points s
  | FNPatches => o_n_patches s
  | FWallIds => o_wall_ids s
  | FVis => o_vis s
  | FPairs => o_pairs s
  | FFF => o_ff s
  | FTilde => o_tilde s
  | FFreq => o_freq s
  | FBrdf => o_brdf s
  | FBrdfIndex => o_brdf_index s
  | FDirsIn => o_dirs_in s
  | FDirsOut => o_dirs_out s
  | FP2O => o_p2o s
  | FAtt => o_att s
  | FC => o_c s
  | FDt => o_dt s
  | FDur => o_dur s
  | FDist => o_dist s
  | FE0 => o_e0 s
  | FEtc => o_etc s
  | FSource => o_source s
  | FSourceVis => o_source_vis s
  end.

Definition put (f : field) (v : option desc) (s : ostate) : ostate :=
  match f with
  | FWallsPoints => mkO v (o_walls_normal s) (o_walls_up s) (o_patches_points s) (o_n_patches s) (o_wall_ids s) (o_vis s) (o_pairs s) (o_ff s) (o_tilde s) (o_freq s) (o_brdf s) (o_brdf_index s) (o_dirs_in s) (o_dirs_out s) (o_p2o s) (o_att s) (o_c s) (o_dt s) (o_dur s) (o_dist s) (o_e0 s) (o_etc s) (o_source s) (o_source_vis s)
  | FWallsNormal => mkO (o_walls_points s) v (o_walls_up s) (o_patches_points s) (o_n_patches s) (o_wall_ids s) (o_vis s) (o_pairs s) (o_ff s) (o_tilde s) (o_freq s) (o_brdf s) (o_brdf_index s) (o_dirs_in s) (o_dirs_out s) (o_p2o s) (o_att s) (o_c s) (o_dt s) (o_dur s) (o_dist s) (o_e0 s) (o_etc s) (o_source s) (o_source_vis s)
  | FWallsUp => mkO (o_walls_points s) (o_walls_normal s) v (o_patches_points s) (o_n_patches s) (o_wall_ids s) (o_vis s) (o_pairs s) (o_ff s) (o_tilde s) (o_freq s) (o_brdf s) (o_brdf_index s) (o_dirs_in s) (o_dirs_out s) (o_p2o s) (o_att s) (o_c s) (o_dt s) (o_dur s) (o_dist s) (o_e0 s) (o_etc s) (o_source s) (o_source_vis s)
  | FPatchesPoints => mkO (o_walls_points s) (o_walls_normal s) (o_walls_up s) v (o_n_patches s) (o_wall_ids s) (o_vis s) (o_pairs s) (o_ff s) (o_tilde s) (o_freq s) (o_brdf s) (o_brdf_index s) (o_dirs_in s) (o_dirs_out s) (o_p2o s) (o_att s) (o_c s) (o_dt s) (o_dur s) (o_dist s) (o_e0 s) (o_etc s) (o_source s) (o_source_vis s)
  | FNPatches => mkO (o_walls_points s) (o_walls_normal s) (o_walls_up s) (o_patches_points s) v (o_wall_ids s) (o_vis s) (o_pairs s) (o_ff s) (o_tilde s) (o_freq s) (o_brdf s) (o_brdf_index s) (o_dirs_in s) (o_dirs_out s) (o_p2o s) (o_att s) (o_c s) (o_dt s) (o_dur s) (o_dist s) (o_e0 s) (o_etc s) (o_source s) (o_source_vis s)
  | FWallIds => mkO (o_walls_points s) (o_walls_normal s) (o_walls_up s) (o_patches_points s) (o_n_patches s) v (o_vis s) (o_pairs s) (o_ff s) (o_tilde s) (o_freq s) (o_brdf s) (o_brdf_index s) (o_dirs_in s) (o_dirs_out s) (o_p2o s) (o_att s) (o_c s) (o_dt s) (o_dur s) (o_dist s) (o_e0 s) (o_etc s) (o_source s) (o_source_vis s)
  | FVis => mkO (o_walls_points s) (o_walls_normal s) (o_walls_up s) (o_patches_points s) (o_n_patches s) (o_wall_ids s) v (o_pairs s) (o_ff s) (o_tilde s) (o_freq s) (o_brdf s) (o_brdf_index s) (o_dirs_in s) (o_dirs_out s) (o_p2o s) (o_att s) (o_c s) (o_dt s) (o_dur s) (o_dist s) (o_e0 s) (o_etc s) (o_source s) (o_source_vis s)
  | FPairs => mkO (o_walls_points s) (o_walls_normal s) (o_walls_up s) (o_patches_points s) (o_n_patches s) (o_wall_ids s) (o_vis s) v (o_ff s) (o_tilde s) (o_freq s) (o_brdf s) (o_brdf_index s) (o_dirs_in s) (o_dirs_out s) (o_p2o s) (o_att s) (o_c s) (o_dt s) (o_dur s) (o_dist s) (o_e0 s) (o_etc s) (o_source s) (o_source_vis s)
  | FFF => mkO (o_walls_points s) (o_walls_normal s) (o_walls_up s) (o_patches_points s) (o_n_patches s) (o_wall_ids s) (o_vis s) (o_pairs s) v (o_tilde s) (o_freq s) (o_brdf s) (o_brdf_index s) (o_dirs_in s) (o_dirs_out s) (o_p2o s) (o_att s) (o_c s) (o_dt s) (o_dur s) (o_dist s) (o_e0 s) (o_etc s) (o_source s) (o_source_vis s)
  | FTilde => mkO (o_walls_points s) (o_walls_normal s) (o_walls_up s) (o_patches_points s) (o_n_patches s) (o_wall_ids s) (o_vis s) (o_pairs s) (o_ff s) v (o_freq s) (o_brdf s) (o_brdf_index s) (o_dirs_in s) (o_dirs_out s) (o_p2o s) (o_att s) (o_c s) (o_dt s) (o_dur s) (o_dist s) (o_e0 s) (o_etc s) (o_source s) (o_source_vis s)
  | FFreq => mkO (o_walls_points s) (o_walls_normal s) (o_walls_up s) (o_patches_points s) (o_n_patches s) (o_wall_ids s) (o_vis s) (o_pairs s) (o_ff s) (o_tilde s) v (o_brdf s) (o_brdf_index s) (o_dirs_in s) (o_dirs_out s) (o_p2o s) (o_att s) (o_c s) (o_dt s) (o_dur s) (o_dist s) (o_e0 s) (o_etc s) (o_source s) (o_source_vis s)
  | FBrdf => mkO (o_walls_points s) (o_walls_normal s) (o_walls_up s) (o_patches_points s) (o_n_patches s) (o_wall_ids s) (o_vis s) (o_pairs s) (o_ff s) (o_tilde s) (o_freq s) v (o_brdf_index s) (o_dirs_in s) (o_dirs_out s) (o_p2o s) (o_att s) (o_c s) (o_dt s) (o_dur s) (o_dist s) (o_e0 s) (o_etc s) (o_source s) (o_source_vis s)
  | FBrdfIndex => mkO (o_walls_points s) (o_walls_normal s) (o_walls_up s) (o_patches_points s) (o_n_patches s) (o_wall_ids s) (o_vis s) (o_pairs s) (o_ff s) (o_tilde s) (o_freq s) (o_brdf s) v (o_dirs_in s) (o_dirs_out s) (o_p2o s) (o_att s) (o_c s) (o_dt s) (o_dur s) (o_dist s) (o_e0 s) (o_etc s) (o_source s) (o_source_vis s)
  | FDirsIn => mkO (o_walls_points s) (o_walls_normal s) (o_walls_up s) (o_patches_points s) (o_n_patches s) (o_wall_ids s) (o_vis s) (o_pairs s) (o_ff s) (o_tilde s) (o_freq s) (o_brdf s) (o_brdf_index s) v (o_dirs_out s) (o_p2o s) (o_att s) (o_c s) (o_dt s) (o_dur s) (o_dist s) (o_e0 s) (o_etc s) (o_source s) (o_source_vis s)
  | FDirsOut => mkO (o_walls_points s) (o_walls_normal s) (o_walls_up s) (o_patches_points s) (o_n_patches s) (o_wall_ids s) (o_vis s) (o_pairs s) (o_ff s) (o_tilde s) (o_freq s) (o_brdf s) (o_brdf_index s) (o_dirs_in s) v (o_p2o s) (o_att s) (o_c s) (o_dt s) (o_dur s) (o_dist s) (o_e0 s) (o_etc s) (o_source s) (o_source_vis s)
  | FP2O => mkO (o_walls_points s) (o_walls_normal s) (o_walls_up s) (o_patches_points s) (o_n_patches s) (o_wall_ids s) (o_vis s) (o_pairs s) (o_ff s) (o_tilde s) (o_freq s) (o_brdf s) (o_brdf_index s) (o_dirs_in s) (o_dirs_out s) v (o_att s) (o_c s) (o_dt s) (o_dur s) (o_dist s) (o_e0 s) (o_etc s) (o_source s) (o_source_vis s)
  | FAtt => mkO (o_walls_points s) (o_walls_normal s) (o_walls_up s) (o_patches_points s) (o_n_patches s) (o_wall_ids s) (o_vis s) (o_pairs s) (o_ff s) (o_tilde s) (o_freq s) (o_brdf s) (o_brdf_index s) (o_dirs_in s) (o_dirs_out s) (o_p2o s) v (o_c s) (o_dt s) (o_dur s) (o_dist s) (o_e0 s) (o_etc s) (o_source s) (o_source_vis s)
  | FC => mkO (o_walls_points s) (o_walls_normal s) (o_walls_up s) (o_patches_points s) (o_n_patches s) (o_wall_ids s) (o_vis s) (o_pairs s) (o_ff s) (o_tilde s) (o_freq s) (o_brdf s) (o_brdf_index s) (o_dirs_in s) (o_dirs_out s) (o_p2o s) (o_att s) v (o_dt s) (o_dur s) (o_dist s) (o_e0 s) (o_etc s) (o_source s) (o_source_vis s)
  | FDt => mkO (o_walls_points s) (o_walls_normal s) (o_walls_up s) (o_patches_points s) (o_n_patches s) (o_wall_ids s) (o_vis s) (o_pairs s) (o_ff s) (o_tilde s) (o_freq s) (o_brdf s) (o_brdf_index s) (o_dirs_in s) (o_dirs_out s) (o_p2o s) (o_att s) (o_c s) v (o_dur s) (o_dist s) (o_e0 s) (o_etc s) (o_source s) (o_source_vis s)
  | FDur => mkO (o_walls_points s) (o_walls_normal s) (o_walls_up s) (o_patches_points s) (o_n_patches s) (o_wall_ids s) (o_vis s) (o_pairs s) (o_ff s) (o_tilde s) (o_freq s) (o_brdf s) (o_brdf_index s) (o_dirs_in s) (o_dirs_out s) (o_p2o s) (o_att s) (o_c s) (o_dt s) v (o_dist s) (o_e0 s) (o_etc s) (o_source s) (o_source_vis s)
  | FDist => mkO (o_walls_points s) (o_walls_normal s) (o_walls_up s) (o_patches_points s) (o_n_patches s) (o_wall_ids s) (o_vis s) (o_pairs s) (o_ff s) (o_tilde s) (o_freq s) (o_brdf s) (o_brdf_index s) (o_dirs_in s) (o_dirs_out s) (o_p2o s) (o_att s) (o_c s) (o_dt s) (o_dur s) v (o_e0 s) (o_etc s) (o_source s) (o_source_vis s)
  | FE0 => mkO (o_walls_points s) (o_walls_normal s) (o_walls_up s) (o_patches_points s) (o_n_patches s) (o_wall_ids s) (o_vis s) (o_pairs s) (o_ff s) (o_tilde s) (o_freq s) (o_brdf s) (o_brdf_index s) (o_dirs_in s) (o_dirs_out s) (o_p2o s) (o_att s) (o_c s) (o_dt s) (o_dur s) (o_dist s) v (o_etc s) (o_source s) (o_source_vis s)
  | FEtc => mkO (o_walls_points s) (o_walls_normal s) (o_walls_up s) (o_patches_points s) (o_n_patches s) (o_wall_ids s) (o_vis s) (o_pairs s) (o_ff s) (o_tilde s) (o_freq s) (o_brdf s) (o_brdf_index s) (o_dirs_in s) (o_dirs_out s) (o_p2o s) (o_att s) (o_c s) (o_dt s) (o_dur s) (o_dist s) (o_e0 s) v (o_source s) (o_source_vis s)
  | FSource => mkO (o_walls_points s) (o_walls_normal s) (o_walls_up s) (o_patches_points s) (o_n_patches s) (o_wall_ids s) (o_vis s) (o_pairs s) (o_ff s) (o_tilde s) (o_freq s) (o_brdf s) (o_brdf_index s) (o_dirs_in s) (o_dirs_out s) (o_p2o s) (o_att s) (o_c s) (o_dt s) (o_dur s) (o_dist s) (o_e0 s) (o_etc s) v (o_source_vis s)
  | FSourceVis => mkO (o_walls_points s) (o_walls_normal s) (o_walls_up s) (o_patches_points s) (o_n_patches s) (o_wall_ids s) (o_vis s) (o_pairs s) (o_ff s) (o_tilde s) (o_freq s) (o_brdf s) (o_brdf_index s) (o_dirs_in s) (o_dirs_out s) (o_p2o s) (o_att s) (o_c s) (o_dt s) (o_dur s) (o_dist s) (o_e0 s) (o_etc s) (o_source s) v
  end.

Definition all_fields : list field :=
  [FWallsPoints; FWallsNormal; FWallsUp; FPatchesPoints; FNPatches; FWallIds; FVis; FPairs; FFF; FTilde; FFreq; FBrdf; FBrdfIndex; FDirsIn; FDirsOut; FP2O; FAtt; FC; FDt; FDur; FDist; FE0; FEtc; FSource; FSourceVis].

Definition omap (h : field -> option desc -> option desc) (s : ostate) : ostate :=
  mkO (h FWallsPoints (o_walls_points s)) (h FWallsNormal (o_walls_normal s)) (h FWallsUp (o_walls_up s)) (h FPatchesPoints (o_patches_points s)) (h FNPatches (o_n_patches s)) (h FWallIds (o_wall_ids s)) (h FVis (o_vis s)) (h FPairs (o_pairs s)) (h FFF (o_ff s)) (h FTilde (o_tilde s)) (h FFreq (o_freq s)) (h FBrdf (o_brdf s)) (h FBrdfIndex (o_brdf_index s)) (h FDirsIn (o_dirs_in s)) (h FDirsOut (o_dirs_out s)) (h FP2O (o_p2o s)) (h FAtt (o_att s)) (h FC (o_c s)) (h FDt (o_dt s)) (h FDur (o_dur s)) (h FDist (o_dist s)) (h FE0 (o_e0 s)) (h FEtc (o_etc s)) (h FSource (o_source s)) (h FSourceVis (o_source_vis s)).

(** the 23 attributes written by [to_dict], in its order *)
Definition dict_fields : list field :=
  [FWallsPoints; FWallsNormal; FWallsUp; FPatchesPoints; FNPatches; FWallIds; FVis; FPairs; FFF;
   FTilde; FFreq; FBrdf; FBrdfIndex; FDirsIn; FDirsOut; FP2O; FAtt; FC; FDt; FDur; FDist; FE0; FEtc].

Inductive rclass : Type := ROk | RAssertion | RValue | RAttribute | RType | RUnspec.
Inductive obs : Type := ONone | OVal (sh : list nat) (v : term).

Inductive op : Type :=
| OpSetBrdf (walls : list nat) (tab dirs n fid nb : nat) (negz : bool)
| OpSetAtt (aid fid nb : nat)
| OpBake
| OpInitSource (src : nat)
| OpExchange (tid ns order : nat) (recalc : bool)
| OpCollect (recv : nat) (direct : bool)
| OpDictRoundTrip
| OpFileRoundTrip.

Record geo : Type := mkGeo { g_nw : nat; g_np : nat; g_nvis : nat }.

(** ** small helpers *)
Definition T0 (f : fsym) (nums : list nat) : term := TApp f nums [].
Definition tnone : term := TApp SNone [] [].
Definition tlist (l : list term) : term := TApp SList [] l.
Definition targs (t : term) : list term := match t with TApp _ _ a => a end.
Definition tnums (t : term) : list nat := match t with TApp _ n _ => n end.
Definition optv (d : option desc) : term := match d with Some x => dv x | None => tnone end.
Definition fresh (k : okind) (sh : list nat) (v : term) : option desc := Some (mkD k sh v Fresh).

Fixpoint upd_nth {A : Type} (n : nat) (v : A) (l : list A) : list A :=
  match l, n with
  | [], _ => []
  | _ :: r, 0 => v :: r
  | x :: r, S k => x :: upd_nth k v r
  end.

Fixpoint nats_eqb (a b : list nat) : bool :=
  match a, b with
  | [], [] => true
  | x :: a', y :: b' => (x =? y) && nats_eqb a' b'
  | _, _ => false
  end.

(** all entries equal (np.array of a list of equally shaped arrays succeeds) *)
Definition homog {A : Type} (eqb : A -> A -> bool) (l : list A) : bool :=
  match l with [] => true | x :: r => forallb (eqb x) r end.

Definition dir_count (t : term) : option nat :=
  match t with TApp SDirs [_; _; _; n] _ => Some n | _ => None end.

Fixpoint dir_counts (l : list term) : option (list nat) :=
  match l with
  | [] => Some []
  | t :: r => match dir_count t, dir_counts r with
              | Some n, Some c => Some (n :: c)
              | _, _ => None
              end
  end.

Definition tab_shape (t : term) : list nat :=
  match t with
  | TApp STab [_; a; b; c] _ => [a; b; c]
  | TApp SDefTab [nb] _ => [1; nb]
  | _ => []
  end.

(** a table fits direction counts (nin, nout) and nb bins *)
Definition tab_fits (nin nout nb : nat) (t : term) : bool :=
  match tab_shape t with
  | [a; b; c] => (a =? nin) && (b =? nout) && (c =? nb)
  | [a; c] => (a =? 1) && (nin =? 1) && (c =? nb)
  | _ => false
  end.

(** the table of wall [w], resolved through [brdf_index] (entries are index+1) *)
Definition resolve (idx : list nat) (tabs : list term) (w : nat) : term :=
  match nth w idx 0 with
  | 0 => tnone
  | S k => nth k tabs tnone
  end.

(** per-wall material configuration: (table, incoming directions) of every wall *)
Definition wall_cfg (nw : nat) (idx : list nat) (tabs din : list term) : term :=
  tlist (map (fun w => TApp SPair [] [resolve idx tabs w; nth w din tnone]) (seq 0 nw)).

(** the constructor arguments (geometry) as one term *)
Definition tgeo (s : ostate) : term :=
  tlist [optv (o_walls_points s); optv (o_walls_normal s); optv (o_walls_up s);
         optv (o_patches_points s); optv (o_n_patches s); optv (o_wall_ids s)].

Definition init (g : geo) : ostate :=
  mkO (fresh KArrF [g_nw g; 4; 3] (T0 SGeo [0])) (fresh KArrF [g_nw g; 3] (T0 SGeo [1]))
      (fresh KArrF [g_nw g; 3] (T0 SGeo [2])) (fresh KArrF [g_np g; 4; 3] (T0 SGeo [3]))
      (fresh KInt [] (T0 SNPatches [g_np g])) (fresh KArrI [g_np g] (T0 SGeo [5]))
      None None None None None None None None None None None None None None None None None None None.

Definition nbins (s : ostate) : nat :=
  match o_freq s with Some f => hd 0 (dsh f) | None => 1 end.

(** ** _check_set_frequency : None = AssertionError *)
Definition check_set_freq (s : ostate) (fid nb : nat) : option ostate :=
  match o_freq s with
  | None => Some (put FFreq (Some (mkD KArrF [nb] (T0 SFreq [fid]) Alias)) s)
  | Some f => if (hd 0 (dsh f) =? nb) && nats_eqb (tnums (dv f)) [fid] then Some s else None
  end.

(** ** body of set_wall_brdf after the assertions *)
Definition install_brdf (g : geo) (s : ostate) (walls : list nat) (tabt : term) (dirs n : nat)
  : rclass * ostate :=
  let nw := g_nw g in
  let s1 := match o_dirs_in s with
            | Some _ => s
            | None =>
              put FBrdf (fresh KList [0] (tlist []))
                (put FBrdfIndex (fresh KArrI [nw] (T0 SIdx (repeat 0 nw)))
                   (put FDirsOut (fresh KObjArr [nw] (tlist (repeat (T0 SNoneEl []) nw)))
                      (put FDirsIn (fresh KObjArr [nw] (tlist (repeat (T0 SNoneEl []) nw))) s)))
            end in
  match o_dirs_in s1, o_dirs_out s1 with
  | Some di, Some do =>
    let ei := fold_left (fun l w => upd_nth w (T0 SDirs [dirs; w; 0; n]) l) walls (targs (dv di)) in
    let eo := fold_left (fun l w => upd_nth w (T0 SDirs [dirs; w; 1; n]) l) walls (targs (dv do)) in
    let s2 := put FDirsOut (Some (mkD (dk do) (dsh do) (tlist eo) (dow do)))
                (put FDirsIn (Some (mkD (dk di) (dsh di) (tlist ei) (dow di))) s1) in
    match o_brdf s2 with
    | None => (RAttribute, s2)
    | Some b =>
      match dk b with
      | KList =>
        let tabs := targs (dv b) ++ [tabt] in
        let s3 := put FBrdf (Some (mkD KList [length tabs] (tlist tabs) (dow b))) s2 in
        match o_brdf_index s3 with
        | None => (RType, s3)
        | Some ix =>
          match dk ix with
          | KArrI | KArrF | KArrB =>
            let nums := fold_left (fun l w => upd_nth w (length tabs) l) walls (tnums (dv ix)) in
            (ROk, put FBrdfIndex (Some (mkD (dk ix) (dsh ix) (T0 SIdx nums) (dow ix))) s3)
          | _ => (RType, s3)
          end
        end
      | _ => (RAttribute, s2)
      end
    end
  | _, _ => (RType, s1)
  end.

Definition oset_brdf (g : geo) (s : ostate) (walls : list nat) (tab dirs n fid nb : nat) (negz : bool)
  : rclass * ostate :=
  if negz then (RAssertion, s) else
  if negb (forallb (fun w => w <? g_nw g) walls) then (RUnspec, s) else
  match check_set_freq s fid nb with
  | None => (RAssertion, s)
  | Some s1 => install_brdf g s1 walls (T0 STab [tab; n; n; nb]) dirs n
  end.

Definition oset_att (s : ostate) (aid fid nb : nat) : rclass * ostate :=
  match check_set_freq s fid nb with
  | None => (RAssertion, s)
  | Some s1 => (ROk, put FAtt (Some (mkD KArrF [nb] (T0 SAtt [aid]) Alias)) s1)
  end.

(** ** what bake_geometry / init_source_energy / collect read of the materials:
    Error class, or (n_in, n_out, incoming elements, outgoing elements, index, tables) *)
Inductive mats : Type :=
| MErr (c : rclass)
| MOk (nin nout : nat) (din dout : list term) (idx : list nat) (tabs : list term).

Definition read_dirs (d : desc) : mats :=
  match dir_counts (targs (dv d)) with
  | None => MErr RAttribute                         (* None.cartesian *)
  | Some c => if homog Nat.eqb c then MOk (hd 0 c) 0 (targs (dv d)) [] [] []
              else MErr RValue                      (* inhomogeneous np.array *)
  end.

Definition read_mats (s : ostate) (need_tabs : bool) : mats :=
  match o_dirs_in s, o_dirs_out s with
  | Some di, Some do =>
    match read_dirs di with
    | MErr c => MErr c
    | MOk nin _ ein _ _ _ =>
      match read_dirs do with
      | MErr c => MErr c
      | MOk nout _ eout _ _ _ =>
        if negb need_tabs then MOk nin nout ein eout [] [] else
        match o_brdf s, o_brdf_index s with
        | Some b, Some ix =>
          if homog nats_eqb (map tab_shape (targs (dv b)))
          then MOk nin nout ein eout (tnums (dv ix)) (targs (dv b))
          else MErr RValue
        | _, _ => MErr RUnspec
        end
      end
    end
  | _, _ => MErr RType
  end.

Definition obake (g : geo) (s : ostate) : rclass * ostate :=
  let np := g_np g in
  let tvis := TApp SVis [] [tgeo s] in
  let tpairs := TApp SPairs [] [tvis] in
  let tff := TApp SFF [] [tgeo s; tpairs] in
  let s1 := put FFF (fresh KArrF [np; np] tff)
              (put FPairs (fresh KArrI [g_nvis g; 2] tpairs)
                 (put FVis (fresh KArrB [np; np] tvis) s)) in
  let nb := nbins s in
  match o_dirs_in s1 with
  | None =>
    (ROk, put FTilde (fresh KArrF [np; np; 1; nb] (TApp STilde [] [tvis; tff; optv (o_att s); tnone]))
            (put FP2O (fresh KArrI [np; np] (TApp SP2OZero [np] [])) s1))
  | Some _ =>
    match read_mats s1 true with
    | MErr c => (c, s1)
    | MOk nin nout ein eout idx tabs =>
      let s2 := put FP2O (fresh KArrI [np; np] (TApp SP2O [] [tgeo s; tvis; tlist eout])) s1 in
      if tab_fits nin nout nb (resolve idx tabs 0)
      then (ROk, put FTilde (fresh KArrF [np; np; nout; nb]
                   (TApp STilde [] [tvis; tff; optv (o_att s); wall_cfg (g_nw g) idx tabs ein])) s2)
      else (RUnspec, s2)
    end
  end.

Definition default_freq : option desc := fresh KArrI [1] (T0 SFreq [0]).

Definition oinit_source (g : geo) (s : ostate) (src : nat) : rclass * ostate :=
  let np := g_np g in
  let s1 := put FSource (Some (mkD KObj [] (T0 SSrc [src]) Alias)) s in
  (* default BRDF *)
  let r2 := match o_dirs_in s1 with
            | Some _ => (ROk, s1)
            | None =>
              let fr := match o_freq s1 with Some f => Some f | None => default_freq end in
              let nb := match fr with Some f => hd 0 (dsh f) | None => 1 end in
              let sf := put FFreq fr s1 in
              let '(c, s') := install_brdf g sf (seq 0 (g_nw g)) (T0 SDefTab [nb]) 0 1 in
              (c, s')
            end in
  match r2 with
  | (ROk, s2) =>
    (* default attenuation *)
    let s3 := match o_att s2 with
              | Some _ => s2
              | None =>
                let fr := match o_freq s2 with Some f => Some f | None => default_freq end in
                let nb := match fr with Some f => hd 0 (dsh f) | None => 1 end in
                put FAtt (fresh KArrF [nb] (T0 SZeroAtt [nb])) (put FFreq fr s2)
              end in
    let nb := nbins s3 in
    match read_mats s3 true with
    | MErr c => (c, s3)
    | MOk nin nout ein eout idx tabs =>
      let s4 := put FSourceVis (fresh KArrB [np] (TApp SSrcVis [src] [tgeo s])) s3 in
      if tab_fits nin nout nb (resolve idx tabs 0)
      then (ROk, put FDist (fresh KArrF [np] (TApp SDist [src] [tgeo s]))
                   (put FE0 (fresh KArrF [np; nout; nb]
                      (TApp SE0 [src] [tgeo s; optv (o_att s3); wall_cfg (g_nw g) idx tabs ein])) s4))
      else (RUnspec, s4)
    end
  | (c, s2) => (c, s2)
  end.

Definition oexchange (g : geo) (s : ostate) (tid ns order : nat) (recalc : bool) : rclass * ostate :=
  let np := g_np g in
  let set_timing (x : ostate) :=
      put FDur (fresh KFloat [] (T0 SDur [tid; ns]))
        (put FC (fresh KFloat [] (T0 SC [tid]))
           (put FDt (fresh KFloat [] (T0 SDt [tid])) x)) in
  let compute := match o_etc s with None => true | Some _ => recalc end in
  if negb compute then (ROk, set_timing s) else
  match order with
  | 0 =>
    match o_e0 s with
    | None => (RAttribute, s)
    | Some e =>
      match dsh e with
      | [_; nd; nb] =>
        (ROk, set_timing (put FEtc (fresh KArrF [np; nd; nb; ns]
                (TApp SEtc0 [tid; ns] [dv e; optv (o_dist s)])) s))
      | _ => (RUnspec, s)
      end
    end
  | S _ =>
    match o_tilde s, o_e0 s with
    | Some t, Some e =>
      match dsh t, dsh e with
      | [_; _; ndt; nbt], [_; nd; nb] =>
        if (ndt =? nd) && (nbt =? nb)
        then (ROk, set_timing (put FEtc (fresh KArrF [np; nd; nb; ns]
                (TApp SEtc [tid; ns; order]
                   [dv e; optv (o_dist s); dv t; optv (o_p2o s); optv (o_pairs s); tgeo s])) s))
        else (RUnspec, s)
      | _, _ => (RUnspec, s)
      end
    | _, _ => (RAttribute, s)
    end
  end.

Definition ocollect (g : geo) (s : ostate) (recv : nat) (direct : bool) : rclass * obs :=
  match o_etc s with
  | None => (RAttribute, ONone)
  | Some e =>
    match dsh e with
    | [_; nd; nb; ns] =>
      match match o_dirs_out s with Some do => read_dirs do | None => MErr RType end with
      | MErr c => (c, ONone)
      | MOk nout _ eout _ _ _ =>
        if nd <? nout then (RUnspec, ONone) else
        let base := TApp SCollect [recv]
                      [dv e; optv (o_att s); tlist eout; tgeo s; optv (o_c s); optv (o_dt s)] in
        if negb direct then (ROk, OVal [1; nb; ns] base) else
        match o_source s with
        | None => (RAttribute, ONone)                  (* self._source does not exist *)
        | Some so =>
          (ROk, OVal [1; nb; ns]
                  (TApp SDirect [recv] [base; dv so; optv (o_att s); optv (o_c s); optv (o_dt s)]))
        end
      end
    | _ => (RUnspec, ONone)
    end
  end.

(** ** to_dict / from_dict *)
Inductive dval : Type :=
| DNone                                           (* the string 'None' *)
| DNum (k : okind) (sh : list nat) (v : term)     (* a Python int / float *)
| DNested (k : okind) (sh : list nat) (v : term)  (* ndarray.tolist(): nested lists of bool/int/float *)
| DObjs (sh : list nat) (v : term).               (* a list of objects (Coordinates, ndarrays) *)

Definition enc (d : option desc) : dval :=
  match d with
  | None => DNone
  | Some x =>
    match dk x with
    | KArrB | KArrI | KArrF => DNested (dk x) (dsh x) (dv x)
    | KObjArr | KList | KObj => DObjs (dsh x) (dv x)
    | KInt | KFloat => DNum (dk x) (dsh x) (dv x)
    end
  end.

Definition odict : Type := list (field * dval).
Definition to_dict (s : ostate) : odict := map (fun f => (f, enc (get f s))) dict_fields.

Definition field_eqb (a b : field) : bool :=
  match a, b with
  | FWallsPoints, FWallsPoints | FWallsNormal, FWallsNormal | FWallsUp, FWallsUp
  | FPatchesPoints, FPatchesPoints | FNPatches, FNPatches | FWallIds, FWallIds | FVis, FVis
  | FPairs, FPairs | FFF, FFF | FTilde, FTilde | FFreq, FFreq | FBrdf, FBrdf
  | FBrdfIndex, FBrdfIndex | FDirsIn, FDirsIn | FDirsOut, FDirsOut | FP2O, FP2O | FAtt, FAtt
  | FC, FC | FDt, FDt | FDur, FDur | FDist, FDist | FE0, FE0 | FEtc, FEtc | FSource, FSource
  | FSourceVis, FSourceVis => true
  | _, _ => false
  end.

Fixpoint dget (f : field) (d : odict) : option dval :=
  match d with
  | [] => None
  | (f', v) :: r => if field_eqb f f' then Some v else dget f r
  end.

(** the conversion __init__ applies to one keyword argument; outer None = a value the
    conversions are not modelled for *)
Definition conv (viafile : bool) (f : field) (v : dval) : option (option desc) :=
  match v with
  | DNone => Some None
  | _ =>
    match f, v with
    | (FWallIds | FP2O | FBrdfIndex), DNested _ sh t => Some (fresh KArrI sh t)
    | (FWallsPoints | FWallsNormal | FWallsUp | FPatchesPoints | FVis | FPairs | FFF | FTilde
       | FFreq | FAtt | FDist | FE0 | FEtc), DNested k sh t => Some (fresh k sh t)
    | FNPatches, DNum k sh t => Some (fresh k sh t)
    | (FC | FDt | FDur), DNum _ sh t => Some (fresh KFloat sh t)
    | FBrdf, DObjs sh t => Some (fresh KList sh t)
    | (FDirsIn | FDirsOut), DObjs sh t => Some (Some (mkD KList sh t (if viafile then Fresh else Alias)))
    | _, _ => None
    end
  end.

(** check(): the tests that can fail on a state built by the methods *)
Definition all_dirs (d : option desc) : bool :=
  match d with
  | None => true
  | Some x => match dir_counts (targs (dv x)) with Some _ => true | None => false end
  end.

Definition shape_is (d : option desc) (sh : list nat) : bool :=
  match d with None => true | Some x => nats_eqb (dsh x) sh end.

Definition ocheck (g : geo) (s : ostate) : rclass :=
  let np := g_np g in
  let nb := nbins s in
  if negb (all_dirs (o_dirs_in s)) then RValue else
  if negb (all_dirs (o_dirs_out s)) then RValue else
  let nout := match o_dirs_out s with
              | Some x => match dir_count (hd tnone (targs (dv x))) with Some n => n | None => 0 end
              | None => 1
              end in
  if negb (shape_is (o_tilde s) [np; np; nout; nb]) then RValue else
  if negb (shape_is (o_att s) [nb]) then RValue else
  if negb (shape_is (o_e0 s) [np; nout; nb]) then RValue else
  match o_etc s with
  | None => ROk
  | Some e =>
    match o_dur s with
    | Some du => match tnums (dv du) with
                 | [_; ns] => if nats_eqb (dsh e) [np; nout; nb; ns] then ROk else RValue
                 | _ => RUnspec
                 end
    | None => RType
    end
  end.

Definition cv (viafile : bool) (d : odict) (f : field) : option (option desc) :=
  match dget f d with Some v => conv viafile f v | None => None end.

(** the constructor call on the decoded dict: the new object has neither _source nor _source_visibility *)
Definition from_dict (g : geo) (viafile : bool) (d : odict) : rclass * option ostate :=
  let c := cv viafile d in
  match c FWallsPoints, c FWallsNormal, c FWallsUp, c FPatchesPoints, c FNPatches, c FWallIds,
        c FVis, c FPairs, c FFF, c FTilde, c FFreq, c FBrdf with
  | Some a1, Some a2, Some a3, Some a4, Some a5, Some a6,
    Some a7, Some a8, Some a9, Some a10, Some a11, Some a12 =>
    match c FBrdfIndex, c FDirsIn, c FDirsOut, c FP2O, c FAtt, c FC, c FDt, c FDur, c FDist,
          c FE0, c FEtc with
    | Some a13, Some a14, Some a15, Some a16, Some a17, Some a18, Some a19, Some a20, Some a21,
      Some a22, Some a23 =>
      let s := mkO a1 a2 a3 a4 a5 a6 a7 a8 a9 a10 a11 a12 a13 a14 a15 a16 a17 a18 a19 a20 a21 a22 a23
                   None None in
      match ocheck g s with
      | ROk => (ROk, Some s)
      | e => (e, None)
      end
    | _, _, _, _, _, _, _, _, _, _, _ => (RUnspec, None)
    end
  | _, _, _, _, _, _, _, _, _, _, _, _ => (RUnspec, None)
  end.

Definition restore (g : geo) (viafile : bool) (s : ostate) : rclass * option ostate :=
  from_dict g viafile (to_dict s).

(** ** __eq__ : DeepDiff of the two dictionaries *)
Definition fsym_idx (f : fsym) : nat :=
  match f with
  | SGeo => 0
  | SFreq => 1
  | STab => 2
  | SDefTab => 3
  | SDirs => 4
  | SNoneEl => 5
  | SAtt => 6
  | SZeroAtt => 7
  | SSrc => 8
  | SRecv => 9
  | SC => 10
  | SDt => 11
  | SDur => 12
  | SList => 13
  | SPair => 14
  | SIdx => 15
  | SNPatches => 16
  | SVis => 17
  | SPairs => 18
  | SFF => 19
  | SP2O => 20
  | SP2OZero => 21
  | STilde => 22
  | SSrcVis => 23
  | SE0 => 24
  | SDist => 25
  | SEtc0 => 26
  | SEtc => 27
  | SCollect => 28
  | SDirect => 29
  | SNone => 30
  end.
Definition okind_idx (k : okind) : nat :=
  match k with
  | KArrB => 0
  | KArrI => 1
  | KArrF => 2
  | KObjArr => 3
  | KList => 4
  | KInt => 5
  | KFloat => 6
  | KObj => 7
  end.

Fixpoint term_eqb (a b : term) : bool :=
  match a, b with
  | TApp f n x, TApp f' n' x' =>
    let fix go (l l' : list term) : bool :=
        match l, l' with
        | [], [] => true
        | t :: r, t' :: r' => term_eqb t t' && go r r'
        | _, _ => false
        end in
    (fsym_idx f =? fsym_idx f') && nats_eqb n n' && go x x'
  end.

Definition dval_eqb (a b : dval) : bool :=
  match a, b with
  | DNone, DNone => true
  | DNum k sh v, DNum k' sh' v' => (okind_idx k =? okind_idx k') && nats_eqb sh sh' && term_eqb v v'
  | DNested k sh v, DNested k' sh' v' => (okind_idx k =? okind_idx k') && nats_eqb sh sh' && term_eqb v v'
  | DObjs sh v, DObjs sh' v' => nats_eqb sh sh' && term_eqb v v'
  | _, _ => false
  end.

Fixpoint dict_eqb (a b : odict) : bool :=
  match a, b with
  | [], [] => true
  | (f, v) :: r, (f', v') :: r' => field_eqb f f' && dval_eqb v v' && dict_eqb r r'
  | _, _ => false
  end.

Definition oeq (s s' : ostate) : bool := dict_eqb (to_dict s) (to_dict s').

(** ** one public call *)
Definition ostep (g : geo) (s : ostate) (o : op) : rclass * ostate * obs :=
  match o with
  | OpSetBrdf walls tab dirs n fid nb negz =>
    let '(c, s') := oset_brdf g s walls tab dirs n fid nb negz in (c, s', ONone)
  | OpSetAtt aid fid nb => let '(c, s') := oset_att s aid fid nb in (c, s', ONone)
  | OpBake => let '(c, s') := obake g s in (c, s', ONone)
  | OpInitSource src => let '(c, s') := oinit_source g s src in (c, s', ONone)
  | OpExchange tid ns order recalc => let '(c, s') := oexchange g s tid ns order recalc in (c, s', ONone)
  | OpCollect recv direct => let '(c, ob) := ocollect g s recv direct in (c, s, ob)
  | OpDictRoundTrip =>
    match restore g false s with (c, Some s') => (c, s', ONone) | (c, None) => (c, s, ONone) end
  | OpFileRoundTrip =>
    match restore g true s with (c, Some s') => (c, s', ONone) | (c, None) => (c, s, ONone) end
  end.

Definition ostate_of (r : rclass * ostate * obs) : ostate := snd (fst r).
Definition oclass_of (r : rclass * ostate * obs) : rclass := fst (fst r).
Definition oobs_of (r : rclass * ostate * obs) : obs := snd r.

(** run a history, forgetting classes and observations *)
Definition orun (g : geo) (s : ostate) (h : list op) : ostate :=
  fold_left (fun x o => ostate_of (ostep g x o)) h s.

(** the trace of a history: class, state and observation after every call *)
Fixpoint otrace (g : geo) (s : ostate) (h : list op) : list (rclass * ostate * obs) :=
  match h with
  | [] => []
  | o :: r => let x := ostep g s o in x :: otrace g (ostate_of x) r
  end.
