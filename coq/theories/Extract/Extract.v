(** Extraction of the executable models.  ExtrOcamlBasic only; no Extract Constant:
    the scalar operations are passed in as an [ops] record by the driver. *)
From Coq Require Import List Arith Bool.
From SV Require Import Base.Ops.
From SV Require Import Base.Arr.
From SV Require Import Model.Vec3.
From SV Require Import Model.Exchange.
From SV Require Import Model.Scene.
From SV Require Import Model.Brdf.
From SV Require Import Model.Frame.
From SV Require Import Model.Tiling.
From SV Require Import Model.Validate.
From SV Require Import Model.PtSolution.
From SV Require Import Model.Kang.
From SV Require Import Model.Visibility.
From SV Require Import Model.Directivity.
From SV Require Import Model.Stokes.
From SV Require Import Model.Nusselt.
From SV Require Import Model.Full.
From SV Require Import Model.Object.
Require Extraction.
From Coq Require Import ExtrOcamlBasic.
Extraction Language OCaml.
Extraction "model.ml"
  tab argmin nearest centroid fan_area vnorm vdist shift_trunc roll init_hist step exchange
  order_k directed delay_floor delay_ceil tilde p2o vis_pairs delay_matrix n_samples e0dir
  delay0 energy0 src_dist patch_hist patchwise mono_of mono direct_val direct_bin norm_weights
  from_scattering from_directional rot rotT wall_dirs create_patches total_number_of_patches
  tiling_defined process kang_patches patch_center patch_area construct sphere_tangent on_sphere
  angle_at angle_sum excess poly_area pt_solution s2p_energy s2p_dist p2r_factor kang_ffs
  kang_run kang_resp kN kdelay0 ke0 kinit_with korders_from kpdist kdelay kff_offset
  project_to_plane rotation_matrix rotation_to_z mvec point_in_polygon basic_visibility
  visible_all check_point2patch check_patch2patch unit_of metrics_w frame_dir_n frame_dir lookup
  nearest_freq dir_index freq_index dirfac source_dirfac recv_dirfac sample_pts sample_conn
  load_stokes_entries newton_cotes_4th stokes_integration stokes_nocut coincidence_check
  universal_branch patch2patch_ff ff_full room_scene room_source room_receiver room_mono
  rm_patch_pts round_he lagrange3 poly_integration3 area_under_curve nusselt_analog grid_nx
  grid_nz surf_grid nusselt_integration nusselt_ff universal_ff_full patch2patch_ff_full ostep
  otrace orun init restore oeq to_dict ocheck get all_fields dict_fields.
