(** Extraction of the executable models.  ExtrOcamlBasic only; no Extract Constant:
    the scalar operations are passed in as an [ops] record by the driver. *)
From Coq Require Import List Arith Bool.
From SV Require Import Base.Ops Base.Arr Model.Vec3 Model.Exchange Model.Scene Model.Stokes.
Require Extraction.
From Coq Require Import ExtrOcamlBasic.
Extraction Language OCaml.
Extraction "model.ml"
  tab argmin nearest centroid fan_area vnorm vdist
  shift_trunc roll init_hist step exchange order_k directed delay_floor delay_ceil
  tilde p2o vis_pairs delay_matrix n_samples e0dir delay0 energy0 src_dist patch_hist
  patchwise mono_of mono direct_val direct_bin
  sample_pts sample_conn load_stokes_entries newton_cotes_4th stokes_integration stokes_nocut
  coincidence_check universal_branch patch2patch_ff ff_full.
