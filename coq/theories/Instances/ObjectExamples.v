(** * Concrete histories: non-vacuity of the hypotheses and the refutation witnesses (C15, C16). *)
From Coq Require Import List Arith Bool.
Import ListNotations.
From SV Require Import Model.Object Spec.ObjectSpec Proofs.ObjectProofs Proofs.ObjectThms.

Definition g0 : geo := mkGeo 6 10 41.
Definition all6 : list nat := [0; 1; 2; 3; 4; 5].
(** one 4-direction table on all walls + attenuation, two bands *)
Definition mats0 : list op := [OpSetBrdf all6 1 1 4 1 2 false; OpSetAtt 1 1 2].
Definition tail0 : list op := [OpBake; OpInitSource 1; OpExchange 1 20 2 true].
Definition pipe0 : list op := mats0 ++ tail0.
Definition run0 (h : list op) : ostate := orun g0 (init g0) h.
Definition classes (h : list op) : list rclass := map oclass_of (otrace g0 (init g0) h).

(** the five pipeline stages are well-kinded, accepted by check() and restorable *)
Example stages_wf : Forall (fun h => wf (run0 h))
  [[]; mats0; mats0 ++ [OpBake]; mats0 ++ [OpBake; OpInitSource 1]; pipe0].
Proof. repeat constructor; intro f; destruct f; vm_compute; reflexivity. Qed.
Example stages_check : map (fun h => ocheck g0 (run0 h))
  [[]; mats0; mats0 ++ [OpBake]; mats0 ++ [OpBake; OpInitSource 1]; pipe0] = [ROk; ROk; ROk; ROk; ROk].
Proof. vm_compute. reflexivity. Qed.
(** the same, history by history: the hypothesis of the lossless-continuation theorem (C15) *)
Example stages_check_forall :
  Forall (fun h0 => ocheck g0 (orun g0 (init g0) h0) = ROk)
    [[]; mats0; mats0 ++ [OpBake]; mats0 ++ [OpBake; OpInitSource 1]; pipe0].
Proof. repeat constructor; vm_compute; reflexivity. Qed.
Example pipe_classes : classes (pipe0 ++ [OpCollect 1 false; OpCollect 1 true; OpDictRoundTrip; OpFileRoundTrip])
  = [ROk; ROk; ROk; ROk; ROk; ROk; ROk; ROk; ROk].
Proof. vm_compute. reflexivity. Qed.

(** setter permutation, overwritten table, re-source and repeated stages: same histograms *)
Definition hA : list op :=
  [OpSetBrdf [0; 1; 2] 1 1 4 1 2 false; OpSetBrdf [3; 4; 5] 2 2 4 1 2 false; OpSetAtt 1 1 2].
Definition hB : list op :=
  [OpSetAtt 2 1 2; OpSetBrdf all6 3 1 4 1 2 false; OpSetBrdf [3; 4; 5] 2 2 4 1 2 false; OpSetAtt 1 1 2;
   OpBake; OpInitSource 2; OpExchange 2 10 1 true; OpSetBrdf [2; 1; 0] 1 1 4 1 2 false; OpBake].
Example final_config_instance :
  classes (hB ++ tail0) = repeat ROk 12 /\
  o_etc (run0 (hA ++ tail0)) = o_etc (run0 (hB ++ tail0)) /\
  o_tilde (run0 (hA ++ tail0)) = o_tilde (run0 (hB ++ tail0)) /\
  o_e0 (run0 (hA ++ tail0)) = o_e0 (run0 (hB ++ tail0)).
Proof. vm_compute. repeat split; reflexivity. Qed.

(** ** refutation witnesses *)
Lemma reads_refuted : exists o f, In f (reads o) /\ ~ In f dict_fields.
Proof.
  exists (OpCollect 1 true), FSource. split; [cbn; tauto|].
  cbn. intro H. repeat (destruct H as [H|H]; [discriminate H|]). exact H.
Qed.

Lemma source_refuted :
  exists g h s', let s := orun g (init g) h in
    restore g false s = (ROk, Some s') /\ sim s s' /\ oeq s s' = true /\
    oclass_of (ostep g s (OpCollect 1 true)) = ROk /\
    oclass_of (ostep g s' (OpCollect 1 true)) = RAttribute.
Proof.
  exists g0, pipe0. eexists. cbv zeta. split; [vm_compute; reflexivity|].
  repeat split; vm_compute; reflexivity.
Qed.

Lemma partial_materials_refuted :
  exists g h, let s := orun g (init g) h in
    Forall (fun c => c = ROk) (map oclass_of (otrace g (init g) h)) /\
    restore g false s = (RValue, None) /\ restore g true s = (RValue, None).
Proof.
  exists g0, [OpSetBrdf [0; 1] 1 1 4 1 2 false]. cbv zeta. split; [vm_compute; repeat constructor|].
  split; vm_compute; reflexivity.
Qed.

Lemma stale_cache_refuted :
  exists g h, let s := orun g (init g) h in
    Forall (fun c => c = ROk) (map oclass_of (otrace g (init g) h)) /\
    restore g false s = (RValue, None) /\ restore g true s = (RValue, None).
Proof.
  exists g0, (pipe0 ++ [OpExchange 2 10 2 false]). cbv zeta. split; [vm_compute; repeat constructor|].
  split; vm_compute; reflexivity.
Qed.

(** no materials: repeating bake + init_source changes form_factors_tilde and the histogram *)
Lemma default_brdf_refuted :
  exists g src tid ns order,
    let t := [OpBake; OpInitSource src; OpExchange tid ns order true] in
    let s1 := orun g (init g) t in
    let s2 := orun g (init g) ([OpBake; OpInitSource src] ++ t) in
    Forall (fun c => c = ROk) (map oclass_of (otrace g (init g) ([OpBake; OpInitSource src] ++ t))) /\
    term_eqb (optv (o_tilde s1)) (optv (o_tilde s2)) = false /\
    term_eqb (optv (o_etc s1)) (optv (o_etc s2)) = false.
Proof.
  exists g0, 1, 1, 20, 2. cbv zeta. split; [vm_compute; repeat constructor|].
  split; vm_compute; reflexivity.
Qed.

(** an overwritten table of another shape stays in the brdf list: bake raises ValueError although
    the configuration in force (table 1 on every wall) is the one of [pipe0], which succeeds *)
Lemma stale_table_refuted :
  exists g h h',
    map oclass_of (otrace g (init g) h) = [ROk; ROk; ROk; RValue; RValue; RAttribute] /\
    map oclass_of (otrace g (init g) h') = [ROk; ROk; ROk; ROk; ROk] /\
    h = OpSetBrdf all6 7 0 1 1 2 false :: h'.
Proof. exists g0, (OpSetBrdf all6 7 0 1 1 2 false :: pipe0), pipe0. repeat split; vm_compute; reflexivity. Qed.

(** from_dict keeps the caller's direction lists and set_wall_brdf writes into them *)
Lemma frame_refuted :
  exists g h o, let s := orun g (init g) h in
    option_map dow (o_dirs_in s) = Some Alias /\ option_map dk (o_dirs_in s) = Some KList /\
    oclass_of (ostep g s o) = ROk /\
    optv (o_dirs_in (ostate_of (ostep g s o))) <> optv (o_dirs_in s).
Proof.
  exists g0, (mats0 ++ [OpDictRoundTrip]), (OpSetBrdf [0] 2 2 4 1 2 false). cbv zeta.
  repeat split; try (vm_compute; reflexivity). vm_compute. intro H. discriminate H.
Qed.

(** without a dictionary round trip the attributes written in place are the object's own *)
Example frame_instance :
  map (fun f => option_map dow (get f (run0 (hB ++ tail0 ++ [OpFileRoundTrip])))) [FBrdf; FBrdfIndex; FDirsIn; FDirsOut]
  = [Some Fresh; Some Fresh; Some Fresh; Some Fresh] /\
  map (fun f => option_map dow (get f (run0 pipe0))) [FFreq; FAtt; FSource] = [Some Alias; Some Alias; Some Alias].
Proof. vm_compute. split; reflexivity. Qed.
