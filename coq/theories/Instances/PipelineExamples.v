(** * Non-vacuity: concrete integer scenes meeting the hypotheses of the pipeline theorems
    (C01, C02, C03, C09, C12, C14), checked by computation. *)
From Coq Require Import ZArith List Bool Lia Arith.
Import ListNotations.
From SV Require Import Base.Ops Base.Arr Base.Sums Model.Vec3 Model.Exchange Model.Scene Model.Frame
  Spec.ExchangeSpec Proofs.ExchangeL0 Proofs.SceneRefine Proofs.FrameProofs Proofs.Reciprocity
  Instances.InstZ.
Local Open Scope Z_scope.

(** a three-patch scene with one outgoing slot and two bands *)
Definition scZ : @scene Z := {|
  s_np := 3; s_nd := 1; s_nb := 2;
  s_centers := [(0, 0, 0); (4, 0, 0); (0, 3, 0)];
  s_areas := [1; 2; 1];
  s_wall := [0%nat; 1%nat; 1%nat];
  s_visU := [[false; true; true]; [false; false; true]; [false; false; false]];
  s_F := [[0; 2; 3]; [0; 0; 5]; [0; 0; 0]];
  s_att := [0; 0];
  s_tables := [[[[2; 1]]]; [[[0; 3]]]];
  s_tidx := [0%nat; 1%nat];
  s_in := [[(0, 0, 1)]; [(0, 0, 1)]];
  s_out := [[(0, 0, 1)]; [(0, 0, 1)]] |}.

Example scZ_wf : wf_scene scZ.
Proof.
  repeat split.
  - intros i j H. unfold get2b, nthb, nthl in H.
    do 4 (try destruct i as [|i]); do 4 (try destruct j as [|j]); simpl in H; try discriminate H; lia.
  - intros i Hi. simpl in Hi. destruct i as [|[|[|i]]]; try lia; reflexivity.
  - simpl. lia.
Qed.

(** the visible pairs and the directed pair list are what bake_geometry produces *)
Example scZ_pairs : vis_pairs scZ = [(0, 1); (0, 2); (1, 2)]%nat /\
                    directed (vis_pairs scZ) = [(0, 1); (1, 0); (0, 2); (2, 0); (1, 2); (2, 1)]%nat.
Proof. split; reflexivity. Qed.

(** wall 1 is fully absorbing in band 0 (its table entry is 0): the hypothesis of C01_absorbing_model *)
Example scZ_absorbing : forall a, beta scZ (wall scZ 1) a 0 0 = 0.
Proof. intros a. unfold beta, wall. simpl. destruct a as [|[|a]]; reflexivity. Qed.

(** a recursion instance whose window holds every arrival of order 1 (hypotheses of C01_balance) *)
Definition Pz : list (nat * nat) := [(0, 1); (1, 0)]%nat.
Definition dz (i j : nat) : nat := 2%nat.
Definition cz (i j d b : nat) : Z := 3.
Definition oz (i j : nat) : nat := 0%nat.
Definition d0z (j : nat) : nat := 1%nat.
Definition e0z (j d b : nat) : Z := 5.

Example balance_hypotheses_hold :
  NoDup [0; 1]%nat /\ (forall p, In p Pz -> In (snd p) [0; 1]%nat) /\
  (forall p, In p Pz -> (dz (fst p) (snd p) <= 6)%nat /\
      forall t, (6 - dz (fst p) (snd p) <= t)%nat -> (t < 6)%nat ->
                E Pz dz cz oz d0z e0z 0 (fst p) (oz (fst p) (snd p)) 0 t = 0).
Proof.
  split; [repeat constructor; simpl; intuition lia|]. split.
  - intros p [<-|[<-|[]]]; simpl; auto.
  - intros p Hp. split; [unfold dz; lia|]. intros t H1 H2. unfold dz in H1. simpl.
    unfold E0, d0z. destruct (Nat.eqb_spec t 1); [lia|reflexivity].
Qed.
Example balance_computes :
  sumf [0; 1]%nat (fun j => hsum 6 (E Pz dz cz oz d0z e0z 1 j 0 0)) = 30 /\
  sumf Pz (fun p => cz (fst p) (snd p) 0 0 * hsum 6 (E Pz dz cz oz d0z e0z 0 (fst p) 0 0)) = 30.
Proof. split; vm_compute; reflexivity. Qed.

(** an orthonormal wall frame (hypothesis of C14_rigid / C14_frame_equiv) *)
Example frame_orthonormal : @orthonormal Z ZOps (0, 0, 1) (1, 0, 0).
Proof. repeat split. Qed.
Example frame_oblique_orthonormal : @orthonormal Z ZOps (0, 1, 0) (0, 0, -1).
Proof. repeat split. Qed.

(** reciprocity hypotheses (C09_reciprocal) with unit areas and a symmetric transfer matrix,
    non-uniform reflectances; both directions computed *)
Definition Gz (i j : nat) : Z := if (i =? j)%nat then 0 else 2 + Z.of_nat (i + j).
Definition rhoz (j : nat) : Z := Z.of_nat (j + 1).
Definition onez (i : nat) : Z := 1.
Definition delz (i j : nat) : nat := (if (i =? j) then 0 else 1 + (i + j))%nat.
Example recip_hypotheses :
  NoDup [0; 1; 2]%nat /\ (forall i, In i [0; 1; 2]%nat -> onez i * onez i = 1) /\
  (forall i j, delz i j = delz j i) /\
  (forall i j, In i [0; 1; 2]%nat -> In j [0; 1; 2]%nat -> Gz i j * onez j = Gz j i * onez i).
Proof.
  split; [repeat constructor; simpl; intuition lia|]. split; [reflexivity|]. split.
  - intros i j. unfold delz. rewrite (Nat.eqb_sym j i), (Nat.add_comm j i). reflexivity.
  - intros i j _ _. unfold Gz, onez. rewrite (Nat.eqb_sym j i), (Nat.add_comm j i). reflexivity.
Qed.
Example recip_computes :
  map (response_upto [0; 1; 2]%nat Gz rhoz onez delz
         (fun i => Z.of_nat (i + 1)) (fun i => i) (fun i => 7 - Z.of_nat i) (fun i => S (2 * i)) 3)
      (seq 0 12) =
  map (response_upto [0; 1; 2]%nat Gz rhoz onez delz
         (fun i => 7 - Z.of_nat i) (fun i => (2 * i)%nat) (fun i => Z.of_nat (i + 1)) (fun i => S i) 3)
      (seq 0 12).
Proof. vm_compute. reflexivity. Qed.
