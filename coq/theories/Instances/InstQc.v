(** * Non-vacuity: the canonical rationals [Qc] satisfy RingLaws, OrderLaws, FieldLaws and AbsLaws
    (the transcendental operations are arbitrary functions here: no theorem of C05 uses a law
    about [tln] or [tsqrt]), and concrete inputs meet the hypotheses of the C05 theorems. *)
From Coq Require Import List Arith Bool QArith Qcanon Lia.
Import ListNotations.
From SV Require Import Base.Ops Base.Arr Model.Vec3 Model.Exchange Model.Scene Model.Stokes
  Proofs.FieldFacts Proofs.StokesSum.

Local Open Scope Qc_scope.

Definition qleb (a b : Qc) : bool := Qle_bool a b.
Definition qabs (a : Qc) : Qc := if qleb 0 a then a else - a.

Global Instance QcOps : Ops Qc := {|
  tzero := 0; tone := 1; tadd := Qcplus; tmul := Qcmult; tsub := Qcminus; topp := Qcopp; tdiv := Qcdiv;
  tleb := qleb; tltb := fun a b => negb (qleb b a);
  teqb := fun a b => if Qc_eq_dec a b then true else false;
  tofnat := fun n => Q2Qc (inject_Z (Z.of_nat n));
  ttrunc := fun _ => 0%nat; tceil := fun _ => 0%nat;
  tsqrt := fun x => x; texp := fun x => x; tln := fun x => x * x; tacos := fun x => x; tatan := fun x => x;
  tpi := Q2Qc (22 # 7);
  tabs := qabs |}.

Lemma qleb_le a b : qleb a b = true <-> a <= b.
Proof. unfold qleb. apply Qle_bool_iff. Qed.

Global Instance QcRing : RingLaws Qc := {| ring_th := Qcrt |}.

Global Instance QcOrder : OrderLaws Qc.
Proof.
  constructor; unfold tle, tlt; simpl.
  - intros a. apply qleb_le, Qcle_refl.
  - intros a b c H1 H2. apply qleb_le in H1, H2. apply qleb_le. eapply Qcle_trans; eassumption.
  - intros a b H1 H2. apply qleb_le in H1, H2. now apply Qcle_antisym.
  - intros a b. destruct (Qclt_le_dec a b) as [H|H]; [left; apply qleb_le, Qclt_le_weak, H|right; apply qleb_le, H].
  - intros a b c H. apply qleb_le in H. apply qleb_le. now apply Qcplus_le_compat; [|apply Qcle_refl].
  - intros a b H1 H2. apply qleb_le in H1, H2. apply qleb_le.
    rewrite <- (Qcmult_0_l b). now apply Qcmult_le_compat_r.
  - intros a b H1 H2. apply negb_true_iff in H1, H2. apply negb_true_iff.
    destruct (qleb (a * b) 0) eqn:E; [|reflexivity]. exfalso.
    apply qleb_le in E.
    assert (Ha : 0 < a). { apply Qcnot_le_lt. intros H. apply qleb_le in H. congruence. }
    assert (Hb : 0 < b). { apply Qcnot_le_lt. intros H. apply qleb_le in H. congruence. }
    pose proof (Qcmult_lt_compat_r 0 a b Hb Ha) as H. rewrite Qcmult_0_l in H. apply (Qclt_not_le _ _ H E).
  - reflexivity.
  - intros a b. destruct (Qc_eq_dec a b); split; congruence.
  - reflexivity.
Qed.

Global Instance QcField : FieldLaws Qc.
Proof.
  constructor. intros a b Hb. simpl. unfold Qcdiv. rewrite <- Qcmult_assoc, (Qcmult_comm (/ b)).
  rewrite Qcmult_inv_r by exact Hb. apply Qcmult_1_r.
Qed.

Global Instance QcAbs : AbsLaws Qc.
Proof.
  constructor; unfold tle; simpl; unfold qabs.
  - intros x. destruct (qleb 0 x) eqn:E; [exact E|].
    apply qleb_le. destruct (Qclt_le_dec x 0) as [H|H].
    + apply Qclt_le_weak in H. apply Qcopp_le_compat in H. exact H.
    + apply qleb_le in H. congruence.
  - intros x H. now rewrite H.
  - intros x H. destruct (qleb 0 x) eqn:E; [|reflexivity].
    apply qleb_le in H, E. assert (x = 0) by now apply Qcle_antisym. subst. reflexivity.
Qed.


(** ** concrete inputs *)
Definition q (n d : Z) : Qc := Q2Qc (n # Z.to_pos d).
Definition v (x y z : Z) : @vec Qc := (q x 1, q y 1, q z 1).
(** unit square in z = 0 and a 2 x 1 rectangle in the plane y = 3 (no common vertex) *)
Definition sqI : list (@vec Qc) := [v 0 0 0; v 1 0 0; v 1 1 0; v 0 1 0].
Definition sqJ : list (@vec Qc) := [v 0 3 0; v 0 3 1; v 2 3 1; v 2 3 0].
Definition cutQ : Qc := q 1 1000.
Definition thrQ : Qc := q 1 1000000.
(** Boole's rule integrates x^4 over [0,4] to 1024/5 *)
Example boole_x4 :
  newton_cotes_4th [q 0 1; q 1 1; q 2 1; q 3 1; q 4 1] [q 0 1; q 1 1; q 16 1; q 81 1; q 256 1] = q 1024 5.
Proof. apply Qc_is_canon. vm_compute. reflexivity. Qed.
(** the pair has no coincident vertices: Stokes branch *)
Example branch_is_stokes : coincidence_check thrQ sqJ sqI = false.
Proof. vm_compute. reflexivity. Qed.
(** the model runs on the pair and its value is not zero *)
Example stokes_runs :
  exists x, universal_branch thrQ cutQ sqI 1 sqJ = inl x /\ x <> 0.
Proof.
  eexists. split.
  - vm_compute. reflexivity.
  - intros H. apply (f_equal this) in H. vm_compute in H. discriminate H.
Qed.

(** hypothesis of C05_similarity_cut_is_nocut: every edge extent is 0 or exceeds the cut-off *)
Example squares_have_no_small_extent : no_small_extent cutQ sqI /\ no_small_extent cutQ sqJ.
Proof.
  split; intros dim i Hi; simpl in Hi;
    (destruct i as [|[|[|[|i]]]]; [| | | |lia]);
    (destruct dim as [|[|dim]]);
    first [left; apply Qc_is_canon; vm_compute; reflexivity | right; vm_compute; reflexivity].
Qed.

(** hypotheses of C05_reciprocity_stokes *)
Example recip_hyps : (0 < tpi)%T /\ (0 < q 1 1)%T /\ (0 < q 2 1)%T.
Proof. repeat split; vm_compute; reflexivity. Qed.

(** a three-patch scene whose stored matrix is the assembled one; pair (0,2) is invisible,
    pair (0,1) is visible and carries a non-zero Stokes value *)
Definition sc0 (F : @arr2 Qc) : @scene Qc :=
  mkScene 3 1 1 [v 0 0 0; v 0 3 0; v 5 5 5] [q 1 1; q 2 1; q 1 1] [0; 1; 2]%nat
          [[false; true; false]; [false; false; true]; [false; false; false]]
          F [0] [] [0; 0; 0]%nat [] [].
Definition ptsQ : list (list (@vec Qc)) := [sqI; sqJ; map (fun p => vadd p (v 7 7 7)) sqI].
Definition scQ : @scene Qc :=
  sc0 (patch2patch_ff thrQ cutQ ptsQ [q 1 1; q 2 1; q 1 1] (vis_pairs (sc0 [])) []).

Ltac qc_neq0 := let H := fresh in intros H; apply (f_equal this) in H; vm_compute in H; discriminate H.

Example scene_hyps :
  s_F scQ = patch2patch_ff thrQ cutQ ptsQ (s_areas scQ) (vis_pairs scQ) [] /\
  area scQ 0 <> 0%T /\ area scQ 2 <> 0%T /\ vis_sym scQ 0 2 = false /\ vis_sym scQ 0 1 = true /\
  get2 (s_F scQ) 0 1 <> 0%T.
Proof.
  split; [vm_compute; reflexivity|].
  split; [qc_neq0|]. split; [qc_neq0|].
  split; [vm_compute; reflexivity|]. split; [vm_compute; reflexivity|]. qc_neq0.
Qed.
