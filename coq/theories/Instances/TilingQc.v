(** * Non-vacuity for C08: the canonical rationals [Qc] satisfy every law class the theorems
    assume, and a concrete wall meets [wall_ok]; the model is run on it by [vm_compute]. *)
From Coq Require Import List Arith Bool ZArith QArith Qcanon Qround Lia.
Import ListNotations.
From SV Require Import Base.Ops Base.Arr Base.Sums Model.Vec3 Model.Tiling
  Proofs.OrderField Proofs.TilingLists Proofs.TilingProofs Properties.C08.

Definition qc_ofnat (n : nat) : Qc := Q2Qc (inject_Z (Z.of_nat n)).

(** the operations without a law in the classes used here are placeholders *)
#[export] Instance QcOps : Ops Qc := {|
  tzero := Q2Qc 0; tone := 1%Qc;
  tadd := Qcplus; tmul := Qcmult; tsub := Qcminus; topp := Qcopp; tdiv := Qcdiv;
  tleb := fun a b => Qle_bool a b;
  tltb := fun a b => negb (Qle_bool b a);
  teqb := fun a b => Qeq_bool a b;
  tofnat := qc_ofnat;
  ttrunc := fun x => Z.to_nat (Qfloor x);
  tceil := fun x => Z.to_nat (Qceiling x);
  tsqrt := fun x => x; texp := fun x => x; tln := fun x => x;
  tacos := fun x => x; tatan := fun x => x; tpi := 1%Qc;
  tabs := fun x => x
|}.

Lemma qc_tle_iff (a b : Qc) : (a <= b)%T <-> (a <= b)%Qc.
Proof. unfold tle. simpl. apply Qle_bool_iff. Qed.
Lemma qc_tlt_iff (a b : Qc) : (a < b)%T <-> (a < b)%Qc.
Proof.
  unfold tlt. simpl. rewrite negb_true_iff. split.
  - intros H. apply Qcnot_le_lt. intros C. apply Qle_bool_iff in C. congruence.
  - intros H. destruct (Qle_bool b a) eqn:E; [|reflexivity].
    apply Qle_bool_iff in E. exfalso. exact (Qclt_not_le _ _ H E).
Qed.

#[export] Instance QcRing : RingLaws Qc := {| ring_th := Qcrt |}.

#[export] Instance QcOrder : OrderLaws Qc.
Proof.
  constructor.
  - intros a. apply qc_tle_iff, Qcle_refl.
  - intros a b c H1 H2. apply qc_tle_iff in H1, H2. apply qc_tle_iff. eapply Qcle_trans; eassumption.
  - intros a b H1 H2. apply qc_tle_iff in H1, H2. now apply Qcle_antisym.
  - intros a b. destruct (Qclt_le_dec a b) as [H|H].
    + left. apply qc_tle_iff. now apply Qclt_le_weak.
    + right. now apply qc_tle_iff.
  - intros a b c H. apply qc_tle_iff in H. apply qc_tle_iff. apply Qcplus_le_compat; [exact H|apply Qcle_refl].
  - intros a b Ha Hb. apply qc_tle_iff in Ha, Hb. apply qc_tle_iff.
    replace (@tzero Qc QcOps) with (Q2Qc 0 * b)%Qc by (simpl; ring).
    now apply Qcmult_le_compat_r.
  - intros a b Ha Hb. apply qc_tlt_iff in Ha, Hb. apply qc_tlt_iff.
    replace (@tzero Qc QcOps) with (Q2Qc 0 * b)%Qc by (simpl; ring).
    now apply Qcmult_lt_compat_r.
  - intros a b. reflexivity.
  - intros a b. simpl. rewrite Qeq_bool_iff. split; [apply Qc_is_canon|now intros ->].
  - apply qc_tlt_iff. reflexivity.
Qed.

#[export] Instance QcField : FieldLaws Qc.
Proof. constructor. intros a b Hb. simpl. now apply test_field. Qed.

Lemma qc_this_ofZ (z : Z) : (this (Q2Qc (inject_Z z)) == inject_Z z)%Q.
Proof. apply Qred_correct. Qed.

Lemma qc_this_plus (a b : Qc) : (this (a + b)%Qc == this a + this b)%Q.
Proof. apply Qred_correct. Qed.

Lemma qfloor_nonneg (x : Qc) : (Q2Qc 0 <= x)%Qc -> (0 <= Qfloor x)%Z.
Proof. intros H. change 0%Z with (Qfloor 0). apply Qfloor_resp_le. exact H. Qed.
Lemma qceiling_nonneg (x : Qc) : (Q2Qc 0 <= x)%Qc -> (0 <= Qceiling x)%Z.
Proof. intros H. change 0%Z with (Qceiling 0). apply Qceiling_resp_le. exact H. Qed.

#[export] Instance QcFloor : FloorLaws Qc.
Proof.
  constructor.
  - reflexivity.
  - intros n. change (qc_ofnat (S n) = (qc_ofnat n + 1)%Qc). unfold qc_ofnat, Qcplus.
    apply Q2Qc_eq_iff. rewrite qc_this_ofZ.
    rewrite Nat2Z.inj_succ, <- Z.add_1_r, inject_Z_plus. reflexivity.
  - intros x H. apply qc_tle_iff in H. apply qc_tle_iff. simpl. unfold qc_ofnat, Qcle.
    rewrite qc_this_ofZ, Z2Nat.id by now apply qfloor_nonneg. apply Qfloor_le.
  - intros x H. apply qc_tle_iff in H. apply qc_tlt_iff. simpl. unfold qc_ofnat, Qclt.
    rewrite qc_this_ofZ, Nat2Z.inj_succ, Z2Nat.id, <- Z.add_1_r by now apply qfloor_nonneg.
    apply Qlt_floor.
  - intros x H. apply qc_tle_iff in H. apply qc_tle_iff. simpl. unfold qc_ofnat, Qcle.
    rewrite qc_this_ofZ, Z2Nat.id by now apply qceiling_nonneg. apply Qle_ceiling.
  - intros x H. apply qc_tlt_iff in H. apply qc_tlt_iff. simpl. unfold qc_ofnat, Qclt.
    assert (H0 : (Q2Qc 0 <= x)%Qc) by now apply Qclt_le_weak.
    rewrite qc_this_ofZ, Z2Nat.id by now apply qceiling_nonneg.
    pose proof (Qceiling_lt x) as L. unfold Z.sub in L. rewrite inject_Z_plus in L.
    rewrite qc_this_plus.
    apply (Qplus_lt_l _ _ (inject_Z (-1))).
    setoid_replace (this x + this 1%Qc + inject_Z (-1))%Q with (this x) by (simpl; ring). exact L.
Qed.

(** ** A concrete wall: the rectangle [1/2, 3] x [-1, 1/3] in the plane y = 7/4 (flat axis 1),
    vertices given in a rotated, reversed order, patch size 3/5: 4 x 2 patches of size
    5/8 x 2/3. *)
Definition qq (n : Z) (d : positive) : Qc := Q2Qc (n # d)%Q.
Local Close Scope Qc_scope.
Local Close Scope Q_scope.
Local Open Scope nat_scope.
Definition pt (x y z : Qc) : @vec Qc := (x, y, z).
Definition wallQ : @quad Qc :=
  mkQuad (pt (qq 3 1) (qq 7 4) (qq 1 3)) (pt (qq 3 1) (qq 7 4) (qq (-1) 1))
         (pt (qq 1 2) (qq 7 4) (qq (-1) 1)) (pt (qq 1 2) (qq 7 4) (qq 1 3)).
Definition pQ : Qc := qq 3 5.

Example wallQ_ok : wall_ok wallQ pQ 1 (qq 7 4).
Proof.
  unfold wall_ok. split; [lia|]. split.
  - intros v [<-|[<-|[<-|[<-|[]]]]]; reflexivity.
  - repeat split; vm_compute; reflexivity.
Qed.

Example wallQ_counts :
  patch_num wallQ pQ 0 = 4 /\ patch_num wallQ pQ 1 = 0 /\ patch_num wallQ pQ 2 = 2 /\
  length (create_patches wallQ pQ) = 8 /\ total_number_of_patches wallQ pQ = 8.
Proof. vm_compute. repeat split. Qed.

(** patch (i,j) = (2,1), index 2*2+1, is [1/2 + 2*5/8, 1/2 + 3*5/8] x [-1 + 2/3, -1 + 4/3];
    compared with the decidable equality [teqb] (which is Leibniz equality by [teqb_spec]) *)
Definition vec_eqb (a b : @vec Qc) : bool :=
  teqb (vx a) (vx b) && teqb (vy a) (vy b) && teqb (vz a) (vz b).
Definition quad_eqb (P Q : @quad Qc) : bool :=
  vec_eqb (q0 P) (q0 Q) && vec_eqb (q1 P) (q1 Q) && vec_eqb (q2 P) (q2 Q) && vec_eqb (q3 P) (q3 Q).
Example wallQ_cell :
  quad_eqb (nth 5 (create_patches wallQ pQ) dquad)
    (mkQuad (pt (qq 7 4) (qq 7 4) (qq (-1) 3)) (pt (qq 19 8) (qq 7 4) (qq (-1) 3))
            (pt (qq 19 8) (qq 7 4) (qq 1 3)) (pt (qq 7 4) (qq 7 4) (qq 1 3))) = true.
Proof. vm_compute. reflexivity. Qed.

(** the general theorems apply to it *)
Example wallQ_area :
  sumf (create_patches wallQ pQ) (rect_area 0 2) = (size wallQ 0 * size wallQ 2)%T.
Proof. exact (C08_area_sum wallQ pQ 1 (qq 7 4) wallQ_ok). Qed.

Example wallQ_kang : kang_patches wallQ pQ = create_patches wallQ pQ.
Proof. exact (C08_kang_same wallQ pQ). Qed.

Example wallQ_orders o : create_patches (reorder o wallQ) pQ = create_patches wallQ pQ.
Proof. exact (C08_eight_orders wallQ pQ 1 (qq 7 4) o wallQ_ok). Qed.

(** two walls through [process]: ids are 8 x wall 0 then 8 x wall 1 *)
Example processQ_ids :
  pr_wall_ids (process [wallQ; translate_quad (pt (qq 1 1) (qq 2 1) (qq 0 1)) wallQ]
                       [pt (qq 0 1) (qq 1 1) (qq 0 1); pt (qq 0 1) (qq (-1) 1) (qq 0 1)] pQ)
  = repeat 0 8 ++ repeat 1 8.
Proof. vm_compute. reflexivity. Qed.

(** ** A signed axis permutation of that wall: [m v = (- v[2], v[0], - v[1])]
    ([sigma] = 2,0,1; signs -1, 1, -1).  The hypotheses of [C08_axis_permutation] are met; the
    image wall lies in the plane z = -7/4 (flat axis 2), its in-plane axes 0, 1 carry the old
    axes 2, 0 (exchanged), so it has 2 x 4 patches. *)
From Coq Require Import Permutation.
From SV Require Import Proofs.TilingPerm.
Definition sigmaQ (d : nat) : nat := match d with 0 => 2 | 1 => 0 | _ => 1 end.
Definition mQ (v : @vec Qc) : @vec Qc :=
  mkv (- (1) * vget v (sigmaQ 0))%T (1 * vget v (sigmaQ 1))%T (- (1) * vget v (sigmaQ 2))%T.

Example sigmaQ_perm : Permutation [sigmaQ 0; sigmaQ 1; sigmaQ 2] [0; 1; 2].
Proof. simpl. eapply perm_trans; [apply perm_swap|]. apply perm_skip. apply perm_swap. Qed.

Example wallQ_axis_permutation :
  exists f' o, f' < 3 /\ sigmaQ f' = 1 /\ o < 8 /\
    wall_ok (map_quad mQ wallQ) pQ f' ((match f' with 0 => - (1) | 1 => 1 | _ => - (1) end) * qq 7 4)%T /\
    (forall d, d < 3 -> size (map_quad mQ wallQ) d = size wallQ (sigmaQ d) /\
                        patch_num (map_quad mQ wallQ) pQ d = patch_num wallQ pQ (sigmaQ d) /\
                        real_size (map_quad mQ wallQ) pQ d = real_size wallQ pQ (sigmaQ d)) /\
    Permutation (create_patches (map_quad mQ wallQ) pQ)
                (map (fun Q => reorder o (map_quad mQ Q)) (create_patches wallQ pQ)).
Proof.
  exact (C08_axis_permutation sigmaQ (- (1))%T 1%T (- (1))%T wallQ pQ 1 (qq 7 4) sigmaQ_perm
           (or_intror eq_refl) (or_introl eq_refl) (or_intror eq_refl) wallQ_ok).
Qed.

(** run on it: counts 2 x 4 with flat axis 2; old cell (2,1) (index 5) is the new cell
    ((2-1-1), 2) (index 0*4 + 2) with its vertices in the order [reorder 3] *)
Example wallQ_image_counts :
  patch_num (map_quad mQ wallQ) pQ 0 = 2 /\ patch_num (map_quad mQ wallQ) pQ 1 = 4 /\
  patch_num (map_quad mQ wallQ) pQ 2 = 0 /\ length (create_patches (map_quad mQ wallQ) pQ) = 8.
Proof. vm_compute. repeat split. Qed.

Example wallQ_image_cell :
  ord_of true true false = 3 /\ flip true 2 1 * 4 + flip false 4 2 = 2 /\
  quad_eqb (nth 2 (create_patches (map_quad mQ wallQ) pQ) dquad)
           (reorder 3 (map_quad mQ (nth 5 (create_patches wallQ pQ) dquad))) = true.
Proof. vm_compute. repeat split. Qed.

Example wallQ_kang_axis_permutation :
  exists o, o < 8 /\
    Permutation (kang_patches (map_quad mQ wallQ) pQ)
                (map (fun Q => reorder o (map_quad mQ Q)) (kang_patches wallQ pQ)).
Proof.
  exact (C08_kang_axis_permutation sigmaQ (- (1))%T 1%T (- (1))%T wallQ pQ 1 (qq 7 4) sigmaQ_perm
           (or_intror eq_refl) (or_introl eq_refl) (or_intror eq_refl) wallQ_ok).
Qed.
