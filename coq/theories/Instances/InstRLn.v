(** * Non-vacuity for the similarity statements of the Stokes sum (C05, C17): the real numbers
    satisfy [LnLaws], and concrete patches satisfy the hypotheses of the scaling and isometry
    theorems.  Depends on the standard axioms of the Reals library only. *)
From Coq Require Import Reals Lra Lia List Arith Bool.
Import ListNotations.
From SV Require Import Base.Ops Base.Arr Model.Vec3 Model.Exchange Model.Stokes Spec.Isometry
  Proofs.FieldFacts Proofs.StokesSum Proofs.StokesSimilarity Instances.InstR.
Local Open Scope R_scope.

Global Instance RLn : LnLaws R.
Proof.
  constructor. intros x y Hx Hy. apply tlt_R in Hx. apply tlt_R in Hy.
  change (ln (x * y) = ln x + ln y). apply ln_mult; assumption.
Qed.

(** two parallel unit right triangles in the planes z = 0 and z = 1 *)
Definition tri_lo : list (@vec R) := [(0, 0, 0); (1, 0, 0); (0, 1, 0)].
Definition tri_hi : list (@vec R) := [(0, 0, 1); (1, 0, 1); (0, 1, 1)].

(** every boundary sample of a patch lies in the plane of its vertices *)
Lemma sample_z (el : list (@vec R)) (z : R) :
  (forall v, In v el -> vz v = z) -> el <> [] -> forall p, In p (sample_pts 5 el) -> vz p = z.
Proof.
  intros Hz Hne p Hp. unfold sample_pts in Hp. apply In_tab in Hp. destruct Hp as (k & Hk & ->).
  change (5 - 1)%nat with 4%nat in *. unfold bpoint. cbv zeta.
  assert (Hl : (length el <> 0)%nat) by (destruct el; [congruence|simpl; lia]).
  assert (H1 : vz (nthv el (k / 4)) = z).
  { apply Hz. unfold nthv. apply nth_In. apply Nat.div_lt_upper_bound; lia. }
  assert (H2 : vz (nthv el ((k / 4 + 1) mod length el)) = z).
  { apply Hz. unfold nthv. apply nth_In. now apply Nat.mod_upper_bound. }
  unfold vadd, vdivs, vscale, vsub, mkv. cbn [vz snd]. fold (vz (nthv el (k / 4))).
  fold (vz (nthv el ((k / 4 + 1) mod length el))). rewrite H1, H2.
  change (z + (tnat (k mod 4) * (z - z)) / tnat 4 = z).
  replace (z - z) with 0 by ring. rewrite Rmult_0_r. unfold Rdiv. rewrite Rmult_0_l. ring.
Qed.

Lemma tri_apart : forall p q, In p (sample_pts 5 tri_lo) -> In q (sample_pts 5 tri_hi) ->
  tlt 0%T (vnorm (vsub p q)).
Proof.
  intros p q Hp Hq. apply (proj2 (tlt_R _ _)).
  assert (Zp : vz p = 0).
  { apply (sample_z tri_lo 0); [|discriminate|exact Hp].
    intros v [<-|[<-|[<-|[]]]]; reflexivity. }
  assert (Zq : vz q = 1).
  { apply (sample_z tri_hi 1); [|discriminate|exact Hq].
    intros v [<-|[<-|[<-|[]]]]; reflexivity. }
  change (0 < sqrt (vnorm2 (vsub p q))). apply sqrt_lt_R0.
  destruct p as [[px py] pz], q as [[qx qy] qz]. cbn [vz snd] in Zp, Zq. subst pz qz.
  change (0 < (px - qx) * (px - qx) + (py - qy) * (py - qy) + (0 - 1) * (0 - 1)).
  pose proof (Rle_0_sqr (px - qx)) as S1. pose proof (Rle_0_sqr (py - qy)) as S2. unfold Rsqr in S1, S2. lra.
Qed.

(** the scaling theorem applies to the pair, for every factor [s > 0] and every area [a <> 0] *)
Example scaling_triangles (s a : R) : 0 < s -> a <> 0 ->
  stokes_integration 0%T (map (vscale s) tri_lo) (map (vscale s) tri_hi) (s * s * a) =
  stokes_integration 0%T tri_lo tri_hi a.
Proof.
  intros Hs Ha.
  apply (stokes_cut0_scale s (proj2 (tlt_R _ _) Hs) tri_lo tri_hi tri_apart a).
  - change (PI <> 0). apply PI_neq0.
  - exact Ha.
Qed.

(** the isometry theorem at the 3-4-5 rotation-reflection of [InstR] *)
Example isometry_triangles (t : @vec R) (a : R) :
  stokes_integration 0%T (map (fun x => vadd (mapply M345 x) t) tri_lo)
                         (map (fun x => vadd (mapply M345 x) t) tri_hi) a =
  stokes_integration 0%T tri_lo tri_hi a.
Proof. exact (stokes_cut0_orthogonal M345 t tri_lo tri_hi a M345_orthogonal). Qed.

Print Assumptions RLn.
Print Assumptions scaling_triangles.
