(** * Non-vacuity for C13: the canonical rationals [Qc] (Leibniz equality) are an instance of
    all three law classes, and a concrete 4-direction sampling meets (H1)-(H3); the theorems'
    conclusions are re-checked on it by [vm_compute]. *)
From Coq Require Import List Arith Bool Lia QArith Qcanon.
Import ListNotations.
From SV Require Import Base.Ops Base.Arr Base.Sums Model.Exchange Model.Brdf Spec.BrdfSpec
  Proofs.BrdfField Proofs.BrdfProofs Properties.C13.
Close Scope Qc_scope.
Close Scope Q_scope.

Definition qc (n : Z) (d : positive) : Qc := Q2Qc (n # d).

#[global] Instance QcOps : Ops Qc := {|
  tzero := 0%Qc; tone := 1%Qc;
  tadd := Qcplus; tmul := Qcmult; tsub := Qcminus; topp := Qcopp; tdiv := Qcdiv;
  tleb := fun a b => Qle_bool a b;
  tltb := fun a b => negb (Qle_bool b a);
  teqb := fun a b => Qeq_bool a b;
  tofnat := fun n => Q2Qc (inject_Z (Z.of_nat n));
  ttrunc := fun _ => 0%nat; tceil := fun _ => 0%nat;
  tsqrt := fun x => x; texp := fun x => x; tln := fun x => x; tacos := fun x => x; tatan := fun x => x;
  tpi := qc 22 7;                   (* any positive constant will do: the theorems only use 0 < pi *)
  tabs := fun x => x
|}.

#[global] Instance QcRing : RingLaws Qc := {| ring_th := Qcrt |}.

Lemma qc_tle (a b : Qc) : (a <= b)%T <-> (a <= b)%Qc.
Proof. unfold tle; simpl. apply Qle_bool_iff. Qed.
Lemma qc_tlt (a b : Qc) : (a < b)%T <-> (a < b)%Qc.
Proof.
  unfold tlt; simpl. rewrite negb_true_iff. split.
  - intros H. apply Qcnot_le_lt. intros L. apply Qle_bool_iff in L. unfold Qcle in L. congruence.
  - intros H. destruct (Qle_bool b a) eqn:E; [|reflexivity]. apply Qle_bool_iff in E.
    exfalso. exact (Qclt_not_le _ _ H E).
Qed.

#[global] Instance QcOrder : OrderLaws Qc.
Proof.
  constructor.
  - intros a. apply qc_tle, Qcle_refl.
  - intros a b c H1 H2. apply qc_tle in H1, H2. apply qc_tle. eapply Qcle_trans; eassumption.
  - intros a b H1 H2. apply qc_tle in H1, H2. now apply Qcle_antisym.
  - intros a b. destruct (Qclt_le_dec a b) as [H|H].
    + left. apply qc_tle. now apply Qclt_le_weak.
    + right. now apply qc_tle.
  - intros a b c H. apply qc_tle in H. apply qc_tle. apply Qcplus_le_compat; [exact H|apply Qcle_refl].
  - intros a b Ha Hb. apply qc_tle in Ha, Hb. apply qc_tle.
    pose proof (Qcmult_le_compat_r _ _ _ Ha Hb) as X. now rewrite Qcmult_0_l in X.
  - intros a b Ha Hb. apply qc_tlt in Ha, Hb. apply qc_tlt.
    pose proof (Qcmult_lt_compat_r _ _ _ Hb Ha) as X. now rewrite Qcmult_0_l in X.
  - intros a b. reflexivity.
  - intros a b. simpl. rewrite Qeq_bool_iff. split; [apply Qc_is_canon|intros ->; reflexivity].
  - reflexivity.
Qed.

#[global] Instance QcField : FieldLaws Qc.
Proof.
  constructor. intros a b Hb. simpl. rewrite Qcmult_comm. now apply Qcmult_div_r.
Qed.

(** ** A Gauss-type sampling with 4 directions: two rings (cos 1/4 and 5/8) of two opposite
    azimuths each; ring weights 1 and 2, all scaled by 3.  sum w cos = 9 = 18/2. *)
Definition w4 : list Qc := [qc 3 1; qc 3 1; qc 6 1; qc 6 1].
Definition cos4 : list Qc := [qc 1 4; qc 1 4; qc 5 8; qc 5 8].
Definition mu4 : list nat := [1; 0; 3; 2].
Definition s3 : list Qc := [qc 1 3; qc 0 1; qc 1 1].
Definition a3 : list Qc := [qc 1 5; qc 1 1; qc 0 1].
Definition ds4 : arr3 :=
  tab 4 (fun i => tab 4 (fun o => [if o =? i then qc 1 2 else qc 1 6; if o =? (i + 1) mod 4 then qc 1 1 else qc 0 1])).

Example ex_len : length w4 = 4.
Proof. reflexivity. Qed.
Example ex_H1 : gauss_H1 4 w4 cos4.
Proof. unfold gauss_H1. apply Qc_is_canon. vm_compute. reflexivity. Qed.
Example ex_H2 : mirror_H2 4 mu4 w4 cos4.
Proof.
  intros i Hi. do 4 (destruct i as [|i]; [repeat split; try (cbv; lia); reflexivity|]). lia.
Qed.
Example ex_H3 : pos_H3 4 w4 cos4.
Proof. intros o Ho. do 4 (destruct o as [|o]; [split; vm_compute; reflexivity|]). lia. Qed.
Example ex_pi : (0 < tpi)%T.
Proof. vm_compute. reflexivity. Qed.
Example ex_s : unit_interval 3 s3.
Proof. intros b Hb. do 3 (destruct b as [|b]; [split; vm_compute; reflexivity|]). lia. Qed.
Example ex_a : unit_interval 3 a3.
Proof. intros b Hb. do 3 (destruct b as [|b]; [split; vm_compute; reflexivity|]). lia. Qed.
Example ex_rows : rows_sum_one 4 4 2 ds4.
Proof.
  intros i b Hi Hb. do 4 (destruct i as [|i]; [do 2 (destruct b as [|b]; [apply Qc_is_canon; vm_compute; reflexivity|]); lia|]). lia.
Qed.

(** the theorems apply to this sampling ... *)
Example ex_energy i b : i < 4 -> b < 3 ->
  reflected 4 (from_scattering 4 3 cos4 w4 mu4 s3 a3) cos4 (norm_weights w4) i b = (1 - nthT a3 b)%T.
Proof.
  intros Hi Hb. exact (proj1 (C13_energy 4 3 w4 cos4 mu4 s3 a3 i b ex_len ex_H1 ex_H2 ex_H3 ex_pi Hi Hb)).
Qed.
Example ex_symmetric i o b : i < 4 -> o < 4 -> b < 3 ->
  get3 (from_scattering 4 3 cos4 w4 mu4 s3 a3) i o b = get3 (from_scattering 4 3 cos4 w4 mu4 s3 a3) o i b.
Proof. exact (C13_symmetric 4 3 cos4 w4 mu4 s3 a3 i o b ex_H2). Qed.
Example ex_directional i b : i < 4 -> b < 2 ->
  reflected 4 (from_directional 4 4 2 cos4 w4 ds4 (firstn 2 a3)) cos4 (norm_weights w4) i b
  = (1 - nthT (firstn 2 a3) b)%T.
Proof. exact (C13_directional 4 4 2 w4 cos4 ds4 (firstn 2 a3) i b ex_len ex_rows ex_H3 ex_pi). Qed.

(** ... and evaluating the executable model on it gives the same numbers *)
Definition B4 := from_scattering 4 3 cos4 w4 mu4 s3 a3.
Example ex_energy_computed :
  tab 4 (fun i => tab 3 (fun b => teqb (reflected 4 B4 cos4 (norm_weights w4) i b) (1 - nthT a3 b)%T))
  = tab 4 (fun _ => tab 3 (fun _ => true)).
Proof. vm_compute. reflexivity. Qed.
Example ex_symmetric_computed :
  tab 4 (fun i => tab 4 (fun o => tab 3 (fun b => teqb (get3 B4 i o b) (get3 B4 o i b))))
  = tab 4 (fun _ => tab 4 (fun _ => tab 3 (fun _ => true))).
Proof. vm_compute. reflexivity. Qed.
Example ex_nonneg_computed :
  tab 4 (fun i => tab 4 (fun o => tab 3 (fun b => tleb 0%T (get3 B4 i o b))))
  = tab 4 (fun _ => tab 4 (fun _ => tab 3 (fun _ => true))).
Proof. vm_compute. reflexivity. Qed.
(** the table is not trivial: band 0 has a specular entry different from the diffuse level *)
Example ex_nontrivial : teqb (get3 B4 0 1 0) (get3 B4 0 0 0) = false /\ tltb 0%T (get3 B4 0 0 0) = true.
Proof. vm_compute. split; reflexivity. Qed.
(** rescaled weights (factor 1/3) give the same table *)
Example ex_scale_computed :
  tab 4 (fun i => tab 4 (fun o => tab 3 (fun b =>
    teqb (get3 (from_scattering 4 3 cos4 (map (tmul (qc 1 3)) w4) mu4 s3 a3) i o b) (get3 B4 i o b))))
  = tab 4 (fun _ => tab 4 (fun _ => tab 3 (fun _ => true))).
Proof. vm_compute. reflexivity. Qed.
