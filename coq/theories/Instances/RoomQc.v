(** * Non-vacuity of the room-level theorems (C09_room_reciprocal, C11_room_receiver): a concrete
    room over the rationals meets every hypothesis, and both sides are computed.

    The scalar instance is "fixed-point arithmetic on Qc": exact ring / field operations, honest
    floor and ceiling, and deterministic rational approximations of sqrt (9 decimals), acos and
    exp (no law about them is used by the theorems instantiated here; the ordered corollary
    needs 0 <= acos <= pi, which the clamped approximation satisfies).

    The room: a 3 x 2 floor (z = 0) and ceiling (z = 2) facing each other, and a 2 x 2 wall at
    x = 5 facing AWAY from them, one patch each, two incoming BRDF samples, one outgoing slot,
    two bands with different per-wall reflectances, air attenuation in band 1.  Both points see
    the floor and the ceiling patch and do NOT see the third patch (so the visible-patch form
    of the hypotheses is exercised: the all-patches form of [C09_model] fails here). *)
From Coq Require Import List Arith Bool ZArith QArith Qcanon Qround Lia.
Import ListNotations.
From SV Require Import Base.Ops Base.Arr Base.Sums Model.Vec3 Model.Exchange Model.Scene Model.Frame
  Model.Tiling Model.Visibility Model.PtSolution Model.Full
  Proofs.SceneRefine Proofs.ReciprocityModel Proofs.ReciprocityVis
  Proofs.FullReceiver Proofs.FullReciprocity.
Local Open Scope Qc_scope.

Definition qleb (a b : Qc) : bool := Qle_bool a b.
Definition qabs (a : Qc) : Qc := if qleb 0 a then a else - a.
Definition qgrid : Z := 1000000000.
(** floor(sqrt(x) * 1e9) / 1e9 *)
Definition qsqrt (x : Qc) : Qc :=
  Q2Qc (Z.sqrt ((Qnum x * (qgrid * qgrid)) / Zpos (Qden x)) # Z.to_pos qgrid).
Definition qround (x : Qc) : Qc := Q2Qc (Qfloor (x * Q2Qc (qgrid # 1)) # Z.to_pos qgrid).
Definition qhalf : Qc := Q2Qc (1 # 2).
Definition qpi : Qc := Q2Qc (355 # 113).
(** pi/2 - x - x^3/6 on the 1e-9 grid, clamped to [0, pi] *)
Definition qacos (x : Qc) : Qc :=
  let x' := qround x in
  let y := qround (qpi * qhalf - x' - (x' * x' * x') * Q2Qc (1 # 6)) in
  if qleb y 0 then 0 else if qleb qpi y then qpi else y.

Global Instance QfOps : Ops Qc := {|
  tzero := 0; tone := 1; tadd := Qcplus; tmul := Qcmult; tsub := Qcminus; topp := Qcopp; tdiv := Qcdiv;
  tleb := qleb; tltb := fun a b => negb (qleb b a);
  teqb := fun a b => if Qc_eq_dec a b then true else false;
  tofnat := fun n => Q2Qc (inject_Z (Z.of_nat n));
  ttrunc := fun x => Z.to_nat (Qfloor x); tceil := fun x => Z.to_nat (Qceiling x);
  tsqrt := qsqrt; texp := fun x => 1 + x + x * x * qhalf; tln := fun x => x - 1;
  tacos := qacos; tatan := fun x => x;
  tpi := qpi;
  tabs := qabs |}.

Global Instance QfRing : RingLaws Qc := {| ring_th := Qcrt |}.
Global Instance QfField : FieldLaws Qc.
Proof.
  constructor. intros a b Hb. simpl. unfold Qcdiv. rewrite <- Qcmult_assoc, (Qcmult_comm (/ b)).
  rewrite Qcmult_inv_r by exact Hb. apply Qcmult_1_r.
Qed.
Lemma qf_teqb_sound (x y : Qc) : teqb x y = true -> x = y.
Proof. simpl. destruct (Qc_eq_dec x y); [trivial|discriminate]. Qed.

(** ** the room *)
Definition q (n d : Z) : Qc := Q2Qc (n # Z.to_pos d).
Definition v (x y z : Z) : @vec Qc := (q x 1, q y 1, q z 1).
Definition vq (x y z : Qc) : @vec Qc := (x, y, z).

Definition wallF : @quad Qc := mkQuad (v 0 0 0) (v 3 0 0) (v 3 2 0) (v 0 2 0).
Definition wallC : @quad Qc := mkQuad (v 0 0 2) (v 0 2 2) (v 3 2 2) (v 3 0 2).
Definition wallX : @quad Qc := mkQuad (v 5 0 0) (v 5 2 0) (v 5 2 2) (v 5 0 2).
(** pi * BRDF tables [incoming sample][outgoing slot][band], constant per wall and band *)
Definition tblF : list (list (list Qc)) := [[[q 1 2; q 1 4]]; [[q 1 2; q 1 4]]].
Definition tblC : list (list (list Qc)) := [[[q 3 4; q 1 3]]; [[q 3 4; q 1 3]]].
Definition tblX : list (list (list Qc)) := [[[q 1 5; q 1 5]]; [[q 1 5; q 1 5]]].

Definition rmQ : @room Qc := {|
  rm_walls := [wallF; wallC; wallX];
  rm_normals := [v 0 0 1; v 0 0 (-1); v 1 0 0];
  rm_ups := [v 1 0 0; v 1 0 0; v 0 1 0];
  rm_patch_size := q 2 1;
  rm_ref_in := [v 0 0 1; vq (q 3 5) 0 (q 4 5)];
  rm_ref_out := [v 0 0 1];
  rm_tables := [tblF; tblC; tblX];
  rm_tidx := [0; 1; 2]%nat;
  rm_att := [0; q 1 100];
  rm_nb := 2;
  rm_thr := q 1 10000000000;
  rm_eps := q 1 1000000; rm_eta := q 1 1000000; rm_thres := q 1 1000000;
  rm_cut := 0;
  rm_thr_seg := q 1 1000000; rm_thr_dot := q 1 1000000; rm_thr_lag := q 1 1000000 |}.

(** c = 1, dt = 1/4, duration 10: 40 bins *)
Definition tmQ : @timing Qc := mkTiming 1 (q 1 4) (q 10 1).
Definition ptA : @vec Qc := vq (q 1 2) (q 3 4) (q 2 3).
Definition ptB : @vec Qc := vq (q 2 1) 1 (q 4 3).
(** reflectance of wall [w] in band [b]: what the table holds at sample 0 *)
Definition rhoQ (b w : nat) : Qc := beta (room_scene rmQ) w 0 0 b.

Lemma qf_neq (x y : Qc) : teqb x y = false -> x <> y.
Proof. simpl. destruct (Qc_eq_dec x y); [discriminate|trivial]. Qed.
Ltac qc_neq0 := apply qf_neq; vm_compute; reflexivity.

(** ** what the composed model computes for this room *)
Example rmQ_shape :
  rm_np rmQ = 3%nat /\ n_samples tmQ = 40%nat /\
  rm_visU rmQ = [[false; true; false]; [false; false; false]; [false; false; false]] /\
  room_point_vis rmQ ptA = [true; true; false] /\ room_point_vis rmQ ptB = [true; true; false].
Proof. repeat split; vm_compute; reflexivity. Qed.

(** the bins of the two roles: receiver leg (ceiling) and source leg (truncation) *)
Example rmQ_bins :
  map (room_recv_bin rmQ tmQ ptA) [0; 1]%nat = [5; 7]%nat /\ map (room_src_bin rmQ tmQ ptA) [0; 1]%nat = [4; 6]%nat /\
  map (room_recv_bin rmQ tmQ ptB) [0; 1]%nat = [6; 4]%nat /\ map (room_src_bin rmQ tmQ ptB) [0; 1]%nat = [5; 3]%nat.
Proof. repeat split; vm_compute; reflexivity. Qed.

(** ** every hypothesis of [C09_room_reciprocal] holds, in both bands *)
Lemma rmQ_one_slot : length (rm_ref_out rmQ) = 1%nat.
Proof. reflexivity. Qed.
Lemma rmQ_in_nonempty : rm_ref_in rmQ <> [].
Proof. discriminate. Qed.
Lemma rmQ_diffuse b : (b < 2)%nat -> forall w a, (w < length (rm_walls rmQ))%nat -> (a < length (rm_ref_in rmQ))%nat ->
  beta (room_scene rmQ) w a 0 b = rhoQ b w.
Proof.
  intros Hb w a Hw Ha. cbn [length rm_walls rm_ref_in rmQ] in Hw, Ha.
  destruct b as [|[|b]]; [| |lia];
    (destruct w as [|[|[|w]]]; [| | |lia]);
    (destruct a as [|[|a]]; [| |lia]); vm_compute; reflexivity.
Qed.
Lemma rmQ_area_nz i : (i < rm_np rmQ)%nat -> area (room_scene rmQ) i <> 0%T.
Proof.
  intros Hi. change (rm_np rmQ) with 3%nat in Hi.
  destruct i as [|[|[|i]]]; [| | |lia]; qc_neq0.
Qed.
Lemma rmQ_pi_nz : @tpi Qc QfOps <> 0%T.
Proof. qc_neq0. Qed.
Lemma rmQ_four_nz : @four Qc QfOps <> 0%T.
Proof. qc_neq0. Qed.
Lemma rmQ_bins_A : room_bins_linked rmQ tmQ ptA.
Proof. apply bins_check_ok. vm_compute. reflexivity. Qed.
Lemma rmQ_bins_B : room_bins_linked rmQ tmQ ptB.
Proof. apply bins_check_ok. vm_compute. reflexivity. Qed.
Lemma rmQ_fits_AB b : (b < 2)%nat -> room_recv_fits rmQ tmQ ptA ptB 2 b.
Proof.
  intros Hb. apply (fits_check_ok rmQ tmQ ptA ptB 2 b qf_teqb_sound).
  destruct b as [|[|b]]; [| |lia]; vm_compute; reflexivity.
Qed.
Lemma rmQ_fits_BA b : (b < 2)%nat -> room_recv_fits rmQ tmQ ptB ptA 2 b.
Proof.
  intros Hb. apply (fits_check_ok rmQ tmQ ptB ptA 2 b qf_teqb_sound).
  destruct b as [|[|b]]; [| |lia]; vm_compute; reflexivity.
Qed.

Example room_reciprocity_hypotheses_hold : forall b, (b < 2)%nat ->
  length (rm_ref_out rmQ) = 1%nat /\ rm_ref_in rmQ <> [] /\
  (forall w a, (w < length (rm_walls rmQ))%nat -> (a < length (rm_ref_in rmQ))%nat ->
     beta (room_scene rmQ) w a 0 b = rhoQ b w) /\
  (b < rm_nb rmQ)%nat /\
  (forall i, (i < rm_np rmQ)%nat -> area (room_scene rmQ) i <> 0%T) /\
  @tpi Qc QfOps <> 0%T /\ @four Qc QfOps <> 0%T /\
  room_bins_linked rmQ tmQ ptA /\ room_bins_linked rmQ tmQ ptB /\
  room_recv_fits rmQ tmQ ptA ptB 2 b /\ room_recv_fits rmQ tmQ ptB ptA 2 b.
Proof.
  intros b Hb.
  split; [exact rmQ_one_slot|]. split; [exact rmQ_in_nonempty|]. split; [exact (rmQ_diffuse b Hb)|].
  split; [exact Hb|]. split; [exact rmQ_area_nz|]. split; [exact rmQ_pi_nz|]. split; [exact rmQ_four_nz|].
  split; [exact rmQ_bins_A|]. split; [exact rmQ_bins_B|].
  split; [exact (rmQ_fits_AB b Hb)|exact (rmQ_fits_BA b Hb)].
Qed.

(** ... so the theorem applies: the two curves agree in both bands and all 40 bins *)
Example room_reciprocity_applies b t : (b < 2)%nat -> (t < 40)%nat ->
  get2 (room_mono rmQ tmQ ptA ptB 2 false) b t = get2 (room_mono rmQ tmQ ptB ptA 2 false) b t.
Proof.
  intros Hb Ht.
  exact (room_reciprocal rmQ tmQ b rmQ_one_slot rmQ_in_nonempty (rhoQ b) (rmQ_diffuse b Hb) Hb
           rmQ_area_nz rmQ_pi_nz rmQ_four_nz ptA ptB 2 t rmQ_bins_A rmQ_bins_B
           (rmQ_fits_AB b Hb) (rmQ_fits_BA b Hb) Ht).
Qed.

(** ... and the statement is not about empty curves: both directions are computed, they are the
    same list, with energy in the bins 10 (source -> patch -> receiver), 16 and 20 (one exchange
    between floor and ceiling), 26 (two exchanges) of band 0 *)
Example room_reciprocity_computes :
  map (map this) (room_mono rmQ tmQ ptA ptB 2 false) = map (map this) (room_mono rmQ tmQ ptB ptA 2 false) /\
  (let m := room_mono rmQ tmQ ptA ptB 2 false in
   map (fun t => negb (teqb (get2 m 0 t) 0%T)) (seq 0 40)) =
  map (fun t => existsb (Nat.eqb t) [10; 16; 20; 26]%nat) (seq 0 40).
Proof. split; vm_compute; reflexivity. Qed.

(** the scene-level hypotheses in their all-patches form ([ReciprocityModel.linked], used by
    [C09_model]) do NOT hold in this room: patch 2 is hidden from A, the model sets its
    source-leg distance to 0, and its two bins are 18 and 0 *)
Example all_patches_link_fails : ~ linked (room_scene rmQ) tmQ (room_point rmQ ptA).
Proof.
  intros H. destruct (H 2%nat) as [_ H2]; [vm_compute; lia|].
  vm_compute in H2. discriminate H2.
Qed.

(** the bin hypothesis is needed: for a point whose leg to patch 0 is exactly 5 bins long
    (distance 5/4, c dt = 1/4) ceiling and truncation bins coincide, and the two curves are
    copies of each other shifted by one bin *)
Definition ptB' : @vec Qc := vq (q 3 2) 1 (q 5 4).
Example bins_hypothesis_needed :
  room_recv_bin rmQ tmQ ptB' 0 = 5%nat /\ room_src_bin rmQ tmQ ptB' 0 = 5%nat /\
  get2 (room_mono rmQ tmQ ptA ptB' 2 false) 0 9 <> get2 (room_mono rmQ tmQ ptB' ptA 2 false) 0 9 /\
  get2 (room_mono rmQ tmQ ptA ptB' 2 false) 0 9 = get2 (room_mono rmQ tmQ ptB' ptA 2 false) 0 10.
Proof.
  split; [vm_compute; reflexivity|]. split; [vm_compute; reflexivity|]. split.
  - qc_neq0.
  - apply Qc_is_canon. vm_compute. reflexivity.
Qed.

(** ** C11 on the same room: the receiver formula evaluates, with direct sound *)
Example room_receiver_applies b t : (b < 2)%nat -> (t < 40)%nat ->
  get2 (room_mono rmQ tmQ ptA ptB 2 true) b t =
  (sumf (room_visible_patches rmQ ptB) (fun k =>
     room_recv_term rmQ tmQ ptA ptB 2 k b (rolled_bin 40 (room_recv_bin rmQ tmQ ptB k) t)) +
   (if true && (t =? room_direct_bin tmQ ptA ptB) then room_direct_val rmQ ptA ptB b else 0))%T.
Proof. intros Hb Ht. exact (room_receiver_formula rmQ tmQ ptA ptB 2 true b t Hb Ht). Qed.
Example room_receiver_data :
  room_visible_patches rmQ ptB = [0; 1]%nat /\ room_direct_bin tmQ ptA ptB = 6%nat /\
  room_direct_val rmQ ptA ptB 0 <> 0%T.
Proof. split; [vm_compute; reflexivity|]. split; [vm_compute; reflexivity|]. qc_neq0. Qed.

(** ** the ordered corollary: QfOps is an ordered field with floor / ceiling laws and 0 <= acos <= pi *)
Lemma qleb_le a b : qleb a b = true <-> a <= b.
Proof. unfold qleb. apply Qle_bool_iff. Qed.
Lemma qltb_lt a b : negb (qleb b a) = true <-> a < b.
Proof.
  rewrite negb_true_iff. split.
  - intros H. apply Qcnot_le_lt. intros Hc. apply qleb_le in Hc. congruence.
  - intros H. destruct (qleb b a) eqn:E; [|reflexivity]. apply qleb_le in E.
    exfalso. exact (Qclt_not_le _ _ H E).
Qed.

Global Instance QfOrder : OrderLaws Qc.
Proof.
  constructor; unfold tle, tlt; simpl.
  - intros a. apply qleb_le, Qcle_refl.
  - intros a b c H1 H2. apply qleb_le in H1, H2. apply qleb_le. eapply Qcle_trans; eassumption.
  - intros a b H1 H2. apply qleb_le in H1, H2. now apply Qcle_antisym.
  - intros a b. destruct (Qclt_le_dec a b) as [H|H]; [left; apply qleb_le, Qclt_le_weak, H|right; apply qleb_le, H].
  - intros a b c H. apply qleb_le in H. apply qleb_le. now apply Qcplus_le_compat; [|apply Qcle_refl].
  - intros a b H1 H2. apply qleb_le in H1, H2. apply qleb_le.
    rewrite <- (Qcmult_0_l b). now apply Qcmult_le_compat_r.
  - intros a b H1 H2. apply qltb_lt in H1, H2. apply qltb_lt.
    pose proof (Qcmult_lt_compat_r 0 a b H2 H1) as H. now rewrite Qcmult_0_l in H.
  - reflexivity.
  - intros a b. destruct (Qc_eq_dec a b); split; congruence.
  - reflexivity.
Qed.

Lemma this_ofnat n : (this (tofnat n) == inject_Z (Z.of_nat n))%Q.
Proof. unfold tofnat, QfOps. cbn [this Q2Qc]. apply Qred_correct. Qed.
Lemma qfloor_nonneg (x : Qc) : 0 <= x -> (0 <= Qfloor x)%Z.
Proof. intros H. change 0%Z with (Qfloor 0). apply Qfloor_resp_le. exact H. Qed.
Lemma qceil_nonneg (x : Qc) : 0 <= x -> (0 <= Qceiling x)%Z.
Proof. intros H. change 0%Z with (Qceiling 0). apply Qceiling_resp_le. exact H. Qed.

Global Instance QfFloor : FloorLaws Qc.
Proof.
  constructor.
  - apply Qc_is_canon. reflexivity.
  - intros n. apply Qc_is_canon. unfold tofnat, tadd, tone, QfOps, Qcplus. cbn [this Q2Qc].
    rewrite !Qred_correct. rewrite Nat2Z.inj_succ, <- Z.add_1_r, inject_Z_plus. reflexivity.
  - intros x H. apply qleb_le in H. apply qleb_le. unfold Qcle. rewrite this_ofnat. cbn [ttrunc tceil QfOps].
    rewrite Z2Nat.id by (apply qfloor_nonneg; exact H). apply Qfloor_le.
  - intros x H. apply qleb_le in H. apply qltb_lt. unfold Qclt. rewrite this_ofnat. cbn [ttrunc tceil QfOps].
    rewrite Nat2Z.inj_succ, Z2Nat.id by (apply qfloor_nonneg; exact H). rewrite <- Z.add_1_r. apply Qlt_floor.
  - intros x H. apply qleb_le in H. apply qleb_le. unfold Qcle. rewrite this_ofnat. cbn [ttrunc tceil QfOps].
    rewrite Z2Nat.id by (apply qceil_nonneg; exact H). apply Qle_ceiling.
  - intros x H. apply qltb_lt in H. apply qltb_lt. unfold Qclt. rewrite this_ofnat. cbn [ttrunc tceil QfOps].
    rewrite Z2Nat.id by (apply qceil_nonneg, Qclt_le_weak; exact H).
    unfold tadd, tone, QfOps, Qcplus. cbn [this Q2Qc]. rewrite !Qred_correct.
    replace (Qceiling x) with ((Qceiling x - 1) + 1)%Z by ring. rewrite inject_Z_plus.
    apply Qplus_lt_l. apply Qceiling_lt.
Qed.

Global Instance QfAcos : AcosLaws Qc.
Proof.
  constructor; unfold tle, tlt; simpl.
  - intros x. unfold qacos. cbv zeta.
    destruct (qleb _ 0) eqn:E1; [reflexivity|]. destruct (qleb qpi _) eqn:E2; [reflexivity|].
    apply qleb_le, Qclt_le_weak, qltb_lt. now rewrite E1.
  - intros x. unfold qacos. cbv zeta.
    destruct (qleb _ 0) eqn:E1; [reflexivity|]. destruct (qleb qpi _) eqn:E2; [reflexivity|].
    apply qleb_le, Qclt_le_weak, qltb_lt. now rewrite E2.
  - reflexivity.
Qed.

(** no scaled leg length to a visible patch is an integer: decided by running the model *)
Definition legs_check (rm : @room Qc) (tm : @timing Qc) (pos : @vec Qc) : bool :=
  forallb (fun k => if nthb (room_point_vis rm pos) k
                    then let x := ((vdist pos (nthv (rm_centers rm) k) / t_c tm) / t_dt tm)%T in
                         tleb 0%T x && negb (teqb x (tofnat (ttrunc x)))
                    else true) (seq 0 (rm_np rm)).
Lemma legs_check_ok rm tm pos : legs_check rm tm pos = true -> legs_off_integers rm tm pos.
Proof.
  intros H k Hk Hv. unfold legs_check in H. rewrite forallb_forall in H.
  assert (Hin : In k (seq 0 (rm_np rm))) by (apply in_seq; lia).
  specialize (H k Hin). cbv beta in H. rewrite Hv in H. cbv zeta in H. apply andb_true_iff in H.
  destruct H as [H0 Hne]. cbv zeta. split; [exact H0|].
  apply qf_neq. now apply negb_true_iff.
Qed.

Example room_reciprocity_ordered_applies b t : (b < 2)%nat -> (t < 40)%nat ->
  legs_off_integers rmQ tmQ ptA /\ legs_off_integers rmQ tmQ ptB /\
  get2 (room_mono rmQ tmQ ptA ptB 2 false) b t = get2 (room_mono rmQ tmQ ptB ptA 2 false) b t.
Proof.
  intros Hb Ht.
  assert (HA : legs_off_integers rmQ tmQ ptA) by (apply legs_check_ok; vm_compute; reflexivity).
  assert (HB : legs_off_integers rmQ tmQ ptB) by (apply legs_check_ok; vm_compute; reflexivity).
  split; [exact HA|]. split; [exact HB|].
  exact (room_reciprocal_ordered rmQ tmQ b (rhoQ b) ptA ptB 2 t rmQ_one_slot rmQ_in_nonempty
           (rmQ_diffuse b Hb) Hb rmQ_area_nz HA HB (rmQ_fits_AB b Hb) (rmQ_fits_BA b Hb) Ht).
Qed.

Print Assumptions room_reciprocity_hypotheses_hold.
Print Assumptions room_reciprocity_applies.
Print Assumptions room_reciprocity_ordered_applies.
