(** * Non-vacuity for C17: concrete integer data meet the hypotheses of the renumbering theorem
    with a non-identity [sigma] and a genuinely re-ordered pair list; a signed axis permutation is
    orthogonal; a concrete scene is [translated]. *)
From Coq Require Import ZArith List Arith Bool Lia Permutation.
Import ListNotations.
From SV Require Import Base.Ops Base.Arr Base.Sums Model.Vec3 Model.Exchange Model.Scene
  Spec.ExchangeSpec Spec.Isometry Proofs.PlacementTranslate Proofs.PlacementRelabel
  Proofs.PlacementKernels Instances.InstZ.

(** three patches in a row 0 - 1 - 2; the new numbering is the cyclic shift 0->1, 1->2, 2->0 *)
Definition sg (x : nat) : nat := match x with 0 => 1 | 1 => 2 | 2 => 0 | n => n end.
Definition sginv (x : nat) : nat := match x with 1 => 0 | 2 => 1 | 0 => 2 | n => n end.
Definition Pold : list (nat * nat) := [(0, 1); (1, 0); (1, 2); (2, 1)].
(** the image list is [(1,2);(2,1);(2,0);(0,2)]; the new scene lists it in another order *)
Definition Pnew : list (nat * nat) := [(2, 0); (0, 2); (1, 2); (2, 1)].

Definition dlt (i j : nat) : nat := i + 2 * j + 1.
Definition cf (i j d b : nat) : Z := Z.of_nat ((i + 1) * (j + 2) + d + 3 * b).
Definition ot (i j : nat) : nat := (i + j) mod 2.
Definition dl0 (j : nat) : nat := 2 * j.
Definition en0 (j d b : nat) : Z := Z.of_nat (5 + j + 7 * d + b).
(** the transported data *)
Definition dlt' (a b : nat) : nat := dlt (sginv a) (sginv b).
Definition cf' (a b d bb : nat) : Z := cf (sginv a) (sginv b) d bb.
Definition ot' (a b : nat) : nat := ot (sginv a) (sginv b).
Definition dl0' (a : nat) : nat := dl0 (sginv a).
Definition en0' (a d b : nat) : Z := en0 (sginv a) d b.

Example relabel_perm : Permutation Pnew (map (sig2 sg) Pold).
Proof. exact (Permutation_app_comm [(2, 0); (0, 2)] [(1, 2); (2, 1)]). Qed.
Example relabel_not_identity : sg 0 <> 0 /\ Pnew <> map (sig2 sg) Pold /\ Pnew <> Pold.
Proof. repeat split; discriminate. Qed.
Example relabel_dom : forall i j, In (i, j) Pold -> i < 3 /\ j < 3.
Proof. intros i j H. simpl in H. repeat (destruct H as [H|H]; [injection H as <- <-; lia|]). destruct H. Qed.
Example relabel_inj : forall x y, x < 3 -> y < 3 -> sg x = sg y -> x = y.
Proof. intros x y Hx Hy. destruct x as [|[|[|x]]], y as [|[|[|y]]]; simpl; lia. Qed.

(** all hypotheses of [E_relabel] hold, so its conclusion does -- and the common value is not
    trivially zero *)
Example relabel_applies : forall k j d b t, j < 3 ->
  E Pnew dlt' cf' ot' dl0' en0' k (sg j) d b t = E Pold dlt cf ot dl0 en0 k j d b t.
Proof.
  intros k j d b t Hj.
  apply (E_relabel sg Pold Pnew (fun x => x < 3) relabel_dom relabel_inj relabel_perm); try assumption.
  - intros i j' H. simpl in H. repeat (destruct H as [H|H]; [injection H as <- <-; reflexivity|]). destruct H.
  - intros i j' H. simpl in H. repeat (destruct H as [H|H]; [injection H as <- <-; reflexivity|]). destruct H.
  - intros i j' d' b' H. simpl in H. repeat (destruct H as [H|H]; [injection H as <- <-; reflexivity|]). destruct H.
  - intros [|[|[|x]]] H; try reflexivity; lia.
  - intros [|[|[|x]]] d' b' H; try reflexivity; lia.
Qed.
Example relabel_value :
  E Pold dlt cf ot dl0 en0 2 1 0 0 7 = 195%Z /\ E Pnew dlt' cf' ot' dl0' en0' 2 (sg 1) 0 0 7 = 195%Z.
Proof. split; vm_compute; reflexivity. Qed.

(** one of the 48 placement matrices: x -> -y, y -> z, z -> x *)
Definition Mperm : @mat Z := ((0, -1, 0), (0, 0, 1), (1, 0, 0))%Z.
Example Mperm_orthogonal : orthogonal Mperm.
Proof. repeat split. Qed.
Example Mperm_moves : place Mperm (10, 20, 30)%Z (1, 2, 3)%Z = (8, 23, 31)%Z.
Proof. reflexivity. Qed.
Example Mperm_dist2 :
  vdist2 (place Mperm (10, 20, 30)%Z (1, 2, 3)%Z) (place Mperm (10, 20, 30)%Z (4, 6, 3)%Z) = 25%Z /\
  vdist2 (1, 2, 3)%Z (4, 6, 3)%Z = 25%Z.
Proof. split; reflexivity. Qed.

(** a two-patch scene, shifted *)
Definition scZ : @scene Z :=
  mkScene 2 1 1 [(0, 0, 0)%Z; (3, 4, 0)%Z] [2%Z; 2%Z] [0; 1] [[false; true]; [false; false]]
          [[0%Z; 1%Z]; [0%Z; 0%Z]] [0%Z] [[[[1%Z]]]] [0; 0] [[(0, 0, 1)%Z]; [(0, 0, 1)%Z]]
          [[(0, 0, 1)%Z]; [(0, 0, 1)%Z]].
Example scZ_translated : translated (7, -2, 5)%Z scZ (translate_scene (7, -2, 5)%Z scZ).
Proof. apply translate_scene_translated. simpl. lia. Qed.
Example scZ_moved : s_centers (translate_scene (7, -2, 5)%Z scZ) = [(7, -2, 5)%Z; (10, 2, 5)%Z].
Proof. reflexivity. Qed.
Example scZ_dist : dist (translate_scene (7, -2, 5)%Z scZ) 0 1 = 5%Z /\ dist scZ 0 1 = 5%Z.
Proof. split; reflexivity. Qed.
