(** * Non-vacuity for C04: the real numbers satisfy every law class the C04 theorems assume,
    and concrete inputs satisfy their hypotheses.

    This is the only place where the law classes are instantiated.  The instance lives over
    Coq's classical real numbers, so the [Example]s below depend on the standard axioms of
    the [Reals] library (and on nothing else) -- see the [Print Assumptions] at the end. *)
From Coq Require Import Reals Lra Lia Psatz List Arith Bool RealField.
Import ListNotations.
From SV Require Import Base.Ops Base.OpsGeom Base.Arr Model.Vec3 Model.Exchange Model.Scene
  Model.PtSolution Spec.Isometry Properties.C04.

Local Open Scope R_scope.

Definition Rleb (a b : R) : bool := if Rle_dec a b then true else false.
Definition Rltb (a b : R) : bool := if Rlt_dec a b then true else false.
Definition Reqb (a b : R) : bool := if Req_EM_T a b then true else false.

Global Instance ROps : Ops R :=
  mkOps R 0 1 Rplus Rmult Rminus Ropp Rdiv Rleb Rltb Reqb INR
        (fun x => Z.to_nat (Int_part x)) (fun x => Z.to_nat (up x))
        sqrt exp ln acos atan PI Rabs.

Lemma Rleb_iff a b : Rleb a b = true <-> a <= b.
Proof. unfold Rleb. destruct (Rle_dec a b); split; intros; try assumption; try reflexivity; try discriminate; contradiction. Qed.
Lemma Rltb_iff a b : Rltb a b = true <-> a < b.
Proof. unfold Rltb. destruct (Rlt_dec a b); split; intros; try assumption; try reflexivity; try discriminate; contradiction. Qed.
Lemma tle_R a b : tle a b <-> a <= b.
Proof. apply Rleb_iff. Qed.
Lemma tlt_R a b : tlt a b <-> a < b.
Proof. apply Rltb_iff. Qed.

Global Instance RRing : RingLaws R := {| ring_th := RTheory |}.

Global Instance ROrder : OrderLaws R.
Proof.
  constructor; intros; repeat rewrite tle_R in *; repeat rewrite tlt_R in *; simpl in *.
  - lra.
  - lra.
  - lra.
  - repeat rewrite tle_R. lra.
  - lra.
  - now apply Rmult_le_pos.
  - now apply Rmult_lt_0_compat.
  - unfold Rltb, Rleb. destruct (Rlt_dec a b), (Rle_dec b a); simpl; try reflexivity; exfalso; lra.
  - unfold Reqb. destruct (Req_EM_T a b); split; intros; try assumption; try reflexivity; try discriminate; contradiction.
  - lra.
Qed.

Global Instance RField : FieldLaws R.
Proof. constructor. intros a b Hb. simpl in *. field. exact Hb. Qed.

Global Instance RNat : NatLaws R.
Proof. constructor; [reflexivity|]. intros n. change (INR (S n) = INR n + 1). apply S_INR. Qed.

Global Instance RSqrt : SqrtLaws R.
Proof.
  constructor; intros; repeat rewrite tle_R in *; simpl in *.
  - apply sqrt_pos.
  - now apply sqrt_sqrt.
  - apply Rabs_pos.
  - apply Rabs_right. lra.
  - now apply Rabs_left1.
Qed.

Global Instance RAcos : AcosLaws R.
Proof.
  constructor; intros; repeat rewrite tle_R; repeat rewrite tlt_R; simpl.
  - apply acos_bound.
  - apply acos_bound.
  - apply PI_RGT_0.
Qed.

Global Instance RAcosStrict : AcosStrictLaws R.
Proof.
  constructor. intros x. rewrite !tlt_R. simpl. intros Hx.
  destruct (Rlt_dec x 1) as [H1|H1].
  - apply acos_bound_lt. lra.
  - unfold acos. destruct (Rle_dec x (-1)); [lra|]. destruct (Rle_dec 1 x); [apply PI_RGT_0|lra].
Qed.

Global Instance RDiv : DivLaws R.
Proof. constructor. intros a b. simpl. unfold Rdiv. ring. Qed.

(** ** the C04 theorems at the real instance *)
Example C04_upper_R (thr : R) (pt : @vec R) (pts : list (@vec R)) :
  (3 <= length pts)%nat -> pt_solution thr false pt pts <= 1 / 2.
Proof.
  intros H. pose proof (C04_upper thr pt pts H) as U. apply (proj1 (tle_R _ _)) in U.
  simpl in U. replace (1 / 2) with (1 / (1 + 1)) by lra. exact U.
Qed.

(** ** concrete inputs meeting the hypotheses *)

(** a rotation by the 3-4-5 angle about z composed with the reflection z -> -z: [M^T M = I], det = -1 *)
Definition M345 : @mat R := ((3/5, -4/5, 0), (4/5, 3/5, 0), (0, 0, -1)).
Example M345_orthogonal : orthogonal M345.
Proof.
  unfold orthogonal, M345, mcol1, mcol2, mcol3, mrow1, mrow2, mrow3, vdot, mkv, vx, vy, vz. simpl.
  repeat split; field.
Qed.

(** the octant triangle seen from the origin, scaled by 2: hypotheses of C04_similarity *)
Definition origin : @vec R := (0, 0, 0).
Definition octant : list (@vec R) := [(1, 0, 0); (0, 1, 0); (0, 0, 1)].

Example octant_vertices_off_point : forall p, In p octant -> tlt 0 (vnorm2 (vsub p origin)).
Proof.
  intros p Hp. apply (proj2 (tlt_R _ _)). unfold octant, origin in *. simpl in Hp.
  destruct Hp as [<-|[<-|[<-|[]]]];
    cbv [vnorm2 vdot vsub mkv vx vy vz fst snd tzero tone tmul tadd tsub ROps]. all: lra.
Qed.

Example C04_similarity_octant (thr : R) (t : @vec R) :
  pt_solution thr false (vadd origin t) (map (fun p => vadd p t) octant) = pt_solution thr false origin octant /\
  pt_solution thr false (mapply M345 origin) (map (mapply M345) octant) = pt_solution thr false origin octant /\
  pt_solution thr false (vscale 2 origin) (map (vscale 2) octant) = pt_solution thr false origin octant.
Proof.
  apply C04_similarity.
  - exact M345_orthogonal.
  - apply (proj2 (tlt_R _ _)). change (0 < 2). lra.
  - exact octant_vertices_off_point.
Qed.

Example C04_upper_octant (thr : R) : pt_solution thr false origin octant <= 1 / 2.
Proof. apply C04_upper_R. simpl. auto with arith. Qed.

(** the non-degeneracy hypothesis of C04_upper_strict holds for the octant triangle (at vertex 0 the two
    tangent vectors are orthogonal), for every threshold [thr >= 0] *)
Ltac r_unfold := cbv [on_sphere to_sphere sphere_tangent tangent_raw vnormalize vnorm vnorm2 vdivs vdot vsub vscale
                      mkv vx vy vz fst snd map nthv nth length prev_idx next_idx Nat.eqb Nat.sub
                      tzero tone tmul tadd tsub tdiv tsqrt tabs tltb ROps origin octant].

Lemma sqrt_unit_a : sqrt ((1 - 0) * (1 - 0) + (0 - 0) * (0 - 0) + (0 - 0) * (0 - 0)) = 1.
Proof. replace ((1 - 0) * (1 - 0) + (0 - 0) * (0 - 0) + (0 - 0) * (0 - 0)) with 1 by ring. apply sqrt_1. Qed.
Lemma sqrt_unit_b : sqrt ((0 - 0) * (0 - 0) + (1 - 0) * (1 - 0) + (0 - 0) * (0 - 0)) = 1.
Proof. replace ((0 - 0) * (0 - 0) + (1 - 0) * (1 - 0) + (0 - 0) * (0 - 0)) with 1 by ring. apply sqrt_1. Qed.
Lemma sqrt_unit_c : sqrt ((0 - 0) * (0 - 0) + (0 - 0) * (0 - 0) + (1 - 0) * (1 - 0)) = 1.
Proof. replace ((0 - 0) * (0 - 0) + (0 - 0) * (0 - 0) + (1 - 0) * (1 - 0)) with 1 by ring. apply sqrt_1. Qed.

Lemma octant_on_sphere : on_sphere origin octant = octant.
Proof.
  r_unfold. rewrite sqrt_unit_a, sqrt_unit_b, sqrt_unit_c.
  repeat (f_equal; try lra).
Qed.

Lemma sqrt_unit_d : sqrt (0 * 0 + 1 * 1 + 0 * 0) = 1.
Proof. replace (0 * 0 + 1 * 1 + 0 * 0) with 1 by ring. apply sqrt_1. Qed.
Lemma sqrt_unit_e : sqrt (0 * 0 + 0 * 0 + 1 * 1) = 1.
Proof. replace (0 * 0 + 0 * 0 + 1 * 1) with 1 by ring. apply sqrt_1. Qed.

Example octant_nondegenerate (thr : R) : 0 <= thr ->
  exists i, (i < length octant)%nat /\
    let S := on_sphere origin octant in let n := length S in
    tlt (- (1))%T (vdot (sphere_tangent thr (nthv S i) (nthv S (prev_idx n i)))
                         (sphere_tangent thr (nthv S i) (nthv S (next_idx n i)))).
Proof.
  intros Hthr. exists 0%nat. split; [simpl; auto with arith|].
  rewrite octant_on_sphere. apply (proj2 (tlt_R _ _)).
  r_unfold.
  replace (1 * 0 + 0 * 0 + 0 * 1) with 0 by ring.
  replace (1 * 0 + 0 * 1 + 0 * 0) with 0 by ring.
  rewrite Rabs_R0. unfold Rltb. destruct (Rlt_dec thr 0) as [C|_]; [exfalso; lra|].
  rewrite sqrt_unit_d, sqrt_unit_e. cbv [topp ROps]. lra.
Qed.

Example C04_upper_strict_octant (thr : R) : 0 <= thr -> pt_solution thr false origin octant < 1 / 2.
Proof.
  intros Hthr.
  pose proof (C04_upper_strict thr origin octant (le_n 3) (octant_nondegenerate thr Hthr)) as U.
  apply (proj1 (tlt_R _ _)) in U. simpl in U. replace (1 / 2) with (1 / (1 + 1)) by lra. exact U.
Qed.

Print Assumptions C04_similarity_octant.
Print Assumptions C04_upper_octant.
Print Assumptions C04_upper_strict_octant.
