(** * Non-vacuity of the pipeline theorems that assume the exp, sqrt or floor LAWS
    (C02_model_not_before_direct, C03_nonneg_data, C10_zero, C10_monotone_m, C10_monotone_d).

    The rationals have no lawful exp or sqrt, so these theorems are instantiated over Coq's
    classical reals: [Instances/InstR.v] + [InstRExp.v] (ring, order, field, sqrt, exp) and the
    dictionary of [Instances/ShoeboxR.v] (ring, order, field, sqrt AND honest floor / ceiling at
    once).  The examples therefore depend on the standard axioms of the [Reals] library and on
    nothing else; no property theorem imports this file.  Companion of [VACUITY_AUDIT.md]. *)
From Coq Require Import Reals Lra Lia List Arith Bool.
Import ListNotations.
From SV Require Import Base.Ops Base.Arr Model.Vec3 Model.Exchange Model.Scene
  Proofs.SceneRefine Proofs.ReceiverProofs Proofs.SolverProofs Proofs.BandAttenProofs
  Instances.InstR Instances.InstRExp Instances.ShoeboxR
  Properties.C02 Properties.C03 Properties.C10.
Local Open Scope R_scope.

(** two patches that see each other, 5 m apart, two walls reflecting 1/2 and 1/3; band 0 without
    and band 1 with air attenuation *)
Definition scRm (m : R) : @scene R := {|
  s_np := 2; s_nd := 1; s_nb := 2;
  s_centers := [(0, 0, 0); (3, 4, 0)];
  s_areas := [1; 2];
  s_wall := [0; 1]%nat;
  s_visU := [[false; true]; [false; false]];
  s_F := [[0; 1 / 10]; [0; 0]];
  s_att := [0; m];
  s_tables := [[[[1 / 2; 1 / 2]]]; [[[1 / 3; 1 / 3]]]];
  s_tidx := [0; 1]%nat;
  s_in := [[(0, 0, 1)]; [(0, 0, 1)]];
  s_out := [[(0, 0, 1)]; [(0, 0, 1)]] |}.
Definition scR : @scene R := scRm (1 / 100).
Definition srcR : @source R := mkSource (0, 0, 5) [true; true] [1 / 10; 1 / 20] None.

(** ** C03_nonneg_data *)
Lemma scR_ff_nonneg : forall i j, (0 <= ff_full scR i j)%T.
Proof.
  intros i j. apply tle_R. unfold ff_full, get2, area, nthT, nthl. cbn [s_F s_areas scR scRm].
  destruct i as [|[|[|i]]]; destruct j as [|[|[|j]]]; cbn; unfold Rdiv. all: try lra.
  destruct (match j with 0%nat => false | S m' => (i <=? m')%nat end); lra.
Qed.
Lemma scR_beta_nonneg : forall w a d b, (0 <= beta scR w a d b)%T.
Proof.
  intros w a d b. apply tle_R. unfold beta, nthn, nthT, nthl. cbn [s_tables s_tidx scR scRm].
  destruct w as [|[|[|w]]]; destruct a as [|[|a]]; destruct d as [|[|d]]; destruct b as [|[|[|b]]];
    cbn; lra.
Qed.
Lemma srcR_share_nonneg : forall k, (0 <= nthT (src_share srcR) k)%T.
Proof.
  intros k. apply tle_R. unfold nthT. cbn [src_share srcR].
  destruct k as [|[|[|k]]]; cbn; lra.
Qed.
Example C03_nonneg_data_witness :
  (0 <= tilde_entry scR 0 1 0 1)%T /\ (0 <= e0dir_entry scR srcR 0 0 1)%T.
Proof.
  exact (C03_nonneg_data scR srcR 0 1 0 1 scR_ff_nonneg scR_beta_nonneg srcR_share_nonneg eq_refl).
Qed.
(** ... and the factor of the leg 0 -> 1 is strictly positive: 1/10 exp(-5/100) 1/3 *)
Example scR_tilde_positive : 0 < tilde_entry scR 0 1 0 1.
Proof.
  unfold tilde_entry, vis_sym, get2b, nthb, nthl. cbn [s_visU scR scRm Nat.ltb Nat.leb nth].
  unfold ff_full, get2, nthT, nthl, beta, nthn, wall, in_index, in_dirs, nearest, argmin, attn.
  cbn [s_F s_tables s_tidx s_wall s_in scR scRm Nat.ltb Nat.leb nth map argmin_from].
  cbn [tmul tdiv tone ROps].
  unfold wall, nthn, nthT, nthl. cbn [s_wall scR scRm nth map argmin_from].
  apply Rmult_lt_0_compat; [apply Rmult_lt_0_compat; [lra|apply exp_pos]|lra].
Qed.

(** ** C10_zero / C10_monotone_m / C10_monotone_d *)
Example C10_zero_witness d : attn scR 0 d = 1%T.
Proof. apply C10_zero. reflexivity. Qed.
Example C10_monotone_m_witness : (attn (scRm (2 / 100)) 1 5 <= attn scR 1 5)%T.
Proof.
  apply C10_monotone_m; apply tle_R; unfold att, nthT; cbn [s_att scR scRm nth tzero ROps]; lra.
Qed.
Example C10_monotone_d_witness : (attn scR 1 7 <= attn scR 1 5)%T.
Proof.
  apply C10_monotone_d; apply tle_R; unfold att, nthT; cbn [s_att scR scRm nth tzero ROps]; lra.
Qed.

(** ** C02_model_not_before_direct: needs order, field, sqrt AND floor laws at once -- the
    dictionary [RFOps] of ShoeboxR (floor = Int_part, ceiling = - Int_part (- x)) *)
Definition scF : @scene R := scR.
Definition tmF : @timing R := mkTiming 343 (1 / 1000) 1.
Definition rcvF : @receiver R := mkReceiver (1, 1, 1) [true; true] [1 / 7; 1 / 8].
Example C02_model_not_before_direct_witness :
  (@direct_bin R RFOps tmF srcR rcvF <=
   @scene_delta0 R RFOps scF tmF srcR 1 + @r_delay R RFOps scF tmF rcvF 1)%nat.
Proof.
  apply (@C02_model_not_before_direct R RFOps RFRing RFOrder RFField RFSqrt RFFloor scF tmF srcR rcvF 1).
  - apply tlt_RF. cbn. lra.
  - apply tlt_RF. cbn. lra.
  - reflexivity.
Qed.

Print Assumptions C03_nonneg_data_witness.
Print Assumptions C02_model_not_before_direct_witness.
