(** * The margin of Proofs/PipRectSurface.v is sharp, and the right edge is excluded: exact
    computations over [Qc] ([tsqrt] = floor square root of numerator and denominator, exact on
    the squares of rationals that occur here: every norm is taken of an axis-parallel vector).

    Unit-square floor, epsilon = eta = 1e-6:
    - the point (1/2, 1 + eta/2, 0) lies OUTSIDE the closed rectangle, at distance exactly eta/2
      from the edge line y = 1, and is reported inside: a margin below eta/2 is not enough;
    - the point (1, 1/2, 0) on the edge x = 1 belongs to the closed rectangle and is reported
      outside, while (0, 1/2, 0) on the opposite edge is reported inside: on the edge lines
      orthogonal to the ray the comparison [b.x > pt.x] is strict, so the test is half-open
      there.  (/repo behaves the same.) *)
From Coq Require Import List Arith Bool Lia ZArith QArith Qcanon.
Import ListNotations.
From SV Require Import Base.Ops Base.Arr Model.Vec3 Model.Visibility Spec.VisibilitySpec
  Proofs.PipRect Proofs.PipRectSurface Instances.VisibilityQc.
Close Scope Qc_scope.
Close Scope Q_scope.

Definition unit_floor : @rect Qc := mkrect AxZ true (vqc 0 1) (vqc 0 1) (vqc 1 1) (vqc 0 1) (vqc 1 1) false.
(** (1/2, 1 + eta/2, 0) *)
Definition just_outside : @vec Qc := (vqc 1 2, vqc 2000001 2000000, vqc 0 1).

Lemma margin_sharp_witness :
  pip e6 e6 (rect_surface unit_floor) just_outside = true /\
  ~ in_rect_closed unit_floor just_outside /\
  on_plane (rect_surface unit_floor) just_outside /\
  (** exactly eta/2 from the line v = 1 (and 1/2 from the lines u = 0, u = 1) *)
  (let d := tabs (vcoord AxZ just_outside - r_vb unit_floor)%T in (d + d <= e6)%T /\ (e6 <= d + d)%T).
Proof.
  split; [vm_compute; reflexivity|]. split; [|split].
  - intros [_ [[_ H]|[_ H]]]; vm_compute in H; discriminate.
  - unfold on_plane. apply Qc_is_canon. vm_compute. reflexivity.
  - split; vm_compute; reflexivity.
Qed.

Lemma right_edge_excluded_witness :
  in_rect_closed unit_floor (vqc 1 1, vqc 1 2, vqc 0 1) /\
  pip e6 e6 (rect_surface unit_floor) (vqc 1 1, vqc 1 2, vqc 0 1) = false /\
  in_rect_closed unit_floor (vqc 0 1, vqc 1 2, vqc 0 1) /\
  pip e6 e6 (rect_surface unit_floor) (vqc 0 1, vqc 1 2, vqc 0 1) = true.
Proof.
  repeat split; try (vm_compute; reflexivity); left; split; vm_compute; reflexivity.
Qed.

(** an interior point and an exterior one, all six orientations and both vertex-order families *)
Example pip_rect_all_orientations :
  forallb (fun ax => forallb (fun up => forallb (fun vf =>
    let r := mkrect ax up (vqc 3 2) (vqc 2 1) (vqc (-1) 1) (vqc 0 1) (vqc 5 1) vf in
    pip e6 e6 (rect_surface r) (emb ax (vqc 3 2) (vqc 1 1) (vqc 4 1))
    && negb (pip e6 e6 (rect_surface r) (emb ax (vqc 3 2) (vqc 3 1) (vqc 4 1))))
    [true; false]) [true; false]) [AxX; AxY; AxZ] = true.
Proof. vm_compute. reflexivity. Qed.
