(** * C07 on the canonical rationals [Qc] (Leibniz equality): non-vacuity of the hypotheses of
    C07_symmetric / C07_segment_logic, and the witness that refutes an unconditional
    [pip_correct].

    [tsqrt] is the floor square root of numerator and denominator -- exact on squares of
    rationals.  Every square root taken in the examples below is of such a square (side
    lengths 5, 5, 6 of the triangle (0,0) (4,3) (0,6) and distances 10/3, 5/3, 20/3, 3, 0), so
    the computations are the real-number ones. *)
From Coq Require Import List Arith Bool Lia ZArith QArith Qcanon.
Import ListNotations.
From SV Require Import Base.Ops Base.Arr Model.Vec3 Model.Visibility Spec.VisibilitySpec
  Proofs.VisibilitySym Proofs.VisibilitySegment.
Close Scope Qc_scope.
Close Scope Q_scope.

Definition vqc (n : Z) (d : positive) : Qc := Q2Qc (n # d).
Definition vqc_sqrt (x : Qc) : Qc := Q2Qc (Z.sqrt (Qnum x) # Pos.sqrt (Qden x)).
Definition vqc_abs (x : Qc) : Qc := if Qle_bool 0 x then x else Qcopp x.

#[global] Instance VQcOps : Ops Qc := {|
  tzero := 0%Qc; tone := 1%Qc;
  tadd := Qcplus; tmul := Qcmult; tsub := Qcminus; topp := Qcopp; tdiv := Qcdiv;
  tleb := fun a b => Qle_bool a b;
  tltb := fun a b => negb (Qle_bool b a);
  teqb := fun a b => Qeq_bool a b;
  tofnat := fun n => Q2Qc (inject_Z (Z.of_nat n));
  ttrunc := fun _ => 0%nat; tceil := fun _ => 0%nat;
  tsqrt := vqc_sqrt; texp := fun x => x; tln := fun x => x; tacos := fun x => x; tatan := fun x => x;
  tpi := vqc 22 7;
  tabs := vqc_abs
|}.

#[global] Instance VQcRing : RingLaws Qc := {| ring_th := Qcrt |}.

Lemma vqc_tle (a b : Qc) : (a <= b)%T <-> (a <= b)%Qc.
Proof. unfold tle; simpl. apply Qle_bool_iff. Qed.
Lemma vqc_tlt (a b : Qc) : (a < b)%T <-> (a < b)%Qc.
Proof.
  unfold tlt; simpl. rewrite negb_true_iff. split.
  - intros H. apply Qcnot_le_lt. intros L. apply Qle_bool_iff in L. unfold Qcle in L. congruence.
  - intros H. destruct (Qle_bool b a) eqn:E; [|reflexivity]. apply Qle_bool_iff in E.
    exfalso. exact (Qclt_not_le _ _ H E).
Qed.

#[global] Instance VQcOrder : OrderLaws Qc.
Proof.
  constructor.
  - intros a. apply vqc_tle, Qcle_refl.
  - intros a b c H1 H2. apply vqc_tle in H1, H2. apply vqc_tle. eapply Qcle_trans; eassumption.
  - intros a b H1 H2. apply vqc_tle in H1, H2. now apply Qcle_antisym.
  - intros a b. destruct (Qclt_le_dec a b) as [H|H].
    + left. apply vqc_tle. now apply Qclt_le_weak.
    + right. now apply vqc_tle.
  - intros a b c H. apply vqc_tle in H. apply vqc_tle. apply Qcplus_le_compat; [exact H|apply Qcle_refl].
  - intros a b Ha Hb. apply vqc_tle in Ha, Hb. apply vqc_tle.
    pose proof (Qcmult_le_compat_r _ _ _ Ha Hb) as X. now rewrite Qcmult_0_l in X.
  - intros a b Ha Hb. apply vqc_tlt in Ha, Hb. apply vqc_tlt.
    pose proof (Qcmult_lt_compat_r _ _ _ Hb Ha) as X. now rewrite Qcmult_0_l in X.
  - intros a b. reflexivity.
  - intros a b. simpl. rewrite Qeq_bool_iff. split; [apply Qc_is_canon|intros ->; reflexivity].
  - reflexivity.
Qed.

#[global] Instance VQcField : FieldLaws Qc.
Proof.
  constructor. intros a b Hb. simpl. rewrite Qcmult_comm. now apply Qcmult_div_r.
Qed.

#[global] Instance VQcAbs : AbsLaws Qc.
Proof.
  constructor.
  - intros x H. simpl. unfold vqc_abs. unfold tle in H. simpl in H. now rewrite H.
  - intros x H. simpl. unfold vqc_abs. destruct (Qle_bool 0 x) eqn:E; [|reflexivity].
    assert (Hx : x = 0%Qc).
    { apply Qcle_antisym; [now apply vqc_tle|]. now apply Qle_bool_iff in E. }
    subst x. apply Qc_is_canon. reflexivity.
Qed.

(** ** the triangle (0,0,0) (4,3,0) (0,6,0) in the plane z = 0, tolerances 1e-6 *)
Definition e6 : Qc := vqc 1 1000000.
Definition v3 (a b c : Z) : @vec Qc := (vqc a 1, vqc b 1, vqc c 1).
Definition tri : list (@vec Qc) := [v3 0 0 0; v3 4 3 0; v3 0 6 0].
Definition tri_surface : @surface Qc := (tri, v3 0 0 1).

(** an interior point is reported inside, a point off the plane is not *)
Example pip_inside : pip e6 e6 tri_surface (v3 1 2 0) = true.
Proof. vm_compute. reflexivity. Qed.
Example pip_off : pip e6 e6 tri_surface (v3 1 2 1) = false.
Proof. vm_compute. reflexivity. Qed.

(** *** the refuting witness: (-1,3,0) lies at least 1 to the left of every vertex, hence at
    distance >= 1 from the triangle -- and is reported inside (the +x ray leaves through the
    vertex (4,3), where both adjacent sides are counted) *)
Lemma pip_ray_through_vertex :
  pip e6 e6 tri_surface (v3 (-1) 3 0) = true /\
  (forall v, In v tri -> (vx (v3 (-1) 3 0) + 1 <= vx v)%T).
Proof.
  split; [vm_compute; reflexivity|].
  intros v [H|[H|[H|[]]]]; subst v; vm_compute; reflexivity.
Qed.

(** ... so a segment that misses the triangle by 1 is reported hidden *)
Lemma hidden_by_a_surface_one_metre_away :
  basic_visibility e6 e6 (v3 (-1) 3 1) (v3 (-1) 3 (-1)) tri_surface = false.
Proof. vm_compute. reflexivity. Qed.

Lemma midpoint_of_witness : v3 (-1) 3 0 = lerp (v3 (-1) 3 1) (v3 (-1) 3 (-1)) (vqc 1 2).
Proof.
  unfold lerp, vadd, vscale, vsub, mkv, vx, vy, vz, v3. simpl.
  repeat f_equal; try (apply Qc_is_canon; reflexivity).
Qed.

Lemma pip_correct_refuted_witness :
  exists (poly : list (@vec Qc)) (n x p q : @vec Qc),
    point_in_polygon e6 e6 x poly n = true /\
    (forall v, In v poly -> (vx x + 1 <= vx v)%T) /\
    x = lerp p q (vqc 1 2) /\
    basic_visibility e6 e6 p q (poly, n) = false.
Proof.
  exists tri, (v3 0 0 1), (v3 (-1) 3 0), (v3 (-1) 3 1), (v3 (-1) 3 (-1)).
  exact (conj (proj1 pip_ray_through_vertex) (conj (proj2 pip_ray_through_vertex)
        (conj midpoint_of_witness hidden_by_a_surface_one_metre_away))).
Qed.

(** *** non-vacuity of C07_segment_logic (a): the segment (1,2,1)-(1,2,-1) pierces the
    triangle; all hypotheses hold with [inpoly] := the model's own answer *)
Example segment_logic_instance :
  basic_visibility e6 e6 (v3 1 2 1) (v3 1 2 (-1)) tri_surface = false /\
  seg_meets (fun x => pip e6 e6 tri_surface x = true) tri_surface (v3 1 2 1) (v3 1 2 (-1)).
Proof.
  assert (H : basic_visibility e6 e6 (v3 1 2 1) (v3 1 2 (-1)) tri_surface = false)
    by (vm_compute; reflexivity).
  split; [exact H|].
  refine (proj1 (basic_visibility_off_plane e6 e6 _ tri_surface (v3 1 2 1) (v3 1 2 (-1))
                   _ _ _ _ _) H).
  - vm_compute. reflexivity.
  - vm_compute. reflexivity.
  - vm_compute. reflexivity.
  - vm_compute. reflexivity.
  - intros t _. unfold pip_correct_at. tauto.
Qed.

(** symmetric evaluation on concrete data (C07_symmetric needs 0 <= eps) *)
Example symmetric_instance :
  basic_visibility e6 e6 (v3 1 2 (-1)) (v3 1 2 1) tri_surface = false.
Proof.
  rewrite <- (basic_visibility_sym e6 e6 (v3 1 2 1) (v3 1 2 (-1)) tri_surface).
  - vm_compute. reflexivity.
  - vm_compute. reflexivity.
Qed.
