(** * Non-vacuity of C07_pip_correct_triangle over the reals: the triangle (0,0,0) (4,3,0) (0,6,0)
    of the refuting witness, normal +z, epsilon = eta = margin = 1e-6.  The point (1,2,0) is in
    general position (its ray misses the pointed vertex (4,3) by 1) and is reported inside; the
    point (-1,2,0) is reported outside.  (Side lengths 5, 5, 6: exact square roots.) *)
From Coq Require Import Reals Lra List Bool.
Import ListNotations.
From SV Require Import Base.Ops Base.Arr Model.Vec3 Model.Visibility Spec.VisibilitySpec
  Proofs.PipRect Proofs.PipRectSurface Proofs.PipGeneral Proofs.PipTriangle
  Instances.InstR Instances.PipRectR.
Local Open Scope R_scope.

Definition tA : @vec R := (0, 0, 0).
Definition tB : @vec R := (4, 3, 0).
Definition tC : @vec R := (0, 6, 0).

Lemma sqrt_of_square (x y : R) : 0 <= y -> x = y * y -> sqrt x = y.
Proof. intros Hy ->. now apply sqrt_square. Qed.

Ltac t_unf :=
  cbv [tA tB tC e6R side_gp tri_gp between cross2 inside_tri proj2d axis_normal emb sgn
       side_of s_p0 s_pts s_nrm nthv nth
       vnorm vnorm2 vdot vsub vadd vscale mkv vx vy vz fst snd
       tzero tone tadd tmul tsub topp tabs tsqrt ROps].
Ltac t_lt := apply (proj2 (tlt_R _ _)); t_unf.
Ltac t_le := apply (proj2 (tle_R _ _)); t_unf.
Ltac no_between :=
  let H := fresh in
  intros [[H _]|[H _]]; apply (proj1 (tlt_R _ _)) in H; revert H; t_unf; lra.

(** the three sides are in general position for every point at height y = 2 *)
Lemma tri_sides_gp (px : R) :
  side_gp e6R e6R (px, 2, 0) (tA, tB) /\ side_gp e6R e6R (px, 2, 0) (tB, tC) /\
  side_gp e6R e6R (px, 2, 0) (tC, tA).
Proof.
  split; [|split]; unfold side_gp; cbn [fst snd]; (split; [|split; [|split]]).
  - t_lt. apply Rabs_gt. left. lra.
  - t_lt. apply Rabs_gt. right. lra.
  - left. t_unf. lra.
  - intros _. t_lt.
    rewrite (sqrt_of_square _ 5) by lra. apply Rabs_gt. left. lra.
  - t_lt. apply Rabs_gt. right. lra.
  - t_lt. apply Rabs_gt. right. lra.
  - left. t_unf. lra.
  - no_between.
  - t_lt. apply Rabs_gt. right. lra.
  - t_lt. apply Rabs_gt. left. lra.
  - right. t_unf. lra.
  - intros _. t_lt.
    rewrite (sqrt_of_square _ 6) by lra. apply Rabs_gt. right. lra.
Qed.

Lemma tri_gp_at (px : R) : px = 1 \/ px = -1 ->
  tri_gp e6R e6R (proj2d AxZ true tA) (proj2d AxZ true tB) (proj2d AxZ true tC) (proj2d AxZ true (px, 2, 0)).
Proof.
  intros Hpx. destruct (tri_sides_gp px) as (G0 & G1 & G2).
  unfold tri_gp. refine (conj G0 (conj G1 (conj G2 _))).
  repeat split; t_unf; destruct Hpx; subst; lra.
Qed.

Lemma tri_gate (px : R) : tle (tabs (side_of ([tA; tB; tC], axis_normal AxZ true) (px, 2, 0))) e6R.
Proof. t_le. apply Rabs_small. lra. Qed.

Example pip_triangle_inside : pip e6R e6R ([tA; tB; tC], axis_normal AxZ true) (1, 2, 0) = true.
Proof.
  destruct floorR_tolerances as (H1 & _ & H3 & H4 & _).
  apply (pip_correct_triangle e6R e6R e6R tA tB tC (1, 2, 0) AxZ true H1 H3 H4 (tri_gate 1)
           (tri_gp_at 1 (or_introl eq_refl))).
  left. repeat split; t_lt; lra.
Qed.

Example pip_triangle_outside : pip e6R e6R ([tA; tB; tC], axis_normal AxZ true) (-1, 2, 0) = false.
Proof.
  destruct floorR_tolerances as (H1 & _ & H3 & H4 & _).
  destruct (pip e6R e6R ([tA; tB; tC], axis_normal AxZ true) (-1, 2, 0)) eqn:E; [|reflexivity]. exfalso.
  apply (pip_correct_triangle e6R e6R e6R tA tB tC (-1, 2, 0) AxZ true H1 H3 H4 (tri_gate (-1))
           (tri_gp_at (-1) (or_intror eq_refl))) in E.
  destruct E as [(_ & _ & H)|(H & _ & _)]; apply (proj1 (tlt_R _ _)) in H; revert H; t_unf; lra.
Qed.

Print Assumptions pip_triangle_inside.
