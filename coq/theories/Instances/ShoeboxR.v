(** * Non-vacuity of the shoebox-room theorems (C07_shoebox_general_position,
    C07_shoebox_visibility, C07_shoebox_point_visibility): the real numbers satisfy ALL the law
    classes they assume at once -- ring, order, field, floor AND square root (the rationals have
    no total square root, and [tceil] of [Instances/InstR.v] is [up], which is not a ceiling at the
    integers: this file has its own, local, dictionary with [tceil x = - floor (- x)]) -- and a
    concrete room meets their hypotheses: the box [0,4] x [0,3] x [0,2] as
    [sp.testing.shoebox_room_stub(4, 3, 2)] lists it, patch size 1, epsilon = eta = 1e-6, source
    at (2, 3/2, 1).  The instance lives over Coq's classical reals, so the examples depend on the
    standard axioms of the [Reals] library (and on nothing else). *)
From Coq Require Import Reals Lra Lia ZArith List Arith Bool RealField.
Import ListNotations.
From SV Require Import Base.Ops Base.Arr Model.Vec3 Model.Scene Model.Tiling Model.Visibility Model.Full
  Proofs.TilingProofs Proofs.PipRectSurface Proofs.FullVisibility Proofs.FullShoebox.
Local Open Scope R_scope.

Definition RFleb (a b : R) : bool := if Rle_dec a b then true else false.
Definition RFltb (a b : R) : bool := if Rlt_dec a b then true else false.
Definition RFeqb (a b : R) : bool := if Req_EM_T a b then true else false.

#[local] Instance RFOps : Ops R :=
  mkOps R 0 1 Rplus Rmult Rminus Ropp Rdiv RFleb RFltb RFeqb INR
        (fun x => Z.to_nat (Int_part x)) (fun x => Z.to_nat (- Int_part (- x)))
        sqrt exp ln acos atan PI Rabs.

Lemma tle_RF a b : tle a b <-> a <= b.
Proof. unfold tle. cbn [tleb RFOps]. unfold RFleb. destruct (Rle_dec a b); split; intros; try assumption; try reflexivity; try discriminate; contradiction. Qed.
Lemma tlt_RF a b : tlt a b <-> a < b.
Proof. unfold tlt. cbn [tltb RFOps]. unfold RFltb. destruct (Rlt_dec a b); split; intros; try assumption; try reflexivity; try discriminate; contradiction. Qed.

#[local] Instance RFRing : RingLaws R := {| ring_th := RTheory |}.

#[local] Instance RFOrder : OrderLaws R.
Proof.
  constructor; intros; repeat rewrite tle_RF in *; repeat rewrite tlt_RF in *; cbn [tadd tmul tzero tone RFOps] in *.
  - lra.
  - lra.
  - lra.
  - lra.
  - lra.
  - now apply Rmult_le_pos.
  - now apply Rmult_lt_0_compat.
  - cbn [tltb tleb RFOps]. unfold RFltb, RFleb. destruct (Rlt_dec a b), (Rle_dec b a); cbn [negb]; try reflexivity; exfalso; lra.
  - cbn [teqb RFOps]. unfold RFeqb. destruct (Req_EM_T a b); split; intros; try assumption; try reflexivity; try discriminate; contradiction.
  - lra.
Qed.

#[local] Instance RFField : FieldLaws R.
Proof. constructor. intros a b Hb. cbn [tdiv tmul tzero RFOps] in *. field. exact Hb. Qed.

Lemma INR_to_nat (z : Z) : (0 <= z)%Z -> INR (Z.to_nat z) = IZR z.
Proof. intros H. rewrite INR_IZR_INZ, Z2Nat.id by exact H. reflexivity. Qed.

Lemma Int_part_nonneg (x : R) : 0 <= x -> (0 <= Int_part x)%Z.
Proof.
  intros H. destruct (base_Int_part x) as [_ H2].
  assert (H3 : (-1 < Int_part x)%Z) by (apply lt_IZR; lra). lia.
Qed.

Lemma ceil_nonneg (x : R) : 0 <= x -> (0 <= - Int_part (- x))%Z.
Proof.
  intros H. destruct (base_Int_part (- x)) as [H1 _].
  assert (H3 : (Int_part (- x) <= 0)%Z) by (apply le_IZR; lra). lia.
Qed.

#[local] Instance RFFloor : FloorLaws R.
Proof.
  constructor; intros; repeat rewrite tle_RF in *; repeat rewrite tlt_RF in *;
    cbn [tofnat ttrunc tceil tadd tzero tone RFOps] in *.
  - reflexivity.
  - apply S_INR.
  - rewrite (INR_to_nat _ (Int_part_nonneg x H)). destruct (base_Int_part x). lra.
  - rewrite S_INR, (INR_to_nat _ (Int_part_nonneg x H)). destruct (base_Int_part x). lra.
  - rewrite (INR_to_nat _ (ceil_nonneg x H)), opp_IZR. destruct (base_Int_part (- x)). lra.
  - assert (H0 : 0 <= x) by lra.
    rewrite (INR_to_nat _ (ceil_nonneg x H0)), opp_IZR. destruct (base_Int_part (- x)). lra.
Qed.

#[local] Instance RFSqrt : SqrtLaws R.
Proof.
  constructor; intros; repeat rewrite tle_RF in *; cbn [tsqrt tabs tmul topp tzero RFOps] in *.
  - apply sqrt_pos.
  - now apply sqrt_sqrt.
  - apply Rabs_pos.
  - apply Rabs_right. lra.
  - now apply Rabs_left1.
Qed.

(** ** the room of [shoebox_room_stub(4, 3, 2)], patch size 1, tolerances 1e-6 *)
Definition e6 : R := 1 / 1000000.
Definition boxR : @room R :=
  mkRoom (sb_walls 0 4 0 3 0 2) sb_normals sb_ups 1 [] [] [] [] [] 0 (1 / 10000000000) e6 e6 e6 0 e6 e6 e6.
Definition srcR : @vec R := (2, 3 / 2, 1).

Ltac rf_lt := apply (proj2 (tlt_RF _ _)); cbn [tadd tsub tmul tzero tone RFOps rm_patch_size rm_eps rm_eta boxR]; unfold e6; lra.
Ltac rf_le := apply (proj2 (tle_RF _ _)); cbn [tadd tsub tmul tzero tone RFOps rm_patch_size rm_eps rm_eta boxR]; unfold e6; lra.

Lemma boxR_is_shoebox : is_shoebox boxR 0 4 0 3 0 2.
Proof.
  split; [reflexivity|]. split; [reflexivity|]. split; [reflexivity|].
  split; [rf_lt|]. split; [rf_lt|]. split; [rf_lt|]. split; [rf_lt|].
  split; [rf_le|]. split; [rf_le|rf_le].
Qed.

Lemma boxR_tolerances : sb_tolerances boxR.
Proof.
  split; [rf_le|]. split; [rf_lt|]. split; [rf_lt|]. split; [rf_lt|rf_lt].
Qed.

Lemma srcR_inside : sb_inside boxR 0 4 0 3 0 2 srcR.
Proof.
  intros f s Hf.
  destruct f as [|[|[|f]]]; try lia; destruct s;
    (split; apply (proj2 (tlt_RF _ _));
     cbn [wside sb_lo sb_hi vget srcR vx vy vz fst snd tsub RFOps rm_eps rm_eta boxR]; unfold e6; lra).
Qed.

(** the index range of the theorems is not empty *)
Example boxR_np : (6 <= rm_np boxR)%nat.
Proof. exact (shoebox_np_ge_6 boxR 0 4 0 3 0 2 boxR_is_shoebox). Qed.

(** the three theorems apply *)
Example boxR_general_position :
  exists rs, rects_of (rm_patch_surfs boxR) rs /\
    forall i j, (i < rm_np boxR)%nat -> (j < rm_np boxR)%nat -> forall r, In r rs ->
      gen_pos e6 e6 e6 r (nthv (rm_centers boxR) i) (nthv (rm_centers boxR) j).
Proof.
  destruct boxR_tolerances as (_ & _ & H3 & H4 & H5).
  exact (shoebox_general_position boxR 0 4 0 3 0 2 e6 boxR_is_shoebox H3 H4 H5 H5).
Qed.

Example boxR_visibility (i j : nat) :
  (i < j)%nat -> (j < rm_np boxR)%nat ->
  (vis_sym (room_scene boxR) i j = true <-> wall (room_scene boxR) i <> wall (room_scene boxR) j).
Proof. exact (shoebox_visibility boxR 0 4 0 3 0 2 boxR_is_shoebox boxR_tolerances i j). Qed.

Example boxR_point_visibility : room_point_vis boxR srcR = repeat true (rm_np boxR).
Proof.
  exact (shoebox_point_visibility_all boxR 0 4 0 3 0 2 srcR boxR_is_shoebox boxR_tolerances srcR_inside).
Qed.

Print Assumptions boxR_general_position.
Print Assumptions boxR_visibility.
Print Assumptions boxR_point_visibility.
