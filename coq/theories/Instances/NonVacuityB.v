(** * Non-vacuity witnesses for the theorems of Properties/C04, C05, C07, C08, C13 .. C20
    (audit: VACUITY_AUDIT_B.md).

    Every [Example] below applies a theorem of a property file (or the lemma it is closed with) to
    CONCRETE, non-degenerate data and discharges each hypothesis by computation or a short proof.
    One module per property; each module selects the scalar instance it works with.

    Scalar instances used:
    - [RAll] (this file): Coq's real numbers with honest floor / ceiling -- ONE dictionary that
      satisfies ALL law classes of the development at once (ring, order, field, floor, nat, sqrt,
      abs (both classes), acos, strict acos, div, exp, ln).  Depends on the standard axioms of the
      [Reals] library only.
    - the axiom-free rational / integer instances of the other files of this directory. *)
From Coq Require Import Reals Lra Lia ZArith QArith Qcanon List Arith Bool Permutation RealField.
Import ListNotations.
Close Scope Qc_scope.
Close Scope Q_scope.
From SV Require Import Base.Ops Base.OpsGeom Base.Arr Base.Sums Model.Vec3.
From SV Require Proofs.VisibilitySym Proofs.FieldFacts Proofs.StokesSimilarity Instances.ShoeboxR.

(** ** All law classes at once, over R *)
Module RAll.
  Import Instances.ShoeboxR.
  Local Open Scope R_scope.
  #[export] Existing Instance RFOps.
  #[export] Existing Instance RFRing.
  #[export] Existing Instance RFOrder.
  #[export] Existing Instance RFField.
  #[export] Existing Instance RFFloor.
  #[export] Existing Instance RFSqrt.

  Lemma tle_iff (a b : R) : tle a b <-> a <= b.
  Proof. exact (tle_RF a b). Qed.
  Lemma tlt_iff (a b : R) : tlt a b <-> a < b.
  Proof. exact (tlt_RF a b). Qed.

  #[export] Instance RFNat : NatLaws R := NatLaws_of_Floor.

  #[export] Instance RFAcos : AcosLaws R.
  Proof.
    constructor; intros; repeat rewrite tle_iff; repeat rewrite tlt_iff; cbn [tacos tpi tzero RFOps].
    - apply acos_bound.
    - apply acos_bound.
    - apply PI_RGT_0.
  Qed.

  #[export] Instance RFAcosStrict : AcosStrictLaws R.
  Proof.
    constructor. intros x. rewrite !tlt_iff. cbn [tacos tpi tone topp RFOps]. intros Hx.
    destruct (Rlt_dec x 1) as [H1|H1].
    - apply acos_bound_lt. lra.
    - unfold acos. destruct (Rle_dec x (-1)); [lra|]. destruct (Rle_dec 1 x); [apply PI_RGT_0|lra].
  Qed.

  #[export] Instance RFDiv : DivLaws R.
  Proof. constructor. intros a b. cbn [tdiv tmul tone RFOps]. unfold Rdiv. ring. Qed.

  #[export] Instance RFExp : ExpLaws R.
  Proof.
    constructor.
    - exact exp_0.
    - intros a b. exact (exp_plus a b).
    - intros a. apply tlt_iff. apply exp_pos.
    - intros a b H. apply tle_iff in H. apply tle_iff. cbn [texp RFOps].
      destruct H as [H|H]; [left; now apply exp_increasing|right; now rewrite H].
  Qed.

  #[export] Instance RFLn : StokesSimilarity.LnLaws R.
  Proof.
    constructor. intros x y Hx Hy. apply tlt_iff in Hx. apply tlt_iff in Hy.
    change (ln (x * y) = ln x + ln y). apply ln_mult; assumption.
  Qed.

  (** the two [AbsLaws] classes follow from [SqrtLaws] by the generic instances *)
  Example RF_abs_visibility : VisibilitySym.AbsLaws R.
  Proof. exact VisibilitySym.AbsLaws_of_SqrtLaws. Qed.
  Example RF_abs_field : FieldFacts.AbsLaws R.
  Proof. exact FieldFacts.SqrtLaws_AbsLaws. Qed.

  (** every law class of the development, for the one dictionary [RFOps] *)
  Example all_laws_jointly :
    RingLaws R /\ OrderLaws R /\ FieldLaws R /\ ExpLaws R /\ FloorLaws R /\ SqrtLaws R /\ AcosLaws R /\
    NatLaws R /\ DivLaws R /\ AcosStrictLaws R /\ StokesSimilarity.LnLaws R /\
    VisibilitySym.AbsLaws R /\ FieldFacts.AbsLaws R.
  Proof.
    exact (conj RFRing (conj RFOrder (conj RFField (conj RFExp (conj RFFloor (conj RFSqrt (conj RFAcos
          (conj RFNat (conj RFDiv (conj RFAcosStrict (conj RFLn (conj RF_abs_visibility RF_abs_field)))))))))))).
  Qed.

  Lemma Rabs_gt (m a : R) : m < a \/ m < - a -> m < Rabs a.
  Proof.
    intros [H|H].
    - apply (Rlt_le_trans _ a); [exact H|apply Rle_abs].
    - apply (Rlt_le_trans _ (- a)); [exact H|]. rewrite <- Rabs_Ropp. apply Rle_abs.
  Qed.
  Lemma sqrt_of_square (x y : R) : 0 <= y -> x = y * y -> sqrt x = y.
  Proof. intros Hy ->. now apply sqrt_square. Qed.
End RAll.

(** ** C04 *)
From SV Require Model.Exchange Model.Scene Model.PtSolution Properties.C04.
Module NVB_C04.
  Import Model.Exchange Model.Scene Model.PtSolution Properties.C04 RAll.
  Local Open Scope R_scope.

  (** one triangular patch (the octant triangle) seen from the origin, and a second patch that the
      source does not see; two bands with different air attenuation *)
  Definition octant : list (@vec R) := [(1, 0, 0); (0, 1, 0); (0, 0, 1)].
  Definition behind : list (@vec R) := [(-1, 0, 0); (0, -1, 0); (0, 0, -1)].
  Definition scR : @scene R :=
    mkScene 2 1 2 [(1/3, 1/3, 1/3); (-1/3, -1/3, -1/3)] [1; 1] [0; 1]%nat
            [[false; false]; [false; false]] [[0; 0]; [0; 0]] [0; 1/100] [[[[1; 1]]]] [0; 0]%nat
            [[(0, 0, 1)]; [(0, 0, 1)]] [[(0, 0, 1)]; [(0, 0, 1)]].
  Definition srcR : @source R := mkSource (0, 0, 0) [true; false] [1/8; 1/8] None.

  (** C04_hidden_zero: patch 1 is not visible *)
  Example hidden_zero_applies b : energy0 scR srcR 1 b = 0 /\ src_dist scR srcR 1 = 0.
  Proof. exact (C04_hidden_zero scR srcR 1 b eq_refl). Qed.
  (** ... while the visible patch 0 has a non-zero distance (the clause is not about all patches) *)
  Example visible_patch_not_zero : src_dist scR srcR 0 <> 0.
  Proof.
    cbv [src_dist srcR src_vis nthb nth src_pos center scR s_centers nthv vdist vnorm vnorm2 vdot vsub mkv
         vx vy vz fst snd tsub tmul tadd tsqrt tzero ShoeboxR.RFOps].
    intros H. apply sqrt_eq_0 in H; lra.
  Qed.

  (** C04_hidden_zero_kernels *)
  Example hidden_zero_kernels_applies (thr : R) b :
    s2p_energy thr scR (0, 0, 0) [true; false] [octant; behind] 1 b = 0 /\
    s2p_dist thr scR (0, 0, 0) [true; false] [octant; behind] 1 = 0 /\
    p2r_factor thr (0, 0, 0) [true; false] [octant; behind] 1 = 0.
  Proof. exact (C04_hidden_zero_kernels thr scR (0, 0, 0) [true; false] [octant; behind] 1 b eq_refl). Qed.

  (** C04_partial (law classes ring, order, field, nat, acos: all provided by [RAll]); both inner
      hypotheses of the first conjunct hold for the visible patch 0 *)
  Example partial_applies (thr : R) (b : nat) :
    s2p_energy thr scR (0, 0, 0) [true; false] [octant; behind] 0 b =
      (attn scR b (vdist (0, 0, 0) (center scR 0)) * pt_solution thr false (0, 0, 0) octant)%T /\
    (- (tofnat 1 * tpi) <= pt_solution thr false (0, 0, 0) octant * (tpi * four))%T.
  Proof.
    destruct (C04_partial thr scR (0, 0, 0) [true; false] [octant; behind] 0 b) as [H1 H2].
    split; [exact (H1 eq_refl (le_S _ _ (le_n 1)))|exact H2].
  Qed.

  (** C04_upper / C04_upper_strict / C04_similarity* at the dictionary that also has floor laws *)
  Example upper_applies (thr : R) : (pt_solution thr false (0, 0, 0) octant <= 1 / (1 + 1))%T.
  Proof. exact (C04_upper thr (0, 0, 0) octant (le_n 3)). Qed.

  Definition M345 : @Isometry.mat R := ((3/5, -4/5, 0), (4/5, 3/5, 0), (0, 0, -1)).
  Example M345_orthogonal : Isometry.orthogonal M345.
  Proof.
    unfold Isometry.orthogonal, M345, Isometry.mcol1, Isometry.mcol2, Isometry.mcol3, Isometry.mrow1,
      Isometry.mrow2, Isometry.mrow3, vdot, mkv, vx, vy, vz.
    cbn [fst snd tadd tmul tzero tone ShoeboxR.RFOps]. repeat split; field.
  Qed.
  Example octant_off_point : forall p, In p octant -> (0 < vnorm2 (vsub p (0, 0, 0)))%T.
  Proof.
    intros p Hp. apply (proj2 (tlt_iff _ _)). simpl in Hp.
    destruct Hp as [<-|[<-|[<-|[]]]];
      cbv [vnorm2 vdot vsub mkv vx vy vz fst snd tzero tone tmul tadd tsub ShoeboxR.RFOps]; lra.
  Qed.
  Example similarity_applies (thr : R) (t : @vec R) :
    pt_solution thr false (vadd (0, 0, 0) t) (map (fun p => vadd p t) octant) = pt_solution thr false (0, 0, 0) octant /\
    pt_solution thr false (Isometry.mapply M345 (0, 0, 0)) (map (Isometry.mapply M345) octant)
      = pt_solution thr false (0, 0, 0) octant /\
    pt_solution thr false (vscale 2 (0, 0, 0)) (map (vscale 2) octant) = pt_solution thr false (0, 0, 0) octant.
  Proof.
    apply C04_similarity; [exact M345_orthogonal| |exact octant_off_point].
    apply (proj2 (tlt_iff _ _)). cbn [tzero ShoeboxR.RFOps]. lra.
  Qed.
  Example similarity_parts_apply (thr : R) (recv : bool) (t : @vec R) :
    pt_solution thr recv (Isometry.mapply M345 (0, 0, 0)) (map (Isometry.mapply M345) octant)
      = pt_solution thr recv (0, 0, 0) octant /\
    pt_solution thr false (vscale 3 (0, 0, 0)) (map (vscale 3) octant) = pt_solution thr false (0, 0, 0) octant.
  Proof.
    split; [exact (C04_similarity_isometry M345 thr recv (0, 0, 0) octant M345_orthogonal)|].
    apply C04_similarity_scaling; [apply (proj2 (tlt_iff _ _)); cbn [tzero ShoeboxR.RFOps]; lra|exact octant_off_point].
  Qed.
End NVB_C04.

(** ** C05 over the rationals (ring, order, field, abs laws: [Instances/InstQc.v]) *)
From SV Require Model.Stokes Model.Nusselt Model.Tiling Model.Full Spec.Isometry Proofs.PtSimilarity
  Proofs.StokesSum Proofs.NusseltProofs Instances.InstQc Properties.C05.
Module NVB_C05.
  Import Model.Exchange Model.Scene Model.Stokes Model.Nusselt Spec.Isometry Proofs.FieldFacts
    Proofs.StokesSum Instances.InstQc Properties.C05.
  #[local] Existing Instance InstQc.QcOps.
  #[local] Existing Instance InstQc.QcRing.
  #[local] Existing Instance InstQc.QcOrder.
  #[local] Existing Instance InstQc.QcField.
  #[local] Existing Instance InstQc.QcAbs.

  Ltac qc_eq := apply Qc_is_canon; vm_compute; reflexivity.

  (** C05_invisible_zero / C05_reciprocity / C05_stokes_entry_nonneg on the three-patch scene [scQ]:
      pair (0,2) invisible, pair (0,1) visible with a non-zero Stokes value *)
  Example invisible_zero_applies :
    (if 0 <? 2 then get2 (s_F scQ) 0 2 else get2 (s_F scQ) 2 0) = 0%T /\
    ff_full scQ 0 2 = 0%T /\ forall d b, get4 (tilde scQ) 0 2 d b = 0%T.
  Proof.
    destruct scene_hyps as (H1 & H2 & _ & H4 & _).
    exact (C05_invisible_zero scQ thrQ cutQ ptsQ [] 0 2 H1 H2 H4).
  Qed.
  Example area1_nonzero : area scQ 1 <> 0%T.
  Proof. intros H; apply (f_equal this) in H; vm_compute in H; discriminate H. Qed.
  Example reciprocity_applies : (area scQ 0 * ff_full scQ 0 1)%T = (area scQ 1 * ff_full scQ 1 0)%T.
  Proof.
    destruct scene_hyps as (_ & H2 & _).
    exact (C05_reciprocity scQ 0 1 (fun H => O_S _ H) H2 area1_nonzero).
  Qed.
  (** ... and both sides are the same NON-ZERO number *)
  Example reciprocity_not_trivial : (area scQ 0 * ff_full scQ 0 1)%T <> 0%T.
  Proof. intros H; apply (f_equal this) in H; vm_compute in H; discriminate H. Qed.

  Example stokes_entry_nonneg_applies :
    (0 <= get2 (patch2patch_ff thrQ cutQ ptsQ (s_areas scQ) (vis_pairs scQ) []) 0 1)%T.
  Proof.
    apply C05_stokes_entry_nonneg; [vm_compute; lia|vm_compute; lia|vm_compute; reflexivity|
                                    vm_compute; reflexivity].
  Qed.

  Example reciprocity_stokes_applies :
    (q 1 1 * stokes_integration cutQ sqI sqJ (q 1 1))%T = (q 2 1 * stokes_integration cutQ sqJ sqI (q 2 1))%T.
  Proof.
    destruct recip_hyps as (H1 & H2 & H3). exact (C05_reciprocity_stokes cutQ sqI sqJ (q 1 1) (q 2 1) H1 H2 H3).
  Qed.

  (** C05_similarity_cut_is_nocut *)
  Example cut_is_nocut_applies (a : Qc) : stokes_integration cutQ sqI sqJ a = stokes_nocut sqI sqJ a.
  Proof.
    destruct squares_have_no_small_extent as [H1 H2].
    exact (C05_similarity_cut_is_nocut cutQ sqI sqJ a H1 H2).
  Qed.

  (** a rotation that moves every axis: (1/3) [[2,-1,2],[2,2,-1],[-1,2,2]] *)
  Definition M3 : @mat Qc := ((q 2 3, q (-1) 3, q 2 3), (q 2 3, q 2 3, q (-1) 3), (q (-1) 3, q 2 3, q 2 3)).
  Example M3_orthogonal : orthogonal M3.
  Proof. unfold orthogonal. repeat split; qc_eq. Qed.
  Example M3_moves : mapply M3 (v 1 0 0) = (q 2 3, q 2 3, q (-1) 3).
  Proof. unfold mapply, mkv. repeat f_equal; qc_eq. Qed.

  Example similarity_orthogonal_applies (t : @vec Qc) (a : Qc) :
    stokes_nocut (map (fun x => vadd (mapply M3 x) t) sqI) (map (fun x => vadd (mapply M3 x) t) sqJ) a =
      stokes_nocut sqI sqJ a /\
    stokes_integration 0%T (map (fun x => vadd (mapply M3 x) t) sqI) (map (fun x => vadd (mapply M3 x) t) sqJ) a =
      stokes_integration 0%T sqI sqJ a.
  Proof. exact (C05_similarity_orthogonal M3 t sqI sqJ a M3_orthogonal). Qed.
  Example similarity_isometry_applies (t : @vec Qc) (a : Qc) :
    stokes_nocut (map (fun x => vadd (mapply M3 x) t) sqI) (map (fun x => vadd (mapply M3 x) t) sqJ) a =
      stokes_nocut sqI sqJ a /\
    stokes_integration 0%T (map (fun x => vadd (mapply M3 x) t) sqI) (map (fun x => vadd (mapply M3 x) t) sqJ) a =
      stokes_integration 0%T sqI sqJ a.
  Proof. exact (C05_similarity_isometry M3 t sqI sqJ a (PtSimilarity.mdot M3 M3_orthogonal)). Qed.

  (** C05_similarity_axis_permutation: (x, y, z) |-> (-z, x, -y), for the code's cut-off 1e-3 *)
  Definition sigmaQ (d : nat) : nat := match d with 0 => 2 | 1 => 0 | _ => 1 end.
  Example sigmaQ_perm : Permutation [sigmaQ 0; sigmaQ 1; sigmaQ 2] [0; 1; 2].
  Proof. simpl. eapply perm_trans; [apply perm_swap|]. apply perm_skip. apply perm_swap. Qed.
  Example axis_permutation_applies (a : Qc) :
    let m := fun p : @vec Qc =>
      mkv (- (1) * coord (sigmaQ 0) p)%T (1 * coord (sigmaQ 1) p)%T (- (1) * coord (sigmaQ 2) p)%T in
    stokes_integration cutQ (map m sqI) (map m sqJ) a = stokes_integration cutQ sqI sqJ a.
  Proof.
    exact (C05_similarity_axis_permutation sigmaQ (- (1))%T 1%T (- (1))%T cutQ sqI sqJ a sigmaQ_perm
             (or_intror eq_refl) (or_introl eq_refl) (or_intror eq_refl)).
  Qed.

  (** C05_nusselt_translation / C05_universal_full_translation: a quadrilateral pair *)
  Example nusselt_translation_applies (t1 t2 t3 : Qc) (t o n ni nj : @vec Qc) (ns : nat) :
    nusselt_analog t1 t2 t3 (vadd o t) n (map (fun p => vadd p t) sqJ) nj = nusselt_analog t1 t2 t3 o n sqJ nj /\
    nusselt_integration t1 t2 t3 (map (fun p => vadd p t) sqI) (map (fun p => vadd p t) sqJ) ni nj ns =
      nusselt_integration t1 t2 t3 sqI sqJ ni nj ns.
  Proof.
    apply C05_nusselt_translation; simpl; lia.
  Qed.
  Example universal_full_translation_applies (a b c : Qc) (t n1 n2 : @vec Qc) (ar : Qc) :
    universal_ff_full thrQ cutQ a b c (map (fun p => vadd p t) sqI) n1 ar (map (fun p => vadd p t) sqJ) n2 =
    universal_ff_full thrQ cutQ a b c sqI n1 ar sqJ n2.
  Proof. apply C05_universal_full_translation; simpl; lia. Qed.

  (** C05_full_assembly(_entries): the same scene with the matrix assembled by the model that computes
      both branches (patches 0, 1 do not touch: Stokes branch) *)
  Definition normalsQ : list (@vec Qc) := [v 0 0 1; v 0 (-1) 0; v 0 0 1].
  Definition scQfull : @scene Qc :=
    sc0 (patch2patch_ff_full thrQ cutQ thrQ thrQ thrQ ptsQ normalsQ [q 1 1; q 2 1; q 1 1] (vis_pairs (sc0 [])) ).
  Example full_assembly_hyp :
    s_F scQfull = patch2patch_ff_full thrQ cutQ thrQ thrQ thrQ ptsQ normalsQ (s_areas scQfull) (vis_pairs scQfull).
  Proof. reflexivity. Qed.
  Example full_assembly_applies :
    ((if 0 <? 2 then get2 (s_F scQfull) 0 2 else get2 (s_F scQfull) 2 0) = 0%T /\
     ff_full scQfull 0 2 = 0%T /\ forall d b, get4 (tilde scQfull) 0 2 d b = 0%T) /\
    (area scQfull 0 * ff_full scQfull 0 1)%T = (area scQfull 1 * ff_full scQfull 1 0)%T.
  Proof.
    destruct (C05_full_assembly scQfull thrQ cutQ thrQ thrQ thrQ ptsQ normalsQ 0 2 full_assembly_hyp) as [H1 _].
    destruct (C05_full_assembly scQfull thrQ cutQ thrQ thrQ thrQ ptsQ normalsQ 0 1 full_assembly_hyp) as [_ H2].
    destruct scene_hyps as (_ & A0 & _).
    split.
    - apply H1; [exact A0|reflexivity].
    - apply H2; [intros H; discriminate H|exact A0|exact area1_nonzero].
  Qed.
  Example full_assembly_entries_applies :
    get2 (patch2patch_ff_full thrQ cutQ thrQ thrQ thrQ ptsQ normalsQ (s_areas scQfull) (vis_pairs scQfull)) 0 2 = 0%T /\
    get2 (patch2patch_ff_full thrQ cutQ thrQ thrQ thrQ ptsQ normalsQ (s_areas scQfull) (vis_pairs scQfull)) 0 1 =
      stokes_integration cutQ sqI sqJ (q 1 1).
  Proof.
    split.
    - apply (proj1 (C05_full_assembly_entries thrQ cutQ thrQ thrQ thrQ ptsQ normalsQ (s_areas scQfull)
                      (vis_pairs scQfull) 0 2)). reflexivity.
    - rewrite (proj2 (C05_full_assembly_entries thrQ cutQ thrQ thrQ thrQ ptsQ normalsQ (s_areas scQfull)
                      (vis_pairs scQfull) 0 1)); [|simpl; lia|simpl; lia|reflexivity].
      replace (coincidence_check thrQ (nth 1 ptsQ []) (nth 0 ptsQ [])) with false by (vm_compute; reflexivity).
      reflexivity.
  Qed.
End NVB_C05.

From SV Require Model.Stokes Model.Nusselt Model.Tiling Model.Full Proofs.StokesSimilarity
  Proofs.NusseltProofs Instances.InstRLn Instances.TilingQc Instances.RoomQc Properties.C05.

(** ** C05, real-number part: the scaling theorems (sqrt and ln laws) *)
Module NVB_C05R.
  Import Model.Exchange Model.Stokes Model.Nusselt Proofs.StokesSimilarity Instances.InstR Instances.InstRLn Properties.C05.
  Local Open Scope R_scope.

  Example similarity_scaling_applies (s a : R) : 0 < s -> a <> 0 ->
    stokes_nocut (map (vscale s) tri_lo) (map (vscale s) tri_hi) ((s * s) * a)%T = stokes_nocut tri_lo tri_hi a /\
    stokes_integration 0%T (map (vscale s) tri_lo) (map (vscale s) tri_hi) ((s * s) * a)%T =
      stokes_integration 0%T tri_lo tri_hi a.
  Proof.
    intros Hs Ha.
    exact (C05_similarity_scaling s tri_lo tri_hi a (proj2 (tlt_R _ _) Hs) tri_apart PI_neq0 Ha).
  Qed.
  Example similarity_scaling_sum_applies (s : R) : 0 < s ->
    stokes_outer (fun _ => true) (map (vscale s) tri_lo) (map (vscale s) tri_hi) =
      ((s * s) * stokes_outer (fun _ => true) tri_lo tri_hi)%T.
  Proof. intros Hs. exact (C05_similarity_scaling_sum s tri_lo tri_hi (proj2 (tlt_R _ _) Hs) tri_apart). Qed.

  (** C05_nusselt_scaling: the unit square; both sampled sides have length 1 *)
  Definition sqR : list (@vec R) := [(0, 0, 0); (1, 0, 0); (1, 1, 0); (0, 1, 0)].
  Definition sqR2 : list (@vec R) := [(0, 0, 0); (0, 0, 1); (1, 0, 1); (1, 0, 0)].
  Lemma sqR_sides : vnorm (grid_u sqR) <> 0%T /\ vnorm (grid_v sqR) <> 0%T.
  Proof.
    split; cbv [vnorm vnorm2 grid_u grid_v sqR length Nat.sub nthv nth vsub vdot mkv vx vy vz fst snd
                tsqrt tsub tmul tadd tzero ROps]; intros H; apply sqrt_eq_0 in H; lra.
  Qed.
  Example nusselt_scaling_applies (t1 t2 t3 s : R) (o n ni nj : @vec R) (ns : nat) : 0 < s ->
    nusselt_analog t1 t2 t3 (vscale s o) n (map (vscale s) sqR2) nj = nusselt_analog t1 t2 t3 o n sqR2 nj /\
    nusselt_integration t1 t2 t3 (map (vscale s) sqR) (map (vscale s) sqR2) ni nj ns =
      nusselt_integration t1 t2 t3 sqR sqR2 ni nj ns.
  Proof.
    intros Hs. destruct (C05_nusselt_scaling t1 t2 t3 s o n sqR sqR2 ni nj ns (proj2 (tlt_R _ _) Hs)) as [H1 H2].
    split; [exact H1|]. destruct sqR_sides as [A B]. exact (H2 A B).
  Qed.
End NVB_C05R.

(** ** C05, floor laws (rationals of TilingQc) and the composed room (rationals of RoomQc) *)
Module NVB_C05F.
  Import Model.Exchange Model.Scene Model.Stokes Model.Nusselt Model.Tiling Model.Full Instances.TilingQc Properties.C05.
  #[local] Existing Instance TilingQc.QcOps.
  #[local] Existing Instance TilingQc.QcRing.
  #[local] Existing Instance TilingQc.QcOrder.
  #[local] Existing Instance TilingQc.QcField.
  #[local] Existing Instance TilingQc.QcFloor.

  (** a 2 x 1 rectangle sampled with npoints = 8 *)
  Definition rect21 : list (@vec Qc) :=
    [pt (qq 0 1) (qq 0 1) (qq 0 1); pt (qq 2 1) (qq 0 1) (qq 0 1); pt (qq 2 1) (qq 1 1) (qq 0 1); pt (qq 0 1) (qq 1 1) (qq 0 1)].
  Example grid_rectangle_applies :
    length (surf_grid rect21 8) = grid_nx rect21 8 * grid_nz rect21 8 /\
    0 < grid_nx rect21 8 /\ 0 < grid_nz rect21 8.
  Proof.
    destruct (C05_nusselt_grid_rectangle rect21 8) as (H1 & H2 & H3 & _); [simpl; lia|]. auto.
  Qed.
  Example grid_rectangle_counts : (grid_nx rect21 8, grid_nz rect21 8, length (surf_grid rect21 8)) = (32, 2, 64).  (* [tsqrt] of this dictionary is a placeholder (identity); no sqrt law is assumed *)
  Proof. vm_compute. reflexivity. Qed.
End NVB_C05F.

Module NVB_C05Room.
  Import Model.Exchange Model.Scene Model.Stokes Model.Nusselt Model.Tiling Model.Full Instances.RoomQc Properties.C05.
  #[local] Existing Instance RoomQc.QfOps.
  #[local] Existing Instance RoomQc.QfRing.
  #[local] Existing Instance RoomQc.QfOrder.
  #[local] Existing Instance RoomQc.QfField.

  (** C05_room_form_factors_computed on the room of RoomQc: floor (0) and ceiling (1) see each other,
      the patch of the wall at x = 5 (2) is hidden from both *)
  Example room_visible_pair : vis_sym (room_scene rmQ) 0 1 = true /\ vis_sym (room_scene rmQ) 0 2 = false.
  Proof. split; vm_compute; reflexivity. Qed.
  Example room_form_factors_applies :
    let sc := room_scene rmQ in
    get2 (s_F sc) 0 1 =
      (if coincidence_check (rm_thres rmQ) (nth 1 (rm_patch_pts rmQ) []) (nth 0 (rm_patch_pts rmQ) [])
       then nusselt_ff (rm_thr_seg rmQ) (rm_thr_dot rmQ) (rm_thr_lag rmQ)
              (nth 0 (rm_patch_pts rmQ) []) (nthv (pr_normals (rm_processed rmQ)) 0)
              (nth 1 (rm_patch_pts rmQ) []) (nthv (pr_normals (rm_processed rmQ)) 1)
       else stokes_integration (rm_cut rmQ) (nth 0 (rm_patch_pts rmQ) []) (nth 1 (rm_patch_pts rmQ) []) (area sc 0)) /\
    ff_full sc 0 2 = 0%T /\
    (area sc 0 * ff_full sc 0 1)%T = (area sc 1 * ff_full sc 1 0)%T.
  Proof.
    destruct (C05_room_form_factors_computed rmQ 0 1) as (_ & H2 & _ & H4).
    destruct (C05_room_form_factors_computed rmQ 0 2) as (_ & _ & H3 & _).
    destruct room_visible_pair as [V1 V2].
    assert (A0 : area (room_scene rmQ) 0 <> 0%T) by (apply rmQ_area_nz; vm_compute; lia).
    assert (A1 : area (room_scene rmQ) 1 <> 0%T) by (apply rmQ_area_nz; vm_compute; lia).
    split; [apply H2; [lia|vm_compute; lia|exact V1]|].
    split; [exact (proj1 (proj2 (H3 A0 V2)))|].
    apply H4; [lia|exact A0|exact A1].
  Qed.
  Example room_form_factor_not_zero : get2 (s_F (room_scene rmQ)) 0 1 <> 0%T.
  Proof. apply qf_neq. vm_compute. reflexivity. Qed.
End NVB_C05Room.

From SV Require Model.Visibility Spec.VisibilitySpec Proofs.VisibilityScan Proofs.VisibilitySym Proofs.VisibilitySegment
  Proofs.PipGeneral Proofs.PipTriangle Instances.VisibilityQc Properties.C07.

(** ** C07 over the rationals of VisibilityQc (ring, order, field, abs laws) *)
Module NVB_C07Q.
  Import Model.Exchange Model.Scene Model.Visibility Spec.VisibilitySpec Proofs.VisibilitySym
    Proofs.PipGeneral Proofs.PipTriangle Instances.VisibilityQc Properties.C07.
  #[local] Existing Instance VisibilityQc.VQcOps.
  #[local] Existing Instance VisibilityQc.VQcRing.
  #[local] Existing Instance VisibilityQc.VQcOrder.
  #[local] Existing Instance VisibilityQc.VQcField.
  #[local] Existing Instance VisibilityQc.VQcAbs.

  (** three patch centres, one blocking triangle: centres 0 and 1 are on opposite sides of the
      triangle (1,2,+-1), centre 2 is far away *)
  Definition centersV : list (@vec Qc) := [v3 1 2 1; v3 1 2 (-1); v3 5 5 5].
  Definition surfsV : list (@surface Qc) := [tri_surface].
  Definition scV : @scene Qc :=
    mkScene 3 1 1 centersV [vqc 1 1; vqc 1 1; vqc 1 1] [0; 1; 2] (check_patch2patch e6 e6 centersV surfsV)
            [] [] [] [] [] [].
  Example e6_nonneg : (0 <= e6)%T.
  Proof. vm_compute. reflexivity. Qed.

  Example scan_vis_sym_applies : vis_sym scV 0 2 = vis_sym scV 2 0.
  Proof. exact (C07_scan_vis_sym scV 0 2 (fun H => O_S _ H)). Qed.
  Example scan_pairs_applies :
    (In (0, 2) (vis_pairs scV) <->
     0 < 2 /\ 2 < length centersV /\
     forallb (basic_visibility e6 e6 (nthv centersV 0) (nthv centersV 2)) surfsV = true) /\
    vis_pairs scV = [(0, 2)].
  Proof.
    split; [exact (C07_scan_pairs e6 e6 scV centersV surfsV 0 2 eq_refl eq_refl)|vm_compute; reflexivity].
  Qed.
  Example symmetric_point_applies :
    project_to_plane false e6 (v3 1 2 1) (v3 1 2 (-1)) (v3 0 0 0) (v3 0 0 1) =
    project_to_plane false e6 (v3 1 2 (-1)) (v3 1 2 1) (v3 0 0 0) (v3 0 0 1) /\
    project_to_plane false e6 (v3 1 2 1) (v3 1 2 (-1)) (v3 0 0 0) (v3 0 0 1) = Some (v3 1 2 0).
  Proof.
    split; [exact (C07_symmetric_point e6 (v3 1 2 1) (v3 1 2 (-1)) (v3 0 0 0) (v3 0 0 1) e6_nonneg)|].
    vm_compute. reflexivity.
  Qed.
  Example symmetric_applies :
    basic_visibility e6 e6 (v3 1 2 1) (v3 1 2 (-1)) tri_surface = basic_visibility e6 e6 (v3 1 2 (-1)) (v3 1 2 1) tri_surface.
  Proof. exact (C07_symmetric e6 e6 (v3 1 2 1) (v3 1 2 (-1)) tri_surface e6_nonneg). Qed.
  Example symmetric_relation_applies :
    vis_sym scV 1 0 = forallb (basic_visibility e6 e6 (nthv centersV 1) (nthv centersV 0)) surfsV /\
    vis_sym scV 1 0 = false /\ vis_sym scV 2 0 = true.
  Proof.
    split; [|split; vm_compute; reflexivity].
    apply (C07_symmetric_relation e6 e6 scV centersV surfsV 1 0 e6_nonneg eq_refl); simpl; lia.
  Qed.

  (** C07_segment_logic_endpoint / _coplanar with [inpoly] := the model's own answer (so that
      [pip_correct_at] holds by definition; the rectangle versions below discharge it for real) *)
  Definition inpolyV (x : @vec Qc) : Prop := pip e6 e6 tri_surface x = true.
  Example segment_logic_endpoint_applies :
    (basic_visibility e6 e6 (v3 1 2 0) (v3 1 2 (-1)) tri_surface = false <->
       (vdot (s_nrm tri_surface) (vsub (v3 1 2 (-1)) (v3 1 2 0)) < 0)%T) /\
    basic_visibility e6 e6 (v3 1 2 0) (v3 1 2 (-1)) tri_surface = false /\
    basic_visibility e6 e6 (v3 1 2 0) (v3 1 2 1) tri_surface = true.
  Proof.
    split; [|split; vm_compute; reflexivity].
    assert (H1 : inpolyV (v3 1 2 0)) by (vm_compute; reflexivity).
    assert (H2 : pip_correct_at e6 e6 inpolyV tri_surface (v3 1 2 0)) by (unfold pip_correct_at, inpolyV; tauto).
    assert (H3 : (e6 < tabs (side_of tri_surface (v3 1 2 (-1))))%T) by (vm_compute; reflexivity).
    exact (proj1 (C07_segment_logic_endpoint e6 e6 inpolyV tri_surface (v3 1 2 0) (v3 1 2 (-1)) H1 H2 H3)).
  Qed.
  Example segment_logic_coplanar_applies :
    basic_visibility e6 e6 (v3 1 2 0) (v3 7 7 0) tri_surface = false.
  Proof.
    assert (H1 : (tabs (side_of tri_surface (v3 1 2 0)) < e6)%T) by (vm_compute; reflexivity).
    assert (H2 : (tabs (side_of tri_surface (v3 7 7 0)) < e6)%T) by (vm_compute; reflexivity).
    assert (H3 : pip_correct_at e6 e6 inpolyV tri_surface (v3 1 2 0)) by (unfold pip_correct_at, inpolyV; tauto).
    assert (H4 : pip_correct_at e6 e6 inpolyV tri_surface (v3 7 7 0)) by (unfold pip_correct_at, inpolyV; tauto).
    assert (H5 : inpolyV (v3 1 2 0) \/ inpolyV (v3 7 7 0)) by (left; vm_compute; reflexivity).
    exact (C07_segment_logic_coplanar e6 e6 inpolyV tri_surface (v3 1 2 0) (v3 7 7 0) H1 H2 H3 H4 H5).
  Qed.
  Example partial_applies : point_in_polygon e6 e6 (v3 1 2 1) (s_pts tri_surface) (s_nrm tri_surface) = false.
  Proof.
    assert (H : (e6 < tabs (side_of tri_surface (v3 1 2 1)))%T) by (vm_compute; reflexivity).
    exact (C07_partial e6 e6 tri_surface (v3 1 2 1) H).
  Qed.

  (** C07_crossing_triangle (ordered ring only): the triangle (0,0) (4,3) (0,6) and the point (1,2) *)
  Example crossing_triangle_applies :
    (crossing_number (v3 1 2 0) [v3 0 0 0; v3 4 3 0; v3 0 6 0] <> 0%Z <->
     inside_tri (v3 0 0 0) (v3 4 3 0) (v3 0 6 0) (v3 1 2 0)) /\
    crossing_number (v3 1 2 0) [v3 0 0 0; v3 4 3 0; v3 0 6 0] = (-1)%Z.
  Proof.
    split; [|vm_compute; reflexivity].
    apply C07_crossing_triangle; intros H; apply (f_equal this) in H; vm_compute in H; discriminate H.
  Qed.
End NVB_C07Q.

From SV Require Model.Visibility Spec.VisibilitySpec Proofs.VisibilitySym Proofs.VisibilitySegment
  Proofs.PipRect Proofs.PipRectSurface Proofs.PipGeneral Proofs.PipTriangle Proofs.FullVisibility
  Instances.InstR Instances.PipRectR Instances.PipTriangleR Properties.C07.

(** ** C07 over the reals of InstR (ring, order, field, sqrt laws): one rectangle / one triangle *)
Module NVB_C07R.
  Import Model.Visibility Spec.VisibilitySpec Proofs.PipRect Proofs.PipRectSurface Proofs.PipGeneral
    Proofs.PipTriangle Proofs.FullVisibility Instances.InstR Instances.PipRectR Instances.PipTriangleR Properties.C07.
  Local Open Scope R_scope.

  Definition ctr : @vec R := (1 / 2, 1 / 2, 0).
  Lemma ctr_gate : tle (tabs (side_of (rect_surface floorR) ctr)) e6R.
  Proof. unfold ctr. r_le. apply Rabs_small. lra. Qed.
  Lemma ctr_off : off_bands e6R floorR ctr.
  Proof. apply off_bands_line; auto. Qed.
  Lemma ctr_in : in_rect floorR ctr.
  Proof. unfold ctr. split; left; split; r_lt; lra. Qed.
  Lemma e6R_pos : tlt 0 e6R.
  Proof. r_lt. lra. Qed.

  (** C07_pip_correct_rect_closed at the centre of the unit-square floor *)
  Example pip_correct_rect_closed_applies :
    pip e6R e6R (rect_surface floorR) ctr = true <-> in_rect_closed floorR ctr.
  Proof.
    destruct floorR_tolerances as (H1 & H2 & H3 & H4 & H5).
    exact (C07_pip_correct_rect_closed e6R e6R e6R floorR ctr H1 H2 H3 H4 H5 ctr_gate ctr_off).
  Qed.

  (** C07_pip_correct_rect_horizontal: the unit square listed from (0,0,0), normal +z *)
  Example pip_correct_rect_horizontal_applies :
    point_in_polygon e6R e6R ctr [mkv 0 0 0; mkv 1 0 0; mkv 1 1 0; mkv 0 1 0] (mkv 0 0 (sgn true))%T = true
    <-> ((tlt 0 (vx ctr) /\ tlt (vx ctr) 1) /\ (tlt 0 (vy ctr) /\ tlt (vy ctr) 1)).
  Proof.
    destruct floorR_tolerances as (H1 & H2 & H3 & H4 & _).
    apply (C07_pip_correct_rect_horizontal e6R e6R e6R 0 1 0 1 0 true _ ctr H1 H2 H3 H4).
    - r_lt. lra.
    - r_lt. lra.
    - left. reflexivity.
    - unfold ctr. r_le. apply Rabs_small. lra.
    - unfold ctr. r_lt. apply Rabs_gt. lra.
    - unfold ctr. r_lt. apply Rabs_gt. lra.
    - unfold ctr. r_lt. apply Rabs_gt. lra.
    - unfold ctr. r_lt. apply Rabs_gt. lra.
  Qed.

  (** C07_segment_logic_rect_endpoint: one end at the centre of the floor, the other 1 below it *)
  Example segment_logic_rect_endpoint_applies :
    basic_visibility e6R e6R ctr (1 / 2, 1 / 2, -1) (rect_surface floorR) = false /\
    basic_visibility e6R e6R (1 / 2, 1 / 2, -1) ctr (rect_surface floorR) = false.
  Proof.
    destruct floorR_tolerances as (H1 & H2 & H3 & H4 & H5).
    destruct (vertical_segment_hyps (1 / 2) (1 / 2)) as (_ & Hq & _); auto.
    destruct (C07_segment_logic_rect_endpoint e6R e6R e6R floorR ctr (1 / 2, 1 / 2, -1)
                H1 H2 H3 H4 H5 ctr_gate ctr_off ctr_in Hq) as [A B].
    assert (Hb : tlt (vdot (s_nrm (rect_surface floorR)) (vsub (1 / 2, 1 / 2, -1) ctr)) 0).
    { unfold ctr. r_lt. lra. }
    split; [exact (proj2 A Hb)|exact (proj2 B Hb)].
  Qed.

  (** C07_segment_logic_rect_coplanar: the centre and a point of the plane outside the floor *)
  Example segment_logic_rect_coplanar_applies :
    basic_visibility e6R e6R ctr (2, 2, 0) (rect_surface floorR) = false.
  Proof.
    destruct floorR_tolerances as (H1 & H2 & H3 & H4 & H5).
    apply (C07_segment_logic_rect_coplanar e6R e6R e6R floorR ctr (2, 2, 0) H1 H2 H3 H4 H5).
    - unfold ctr. r_lt. rewrite Rabs_right; lra.
    - r_lt. rewrite Rabs_right; lra.
    - exact ctr_off.
    - apply off_bands_line; auto.
    - left. exact ctr_in.
  Qed.

  (** C07_blocked_iff_rect: the vertical segment through the centre is in general position (both
      ends off the plane, the crossing point off the bands) and blocked *)
  Example blocked_iff_rect_applies :
    gen_pos e6R e6R e6R floorR (1 / 2, 1 / 2, 1) (1 / 2, 1 / 2, -1) /\
    (basic_visibility e6R e6R (1 / 2, 1 / 2, 1) (1 / 2, 1 / 2, -1) (rect_surface floorR) = false <->
     blocked floorR (1 / 2, 1 / 2, 1) (1 / 2, 1 / 2, -1)).
  Proof.
    destruct floorR_tolerances as (H1 & H2 & H3 & H4 & H5).
    destruct (vertical_segment_hyps (1 / 2) (1 / 2)) as (Hp & Hq & Hoff); auto.
    assert (G : gen_pos e6R e6R e6R floorR (1 / 2, 1 / 2, 1) (1 / 2, 1 / 2, -1)).
    { left. split; [split; exact Hp|]. split; [split; exact Hq|]. intros t _ _. apply Hoff. }
    split; [exact G|].
    exact (C07_blocked_iff_rect e6R e6R e6R floorR _ _ H1 H2 e6R_pos H4 H5 G).
  Qed.

  (** C07_winding_general_position / C07_pip_general_position: the triangle (0,0) (4,3) (0,6) and
      the point (1,2) (PipTriangleR shows the three sides are in general position) *)
  Lemma tri_sides_all (s : @vec R * @vec R) :
    In s (sides [tA; tB; tC]) -> side_gp e6R e6R (1, 2, 0) s.
  Proof.
    destruct (tri_sides_gp 1) as (G0 & G1 & G2).
    intros [<-|[<-|[<-|[]]]]; assumption.
  Qed.
  Example winding_general_position_applies :
    winding e6R e6R (1, 2, 0) [tA; tB; tC] = crossing_number (1, 2, 0) [tA; tB; tC].
  Proof.
    destruct floorR_tolerances as (H1 & _ & H3 & H4 & _).
    apply (C07_winding_general_position e6R e6R e6R (1, 2, 0) [tA; tB; tC] H1 H3 H4).
    - reflexivity.
    - intros v [<-|[<-|[<-|[]]]]; reflexivity.
    - exact tri_sides_all.
  Qed.
  Example pip_general_position_applies :
    point_in_polygon e6R e6R (1, 2, 0) [tA; tB; tC] (axis_normal AxZ true)
    = negb (Z.eqb (crossing_number (proj2d AxZ true (1, 2, 0)) (map (proj2d AxZ true) [tA; tB; tC])) 0%Z).
  Proof.
    destruct floorR_tolerances as (H1 & _ & H3 & H4 & _).
    apply (C07_pip_general_position e6R e6R e6R (1, 2, 0) [tA; tB; tC] AxZ true H1 H3 H4).
    - exact (tri_gate 1).
    - exact tri_sides_all.
  Qed.
End NVB_C07R.

From SV Require Model.Scene Model.Tiling Model.Visibility Model.Full Spec.VisibilitySpec Proofs.PipRectSurface
  Proofs.FullVisibility Proofs.FullShoebox Instances.ShoeboxR Properties.C04 Properties.C07.

(** ** C07 / C04: the composed room model on the shoebox room of ShoeboxR (ring, order, field,
    floor AND sqrt laws: the dictionary [RAll]) *)
Module NVB_C07Box.
  Import Model.Exchange Model.Scene Model.Tiling Model.Visibility Model.Full Spec.VisibilitySpec
    Proofs.PipRectSurface Proofs.FullVisibility Proofs.FullShoebox Instances.ShoeboxR Properties.C07 RAll.
  Local Open Scope R_scope.

  Example box_axis_walls : axis_walls boxR /\ (6 <= rm_np boxR)%nat.
  Proof. exact (C07_shoebox_axis_walls boxR 0 4 0 3 0 2 boxR_is_shoebox). Qed.
  Example box_patches_are_rects : exists rs, rects_of (rm_patch_surfs boxR) rs.
  Proof. exact (C07_room_patches_are_rects boxR (proj1 box_axis_walls)). Qed.

  Lemma box_tol : (0 <= rm_eps boxR)%T /\ (rm_eps boxR < 1)%T /\ (0 < rm_eta boxR)%T /\
                  (rm_eta boxR <= e6 + e6)%T.
  Proof.
    destruct boxR_tolerances as (H1 & H2 & H3 & _). split; [exact H1|]. split; [exact H2|]. split; [exact H3|].
    apply (proj2 (tle_iff _ _)). cbn [rm_eta boxR tadd RFOps]. unfold e6. lra.
  Qed.

  (** C07_room_visibility_geometric with its general-position hypothesis discharged by
      C07_shoebox_general_position: for EVERY pair of patches of the box *)
  Example room_visibility_geometric_applies :
    exists rs, rects_of (rm_patch_surfs boxR) rs /\
      forall i j, (i < j)%nat -> (j < rm_np boxR)%nat ->
        (vis_sym (room_scene boxR) i j = true <->
         forall r, In r rs -> ~ blocked r (nthv (rm_centers boxR) i) (nthv (rm_centers boxR) j)).
  Proof.
    destruct boxR_general_position as (rs & Hrs & Hgp).
    destruct box_tol as (H1 & H2 & H3 & H4).
    exists rs. split; [exact Hrs|]. intros i j Hij Hj.
    apply (C07_room_visibility_geometric boxR rs e6 i j H1 H2 H3 H4 Hrs Hij Hj).
    intros r Hr. apply Hgp; [lia|exact Hj|exact Hr].
  Qed.
  Example room_visibility_geometric_shoebox_applies :
    exists rs, rects_of (rm_patch_surfs boxR) rs /\
      forall i j, (i < j)%nat -> (j < rm_np boxR)%nat ->
        (forall r, In r rs ->
           gen_pos (rm_eps boxR) (rm_eta boxR) e6 r (nthv (rm_centers boxR) i) (nthv (rm_centers boxR) j)) ->
        (vis_sym (room_scene boxR) i j = true <->
         forall r, In r rs -> ~ blocked r (nthv (rm_centers boxR) i) (nthv (rm_centers boxR) j)).
  Proof.
    destruct box_tol as (H1 & H2 & H3 & H4).
    exact (C07_room_visibility_geometric_shoebox boxR e6 H1 H2 H3 H4 (proj1 box_axis_walls)).
  Qed.
  Example room_center_is_rect_centroid_applies :
    exists rs, rects_of (rm_patch_surfs boxR) rs /\
      forall i, (i < rm_np boxR)%nat -> nthv (rm_centers boxR) i = centroid (rect_pts (nth i rs drect)).
  Proof.
    destruct box_patches_are_rects as (rs & Hrs). exists rs. split; [exact Hrs|].
    intros i Hi. exact (C07_room_center_is_rect_centroid boxR rs i Hrs Hi).
  Qed.

  (** C07_rect_own_centroid: the unit-square floor, margin 1e-6 *)
  Definition floorF : @rect R := mkrect AxZ true 0 0 1 0 1 false.
  Example rect_own_centroid_applies :
    pt_on e6 floorF (centroid (rect_pts floorF)) /\ in_rect floorF (centroid (rect_pts floorF)).
  Proof.
    apply C07_rect_own_centroid.
    - split; cbn [r_ua r_ub r_va r_vb floorF]; lra.
    - apply (proj2 (tlt_iff _ _)). cbn [r_ua r_ub floorF tadd tsub tabs RFOps]. unfold e6.
      rewrite Rabs_right; lra.
    - apply (proj2 (tlt_iff _ _)). cbn [r_va r_vb floorF tadd tsub tabs RFOps]. unfold e6.
      rewrite Rabs_right; lra.
  Qed.

  (** C04_shoebox_all_patches_visible and C07_shoebox_point_visibility at the source of ShoeboxR *)
  Example shoebox_all_patches_visible_applies k : (k < rm_np boxR)%nat ->
    nthb (src_vis (room_source boxR srcR)) k = true /\ nthb (r_vis (room_receiver boxR srcR)) k = true.
  Proof.
    exact (C04.C04_shoebox_all_patches_visible boxR 0 4 0 3 0 2 srcR boxR_is_shoebox boxR_tolerances srcR_inside k).
  Qed.
  Example shoebox_point_visibility_applies :
    (forall k, (k < rm_np boxR)%nat -> nthb (room_point_vis boxR srcR) k = true) /\
    room_point_vis boxR srcR = repeat true (rm_np boxR).
  Proof. exact (C07_shoebox_point_visibility boxR 0 4 0 3 0 2 srcR boxR_is_shoebox boxR_tolerances srcR_inside). Qed.
  Example shoebox_visibility_applies i j : (i < j)%nat -> (j < rm_np boxR)%nat ->
    (vis_sym (room_scene boxR) i j = true <-> wall (room_scene boxR) i <> wall (room_scene boxR) j).
  Proof. exact (C07_shoebox_visibility boxR 0 4 0 3 0 2 boxR_is_shoebox boxR_tolerances i j). Qed.
  Example shoebox_general_position_applies :
    exists rs, rects_of (rm_patch_surfs boxR) rs /\
      forall i j, (i < rm_np boxR)%nat -> (j < rm_np boxR)%nat -> forall r, In r rs ->
        gen_pos (rm_eps boxR) (rm_eta boxR) e6 r (nthv (rm_centers boxR) i) (nthv (rm_centers boxR) j).
  Proof.
    destruct boxR_tolerances as (_ & _ & H3 & H4 & H5).
    exact (C07_shoebox_general_position boxR 0 4 0 3 0 2 e6 boxR_is_shoebox H3 H4 H5 H5).
  Qed.
End NVB_C07Box.

(** ** C08_patch_area needs floor AND sqrt laws: the floor [0,4] x [0,3] of the box, patch size 1, over [RAll] *)
From SV Require Proofs.TilingProofs Properties.C08.
Module NVB_C08R.
  Import Model.Tiling Proofs.TilingProofs Proofs.FullShoebox Instances.ShoeboxR Properties.C08 RAll.
  Local Open Scope R_scope.
  Definition floorQ : @quad R := sb_quad 0 4 0 3 0 2 2 0.
  Lemma floorQ_ok : wall_ok floorQ 1 2 0.
  Proof.
    apply (sb_wall_ok 0 4 0 3 0 2).
    all: try lia.
    all: try (apply (proj2 (tlt_iff _ _)); cbn [tzero tone tsub RFOps]; lra).
    all: try (apply (proj2 (tle_iff _ _)); cbn [tzero tone tsub RFOps]; lra).
  Qed.
  Example patch_area_applies :
    (forall P, In P (create_patches floorQ 1) ->
       patch_area P = (size floorQ (px 2) / tofnat (patch_num floorQ 1 (px 2)) *
                       (size floorQ (py 2) / tofnat (patch_num floorQ 1 (py 2))))%T) /\
    sumf (create_patches floorQ 1) patch_area = (size floorQ (px 2) * size floorQ (py 2))%T.
  Proof. exact (C08_patch_area floorQ 1 2 0 floorQ_ok). Qed.
  (** ... and the wall has patches: the statement about [In P] is not empty *)
  Example floorQ_has_patches : (1 <= length (create_patches floorQ 1%R))%nat.
  Proof.
    destruct (C08_count floorQ 1 2 0 floorQ_ok) as (_ & _ & Nx & Ny & -> & _).
    exact (Nat.mul_le_mono 1 _ 1 _ Nx Ny).
  Qed.
End NVB_C08R.

From SV Require Model.Tiling Proofs.TilingLists Proofs.TilingProofs Proofs.TilingPerm Instances.TilingQc Properties.C08.

(** ** C08 over the rationals of TilingQc (ring, order, field, floor laws): the wall [wallQ]
    ([1/2,3] x [-1,1/3] in the plane y = 7/4, vertices in a rotated reversed order), patch size 3/5,
    4 x 2 patches *)
Module NVB_C08.
  Import Model.Tiling Proofs.TilingLists Proofs.TilingProofs Proofs.TilingPerm Instances.TilingQc Properties.C08.
  #[local] Existing Instance TilingQc.QcOps.
  #[local] Existing Instance TilingQc.QcRing.
  #[local] Existing Instance TilingQc.QcOrder.
  #[local] Existing Instance TilingQc.QcField.
  #[local] Existing Instance TilingQc.QcFloor.

  Ltac cmp := vm_compute; reflexivity.

  Example count_applies :
    axes wallQ pQ = Some (px 1, py 1) /\ patch_num wallQ pQ 1 = 0 /\
    1 <= patch_num wallQ pQ (px 1) /\ 1 <= patch_num wallQ pQ (py 1) /\
    length (create_patches wallQ pQ) = patch_num wallQ pQ (px 1) * patch_num wallQ pQ (py 1) /\
    total_number_of_patches wallQ pQ = patch_num wallQ pQ (px 1) * patch_num wallQ pQ (py 1).
  Proof. exact (C08_count wallQ pQ 1 (qq 7 4) wallQ_ok). Qed.
  Example count_is_floor_applies :
    (tofnat (patch_num wallQ pQ 0) * pQ <= size wallQ 0)%T /\ (size wallQ 0 < tofnat (S (patch_num wallQ pQ 0)) * pQ)%T.
  Proof. exact (C08_count_is_floor wallQ pQ 1 (qq 7 4) 0 wallQ_ok (or_introl eq_refl)). Qed.

  Example cell_applies :
    let P := nth (2 * patch_num wallQ pQ (py 1) + 1) (create_patches wallQ pQ) dquad in
    is_rect (px 1) (py 1) P
      (gline (col_min wallQ (px 1)) (real_size wallQ pQ (px 1)) 2) (gline (col_min wallQ (px 1)) (real_size wallQ pQ (px 1)) 3)
      (gline (col_min wallQ (py 1)) (real_size wallQ pQ (py 1)) 1) (gline (col_min wallQ (py 1)) (real_size wallQ pQ (py 1)) 2) /\
    flat_kept 1 wallQ P /\ planar P 1 (qq 7 4).
  Proof. apply (C08_cell wallQ pQ 1 (qq 7 4) 2 1 dquad wallQ_ok); vm_compute; lia. Qed.

  Example congruent_applies :
    let P := nth 5 (create_patches wallQ pQ) dquad in
    (vget (q1 P) (px 1) - vget (q0 P) (px 1))%T = (size wallQ (px 1) / tofnat (patch_num wallQ pQ (px 1)))%T /\
    (vget (q3 P) (py 1) - vget (q0 P) (py 1))%T = (size wallQ (py 1) / tofnat (patch_num wallQ pQ (py 1)))%T /\
    (vget (q2 P) (px 1) - vget (q3 P) (px 1))%T = (size wallQ (px 1) / tofnat (patch_num wallQ pQ (px 1)))%T /\
    (vget (q2 P) (py 1) - vget (q1 P) (py 1))%T = (size wallQ (py 1) / tofnat (patch_num wallQ pQ (py 1)))%T.
  Proof. apply (C08_congruent wallQ pQ 1 (qq 7 4) 5 dquad wallQ_ok). vm_compute. lia. Qed.

  (** the point (2, 0) is an interior point of cell 5 and of no other cell, e.g. not of cell 4 *)
  Example in_cell5 : in_interior (px 1) (py 1) (nth 5 (create_patches wallQ pQ) dquad) (qq 2 1) (qq 0 1).
  Proof. repeat split; cmp. Qed.
  Example disjoint_applies :
    ~ (in_interior (px 1) (py 1) (nth 5 (create_patches wallQ pQ) dquad) (qq 2 1) (qq 0 1) /\
       in_interior (px 1) (py 1) (nth 4 (create_patches wallQ pQ) dquad) (qq 2 1) (qq 0 1)).
  Proof. apply (C08_disjoint wallQ pQ 1 (qq 7 4) 5 4 dquad (qq 2 1) (qq 0 1) wallQ_ok); vm_compute; lia. Qed.
  Example cover_applies :
    exists k, k < length (create_patches wallQ pQ) /\
              in_closed (px 1) (py 1) (nth k (create_patches wallQ pQ) dquad) (qq 2 1) (qq 0 1).
  Proof. apply (C08_cover wallQ pQ 1 (qq 7 4) dquad (qq 2 1) (qq 0 1) wallQ_ok); cmp. Qed.
  Example inside_applies :
    (col_min wallQ (px 1) <= qq 2 1)%T /\ (qq 2 1 <= col_max wallQ (px 1))%T /\
    (col_min wallQ (py 1) <= qq 0 1)%T /\ (qq 0 1 <= col_max wallQ (py 1))%T.
  Proof.
    apply (C08_inside wallQ pQ 1 (qq 7 4) 5 dquad (qq 2 1) (qq 0 1) wallQ_ok); [vm_compute; lia|].
    repeat split; cmp.
  Qed.

  (** C08_rect_wall_extents: the wall in canonical order and the same vertices in the order of [wallQ] *)
  Definition wallQ_canon : @quad Qc :=
    mkQuad (pt (qq 1 2) (qq 7 4) (qq (-1) 1)) (pt (qq 3 1) (qq 7 4) (qq (-1) 1))
           (pt (qq 3 1) (qq 7 4) (qq 1 3)) (pt (qq 1 2) (qq 7 4) (qq 1 3)).
  Example same_vertices : forall v, In v (verts wallQ) <-> In v (verts wallQ_canon).
  Proof. intros v. unfold verts, wallQ, wallQ_canon. cbn [q0 q1 q2 q3 In]. tauto. Qed.
  Example rect_wall_extents_applies :
    col_min wallQ 0 = qq 1 2 /\ col_max wallQ 0 = qq 3 1 /\ col_min wallQ 2 = qq (-1) 1 /\ col_max wallQ 2 = qq 1 3.
  Proof.
    apply (C08_rect_wall_extents wallQ_canon wallQ 0 2 (qq 1 2) (qq 3 1) (qq (-1) 1) (qq 1 3)).
    - repeat split.
    - cmp.
    - cmp.
    - exact same_vertices.
  Qed.

  Example vertex_order_applies : create_patches wallQ_canon pQ = create_patches wallQ pQ.
  Proof.
    apply (C08_vertex_order wallQ wallQ_canon pQ 1 (qq 7 4) wallQ_ok).
    intros v. symmetry. exact (same_vertices v).
  Qed.

  (** C08_depends_on_extents, with the hypotheses checked one by one *)
  Example depends_on_extents_applies : create_patches wallQ_canon pQ = create_patches wallQ pQ.
  Proof.
    assert (H1 : axes wallQ pQ = Some (px 1, py 1)) by cmp.
    assert (H2 : forall a, col_min wallQ_canon a = col_min wallQ a) by (intros [|[|[|a]]]; cmp).
    assert (H3 : forall a, col_max wallQ_canon a = col_max wallQ a) by (intros [|[|[|a]]]; cmp).
    exact (C08_depends_on_extents wallQ wallQ_canon pQ 1 ltac:(lia) H1 H2 H3 eq_refl eq_refl eq_refl eq_refl).
  Qed.

  (** C08_wall_attribution / C08_wall_block on two walls *)
  Definition walls2 : list (@quad Qc) := [wallQ; translate_quad (pt (qq 1 1) (qq 2 1) (qq 0 1)) wallQ].
  Definition normals2 : list (@vec Qc) := [pt (qq 0 1) (qq 1 1) (qq 0 1); pt (qq 0 1) (qq (-1) 1) (qq 0 1)].
  Example wall_attribution_applies :
    (nth 11 (pr_wall_ids (process walls2 normals2 pQ)) 7 = 1 <->
     prefix_sum (map (fun q => total_number_of_patches q pQ) walls2) 1 <= 11
       < prefix_sum (map (fun q => total_number_of_patches q pQ) walls2) 2) /\
    prefix_sum (map (fun q => total_number_of_patches q pQ) walls2) 1 = 8 /\
    prefix_sum (map (fun q => total_number_of_patches q pQ) walls2) 2 = 16.
  Proof.
    split; [|split; cmp].
    apply (proj2 (C08_wall_attribution walls2 normals2 pQ 11 1 7)); vm_compute; lia.
  Qed.
  Example wall_block_applies :
    nth (8 + 3) (pr_points (process walls2 normals2 pQ)) dquad = nth 3 (create_patches (nth 1 walls2 dquad) pQ) dquad /\
    nth (8 + 3) (pr_wall_ids (process walls2 normals2 pQ)) 7 = 1 /\
    nth (8 + 3) (pr_normals (process walls2 normals2 pQ)) vzero = nthv normals2 1.
  Proof.
    change 8 with (prefix_sum (map (fun q => total_number_of_patches q pQ) walls2) 1) at 1 2 3.
    apply (C08_wall_block walls2 normals2 pQ 1 3 dquad vzero 7); vm_compute; lia.
  Qed.

  (** C08_axis_permutation_index / _vertices with the signed permutation of TilingQc *)
  Example axis_permutation_index_applies :
    exists f' (sw sx sy : bool), f' < 3 /\ sigmaQ f' = 1 /\
      patch_num (map_quad mQ wallQ) pQ (px f') = (if sw then patch_num wallQ pQ (py 1) else patch_num wallQ pQ (px 1)).
  Proof.
    destruct (C08_axis_permutation_index sigmaQ (- (1))%T 1%T (- (1))%T wallQ pQ 1 (qq 7 4) sigmaQ_perm
                (or_intror eq_refl) (or_introl eq_refl) (or_intror eq_refl) wallQ_ok)
      as (f' & sw & sx & sy & H1 & H2 & _ & _ & _ & H6 & _).
    exists f', sw, sx, sy. exact (conj H1 (conj H2 H6)).
  Qed.
  Example axis_permutation_vertices_applies :
    exists L, Permutation (create_patches (map_quad mQ wallQ) pQ) L /\
      Forall2 (fun Q' Q => Permutation (verts Q') (map mQ (verts Q))) L (create_patches wallQ pQ).
  Proof.
    exact (C08_axis_permutation_vertices sigmaQ (- (1))%T 1%T (- (1))%T wallQ pQ 1 (qq 7 4) sigmaQ_perm
             (or_intror eq_refl) (or_introl eq_refl) (or_intror eq_refl) wallQ_ok).
  Qed.
End NVB_C08.

From SV Require Model.Brdf Spec.BrdfSpec Proofs.BrdfProofs Instances.BrdfQc Properties.C13.

(** ** C13 over the rationals of BrdfQc: the 4-direction Gauss-type sampling [w4], [cos4], [mu4] *)
Module NVB_C13.
  Import Model.Exchange Model.Brdf Spec.BrdfSpec Proofs.BrdfProofs Instances.BrdfQc Properties.C13.
  #[local] Existing Instance BrdfQc.QcOps.
  #[local] Existing Instance BrdfQc.QcRing.
  #[local] Existing Instance BrdfQc.QcOrder.
  #[local] Existing Instance BrdfQc.QcField.

  Ltac qc_neq0 := let H := fresh in intros H; apply (f_equal this) in H; vm_compute in H; discriminate H.

  (** C13_energy with all four conjuncts (BrdfQc applies the first one) *)
  Example energy_applies i b : i < 4 -> b < 3 ->
    let B := from_scattering 4 3 cos4 w4 mu4 s3 a3 in
    let wh := norm_weights w4 in
    reflected 4 B cos4 wh i b = (1 - nthT a3 b)%T
    /\ (forall o, o < 4 ->
          get3 B i o b = (diffuse_part s3 a3 b
                          + (if o =? nthn mu4 i then specular_part cos4 wh mu4 s3 a3 i b else 0))%T)
    /\ sumf (seq 0 4) (fun o => (diffuse_part s3 a3 b * nthT cos4 o * nthT wh o)%T)
       = (nthT s3 b * (1 - nthT a3 b))%T
    /\ (specular_part cos4 wh mu4 s3 a3 i b * nthT cos4 (nthn mu4 i) * nthT wh (nthn mu4 i))%T
       = ((1 - nthT s3 b) * (1 - nthT a3 b))%T.
  Proof. intros Hi Hb. exact (C13_energy 4 3 w4 cos4 mu4 s3 a3 i b ex_len ex_H1 ex_H2 ex_H3 ex_pi Hi Hb). Qed.

  (** C13_scale_invariant: factor 1/3 *)
  Example scale_invariant_applies :
    norm_weights (map (tmul (qc 1 3)) w4) = norm_weights w4
    /\ from_scattering 4 3 cos4 (map (tmul (qc 1 3)) w4) mu4 s3 a3 = from_scattering 4 3 cos4 w4 mu4 s3 a3
    /\ from_directional 4 4 3 cos4 (map (tmul (qc 1 3)) w4) ds4 a3 = from_directional 4 4 3 cos4 w4 ds4 a3.
  Proof. apply C13_scale_invariant; qc_neq0. Qed.

  Example mu4_in_range : forall j, j < 4 -> nthn mu4 j < 4.
  Proof. intros j Hj. do 4 (destruct j as [|j]; [cbv; lia|]). lia. Qed.
  Example nonneg_applies i o b : i < 4 -> o < 4 -> b < 3 ->
    (0 <= get3 (from_scattering 4 3 cos4 w4 mu4 s3 a3) i o b)%T.
  Proof. exact (C13_nonneg 4 3 w4 cos4 mu4 s3 a3 i o b ex_len mu4_in_range ex_H3 ex_pi ex_s ex_a). Qed.

  Example a2_unit : unit_interval 2 (firstn 2 a3).
  Proof. intros b Hb. do 2 (destruct b as [|b]; [split; vm_compute; reflexivity|]). lia. Qed.
  Example ds4_nonneg i o b : i < 4 -> o < 4 -> b < 2 -> (0 <= get3 ds4 i o b)%T.
  Proof.
    intros Hi Ho Hb.
    do 4 (destruct i as [|i]; [do 4 (destruct o as [|o]; [do 2 (destruct b as [|b]; [vm_compute; reflexivity|]); lia|]); lia|]).
    lia.
  Qed.
  Example nonneg_directional_applies i o b : i < 4 -> o < 4 -> b < 2 ->
    (0 <= get3 (from_directional 4 4 2 cos4 w4 ds4 (firstn 2 a3)) i o b)%T.
  Proof.
    intros Hi Ho Hb.
    exact (C13_nonneg_directional 4 4 2 w4 cos4 ds4 (firstn 2 a3) i o b ex_len ex_H3 ex_pi a2_unit
             (ds4_nonneg i o b Hi Ho Hb) Hi Ho Hb).
  Qed.
End NVB_C13.

From SV Require Model.Frame Proofs.FrameProofs Instances.BrdfQc Properties.C14.

(** ** C14 over the rationals of BrdfQc (ring and order laws): an oblique orthonormal wall frame
    n = (2,2,-1)/3, up = (-1,2,2)/3 and four unit sample directions *)
Module NVB_C14.
  Import Model.Exchange Model.Frame Proofs.FrameProofs Instances.BrdfQc Properties.C14.
  #[local] Existing Instance BrdfQc.QcOps.
  #[local] Existing Instance BrdfQc.QcRing.
  #[local] Existing Instance BrdfQc.QcOrder.

  Ltac qc_eq := apply Qc_is_canon; vm_compute; reflexivity.
  Definition nQ : @vec Qc := (qc 2 3, qc 2 3, qc (-1) 3).
  Definition uQ : @vec Qc := (qc (-1) 3, qc 2 3, qc 2 3).
  Example frame_orthonormal : orthonormal nQ uQ.
  Proof. repeat split; qc_eq. Qed.

  (** unit vectors (3,0,4)/5, (0,3,4)/5, (0,0,1), (4,0,3)/5 *)
  Definition dirsQ : list (@vec Qc) :=
    [(qc 3 5, qc 0 1, qc 4 5); (qc 0 1, qc 3 5, qc 4 5); (qc 0 1, qc 0 1, qc 1 1); (qc 4 5, qc 0 1, qc 3 5)].
  Definition vQ : @vec Qc := (qc 12 13, qc 0 1, qc 5 13).

  Example rigid_applies (v w : @vec Qc) :
    vdot (rot nQ uQ v) (rot nQ uQ w) = vdot v w /\
    rot nQ uQ (mkv 0 0 1)%T = nQ /\ rot nQ uQ (mkv 1 0 0)%T = uQ /\
    vdot (rot nQ uQ v) nQ = vz v /\
    (vnorm2 v = 1%T -> vnorm2 (rot nQ uQ v) = 1%T).
  Proof. exact (C14_rigid nQ uQ v w frame_orthonormal). Qed.
  Example rigid_moves : rot nQ uQ vQ = (qc (-2) 39, qc 34 39, qc 19 39).
  Proof. unfold rot, vadd, vscale, mkv. repeat f_equal; qc_eq. Qed.

  Example argmin_applies :
    let k := nearest dirsQ vQ in
    k < length dirsQ /\
    (forall i, i < length dirsQ -> (vdist2 (nthv dirsQ k) vQ <= vdist2 (nthv dirsQ i) vQ)%T) /\
    (forall i, i < k -> (vdist2 (nthv dirsQ k) vQ < vdist2 (nthv dirsQ i) vQ)%T).
  Proof. apply (C14_argmin dirsQ vQ). discriminate. Qed.
  Example argmin_value : nearest dirsQ vQ = 3.
  Proof. vm_compute. reflexivity. Qed.

  Example angle_applies :
    vdist2 (nthv dirsQ 0) vQ = ((1 + 1) - (1 + 1) * vdot (nthv dirsQ 0) vQ)%T.
  Proof. apply C14_angle; qc_eq. Qed.

  Example frame_equiv_applies :
    nearest (map (rot nQ uQ) dirsQ) (rot nQ uQ vQ) = nearest dirsQ vQ /\ rotT nQ uQ (rot nQ uQ vQ) = vQ.
  Proof. exact (C14_frame_equiv nQ uQ dirsQ vQ frame_orthonormal). Qed.
  Example frame_complete_applies :
    rot nQ uQ (rotT nQ uQ vQ) = vQ /\
    nearest (map (rot nQ uQ) dirsQ) vQ = nearest dirsQ (rotT nQ uQ vQ).
  Proof. exact (C14_frame_complete nQ uQ dirsQ vQ frame_orthonormal). Qed.
  (** the rotated lookup is not the unrotated one: the frame matters *)
  Example frame_matters : nearest (map (rot nQ uQ) dirsQ) vQ = 1 /\ nearest dirsQ vQ = 3.
  Proof. split; vm_compute; reflexivity. Qed.
End NVB_C14.

From SV Require Model.Object Spec.ObjectSpec Proofs.ObjectProofs Proofs.ObjectThms Proofs.ObjectBisimThm
  Proofs.ObjectConfig Proofs.ObjectTail Proofs.ObjectTailSim Instances.ObjectExamples Properties.C15 Properties.C16.

(** ** C15 / C16: the pipeline history [pipe0] of ObjectExamples (6 walls, 10 patches) *)
Module NVB_C15.
  Import Model.Object Spec.ObjectSpec Proofs.ObjectBisimThm Instances.ObjectExamples Properties.C15.

  Definition sP : ostate := run0 pipe0.
  Example sP_wf : wf sP.
  Proof. intro f; destruct f; vm_compute; reflexivity. Qed.
  Example sP_check : ocheck g0 sP = ROk.
  Proof. vm_compute. reflexivity. Qed.
  Example sP_reachable : reachable g0 sP.
  Proof. exists pipe0. reflexivity. Qed.

  Example fields_complete_partial_applies : In FBrdfIndex dict_fields.
  Proof. apply (C15_fields_complete_partial OpBake FBrdfIndex eq_refl). cbn. tauto. Qed.

  (** the dictionary round trip of the completed simulation: a similar, equal, but NOT identical state
      (the direction lists come back as plain lists) *)
  Example roundtrip_partial_applies :
    exists s', restore g0 false sP = (ROk, Some s') /\ sim sP s' /\ oeq sP s' = true /\ oeq s' sP = true.
  Proof. exact (proj1 (C15_roundtrip_partial g0 false sP sP_wf) sP_check). Qed.
  Example roundtrip_reachable_applies :
    exists s', restore g0 true sP = (ROk, Some s') /\ sim sP s' /\ oeq sP s' = true /\ oeq s' sP = true.
  Proof. exact (proj1 (C15_roundtrip_reachable g0 true sP sP_reachable) sP_check). Qed.

  (** the restored twin, as the model computes it *)
  Definition sP' : ostate := match snd (restore g0 false sP) with Some s' => s' | None => sP end.
  Example sP'_restored : restore g0 false sP = (ROk, Some sP').
  Proof. vm_compute. reflexivity. Qed.
  Example sP'_sim : sim sP sP'.
  Proof. unfold sim. vm_compute. reflexivity. Qed.
  Example sP'_differs : o_dirs_in sP' <> o_dirs_in sP /\ o_source sP' <> o_source sP.
  Proof. split; vm_compute; intro H; discriminate H. Qed.

  Example bisim_partial_applies :
    normr (ostep g0 sP (OpSetAtt 2 1 2)) = normr (ostep g0 sP' (OpSetAtt 2 1 2)).
  Proof. exact (C15_bisim_partial g0 sP sP' (OpSetAtt 2 1 2) eq_refl sP'_sim). Qed.
  Definition hcov : list op := [OpSetBrdf [0; 1] 2 2 4 1 2 false; OpSetAtt 2 1 2; OpDictRoundTrip; OpFileRoundTrip].
  Example bisim_trace_partial_applies :
    map (fun r => (oclass_of r, oobs_of r)) (otrace g0 sP hcov) =
    map (fun r => (oclass_of r, oobs_of r)) (otrace g0 sP' hcov) /\
    sim (orun g0 sP hcov) (orun g0 sP' hcov).
  Proof. exact (C15_bisim_trace_partial g0 hcov sP sP' eq_refl sP'_sim). Qed.
  Example bisim_applies :
    normr (ostep g0 sP (OpExchange 2 10 1 true)) = normr (ostep g0 sP' (OpExchange 2 10 1 true)).
  Proof. exact (C15_bisim g0 sP sP' (OpExchange 2 10 1 true) eq_refl sP'_sim). Qed.
  Definition hfull : list op :=
    [OpCollect 1 false; OpSetBrdf [2; 1; 0] 2 2 4 1 2 false; OpBake; OpInitSource 2; OpExchange 2 10 1 true; OpCollect 2 false].
  Example bisim_trace_applies :
    map (fun r => (oclass_of r, oobs_of r)) (otrace g0 sP hfull) =
    map (fun r => (oclass_of r, oobs_of r)) (otrace g0 sP' hfull) /\
    sim (orun g0 sP hfull) (orun g0 sP' hfull).
  Proof. exact (C15_bisim_trace g0 hfull sP sP' eq_refl sP'_sim). Qed.
  (** ... and that continuation really runs (every call answers Ok and the last one observes a value) *)
  Example hfull_runs : map oclass_of (otrace g0 sP' hfull) = [ROk; ROk; ROk; ROk; ROk; ROk].
  Proof. vm_compute. reflexivity. Qed.

  Example pipe0_check : ocheck g0 (orun g0 (init g0) pipe0) = ROk.
  Proof. vm_compute. reflexivity. Qed.
  (** C15_lossless_continuation at the completed simulation, file round trip (the statement is the
      theorem's own conclusion for [h0 := pipe0]) *)
  Definition lossless_continuation_applies := C15_lossless_continuation g0 pipe0 true pipe0_check.
End NVB_C15.

Module NVB_C16.
  Import Model.Object Spec.ObjectSpec Proofs.ObjectConfig Proofs.ObjectTail Proofs.ObjectTailSim Instances.ObjectExamples Properties.C16.

  (** C16_final_config_partial: the same per-wall resolution from different table lists / indices
      (table list [tA; tB] with index [1;1;2] vs [tB; tX; tA] with index [3;3;1]) *)
  Definition tA : term := TApp SNone [1] [].
  Definition tB : term := TApp SNone [2] [].
  Definition tX : term := TApp SNone [9] [].
  Example final_config_partial_applies (din : list term) :
    wall_cfg 3 [1; 1; 2] [tA; tB] din = wall_cfg 3 [3; 3; 1] [tB; tX; tA] din.
  Proof.
    apply C16_final_config_partial. intros w Hw.
    destruct w as [|[|[|w]]]; [reflexivity|reflexivity|reflexivity|lia].
  Qed.

  Example idempotent_set_att_applies :
    oset_att (snd (oset_att (run0 mats0) 2 1 2)) 2 1 2 = oset_att (run0 mats0) 2 1 2.
  Proof. apply C16_idempotent_set_att. vm_compute. reflexivity. Qed.
  Example idempotent_bake_applies :
    obake g0 (snd (obake g0 (run0 mats0))) = obake g0 (run0 mats0).
  Proof. apply C16_idempotent_bake. vm_compute. reflexivity. Qed.
  Example idempotent_exchange_applies :
    let s := run0 (mats0 ++ [OpBake; OpInitSource 1]) in
    oexchange g0 (snd (oexchange g0 s 1 20 2 true)) 1 20 2 true = oexchange g0 s 1 20 2 true.
  Proof. apply C16_idempotent_exchange. vm_compute. reflexivity. Qed.
  Example idempotent_init_source_applies :
    let s := run0 (mats0 ++ [OpBake]) in
    oinit_source g0 (snd (oinit_source g0 s 1)) 1 = oinit_source g0 s 1.
  Proof. apply C16_idempotent_init_source. vm_compute. reflexivity. Qed.
  Example idempotent_tail_applies :
    tail_classes g0 (orun g0 (run0 mats0) (tail 1 1 20 2)) (tail 1 1 20 2) = [ROk; ROk; ROk] /\
    orun g0 (run0 mats0) (tail 1 1 20 2 ++ tail 1 1 20 2) = orun g0 (run0 mats0) (tail 1 1 20 2).
  Proof.
    apply C16_idempotent_tail.
    - vm_compute. intro H. discriminate H.
    - vm_compute. intro H. discriminate H.
    - vm_compute. reflexivity.
  Qed.

  (** C16_final_config_history_independent: two DIFFERENT histories with the same configuration in
      force -- the second one has baked, run a source, an exchange with other parameters, collected
      in between; its cached fields differ *)
  Definition hist1 : list op := mats0.
  Definition hist2 : list op :=
    mats0 ++ [OpBake; OpInitSource 2; OpExchange 2 10 1 true; OpCollect 1 false].
  Example hist_cfg_eq : cfg_eq (orun g0 (init g0) hist1) (orun g0 (init g0) hist2).
  Proof. constructor; vm_compute; reflexivity. Qed.
  Example hist_states_differ : o_etc (orun g0 (init g0) hist1) <> o_etc (orun g0 (init g0) hist2).
  Proof. vm_compute. intro H. discriminate H. Qed.
  Example final_config_history_independent_applies recv direct :
    ocollect g0 (orun g0 (init g0) (hist1 ++ tail 1 1 20 2)) recv direct =
    ocollect g0 (orun g0 (init g0) (hist2 ++ tail 1 1 20 2)) recv direct.
  Proof.
    destruct (C16_final_config_history_independent g0 hist1 hist2 1 1 20 2 hist_cfg_eq) as [_ H].
    apply H. vm_compute. reflexivity.
  Qed.
  Example final_config_state_independent_applies recv direct :
    ocollect g0 (orun g0 (run0 hist1) (tail 1 1 20 2)) recv direct =
    ocollect g0 (orun g0 (run0 hist2) (tail 1 1 20 2)) recv direct.
  Proof.
    destruct (C16_final_config_state_independent g0 (run0 hist1) (run0 hist2) 1 1 20 2 hist_cfg_eq) as [_ H].
    apply H. vm_compute. reflexivity.
  Qed.
  (** the limitation of [cfg_eq]: it compares the RAW table list, so two histories that reach the same
      per-wall configuration through different setter sequences ([hA], [hB] of ObjectExamples) are
      NOT related by it -- for those the statement is carried by C16_final_config_partial and
      checked by computation in [ObjectExamples.final_config_instance] *)
  Example cfg_eq_is_raw : o_brdf (run0 hA) <> o_brdf (run0 hB).
  Proof. vm_compute. intro H. discriminate H. Qed.
  (** ... and it compares kinds and ownership tags too: a file round trip changes the ownership of the
      frequency vector, so a restored object is not [cfg_eq] to the original either (the restored
      object is covered by the bisimulation of C15 instead) *)
  Example cfg_eq_is_leibniz : o_freq (run0 (mats0 ++ [OpFileRoundTrip])) <> o_freq (run0 mats0).
  Proof. vm_compute. intro H. discriminate H. Qed.

  (** C16_final_config_history_independent_sim (the widened statement): a history that went through
      the whole pipeline and a file AND a dictionary round trip against the plain setter history --
      NOT related by [cfg_eq], related after normalisation *)
  Definition hist3 : list op :=
    mats0 ++ [OpBake; OpInitSource 2; OpExchange 2 10 1 true; OpFileRoundTrip; OpCollect 1 false; OpDictRoundTrip].
  Example hist3_not_cfg_eq : ~ cfg_eq (orun g0 (init g0) hist1) (orun g0 (init g0) hist3).
  Proof. intros [_ _ _ _ _ _ H _ _ _ _ _]. vm_compute in H. discriminate H. Qed.
  Example hist3_cfg_eq_normalised : cfg_eq (norm (orun g0 (init g0) hist1)) (norm (orun g0 (init g0) hist3)).
  Proof. constructor; vm_compute; reflexivity. Qed.
  Example final_config_history_independent_sim_applies recv :
    ocollect g0 (orun g0 (init g0) (hist1 ++ tail 1 1 20 2)) recv false =
    ocollect g0 (orun g0 (init g0) (hist3 ++ tail 1 1 20 2)) recv false.
  Proof.
    destruct (C16_final_config_history_independent_sim g0 hist1 hist3 1 1 20 2 hist3_cfg_eq_normalised) as [_ H].
    apply H. vm_compute. reflexivity.
  Qed.
  (** ... and the collection is not an error value: the tail succeeds and collect answers Ok *)
  Example sim_tail_runs : fst (ocollect g0 (orun g0 (init g0) (hist3 ++ tail 1 1 20 2)) 1 false) = ROk.
  Proof. vm_compute. reflexivity. Qed.
End NVB_C16.

From SV Require Model.Exchange Model.Scene Spec.ExchangeSpec Spec.Isometry Proofs.SceneRefine Proofs.ReceiverProofs
  Proofs.PlacementTranslate Proofs.PlacementRelabel Proofs.PlacementKernels Proofs.PlacementVisibility
  Instances.InstZ Instances.PipelineExamples Instances.C17Inst Properties.C17.

(** ** C17 over the integers (ring laws): translation, renumbering, rigid maps *)
Module NVB_C17Z.
  Import Model.Exchange Model.Scene Spec.ExchangeSpec Spec.Isometry Proofs.SceneRefine Proofs.ReceiverProofs
    Proofs.PlacementTranslate Proofs.PlacementRelabel Proofs.PlacementKernels Instances.InstZ Properties.C17.
  Local Open Scope Z_scope.
  (** the integers with [texp _ = 1] (no air attenuation), so that energies are not all zero; only the
      ring laws are used by the C17 theorems instantiated here *)
  #[local] Instance Z1Ops : Ops Z := {|
    tzero := 0; tone := 1; tadd := Z.add; tmul := Z.mul; tsub := Z.sub; topp := Z.opp;
    tdiv := Z.div; tleb := Z.leb; tltb := Z.ltb; teqb := Z.eqb;
    tofnat := Z.of_nat; ttrunc := Z.to_nat; tceil := Z.to_nat;
    tsqrt := Z.sqrt; texp := fun _ => 1; tln := fun _ => 0; tacos := fun _ => 0; tatan := fun _ => 0;
    tpi := 3; tabs := Z.abs |}.
  #[local] Instance Z1Ring : RingLaws Z := {| ring_th := InitialRing.Zth |}.

  (** the three-patch scene of PipelineExamples (3-4-5 triangle of centres, two bands) *)
  Definition sc := PipelineExamples.scZ.
  Definition tm : @timing Z := mkTiming 1 1 24.
  Definition src : @source Z := mkSource (0, 0, 5) [true; true; false] [3; 5; 7] None.
  Definition rcv : @receiver Z := mkReceiver (4, 3, 12) [true; true; true] [1; 2; 3].
  Definition tv : @vec Z := (7, -2, 5).

  Example translate_applies (K : nat) (E : @arr4 Z) (direct : bool) (rdf : option (list Z)) :
    let sc' := translate_scene tv sc in
    let s' := translate_source tv src in
    let r' := translate_receiver tv rcv in
    tilde sc' = tilde sc /\ p2o sc' = p2o sc /\ delay_matrix sc' tm = delay_matrix sc tm /\
    e0dir sc' s' = e0dir sc src /\ delay0 sc' tm s' = delay0 sc tm src /\
    patch_hist sc' tm s' K = patch_hist sc tm src K /\
    patchwise sc' tm E r' = patchwise sc tm E rcv /\
    mono sc' tm E s' r' direct rdf = mono sc tm E src rcv direct rdf.
  Proof. apply (C17_translate tv sc src rcv tm K E direct rdf). simpl. lia. Qed.
  (** the scene is not trivial: the histogram of order 1 holds energy *)
  Example translate_not_trivial : get4 (patch_hist sc tm src 1) 1 0 1 9 = 18.
  Proof. vm_compute. reflexivity. Qed.

  Example translate_entries_applies (i j d b : nat) : (i < 3)%nat -> (j < 3)%nat ->
    let sc' := translate_scene tv sc in
    let s' := translate_source tv src in
    tilde_entry sc' i j d b = tilde_entry sc i j d b /\
    out_index sc' i j = out_index sc i j /\
    e0dir_entry sc' s' i d b = e0dir_entry sc src i d b /\
    src_dist sc' s' j = src_dist sc src j /\
    scene_delta sc' tm i j = scene_delta sc tm i j /\
    scene_delta0 sc' tm s' j = scene_delta0 sc tm src j.
  Proof.
    intros Hi Hj.
    apply (C17_translate_entries tv sc (translate_scene tv sc) src (translate_source tv src) tm i j d b).
    - apply translate_scene_translated. simpl. lia.
    - repeat split.
    - exact Hi.
    - exact Hj.
  Qed.

  (** C17_relabel_total / C17_relabel_arrivals with the data of C17Inst (cyclic shift of three patches,
      re-ordered pair list) *)
  Import Instances.C17Inst.
  Lemma rl_delta : forall i j, In (i, j) Pold -> dlt' (sg i) (sg j) = dlt i j.
  Proof. intros i j H. simpl in H. repeat (destruct H as [H|H]; [injection H as <- <-; reflexivity|]). destruct H. Qed.
  Lemma rl_out : forall i j, In (i, j) Pold -> ot' (sg i) (sg j) = ot i j.
  Proof. intros i j H. simpl in H. repeat (destruct H as [H|H]; [injection H as <- <-; reflexivity|]). destruct H. Qed.
  Lemma rl_c : forall i j d b, In (i, j) Pold -> cf' (sg i) (sg j) d b = cf i j d b.
  Proof. intros i j d b H. simpl in H. repeat (destruct H as [H|H]; [injection H as <- <-; reflexivity|]). destruct H. Qed.
  Lemma rl_d0 : forall j, (j < 3)%nat -> dl0' (sg j) = dl0 j.
  Proof. intros [|[|[|x]]] H; try reflexivity; lia. Qed.
  Lemma rl_e0 : forall j d b, (j < 3)%nat -> en0' (sg j) d b = en0 j d b.
  Proof. intros [|[|[|x]]] d b H; try reflexivity; lia. Qed.
  Example relabel_applies k j d b t : (j < 3)%nat ->
    E Pnew dlt' cf' ot' dl0' en0' k (sg j) d b t = E Pold dlt cf ot dl0 en0 k j d b t.
  Proof.
    exact (C17_relabel sg Pold Pnew (fun x => (x < 3)%nat) dlt dlt' cf cf' ot ot' dl0 dl0' en0 en0'
             relabel_dom relabel_inj relabel_perm rl_delta rl_out rl_c rl_d0 rl_e0 k j d b t).
  Qed.
  Example relabel_total_applies K j d b t : (j < 3)%nat ->
    Tot Pnew dlt' cf' ot' dl0' en0' K (sg j) d b t = Tot Pold dlt cf ot dl0 en0 K j d b t.
  Proof.
    exact (C17_relabel_total sg Pold Pnew (fun x => (x < 3)%nat) dlt dlt' cf cf' ot ot' dl0 dl0' en0 en0'
             relabel_dom relabel_inj relabel_perm rl_delta rl_out rl_c rl_d0 rl_e0 K j d b t).
  Qed.
  Example relabel_arrivals_applies k j d b : (j < 3)%nat ->
    Permutation (contrib Pnew dlt' cf' ot' dl0' en0' k (sg j) d b) (contrib Pold dlt cf ot dl0 en0 k j d b).
  Proof.
    exact (C17_relabel_arrivals sg Pold Pnew (fun x => (x < 3)%nat) dlt dlt' cf cf' ot ot' dl0 dl0' en0 en0'
             relabel_dom relabel_inj relabel_perm rl_delta rl_out rl_c rl_d0 rl_e0 k j d b).
  Qed.

  (** C17_distances at the signed axis permutation of C17Inst *)
  Example distances_applies (a b c d : @vec Z) (cs dt : Z) :
    vdist (place Mperm tv a) (place Mperm tv b) = vdist a b /\
    vdist2 (place Mperm tv a) (place Mperm tv b) = vdist2 a b /\
    vdot (vsub (place Mperm tv a) (place Mperm tv b)) (vsub (place Mperm tv c) (place Mperm tv d)) = vdot (vsub a b) (vsub c d) /\
    delay_floor (vdist (place Mperm tv a) (place Mperm tv b)) cs dt = delay_floor (vdist a b) cs dt /\
    delay_ceil (vdist (place Mperm tv a) (place Mperm tv b)) cs dt = delay_ceil (vdist a b) cs dt.
  Proof. exact (C17_distances Mperm tv a b c d cs dt Mperm_orthogonal). Qed.

  (** C17_relabel_scene and C17_distances_scene: the scene placed by [x |-> Mperm x + tv] with the
      patches renumbered by the transposition of patches 1 and 2; the stored upper triangle of the
      form factors is re-derived by the area-ratio rule (F'_12 = F_21 = 5 * 2 / 1) *)
  Definition sw (k : nat) : nat := match k with 1 => 2 | 2 => 1 | n => n end%nat.
  Definition sc' : @scene Z := {|
    s_np := 3; s_nd := 1; s_nb := 2;
    s_centers := [place Mperm tv (0, 0, 0); place Mperm tv (0, 3, 0); place Mperm tv (4, 0, 0)];
    s_areas := [1; 1; 2];
    s_wall := [0%nat; 1%nat; 1%nat];
    s_visU := [[false; true; true]; [false; false; true]; [false; false; false]];
    s_F := [[0; 3; 2]; [0; 0; 10]; [0; 0; 0]];
    s_att := [0; 0];
    s_tables := [[[[2; 1]]]; [[[0; 3]]]];
    s_tidx := [0%nat; 1%nat];
    s_in := [[(0, 0, 1)]; [(0, 0, 1)]];
    s_out := [[(0, 0, 1)]; [(0, 0, 1)]] |}.
  Definition src' : @source Z := mkSource (place Mperm tv (0, 0, 5)) [true; false; true] [3; 7; 5] None.
  Definition rcv' : @receiver Z := mkReceiver (place Mperm tv (4, 3, 12)) [true; true; true] [1; 3; 2].

  Example sc_wf : wf_scene sc.
  Proof.
    repeat split.
    - intros i j H. unfold get2b, nthb, nthl in H.
      do 4 (try destruct i as [|i]); do 4 (try destruct j as [|j]); simpl in H; try discriminate H; lia.
    - intros i Hi. simpl in Hi. destruct i as [|[|[|i]]]; try lia; reflexivity.
    - simpl. lia.
  Qed.
  Example sc'_wf : wf_scene sc'.
  Proof.
    repeat split.
    - intros i j H. unfold get2b, nthb, nthl in H.
      do 4 (try destruct i as [|i]); do 4 (try destruct j as [|j]); simpl in H; try discriminate H; lia.
    - intros i Hi. simpl in Hi. destruct i as [|[|[|i]]]; try lia; reflexivity.
    - simpl. lia.
  Qed.
  Example sw_perm :
    Permutation (directed (vis_pairs sc')) (map (sig2 sw) (directed (vis_pairs sc))).
  Proof.
    apply NoDup_Permutation.
    - vm_compute. repeat constructor; simpl; intuition congruence.
    - vm_compute. repeat constructor; simpl; intuition congruence.
    - intros p. vm_compute. intuition.
  Qed.
  Ltac fin3 i := destruct i as [|[|[|i]]]; [| | |lia].
  Example relabel_scene_applies K j d b t :
    (j < 3)%nat -> (d < 1)%nat -> (b < 2)%nat -> (t < 24)%nat ->
    get4 (patch_hist sc' tm src' K) (sw j) d b t = get4 (patch_hist sc tm src K) j d b t.
  Proof.
    intros Hj Hd Hb Ht.
    apply (C17_relabel_scene sc sc' sw tm src src' sc_wf sc'_wf eq_refl eq_refl eq_refl).
    - intros k Hk. change (s_np sc) with 3%nat in *. fin3 k; simpl; lia.
    - intros x y Hx Hy. change (s_np sc) with 3%nat in *. fin3 x; fin3 y; simpl; lia.
    - exact sw_perm.
    - intros i k Hi Hk. change (s_np sc) with 3%nat in *. fin3 i; fin3 k; vm_compute; reflexivity.
    - intros i k Hi Hk. change (s_np sc) with 3%nat in *. fin3 i; fin3 k; vm_compute; reflexivity.
    - intros i k d' b' Hi Hk. change (s_np sc) with 3%nat in *.
      fin3 i; fin3 k; destruct d' as [|d']; destruct b' as [|[|b']]; vm_compute; reflexivity.
    - intros k Hk. change (s_np sc) with 3%nat in *. fin3 k; vm_compute; reflexivity.
    - intros k d' b' Hk. change (s_np sc) with 3%nat in *.
      fin3 k; destruct d' as [|d']; destruct b' as [|[|b']]; vm_compute; reflexivity.
    - exact Hj.
    - exact Hd.
    - exact Hb.
    - exact Ht.
  Qed.
  Example relabel_scene_not_trivial :
    get4 (patch_hist sc tm src 1) 1 0 1 9 = 18 /\ get4 (patch_hist sc' tm src' 1) (sw 1) 0 1 9 = 18 /\
    get4 (patch_hist sc' tm src' 1) 1 0 1 9 = 0.
  Proof. split; [|split]; vm_compute; reflexivity. Qed.

  Example distances_scene_applies (i j : nat) : (i < 3)%nat -> (j < 3)%nat ->
    scene_delta sc' tm (sw i) (sw j) = scene_delta sc tm i j /\
    scene_delta0 sc' tm src' (sw j) = scene_delta0 sc tm src j /\
    r_delay sc' tm rcv' (sw j) = r_delay sc tm rcv j /\
    direct_bin tm src' rcv' = direct_bin tm src rcv.
  Proof.
    intros Hi Hj.
    apply (C17_distances_scene Mperm tv sc sc' sw tm src src' rcv rcv' i j Mperm_orthogonal).
    - intros k Hk. change (s_np sc) with 3%nat in *. fin3 k; reflexivity.
    - reflexivity.
    - fin3 j; reflexivity.
    - reflexivity.
    - exact Hi.
    - exact Hj.
  Qed.
End NVB_C17Z.

From SV Require Model.Exchange Model.Scene Model.Frame Model.Tiling Model.PtSolution Model.Stokes Model.Visibility
  Spec.Isometry Proofs.PlacementKernels Proofs.PlacementVisibility Proofs.TilingProofs Proofs.TilingPerm
  Instances.InstQc Instances.VisibilityQc Instances.TilingQc Properties.C17.

(** ** C17, kernels: Stokes sum under a rotation (rationals of InstQc), visibility under a rotation
    (rationals of VisibilityQc), tiling under a signed axis permutation (rationals of TilingQc) *)
Module NVB_C17Q.
  Import Model.Stokes Spec.Isometry Proofs.PlacementKernels Instances.InstQc Properties.C17 NVB_C05.
  #[local] Existing Instance InstQc.QcOps.
  #[local] Existing Instance InstQc.QcRing.
  #[local] Existing Instance InstQc.QcOrder.
  #[local] Existing Instance InstQc.QcField.
  #[local] Existing Instance InstQc.QcAbs.
  Example kernels_stokes_rotation_applies (t : @vec Qc) (a : Qc) :
    stokes_nocut (map (place M3 t) sqI) (map (place M3 t) sqJ) a = stokes_nocut sqI sqJ a /\
    stokes_integration 0%T (map (place M3 t) sqI) (map (place M3 t) sqJ) a = stokes_integration 0%T sqI sqJ a.
  Proof. exact (C17_kernels_stokes_rotation M3 t sqI sqJ a M3_orthogonal). Qed.
End NVB_C17Q.

Module NVB_C17V.
  Import Model.Visibility Spec.Isometry Proofs.PlacementKernels Proofs.PlacementVisibility
    Instances.VisibilityQc Properties.C17.
  #[local] Existing Instance VisibilityQc.VQcOps.
  #[local] Existing Instance VisibilityQc.VQcRing.
  Ltac qc_eq := apply Qc_is_canon; vm_compute; reflexivity.
  (** rotation by 90 degrees about z, then a shift *)
  Definition Mz : @mat Qc := (v3 0 (-1) 0, v3 1 0 0, v3 0 0 1).
  Example Mz_orthogonal : orthogonal Mz.
  Proof. unfold orthogonal. repeat split; qc_eq. Qed.
  Definition tz : @vec Qc := v3 10 20 30.
  (** the segment (1,2,1)-(1,2,-1) pierces the triangle at (1,2,0); all three point-in-polygon queries
      answer the same in both poses (computed), so the theorem applies: hidden in both poses *)
  Example kernels_visibility_applies :
    basic_visibility e6 e6 (place Mz tz (v3 1 2 1)) (place Mz tz (v3 1 2 (-1))) (place_surface Mz tz tri_surface)
    = basic_visibility e6 e6 (v3 1 2 1) (v3 1 2 (-1)) tri_surface.
  Proof.
    assert (H1 : s_pts tri_surface <> []) by discriminate.
    assert (H2 : pip e6 e6 (place_surface Mz tz tri_surface) (place Mz tz (v3 1 2 1)) = pip e6 e6 tri_surface (v3 1 2 1))
      by (vm_compute; reflexivity).
    assert (H3 : pip e6 e6 (place_surface Mz tz tri_surface) (place Mz tz (v3 1 2 (-1))) = pip e6 e6 tri_surface (v3 1 2 (-1)))
      by (vm_compute; reflexivity).
    assert (H4 : forall x, project_to_plane false e6 (v3 1 2 1) (v3 1 2 (-1)) (s_p0 tri_surface) (s_nrm tri_surface) = Some x ->
                 pip e6 e6 (place_surface Mz tz tri_surface) (place Mz tz x) = pip e6 e6 tri_surface x).
    { intros x Hx.
      assert (E : project_to_plane false e6 (v3 1 2 1) (v3 1 2 (-1)) (s_p0 tri_surface) (s_nrm tri_surface) = Some (v3 1 2 0))
        by (vm_compute; reflexivity).
      rewrite E in Hx. injection Hx as <-. vm_compute. reflexivity. }
    exact (C17_kernels_visibility_partial Mz tz e6 e6 (v3 1 2 1) (v3 1 2 (-1)) tri_surface Mz_orthogonal H1 H2 H3 H4).
  Qed.
  Example kernels_visibility_value :
    basic_visibility e6 e6 (v3 1 2 1) (v3 1 2 (-1)) tri_surface = false /\
    vx (place Mz tz (v3 1 2 1)) = vqc 8 1 /\ vy (place Mz tz (v3 1 2 1)) = vqc 21 1 /\ vz (place Mz tz (v3 1 2 1)) = vqc 31 1.
  Proof. split; [vm_compute; reflexivity|]. repeat split; qc_eq. Qed.
End NVB_C17V.

Module NVB_C17T.
  Import Model.Tiling Model.Stokes Proofs.TilingProofs Proofs.TilingPerm Instances.TilingQc Properties.C17.
  #[local] Existing Instance TilingQc.QcOps.
  #[local] Existing Instance TilingQc.QcRing.
  #[local] Existing Instance TilingQc.QcOrder.
  #[local] Existing Instance TilingQc.QcField.
  #[local] Existing Instance TilingQc.QcFloor.
  Example tiling_axis_permutation_applies :
    let m := fun v : @vec Qc =>
      mkv (- (1) * coord (sigmaQ 0) v)%T (1 * coord (sigmaQ 1) v)%T (- (1) * coord (sigmaQ 2) v)%T in
    (exists f' o, f' < 3 /\ sigmaQ f' = 1 /\ o < 8 /\
       wall_ok (map_quad m wallQ) pQ f' ((match f' with 0 => - (1) | 1 => 1 | _ => - (1) end) * qq 7 4)%T /\
       total_number_of_patches (map_quad m wallQ) pQ = total_number_of_patches wallQ pQ /\
       Permutation (create_patches (map_quad m wallQ) pQ)
                   (map (fun Q => reorder o (map_quad m Q)) (create_patches wallQ pQ)) /\
       Permutation (kang_patches (map_quad m wallQ) pQ)
                   (map (fun Q => reorder o (map_quad m Q)) (kang_patches wallQ pQ))) /\
    (exists L, Permutation (create_patches (map_quad m wallQ) pQ) L /\
       Forall2 (fun Q' Q => Permutation (verts Q') (map m (verts Q))) L (create_patches wallQ pQ)).
  Proof.
    exact (C17_tiling_axis_permutation sigmaQ (- (1))%T 1%T (- (1))%T wallQ pQ 1 (qq 7 4) sigmaQ_perm
             (or_intror eq_refl) (or_introl eq_refl) (or_intror eq_refl) wallQ_ok).
  Qed.
End NVB_C17T.

(** ** C17 over the reals ([RAll]): kernels (div laws), wall frame under rescaled normal / up vector (sqrt laws) *)
Module NVB_C17R.
  Import Model.Frame Model.Tiling Model.PtSolution Model.Stokes Spec.Isometry Proofs.TilingProofs
    Instances.ShoeboxR Properties.C17 RAll NVB_C04.
  Local Open Scope R_scope.
  Example kernels_partial_applies (thr cut : R) (recv : bool) (t : @vec R) (a : R) (q : @quad R) (p : R) :
    pt_solution thr recv (vadd (0, 0, 0) t) (map (fun x => vadd x t) octant) = pt_solution thr recv (0, 0, 0) octant /\
    pt_solution thr recv (mapply M345 (0, 0, 0)) (map (mapply M345) octant) = pt_solution thr recv (0, 0, 0) octant /\
    stokes_integration cut (map (fun x => vadd x t) octant) (map (fun x => vadd x t) behind) a =
      stokes_integration cut octant behind a /\
    create_patches (translate_quad t q) p = map (translate_quad t) (create_patches q p).
  Proof. exact (C17_kernels_partial M345 thr cut recv t (0, 0, 0) octant octant behind a q p M345_orthogonal). Qed.

  Example normal_scale_applies (dirs : list (@vec R)) :
    wall_dirs (vscale 2 (0, 0, 2)) (vscale (1 / 3) (3, 0, 0)) dirs = wall_dirs (0, 0, 2) (3, 0, 0) dirs.
  Proof.
    apply C17_normal_scale; apply (proj2 (tlt_iff _ _));
      cbv [vnorm2 vdot mkv vx vy vz fst snd tzero tone tmul tadd RFOps]; lra.
  Qed.
End NVB_C17R.

From SV Require Model.Exchange Model.Kang Spec.ExchangeSpec Spec.KangSpec Proofs.KangRefine Proofs.KangInvariance
  Proofs.KangPlacement Model.Validate Spec.ValidateSpec Proofs.ValidateProofs Instances.KangExample Instances.ValidateExamples
  Instances.ShoeboxR Properties.C18 Properties.C19.

(** ** C18: the saved states of ValidateExamples *)
Module NVB_C18.
  Import Model.Validate Spec.ValidateSpec Proofs.ValidateProofs Instances.ValidateExamples Properties.C18.
  #[local] Existing Instance ValidateExamples.ZOps.
  #[local] Existing Instance ValidateExamples.ZOrderLaws.
  Example sound_applies : construct stage5 = Ok.
  Proof. exact (C18_sound stage5 stage5_consistent). Qed.
  Example complete_partial_applies : construct (set_hist stage5 (Some [10; 4; 2; 24])) = ValueError.
  Proof.
    destruct ValidateExamples.complete_partial_applies as (H1 & H2 & H3).
    exact (C18_complete_partial _ CHist H1 H2 H3).
  Qed.
End NVB_C18.

(** ** C19 over the integers of KangExample (ring, order, exp laws with exp = 1) *)
Module NVB_C19.
  Import Model.Exchange Model.Kang Spec.ExchangeSpec Spec.KangSpec Proofs.KangRefine Proofs.KangInvariance
    Instances.KangExample Properties.C19.
  #[local] Existing Instance KangExample.KZ_ops.
  #[local] Existing Instance KangExample.KZ_ring.
  #[local] Existing Instance KangExample.KZ_order.
  #[local] Existing Instance KangExample.KZ_exp.
  Local Open Scope Z_scope.

  (** C19_offset: wall 1 (two patches) in the row of the only patch of wall 0 *)
  Example offset_applies :
    nthT (kff_row kz_sc (kz_F 0 0) [1%nat]) (1 + kff_offset kz_sc [1%nat] 1 0) = kz_F 0 0 1 1.
  Proof. apply (C19_offset kz_sc (kz_F 0 0) [1%nat] 1 1); [now left|vm_compute; lia]. Qed.

  Example truncation_commutes_applies :
    nthT (khist (korder kz_sc 40 kz_ffs kz_init 2) 0 0 0) 21 =
    KE (kothers kz_sc) (knpat kz_sc) (kcoef kz_sc kz_F) (kdelta kz_sc) kz_d0 kz_en 2 0 0 0 21.
  Proof.
    unfold kz_init.
    apply (C19_truncation_commutes kz_sc 40 kz_ffs kz_F kz_d0 kz_en 2 0 0 0 21 kz_layout kz_wf); vm_compute; lia.
  Qed.
  Example window_applies : nthT (khist (korder kz_sc 40 kz_ffs kz_init 2) 0 0 0) 40 = 0.
  Proof. exact (C19_window kz_sc 40 kz_ffs kz_d0 kz_en 2 0 0 0 40 (le_n 40)). Qed.

  (** C19_nothing_before_delay: nothing reaches wall 0 before the shortest pair delay (5 bins) *)
  Example nothing_before_delay_applies k :
    KE (kothers kz_sc) (knpat kz_sc) (kcoef kz_sc kz_F) (kdelta kz_sc) kz_d0 kz_en (S k) 0 0 0 4 = 0.
  Proof.
    pose proof (C19_nothing_before_delay (kothers kz_sc) (knpat kz_sc) (kcoef kz_sc kz_F) (kdelta kz_sc) kz_d0 kz_en k 0 0 0 4) as HH.
    apply HH. clear HH.
    intros w' s Hin Hs.
    change (kothers kz_sc 0) with [1%nat] in Hin. destruct Hin as [<-|[]].
    change (knpat kz_sc 1) with 2%nat in Hs.
    destruct s as [|[|s]]; [vm_compute; lia|vm_compute; lia|lia].
  Qed.
  (** ... while at the delay itself energy does arrive (order 1, bin 1 + 5) *)
  Example arrives_at_delay :
    KE (kothers kz_sc) (knpat kz_sc) (kcoef kz_sc kz_F) (kdelta kz_sc) kz_d0 kz_en 1 0 0 0 5 <> 0.
  Proof. vm_compute. discriminate. Qed.

  Example response_applies :
    nthT (kresp kz_sc 40 kz_E 2 kz_recv true 0) 21 =
    sumf (seq 0 3) (fun k => sumf (seq 0 (knw kz_sc)) (fun w => sumf (seq 0 (knpat kz_sc w)) (fun s =>
      (shiftf (krcv_delay kz_sc kz_recv w s) (nthT (khist (kord kz_E k) w 0 s)) 21 * krcv_factor kz_sc kz_recv w s 0)%T))).
  Proof. apply (C19_response kz_sc 40 kz_E kz_recv 2 0 21). lia. Qed.

  (** C19_drop, C19_direct, C19_run_is_recursion (index ranges only) *)
  Example drop_applies :
    nthT (shift_trunc 5 2 [1; 2; 3; 4; 5]) 1 = 0 /\ nthT (shift_trunc 5 2 [1; 2; 3; 4; 5]) 4 = 3 /\
    hsum 5 (nthT (shift_trunc 5 2 [1; 2; 3; 4; 5])) = hsum 3 (nthT [1; 2; 3; 4; 5]).
  Proof.
    pose proof (C19_drop 5 2 [1; 2; 3; 4; 5]) as (H1 & H2 & _ & _ & H5 & _).
    split; [exact (H1 1%nat ltac:(lia) ltac:(lia))|]. split; [exact (H2 4%nat ltac:(lia) ltac:(lia))|].
    exact (H5 ltac:(lia)).
  Qed.
  Example direct_applies :
    nthT (kresp kz_sc 40 kz_E 2 kz_recv false 0) 7 =
    (nthT (kresp kz_sc 40 kz_E 2 kz_recv true 0) 7 +
     (if (7 =? kdelay kz_sc (tsqrt (vdist2 kz_recv (ks_src kz_sc))))%nat then
        ((1 / ((tofnat 4 * tpi) * (tsqrt (vdist2 kz_recv (ks_src kz_sc)) * tsqrt (vdist2 kz_recv (ks_src kz_sc))))) *
         texp ((- katt kz_sc 0 0) * tsqrt (vdist2 kz_recv (ks_src kz_sc))))
      else 0))%T.
  Proof. exact (proj1 (C19_direct kz_sc 40 kz_E kz_recv 2 0) 7%nat ltac:(lia)). Qed.
  Example run_is_recursion_applies :
    kord (kang_run kz_sc 2) 1 =
    korder kz_sc (kN kz_sc) (kang_ffs kz_sc) (kinit_with kz_sc (kdelay0 kz_sc) (ke0 kz_sc) (kN kz_sc)) 1.
  Proof. exact (proj2 (C19_run_is_recursion kz_sc 2 1) ltac:(lia)). Qed.

  (** C19_cyclic on a scene WITH orthogonal walls (KangExample's scene has two parallel walls only, so
      the clause of [cyc_ok] about orthogonal pairs is not exercised there): floor (normal z, centre
      (2,2,0)), ceiling (normal z, centre (2,2,4)) and a side wall (normal x, centre (0,2,2)), each
      listing the two others *)
  Import Proofs.KangPlacement.
  Definition c3_floor : @kwall Z := mkKwall [(1, 1, 0); (3, 1, 0)] [(2, 2, 0); (2, 2, 0)] (0, 0, 1) (2, 2, 0) 2 [1; 2]%nat [1] [0] [0].
  Definition c3_ceil : @kwall Z := mkKwall [(2, 2, 4)] [(4, 4, 0)] (0, 0, 1) (2, 2, 4) 4 [0; 2]%nat [1] [0] [0].
  Definition c3_side : @kwall Z := mkKwall [(0, 2, 1); (0, 2, 3)] [(0, 4, 2); (0, 4, 2)] (1, 0, 0) (0, 2, 2) 4 [0; 1]%nat [1] [0] [0].
  Definition c3_sc : @kscene Z := mkKscene [c3_floor; c3_ceil; c3_side] 1 1 1 20 (1, 2, 2) 1.
  Lemma c3_cyc_ok : cyc_ok c3_sc.
  Proof.
    assert (W : forall w, (w < knw c3_sc)%nat -> w = 0%nat \/ w = 1%nat \/ w = 2%nat) by (intros w Hw; vm_compute in Hw; lia).
    repeat split.
    - intros w Hw. destruct (W w Hw) as [->|[->| ->]]; [exists 2%nat|exists 2%nat|exists 0%nat];
        (split; [lia|]; intros i Hi; destruct i as [|[|[|i]]]; [reflexivity|reflexivity|reflexivity|lia]).
    - intros w Hw. destruct (W w Hw) as [->|[->| ->]]; [exists 2%nat|exists 2%nat|exists 0%nat];
        (split; [lia|]; intros i Hi; destruct i as [|[|[|i]]]; [reflexivity|reflexivity|reflexivity|lia]).
    - intros w o Hw Ho Hin Hdot.
      destruct (W w Hw) as [->|[->| ->]]; destruct (W o Ho) as [->|[->| ->]];
        vm_compute in Hdot; try discriminate Hdot; vm_compute; discriminate.
    - intros w o Hw Ho Hin Hdot.
      destruct (W w Hw) as [->|[->| ->]]; destruct (W o Ho) as [->|[->| ->]];
        vm_compute in Hdot; try discriminate Hdot;
        try (exfalso; vm_compute in Hin; intuition discriminate);
        (exists 2%nat; split; [lia|]; intros i Hi; destruct i as [|[|[|i]]]; [reflexivity|reflexivity|reflexivity|lia]).
  Qed.
  Example cyclic_orthogonal_applies : kang_run (cyc_scene c3_sc) 2 = kang_run c3_sc 2.
  Proof. exact (proj1 (proj2 (proj2 (C19_cyclic c3_sc c3_cyc_ok))) 2%nat). Qed.
  Example cyclic_orthogonal_pairs :
    teqb (vdot (kw_normal (kwl c3_sc 2)) (kw_normal (kwl c3_sc 0))) 0%T = true /\
    kang_ffs c3_sc <> kang_ffs kz_sc.
  Proof. split; [reflexivity|]. vm_compute. discriminate. Qed.
End NVB_C19.

(** ** C19_receiver_factor_nonneg needs ring, order, field, exp, sqrt and acos laws at once: [RAll] *)
Module NVB_C19R.
  Import Model.Exchange Model.Kang Instances.ShoeboxR Properties.C19 RAll.
  Local Open Scope R_scope.
  Definition kwR : @kwall R :=
    mkKwall [(0, 0, 0); (1, 0, 0)] [(1, 1, 0); (1, 1, 0)] (0, 0, 1) (1 / 2, 0, 0) 1 [] [1 / 2] [1 / 10] [1 / 100].
  Definition kscR : @kscene R := mkKscene [kwR] 1 343 1000 1 (0, 0, 2) 1.
  Example receiver_factor_nonneg_applies : (0 <= krcv_factor kscR (0, 0, 5) 0 0 0)%T.
  Proof.
    apply C19_receiver_factor_nonneg. apply (proj2 (tlt_iff _ _)).
    cbv [krcv_R kpc kwl kscR ks_walls nth kwR kw_centers nthv vnorm vnorm2 vdot vsub mkv vx vy vz fst snd
         tzero tsub tmul tadd tsqrt RFOps].
    apply sqrt_lt_R0. lra.
  Qed.
End NVB_C19R.

From SV Require Model.Exchange Model.Scene Model.Directivity Proofs.DirectivityProofs Instances.C20Inst Properties.C20.

(** ** C20 over the rationals of C20Inst (ring, field laws): an oblique source frame, a non-constant
    directivity table, a two-patch scene *)
Module NVB_C20.
  Import Model.Exchange Model.Scene Model.Directivity Proofs.DirectivityProofs Instances.C20Inst Properties.C20.
  #[local] Existing Instance C20Inst.QcOpsC20.
  #[local] Existing Instance C20Inst.QcRingC20.
  #[local] Existing Instance C20Inst.QcFieldC20.

  Definition cen : list (@vec Qc) := [tgt0; qv 1 (-4) 9 2].
  Definition scD : @scene Qc :=
    mkScene 2 1 2 cen [qc 1 1; qc 2 1] [0; 1] [[false; true]; [false; false]] [[qc 0 1; qc 1 5]; [qc 0 1; qc 0 1]]
            [qc 0 1; qc 0 1] [[[[qc 1 2; qc 1 3]]]] [0; 0] [[qv 0 0 1 1]; [qv 0 0 1 1]] [[qv 0 0 1 1]; [qv 0 0 1 1]].
  Definition bandf : list Qc := [qc 700 1; qc 120 1].
  Definition srcD : @source Qc := mkSource pos0 [true; true] [qc 1 8; qc 1 16] None.
  Definition rcvD : @receiver Qc := mkReceiver (qv 5 5 5 2) [true; true] [qc 1 1; qc 1 1].

  Example factor_applies d :
    e0dir_entry scD (with_directivity scD bandf ori0 srcD) 0 d 0 =
    (e0dir_entry scD (omni srcD) 0 d 0 *
     get2 (dv_table (o_dv ori0))
          (lookup (dv_recv (o_dv ori0)) (frame_dir (src_pos srcD) (o_view ori0) (o_up ori0) (center scD 0)))
          (nearest_freq (dv_freqs (o_dv ori0)) (nthT bandf 0)))%T.
  Proof. apply C20_factor; simpl; lia. Qed.
  (** the factor of that entry is the table value 6 computed in C20Inst *)
  Example factor_value : get2 (source_dirfac scD bandf ori0 srcD) 0 0 = qc 6 1.
  Proof. apply Qc_is_canon. vm_compute. reflexivity. Qed.
  Example factor_direct_applies :
    direct_val scD (with_directivity scD bandf ori0 srcD) rcvD (Some (recv_dirfac scD bandf ori0 srcD rcvD)) 1 =
    (direct_val scD (omni srcD) rcvD None 1 *
     get2 (dv_table (o_dv ori0))
          (lookup (dv_recv (o_dv ori0)) (frame_dir (src_pos srcD) (o_view ori0) (o_up ori0) (r_pos rcvD)))
          (nearest_freq (dv_freqs (o_dv ori0)) (nthT bandf 1)))%T.
  Proof. apply C20_factor_direct. simpl. lia. Qed.

  (** C20_frame_orthonormal: the orthonormal frame view = (3,0,4)/5, up = (0,1,0) *)
  Example frame_orthonormal_applies :
    let w := metrics_w pos0 (qv 3 0 4 5) (qv 0 1 0 1) tgt0 in
    vdot w w = vdot (vsub tgt0 pos0) (vsub tgt0 pos0).
  Proof. apply C20_frame_orthonormal; qc_eq. Qed.

  Example corotate_normalised_applies :
    frame_dir_n (mv M3 pos0) (mv M3 view0) (mv M3 up0) (mv M3 tgt0) = frame_dir_n pos0 view0 up0 tgt0.
  Proof. exact (C20_corotate_normalised M3 pos0 view0 up0 tgt0 M3_rotation). Qed.

  (** C20_corotate_scene: scene, source and receiver rotated by M3 together with the source frame *)
  Definition scD' : @scene Qc :=
    mkScene 2 1 2 (map (mv M3) cen) [qc 1 1; qc 2 1] [0; 1] [[false; true]; [false; false]]
            [[qc 0 1; qc 1 5]; [qc 0 1; qc 0 1]]
            [qc 0 1; qc 0 1] [[[[qc 1 2; qc 1 3]]]] [0; 0] [[qv 0 0 1 1]; [qv 0 0 1 1]] [[qv 0 0 1 1]; [qv 0 0 1 1]].
  Definition srcD' : @source Qc := mkSource (mv M3 pos0) [true; true] [qc 1 8; qc 1 16] None.
  Definition rcvD' : @receiver Qc := mkReceiver (mv M3 (qv 5 5 5 2)) [true; true] [qc 1 1; qc 1 1].
  Example corotate_scene_applies :
    source_dirfac scD' bandf (rotate_orientation M3 ori0) srcD' = source_dirfac scD bandf ori0 srcD /\
    recv_dirfac scD' bandf (rotate_orientation M3 ori0) srcD' rcvD' = recv_dirfac scD bandf ori0 srcD rcvD.
  Proof.
    apply (C20_corotate_scene M3 scD scD' bandf ori0 srcD srcD' rcvD rcvD' M3_rotation view0_norm up0_norm);
      try reflexivity.
    intros i Hi. change (s_np scD) with 2 in Hi. destruct i as [|[|i]]; [reflexivity|reflexivity|lia].
  Qed.
  Example corotate_scene_value : source_dirfac scD bandf ori0 srcD = [[qc 6 1; qc 5 1]; [qc 12 1; qc 11 1]].
  Proof. vm_compute. reflexivity. Qed.

  (** C20_unit / C20_unit_direct with the unit table of C20Inst *)
  Definition ori1 : @orientation Qc := mkOrientation view0 up0 dv1.
  Definition tmD : @timing Qc := mkTiming (qc 1 1) (qc 1 1) (qc 8 1).
  Example unit_applies K :
    e0dir scD (with_directivity scD bandf ori1 srcD) = e0dir scD (omni srcD) /\
    patch_hist scD tmD (with_directivity scD bandf ori1 srcD) K = patch_hist scD tmD (omni srcD) K.
  Proof. exact (C20_unit scD bandf ori1 srcD tmD K unit_table_exists). Qed.
  Example unit_direct_applies E direct :
    mono scD tmD E (with_directivity scD bandf ori1 srcD) rcvD direct (Some (recv_dirfac scD bandf ori1 srcD rcvD)) =
    mono scD tmD E (omni srcD) rcvD direct None.
  Proof. exact (C20_unit_direct scD bandf ori1 srcD rcvD tmD E direct unit_table_exists). Qed.
  Example no_directivity_applies : srcD = omni srcD.
  Proof. exact (C20_no_directivity srcD eq_refl). Qed.
End NVB_C20.

From SV Require Model.Exchange Model.Scene Model.Tiling Model.Visibility Model.Full Spec.VisibilitySpec Proofs.OrderField
  Proofs.TilingLists Proofs.TilingProofs Proofs.VisibilitySym Proofs.PipRectSurface Proofs.FullProofs Proofs.FullVisibility
  Proofs.FullShoebox Instances.ShoeboxR Properties.C07.

(** ** C07_room_coplanar_hidden / C07_room_behind_hidden.
    First, for EVERY room with axis-aligned walls ([axis_walls_by]) and its list of patch rectangles:
    two patches of the same wall satisfy every hypothesis of C07_room_coplanar_hidden, and two patches
    of parallel walls have the side / normal-component values that C07_room_behind_hidden asks about.
    Then two concrete rooms over the reals: the shoebox of ShoeboxR (coplanar), and the same box
    with OUTWARD normals, "a room seen from behind" (the patches of opposite walls are behind each other). *)
Module NVB_C07Room.
  Import Model.Exchange Model.Scene Model.Tiling Model.Visibility Model.Full Spec.VisibilitySpec Proofs.OrderField
    Proofs.TilingLists Proofs.TilingProofs Proofs.PipRectSurface Proofs.FullProofs Proofs.FullVisibility Proofs.FullShoebox
    Properties.C07.

  Section Generic.
    Context {T : Type} {O : Ops T} {RL : RingLaws T} {OL : OrderLaws T} {FL : FieldLaws T}
            {FlL : FloorLaws T} {SL : SqrtLaws T}.
    Add Ring TRingNVB : (@ring_th T O RL).
    Local Open Scope T_scope.
    Variable rm : @room T.
    Variables (fw : nat -> nat) (cw : nat -> T) (uw : nat -> bool).
    Hypothesis Hby : axis_walls_by rm fw cw uw.
    Variable rs : list (@rect T).
    Hypothesis Hrs : rects_of (rm_patch_surfs rm) rs.
    Hypothesis Hcells : forall k, (k < rm_np rm)%nat ->
      let w := wall (room_scene rm) k in
      is_cell (nth w (rm_walls rm) dquad) (rm_patch_size rm) (fw w) (uw w) (cw w) (nth k rs drect).
    Local Notation p := (rm_patch_size rm).
    Local Notation wq w := (nth w (rm_walls rm) dquad).

    (** patch k is a cell of its wall, its centroid the centre of that cell *)
    Lemma patch_cell_centre k : (k < rm_np rm)%nat ->
      let w := wall (room_scene rm) k in
      wall_ok (wq w) p (fw w) (cw w) /\
      exists i j, nth k rs drect = cell_rect (wq w) p (fw w) (uw w) (cw w) i j /\
                  nthv (rm_centers rm) k = cell_centre (wq w) p (fw w) (cw w) (uw w) i j.
    Proof.
      intros Hk. cbv zeta. split; [exact (proj1 (Hby _ (room_wall_lt rm k Hk)))|].
      destruct (Hcells k Hk) as (i & j & _ & _ & E). exists i, j. split; [exact E|].
      rewrite (room_center_is_rect_centroid rm rs Hrs k Hk), E. reflexivity.
    Qed.

    Variable m : T.
    Hypothesis Hm : m + m < p.

    Lemma cell_rect_margin q f c up i j : wall_ok q p f c -> cell_margin m (cell_rect q p f up c i j).
    Proof.
      intros Hok. split; cbn [cell_rect r_ua r_ub r_va r_vb]; rewrite gline_step.
      - pose proof (wall_real_size_pos q p f c Hok (px f) (or_introl eq_refl)) as Hr.
        rewrite (tabs_pos _ (tlt_le _ _ Hr)).
        exact (tlt_le_trans _ _ _ Hm (real_size_ge_p q p f c Hok (px f) (or_introl eq_refl))).
      - pose proof (wall_real_size_pos q p f c Hok (py f) (or_intror eq_refl)) as Hr.
        rewrite (tabs_pos _ (tlt_le _ _ Hr)).
        exact (tlt_le_trans _ _ _ Hm (real_size_ge_p q p f c Hok (py f) (or_intror eq_refl))).
    Qed.

    (** SAME WALL: the hypotheses of C07_room_coplanar_hidden *)
    Lemma same_wall_hyps i j : (i < rm_np rm)%nat -> (j < rm_np rm)%nat ->
      wall (room_scene rm) i = wall (room_scene rm) j ->
      cell_margin m (nth i rs drect) /\
      on_plane (rect_surface (nth i rs drect)) (nthv (rm_centers rm) j) /\
      off_bands m (nth i rs drect) (nthv (rm_centers rm) j).
    Proof.
      intros Hi Hj E.
      destruct (patch_cell_centre i Hi) as (Hok & ii & ji & Ei & _).
      destruct (patch_cell_centre j Hj) as (_ & ij & jj & _ & Cj). cbv zeta in *. rewrite <- E in Cj.
      rewrite Ei, Cj. split; [exact (cell_rect_margin _ _ _ _ _ _ Hok)|].
      exact (cell_centre_pt_on _ _ _ _ _ Hok m ij jj ii ji _ Hm).
    Qed.

    Lemma vdot_axis_normal ax up (v : @vec T) : vdot (axis_normal ax up) v = sgn up * ccoord ax v.
    Proof. destruct v as [[v1 v2] v3]. destruct ax; unfold axis_normal, emb, vdot, mkv, ccoord, vx, vy, vz; cbn [fst snd]; ring. Qed.
    Lemma ccoord_sub ax (a b : @vec T) : ccoord ax (vsub a b) = ccoord ax a - ccoord ax b.
    Proof. destruct a as [[a1 a2] a3], b as [[b1 b2] b3]. destruct ax; reflexivity. Qed.

    (** PARALLEL WALLS (same flat axis): side of patch i's plane on which centroid j lies, and the
        component of (c_j - c_i) along patch i's normal *)
    Lemma parallel_wall_values i j : (i < rm_np rm)%nat -> (j < rm_np rm)%nat ->
      let wi := wall (room_scene rm) i in
      let wj := wall (room_scene rm) j in
      fw wi = fw wj ->
      cell_margin m (nth i rs drect) /\
      side_of (rect_surface (nth i rs drect)) (nthv (rm_centers rm) j) = sgn (uw wi) * (cw wj - cw wi) /\
      vdot (s_nrm (rect_surface (nth i rs drect))) (vsub (nthv (rm_centers rm) j) (nthv (rm_centers rm) i))
        = sgn (uw wi) * (cw wj - cw wi).
    Proof.
      intros Hi Hj. cbv zeta. intros Ef.
      destruct (patch_cell_centre i Hi) as (Hoki & ii & ji & Ei & Ci).
      destruct (patch_cell_centre j Hj) as (Hokj & ij & jj & Ej & Cj). cbv zeta in *.
      split; [rewrite Ei; exact (cell_rect_margin _ _ _ _ _ _ Hoki)|].
      assert (Ki : ccoord (ax_of (fw (wall (room_scene rm) i))) (nthv (rm_centers rm) i) = cw (wall (room_scene rm) i))
        by (rewrite Ci; apply cell_centre_c).
      assert (Kj : ccoord (ax_of (fw (wall (room_scene rm) i))) (nthv (rm_centers rm) j) = cw (wall (room_scene rm) j))
        by (rewrite Ef, Cj; apply cell_centre_c).
      split.
      - rewrite side_of_rect, Ei. cbn [cell_rect r_up r_axis r_c]. now rewrite Kj.
      - rewrite Ei. unfold rect_surface, s_nrm, rect_nrm. cbn [snd cell_rect r_up r_axis].
        rewrite vdot_axis_normal, ccoord_sub, Ki, Kj. reflexivity.
    Qed.

    (** where the blocks of the walls start: patch [prefix_sum counts w + j] lies on wall w *)
    Lemma block_index w j : (w < length (rm_walls rm))%nat ->
      (j < length (create_patches (wq w) p))%nat ->
      let k := (prefix_sum (map (fun q => total_number_of_patches q p) (rm_walls rm)) w + j)%nat in
      (k < rm_np rm)%nat /\ wall (room_scene rm) k = w.
    Proof.
      intros Hw Hj. cbv zeta. set (counts := map (fun q => total_number_of_patches q p) (rm_walls rm)).
      assert (Hc : nth w counts 0%nat = length (create_patches (wq w) p)).
      { subst counts. rewrite nth_indep with (d' := total_number_of_patches dquad p) by now rewrite map_length.
        rewrite (map_nth (fun q => total_number_of_patches q p)). apply total_eq_length. }
      split.
      - unfold rm_np, rm_patch_pts, rm_processed. rewrite map_length, process_points_length. fold counts.
        assert (Hlw : (w < length counts)%nat) by (subst counts; now rewrite map_length).
        pose proof (prefix_sum_S counts w Hlw) as H1. pose proof (prefix_sum_le_total counts (S w)) as H2. lia.
      - unfold wall, room_scene. cbn [s_wall]. unfold nthn, rm_processed.
        exact (proj1 (proj2 (process_block (rm_walls rm) (rm_normals rm) p w j dquad vzero 0%nat Hw Hj))).
    Qed.
  End Generic.
End NVB_C07Room.

Module NVB_C07RoomR.
  Import Model.Exchange Model.Scene Model.Tiling Model.Visibility Model.Full Spec.VisibilitySpec Proofs.OrderField
    Proofs.TilingLists Proofs.TilingProofs Proofs.PipRectSurface Proofs.FullProofs Proofs.FullVisibility Proofs.FullShoebox
    Instances.ShoeboxR Properties.C07 RAll NVB_C07Room.
  Local Open Scope R_scope.

  Ltac rlt := apply (proj2 (tlt_iff _ _)); cbv [tzero tone tsub tadd tmul topp RFOps rm_patch_size rm_eps rm_eta boxR]; unfold e6; try lra.
  Ltac rle := apply (proj2 (tle_iff _ _)); cbv [tzero tone tsub tadd tmul topp RFOps rm_patch_size rm_eps rm_eta boxR]; unfold e6; try lra.

  (** the wall y = 0 of the box: [0,4] x [0,2], patch size 1, has at least two patches *)
  Definition wall0 : @quad R := sb_quad 0 4 0 3 0 2 1 0.
  Definition wall1 : @quad R := sb_quad 0 4 0 3 0 2 1 3.
  Lemma wall_ok_y (c : R) : wall_ok (sb_quad 0 4 0 3 0 2 1 c) 1 1 c.
  Proof. apply (sb_wall_ok 0 4 0 3 0 2); try rlt; try rle; lia. Qed.
  Lemma wall0_two_patches : (2 <= length (create_patches wall0 1%R))%nat.
  Proof.
    pose proof (wall_ok_y 0) as Hok. fold wall0 in Hok.
    destruct (stmt_count wall0 1 1 0 Hok) as (_ & _ & _ & Ny & -> & _).
    destruct (stmt_floor wall0 1 1 0 (px 1) Hok (or_introl eq_refl)) as [_ Hhi].
    assert (Hs : size wall0 (px 1) = 4 - 0).
    { unfold size, wall0. change (px 1) with 0%nat.
      rewrite (sb_col_max 0 4 0 3 0 2), (sb_col_min 0 4 0 3 0 2); try lia; try rlt. reflexivity. }
    rewrite Hs in Hhi. apply (proj1 (tlt_iff _ _)) in Hhi. cbn [tofnat tmul RFOps] in Hhi.
    assert (Hn : (2 <= patch_num wall0 1%R (px 1))%nat).
    { destruct (patch_num wall0 1%R (px 1)) as [|[|n]]; [exfalso| exfalso|lia].
      - simpl in Hhi. lra.
      - simpl in Hhi. lra. }
    exact (Nat.mul_le_mono 2 _ 1 _ Hn Ny).
  Qed.
  Lemma wall1_one_patch : (1 <= length (create_patches wall1 1%R))%nat.
  Proof.
    pose proof (wall_ok_y 3) as Hok. fold wall1 in Hok.
    destruct (stmt_count wall1 1 1 3 Hok) as (_ & _ & Nx & Ny & -> & _).
    exact (Nat.mul_le_mono 1 _ 1 _ Nx Ny).
  Qed.

  Lemma box_tol : (0 <= rm_eps boxR)%T /\ (rm_eps boxR < 1)%T /\ (0 < rm_eta boxR)%T /\ (rm_eta boxR <= e6 + e6)%T /\
                  (e6 + e6 < rm_patch_size boxR)%T.
  Proof.
    destruct boxR_tolerances as (H1 & H2 & H3 & _ & H5). split; [exact H1|]. split; [exact H2|]. split; [exact H3|].
    split; [|exact H5]. rle.
  Qed.

  (** *** C07_room_coplanar_hidden: patches 0 and 1 of the shoebox room both lie on wall 0 *)
  Example room_coplanar_hidden_applies :
    wall (room_scene boxR) 0 = 0%nat /\ wall (room_scene boxR) 1 = 0%nat /\ vis_sym (room_scene boxR) 0 1 = false.
  Proof.
    destruct boxR_is_shoebox as (Hw & Hn & _ & Hx & Hy & Hz & Hp & Hpx & Hpy & Hpz).
    pose proof (sb_axis_walls_by 0 4 0 3 0 2 boxR Hw Hn Hx Hy Hz Hp Hpx Hpy Hpz) as Hby.
    destruct (shoebox_cells boxR 0 4 0 3 0 2 boxR_is_shoebox) as (rs & Hrs & Hcells).
    destruct box_tol as (T1 & T2 & T3 & T4 & T5).
    assert (H0 : (0 < length (create_patches (nth 0 (rm_walls boxR) dquad) (rm_patch_size boxR)))%nat)
      by (pose proof wall0_two_patches; exact (Nat.lt_le_trans _ _ _ (Nat.lt_0_succ 1) H)).
    assert (H1 : (1 < length (create_patches (nth 0 (rm_walls boxR) dquad) (rm_patch_size boxR)))%nat)
      by exact wall0_two_patches.
    destruct (block_index boxR 0 0 ltac:(simpl; lia) H0) as [K0 W0].
    destruct (block_index boxR 0 1 ltac:(simpl; lia) H1) as [K1 W1].
    rewrite prefix_sum_0 in K0, W0, K1, W1. cbn [Nat.add] in K0, W0, K1, W1.
    split; [exact W0|]. split; [exact W1|].
    destruct (same_wall_hyps boxR sb_f (sb_c 0 4 0 3 0 2) sb_s Hby rs Hrs Hcells e6 T5 0 1 K0 K1
                (eq_trans W0 (eq_sym W1))) as (M & On & Off).
    exact (C07_room_coplanar_hidden boxR rs e6 0 1 Hrs T1 T2 T3 T4 (Nat.lt_0_succ 0) K1 M On Off).
  Qed.

  (** *** C07_room_behind_hidden: the box with OUTWARD normals (a room seen from behind) *)
  Definition out_normals : list (@vec R) :=
    map (fun w => axis_normal (ax_of (sb_f w)) (negb (sb_s w))) (seq 0 6).
  Definition boxOut : @room R :=
    mkRoom (sb_walls 0 4 0 3 0 2) out_normals sb_ups 1 [] [] [] [] [] 0 (1 / 10000000000) e6 e6 e6 0 e6 e6 e6.
  Ltac rlt' := apply (proj2 (tlt_iff _ _)); cbv [tzero tone tsub tadd tmul topp RFOps rm_patch_size rm_eps rm_eta boxOut]; unfold e6; try lra.
  Ltac rle' := apply (proj2 (tle_iff _ _)); cbv [tzero tone tsub tadd tmul topp RFOps rm_patch_size rm_eps rm_eta boxOut]; unfold e6; try lra.
  Lemma boxOut_axis_walls : axis_walls_by boxOut sb_f (sb_c 0 4 0 3 0 2) (fun w => negb (sb_s w)).
  Proof.
    intros w Hw. change (length (rm_walls boxOut)) with 6%nat in Hw.
    change (rm_walls boxOut) with (sb_walls 0 4 0 3 0 2). rewrite (sb_walls_nth 0 4 0 3 0 2 w Hw).
    split.
    - apply (sb_wall_ok 0 4 0 3 0 2); try apply sb_f_lt; try rlt'; try rle'.
    - change (rm_normals boxOut) with out_normals.
      destruct (lt6_cases w Hw) as [->|[->|[->|[->|[->| ->]]]]]; reflexivity.
  Qed.
  Lemma outwards_not_shoebox : rm_normals boxOut <> rm_normals boxR.
  Proof.
    intros H. apply (f_equal (fun l => vy (nthv l 0))) in H.
    cbv [rm_normals boxOut boxR out_normals map seq nthv nth sb_f sb_s Nat.even negb ax_of axis_normal emb sgn
         sb_normals mkv vy fst snd topp tone tzero RFOps] in H. lra.
  Qed.

  Example room_behind_hidden_applies :
    exists j, (0 < j)%nat /\ (j < rm_np boxOut)%nat /\
      wall (room_scene boxOut) 0 = 0%nat /\ wall (room_scene boxOut) j = 1%nat /\
      vis_sym (room_scene boxOut) 0 j = false.
  Proof.
    pose proof boxOut_axis_walls as Hby.
    destruct (room_cells boxOut _ _ _ Hby) as (rs & Hrs & Hcells).
    assert (T1 : (0 <= rm_eps boxOut)%T) by rle'.
    assert (T2 : (rm_eps boxOut < 1)%T) by rlt'.
    assert (T3 : (0 < rm_eta boxOut)%T) by rlt'.
    assert (T4 : (rm_eta boxOut <= e6 + e6)%T) by rle'.
    assert (T5 : (e6 + e6 < rm_patch_size boxOut)%T) by rlt'.
    assert (H0 : (0 < length (create_patches (nth 0 (rm_walls boxOut) dquad) (rm_patch_size boxOut)))%nat)
      by (pose proof wall0_two_patches; exact (Nat.lt_le_trans _ _ _ (Nat.lt_0_succ 1) H)).
    assert (H1 : (0 < length (create_patches (nth 1 (rm_walls boxOut) dquad) (rm_patch_size boxOut)))%nat)
      by exact wall1_one_patch.
    destruct (block_index boxOut 0 0 ltac:(simpl; lia) H0) as [K0 W0].
    destruct (block_index boxOut 1 0 ltac:(simpl; lia) H1) as [K1 W1].
    rewrite prefix_sum_0 in K0, W0. cbn [Nat.add] in K0, W0. rewrite Nat.add_0_r in K1, W1.
    set (j := prefix_sum (map (fun q => total_number_of_patches q (rm_patch_size boxOut)) (rm_walls boxOut)) 1) in *.
    assert (Hj : (0 < j)%nat).
    { destruct j as [|j']; [|lia]. rewrite W0 in W1. discriminate W1. }
    exists j. split; [exact Hj|]. split; [exact K1|]. split; [exact W0|]. split; [exact W1|].
    destruct (parallel_wall_values boxOut sb_f (sb_c 0 4 0 3 0 2) (fun w => negb (sb_s w)) Hby rs Hrs Hcells e6 T5 0 j K0 K1)
      as (M & Sd & Nd).
    { rewrite W0, W1. reflexivity. }
    rewrite W0, W1 in Sd, Nd. cbv beta in Sd, Nd.
    apply (proj1 (C07_room_behind_hidden boxOut rs e6 0 j Hrs T1 T2 T3 T4 Hj K1) M).
    - rewrite Sd. apply (proj2 (tlt_iff _ _)).
      cbv [sgn negb sb_s Nat.even sb_c sb_coord sb_f sb_lo sb_hi tmul tsub topp tone tzero tabs RFOps rm_eta boxOut].
      unfold e6. rewrite Rabs_left; lra.
    - rewrite Nd. apply (proj2 (tlt_iff _ _)).
      cbv [sgn negb sb_s Nat.even sb_c sb_coord sb_f sb_lo sb_hi tmul tsub topp tone tzero RFOps]. lra.
  Qed.
End NVB_C07RoomR.

(** ** One dictionary for every theorem: each polymorphic theorem of the twelve property files, with its
    law-class arguments resolved at the single real instance [RAll] (type-class resolution has to find
    every law the theorem assumes -- ring, order, field, floor, nat, sqrt, abs, acos, strict acos, div,
    exp, ln, x*1 = x -- for the SAME [Ops R]). *)
From SV Require Properties.C04 Properties.C05 Properties.C07 Properties.C08 Properties.C13 Properties.C14
  Properties.C17 Properties.C18 Properties.C19 Properties.C20.
Module NVB_LawsAtRAll.
  Import Instances.ShoeboxR RAll.
  Definition at_C04_upper := @C04.C04_upper R RFOps _ _ _ _ _.
  Definition at_C04_upper_strict := @C04.C04_upper_strict R RFOps _ _ _ _ _ _.
  Definition at_C04_hidden_zero := @C04.C04_hidden_zero R RFOps.
  Definition at_C04_hidden_zero_kernels := @C04.C04_hidden_zero_kernels R RFOps.
  Definition at_C04_vertex_order := @C04.C04_vertex_order R RFOps _.
  Definition at_C04_similarity_translation := @C04.C04_similarity_translation R RFOps _.
  Definition at_C04_similarity_isometry := @C04.C04_similarity_isometry R RFOps _ _.
  Definition at_C04_similarity_scaling := @C04.C04_similarity_scaling R RFOps _ _ _ _.
  Definition at_C04_similarity := @C04.C04_similarity R RFOps _ _ _ _ _.
  Definition at_C04_partial := @C04.C04_partial R RFOps _ _ _ _ _.
  Definition at_C04_shoebox_all_patches_visible := @C04.C04_shoebox_all_patches_visible R RFOps _ _ _ _ _.
  Definition at_C05_invisible_zero := @C05.C05_invisible_zero R RFOps _ _ _.
  Definition at_C05_reciprocity := @C05.C05_reciprocity R RFOps _ _ _.
  Definition at_C05_stokes_sum_symmetric := @C05.C05_stokes_sum_symmetric R RFOps _.
  Definition at_C05_reciprocity_stokes := @C05.C05_reciprocity_stokes R RFOps _ _ _ _.
  Definition at_C05_stokes_nonneg := @C05.C05_stokes_nonneg R RFOps _.
  Definition at_C05_stokes_entry_nonneg := @C05.C05_stokes_entry_nonneg R RFOps _.
  Definition at_C05_boole_exact := @C05.C05_boole_exact R RFOps _ _ _.
  Definition at_C05_boole_linear := @C05.C05_boole_linear R RFOps _ _ _.
  Definition at_C05_similarity_cut_is_nocut := @C05.C05_similarity_cut_is_nocut R RFOps _ _ _.
  Definition at_C05_similarity_partial := @C05.C05_similarity_partial R RFOps _.
  Definition at_C05_similarity_cut0 := @C05.C05_similarity_cut0 R RFOps _ _ _ _.
  Definition at_C05_similarity_isometry := @C05.C05_similarity_isometry R RFOps _ _ _ _.
  Definition at_C05_similarity_orthogonal := @C05.C05_similarity_orthogonal R RFOps _ _ _ _.
  Definition at_C05_similarity_scaling := @C05.C05_similarity_scaling R RFOps _ _ _ _ _.
  Definition at_C05_similarity_scaling_sum := @C05.C05_similarity_scaling_sum R RFOps _ _ _ _ _.
  Definition at_C05_similarity_axis_permutation := @C05.C05_similarity_axis_permutation R RFOps _ _ _ _.
  Definition at_C05_nusselt_translation := @C05.C05_nusselt_translation R RFOps _.
  Definition at_C05_universal_full_translation := @C05.C05_universal_full_translation R RFOps _.
  Definition at_C05_nusselt_scaling := @C05.C05_nusselt_scaling R RFOps _ _ _ _.
  Definition at_C05_nusselt_grid_rectangle := @C05.C05_nusselt_grid_rectangle R RFOps _ _ _ _.
  Definition at_C05_full_assembly_entries := @C05.C05_full_assembly_entries R RFOps.
  Definition at_C05_full_assembly := @C05.C05_full_assembly R RFOps _ _ _.
  Definition at_C05_room_form_factors_computed := @C05.C05_room_form_factors_computed R RFOps _ _ _.
  Definition at_C05_room_geometry_is_tiling := @C05.C05_room_geometry_is_tiling R RFOps.
  Definition at_C07_scan_loop := @C07.C07_scan_loop R RFOps.
  Definition at_C07_scan_point := @C07.C07_scan_point R RFOps.
  Definition at_C07_scan_patch := @C07.C07_scan_patch R RFOps.
  Definition at_C07_scan_vis_sym := @C07.C07_scan_vis_sym R RFOps.
  Definition at_C07_scan_pairs := @C07.C07_scan_pairs R RFOps.
  Definition at_C07_symmetric_point := @C07.C07_symmetric_point R RFOps _ _ _ _.
  Definition at_C07_symmetric := @C07.C07_symmetric R RFOps _ _ _ _.
  Definition at_C07_symmetric_relation := @C07.C07_symmetric_relation R RFOps _ _ _ _.
  Definition at_C07_segment_logic := @C07.C07_segment_logic R RFOps _ _ _ _.
  Definition at_C07_segment_logic_endpoint := @C07.C07_segment_logic_endpoint R RFOps _ _ _ _.
  Definition at_C07_segment_logic_coplanar := @C07.C07_segment_logic_coplanar R RFOps _ _ _ _.
  Definition at_C07_partial := @C07.C07_partial R RFOps _ _ _ _.
  Definition at_C07_pip_correct_rect := @C07.C07_pip_correct_rect R RFOps _ _ _ _.
  Definition at_C07_pip_correct_rect_closed := @C07.C07_pip_correct_rect_closed R RFOps _ _ _ _.
  Definition at_C07_pip_correct_rect_horizontal := @C07.C07_pip_correct_rect_horizontal R RFOps _ _ _ _.
  Definition at_C07_segment_logic_rect := @C07.C07_segment_logic_rect R RFOps _ _ _ _.
  Definition at_C07_segment_logic_rect_endpoint := @C07.C07_segment_logic_rect_endpoint R RFOps _ _ _ _.
  Definition at_C07_segment_logic_rect_coplanar := @C07.C07_segment_logic_rect_coplanar R RFOps _ _ _ _.
  Definition at_C07_winding_general_position := @C07.C07_winding_general_position R RFOps _ _ _ _.
  Definition at_C07_pip_general_position := @C07.C07_pip_general_position R RFOps _ _ _ _.
  Definition at_C07_crossing_triangle := @C07.C07_crossing_triangle R RFOps _ _.
  Definition at_C07_pip_correct_triangle := @C07.C07_pip_correct_triangle R RFOps _ _ _ _.
  Definition at_C07_blocked_iff_rect := @C07.C07_blocked_iff_rect R RFOps _ _ _ _.
  Definition at_C07_room_visibility_geometric := @C07.C07_room_visibility_geometric R RFOps _ _ _ _.
  Definition at_C07_room_patches_are_rects := @C07.C07_room_patches_are_rects R RFOps _ _ _ _ _.
  Definition at_C07_room_visibility_geometric_shoebox := @C07.C07_room_visibility_geometric_shoebox R RFOps _ _ _ _ _.
  Definition at_C07_rect_own_centroid := @C07.C07_rect_own_centroid R RFOps _ _ _ _ _.
  Definition at_C07_room_center_is_rect_centroid := @C07.C07_room_center_is_rect_centroid R RFOps _ _ _ _ _.
  Definition at_C07_room_behind_hidden := @C07.C07_room_behind_hidden R RFOps _ _ _ _ _.
  Definition at_C07_room_coplanar_hidden := @C07.C07_room_coplanar_hidden R RFOps _ _ _ _ _.
  Definition at_C07_is_shoebox_unfold := @C07.C07_is_shoebox_unfold R RFOps.
  Definition at_C07_sb_tolerances_unfold := @C07.C07_sb_tolerances_unfold R RFOps.
  Definition at_C07_shoebox_axis_walls := @C07.C07_shoebox_axis_walls R RFOps _ _ _ _ _.
  Definition at_C07_shoebox_general_position := @C07.C07_shoebox_general_position R RFOps _ _ _ _ _.
  Definition at_C07_shoebox_visibility := @C07.C07_shoebox_visibility R RFOps _ _ _ _ _.
  Definition at_C07_shoebox_point_visibility := @C07.C07_shoebox_point_visibility R RFOps _ _ _ _ _.
  Definition at_C08_count := @C08.C08_count R RFOps _ _ _ _.
  Definition at_C08_count_is_floor := @C08.C08_count_is_floor R RFOps _ _ _ _.
  Definition at_C08_total_is_length := @C08.C08_total_is_length R RFOps.
  Definition at_C08_cell := @C08.C08_cell R RFOps _ _ _ _.
  Definition at_C08_congruent := @C08.C08_congruent R RFOps _ _ _ _.
  Definition at_C08_disjoint := @C08.C08_disjoint R RFOps _ _ _ _.
  Definition at_C08_cover := @C08.C08_cover R RFOps _ _ _ _.
  Definition at_C08_inside := @C08.C08_inside R RFOps _ _ _ _.
  Definition at_C08_rect_wall_extents := @C08.C08_rect_wall_extents R RFOps _ _.
  Definition at_C08_area_sum := @C08.C08_area_sum R RFOps _ _ _ _.
  Definition at_C08_patch_area := @C08.C08_patch_area R RFOps _ _ _ _ _.
  Definition at_C08_wall_attribution := @C08.C08_wall_attribution R RFOps.
  Definition at_C08_wall_block := @C08.C08_wall_block R RFOps.
  Definition at_C08_depends_on_extents := @C08.C08_depends_on_extents R RFOps.
  Definition at_C08_vertex_order := @C08.C08_vertex_order R RFOps _ _ _ _.
  Definition at_C08_eight_orders := @C08.C08_eight_orders R RFOps _ _ _ _.
  Definition at_C08_translate := @C08.C08_translate R RFOps _ _.
  Definition at_C08_kang_same := @C08.C08_kang_same R RFOps.
  Definition at_C08_axis_permutation := @C08.C08_axis_permutation R RFOps _ _ _ _.
  Definition at_C08_axis_permutation_index := @C08.C08_axis_permutation_index R RFOps _ _ _ _.
  Definition at_C08_axis_permutation_vertices := @C08.C08_axis_permutation_vertices R RFOps _ _ _ _.
  Definition at_C08_kang_axis_permutation := @C08.C08_kang_axis_permutation R RFOps _ _ _ _.
  Definition at_C13_normalised_weights := @C13.C13_normalised_weights R RFOps _.
  Definition at_C13_energy := @C13.C13_energy R RFOps _ _ _.
  Definition at_C13_scale_invariant := @C13.C13_scale_invariant R RFOps _ _ _.
  Definition at_C13_nonneg := @C13.C13_nonneg R RFOps _ _ _.
  Definition at_C13_nonneg_directional := @C13.C13_nonneg_directional R RFOps _ _ _.
  Definition at_C13_symmetric := @C13.C13_symmetric R RFOps _.
  Definition at_C13_directional := @C13.C13_directional R RFOps _ _ _.
  Definition at_C14_rigid := @C14.C14_rigid R RFOps _.
  Definition at_C14_argmin := @C14.C14_argmin R RFOps _ _.
  Definition at_C14_angle := @C14.C14_angle R RFOps _.
  Definition at_C14_frame_equiv := @C14.C14_frame_equiv R RFOps _.
  Definition at_C14_frame_complete := @C14.C14_frame_complete R RFOps _.
  Definition at_C14_uses := @C14.C14_uses R RFOps.
  Definition at_C17_translate := @C17.C17_translate R RFOps _.
  Definition at_C17_translate_entries := @C17.C17_translate_entries R RFOps _.
  Definition at_C17_relabel := @C17.C17_relabel R RFOps _.
  Definition at_C17_relabel_total := @C17.C17_relabel_total R RFOps _.
  Definition at_C17_relabel_arrivals := @C17.C17_relabel_arrivals R RFOps.
  Definition at_C17_relabel_scene := @C17.C17_relabel_scene R RFOps _.
  Definition at_C17_distances := @C17.C17_distances R RFOps _.
  Definition at_C17_distances_scene := @C17.C17_distances_scene R RFOps _.
  Definition at_C17_kernels_partial := @C17.C17_kernels_partial R RFOps _ _ _.
  Definition at_C17_kernels_stokes_rotation := @C17.C17_kernels_stokes_rotation R RFOps _ _ _ _.
  Definition at_C17_kernels_visibility_partial := @C17.C17_kernels_visibility_partial R RFOps _.
  Definition at_C17_normal_scale := @C17.C17_normal_scale R RFOps _ _ _ _.
  Definition at_C17_tiling_axis_permutation := @C17.C17_tiling_axis_permutation R RFOps _ _ _ _.
  Definition at_C18_sound := @C18.C18_sound R RFOps _.
  Definition at_C18_complete_partial := @C18.C18_complete_partial R RFOps _.
  Definition at_C18_complete_refuted_up_vector_rank := @C18.C18_complete_refuted_up_vector_rank R RFOps.
  Definition at_C18_complete_refuted_normal_rank := @C18.C18_complete_refuted_normal_rank R RFOps.
  Definition at_C18_complete_refuted_wall_ids_rank := @C18.C18_complete_refuted_wall_ids_rank R RFOps.
  Definition at_C18_complete_refuted_brdf_index := @C18.C18_complete_refuted_brdf_index R RFOps.
  Definition at_C18_complete_refuted_out_dirs_empty := @C18.C18_complete_refuted_out_dirs_empty R RFOps.
  Definition at_C18_complete_refuted_hist_without_duration := @C18.C18_complete_refuted_hist_without_duration R RFOps.
  Definition at_C19_offset := @C19.C19_offset R RFOps.
  Definition at_C19_recursion := @C19.C19_recursion R RFOps _.
  Definition at_C19_run_is_recursion := @C19.C19_run_is_recursion R RFOps.
  Definition at_C19_drop := @C19.C19_drop R RFOps _.
  Definition at_C19_truncation_commutes := @C19.C19_truncation_commutes R RFOps _.
  Definition at_C19_window := @C19.C19_window R RFOps _.
  Definition at_C19_nothing_before_delay := @C19.C19_nothing_before_delay R RFOps _.
  Definition at_C19_monotone_K := @C19.C19_monotone_K R RFOps _ _ _.
  Definition at_C19_receiver_factor_nonneg := @C19.C19_receiver_factor_nonneg R RFOps _ _ _ _ _ _.
  Definition at_C19_response := @C19.C19_response R RFOps _.
  Definition at_C19_direct := @C19.C19_direct R RFOps _.
  Definition at_C19_translate := @C19.C19_translate R RFOps _ _.
  Definition at_C19_cyclic := @C19.C19_cyclic R RFOps _.
  Definition at_C19_cyclic_distances := @C19.C19_cyclic_distances R RFOps _.
  Definition at_C20_factor := @C20.C20_factor R RFOps.
  Definition at_C20_factor_direct := @C20.C20_factor_direct R RFOps.
  Definition at_C20_frame_orthonormal := @C20.C20_frame_orthonormal R RFOps _.
  Definition at_C20_corotate := @C20.C20_corotate R RFOps _ _.
  Definition at_C20_corotate_normalised := @C20.C20_corotate_normalised R RFOps _.
  Definition at_C20_corotate_scene := @C20.C20_corotate_scene R RFOps _ _.
  Definition at_C20_unit := @C20.C20_unit R RFOps _.
  Definition at_C20_unit_direct := @C20.C20_unit_direct R RFOps _.
  Definition at_C20_no_directivity := @C20.C20_no_directivity R RFOps.
End NVB_LawsAtRAll.
