(** * Non-vacuity witnesses for the theorems of Properties/C04, C05, C07, C08, C13 .. C20
    (audit: VACUITY_AUDIT_B.md).

    Every [Example] below applies a theorem of a property file (or the lemma it is closed with) to
    CONCRETE, non-degenerate data and discharges each hypothesis by computation or a short proof.
    One module per property; each module selects the scalar instance it works with.

    Scalar instances used:
    - [RAll] (this file): Coq's real numbers with honest floor / ceiling -- ONE dictionary that
      satisfies ALL law classes of the development at once (ring, order, field, floor, nat, sqrt,
      abs (both classes), acos, strict acos, div, exp, ln).  Depends on the standard axioms of the
      [Reals] library only.
    - the axiom-free rational / integer instances of the other files of this directory. *)
From Coq Require Import Reals Lra Lia ZArith QArith Qcanon List Arith Bool Permutation RealField.
Import ListNotations.
Close Scope Qc_scope.
Close Scope Q_scope.
From SV Require Import Base.Ops Base.OpsGeom Base.Arr Base.Sums Model.Vec3.
From SV Require Proofs.VisibilitySym Proofs.FieldFacts Proofs.StokesSimilarity Instances.ShoeboxR.

(** ** All law classes at once, over R *)
Module RAll.
  Import Instances.ShoeboxR.
  Local Open Scope R_scope.
  #[export] Existing Instance RFOps.
  #[export] Existing Instance RFRing.
  #[export] Existing Instance RFOrder.
  #[export] Existing Instance RFField.
  #[export] Existing Instance RFFloor.
  #[export] Existing Instance RFSqrt.

  Lemma tle_iff (a b : R) : tle a b <-> a <= b.
  Proof. exact (tle_RF a b). Qed.
  Lemma tlt_iff (a b : R) : tlt a b <-> a < b.
  Proof. exact (tlt_RF a b). Qed.

  #[export] Instance RFNat : NatLaws R := NatLaws_of_Floor.

  #[export] Instance RFAcos : AcosLaws R.
  Proof.
    constructor; intros; repeat rewrite tle_iff; repeat rewrite tlt_iff; cbn [tacos tpi tzero RFOps].
    - apply acos_bound.
    - apply acos_bound.
    - apply PI_RGT_0.
  Qed.

  #[export] Instance RFAcosStrict : AcosStrictLaws R.
  Proof.
    constructor. intros x. rewrite !tlt_iff. cbn [tacos tpi tone topp RFOps]. intros Hx.
    destruct (Rlt_dec x 1) as [H1|H1].
    - apply acos_bound_lt. lra.
    - unfold acos. destruct (Rle_dec x (-1)); [lra|]. destruct (Rle_dec 1 x); [apply PI_RGT_0|lra].
  Qed.

  #[export] Instance RFDiv : DivLaws R.
  Proof. constructor. intros a b. cbn [tdiv tmul tone RFOps]. unfold Rdiv. ring. Qed.

  #[export] Instance RFExp : ExpLaws R.
  Proof.
    constructor.
    - exact exp_0.
    - intros a b. exact (exp_plus a b).
    - intros a. apply tlt_iff. apply exp_pos.
    - intros a b H. apply tle_iff in H. apply tle_iff. cbn [texp RFOps].
      destruct H as [H|H]; [left; now apply exp_increasing|right; now rewrite H].
  Qed.

  #[export] Instance RFLn : StokesSimilarity.LnLaws R.
  Proof.
    constructor. intros x y Hx Hy. apply tlt_iff in Hx. apply tlt_iff in Hy.
    change (ln (x * y) = ln x + ln y). apply ln_mult; assumption.
  Qed.

  (** the two [AbsLaws] classes follow from [SqrtLaws] by the generic instances *)
  Example RF_abs_visibility : VisibilitySym.AbsLaws R.
  Proof. exact VisibilitySym.AbsLaws_of_SqrtLaws. Qed.
  Example RF_abs_field : FieldFacts.AbsLaws R.
  Proof. exact FieldFacts.SqrtLaws_AbsLaws. Qed.

  (** every law class of the development, for the one dictionary [RFOps] *)
  Example all_laws_jointly :
    RingLaws R /\ OrderLaws R /\ FieldLaws R /\ ExpLaws R /\ FloorLaws R /\ SqrtLaws R /\ AcosLaws R /\
    NatLaws R /\ DivLaws R /\ AcosStrictLaws R /\ StokesSimilarity.LnLaws R /\
    VisibilitySym.AbsLaws R /\ FieldFacts.AbsLaws R.
  Proof.
    exact (conj RFRing (conj RFOrder (conj RFField (conj RFExp (conj RFFloor (conj RFSqrt (conj RFAcos
          (conj RFNat (conj RFDiv (conj RFAcosStrict (conj RFLn (conj RF_abs_visibility RF_abs_field)))))))))))).
  Qed.

  Lemma Rabs_gt (m a : R) : m < a \/ m < - a -> m < Rabs a.
  Proof.
    intros [H|H].
    - apply (Rlt_le_trans _ a); [exact H|apply Rle_abs].
    - apply (Rlt_le_trans _ (- a)); [exact H|]. rewrite <- Rabs_Ropp. apply Rle_abs.
  Qed.
  Lemma sqrt_of_square (x y : R) : 0 <= y -> x = y * y -> sqrt x = y.
  Proof. intros Hy ->. now apply sqrt_square. Qed.
End RAll.

(** ** C04 *)
From SV Require Model.Exchange Model.Scene Model.PtSolution Properties.C04.
Module NVB_C04.
  Import Model.Exchange Model.Scene Model.PtSolution Properties.C04 RAll.
  Local Open Scope R_scope.

  (** one triangular patch (the octant triangle) seen from the origin, and a second patch that the
      source does not see; two bands with different air attenuation *)
  Definition octant : list (@vec R) := [(1, 0, 0); (0, 1, 0); (0, 0, 1)].
  Definition behind : list (@vec R) := [(-1, 0, 0); (0, -1, 0); (0, 0, -1)].
  Definition scR : @scene R :=
    mkScene 2 1 2 [(1/3, 1/3, 1/3); (-1/3, -1/3, -1/3)] [1; 1] [0; 1]%nat
            [[false; false]; [false; false]] [[0; 0]; [0; 0]] [0; 1/100] [[[[1; 1]]]] [0; 0]%nat
            [[(0, 0, 1)]; [(0, 0, 1)]] [[(0, 0, 1)]; [(0, 0, 1)]].
  Definition srcR : @source R := mkSource (0, 0, 0) [true; false] [1/8; 1/8] None.

  (** C04_hidden_zero: patch 1 is not visible *)
  Example hidden_zero_applies b : energy0 scR srcR 1 b = 0 /\ src_dist scR srcR 1 = 0.
  Proof. exact (C04_hidden_zero scR srcR 1 b eq_refl). Qed.
  (** ... while the visible patch 0 has a non-zero distance (the clause is not about all patches) *)
  Example visible_patch_not_zero : src_dist scR srcR 0 <> 0.
  Proof.
    cbv [src_dist srcR src_vis nthb nth src_pos center scR s_centers nthv vdist vnorm vnorm2 vdot vsub mkv
         vx vy vz fst snd tsub tmul tadd tsqrt tzero ShoeboxR.RFOps].
    intros H. apply sqrt_eq_0 in H; lra.
  Qed.

  (** C04_hidden_zero_kernels *)
  Example hidden_zero_kernels_applies (thr : R) b :
    s2p_energy thr scR (0, 0, 0) [true; false] [octant; behind] 1 b = 0 /\
    s2p_dist thr scR (0, 0, 0) [true; false] [octant; behind] 1 = 0 /\
    p2r_factor thr (0, 0, 0) [true; false] [octant; behind] 1 = 0.
  Proof. exact (C04_hidden_zero_kernels thr scR (0, 0, 0) [true; false] [octant; behind] 1 b eq_refl). Qed.

  (** C04_partial (law classes ring, order, field, nat, acos: all provided by [RAll]); both inner
      hypotheses of the first conjunct hold for the visible patch 0 *)
  Example partial_applies (thr : R) (b : nat) :
    s2p_energy thr scR (0, 0, 0) [true; false] [octant; behind] 0 b =
      (attn scR b (vdist (0, 0, 0) (center scR 0)) * pt_solution thr false (0, 0, 0) octant)%T /\
    (- (tofnat 1 * tpi) <= pt_solution thr false (0, 0, 0) octant * (tpi * four))%T.
  Proof.
    destruct (C04_partial thr scR (0, 0, 0) [true; false] [octant; behind] 0 b) as [H1 H2].
    split; [exact (H1 eq_refl (le_S _ _ (le_n 1)))|exact H2].
  Qed.

  (** C04_upper / C04_upper_strict / C04_similarity* at the dictionary that also has floor laws *)
  Example upper_applies (thr : R) : (pt_solution thr false (0, 0, 0) octant <= 1 / (1 + 1))%T.
  Proof. exact (C04_upper thr (0, 0, 0) octant (le_n 3)). Qed.

  Definition M345 : @Isometry.mat R := ((3/5, -4/5, 0), (4/5, 3/5, 0), (0, 0, -1)).
  Example M345_orthogonal : Isometry.orthogonal M345.
  Proof.
    unfold Isometry.orthogonal, M345, Isometry.mcol1, Isometry.mcol2, Isometry.mcol3, Isometry.mrow1,
      Isometry.mrow2, Isometry.mrow3, vdot, mkv, vx, vy, vz.
    cbn [fst snd tadd tmul tzero tone ShoeboxR.RFOps]. repeat split; field.
  Qed.
  Example octant_off_point : forall p, In p octant -> (0 < vnorm2 (vsub p (0, 0, 0)))%T.
  Proof.
    intros p Hp. apply (proj2 (tlt_iff _ _)). simpl in Hp.
    destruct Hp as [<-|[<-|[<-|[]]]];
      cbv [vnorm2 vdot vsub mkv vx vy vz fst snd tzero tone tmul tadd tsub ShoeboxR.RFOps]; lra.
  Qed.
  Example similarity_applies (thr : R) (t : @vec R) :
    pt_solution thr false (vadd (0, 0, 0) t) (map (fun p => vadd p t) octant) = pt_solution thr false (0, 0, 0) octant /\
    pt_solution thr false (Isometry.mapply M345 (0, 0, 0)) (map (Isometry.mapply M345) octant)
      = pt_solution thr false (0, 0, 0) octant /\
    pt_solution thr false (vscale 2 (0, 0, 0)) (map (vscale 2) octant) = pt_solution thr false (0, 0, 0) octant.
  Proof.
    apply C04_similarity; [exact M345_orthogonal| |exact octant_off_point].
    apply (proj2 (tlt_iff _ _)). cbn [tzero ShoeboxR.RFOps]. lra.
  Qed.
  Example similarity_parts_apply (thr : R) (recv : bool) (t : @vec R) :
    pt_solution thr recv (Isometry.mapply M345 (0, 0, 0)) (map (Isometry.mapply M345) octant)
      = pt_solution thr recv (0, 0, 0) octant /\
    pt_solution thr false (vscale 3 (0, 0, 0)) (map (vscale 3) octant) = pt_solution thr false (0, 0, 0) octant.
  Proof.
    split; [exact (C04_similarity_isometry M345 thr recv (0, 0, 0) octant M345_orthogonal)|].
    apply C04_similarity_scaling; [apply (proj2 (tlt_iff _ _)); cbn [tzero ShoeboxR.RFOps]; lra|exact octant_off_point].
  Qed.
End NVB_C04.

(** ** C05 over the rationals (ring, order, field, abs laws: [Instances/InstQc.v]) *)
From SV Require Model.Stokes Model.Nusselt Model.Tiling Model.Full Spec.Isometry Proofs.PtSimilarity
  Proofs.StokesSum Proofs.NusseltProofs Instances.InstQc Properties.C05.
Module NVB_C05.
  Import Model.Exchange Model.Scene Model.Stokes Model.Nusselt Spec.Isometry Proofs.FieldFacts
    Proofs.StokesSum Instances.InstQc Properties.C05.
  #[local] Existing Instance InstQc.QcOps.
  #[local] Existing Instance InstQc.QcRing.
  #[local] Existing Instance InstQc.QcOrder.
  #[local] Existing Instance InstQc.QcField.
  #[local] Existing Instance InstQc.QcAbs.

  Ltac qc_eq := apply Qc_is_canon; vm_compute; reflexivity.

  (** C05_invisible_zero / C05_reciprocity / C05_stokes_entry_nonneg on the three-patch scene [scQ]:
      pair (0,2) invisible, pair (0,1) visible with a non-zero Stokes value *)
  Example invisible_zero_applies :
    (if 0 <? 2 then get2 (s_F scQ) 0 2 else get2 (s_F scQ) 2 0) = 0%T /\
    ff_full scQ 0 2 = 0%T /\ forall d b, get4 (tilde scQ) 0 2 d b = 0%T.
  Proof.
    destruct scene_hyps as (H1 & H2 & _ & H4 & _).
    exact (C05_invisible_zero scQ thrQ cutQ ptsQ [] 0 2 H1 H2 H4).
  Qed.
  Example area1_nonzero : area scQ 1 <> 0%T.
  Proof. intros H; apply (f_equal this) in H; vm_compute in H; discriminate H. Qed.
  Example reciprocity_applies : (area scQ 0 * ff_full scQ 0 1)%T = (area scQ 1 * ff_full scQ 1 0)%T.
  Proof.
    destruct scene_hyps as (_ & H2 & _).
    exact (C05_reciprocity scQ 0 1 (fun H => O_S _ H) H2 area1_nonzero).
  Qed.
  (** ... and both sides are the same NON-ZERO number *)
  Example reciprocity_not_trivial : (area scQ 0 * ff_full scQ 0 1)%T <> 0%T.
  Proof. intros H; apply (f_equal this) in H; vm_compute in H; discriminate H. Qed.

  Example stokes_entry_nonneg_applies :
    (0 <= get2 (patch2patch_ff thrQ cutQ ptsQ (s_areas scQ) (vis_pairs scQ) []) 0 1)%T.
  Proof.
    apply C05_stokes_entry_nonneg; [vm_compute; lia|vm_compute; lia|vm_compute; reflexivity|
                                    vm_compute; reflexivity].
  Qed.

  Example reciprocity_stokes_applies :
    (q 1 1 * stokes_integration cutQ sqI sqJ (q 1 1))%T = (q 2 1 * stokes_integration cutQ sqJ sqI (q 2 1))%T.
  Proof.
    destruct recip_hyps as (H1 & H2 & H3). exact (C05_reciprocity_stokes cutQ sqI sqJ (q 1 1) (q 2 1) H1 H2 H3).
  Qed.

  (** C05_similarity_cut_is_nocut *)
  Example cut_is_nocut_applies (a : Qc) : stokes_integration cutQ sqI sqJ a = stokes_nocut sqI sqJ a.
  Proof.
    destruct squares_have_no_small_extent as [H1 H2].
    exact (C05_similarity_cut_is_nocut cutQ sqI sqJ a H1 H2).
  Qed.

  (** a rotation that moves every axis: (1/3) [[2,-1,2],[2,2,-1],[-1,2,2]] *)
  Definition M3 : @mat Qc := ((q 2 3, q (-1) 3, q 2 3), (q 2 3, q 2 3, q (-1) 3), (q (-1) 3, q 2 3, q 2 3)).
  Example M3_orthogonal : orthogonal M3.
  Proof. unfold orthogonal. repeat split; qc_eq. Qed.
  Example M3_moves : mapply M3 (v 1 0 0) = (q 2 3, q 2 3, q (-1) 3).
  Proof. unfold mapply, mkv. repeat f_equal; qc_eq. Qed.

  Example similarity_orthogonal_applies (t : @vec Qc) (a : Qc) :
    stokes_nocut (map (fun x => vadd (mapply M3 x) t) sqI) (map (fun x => vadd (mapply M3 x) t) sqJ) a =
      stokes_nocut sqI sqJ a /\
    stokes_integration 0%T (map (fun x => vadd (mapply M3 x) t) sqI) (map (fun x => vadd (mapply M3 x) t) sqJ) a =
      stokes_integration 0%T sqI sqJ a.
  Proof. exact (C05_similarity_orthogonal M3 t sqI sqJ a M3_orthogonal). Qed.
  Example similarity_isometry_applies (t : @vec Qc) (a : Qc) :
    stokes_nocut (map (fun x => vadd (mapply M3 x) t) sqI) (map (fun x => vadd (mapply M3 x) t) sqJ) a =
      stokes_nocut sqI sqJ a /\
    stokes_integration 0%T (map (fun x => vadd (mapply M3 x) t) sqI) (map (fun x => vadd (mapply M3 x) t) sqJ) a =
      stokes_integration 0%T sqI sqJ a.
  Proof. exact (C05_similarity_isometry M3 t sqI sqJ a (PtSimilarity.mdot M3 M3_orthogonal)). Qed.

  (** C05_similarity_axis_permutation: (x, y, z) |-> (-z, x, -y), for the code's cut-off 1e-3 *)
  Definition sigmaQ (d : nat) : nat := match d with 0 => 2 | 1 => 0 | _ => 1 end.
  Example sigmaQ_perm : Permutation [sigmaQ 0; sigmaQ 1; sigmaQ 2] [0; 1; 2].
  Proof. simpl. eapply perm_trans; [apply perm_swap|]. apply perm_skip. apply perm_swap. Qed.
  Example axis_permutation_applies (a : Qc) :
    let m := fun p : @vec Qc =>
      mkv (- (1) * coord (sigmaQ 0) p)%T (1 * coord (sigmaQ 1) p)%T (- (1) * coord (sigmaQ 2) p)%T in
    stokes_integration cutQ (map m sqI) (map m sqJ) a = stokes_integration cutQ sqI sqJ a.
  Proof.
    exact (C05_similarity_axis_permutation sigmaQ (- (1))%T 1%T (- (1))%T cutQ sqI sqJ a sigmaQ_perm
             (or_intror eq_refl) (or_introl eq_refl) (or_intror eq_refl)).
  Qed.

  (** C05_nusselt_translation / C05_universal_full_translation: a quadrilateral pair *)
  Example nusselt_translation_applies (t1 t2 t3 : Qc) (t o n ni nj : @vec Qc) (ns : nat) :
    nusselt_analog t1 t2 t3 (vadd o t) n (map (fun p => vadd p t) sqJ) nj = nusselt_analog t1 t2 t3 o n sqJ nj /\
    nusselt_integration t1 t2 t3 (map (fun p => vadd p t) sqI) (map (fun p => vadd p t) sqJ) ni nj ns =
      nusselt_integration t1 t2 t3 sqI sqJ ni nj ns.
  Proof.
    apply C05_nusselt_translation; simpl; lia.
  Qed.
  Example universal_full_translation_applies (a b c : Qc) (t n1 n2 : @vec Qc) (ar : Qc) :
    universal_ff_full thrQ cutQ a b c (map (fun p => vadd p t) sqI) n1 ar (map (fun p => vadd p t) sqJ) n2 =
    universal_ff_full thrQ cutQ a b c sqI n1 ar sqJ n2.
  Proof. apply C05_universal_full_translation; simpl; lia. Qed.

  (** C05_full_assembly(_entries): the same scene with the matrix assembled by the model that computes
      both branches (patches 0, 1 do not touch: Stokes branch) *)
  Definition normalsQ : list (@vec Qc) := [v 0 0 1; v 0 (-1) 0; v 0 0 1].
  Definition scQfull : @scene Qc :=
    sc0 (patch2patch_ff_full thrQ cutQ thrQ thrQ thrQ ptsQ normalsQ [q 1 1; q 2 1; q 1 1] (vis_pairs (sc0 [])) ).
  Example full_assembly_hyp :
    s_F scQfull = patch2patch_ff_full thrQ cutQ thrQ thrQ thrQ ptsQ normalsQ (s_areas scQfull) (vis_pairs scQfull).
  Proof. reflexivity. Qed.
  Example full_assembly_applies :
    ((if 0 <? 2 then get2 (s_F scQfull) 0 2 else get2 (s_F scQfull) 2 0) = 0%T /\
     ff_full scQfull 0 2 = 0%T /\ forall d b, get4 (tilde scQfull) 0 2 d b = 0%T) /\
    (area scQfull 0 * ff_full scQfull 0 1)%T = (area scQfull 1 * ff_full scQfull 1 0)%T.
  Proof.
    destruct (C05_full_assembly scQfull thrQ cutQ thrQ thrQ thrQ ptsQ normalsQ 0 2 full_assembly_hyp) as [H1 _].
    destruct (C05_full_assembly scQfull thrQ cutQ thrQ thrQ thrQ ptsQ normalsQ 0 1 full_assembly_hyp) as [_ H2].
    destruct scene_hyps as (_ & A0 & _).
    split.
    - apply H1; [exact A0|reflexivity].
    - apply H2; [intros H; discriminate H|exact A0|exact area1_nonzero].
  Qed.
  Example full_assembly_entries_applies :
    get2 (patch2patch_ff_full thrQ cutQ thrQ thrQ thrQ ptsQ normalsQ (s_areas scQfull) (vis_pairs scQfull)) 0 2 = 0%T /\
    get2 (patch2patch_ff_full thrQ cutQ thrQ thrQ thrQ ptsQ normalsQ (s_areas scQfull) (vis_pairs scQfull)) 0 1 =
      stokes_integration cutQ sqI sqJ (q 1 1).
  Proof.
    split.
    - apply (proj1 (C05_full_assembly_entries thrQ cutQ thrQ thrQ thrQ ptsQ normalsQ (s_areas scQfull)
                      (vis_pairs scQfull) 0 2)). reflexivity.
    - rewrite (proj2 (C05_full_assembly_entries thrQ cutQ thrQ thrQ thrQ ptsQ normalsQ (s_areas scQfull)
                      (vis_pairs scQfull) 0 1)); [|simpl; lia|simpl; lia|reflexivity].
      replace (coincidence_check thrQ (nth 1 ptsQ []) (nth 0 ptsQ [])) with false by (vm_compute; reflexivity).
      reflexivity.
  Qed.
End NVB_C05.
