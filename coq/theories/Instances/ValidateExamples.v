(** * Non-vacuity for C18: the integers as an ordered scalar type, one valid saved state per
    pipeline stage (10 patches on 6 walls, 4 outgoing directions, 2 bands, 25 time bins), and
    the verdict of the model on a few single-field corruptions of them. *)
From Coq Require Import List Arith Bool ZArith Lia.
Import ListNotations.
From SV Require Import Base.Ops Model.Validate Spec.ValidateSpec Proofs.ValidateProofs.

#[export] Instance ZOps : Ops Z := {|
  tzero := 0%Z; tone := 1%Z;
  tadd := Z.add; tmul := Z.mul; tsub := Z.sub; topp := Z.opp; tdiv := Z.div;
  tleb := Z.leb; tltb := Z.ltb; teqb := Z.eqb;
  tofnat := Z.of_nat; ttrunc := Z.to_nat; tceil := Z.to_nat;
  tsqrt := Z.sqrt; texp := fun x => x; tln := fun x => x; tacos := fun x => x;
  tatan := fun x => x; tpi := 3%Z; tabs := Z.abs |}.

#[export] Instance ZOrderLaws : OrderLaws Z.
Proof.
  constructor; unfold tle, tlt; cbn; intros;
    try apply Z.ltb_antisym; try apply Z.eqb_eq;
    rewrite ?Z.leb_le, ?Z.ltb_lt in *; try lia; try nia.
Qed.

Definition ids10 : ids_desc := IdsVec [0; 0; 1; 1; 2; 3; 4; 4; 5; 5]%Z.
Definition dirs6 : list dirkind := [Coord; Coord; Coord; Coord; Coord; Coord].

(** stage 1: [from_polygon] *)
Definition stage1 : state Z :=
  mkState Z [6; 4; 3] [6; 3] [6; 3] [10; 4; 3] 10 ids10
          None None None None None None None None None 0 None None None None None None None None.
(** stage 2: after [set_wall_brdf] on every wall and [set_air_attenuation] *)
Definition stage2 : state Z :=
  mkState Z [6; 4; 3] [6; 3] [6; 3] [10; 4; 3] 10 ids10
          None None None None (Some [2]) (Some [[4; 4; 2]; [4; 4; 2]]) (Some [6])
          (Some dirs6) (Some dirs6) 4 None (Some [2]) None None None None None None.
(** stage 3: after [bake_geometry] *)
Definition stage3 : state Z :=
  mkState Z [6; 4; 3] [6; 3] [6; 3] [10; 4; 3] 10 ids10
          (Some [10; 10]) (Some [41; 2]) (Some [10; 10]) (Some [10; 10; 4; 2]) (Some [2])
          (Some [[4; 4; 2]; [4; 4; 2]]) (Some [6]) (Some dirs6) (Some dirs6) 4
          (Some [10; 10]) (Some [2]) None None None None None None.
(** stage 4: after [init_source_energy] *)
Definition stage4 : state Z :=
  mkState Z [6; 4; 3] [6; 3] [6; 3] [10; 4; 3] 10 ids10
          (Some [10; 10]) (Some [41; 2]) (Some [10; 10]) (Some [10; 10; 4; 2]) (Some [2])
          (Some [[4; 4; 2]; [4; 4; 2]]) (Some [6]) (Some dirs6) (Some dirs6) 4
          (Some [10; 10]) (Some [2]) None None None (Some [10]) (Some [10; 4; 2]) None.
(** stage 5: after [calculate_energy_exchange] (c = 343, resolution 2, duration 51: 25 bins) *)
Definition stage5 : state Z :=
  mkState Z [6; 4; 3] [6; 3] [6; 3] [10; 4; 3] 10 ids10
          (Some [10; 10]) (Some [41; 2]) (Some [10; 10]) (Some [10; 10; 4; 2]) (Some [2])
          (Some [[4; 4; 2]; [4; 4; 2]]) (Some [6]) (Some dirs6) (Some dirs6) 4
          (Some [10; 10]) (Some [2]) (Some 343%Z) (Some 2%Z) (Some 51%Z)
          (Some [10]) (Some [10; 4; 2]) (Some [10; 4; 2; 25]).

Ltac consistent :=
  intros c; destruct c; cbn;
  first
    [ reflexivity
    | eexists; reflexivity
    | eexists; split; reflexivity
    | intros; lia
    | intros k Hk; intuition congruence
    | split; [discriminate|intros k Hk; intuition congruence]
    | eexists; eexists; split; [reflexivity|split; [reflexivity|vm_compute; reflexivity]] ].

Example stage1_consistent : Consistent stage1.
Proof. consistent. Qed.
Example stage2_consistent : Consistent stage2.
Proof. consistent. Qed.
Example stage3_consistent : Consistent stage3.
Proof. consistent. Qed.
Example stage4_consistent : Consistent stage4.
Proof. consistent. Qed.
Example stage5_consistent : Consistent stage5.
Proof. consistent. Qed.

Example stages_accepted :
  map construct [stage1; stage2; stage3; stage4; stage5] = [Ok; Ok; Ok; Ok; Ok].
Proof. vm_compute. reflexivity. Qed.

(** a few single-field corruptions of the stage-5 state, evaluated by the model *)
Definition with_duration (s : state Z) (x : option Z) : state Z :=
  mkState Z (v_walls_points s) (v_walls_normal s) (v_walls_up_vector s) (v_patches_points s)
    (v_n_patches s) (v_patch_to_wall_ids s) (v_visibility_matrix s) (v_visible_patches s)
    (v_form_factors s) (v_form_factors_tilde s) (v_frequencies s) (v_brdf s) (v_brdf_index s)
    (v_brdf_incoming_directions s) (v_brdf_outgoing_directions s) (v_out_csize s)
    (v_patch_2_brdf_outgoing_index s) (v_air_attenuation s) (v_speed_of_sound s)
    (v_etc_time_resolution s) x (v_distance_patches_to_source s)
    (v_energy_init_source s) (v_energy_exchange_etc s).

Example corruptions_rejected :
  map construct
    [ set_up stage5 [3];                                   (* rank-1 up vector, six walls *)
      set_ids stage5 (IdsVec [0; 0; 1; 1; 2; 3; 4; 4; 5; 6]%Z);     (* id = n_walls *)
      set_ids stage5 (IdsVec [0; 0; 1; 1; 2; 3; 4; 4; 5; -1]%Z);    (* negative id *)
      set_ids stage5 (IdsVec [0; 0; 1; 1; 2; 2; 4; 4; 5; 5]%Z);     (* wall 3 has no patch *)
      set_ids stage5 (IdsND 1 10 []);                      (* 2-d wall ids *)
      set_hist stage5 (Some [10; 4; 2; 24]);               (* wrong n_samples *)
      with_duration stage5 (Some 0%Z);                     (* zero duration *)
      with_duration stage5 (Some 60%Z);                    (* histogram no longer matches *)
      set_out_dirs stage5 (Some [Coord; NotCoord; Coord; Coord; Coord; Coord]) ]
  = [ValueError; ValueError; ValueError; ValueError; ValueError; ValueError; ValueError;
     ValueError; ValueError].
Proof. vm_compute. reflexivity. Qed.

(** the hypotheses of [C18_complete_partial] are satisfiable together *)
Example complete_partial_applies :
  let s := set_hist stage5 (Some [10; 4; 2; 24]) in
  ~ Foreign s /\ ~ holds CHist s /\ ~ masked CHist s.
Proof.
  cbn. repeat split.
  - intros [H|[H|[_ [H|H]]]]; discriminate.
  - intros (d & r & Hd & Hr & H). injection Hd as <-. injection Hr as <-.
    vm_compute in H. discriminate.
  - tauto.
Qed.
