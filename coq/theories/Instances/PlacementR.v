(** * Non-vacuity of the room-placement theorems of C17 (C17_room_translate,
    C17_room_geometry_axis_permutation): over the real numbers all the law classes they assume
    hold at once (ring, order, field, floor, [DivLaws], [AbsLaws]) and a concrete room -- the box
    [0,4] x [0,3] x [0,2] of [Instances/ShoeboxR.v], patch size 1 -- meets their hypotheses for the
    rotation by a quarter turn about the z axis, [m (x, y, z) = (- y, x, z)], which has
    [sdet = 1].  The dictionary is the one of [ShoeboxR.v]; the examples depend on the standard
    axioms of the [Reals] library only. *)
From Coq Require Import Reals Lra Lia ZArith List Arith Bool RealField Permutation.
Import ListNotations.
From SV Require Import Base.Ops Base.OpsGeom Base.Arr Model.Vec3 Model.Exchange Model.Scene Model.Tiling
  Model.Visibility Model.Full
  Proofs.TilingProofs Proofs.TilingPerm Proofs.FieldFacts Proofs.FullVisibility Proofs.FullShoebox
  Proofs.PlacementTranslate Proofs.FullTranslate Proofs.FullPlacement Proofs.FullPlacementScene
  Instances.ShoeboxR.
Local Open Scope R_scope.

#[local] Existing Instance RFOps.
#[local] Existing Instance RFRing.
#[local] Existing Instance RFOrder.
#[local] Existing Instance RFField.
#[local] Existing Instance RFFloor.
#[local] Existing Instance RFSqrt.

#[local] Instance RFDiv : DivLaws R.
Proof. constructor. intros a b. cbn [tdiv tmul tone RFOps]. unfold Rdiv. ring. Qed.

(** translation: the output of the composed model is the identical list *)
Example boxR_translate (t rcv : @vec R) (tm : @timing R) (K : nat) (direct : bool) :
  room_mono (translate_room t boxR) tm (vadd srcR t) (vadd rcv t) K direct =
  room_mono boxR tm srcR rcv K direct.
Proof. exact (room_mono_translate t boxR tm srcR rcv K direct). Qed.

(** the walls of the box are in the domain of the tiling theorems *)
Lemma boxR_walls_ok : walls_ok boxR.
Proof.
  intros q Hq. destruct (In_nth _ _ dquad Hq) as (w & Hw & <-).
  destruct (shoebox_axis_walls boxR 0 4 0 3 0 2 boxR_is_shoebox w Hw) as (f & c & up & Hok & _).
  now exists f, c.
Qed.

(** the quarter turn about z *)
Definition qsigma (d : nat) : nat := match d with 0%nat => 1%nat | 1%nat => 0%nat | _ => 2%nat end.
Lemma qsigma_perm : Permutation [qsigma 0; qsigma 1; qsigma 2] [0; 1; 2]%nat.
Proof. cbn [qsigma]. apply perm_swap. Qed.
Lemma quarter_turn (v : @vec R) : smap qsigma (-1) 1 1 v = (- vy v, vx v, vz v).
Proof.
  destruct v as [[x y] z]. unfold smap, vget, mkv, vx, vy, vz. cbn [qsigma fst snd tmul RFOps].
  f_equal; [f_equal|]; ring.
Qed.
Lemma quarter_turn_det : sdet qsigma (-1) 1 1 = 1.
Proof. unfold sdet, psign. cbn [qsigma Nat.eqb tmul tone topp RFOps]. ring. Qed.

(** the geometry theorem applies: a renumbering exists, and it transports centres, areas, walls *)
Example boxR_quarter_turn_geometry :
  rm_np (sperm_room qsigma (-1) 1 1 boxR) = rm_np boxR /\
  exists pi, relabels qsigma (-1) 1 1 boxR pi /\
    forall k, (k < rm_np boxR)%nat ->
      nthv (rm_centers (sperm_room qsigma (-1) 1 1 boxR)) (pi k) = smap qsigma (-1) 1 1 (nthv (rm_centers boxR) k) /\
      nthT (rm_areas (sperm_room qsigma (-1) 1 1 boxR)) (pi k) = nthT (rm_areas boxR) k.
Proof.
  assert (Hm : (-1 : R) = tone \/ (-1 : R) = topp tone) by (right; reflexivity).
  assert (H1 : (1 : R) = tone \/ (1 : R) = topp tone) by (left; reflexivity).
  split; [exact (sperm_room_np qsigma (-1) 1 1 qsigma_perm Hm H1 H1 boxR boxR_walls_ok)|].
  destruct (room_relabel_exists qsigma (-1) 1 1 qsigma_perm Hm H1 H1 boxR boxR_walls_ok) as (pi & Hpi).
  exists pi. split; [exact Hpi|]. intros k Hk.
  exact (conj (relabel_center qsigma (-1) 1 1 qsigma_perm Hm H1 H1 boxR boxR_walls_ok pi Hpi k Hk)
              (relabel_area qsigma (-1) 1 1 qsigma_perm Hm H1 H1 boxR boxR_walls_ok pi Hpi k Hk)).
Qed.
