(** * Non-vacuity of the C20 hypotheses: canonical rationals as scalars, a genuinely
    three-dimensional rational rotation, an oblique non-normalised view/up, and a small
    directivity table -- everything by [vm_compute]. *)
From Coq Require Import ZArith QArith Qcanon Qround Qabs List Bool Lia Ring.
Import ListNotations.
From SV Require Import Base.Ops Base.Arr Model.Vec3 Model.Exchange Model.Scene Model.Directivity
  Proofs.DirectivityProofs.

(** exact on squares of rationals, which is all the examples need *)
Definition Qc_sqrt_c20 (q : Qc) : Qc := Q2Qc (Qmake (Z.sqrt (Qnum q)) (Pos.sqrt (Qden q))).

#[local] Instance QcOpsC20 : Ops Qc := {|
  tzero := 0%Qc; tone := 1%Qc; tadd := Qcplus; tmul := Qcmult; tsub := Qcminus; topp := Qcopp;
  tdiv := Qcdiv;
  tleb := fun a b => Qle_bool a b; tltb := fun a b => negb (Qle_bool b a);
  teqb := fun a b => Qeq_bool a b;
  tofnat := fun n => Q2Qc (inject_Z (Z.of_nat n));
  ttrunc := fun q => Z.to_nat (Qfloor q); tceil := fun q => Z.to_nat (Qceiling q);
  tsqrt := Qc_sqrt_c20; texp := fun x => x; tln := fun x => x; tacos := fun x => x;
  tatan := fun x => x; tpi := Q2Qc (3 # 1); tabs := fun q => Q2Qc (Qabs q) |}.

#[local] Instance QcRingC20 : RingLaws Qc.
Proof. constructor. exact Qcrt. Qed.

#[local] Instance QcFieldC20 : FieldLaws Qc.
Proof.
  constructor. intros a b Hb. simpl. rewrite Qcmult_comm. now apply Qcmult_div_r.
Qed.

Definition qc (n : Z) (d : positive) : Qc := Q2Qc (n # d).
Definition qv (x y z : Z) (d : positive) : @vec Qc := (qc x d, qc y d, qc z d).

(** a rotation that moves every axis: (1/3) [[2,-1,2],[2,2,-1],[-1,2,2]] *)
Definition M3 : @mat Qc := (qv 2 (-1) 2 3, qv 2 2 (-1) 3, qv (-1) 2 2 3).
(** rotation by 90 degrees about z *)
Definition Mz : @mat Qc := (qv 0 (-1) 0 1, qv 1 0 0 1, qv 0 0 1 1).

Ltac qc_eq := apply Qc_is_canon; vm_compute; reflexivity.
Ltac qc_neq := let H := fresh in intro H; apply (f_equal this) in H; vm_compute in H; discriminate H.

Example M3_rotation : rotation M3.
Proof. unfold rotation, orthogonal. repeat split; qc_eq. Qed.
Example Mz_rotation : rotation Mz.
Proof. unfold rotation, orthogonal. repeat split; qc_eq. Qed.

(** an oblique, non-normalised frame: |view| = 5, |up| = 2, view . up = 0 *)
Definition view0 : @vec Qc := qv 3 0 4 1.
Definition up0 : @vec Qc := qv 0 2 0 1.
Definition pos0 : @vec Qc := qv 1 2 3 2.
(** target - position = (6, 2, -3), of length 7 *)
Definition tgt0 : @vec Qc := qv 13 6 (-3) 2.

Example view0_norm : tsqrt (vdot view0 view0) <> 0%T.
Proof. qc_neq. Qed.
Example up0_norm : tsqrt (vdot up0 up0) <> 0%T.
Proof. qc_neq. Qed.

(** the hypotheses of C20_corotate are met by a concrete input *)
Example corotate_instance :
  frame_dir (mv M3 pos0) (mv M3 view0) (mv M3 up0) (mv M3 tgt0) = frame_dir pos0 view0 up0 tgt0.
Proof. exact (frame_dir_corotate M3 pos0 view0 up0 tgt0 M3_rotation view0_norm up0_norm). Qed.

(** the six axis directions as measured receivers, two frequencies, a non-constant table *)
Definition dv0 : @directivity Qc :=
  mkDirectivity [qv 1 0 0 1; qv (-1) 0 0 1; qv 0 1 0 1; qv 0 (-1) 0 1; qv 0 0 1 1; qv 0 0 (-1) 1]
                [qc 100 1; qc 1000 1]
                [[qc 1 1; qc 2 1]; [qc 3 1; qc 4 1]; [qc 5 1; qc 6 1];
                 [qc 7 1; qc 8 1]; [qc 9 1; qc 10 1]; [qc 11 1; qc 12 1]].
Definition ori0 : @orientation Qc := mkOrientation view0 up0 dv0.

(** in the source frame the direction is (6/5, 33/5, 2)/7 -- mostly along +y' = up x view:
    receiver 2; 700 Hz is nearer to 1000 Hz than to 100 Hz: table entry [2][1] = 6 *)
Example frame_dir_computed : frame_dir pos0 view0 up0 tgt0 = qv 6 33 10 35.
Proof. apply vec_eq; qc_eq. Qed.

Example lookup_computed :
  dir_index ori0 pos0 tgt0 = 2%nat /\ freq_index ori0 (qc 700 1) = 1%nat /\
  dirfac ori0 pos0 tgt0 (qc 700 1) = qc 6 1.
Proof. repeat split; first [vm_compute; reflexivity | qc_eq]. Qed.

Example lookup_rotated :
  dir_index (rotate_orientation M3 ori0) (mv M3 pos0) (mv M3 tgt0) = 2%nat.
Proof. vm_compute. reflexivity. Qed.

(** with the handedness flipped (view x up in place of up x view) the answer differs: the
    example is sensitive to the sign convention *)
Example lookup_handedness :
  lookup (dv_recv dv0)
         (let w := frame_dir pos0 view0 up0 tgt0 in (vx w, (- vy w)%T, vz w)) = 3%nat.
Proof. vm_compute. reflexivity. Qed.

(** a unit table exists *)
Definition dv1 : @directivity Qc :=
  mkDirectivity (dv_recv dv0) (dv_freqs dv0) (tab 6%nat (fun _ => tab 2%nat (fun _ => 1%Qc))).
Example unit_table_exists : unit_table (mkOrientation view0 up0 dv1).
Proof.
  unfold unit_table. simpl. repeat split; try discriminate.
  intros k n Hk Hn.
  do 6 (destruct k as [|k]; [do 2 (destruct n as [|n]; [reflexivity|]); lia|]). lia.
Qed.
