(** * Non-vacuity of the shoebox-surface theorems (C07_pip_correct_rect, C07_segment_logic_rect):
    the real numbers satisfy the law classes they assume (incl. [SqrtLaws]; the rationals have no
    total square root), and concrete data satisfy their hypotheses.

    Unit-square floor at z = 0, normal +z, epsilon = eta = margin = 1e-6.  The instance lives
    over Coq's classical reals, so the examples depend on the standard axioms of the [Reals]
    library (and on nothing else) -- see the [Print Assumptions] at the end. *)
From Coq Require Import Reals Lra List Bool.
Import ListNotations.
From SV Require Import Base.Ops Base.Arr Model.Vec3 Model.Visibility Spec.VisibilitySpec
  Proofs.VisibilitySym Proofs.VisibilitySegment Proofs.PipRect Proofs.PipRectSurface Instances.InstR.
Local Open Scope R_scope.

Definition e6R : R := 1 / 1000000.
Definition floorR : @rect R := mkrect AxZ true 0 0 1 0 1 false.

Lemma Rabs_gt (m a : R) : m < a \/ m < - a -> m < Rabs a.
Proof.
  intros [H|H].
  - apply (Rlt_le_trans _ a); [exact H|apply Rle_abs].
  - apply (Rlt_le_trans _ (- a)); [exact H|]. rewrite <- Rabs_Ropp. apply Rle_abs.
Qed.

Lemma Rabs_small (m a : R) : - m <= a <= m -> Rabs a <= m.
Proof. intros H. now apply Rabs_le. Qed.

Ltac r_unf :=
  cbv [e6R floorR off_bands in_rect between rect_wf rect_surface rect_pts rect_nrm axis_normal emb sgn
       side_of on_plane lerp s_p0 s_pts s_nrm nthv nth ucoord vcoord
       r_axis r_up r_c r_ua r_ub r_va r_vb r_vfirst
       vdot vsub vadd vscale mkv vx vy vz fst snd
       tzero tone tadd tmul tsub topp tabs ROps].
Ltac r_lt := apply (proj2 (tlt_R _ _)); r_unf.
Ltac r_le := apply (proj2 (tle_R _ _)); r_unf.

Lemma floorR_tolerances :
  tle 0 e6R /\ tlt e6R 1 /\ tle 0 e6R /\ tle e6R (e6R + e6R)%T /\ rect_wf floorR.
Proof.
  repeat split; try (r_le; lra); try (r_lt; lra); r_unf; lra.
Qed.

(** every point of the vertical line through (a, b) is farther than 1e-6 from the edge lines,
    for a = b = 1/2 and for a = b = 2 *)
Lemma off_bands_line (a b z : R) :
  (a = 1 / 2 \/ a = 2) -> (b = 1 / 2 \/ b = 2) -> off_bands e6R floorR (a, b, z).
Proof.
  intros Ha Hb. repeat split; r_lt; apply Rabs_gt; destruct Ha, Hb; subst; lra.
Qed.

(** C07_pip_correct_rect at an interior and at an exterior point *)
Example pip_floor_inside : pip e6R e6R (rect_surface floorR) (1 / 2, 1 / 2, 0) = true.
Proof.
  destruct floorR_tolerances as (H1 & H2 & H3 & H4 & H5).
  apply (pip_correct_rect e6R e6R e6R floorR _ H1 H2 H3 H4 H5).
  - r_le. apply Rabs_small. lra.
  - apply off_bands_line; auto.
  - split; left; split; r_lt; lra.
Qed.

Example pip_floor_outside : pip e6R e6R (rect_surface floorR) (2, 2, 0) = false.
Proof.
  destruct floorR_tolerances as (H1 & H2 & H3 & H4 & H5).
  destruct (pip e6R e6R (rect_surface floorR) (2, 2, 0)) eqn:E; [|reflexivity]. exfalso.
  apply (pip_correct_rect e6R e6R e6R floorR _ H1 H2 H3 H4 H5) in E.
  - destruct E as [[[_ H]|[_ H]] _]; apply (proj1 (tlt_R _ _)) in H; revert H; r_unf; lra.
  - r_le. apply Rabs_small. lra.
  - apply off_bands_line; auto.
Qed.

(** C07_segment_logic_rect: the vertical segment through (a, b) from z = 1 to z = -1 *)
Lemma vertical_segment_hyps (a b : R) :
  (a = 1 / 2 \/ a = 2) -> (b = 1 / 2 \/ b = 2) ->
  tlt e6R (tabs (side_of (rect_surface floorR) (a, b, 1))) /\
  tlt e6R (tabs (side_of (rect_surface floorR) (a, b, -1))) /\
  (forall t : R, on_plane (rect_surface floorR) (lerp (a, b, 1) (a, b, -1) t) ->
                 off_bands e6R floorR (lerp (a, b, 1) (a, b, -1) t)).
Proof.
  intros Ha Hb. split; [|split].
  - r_lt. apply Rabs_gt. left. lra.
  - r_lt. apply Rabs_gt. right. lra.
  - intros t _. unfold lerp, vadd, vscale, vsub, mkv, vx, vy, vz. cbn [fst snd].
    apply off_bands_line; [destruct Ha as [->| ->]|destruct Hb as [->| ->]];
      solve [left; cbv [tadd tmul tsub ROps]; lra | right; cbv [tadd tmul tsub ROps]; lra].
Qed.

Example segment_through_floor_hidden :
  basic_visibility e6R e6R (1 / 2, 1 / 2, 1) (1 / 2, 1 / 2, -1) (rect_surface floorR) = false.
Proof.
  destruct floorR_tolerances as (H1 & H2 & H3 & H4 & H5).
  destruct (vertical_segment_hyps (1 / 2) (1 / 2)) as (Hp & Hq & Hoff); auto.
  apply (proj2 (segment_logic_rect e6R e6R e6R floorR _ _ H1 H2 H3 H4 H5 Hp Hp Hq Hoff)).
  exists (1 / 2). repeat split.
  - r_lt. lra.
  - r_lt. lra.
  - r_unf. lra.
  - left. split; r_lt; lra.
  - left. split; r_lt; lra.
Qed.

Example segment_beside_floor_visible :
  basic_visibility e6R e6R (2, 2, 1) (2, 2, -1) (rect_surface floorR) = true.
Proof.
  destruct floorR_tolerances as (H1 & H2 & H3 & H4 & H5).
  destruct (vertical_segment_hyps 2 2) as (Hp & Hq & Hoff); auto.
  destruct (basic_visibility e6R e6R (2, 2, 1) (2, 2, -1) (rect_surface floorR)) eqn:E; [reflexivity|].
  exfalso.
  apply (proj1 (segment_logic_rect e6R e6R e6R floorR _ _ H1 H2 H3 H4 H5 Hp Hp Hq Hoff)) in E.
  destruct E as (t & _ & _ & _ & [[[_ H]|[_ H]] _]); apply (proj1 (tlt_R _ _)) in H; revert H; r_unf; lra.
Qed.

Print Assumptions pip_floor_inside.
Print Assumptions segment_through_floor_hidden.
Print Assumptions segment_beside_floor_visible.
