(** * The integers as an instance of the scalar operations (ring, order, floor laws).
    Used for non-vacuity examples and refutation witnesses by [vm_compute];
    the transcendental operations are dummies and no law about them is claimed. *)
From Coq Require Import ZArith List Bool Lia Ring.
From SV Require Import Base.Ops.
Local Open Scope Z_scope.

Global Instance ZOps : Ops Z := {|
  tzero := 0; tone := 1; tadd := Z.add; tmul := Z.mul; tsub := Z.sub; topp := Z.opp;
  tdiv := Z.div; tleb := Z.leb; tltb := Z.ltb; teqb := Z.eqb;
  tofnat := Z.of_nat; ttrunc := Z.to_nat; tceil := Z.to_nat;
  tsqrt := Z.sqrt; texp := fun x => x; tln := fun x => x; tacos := fun x => x; tatan := fun x => x;
  tpi := 3; tabs := Z.abs |}.

Global Instance ZRing : RingLaws Z.
Proof. constructor. exact Zth. Qed.

Lemma Zle_iff a b : @tle Z ZOps a b <-> a <= b.
Proof. unfold tle. simpl. apply Z.leb_le. Qed.
Lemma Zlt_iff a b : @tlt Z ZOps a b <-> a < b.
Proof. unfold tlt. simpl. apply Z.ltb_lt. Qed.

Global Instance ZOrder : OrderLaws Z.
Proof.
  constructor; intros *; rewrite ?Zle_iff, ?Zlt_iff; simpl; try lia; try nia;
    try (rewrite Z.ltb_antisym; reflexivity); try apply Z.eqb_eq.
Qed.

Global Instance ZFloor : FloorLaws Z.
Proof.
  constructor; intros *; rewrite ?Zle_iff, ?Zlt_iff; simpl; try lia.
Qed.
