(** * Non-vacuity for the exp and floor law classes (C10, C02): the real numbers satisfy them.
    Depends on the standard axioms of the Reals library only. *)
From Coq Require Import Reals Lra Lia List Arith Bool.
From SV Require Import Base.Ops Instances.InstR.
Local Open Scope R_scope.

Global Instance RExp : ExpLaws R.
Proof.
  constructor.
  - exact exp_0.
  - intros a b. exact (exp_plus a b).
  - intros a. apply tlt_R. apply exp_pos.
  - intros a b H. apply tle_R in H. apply tle_R. destruct H as [H|H]; [left; now apply exp_increasing|right; now rewrite H].
Qed.

(** the air-attenuation factor of a leg of length d at coefficient m, and the composition law *)
Example attenuation_composes (m d1 d2 : R) :
  texp (topp m * d1)%T * texp (topp m * d2)%T = texp (topp m * (d1 + d2))%T.
Proof. simpl. rewrite <- exp_plus. f_equal. ring. Qed.

Print Assumptions RExp.
