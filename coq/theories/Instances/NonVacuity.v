(** * Non-vacuity of the pipeline theorems (C01, C02, C03, C09, C10, C11, C12).

    Every theorem of [Properties/C01.v, C02.v, C03.v, C09.v, C10.v, C11.v, C12.v] that has at least
    one hypothesis is APPLIED here to concrete, non-trivial data (non-empty pair lists, non-zero
    energies and reflectances, at least one visible pair, a hidden patch), with every hypothesis
    discharged by computation, and the quantities of the conclusion are shown to be non-zero
    where that is the point.  Companion of [VACUITY_AUDIT.md].

    Part A: the abstract recursion (integers, [Instances/InstZ.v]).
    Part B: integer scene [scZ] of [Instances/PipelineExamples.v].
    Part C: rational scenes (ordered field with honest floor / ceiling, [Instances/RoomQc.v]):
            the repaired diffuse-scene theorems [C01_model_balance_bounded],
            [C03_diffuse_sampling_independent_bounded], and the composed room [rmQ].
    The theorems that need the exp or sqrt LAWS are instantiated over the reals in
    [Instances/NonVacuityR.v]. *)
From Coq Require Import List Arith Bool ZArith QArith Qcanon Lia.
Import ListNotations.
From SV Require Import Base.Ops Base.Arr Base.Sums Model.Vec3 Model.Exchange Model.Scene Model.Frame
  Model.Tiling Model.Visibility Model.PtSolution Model.Full
  Spec.ExchangeSpec Proofs.ExchangeL0 Proofs.ExchangeRefine Proofs.SceneRefine Proofs.HistProofs
  Proofs.ReceiverProofs Proofs.BandAttenProofs Proofs.SolverProofs
  Proofs.Reciprocity Proofs.ReciprocityModel Proofs.ReciprocityVis Proofs.BalanceModel
  Proofs.DiffuseBounded Proofs.FullProofs Proofs.FullReceiver Proofs.FullReciprocity
  Instances.InstZ Instances.PipelineExamples Instances.RoomQc
  Properties.C01 Properties.C02 Properties.C03 Properties.C09 Properties.C10 Properties.C11 Properties.C12.
Local Open Scope nat_scope.

(** ** bounded quantifiers by computation *)
Lemma forallb_seq (n : nat) (f : nat -> bool) :
  forallb f (seq 0 n) = true -> forall i, i < n -> f i = true.
Proof.
  intros H i Hi. rewrite forallb_forall in H. apply H. apply in_seq. lia.
Qed.

Section Checkers.
  Context {T : Type} {O : Ops T}.
  Hypothesis teqb_sound : forall x y : T, teqb x y = true -> x = y.

  (** a function vanishes on the last [g] of [N] bins *)
  Definition tail_zero_check (N g : nat) (h : nat -> T) : bool :=
    forallb (fun u => if N - g <=? u then teqb (h u) 0%T else true) (seq 0 N).
  Lemma tail_zero_check_ok N g h : tail_zero_check N g h = true ->
    forall u, N - g <= u -> u < N -> h u = 0%T.
  Proof.
    intros H u H1 H2. pose proof (forallb_seq N _ H u H2) as Hu. cbv beta in Hu.
    destruct (Nat.leb_spec (N - g) u); [now apply teqb_sound|lia].
  Qed.

  (** [wf_scene] *)
  Definition wf_check (sc : @scene T) : bool :=
    forallb (fun i => forallb (fun j => implb (get2b (s_visU sc) i j) (i <? j))
                              (seq 0 (length (nthl (s_visU sc) i)))) (seq 0 (length (s_visU sc))) &&
    forallb (fun i => length (out_dirs sc (wall sc i)) =? s_nd sc) (seq 0 (s_np sc)) &&
    (0 <? s_nd sc).
  Lemma wf_check_ok sc : wf_check sc = true -> wf_scene sc.
  Proof.
    unfold wf_check. rewrite !andb_true_iff. intros [[H1 H2] H3]. repeat split.
    - intros i j Hv.
      destruct (Nat.lt_ge_cases i (length (s_visU sc))) as [Hi|Hi].
      + destruct (Nat.lt_ge_cases j (length (nthl (s_visU sc) i))) as [Hj|Hj].
        * pose proof (forallb_seq _ _ (forallb_seq _ _ H1 i Hi) j Hj) as H. cbv beta in H.
          rewrite Hv in H. now apply Nat.ltb_lt.
        * unfold get2b, nthb in Hv. rewrite nth_overflow in Hv by exact Hj. discriminate Hv.
      + unfold get2b, nthb, nthl in Hv. rewrite (nth_overflow (s_visU sc)) in Hv by exact Hi.
        destruct j; discriminate Hv.
    - intros i Hi. apply Nat.eqb_eq. exact (forallb_seq _ _ H2 i Hi).
    - now apply Nat.ltb_lt.
  Qed.

  (** [tables_ok]: every lookup of the model lands inside the tables *)
  Definition tables_ok_check (sc : @scene T) : bool :=
    forallb (fun j => (wall sc j <? length (s_tidx sc)) &&
                      negb (length (in_dirs sc (wall sc j)) =? 0) &&
                      (length (in_dirs sc (wall sc j)) <=? table_rows sc (wall sc j))) (seq 0 (s_np sc)).
  Lemma tables_ok_check_ok sc : tables_ok_check sc = true -> tables_ok sc.
  Proof.
    intros H j Hj. pose proof (forallb_seq _ _ H j Hj) as Hc. cbv beta in Hc.
    rewrite !andb_true_iff in Hc. destruct Hc as [[H1 H2] H3].
    split; [now apply Nat.ltb_lt|]. split; [|now apply Nat.leb_le].
    intros E. rewrite E in H2. discriminate H2.
  Qed.

  (** in-range diffuse hypothesis, one band / all bands *)
  Definition diffuse_band_check (sc : @scene T) (b : nat) (rho : nat -> T) : bool :=
    forallb (fun w => forallb (fun a => forallb (fun d => teqb (beta sc w a d b) (rho w))
      (seq 0 (s_nd sc))) (seq 0 (table_rows sc w))) (seq 0 (length (s_tidx sc))).
  Lemma diffuse_band_check_ok sc b rho : diffuse_band_check sc b rho = true -> diffuse_in_range_band sc b rho.
  Proof.
    intros H w a d Hw Ha Hd. apply teqb_sound.
    exact (forallb_seq _ _ (forallb_seq _ _ (forallb_seq _ _ H w Hw) a Ha) d Hd).
  Qed.
  Definition diffuse_check (sc : @scene T) (rho : nat -> nat -> T) : bool :=
    forallb (fun b => diffuse_band_check sc b (fun w => rho w b)) (seq 0 (s_nb sc)).
  Lemma diffuse_check_ok sc rho : diffuse_check sc rho = true -> diffuse_in_range sc rho.
  Proof.
    intros H w a d b Hw Ha Hd Hb.
    exact (diffuse_band_check_ok sc b (fun w => rho w b) (forallb_seq _ _ H b Hb) w a d Hw Ha Hd).
  Qed.

  (** the window hypothesis of the balance theorems *)
  Definition fit_check (sc : @scene T) (tm : @timing T) (p : @point_data T) (N k b : nat) : bool :=
    forallb (fun m => forallb (fun j =>
      (scene_delta sc tm m j <=? N) &&
      tail_zero_check N (scene_delta sc tm m j)
        (E (directed (vis_pairs sc)) (scene_delta sc tm) (tilde_entry sc) (out_index sc)
           (scene_delta0 sc tm (as_source p)) (e0dir_entry sc (as_source p)) k m 0 b))
      (seq 0 (s_np sc))) (seq 0 (s_np sc)).
  Lemma fit_check_ok sc tm p N k b : fit_check sc tm p N k b = true ->
    forall m j, m < s_np sc -> j < s_np sc -> scene_delta sc tm m j <= N /\
      forall t, N - scene_delta sc tm m j <= t -> t < N ->
        E (directed (vis_pairs sc)) (scene_delta sc tm) (tilde_entry sc) (out_index sc)
          (scene_delta0 sc tm (as_source p)) (e0dir_entry sc (as_source p)) k m 0 b t = 0%T.
  Proof.
    intros H m j Hm Hj. pose proof (forallb_seq _ _ (forallb_seq _ _ H m Hm) j Hj) as Hc.
    cbv beta in Hc. apply andb_true_iff in Hc. destruct Hc as [H1 H2].
    split; [now apply Nat.leb_le|]. now apply tail_zero_check_ok.
  Qed.
End Checkers.


(** entries of the model's histograms beyond the slot range / the window are 0 (used to meet
    hypotheses that quantify over ALL slots and bins) *)
Section SlotOut.
  Context {T : Type} {O : Ops T}.
  Lemma get4_tab_out_d np nd nb N (f : nat -> nat -> nat -> nat -> T) j d b t : nd <= d ->
    get4 (tab np (fun j => tab nd (fun d => tab nb (fun b => tab N (fun t => f j d b t))))) j d b t = 0%T.
  Proof.
    intros Hd. unfold get4, nthT, nthl.
    destruct (Nat.lt_ge_cases j np) as [Hj|Hj].
    - rewrite (nth_tab _ _ [] j Hj). rewrite (nth_tab_out _ _ [] d Hd). now destruct b, t.
    - rewrite (nth_tab_out _ _ [] j Hj). now destruct d, b, t.
  Qed.
  Lemma run_slot_out dpairs np nd nb N fft p2o delay j d b t K : nd <= d -> forall cur tot,
    get4 tot j d b t = 0%T -> get4 (run K dpairs np nd nb N fft p2o delay cur tot) j d b t = 0%T.
  Proof.
    intros Hd. induction K as [|K IH]; intros cur tot H; cbn [run]; [exact H|].
    apply IH. unfold add4. now apply get4_tab_out_d.
  Qed.
  Lemma patch_hist_slot_out (sc : @scene T) tm s K j d b t : s_nd sc <= d ->
    get4 (patch_hist sc tm s K) j d b t = 0%T.
  Proof.
    intros Hd. unfold patch_hist, exchange. apply run_slot_out; [exact Hd|].
    unfold init_hist. now apply get4_tab_out_d.
  Qed.
  Lemma patch_hist_window (sc : @scene T) tm s K j d b t : n_samples tm <= t ->
    get4 (patch_hist sc tm s K) j d b t = 0%T.
  Proof. intros Ht. unfold patch_hist. now apply C02_patch_stage_window. Qed.
End SlotOut.

(** ====================================================================================== *)
(** ** Part A: the abstract recursion over the integers *)
Open Scope Z_scope.

Lemma z_teqb_sound (x y : Z) : teqb x y = true -> x = y.
Proof. simpl. apply Z.eqb_eq. Qed.

(** the instance [Pz, dz, cz, oz, d0z, e0z] of PipelineExamples: two patches that see each
    other, leg of 2 bins, transfer factor 3, source bin 1, initial energy 5 *)

(** C01_balance: hypotheses hold for the window of 6 bins; both sides are 30 *)
Example C01_balance_witness :
  sumf [0; 1]%nat (fun j => hsum 6 (E Pz dz cz oz d0z e0z 1 j 0 0)) =
  sumf Pz (fun p => cz (fst p) (snd p) 0 0 * hsum 6 (E Pz dz cz oz d0z e0z 0 (fst p) (oz (fst p) (snd p)) 0)) /\
  sumf [0; 1]%nat (fun j => hsum 6 (E Pz dz cz oz d0z e0z 1 j 0 0)) = 30.
Proof.
  destruct balance_hypotheses_hold as (H1 & H2 & H3).
  split; [exact (C01_balance Pz dz cz oz d0z e0z [0; 1]%nat 6 0 0 0 H1 H2 H3)|vm_compute; reflexivity].
Qed.

Lemma cz_nonneg : forall i j d b : nat, (0 <= cz i j d b)%T.
Proof. intros. reflexivity. Qed.
Lemma e0z_nonneg : forall j d b : nat, (0 <= e0z j d b)%T.
Proof. intros. reflexivity. Qed.

(** C01_bound with row-sum bound r = 3 (each patch radiates to one other patch with factor 3):
    order 1 carries 30 <= 3 * 10 *)
Example C01_bound_witness :
  (sumf [0; 1]%nat (fun j => hsum 6 (E Pz dz cz oz d0z e0z 1 j 0 0))
   <= 3 * sumf [0; 1]%nat (fun i => hsum 6 (E Pz dz cz oz d0z e0z 0 i 0 0)))%T /\
  sumf [0; 1]%nat (fun i => hsum 6 (E Pz dz cz oz d0z e0z 0 i 0 0)) = 10.
Proof.
  split; [|vm_compute; reflexivity].
  apply (C01_bound Pz dz cz oz d0z e0z [0; 1]%nat 6 0 0 0 3 cz_nonneg e0z_nonneg).
  - repeat constructor; simpl; intuition lia.
  - intros p [<-|[<-|[]]]; simpl; auto.
  - reflexivity.
  - reflexivity.
  - intros i [<-|[<-|[]]]; vm_compute; reflexivity.
Qed.

(** C01_absorbing: patch 1 absorbs everything (its transfer factors and initial energy vanish),
    patch 0 does not; patch 1 stays at exactly 0 while patch 0 carries energy *)
Definition cabs (i j d b : nat) : Z := if (j =? 1)%nat then 0 else 3.
Definition e0abs (j d b : nat) : Z := if (j =? 1)%nat then 0 else 5.
Example C01_absorbing_witness :
  (forall k t, E Pz dz cabs oz d0z e0abs k 1 0 0 t = 0) /\ E Pz dz cabs oz d0z e0abs 0 0 0 0 1 = 5.
Proof.
  split; [|reflexivity].
  exact (C01_absorbing Pz dz cabs oz d0z e0abs 1 0 0 eq_refl (fun i => eq_refl)).
Qed.

(** C01_truncate: 3 bins against 6 bins, order 2 *)
Example C01_truncate_witness :
  (hsum 3 (Tot Pz dz cz oz d0z e0z 2 0 0 0) <= hsum 6 (Tot Pz dz cz oz d0z e0z 2 0 0 0))%T /\
  hsum 3 (Tot Pz dz cz oz d0z e0z 2 0 0 0) = 5 /\ hsum 6 (Tot Pz dz cz oz d0z e0z 2 0 0 0) = 65.
Proof.
  split; [apply (C01_truncate Pz dz cz oz d0z e0z 6 3 2 0 0 0 cz_nonneg e0z_nonneg); lia|].
  split; vm_compute; reflexivity.
Qed.

(** C02_bins_are_leg_sums / C02_nothing_before_first_path: the one order-1 contribution to
    patch 1 lands in bin 3 = 1 (source leg) + 2 (patch leg) with weight 15 *)
Example C02_contrib_data : contrib Pz dz cz oz d0z e0z 1 1 0 0 = [(3%nat, 15)].
Proof. reflexivity. Qed.
Example C02_bins_are_leg_sums_witness :
  exists i l' w', In (i, 1%nat) Pz /\ In (l', w') (contrib Pz dz cz oz d0z e0z 0 i (oz i 1%nat) 0)
                  /\ 3%nat = (l' + dz i 1)%nat.
Proof. apply (C02_bins_are_leg_sums Pz dz cz oz d0z e0z 0 1 0 0 3 15). left. reflexivity. Qed.
Example C02_order0_bin_witness : E Pz dz cz oz d0z e0z 0 1 0 0 0 = 0 /\ E Pz dz cz oz d0z e0z 0 1 0 0 1 = 5.
Proof. split; [exact (C02_order0_bin Pz dz cz oz d0z e0z 1 0 0 0 ltac:(discriminate))|reflexivity]. Qed.
Example C02_nothing_before_first_path_witness :
  E Pz dz cz oz d0z e0z 1 1 0 0 2 = 0 /\ E Pz dz cz oz d0z e0z 1 1 0 0 3 = 15.
Proof.
  split; [|reflexivity]. refine (C02_nothing_before_first_path Pz dz cz oz d0z e0z 1 1 0 0 2 _).
  intros l w [H|[]]. injection H as H _. unfold dz in H. lia.
Qed.

(** C02_not_before_direct / _chain: D = 5 <= 2 + 3; legs 2, 3 and a receiver leg of 1 *)
Example C02_not_before_direct_witness : (ttrunc 5%Z <= ttrunc 2%Z + tceil 3%Z)%nat.
Proof. apply (C02_not_before_direct 5 2 3); reflexivity. Qed.
Example C02_not_before_direct_chain_witness :
  (ttrunc 5%Z + 1 <= sum_trunc [2%Z; 3%Z] + length [2%Z; 3%Z] + tceil 1%Z)%nat.
Proof.
  apply (C02_not_before_direct_chain 5 [2; 3] 1); try reflexivity; try discriminate.
  intros x [<-|[<-|[]]]; reflexivity.
Qed.

(** C03_order_step / C03_nonneg *)
Example C03_order_step_witness :
  Tot Pz dz cz oz d0z e0z 2 0 0 0 5 =
  (Tot Pz dz cz oz d0z e0z 1 0 0 0 5 + E Pz dz cz oz d0z e0z 2 0 0 0 5)%T /\
  (0 <= E Pz dz cz oz d0z e0z 2 0 0 0 5)%T /\ E Pz dz cz oz d0z e0z 2 0 0 0 5 = 45.
Proof.
  destruct (C03_order_step Pz dz cz oz d0z e0z 1 0 0 0 5 cz_nonneg e0z_nonneg) as [H1 H2].
  split; [exact H1|]. split; [exact H2|reflexivity].
Qed.
Example C03_nonneg_witness : (0 <= Tot Pz dz cz oz d0z e0z 2 0 0 0 5)%T /\ Tot Pz dz cz oz d0z e0z 2 0 0 0 5 = 45.
Proof. split; [exact (C03_nonneg Pz dz cz oz d0z e0z 2 0 0 0 5 cz_nonneg e0z_nonneg)|reflexivity]. Qed.

(** C10_results_monotone: factor 3 against factor 4, energy 5 against 6 *)
Example C10_results_monotone_witness :
  (E Pz dz cz oz d0z e0z 2 0 0 0 5 <= E Pz dz (fun _ _ _ _ => 4) oz d0z (fun _ _ _ => 6) 2 0 0 0 5)%T /\
  E Pz dz (fun _ _ _ _ => 4) oz d0z (fun _ _ _ => 6) 2 0 0 0 5 = 96.
Proof.
  split; [|reflexivity].
  apply (C10_results_monotone Pz dz oz d0z cz (fun _ _ _ _ => 4) e0z (fun _ _ _ => 6) cz_nonneg e0z_nonneg);
    intros; reflexivity.
Qed.

(** C12_recursion: band 1 of a two-band family against band 0 of the family holding only it *)
Definition c2b (i j d b : nat) : Z := 2 + Z.of_nat b.
Definition e2b (j d b : nat) : Z := 4 + Z.of_nat b.
Example C12_recursion_witness :
  (forall k j d t, E Pz dz c2b oz d0z e2b k j d 1 t = E Pz dz cz oz d0z e0z k j d 0 t) /\
  E Pz dz c2b oz d0z e2b 2 0 0 1 5 = 45 /\ E Pz dz c2b oz d0z e2b 2 0 0 0 5 = 16.
Proof.
  split; [|split; reflexivity].
  apply (C12_recursion Pz dz oz d0z c2b cz e2b e0z 1 0); intros; reflexivity.
Qed.

(** C09_kernel_symmetric / C09_reciprocal on the three-patch family of PipelineExamples
    (non-uniform reflectances 1, 2, 3; non-symmetric source / receiver families) *)
Example C09_kernel_symmetric_witness :
  (Gam [0; 1; 2]%nat Gz rhoz delz 2 0 2%nat 6%nat * onez 2)%T = (Gam [0; 1; 2]%nat Gz rhoz delz 2 2 0%nat 6%nat * onez 0)%T /\
  Gam [0; 1; 2]%nat Gz rhoz delz 2 0 2%nat 6%nat <> 0.
Proof.
  destruct recip_hypotheses as (H1 & H2 & H3 & H4).
  split; [|vm_compute; discriminate].
  apply (C09_kernel_symmetric (T:=Z) (O:=ZOps) [0; 1; 2]%nat Gz rhoz onez onez delz 2 0 2%nat 6%nat H1 H2 H3 H4); simpl; auto.
Qed.
Example C09_reciprocal_witness :
  response_upto [0; 1; 2]%nat Gz rhoz onez delz
    (fun i => Z.of_nat (i + 1)) (fun i => i) (fun i => 7 - Z.of_nat i) (fun i => S (2 * i)) 3 9 =
  response_upto [0; 1; 2]%nat Gz rhoz onez delz
    (fun i => 7 - Z.of_nat i) (fun i => (2 * i)%nat) (fun i => Z.of_nat (i + 1)) (fun i => S i) 3 9 /\
  response_upto [0; 1; 2]%nat Gz rhoz onez delz
    (fun i => Z.of_nat (i + 1)) (fun i => i) (fun i => 7 - Z.of_nat i) (fun i => S (2 * i)) 3 9 <> 0.
Proof.
  destruct recip_hypotheses as (H1 & H2 & H3 & H4).
  split; [|vm_compute; discriminate].
  apply (C09_reciprocal (T:=Z) (O:=ZOps) [0; 1; 2]%nat Gz rhoz onez onez delz
           (fun i => Z.of_nat (i + 1)) (fun i => i) (fun i => S i)
           (fun i => 7 - Z.of_nat i) (fun i => (2 * i)%nat) (fun i => S (2 * i)) 3 9 H1 H2 H3 H4);
    intros; reflexivity.
Qed.

Close Scope Z_scope.

(** ====================================================================================== *)
(** ** Part B: a rational scene (three patches, two walls, two bands, all pairs visible).

    The integer scene [scZ] of PipelineExamples is NOT used here: with the integer instance
    [texp x = x], so its attenuation exp(-0 d) is 0 and every transfer factor of [scZ] vanishes
    (its examples meet the hypotheses with all-zero histograms).  Over [QfOps] exp(0) = 1. *)
Open Scope Qc_scope.

Definition scG (nd nb : nat) (att : list Qc) (tables : list (list (list (list Qc))))
    (ins outs : list (list (@vec Qc))) : @scene Qc := {|
  s_np := 3; s_nd := nd; s_nb := nb;
  s_centers := [v 0 0 0; v 4 0 0; v 0 3 0];
  s_areas := [1; q 2 1; 1];
  s_wall := [0; 1; 1]%nat;
  s_visU := [[false; true; true]; [false; false; true]; [false; false; false]];
  s_F := [[0; q 1 10; q 1 5]; [0; 0; q 1 4]; [0; 0; 0]];
  s_att := att;
  s_tables := tables;
  s_tidx := [0; 1]%nat;
  s_in := ins; s_out := outs |}.

(** wall 0 reflects 1/2 (band 0) and 1/4 (band 1); wall 1 absorbs band 0 completely and reflects
    1/3 in band 1; air attenuation in band 1 *)
Definition scQ : @scene Qc :=
  scG 1 2 [0; q 1 100] [[[[q 1 2; q 1 4]]]; [[[0; q 1 3]]]] [[v 0 0 1]; [v 0 0 1]] [[v 0 0 1]; [v 0 0 1]].
Definition tmS : @timing Qc := mkTiming 1 1 (q 16 1).
Definition srcQ : @source Qc := mkSource (v 0 0 5) [true; true; false] [q 1 10; q 1 20; q 1 30] None.
Definition rcvQ : @receiver Qc := mkReceiver (v 0 0 2) [true; false; true] [q 1 7; q 1 8; q 1 9].

Lemma n16 : n_samples tmS = 16%nat.
Proof. vm_compute. reflexivity. Qed.
Example scQ_wf : wf_scene scQ.
Proof. apply wf_check_ok. vm_compute. reflexivity. Qed.
Example scQ_data :
  n_samples tmS = 16%nat /\ vis_sym scQ 0 1 = true /\
  delay_matrix scQ tmS = [[0; 4; 3]; [4; 0; 5]; [3; 5; 0]]%nat /\ delay0 scQ tmS srcQ = [5; 6; 0]%nat /\
  map (r_delay scQ tmS rcvQ) [0; 1; 2]%nat = [2; 5; 4]%nat.
Proof. repeat split; vm_compute; reflexivity. Qed.

(** bins of band 1 in which a list of rationals is not zero *)
Definition support (l : list Qc) : list nat :=
  filter (fun t => negb (teqb (nthT l t) 0%T)) (seq 0 (length l)).

(** C01_receiving_wall / C10_patch_leg: the factor of the leg 0 -> 1 carries the table of the wall
    of patch 1, and is not zero *)
Example C01_receiving_wall_witness :
  get4 (tilde scQ) 0 1 0 1 =
  ((ff_full scQ 0 1 * attn scQ 1 (dist scQ 0 1)) * beta scQ (wall scQ 1) (in_index scQ 0 1) 0 1)%T /\
  get4 (tilde scQ) 0 1 0 1 <> 0%T.
Proof.
  split; [apply C01_receiving_wall; simpl; try lia; vm_compute; reflexivity|qc_neq0].
Qed.
Example C10_patch_leg_witness :
  tilde_entry scQ 0 1 0 1 =
  ((ff_full scQ 0 1 * texp (- att scQ 1 * vdist (center scQ 0) (center scQ 1))) *
   beta scQ (wall scQ 1) (in_index scQ 0 1) 0 1)%T /\ tilde_entry scQ 0 1 0 1 <> 0%T.
Proof. split; [apply C10_patch_leg; vm_compute; reflexivity|qc_neq0]. Qed.
Example C10_source_leg_witness :
  energy0 scQ srcQ 1 1 = (texp (- att scQ 1 * vdist (src_pos srcQ) (center scQ 1)) * nthT (src_share srcQ) 1)%T /\
  energy0 scQ srcQ 1 1 <> 0%T.
Proof. split; [apply C10_source_leg; reflexivity|qc_neq0]. Qed.

(** C01_model_is_recursion / C02_patch_stage_no_wrap / C03_refines: wf_scene and index bounds *)
Example C01_model_is_recursion_witness : forall j d b t, (j < 3)%nat -> (d < 1)%nat -> (b < 2)%nat -> (t < 16)%nat ->
  get4 (patch_hist scQ tmS srcQ 2) j d b t =
  Tot (directed (vis_pairs scQ)) (scene_delta scQ tmS) (tilde_entry scQ) (out_index scQ)
      (scene_delta0 scQ tmS srcQ) (e0dir_entry scQ srcQ) 2 j d b t.
Proof. intros j d b t Hj Hd Hb Ht. exact (C01_model_is_recursion scQ tmS srcQ 2 j d b t scQ_wf Hj Hd Hb Ht). Qed.
Example C02_patch_stage_no_wrap_witness : forall j d b t, (j < 3)%nat -> (d < 1)%nat -> (b < 2)%nat -> (t < 16)%nat ->
  get4 (patch_hist scQ tmS srcQ 2) j d b t =
  Tot (directed (vis_pairs scQ)) (scene_delta scQ tmS) (tilde_entry scQ) (out_index scQ)
      (scene_delta0 scQ tmS srcQ) (e0dir_entry scQ srcQ) 2 j d b t.
Proof. intros j d b t Hj Hd Hb Ht. exact (C02_patch_stage_no_wrap scQ tmS srcQ 2 j d b t scQ_wf Hj Hd Hb Ht). Qed.
Example C03_refines_witness : forall j d b t, (j < 3)%nat -> (d < 1)%nat -> (b < 2)%nat -> (t < 16)%nat ->
  get4 (patch_hist scQ tmS srcQ 2) j d b t =
  Tot (directed (vis_pairs scQ)) (scene_delta scQ tmS) (tilde_entry scQ) (out_index scQ)
      (scene_delta0 scQ tmS srcQ) (e0dir_entry scQ srcQ) 2 j d b t.
Proof. intros j d b t Hj Hd Hb Ht. exact (C03_refines scQ tmS srcQ 2 j d b t scQ_wf Hj Hd Hb Ht). Qed.
(** the histograms are not empty: band 1 of the three patches, orders 0..2 *)
Example scQ_hist_support :
  map (fun j => support (nthl (nthl (nthl (patch_hist scQ tmS srcQ 2) j) 0) 1)) [0; 1; 2]%nat =
  [[5; 10; 11; 13; 14]; [6; 9; 13; 14]; [8; 11; 13; 14]]%nat.
Proof. vm_compute. reflexivity. Qed.

(** C01_absorbing_model: wall 1 absorbs band 0 completely, band 1 not at all *)
Example scQ_absorbing : forall a, beta scQ (wall scQ 1) a 0 0 = 0%T.
Proof.
  intros a. unfold beta, wall. cbn [nthn nth s_wall s_tidx s_tables scQ scG nthl nthT].
  destruct a as [|[|a]]; reflexivity.
Qed.
Example C01_absorbing_model_witness :
  (e0dir_entry scQ srcQ 1 0 0 = 0%T /\ forall i, tilde_entry scQ i 1 0 0 = 0) /\
  tilde_entry scQ 0 1 0 1 <> 0%T /\ e0dir_entry scQ srcQ 1 0 1 <> 0%T /\ tilde_entry scQ 1 0 0 0 <> 0%T.
Proof.
  split; [exact (C01_absorbing_model scQ srcQ 1 0 0 scQ_absorbing)|].
  split; [qc_neq0|]. split; qc_neq0.
Qed.

(** C02_patch_stage_window: nothing at or beyond bin N = 16 *)
Example C02_patch_stage_window_witness : get4 (patch_hist scQ tmS srcQ 2) 2 0 1 16 = 0%T.
Proof. unfold patch_hist. apply C02_patch_stage_window. rewrite n16. apply Nat.le_refl. Qed.

(** C02_receiver_stage_partial / C11_patch_term_partial: patch 2 is 4 bins from the receiver,
    its order <= 1 histogram in band 1 (energy in bins 8 and 11) vanishes in the last four bins *)
Example receiver_fit_hypotheses :
  r_delay scQ tmS rcvQ 2 = 4%nat /\
  (forall u, (n_samples tmS - r_delay scQ tmS rcvQ 2 <= u)%nat -> (u < n_samples tmS)%nat ->
     get4 (patch_hist scQ tmS srcQ 1) 2 (r_out_index scQ rcvQ 2) 1 u = 0%T).
Proof.
  split; [vm_compute; reflexivity|].
  apply (tail_zero_check_ok qf_teqb_sound 16 4
           (fun u => get4 (patch_hist scQ tmS srcQ 1) 2 (r_out_index scQ rcvQ 2) 1 u)).
  vm_compute. reflexivity.
Qed.
Example C02_receiver_stage_partial_witness : forall t, (t < 16)%nat ->
  get3 (patchwise scQ tmS (patch_hist scQ tmS srcQ 1) rcvQ) 2 1 t =
  if (t <? r_delay scQ tmS rcvQ 2)%nat then 0%T
  else r_term scQ (patch_hist scQ tmS srcQ 1) rcvQ 2 1 (t - r_delay scQ tmS rcvQ 2).
Proof.
  intros t Ht. destruct receiver_fit_hypotheses as [Hd Hz].
  apply C02_receiver_stage_partial;
    [simpl; lia|simpl; lia|rewrite n16; exact Ht|rewrite Hd, n16; lia|exact Hz].
Qed.
Example C11_patch_term_partial_witness : forall t, (t < 16)%nat ->
  get3 (patchwise scQ tmS (patch_hist scQ tmS srcQ 1) rcvQ) 2 1 t =
  if (t <? r_delay scQ tmS rcvQ 2)%nat then 0%T
  else ((get4 (patch_hist scQ tmS srcQ 1) 2 (r_out_index scQ rcvQ 2) 1 (t - r_delay scQ tmS rcvQ 2) *
         r_factor rcvQ 2) * attn scQ 1 (r_dist scQ rcvQ 2))%T.
Proof.
  intros t Ht. destruct receiver_fit_hypotheses as [Hd Hz].
  apply C11_patch_term_partial;
    [simpl; lia|simpl; lia|rewrite n16; exact Ht|rewrite Hd, n16; lia|exact Hz].
Qed.
Example receiver_curve_support :
  support (nthl (nthl (patchwise scQ tmS (patch_hist scQ tmS srcQ 1) rcvQ) 2) 1) = [12; 15]%nat.
Proof. vm_compute. reflexivity. Qed.

(** C11_wrap_refuted: bins before the delay show the END of the histogram (order <= 2: patch 2
    carries energy in bin 13, which re-appears in bin 13 + 4 - 16 = 1) *)
Example C11_wrap_refuted_witness :
  get3 (patchwise scQ tmS (patch_hist scQ tmS srcQ 2) rcvQ) 2 1 1 =
  r_term scQ (patch_hist scQ tmS srcQ 2) rcvQ 2 1 (1 + n_samples tmS - r_delay scQ tmS rcvQ 2) /\
  get3 (patchwise scQ tmS (patch_hist scQ tmS srcQ 2) rcvQ) 2 1 1 <> 0%T.
Proof.
  split; [|qc_neq0]. destruct receiver_fit_hypotheses as [Hd _].
  apply C11_wrap_refuted; [simpl; lia|simpl; lia|rewrite Hd, n16; lia|rewrite Hd; lia].
Qed.

(** C11_hidden: patch 1 is hidden from the receiver (and does carry energy) *)
Example C11_hidden_witness : forall b t, get3 (patchwise scQ tmS (patch_hist scQ tmS srcQ 2) rcvQ) 1 b t = 0%T.
Proof. intros b t. apply C11_hidden. reflexivity. Qed.

(** C11_mono_sum / C11_direct *)
Example C11_mono_sum_witness : forall b t, (b < 2)%nat -> (t < 16)%nat ->
  get2 (mono_of scQ tmS (patchwise scQ tmS (patch_hist scQ tmS srcQ 2) rcvQ)) b t =
  sumf (seq 0 3) (fun k => get3 (patchwise scQ tmS (patch_hist scQ tmS srcQ 2) rcvQ) k b t).
Proof. intros b t Hb Ht. apply C11_mono_sum; [exact Hb|rewrite n16; exact Ht]. Qed.
Example C11_direct_witness : forall b t, (b < 2)%nat -> (t < 16)%nat ->
  get2 (mono scQ tmS (patch_hist scQ tmS srcQ 2) srcQ rcvQ true None) b t =
  (get2 (mono scQ tmS (patch_hist scQ tmS srcQ 2) srcQ rcvQ false None) b t +
   (if (t =? delay_floor (vnorm (vsub (r_pos rcvQ) (src_pos srcQ))) (t_c tmS) (t_dt tmS))%nat
    then direct_val scQ srcQ rcvQ None b else 0))%T.
Proof. intros b t Hb Ht. apply C11_direct; [exact Hb|rewrite n16; exact Ht]. Qed.
Example mono_curve_support :
  support (nthl (mono scQ tmS (patch_hist scQ tmS srcQ 2) srcQ rcvQ true None) 1) = [0; 1; 2; 3; 7; 12; 13; 15]%nat.
Proof. vm_compute. reflexivity. Qed.

(** C12: band 1 of [scQ] against band 0 of the single-band scene holding only that band *)
Definition scQ1 : @scene Qc :=
  scG 1 1 [q 1 100] [[[[q 1 4]]]; [[[q 1 3]]]] [[v 0 0 1]; [v 0 0 1]] [[v 0 0 1]; [v 0 0 1]].
Example scQ1_geometry : same_geometry scQ scQ1.
Proof. repeat split. Qed.
Example scQ1_band : band_match scQ 1 scQ1 0.
Proof.
  split; [reflexivity|]. intros w a d. unfold beta, nthn, nthl, nthT.
  cbn [s_tidx s_tables scQ scQ1 scG].
  destruct w as [|[|[|w]]]; destruct a as [|[|a]]; destruct d as [|[|d]]; reflexivity.
Qed.
Example scQ1_wf : wf_scene scQ1.
Proof. apply wf_check_ok. vm_compute. reflexivity. Qed.
Example srcQ_match : source_match srcQ 1 srcQ 0.
Proof. repeat split. Qed.

Example C12_baked_witness : forall i j d, tilde_entry scQ i j d 1 = tilde_entry scQ1 i j d 0.
Proof. intros i j d. exact (C12_baked scQ scQ1 1 0 i j d scQ1_geometry scQ1_band). Qed.
Example C12_initial_witness : forall i d, e0dir_entry scQ srcQ i d 1 = e0dir_entry scQ1 srcQ i d 0.
Proof. intros i d. exact (C12_initial scQ scQ1 1 0 srcQ srcQ i d scQ1_geometry scQ1_band srcQ_match). Qed.
Example C12_histograms_witness : forall j t, (j < 3)%nat -> (t < 16)%nat ->
  get4 (patch_hist scQ tmS srcQ 2) j 0 1 t = get4 (patch_hist scQ1 tmS srcQ 2) j 0 0 t.
Proof.
  intros j t Hj Ht.
  apply (C12_histograms scQ scQ1 1 0 tmS srcQ srcQ 2 j 0 t scQ1_geometry scQ1_band scQ_wf scQ1_wf srcQ_match);
    try (rewrite n16); simpl; lia.
Qed.
Lemma scQ_scQ1_hist k d u : (k < 3)%nat ->
  get4 (patch_hist scQ tmS srcQ 2) k d 1 u = get4 (patch_hist scQ1 tmS srcQ 2) k d 0 u.
Proof.
  intros Hk.
  destruct (Nat.lt_ge_cases u 16) as [Hu|Hu];
    [|rewrite <- n16 in Hu; now rewrite !patch_hist_window by exact Hu].
  destruct (Nat.lt_ge_cases d 1) as [Hd|Hd]; [|now rewrite !patch_hist_slot_out by exact Hd].
  apply (C12_histograms scQ scQ1 1 0 tmS srcQ srcQ 2 k d u scQ1_geometry scQ1_band scQ_wf scQ1_wf srcQ_match);
    try (rewrite n16); simpl; lia.
Qed.
Example C12_receiver_witness : forall t, (t < 16)%nat ->
  get3 (patchwise scQ tmS (patch_hist scQ tmS srcQ 2) rcvQ) 2 1 t =
  get3 (patchwise scQ1 tmS (patch_hist scQ1 tmS srcQ 2) rcvQ) 2 0 t.
Proof.
  intros t Ht.
  apply (C12_receiver scQ scQ1 1 0 tmS _ _ rcvQ 2 t scQ1_geometry scQ1_band);
    try (rewrite n16); try (simpl; lia).
  intros d u. apply scQ_scQ1_hist. lia.
Qed.
Example C12_receiver_curve_witness : forall t, (t < 16)%nat ->
  get2 (mono scQ tmS (patch_hist scQ tmS srcQ 2) srcQ rcvQ true None) 1 t =
  get2 (mono scQ1 tmS (patch_hist scQ1 tmS srcQ 2) srcQ rcvQ true None) 0 t.
Proof.
  intros t Ht.
  apply (C12_receiver_curve scQ scQ1 1 0 tmS _ _ srcQ srcQ rcvQ true None None t scQ1_geometry scQ1_band);
    try (rewrite n16); try (simpl; lia); try reflexivity.
  intros k d u Hk. now apply scQ_scQ1_hist.
Qed.
Close Scope Qc_scope.

(** ====================================================================================== *)
(** ** Part C: the repaired diffuse-scene theorems, and the composed room [rmQ] *)
Open Scope Qc_scope.

(** *** C01_model_balance_bounded
    The room of Part B with DIFFUSE tables: two incoming samples per wall, one outgoing slot, two
    bands; wall 0 reflects 1/2 and 1/4, wall 1 reflects 1/3 and 1/5; air attenuation in band 1;
    patch 2 is hidden from the source. *)
Definition ins2 : list (list (@vec Qc)) :=
  [[v 0 0 1; vq (q 3 5) 0 (q 4 5)]; [v 0 0 1; vq (q 3 5) 0 (q 4 5)]].
Definition scD : @scene Qc :=
  scG 1 2 [0; q 1 100]
      [[[[q 1 2; q 1 4]]; [[q 1 2; q 1 4]]]; [[[q 1 3; q 1 5]]; [[q 1 3; q 1 5]]]]
      ins2 [[v 0 0 1]; [v 0 0 1]].
Definition rhoD (w b : nat) : Qc := nth b (nth w [[q 1 2; q 1 4]; [q 1 3; q 1 5]] []) 0.
Definition ptD : @point_data Qc :=
  mkPoint (v 0 0 5) [true; true; false] [q 1 10; q 1 20; q 1 30] [q 1 7; q 1 8; q 1 9].

Notation EEd := (E (directed (vis_pairs scD)) (scene_delta scD tmS) (tilde_entry scD) (out_index scD)
                   (scene_delta0 scD tmS (as_source ptD)) (e0dir_entry scD (as_source ptD))).

(** every hypothesis of [C01_model_balance_bounded], by computation (order k = 1, window N = 20) *)
Example scD_wf : wf_scene scD.
Proof. apply wf_check_ok. vm_compute. reflexivity. Qed.
Example scD_tables_ok : tables_ok scD.
Proof. apply tables_ok_check_ok. vm_compute. reflexivity. Qed.
Example scD_diffuse : diffuse_in_range scD rhoD.
Proof. apply (diffuse_check_ok qf_teqb_sound). vm_compute. reflexivity. Qed.
Example scD_diffuse_band b : (b < 2)%nat -> diffuse_in_range_band scD b (fun w => rhoD w b).
Proof. intros Hb w a d Hw Ha Hd. now apply scD_diffuse. Qed.
Example scD_fit b : (b < 2)%nat ->
  forall m j, (m < s_np scD)%nat -> (j < s_np scD)%nat -> (scene_delta scD tmS m j <= 20)%nat /\
    forall t, (20 - scene_delta scD tmS m j <= t)%nat -> (t < 20)%nat -> EEd 1%nat m 0%nat b t = 0%T.
Proof.
  intros Hb. apply (fit_check_ok qf_teqb_sound).
  destruct b as [|[|b]]; [| |lia]; vm_compute; reflexivity.
Qed.
(** the data are not trivial: the table really has 2 walls x 2 rows, every reflectance is non-zero,
    all three pairs are visible *)
Example scD_data :
  length (s_tidx scD) = 2%nat /\ map (table_rows scD) [0; 1]%nat = [2; 2]%nat /\
  map (fun w => map (fun b => negb (teqb (rhoD w b) 0%T)) [0; 1]%nat) [0; 1]%nat = [[true; true]; [true; true]] /\
  vis_pairs scD = [(0, 1); (0, 2); (1, 2)]%nat.
Proof. repeat split; vm_compute; reflexivity. Qed.

(** ... so the theorem applies, in both bands *)
Example C01_model_balance_bounded_witness b : (b < 2)%nat ->
  sumf (seq 0 (s_np scD)) (fun j => hsum 20 (EEd 2%nat j 0%nat b)) =
  sumf (seq 0 (s_np scD)) (fun j =>
    (rhoD (wall scD j) b * sumf (seq 0 (s_np scD)) (fun m => (Gm scD b m j * hsum 20 (EEd 1%nat m 0%nat b))%T))%T).
Proof.
  intros Hb.
  exact (C01_model_balance_bounded scD tmS b (fun w => rhoD w b) ptD 20 1 scD_wf eq_refl Hb
           scD_tables_ok (scD_diffuse_band b Hb) (scD_fit b Hb)).
Qed.
(** ... and both sides are a non-zero amount of energy (second-order energy of all patches) *)
Example C01_model_balance_bounded_nonzero :
  sumf (seq 0 (s_np scD)) (fun j => hsum 20 (EEd 2%nat j 0%nat 0%nat)) <> 0%T /\
  sumf (seq 0 (s_np scD)) (fun j => hsum 20 (EEd 2%nat j 0%nat 1%nat)) <> 0%T.
Proof. split; qc_neq0. Qed.
(** the read-entry form applies as well *)
Example C01_model_balance_vis_witness b : (b < 2)%nat ->
  sumf (seq 0 (s_np scD)) (fun j => hsum 20 (EEd 2%nat j 0%nat b)) =
  sumf (seq 0 (s_np scD)) (fun j =>
    (rhoD (wall scD j) b * sumf (seq 0 (s_np scD)) (fun m => (Gm scD b m j * hsum 20 (EEd 1%nat m 0%nat b))%T))%T).
Proof.
  intros Hb.
  apply (C01_model_balance_vis scD tmS b (fun w => rhoD w b) ptD 20 1 scD_wf eq_refl Hb);
    [| |exact (scD_fit b Hb)].
  - intros i j Hi Hj _. apply (scD_diffuse_band b Hb);
      [now destruct (scD_tables_ok j Hj)|now apply in_index_in_range; [exact scD_tables_ok|]|simpl; lia].
  - intros i Hi _. apply (scD_diffuse_band b Hb);
      [now destruct (scD_tables_ok i Hi)|now apply src_in_index_in_range; [exact scD_tables_ok|]|simpl; lia].
Qed.
(** the hypothesis of the OLD theorem [C01_model_balance] fails on this scene: a read beyond the
    two rows of a table returns 0, not the reflectance *)
Example C01_model_balance_old_hypothesis_fails :
  ~ (forall w a d, beta scD w a d 0 = rhoD w 0).
Proof. intros H. specialize (H 0%nat 2%nat 0%nat). revert H. qc_neq0. Qed.

(** *** C03_diffuse_sampling_independent_bounded
    the same room sampled with 1 incoming x 1 outgoing direction, and with 2 incoming x 3 outgoing
    directions *)
Definition scD1 : @scene Qc :=
  scG 1 2 [0; q 1 100] [[[[q 1 2; q 1 4]]]; [[[q 1 3; q 1 5]]]] [[v 0 0 1]; [v 0 0 1]] [[v 0 0 1]; [v 0 0 1]].
Definition outs3 : list (list (@vec Qc)) :=
  [[v 0 0 1; vq (q 3 5) 0 (q 4 5); vq 0 (q 3 5) (q 4 5)]; [v 0 0 1; vq (q 3 5) 0 (q 4 5); vq 0 (q 3 5) (q 4 5)]].
Definition row3 (a b : Qc) : list (list Qc) := [[a; b]; [a; b]; [a; b]].
Definition scD3 : @scene Qc :=
  scG 3 2 [0; q 1 100]
      [[row3 (q 1 2) (q 1 4); row3 (q 1 2) (q 1 4)]; [row3 (q 1 3) (q 1 5); row3 (q 1 3) (q 1 5)]]
      ins2 outs3.

Example scD13_same_room : same_room scD1 scD3.
Proof. repeat split. Qed.
Example scD1_wf : wf_scene scD1.
Proof. apply wf_check_ok. vm_compute. reflexivity. Qed.
Example scD3_wf : wf_scene scD3.
Proof. apply wf_check_ok. vm_compute. reflexivity. Qed.
Example scD1_tables_ok : tables_ok scD1.
Proof. apply tables_ok_check_ok. vm_compute. reflexivity. Qed.
Example scD3_tables_ok : tables_ok scD3.
Proof. apply tables_ok_check_ok. vm_compute. reflexivity. Qed.
Example scD1_diffuse : diffuse_in_range scD1 rhoD.
Proof. apply (diffuse_check_ok qf_teqb_sound). vm_compute. reflexivity. Qed.
Example scD3_diffuse : diffuse_in_range scD3 rhoD.
Proof. apply (diffuse_check_ok qf_teqb_sound). vm_compute. reflexivity. Qed.
Example scD13_data :
  (s_nd scD1, map (table_rows scD1) [0; 1]%nat) = (1%nat, [1; 1]%nat) /\
  (s_nd scD3, map (table_rows scD3) [0; 1]%nat) = (3%nat, [2; 2]%nat) /\
  (** the two models do use different slots: slot of patch 0 towards 1 and 2, of patch 1 towards 0 *)
  map (fun p => out_index scD3 (fst p) (snd p)) [(0, 1); (0, 2); (1, 0)]%nat = [1; 2; 0]%nat.
Proof. repeat split; vm_compute; reflexivity. Qed.

Example C03_diffuse_sampling_independent_bounded_witness j d d' b t :
  (j < 3)%nat -> (d < 1)%nat -> (d' < 3)%nat -> (b < 2)%nat -> (t < 16)%nat ->
  get4 (patch_hist scD1 tmS srcQ 2) j d b t = get4 (patch_hist scD3 tmS srcQ 2) j d' b t.
Proof.
  intros Hj Hd Hd' Hb Ht.
  apply (C03_diffuse_sampling_independent_bounded scD1 scD3 rhoD tmS srcQ srcQ 2 j d d' b t
           scD13_same_room scD1_tables_ok scD3_tables_ok scD1_diffuse scD3_diffuse scD1_wf scD3_wf);
    try reflexivity; try assumption.
Qed.
(** the read-entry form applies as well *)
Example C03_diffuse_sampling_independent_vis_witness j d d' b t :
  (j < 3)%nat -> (d < 1)%nat -> (d' < 3)%nat -> (b < 2)%nat -> (t < 16)%nat ->
  get4 (patch_hist scD1 tmS srcQ 2) j d b t = get4 (patch_hist scD3 tmS srcQ 2) j d' b t.
Proof.
  intros Hj Hd Hd' Hb Ht.
  apply (C03_diffuse_sampling_independent_vis scD1 scD3 rhoD tmS srcQ srcQ 2 j d d' b t scD13_same_room
           (in_range_read_pairs scD1 rhoD scD1_tables_ok scD1_diffuse)
           (in_range_read_pairs scD3 rhoD scD3_tables_ok scD3_diffuse)
           (in_range_read_src scD1 srcQ rhoD scD1_tables_ok scD1_diffuse)
           (in_range_read_src scD3 srcQ rhoD scD3_tables_ok scD3_diffuse) scD1_wf scD3_wf);
    try reflexivity; try assumption.
Qed.
(** the histograms are not empty: bins with energy in band 1, slot 0 of [scD1] = every slot of [scD3] *)
Example C03_bounded_histograms_nonzero :
  map (fun j => support (nthl (nthl (nthl (patch_hist scD1 tmS srcQ 2) j) 0) 1)) [0; 1; 2]%nat =
  [[5; 10; 11; 13; 14]; [6; 9; 13; 14]; [8; 11; 13; 14]]%nat /\
  map (fun d' => map (fun j => support (nthl (nthl (nthl (patch_hist scD3 tmS srcQ 2) j) d') 1)) [0; 1; 2]%nat)
      [0; 1; 2]%nat =
  repeat [[5; 10; 11; 13; 14]; [6; 9; 13; 14]; [8; 11; 13; 14]]%nat 3.
Proof. split; vm_compute; reflexivity. Qed.
Example C03_old_hypothesis_fails : ~ diffuse scD3 rhoD.
Proof. intros H. specialize (H 0%nat 2%nat 0%nat 0%nat). revert H. qc_neq0. Qed.

(** *** the composed room [rmQ] of RoomQc *)
Lemma n40 : n_samples tmQ = 40%nat.
Proof. vm_compute. reflexivity. Qed.

(** C03_from_polygons / C03_pairs_line_of_sight / C03_hidden_zero *)
Example C03_from_polygons_witness j d b t :
  (j < 3)%nat -> (d < 1)%nat -> (b < 2)%nat -> (t < 40)%nat ->
  get4 (patch_hist (room_scene rmQ) tmQ (room_source rmQ ptA) 2) j d b t =
  Tot (directed (vis_pairs (room_scene rmQ))) (scene_delta (room_scene rmQ) tmQ) (tilde_entry (room_scene rmQ))
      (out_index (room_scene rmQ)) (scene_delta0 (room_scene rmQ) tmQ (room_source rmQ ptA))
      (e0dir_entry (room_scene rmQ) (room_source rmQ ptA)) 2 j d b t.
Proof.
  intros Hj Hd Hb Ht. apply C03_from_polygons; try assumption; try discriminate.
Qed.
Example C03_pairs_line_of_sight_witness :
  vis_sym (room_scene rmQ) 0 1 =
  visible_all (rm_eps rmQ) (rm_eta rmQ) (rm_patch_surfs rmQ) (nthv (rm_centers rmQ) 0) (nthv (rm_centers rmQ) 1) /\
  vis_sym (room_scene rmQ) 0 1 = true.
Proof. split; [apply C03_pairs_line_of_sight; vm_compute; lia|vm_compute; reflexivity]. Qed.
Example C03_hidden_zero_witness b :
  energy0 (room_scene rmQ) (room_source rmQ ptA) 2 b = 0%T /\
  energy0 (room_scene rmQ) (room_source rmQ ptA) 0 0 <> 0%T.
Proof. split; [apply C03_hidden_zero; vm_compute; reflexivity|qc_neq0]. Qed.

(** C09_baked_reciprocity *)
Example C09_baked_reciprocity_witness :
  (Gm (room_scene rmQ) 0 0 1 * iaP (room_scene rmQ) 1)%T = (Gm (room_scene rmQ) 0 1 0 * iaP (room_scene rmQ) 0)%T /\
  Gm (room_scene rmQ) 0 0 1 <> 0%T.
Proof.
  split; [|qc_neq0].
  apply (C09_baked_reciprocity (room_scene rmQ) 0 0 1 rmQ_area_nz); vm_compute; lia.
Qed.

(** C09_model_vis on the scene of the composed room: every hypothesis holds (two bands) *)
Example C09_model_vis_witness b t : (b < 2)%nat -> (t < 40)%nat ->
  get2 (mono (room_scene rmQ) tmQ (patch_hist (room_scene rmQ) tmQ (as_source (room_point rmQ ptA)) 2)
          (as_source (room_point rmQ ptA)) (as_receiver (room_point rmQ ptB)) false None) b t =
  get2 (mono (room_scene rmQ) tmQ (patch_hist (room_scene rmQ) tmQ (as_source (room_point rmQ ptB)) 2)
          (as_source (room_point rmQ ptB)) (as_receiver (room_point rmQ ptA)) false None) b t.
Proof.
  intros Hb Ht.
  apply (C09_model_vis (room_scene rmQ) tmQ b (rhoQ b) (room_point rmQ ptA) (room_point rmQ ptB) 2 t
           (room_wf rmQ rmQ_one_slot) (room_nd rmQ rmQ_one_slot) Hb rmQ_area_nz
           (room_diffuse_pairs rmQ b rmQ_in_nonempty (rhoQ b) (rmQ_diffuse b Hb))
           (room_diffuse_src rmQ b rmQ_in_nonempty (rhoQ b) (rmQ_diffuse b Hb) ptA)
           (room_diffuse_src rmQ b rmQ_in_nonempty (rhoQ b) (rmQ_diffuse b Hb) ptB)
           (room_linked rmQ tmQ rmQ_area_nz rmQ_pi_nz rmQ_four_nz ptA rmQ_bins_A)
           (room_linked rmQ tmQ rmQ_area_nz rmQ_pi_nz rmQ_four_nz ptB rmQ_bins_B)
           (room_fits rmQ tmQ b rmQ_one_slot ptA ptB 2 (rmQ_fits_AB b Hb))
           (room_fits rmQ tmQ b rmQ_one_slot ptB ptA 2 (rmQ_fits_BA b Hb))).
  rewrite n40. exact Ht.
Qed.

(** C09_roles_linked: the floor patch of the room seen from A *)
Example C09_roles_linked_witness :
  let pts := nth 0%nat (rm_patch_pts rmQ) [] in
  pt_solution (rm_thr rmQ) true ptA pts = ((four * pt_solution (rm_thr rmQ) false ptA pts) * (1 / poly_area pts))%T /\
  pt_solution (rm_thr rmQ) false ptA pts <> 0%T.
Proof.
  cbv zeta. split; [|qc_neq0].
  apply C09_roles_linked; [exact rmQ_pi_nz|exact rmQ_four_nz|qc_neq0|].
  intros a c Ha Hc H. destruct (Qcmult_integral _ _ H); contradiction.
Qed.

(** C11_room_receiver_partial: the fitting hypothesis is [room_recv_fits] *)
Example C11_room_receiver_partial_witness b t : (b < 2)%nat -> (t < 40)%nat ->
  get2 (room_mono rmQ tmQ ptA ptB 2 true) b t =
  (sumf (filter (fun k => nthb (room_point_vis rmQ ptB) k) (seq 0 (rm_np rmQ))) (fun k =>
     let d := vdist (nthv (rm_centers rmQ) k) ptB in
     let g := delay_ceil d (t_c tmQ) (t_dt tmQ) in
     if (t <? g)%nat then 0%T
     else ((get4 (patch_hist (room_scene rmQ) tmQ (room_source rmQ ptA) 2) k (room_recv_slot rmQ ptB k) b (t - g) *
            pt_solution (rm_thr rmQ) true ptB (nth k (rm_patch_pts rmQ) [])) *
           texp ((- nthT (rm_att rmQ) b) * d))%T) +
   (if true && (t =? delay_floor (vnorm (vsub ptB ptA)) (t_c tmQ) (t_dt tmQ))%nat
    then (let rr := vnorm (vsub ptB ptA) in
          (1 * (1 / ((four * tpi) * (rr * rr)))) * texp ((- nthT (rm_att rmQ) b) * rr))
    else 0))%T.
Proof.
  intros Hb Ht.
  apply (C11_room_receiver_partial rmQ tmQ ptA ptB 2 true b t Hb); [rewrite n40; exact Ht|].
  exact (rmQ_fits_AB b Hb).
Qed.
Close Scope Qc_scope.

Print Assumptions C01_model_balance_bounded_witness.
Print Assumptions C03_diffuse_sampling_independent_bounded_witness.
Print Assumptions C09_model_vis_witness.
