(** * Non-vacuity of the C19 theorems: a concrete scene over Z meets every hypothesis.

    [Z] with a degenerate exponential ([texp _ = 1], i.e. no air attenuation) is an ordered
    commutative ring satisfying [ExpLaws]; the scene has two walls with 1 and 2 patches, 3-4-5
    distances so that the integer square root is exact, asymmetric form-factor data, a source
    and a receiver.  All examples are closed by computation. *)
From Coq Require Import List Arith Bool ZArith Ring Lia.
Import ListNotations.
From SV Require Import Base.Ops Base.Arr Base.Sums Model.Vec3 Model.Exchange Model.Kang
  Spec.ExchangeSpec Spec.KangSpec Proofs.ExchangeL0 Proofs.KangRefine Proofs.KangInvariance Proofs.KangPlacement
  Properties.C19.

Local Open Scope Z_scope.

#[local] Instance KZ_ops : Ops Z := {|
  tzero := 0; tone := 1; tadd := Z.add; tmul := Z.mul; tsub := Z.sub; topp := Z.opp;
  tdiv := Z.div; tleb := Z.leb; tltb := Z.ltb; teqb := Z.eqb;
  tofnat := Z.of_nat; ttrunc := Z.to_nat; tceil := Z.to_nat;
  tsqrt := Z.sqrt; texp := fun _ => 1; tln := fun _ => 0; tacos := fun _ => 0; tatan := fun _ => 0;
  tpi := 3; tabs := Z.abs |}.

#[local] Instance KZ_ring : RingLaws Z := {| ring_th := InitialRing.Zth |}.

#[local] Instance KZ_order : OrderLaws Z.
Proof.
  constructor; unfold tle, tlt; simpl; intros;
    repeat match goal with
           | H : (_ <=? _) = true |- _ => apply Z.leb_le in H
           | H : (_ <? _) = true |- _ => apply Z.ltb_lt in H
           end;
    try (apply Z.leb_le); try (apply Z.ltb_lt); try lia; try nia.
Qed.

#[local] Instance KZ_exp : ExpLaws Z.
Proof. constructor; unfold tle, tlt; simpl; intros; reflexivity. Qed.

(** ** the scene *)
Definition kz_wall0 : @kwall Z :=
  mkKwall [(0, 0, 0)] [(1, 1, 0)] (0, 0, 1) (0, 0, 0) 1 [1%nat] [2] [-1] [0].
Definition kz_wall1 : @kwall Z :=
  mkKwall [(3, 4, 0); (6, 8, 0)] [(1, 1, 0); (1, 1, 0)] (0, 0, 1) (0, 0, 5) 1 [0%nat] [1] [0] [0].
Definition kz_sc : @kscene Z := mkKscene [kz_wall0; kz_wall1] 1 1 1 40 (0, 0, 12) 1.

Definition kz_F (w' s w r : nat) : Z :=
  match w', s, w, r with
  | 0%nat, 0%nat, 1%nat, 0%nat => 2
  | 0%nat, 0%nat, 1%nat, 1%nat => 3
  | 1%nat, 0%nat, 0%nat, 0%nat => 5
  | 1%nat, 1%nat, 0%nat, 0%nat => 7
  | _, _, _, _ => 0
  end.
Definition kz_ffs : list (list (list Z)) := [[[2; 3]]; [[5]; [7]]].
Definition kz_d0 (w r : nat) : nat := match w, r with 0%nat, _ => 1%nat | _, 0%nat => 0%nat | _, _ => 2%nat end.
Definition kz_en (w r b : nat) : Z := Z.of_nat (1 + w + r).
Definition kz_recv : @vec Z := (0, 0, 5).

(** the engine's own time grid: 40 bins; the pair delays are 5 and 10 bins *)
Example kz_N : kN kz_sc = 40%nat.
Proof. vm_compute. reflexivity. Qed.
Example kz_delays : (kdelay kz_sc (kpdist kz_sc 0 0 1 0), kdelay kz_sc (kpdist kz_sc 0 0 1 1)) = (5%nat, 10%nat).
Proof. vm_compute. reflexivity. Qed.

(** ** the hypotheses of the theorems hold *)
Lemma kz_layout : ff_layout kz_sc kz_F kz_ffs.
Proof.
  intros w' s Hw' Hs. destruct w' as [|[|w']]; [| |vm_compute in Hw'; lia].
  - destruct s as [|s]; [reflexivity|vm_compute in Hs; lia].
  - destruct s as [|[|s]]; [reflexivity|reflexivity|vm_compute in Hs; lia].
Qed.

Lemma kz_wf : wf_others kz_sc.
Proof.
  intros w w' Hw Hin. destruct w as [|[|w]]; [| |vm_compute in Hw; lia].
  - destruct Hin as [<-|[]]. split; [vm_compute; lia|now left].
  - destruct Hin as [<-|[]]. split; [vm_compute; lia|now left].
Qed.

Lemma kz_F_nonneg w' s w r : (0 <= kz_F w' s w r)%T.
Proof.
  unfold tle. simpl. apply Z.leb_le. unfold kz_F.
  destruct w' as [|[|w']], s as [|[|s]], w as [|[|w]], r as [|[|r]]; lia.
Qed.

Lemma kz_kwl w : kwl kz_sc w = kz_wall0 \/ kwl kz_sc w = kz_wall1 \/ kwl kz_sc w = kwall_nil.
Proof. destruct w as [|[|w]]; [now left|now right; left|right; right]. unfold kwl. simpl. now destruct w. Qed.

Lemma nth_bound (P : Z -> Prop) (l : list Z) (i : nat) : P 0 -> Forall P l -> P (nth i l 0).
Proof.
  intros H0 HF. revert i. induction HF as [|x l Hx _ IH]; intros i; destruct i; simpl; auto.
Qed.

Lemma kz_scat_nonneg w b : (0 <= kscat kz_sc w b)%T.
Proof.
  unfold tle. simpl. apply Z.leb_le. unfold kscat, nthT. simpl.
  apply (nth_bound (fun x => 0 <= x)); [lia|].
  destruct (kz_kwl w) as [->|[->| ->]]; simpl; repeat constructor; lia.
Qed.

Lemma kz_alpha_le w b : (kalpha kz_sc w b <= 1)%T.
Proof.
  unfold tle. simpl. apply Z.leb_le. unfold kalpha, nthT. simpl.
  apply (nth_bound (fun x => x <= 1)); [lia|].
  destruct (kz_kwl w) as [->|[->| ->]]; simpl; repeat constructor; lia.
Qed.

Lemma kz_en_nonneg w r b : (0 <= kz_en w r b)%T.
Proof. unfold tle. simpl. apply Z.leb_le. unfold kz_en. lia. Qed.

Lemma Zdiv_nonneg a b : 0 <= a -> 0 <= b -> 0 <= a / b.
Proof.
  intros Ha Hb. destruct (Z.eq_dec b 0) as [->|Hne]; [rewrite Zdiv_0_r; lia|].
  apply Z.div_pos; lia.
Qed.

Lemma kz_factor_aux (n R : Z) : 0 <= R -> 0 <= (Z.abs n / R * 1) / (3 * (R * R)).
Proof.
  intros HR. apply Zdiv_nonneg.
  - rewrite Z.mul_1_r. apply Zdiv_nonneg; [apply Z.abs_nonneg|exact HR].
  - apply Z.mul_nonneg_nonneg; [lia|]. now apply Z.mul_nonneg_nonneg.
Qed.

(** over Z the receiver factor is non-negative for every scene (R = integer sqrt >= 0) *)
Lemma kz_factor_nonneg (sc : @kscene Z) recv w s b : (0 <= krcv_factor sc recv w s b)%T.
Proof.
  assert (HR : 0 <= krcv_R sc recv w s) by (unfold krcv_R, vnorm; apply Z.sqrt_nonneg).
  pose proof (kz_factor_aux (vdot (kw_normal (kwl sc w)) (kvabs (vsub recv (kpc sc w s))))
                            (krcv_R sc recv w s) HR) as H.
  apply Z.leb_le in H. exact H.
Qed.

(** ** the theorems apply, and the quantities they speak about are not trivial *)
Definition kz_init := kinit_with kz_sc kz_d0 kz_en 40.
Definition kz_E := korders_from kz_sc 40 kz_ffs kz_init 2.

(** order 2 of wall 0: energy sent to wall 1 (5 and 10 bins away) and back *)
Example kz_order2 :
  map (fun t => nthT (khist (korder kz_sc 40 kz_ffs kz_init 2) 0 0 0) t) [10; 11; 20; 21; 22]%nat
  = [0; 40; 0; 84; 0].
Proof. vm_compute. reflexivity. Qed.

Example kz_recursion_instance :
  nthT (khist (korder kz_sc 40 kz_ffs kz_init 2) 0 0 0) 21 = 84.
Proof.
  unfold kz_init.
  rewrite (C19_recursion kz_sc 40 kz_ffs kz_F kz_d0 kz_en 1 0 0 0 21 kz_layout kz_wf)
    by (vm_compute; lia).
  vm_compute. reflexivity.
Qed.

Example kz_monotone_instance t : (t < 40)%nat ->
  (nthT (kresp kz_sc 40 kz_E 1 kz_recv false 0) t <= nthT (kresp kz_sc 40 kz_E 2 kz_recv false 0) t)%T.
Proof.
  exact (C19_monotone_K kz_sc 40 kz_ffs kz_F kz_d0 kz_en 2 kz_recv 1 false 0 t kz_layout kz_wf
           kz_F_nonneg kz_scat_nonneg kz_alpha_le kz_en_nonneg (kz_factor_nonneg kz_sc kz_recv)).
Qed.

(** the direct sound of this scene falls into bin 7 of 40; with a 5-bin histogram it is dropped *)
Example kz_direct_bin : kdirect_bin kz_sc kz_recv = 7%nat.
Proof. vm_compute. reflexivity. Qed.
Example kz_direct_dropped :
  kresp kz_sc 5 (korders_from kz_sc 5 kz_ffs (kinit_with kz_sc kz_d0 kz_en 5) 2) 2 kz_recv false 0
  = kresp kz_sc 5 (korders_from kz_sc 5 kz_ffs (kinit_with kz_sc kz_d0 kz_en 5) 2) 2 kz_recv true 0.
Proof. vm_compute. reflexivity. Qed.

(** a short histogram is the prefix of a long one (C19_truncation_commutes, computed) *)
Example kz_prefix :
  firstn 12 (khist (korder kz_sc 40 kz_ffs kz_init 2) 0 0 0)
  = khist (korder kz_sc 12 kz_ffs (kinit_with kz_sc kz_d0 kz_en 12) 2) 0 0 0.
Proof. vm_compute. reflexivity. Qed.

(** translation by (7, -3, 2) leaves the model's own form factors, energies and responses unchanged *)
Example kz_translate_instance :
  kang_run (tr_scene (7, -3, 2) kz_sc) 2 = kang_run kz_sc 2.
Proof. exact (proj1 (proj2 (proj2 (C19_translate kz_sc (7, -3, 2)))) 2%nat). Qed.

(** the scene is axis-aligned in the sense of C19_cyclic (both normals are +z, the wall centres
    differ along z only), so the theorem applies *)
Lemma kz_cyc_ok : cyc_ok kz_sc.
Proof.
  assert (Hn : forall w, (w < knw kz_sc)%nat -> kw_normal (kwl kz_sc w) = (0, 0, 1)).
  { intros w Hw. destruct w as [|[|w]]; [reflexivity|reflexivity|vm_compute in Hw; lia]. }
  repeat split.
  - intros w Hw. exists 2%nat. rewrite (Hn w Hw). split; [lia|].
    intros i Hi. destruct i as [|[|[|i]]]; [reflexivity|reflexivity|reflexivity|lia].
  - intros w Hw. exists 2%nat. rewrite (Hn w Hw). split; [lia|].
    intros i Hi. destruct i as [|[|[|i]]]; [reflexivity|reflexivity|reflexivity|lia].
  - intros w o Hw Ho _. rewrite (Hn w Hw), (Hn o Ho). vm_compute. discriminate.
  - intros w o Hw Ho Hin _. exists 2%nat. split; [lia|].
    destruct w as [|[|w]]; [| |vm_compute in Hw; lia].
    + destruct Hin as [<-|[]]. intros i Hi. destruct i as [|[|[|i]]]; [reflexivity|reflexivity|reflexivity|lia].
    + destruct Hin as [<-|[]]. intros i Hi. destruct i as [|[|[|i]]]; [reflexivity|reflexivity|reflexivity|lia].
Qed.

Example kz_cyclic_instance : kang_run (cyc_scene kz_sc) 2 = kang_run kz_sc 2.
Proof. exact (proj1 (proj2 (proj2 (C19_cyclic kz_sc kz_cyc_ok))) 2%nat). Qed.
