(** * Further law classes used by the point-to-patch geometry proofs (C04).

    Each law is a hypothesis of the theorems that name it.  The only instance is the one over Coq's
    real numbers in [Instances/InstR.v] (non-vacuity).

    - [NatLaws]: see below.

    - [DivLaws]: division is multiplication by the reciprocal, [a / b = a * (1 / b)], for ALL
      [a b] (also [b = 0]).  Justification: in every field in which [x / y] is defined as
      [x * inv y] -- with any convention whatsoever for [inv 0] -- one has
      [1 / b = 1 * inv b = inv b], hence [a / b = a * inv b = a * (1 / b)].  This is the
      definition of division in Coq's [R] ([Rdiv]), [Q] ([Qdiv]) and [Qc].  (IEEE floats
      satisfy it only up to rounding, like every other law.)

    - [AcosStrictLaws]: [acos x < pi] for [-1 < x].  Justification: on the reals [acos] is
      strictly decreasing on [-1, 1] with [acos (-1) = pi]; for [x > 1] any total extension
      with values in [0, pi) (numpy returns nan there, which no polygon in general position
      reaches) satisfies it. *)
From SV Require Import Base.Ops.

(** [NatLaws]: the embedding of the naturals, [tofnat 0 = 0] and [tofnat (S n) = tofnat n + 1]
    -- the part of [FloorLaws] that the angle-excess bound needs (every [FloorLaws] instance
    yields one, see [NatLaws_of_Floor]). *)
Class NatLaws (T : Type) {O : Ops T} : Prop := {
  tofnat_zero : tofnat 0 = 0%T;
  tofnat_succ : forall n, tofnat (S n) = (tofnat n + 1)%T
}.
Global Instance NatLaws_of_Floor {T : Type} {O : Ops T} {FL : FloorLaws T} : NatLaws T :=
  {| tofnat_zero := tofnat_0; tofnat_succ := tofnat_S |}.

Class DivLaws (T : Type) {O : Ops T} : Prop := {
  tdiv_inv : forall a b : T, (a / b)%T = (a * (1 / b))%T
}.

Class AcosStrictLaws (T : Type) {O : Ops T} : Prop := {
  tacos_lt_pi : forall x : T, (- (1) < x)%T -> (tacos x < tpi)%T
}.
