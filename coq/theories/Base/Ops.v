(** * Scalar operations and their laws.

    Every model function is polymorphic in a scalar type [T] with an [Ops T]
    dictionary and uses NO law.  Proof files assume exactly the law classes
    they need.  The extracted OCaml code receives a [float ops] record. *)
From Coq Require Import List Arith Bool Ring Lia.
Import ListNotations.

Class Ops (T : Type) : Type := mkOps {
  tzero : T; tone : T;
  tadd : T -> T -> T; tmul : T -> T -> T; tsub : T -> T -> T; topp : T -> T;
  tdiv : T -> T -> T;
  tleb : T -> T -> bool;          (* a <= b *)
  tltb : T -> T -> bool;          (* a <  b *)
  teqb : T -> T -> bool;          (* a == b *)
  tofnat : nat -> T;
  ttrunc : T -> nat;              (* int(x) for x >= 0 *)
  tceil : T -> nat;               (* int(ceil(x)) for x >= 0 *)
  tsqrt : T -> T; texp : T -> T; tln : T -> T;
  tacos : T -> T; tatan : T -> T; tpi : T;
  tabs : T -> T
}.

Declare Scope T_scope.
Delimit Scope T_scope with T.
Infix "+" := tadd : T_scope.
Infix "*" := tmul : T_scope.
Infix "-" := tsub : T_scope.
Infix "/" := tdiv : T_scope.
Notation "- x" := (topp x) : T_scope.
Notation "0" := tzero : T_scope.
Notation "1" := tone : T_scope.

Definition tle {T} {O : Ops T} (a b : T) : Prop := tleb a b = true.
Definition tlt {T} {O : Ops T} (a b : T) : Prop := tltb a b = true.
Infix "<=" := tle : T_scope.
Infix "<" := tlt : T_scope.

(** Commutative ring. *)
Class RingLaws (T : Type) {O : Ops T} : Prop := {
  ring_th : ring_theory tzero tone tadd tmul tsub topp (@eq T)
}.

(** Total order compatible with the ring operations. *)
Class OrderLaws (T : Type) {O : Ops T} : Prop := {
  tle_refl : forall a : T, (a <= a)%T;
  tle_trans : forall a b c : T, (a <= b)%T -> (b <= c)%T -> (a <= c)%T;
  tle_antisym : forall a b : T, (a <= b)%T -> (b <= a)%T -> a = b;
  tle_total : forall a b : T, (a <= b)%T \/ (b <= a)%T;
  tadd_le_mono : forall a b c : T, (a <= b)%T -> (a + c <= b + c)%T;
  tmul_nonneg : forall a b : T, (0 <= a)%T -> (0 <= b)%T -> (0 <= a * b)%T;
  tmul_pos : forall a b : T, (0 < a)%T -> (0 < b)%T -> (0 < a * b)%T;
  tltb_spec : forall a b : T, tltb a b = negb (tleb b a);
  teqb_spec : forall a b : T, teqb a b = true <-> a = b;
  tone_pos : (0 < 1)%T
}.

(** Field: division is multiplication by an inverse. *)
Class FieldLaws (T : Type) {O : Ops T} : Prop := {
  tdiv_mul : forall a b : T, b <> 0%T -> ((a / b) * b)%T = a
}.

(** exp *)
Class ExpLaws (T : Type) {O : Ops T} : Prop := {
  texp_0 : texp 0%T = 1%T;
  texp_add : forall a b : T, texp (a + b)%T = (texp a * texp b)%T;
  texp_pos : forall a : T, (0 < texp a)%T;
  texp_mono : forall a b : T, (a <= b)%T -> (texp a <= texp b)%T
}.

(** floor / ceil to nat on non-negative arguments *)
Class FloorLaws (T : Type) {O : Ops T} : Prop := {
  tofnat_0 : tofnat 0 = 0%T;
  tofnat_S : forall n, tofnat (S n) = (tofnat n + 1)%T;
  ttrunc_lo : forall x : T, (0 <= x)%T -> (tofnat (ttrunc x) <= x)%T;
  ttrunc_hi : forall x : T, (0 <= x)%T -> (x < tofnat (S (ttrunc x)))%T;
  tceil_lo : forall x : T, (0 <= x)%T -> (x <= tofnat (tceil x))%T;
  tceil_hi : forall x : T, (0 < x)%T -> (tofnat (tceil x) < x + 1)%T
}.

(** sqrt / abs *)
Class SqrtLaws (T : Type) {O : Ops T} : Prop := {
  tsqrt_nonneg : forall x : T, (0 <= x)%T -> (0 <= tsqrt x)%T;
  tsqrt_sq : forall x : T, (0 <= x)%T -> (tsqrt x * tsqrt x)%T = x;
  tabs_nonneg : forall x : T, (0 <= tabs x)%T;
  tabs_pos : forall x : T, (0 <= x)%T -> tabs x = x;
  tabs_neg : forall x : T, (x <= 0)%T -> tabs x = (- x)%T
}.

(** acos *)
Class AcosLaws (T : Type) {O : Ops T} : Prop := {
  tacos_lo : forall x : T, (0 <= tacos x)%T;
  tacos_hi : forall x : T, (tacos x <= tpi)%T;
  tpi_pos : (0 < tpi)%T
}.

(** Basic consequences of the order laws used everywhere. *)
Section OrderFacts.
  Context {T : Type} {O : Ops T} {RL : RingLaws T} {OL : OrderLaws T}.
  Add Ring TRing0 : (@ring_th T O RL).

  Lemma tlt_iff a b : (a < b)%T <-> ~ (b <= a)%T.
  Proof. unfold tlt, tle. rewrite tltb_spec. destruct (tleb b a); simpl; split; intros; congruence. Qed.

  Lemma tlt_le a b : (a < b)%T -> (a <= b)%T.
  Proof. intros H. apply tlt_iff in H. destruct (tle_total a b); [assumption|contradiction]. Qed.

  Lemma tle_lt_or_eq a b : (a <= b)%T -> (a < b)%T \/ a = b.
  Proof.
    intros H. destruct (tleb b a) eqn:E.
    - right. apply tle_antisym; assumption.
    - left. apply tlt_iff. unfold tle. congruence.
  Qed.

  Lemma tlt_irrefl a : ~ (a < a)%T.
  Proof. intros H. apply tlt_iff in H. apply H, tle_refl. Qed.

  Lemma tle_lt_trans a b c : (a <= b)%T -> (b < c)%T -> (a < c)%T.
  Proof. intros H1 H2. apply tlt_iff. intros H3. apply tlt_iff in H2. apply H2. eapply tle_trans; eassumption. Qed.

  Lemma tlt_le_trans a b c : (a < b)%T -> (b <= c)%T -> (a < c)%T.
  Proof. intros H1 H2. apply tlt_iff. intros H3. apply tlt_iff in H1. apply H1. eapply tle_trans; eassumption. Qed.

  Lemma tadd_le_mono_l a b c : (a <= b)%T -> (c + a <= c + b)%T.
  Proof. intros H. replace (c + a)%T with (a + c)%T by ring. replace (c + b)%T with (b + c)%T by ring. now apply tadd_le_mono. Qed.

  Lemma tadd_le_mono2 a b c d : (a <= b)%T -> (c <= d)%T -> (a + c <= b + d)%T.
  Proof. intros H1 H2. eapply tle_trans; [apply tadd_le_mono; eassumption|]. now apply tadd_le_mono_l. Qed.

  Lemma tadd_nonneg a b : (0 <= a)%T -> (0 <= b)%T -> (0 <= a + b)%T.
  Proof. intros H1 H2. replace 0%T with (0 + 0)%T by ring. now apply tadd_le_mono2. Qed.

  Lemma tle_sub a b : (a <= b)%T <-> (0 <= b - a)%T.
  Proof.
    split; intros H.
    - replace 0%T with (a + - a)%T by ring. replace (b - a)%T with (b + - a)%T by ring. now apply tadd_le_mono.
    - replace a with (0 + a)%T by ring. replace b with ((b - a) + a)%T by ring. now apply tadd_le_mono.
  Qed.

  Lemma tmul_le_mono_nonneg_l a b c : (0 <= c)%T -> (a <= b)%T -> (c * a <= c * b)%T.
  Proof.
    intros Hc H. apply (proj2 (tle_sub _ _)). replace (c * b - c * a)%T with (c * (b - a))%T by ring.
    apply tmul_nonneg; [assumption|]. now apply (proj1 (tle_sub _ _)).
  Qed.

  Lemma tmul_le_mono_nonneg_r a b c : (0 <= c)%T -> (a <= b)%T -> (a * c <= b * c)%T.
  Proof. intros Hc H. replace (a * c)%T with (c * a)%T by ring. replace (b * c)%T with (c * b)%T by ring. now apply tmul_le_mono_nonneg_l. Qed.

  Lemma tmul_le_mono2 a b c d : (0 <= a)%T -> (0 <= c)%T -> (a <= b)%T -> (c <= d)%T -> (a * c <= b * d)%T.
  Proof.
    intros Ha Hc H1 H2. eapply tle_trans; [apply tmul_le_mono_nonneg_r; eassumption|].
    apply tmul_le_mono_nonneg_l; [|assumption]. apply (tle_trans _ a); assumption.
  Qed.

  Lemma tzero_le_one : (0 <= 1)%T.
  Proof. apply tlt_le, tone_pos. Qed.

  Lemma topp_nonneg a : (a <= 0)%T -> (0 <= - a)%T.
  Proof. intros H. apply (proj1 (tle_sub _ _)) in H. replace (- a)%T with (0 - a)%T by ring. exact H. Qed.

  Lemma topp_le a b : (a <= b)%T -> (- b <= - a)%T.
  Proof. intros H. apply (proj2 (tle_sub _ _)). replace (- a - - b)%T with (b - a)%T by ring. now apply (proj1 (tle_sub _ _)). Qed.

  Lemma tsq_nonneg a : (0 <= a * a)%T.
  Proof.
    destruct (tle_total 0%T a) as [H|H].
    - now apply tmul_nonneg.
    - replace (a * a)%T with ((- a) * (- a))%T by ring. apply tmul_nonneg; now apply topp_nonneg.
  Qed.

End OrderFacts.
