(** * Finite sums over lists in a commutative ring, and order facts about them. *)
From Coq Require Import List Arith Bool Ring Lia.
Import ListNotations.
From SV Require Import Base.Ops.

Section SumDef.
  Context {T : Type} {O : Ops T}.
  (** right fold: f a1 + (f a2 + (... + 0)) *)
  Definition sumf {A} (l : list A) (f : A -> T) : T :=
    fold_right (fun a acc => (f a + acc)%T) 0%T l.
  (** left fold, the order numpy-style loops accumulate in: ((0 + f a1) + f a2) + ... *)
  Definition suml {A} (l : list A) (f : A -> T) : T :=
    fold_left (fun acc a => (acc + f a)%T) l 0%T.
  Definition hsum (N : nat) (h : nat -> T) : T := sumf (seq 0 N) h.
End SumDef.

Section SumRing.
  Context {T : Type} {O : Ops T} {RL : RingLaws T}.
  Add Ring TRing1 : (@ring_th T O RL).

  Lemma sumf_nil {A} (f : A -> T) : sumf [] f = 0%T.
  Proof. reflexivity. Qed.
  Lemma sumf_cons {A} a (l : list A) f : sumf (a :: l) f = (f a + sumf l f)%T.
  Proof. reflexivity. Qed.
  Lemma sumf_app {A} (l1 l2 : list A) f : sumf (l1 ++ l2) f = (sumf l1 f + sumf l2 f)%T.
  Proof. induction l1 as [|a l IH]; simpl; [ring|rewrite IH; ring]. Qed.
  Lemma sumf_add {A} (l : list A) f g : sumf l (fun a => (f a + g a)%T) = (sumf l f + sumf l g)%T.
  Proof. induction l as [|a l IH]; simpl; [ring|rewrite IH; ring]. Qed.
  Lemma sumf_scale {A} (l : list A) c f : sumf l (fun a => (c * f a)%T) = (c * sumf l f)%T.
  Proof. induction l as [|a l IH]; simpl; [ring|rewrite IH; ring]. Qed.
  Lemma sumf_scale_r {A} (l : list A) c f : sumf l (fun a => (f a * c)%T) = (sumf l f * c)%T.
  Proof. induction l as [|a l IH]; simpl; [ring|rewrite IH; ring]. Qed.
  Lemma sumf_ext {A} (l : list A) f g : (forall a, In a l -> f a = g a) -> sumf l f = sumf l g.
  Proof. induction l as [|a l IH]; simpl; intros H; [reflexivity|]. rewrite (H a) by auto. rewrite IH; auto. Qed.
  Lemma sumf_zero {A} (l : list A) : sumf l (fun _ => 0%T) = 0%T.
  Proof. induction l as [|a l IH]; simpl; [reflexivity|rewrite IH; ring]. Qed.
  Lemma sumf_zero_ext {A} (l : list A) f : (forall a, In a l -> f a = 0%T) -> sumf l f = 0%T.
  Proof. intros H. rewrite (sumf_ext l f (fun _ => 0%T)) by exact H. apply sumf_zero. Qed.
  Lemma sumf_swap {A B} (la : list A) (lb : list B) (f : A -> B -> T) :
    sumf la (fun a => sumf lb (fun b => f a b)) = sumf lb (fun b => sumf la (fun a => f a b)).
  Proof.
    induction la as [|a la IH]; simpl.
    - symmetry; apply sumf_zero.
    - rewrite IH. symmetry. apply sumf_add.
  Qed.
  Lemma sumf_map {A B} (g : A -> B) (l : list A) (f : B -> T) : sumf (map g l) f = sumf l (fun a => f (g a)).
  Proof. induction l as [|a l IH]; simpl; [reflexivity|now rewrite IH]. Qed.
  Lemma sumf_filter {A} (p : A -> bool) (l : list A) f :
    sumf (filter p l) f = sumf l (fun a => if p a then f a else 0%T).
  Proof. induction l as [|a l IH]; simpl; [reflexivity|]. destruct (p a); simpl; rewrite IH; ring. Qed.

  Lemma suml_acc {A} (l : list A) f acc :
    fold_left (fun acc a => (acc + f a)%T) l acc = (acc + sumf l f)%T.
  Proof. revert acc. induction l as [|a l IH]; intros acc; simpl; [ring|]. rewrite IH. ring. Qed.
  Lemma suml_sumf {A} (l : list A) f : suml l f = sumf l f.
  Proof. unfold suml. rewrite suml_acc. ring. Qed.

  (** picking one element out of a duplicate-free index list *)
  Lemma sumf_pick (l : list nat) x (a : T) : NoDup l -> In x l ->
    sumf l (fun j => if x =? j then a else 0%T) = a.
  Proof.
    induction l as [|j js IH]; intros Hnd Hin; [destruct Hin|].
    inversion Hnd as [|? ? Hnotin Hnd']; subst. simpl.
    destruct (Nat.eqb_spec x j) as [->|Hne].
    - rewrite sumf_zero_ext; [ring|].
      intros j0 Hj0. destruct (Nat.eqb_spec j j0); [subst; contradiction|reflexivity].
    - destruct Hin as [Hin|Hin]; [congruence|]. rewrite IH by assumption. ring.
  Qed.
  Lemma sumf_pick_none (l : list nat) x (a : T) : ~ In x l ->
    sumf l (fun j => if x =? j then a else 0%T) = 0%T.
  Proof.
    intros H. apply sumf_zero_ext. intros j Hj. destruct (Nat.eqb_spec x j); [subst; contradiction|reflexivity].
  Qed.

  (** Sum over targets of the pairs that hit the target = sum over all pairs. *)
  Lemma sumf_partition {A} (P : list A) (tgt : A -> nat) (idx : list nat) (g : A -> T) :
    NoDup idx -> (forall p, In p P -> In (tgt p) idx) ->
    sumf idx (fun j => sumf (filter (fun p => tgt p =? j) P) g) = sumf P g.
  Proof.
    intros Hnd Hin. induction P as [|p P' IH].
    - simpl. apply sumf_zero.
    - simpl.
      rewrite (sumf_ext idx _
        (fun j => ((if tgt p =? j then g p else 0) + sumf (filter (fun p0 => tgt p0 =? j) P') g)%T)).
      + rewrite sumf_add. rewrite sumf_pick by (try assumption; apply Hin; left; reflexivity).
        rewrite IH by (intros q Hq; apply Hin; right; exact Hq). reflexivity.
      + intros j _. destruct (tgt p =? j); simpl; ring.
  Qed.

  Lemma hsum_sumf {A} N (l : list A) (f : A -> nat -> T) :
    hsum N (fun t => sumf l (fun a => f a t)) = sumf l (fun a => hsum N (f a)).
  Proof. unfold hsum. apply sumf_swap. Qed.
  Lemma hsum_scale N a h : hsum N (fun u => (a * h u)%T) = (a * hsum N h)%T.
  Proof. unfold hsum. apply sumf_scale. Qed.
  Lemma hsum_add N g h : hsum N (fun u => (g u + h u)%T) = (hsum N g + hsum N h)%T.
  Proof. unfold hsum. apply sumf_add. Qed.
  Lemma hsum_ext N g h : (forall t, t < N -> g t = h t) -> hsum N g = hsum N h.
  Proof. intros H. unfold hsum. apply sumf_ext. intros t Ht. apply in_seq in Ht. apply H. lia. Qed.
  Lemma hsum_split N M h : M <= N -> hsum N h = (hsum M h + sumf (seq M (N - M)) h)%T.
  Proof.
    intros H. unfold hsum. replace N with (M + (N - M)) at 1 by lia.
    rewrite seq_app, sumf_app. reflexivity.
  Qed.
  Lemma hsum_delta N d (a : T) : d < N -> hsum N (fun t => if t =? d then a else 0%T) = a.
  Proof.
    intros H. unfold hsum. rewrite (sumf_ext _ _ (fun t => if d =? t then a else 0%T)).
    - apply sumf_pick; [apply seq_NoDup|apply in_seq; lia].
    - intros t _. now rewrite Nat.eqb_sym.
  Qed.
  Lemma hsum_delta_out N d (a : T) : N <= d -> hsum N (fun t => if t =? d then a else 0%T) = 0%T.
  Proof.
    intros H. unfold hsum. apply sumf_zero_ext. intros t Ht. apply in_seq in Ht.
    destruct (Nat.eqb_spec t d); [lia|reflexivity].
  Qed.
End SumRing.

Section SumOrder.
  Context {T : Type} {O : Ops T} {RL : RingLaws T} {OL : OrderLaws T}.
  Add Ring TRing2 : (@ring_th T O RL).

  Lemma sumf_nonneg {A} (l : list A) f : (forall a, In a l -> (0 <= f a)%T) -> (0 <= sumf l f)%T.
  Proof.
    induction l as [|a l IH]; intros H; simpl; [apply tle_refl|].
    apply tadd_nonneg; [apply H; now left|apply IH; intros; apply H; now right].
  Qed.
  Lemma sumf_le {A} (l : list A) f g : (forall a, In a l -> (f a <= g a)%T) -> (sumf l f <= sumf l g)%T.
  Proof.
    induction l as [|a l IH]; intros H; simpl; [apply tle_refl|].
    apply tadd_le_mono2; [apply H; now left|apply IH; intros; apply H; now right].
  Qed.
  Lemma hsum_nonneg N h : (forall t, t < N -> (0 <= h t)%T) -> (0 <= hsum N h)%T.
  Proof. intros H. apply sumf_nonneg. intros t Ht. apply in_seq in Ht. apply H. lia. Qed.
  Lemma hsum_le N g h : (forall t, t < N -> (g t <= h t)%T) -> (hsum N g <= hsum N h)%T.
  Proof. intros H. apply sumf_le. intros t Ht. apply in_seq in Ht. apply H. lia. Qed.
  Lemma hsum_mono_N N M h : M <= N -> (forall t, (0 <= h t)%T) -> (hsum M h <= hsum N h)%T.
  Proof.
    intros HMN Hh. rewrite (hsum_split N M h HMN).
    replace (hsum M h) with (hsum M h + 0)%T at 1 by ring.
    apply tadd_le_mono_l. apply sumf_nonneg. intros; apply Hh.
  Qed.
  Lemma sumf_nonneg_zero {A} (l : list A) f :
    (forall a, In a l -> (0 <= f a)%T) -> sumf l f = 0%T -> forall a, In a l -> f a = 0%T.
  Proof.
    induction l as [|x l IH]; intros Hnn Hs a Ha; [destruct Ha|].
    simpl in Hs.
    assert (H1 : (0 <= f x)%T) by (apply Hnn; now left).
    assert (H2 : (0 <= sumf l f)%T) by (apply sumf_nonneg; intros; apply Hnn; now right).
    assert (Hx : f x = 0%T).
    { apply tle_antisym; [|exact H1]. rewrite <- Hs. replace (f x) with (f x + 0)%T at 1 by ring. now apply tadd_le_mono_l. }
    destruct Ha as [->|Ha]; [exact Hx|].
    apply IH; [intros; apply Hnn; now right| |exact Ha].
    rewrite Hx in Hs. rewrite <- Hs. ring.
  Qed.
End SumOrder.
