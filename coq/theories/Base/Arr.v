(** * Arrays as nested lists: tabulation and total indexing. *)
From Coq Require Import List Arith Bool Lia.
Import ListNotations.

Definition tab {A} (n : nat) (f : nat -> A) : list A := map f (seq 0 n).

Lemma tab_length {A} n (f : nat -> A) : length (tab n f) = n.
Proof. unfold tab. now rewrite map_length, seq_length. Qed.

Lemma nth_tab {A} n (f : nat -> A) d i : i < n -> nth i (tab n f) d = f i.
Proof.
  intros H. unfold tab. rewrite nth_indep with (d' := f 0) by (rewrite map_length, seq_length; exact H).
  rewrite map_nth. now rewrite seq_nth.
Qed.

Lemma nth_tab_out {A} n (f : nat -> A) d i : n <= i -> nth i (tab n f) d = d.
Proof. intros H. apply nth_overflow. now rewrite tab_length. Qed.

Lemma tab_ext {A} n (f g : nat -> A) : (forall i, i < n -> f i = g i) -> tab n f = tab n g.
Proof.
  intros H. unfold tab. apply map_ext_in. intros i Hi. apply in_seq in Hi. apply H. lia.
Qed.

Lemma tab_S {A} n (f : nat -> A) : tab (S n) f = tab n f ++ [f n].
Proof. unfold tab. rewrite seq_S, map_app. reflexivity. Qed.

Lemma tab_nth_id {A} (l : list A) d : tab (length l) (fun i => nth i l d) = l.
Proof.
  induction l as [|x l IH] using rev_ind; [reflexivity|].
  rewrite app_length. simpl length. rewrite Nat.add_1_r, tab_S.
  rewrite app_nth2 by lia. rewrite Nat.sub_diag. simpl. f_equal.
  rewrite <- IH at 2. apply tab_ext. intros i Hi. now rewrite app_nth1.
Qed.

Lemma In_tab {A} n (f : nat -> A) x : In x (tab n f) <-> exists i, i < n /\ x = f i.
Proof.
  unfold tab. rewrite in_map_iff. split.
  - intros (i & E & Hi). apply in_seq in Hi. exists i. split; [lia|congruence].
  - intros (i & Hi & E). exists i. split; [congruence|apply in_seq; lia].
Qed.

(** Total indexing with defaults. *)
Definition nthn (l : list nat) (i : nat) : nat := nth i l 0.
Definition nthb (l : list bool) (i : nat) : bool := nth i l false.
Definition nthl {A} (l : list (list A)) (i : nat) : list A := nth i l [].
Definition get2n (a : list (list nat)) i j : nat := nthn (nthl a i) j.
Definition get2b (a : list (list bool)) i j : bool := nthb (nthl a i) j.

(** First index of a minimum, generic over a comparison returning [true] for strictly-less. *)
Fixpoint argmin_from {A} (lt : A -> A -> bool) (l : list A) (idx best : nat) (bestv : A) : nat :=
  match l with
  | [] => best
  | x :: r => if lt x bestv then argmin_from lt r (S idx) idx x else argmin_from lt r (S idx) best bestv
  end.
Definition argmin {A} (lt : A -> A -> bool) (l : list A) : nat :=
  match l with [] => 0 | x :: r => argmin_from lt r 1 0 x end.
