(** C03 -- Patch histograms equal an independent solution of the radiosity recursion. *)
From Coq Require Import List Arith Bool.
Import ListNotations.
From SV Require Import Base.Ops Base.Arr Base.Sums Model.Vec3 Model.Exchange Model.Scene
  Spec.ExchangeSpec Proofs.ExchangeL0 Proofs.ExchangeRefine Proofs.SceneRefine Proofs.SolverProofs.

(** the independently written solver is the L0 recursion: energy leaving patch i towards j arrives
    after the centre-to-centre travel-time bins, scaled by the transfer factor, read from the
    sender's slot towards j *)
Theorem C03_recursion {T} {O : Ops T} (P : list (nat * nat)) delta delta0 c out e0 k j d b t :
  E P delta c out delta0 e0 0 j d b t = (if t =? delta0 j then e0 j d b else 0%T) /\
  E P delta c out delta0 e0 (S k) j d b t =
  sumf (into P j) (fun p =>
    if t <? delta (fst p) j then 0%T
    else (c (fst p) j d b * E P delta c out delta0 e0 k (fst p) (out (fst p) j) b (t - delta (fst p) j))%T).
Proof. split; [reflexivity|exact (E_step P delta delta0 c out e0 k j d b t)]. Qed.
Print Assumptions C03_recursion.

(** (1) the executable pipeline model is that solver, bin for bin, for every outgoing slot and
    band, fed with: visible pairs, travel-time bins of the centre distances, and the transfer
    factor  form factor x attenuation x pi*BRDF of the RECEIVING wall for the nearest incoming
    sample and each outgoing slot *)
Theorem C03_refines {T} {O : Ops T} {RL : RingLaws T} (sc : @scene T) tm s K j d b t :
  wf_scene sc -> j < s_np sc -> d < s_nd sc -> b < s_nb sc -> t < n_samples tm ->
  get4 (patch_hist sc tm s K) j d b t =
  Tot (directed (vis_pairs sc)) (scene_delta sc tm) (tilde_entry sc) (out_index sc)
      (scene_delta0 sc tm s) (e0dir_entry sc s) K j d b t.
Proof. exact (patch_hist_refines sc tm s K j d b t). Qed.
Print Assumptions C03_refines.

Theorem C03_transfer_factor {T} {O : Ops T} (sc : @scene T) i j d b :
  tilde_entry sc i j d b =
  if vis_sym sc i j
  then ((ff_full sc i j * attn sc b (dist sc i j)) *
        beta sc (wall sc j) (nearest (in_dirs sc (wall sc j)) (vnormalize (vsub (center sc i) (center sc j)))) d b)%T
  else 0%T.
Proof. reflexivity. Qed.
Print Assumptions C03_transfer_factor.

(** (2) order K is order K-1 plus a non-negative contribution *)
Theorem C03_order_step {T} {O : Ops T} {RL : RingLaws T} {OL : OrderLaws T}
    (P : list (nat * nat)) delta c out delta0 e0 K j d b t :
  (forall i j d b, (0 <= c i j d b)%T) -> (forall j d b, (0 <= e0 j d b)%T) ->
  Tot P delta c out delta0 e0 (S K) j d b t =
  (Tot P delta c out delta0 e0 K j d b t + E P delta c out delta0 e0 (S K) j d b t)%T /\
  (0 <= E P delta c out delta0 e0 (S K) j d b t)%T.
Proof.
  intros Hc He. exact (conj (Tot_S P delta c out delta0 e0 K j d b t)
                            (E_nonneg P delta c out delta0 e0 Hc He (S K) j d b t)).
Qed.
Print Assumptions C03_order_step.

(** (3) all values non-negative ("finite" is a float notion: checked by the correspondence) *)
Theorem C03_nonneg {T} {O : Ops T} {RL : RingLaws T} {OL : OrderLaws T}
    (P : list (nat * nat)) delta c out delta0 e0 K j d b t :
  (forall i j d b, (0 <= c i j d b)%T) -> (forall j d b, (0 <= e0 j d b)%T) ->
  (0 <= Tot P delta c out delta0 e0 K j d b t)%T.
Proof. intros Hc He. exact (Tot_nonneg P delta c out delta0 e0 Hc He K j d b t). Qed.
Print Assumptions C03_nonneg.

Theorem C03_nonneg_data {T} {O : Ops T} {RL : RingLaws T} {OL : OrderLaws T} {EL : ExpLaws T}
    (sc : @scene T) (s : @source T) i j d b :
  (forall i j, (0 <= ff_full sc i j)%T) -> (forall w a d b, (0 <= beta sc w a d b)%T) ->
  (forall k, (0 <= nthT (src_share s) k)%T) -> src_dirfac s = None ->
  (0 <= tilde_entry sc i j d b)%T /\ (0 <= e0dir_entry sc s i d b)%T.
Proof.
  intros Hf Hb Hs Hd. exact (conj (tilde_nonneg sc Hf Hb i j d b) (e0dir_nonneg sc Hb s i d b Hs Hd)).
Qed.
Print Assumptions C03_nonneg_data.

(** (4) a diffuse BRDF gives the same histograms however many directions it is sampled with *)
Theorem C03_diffuse_sampling_independent {T} {O : Ops T} {RL : RingLaws T}
    (sc sc' : @scene T) rho tm (s s' : @source T) K j d d' b t :
  same_room sc sc' -> diffuse sc rho -> diffuse sc' rho -> wf_scene sc -> wf_scene sc' ->
  src_pos s = src_pos s' -> src_vis s = src_vis s' -> src_share s = src_share s' ->
  src_dirfac s = None -> src_dirfac s' = None ->
  j < s_np sc -> d < s_nd sc -> d' < s_nd sc' -> b < s_nb sc -> t < n_samples tm ->
  get4 (patch_hist sc tm s K) j d b t = get4 (patch_hist sc' tm s' K) j d' b t.
Proof. exact (diffuse_sampling_independent sc sc' rho tm s s' K j d d' b t). Qed.
Print Assumptions C03_diffuse_sampling_independent.

(** (4') a caveat on (4): [diffuse sc rho] quantifies over ALL table indices, and [beta] -- a total
    lookup into nested lists -- returns 0 beyond the end of a table, so the hypothesis only allows
    reflectance 0 in every band (the same trap as [C09_model_diffuse_everywhere_forces_zero]):
    (4) as stated compares two scenes that reflect nothing.  It is kept, and restated in (4'')
    with hypotheses a scene given by lists can meet. *)
From SV Require Import Proofs.DiffuseBounded.
Theorem C03_diffuse_forces_zero {T} {O : Ops T} (sc : @scene T) (rho : nat -> nat -> T) :
  diffuse sc rho -> forall w b, rho w b = 0%T.
Proof.
  intros H w b.
  exact (Proofs.ReciprocityVis.diffuse_everywhere_forces_zero sc b (fun w => rho w b)
           (fun w a d => H w a d b) w).
Qed.
Print Assumptions C03_diffuse_forces_zero.

(** (4'') (4) with the diffuse hypothesis restricted to the IN-RANGE table entries of each scene
    (walls that have a table index, incoming samples below the number of rows of that wall's
    table, outgoing slots below [s_nd], bands below [s_nb]) plus the shape condition that makes
    every lookup land in range (every patch's wall has a table index, a non-empty incoming
    direction set and a table row for each incoming direction).  The two scenes may differ in
    the number of incoming samples, of outgoing slots, and in their direction sets.
    Non-vacuity: [Instances/NonVacuity.v], [C03_diffuse_sampling_independent_bounded_witness]
    (1 x 1 against 2 x 3 directions, reflectances 1/2 and 1/3, non-zero histograms). *)
Theorem C03_diffuse_sampling_independent_bounded {T} {O : Ops T} {RL : RingLaws T}
    (sc sc' : @scene T) rho tm (s s' : @source T) K j d d' b t :
  same_room sc sc' ->
  (forall j, j < s_np sc ->
     wall sc j < length (s_tidx sc) /\ in_dirs sc (wall sc j) <> [] /\
     length (in_dirs sc (wall sc j)) <= length (nthl (s_tables sc) (nthn (s_tidx sc) (wall sc j)))) ->
  (forall j, j < s_np sc' ->
     wall sc' j < length (s_tidx sc') /\ in_dirs sc' (wall sc' j) <> [] /\
     length (in_dirs sc' (wall sc' j)) <= length (nthl (s_tables sc') (nthn (s_tidx sc') (wall sc' j)))) ->
  (forall w a d b, w < length (s_tidx sc) -> a < length (nthl (s_tables sc) (nthn (s_tidx sc) w)) ->
     d < s_nd sc -> b < s_nb sc -> beta sc w a d b = rho w b) ->
  (forall w a d b, w < length (s_tidx sc') -> a < length (nthl (s_tables sc') (nthn (s_tidx sc') w)) ->
     d < s_nd sc' -> b < s_nb sc' -> beta sc' w a d b = rho w b) ->
  wf_scene sc -> wf_scene sc' ->
  src_pos s = src_pos s' -> src_vis s = src_vis s' -> src_share s = src_share s' ->
  src_dirfac s = None -> src_dirfac s' = None ->
  j < s_np sc -> d < s_nd sc -> d' < s_nd sc' -> b < s_nb sc -> t < n_samples tm ->
  get4 (patch_hist sc tm s K) j d b t = get4 (patch_hist sc' tm s' K) j d' b t.
Proof. exact (diffuse_sampling_independent_bounded sc sc' rho tm s s' K j d d' b t). Qed.
Print Assumptions C03_diffuse_sampling_independent_bounded.

(** ... and with the diffuse hypothesis asked only of the entries the two models READ: the
    incoming sample selected for each visible pair and for each patch the source sees, every
    outgoing slot and band in range *)
Theorem C03_diffuse_sampling_independent_vis {T} {O : Ops T} {RL : RingLaws T}
    (sc sc' : @scene T) rho tm (s s' : @source T) K j d d' b t :
  same_room sc sc' ->
  (forall i j d b, i < s_np sc -> j < s_np sc -> vis_sym sc i j = true -> d < s_nd sc -> b < s_nb sc ->
     beta sc (wall sc j) (in_index sc i j) d b = rho (wall sc j) b) ->
  (forall i j d b, i < s_np sc' -> j < s_np sc' -> vis_sym sc' i j = true -> d < s_nd sc' -> b < s_nb sc' ->
     beta sc' (wall sc' j) (in_index sc' i j) d b = rho (wall sc' j) b) ->
  (forall i d b, i < s_np sc -> nthb (src_vis s) i = true -> d < s_nd sc -> b < s_nb sc ->
     beta sc (wall sc i) (src_in_index sc s i) d b = rho (wall sc i) b) ->
  (forall i d b, i < s_np sc' -> nthb (src_vis s') i = true -> d < s_nd sc' -> b < s_nb sc' ->
     beta sc' (wall sc' i) (src_in_index sc' s' i) d b = rho (wall sc' i) b) ->
  wf_scene sc -> wf_scene sc' ->
  src_pos s = src_pos s' -> src_vis s = src_vis s' -> src_share s = src_share s' ->
  src_dirfac s = None -> src_dirfac s' = None ->
  j < s_np sc -> d < s_nd sc -> d' < s_nd sc' -> b < s_nb sc -> t < n_samples tm ->
  get4 (patch_hist sc tm s K) j d b t = get4 (patch_hist sc' tm s' K) j d' b t.
Proof. exact (diffuse_sampling_independent_vis sc sc' rho tm s s' K j d d' b t). Qed.
Print Assumptions C03_diffuse_sampling_independent_vis.

(** (5) "fed only with the scene description": for EVERY room given by its wall polygons, patch
    size, BRDF tables/direction sets and attenuation, the histograms that the composed model
    (tiling, centroids, areas, patch visibility, pair list, form factors, wall frames, point
    visibility and solid-angle shares, baking, exchange -- Model/Full.v) computes are that
    recursion; two patches exchange energy iff their centroids are in line of sight of every patch
    surface; a hidden patch gets exactly nothing from the source. *)
From SV Require Import Model.Frame Model.Tiling Model.Visibility Model.Stokes Model.PtSolution Model.Full
  Proofs.FullProofs.
Theorem C03_from_polygons {T} {O : Ops T} {RL : RingLaws T} (rm : @room T) tm src K j d b t :
  rm_ref_out rm <> [] ->
  j < s_np (room_scene rm) -> d < s_nd (room_scene rm) -> b < s_nb (room_scene rm) -> t < n_samples tm ->
  get4 (patch_hist (room_scene rm) tm (room_source rm src) K) j d b t =
  Tot (directed (vis_pairs (room_scene rm))) (scene_delta (room_scene rm) tm) (tilde_entry (room_scene rm))
      (out_index (room_scene rm)) (scene_delta0 (room_scene rm) tm (room_source rm src))
      (e0dir_entry (room_scene rm) (room_source rm src)) K j d b t.
Proof. intros H. exact (room_hist_is_recursion rm H tm src K j d b t). Qed.
Print Assumptions C03_from_polygons.

Theorem C03_pairs_line_of_sight {T} {O : Ops T} (rm : @room T) i j :
  i < j -> j < rm_np rm ->
  vis_sym (room_scene rm) i j =
  visible_all (rm_eps rm) (rm_eta rm) (rm_patch_surfs rm) (nthv (rm_centers rm) i) (nthv (rm_centers rm) j).
Proof. exact (room_pairs_are_line_of_sight rm i j). Qed.
Print Assumptions C03_pairs_line_of_sight.

Theorem C03_hidden_zero {T} {O : Ops T} (rm : @room T) src j b :
  nthb (room_point_vis rm src) j = false -> energy0 (room_scene rm) (room_source rm src) j b = 0%T.
Proof. exact (room_hidden_zero rm src j b). Qed.
Print Assumptions C03_hidden_zero.
