(** C07 -- Visibility is geometric line of sight.
    Only theorem statements, each closed by [exact].  [eps] is the [epsilon] of
    [_project_to_plane], [eta] the [eta] of [_point_in_polygon] / [_basic_visibility]
    (both 1e-6 in /repo; inputs of the model). *)
From Coq Require Import List Arith Bool.
Import ListNotations.
From Coq Require Import QArith Qcanon.
From SV Require Import Base.Ops Base.Arr Model.Vec3 Model.Scene Model.Visibility Model.Tiling Model.Full
  Spec.VisibilitySpec Proofs.VisibilityScan Proofs.VisibilitySym Proofs.VisibilitySegment
  Proofs.PipRect Proofs.PipRectSurface Proofs.PipGeneral Proofs.PipTriangle
  Proofs.TilingProofs Proofs.FullProofs Proofs.FullVisibility Proofs.FullShoebox
  Instances.VisibilityQc Instances.PipRectQc.
Close Scope Qc_scope.
Close Scope Q_scope.

(** (1) C07_scan.  The loop [while visible and surfid != n: visible = _basic_visibility(..,
    surf[surfid]); surfid += 1] started on True is the conjunction over all surfaces ... *)
Theorem C07_scan_loop {T} {O : Ops T} (eps eta : T) p q (visible : bool) (surfs : list surface) :
  scan_while eps eta p q visible surfs
  = visible && forallb (basic_visibility eps eta p q) surfs.
Proof. exact (scan_while_spec eps eta p q visible surfs). Qed.
Print Assumptions C07_scan_loop.

(** ... so the point-to-patch vector is that conjunction for every patch centre ... *)
Theorem C07_scan_point {T} {O : Ops T} (eps eta : T) pnt centers (surfs : list surface) :
  check_point2patch eps eta pnt centers surfs
  = map (fun c => forallb (basic_visibility eps eta pnt c) surfs) centers.
Proof. exact (check_point2patch_spec eps eta pnt centers surfs). Qed.
Print Assumptions C07_scan_point.

(** ... and the patch matrix is exactly the strict upper triangle of the relation:
    every entry with i >= j (or out of range) is false. *)
Theorem C07_scan_patch {T} {O : Ops T} (eps eta : T) centers (surfs : list surface) i j :
  get2b (check_patch2patch eps eta centers surfs) i j
  = (i <? j) && (j <? length centers)
    && forallb (basic_visibility eps eta (nthv centers i) (nthv centers j)) surfs.
Proof. exact (check_patch2patch_entry eps eta centers surfs i j). Qed.
Print Assumptions C07_scan_patch.

(** the relation used by the pipeline reads the triangle in both directions: symmetric by
    construction, whatever the matrix holds ... *)
Theorem C07_scan_vis_sym {T} {O : Ops T} (sc : @scene T) i j :
  i <> j -> vis_sym sc i j = vis_sym sc j i.
Proof. exact (vis_sym_swap sc i j). Qed.
Print Assumptions C07_scan_vis_sym.

(** ... and [visible_patches] of [bake_geometry] lists exactly the pairs i < j in line of sight *)
Theorem C07_scan_pairs {T} {O : Ops T} (eps eta : T) (sc : @scene T) centers (surfs : list surface) i j :
  s_visU sc = check_patch2patch eps eta centers surfs -> s_np sc = length centers ->
  (In (i, j) (vis_pairs sc) <->
   i < j /\ j < length centers /\
   forallb (basic_visibility eps eta (nthv centers i) (nthv centers j)) surfs = true).
Proof. exact (vis_pairs_of_scan eps eta sc centers surfs i j). Qed.
Print Assumptions C07_scan_pairs.

(** (2) C07_symmetric (ordered field, |.| laws).  Condition on the gate: 0 <= epsilon, so that an
    open gate |dot(q-p,n)| > epsilon -- itself symmetric in p, q -- implies a non-zero
    denominator.  The intersection of the line pq with the plane is the same point ... *)
Theorem C07_symmetric_point {T} {O : Ops T} {RL : RingLaws T} {OL : OrderLaws T} {FL : FieldLaws T}
    {AL : AbsLaws T} (eps : T) (p q s0 n : @vec T) :
  (0 <= eps)%T ->
  project_to_plane false eps p q s0 n = project_to_plane false eps q p s0 n.
Proof. exact (project_to_plane_sym eps p q s0 n). Qed.
Print Assumptions C07_symmetric_point.

(** ... and the whole four-way branch gives the same answer for both orders. *)
Theorem C07_symmetric {T} {O : Ops T} {RL : RingLaws T} {OL : OrderLaws T} {FL : FieldLaws T}
    {AL : AbsLaws T} (eps eta : T) (p q : @vec T) (s : surface) :
  (0 <= eps)%T -> basic_visibility eps eta p q s = basic_visibility eps eta q p s.
Proof. exact (basic_visibility_sym eps eta p q s). Qed.
Print Assumptions C07_symmetric.

(** Hence the pipeline's relation between two different patches IS the line-of-sight
    conjunction between their centres, in whichever order they are named. *)
Theorem C07_symmetric_relation {T} {O : Ops T} {RL : RingLaws T} {OL : OrderLaws T} {FL : FieldLaws T}
    {AL : AbsLaws T} (eps eta : T) (sc : @scene T) centers (surfs : list surface) i j :
  (0 <= eps)%T -> s_visU sc = check_patch2patch eps eta centers surfs ->
  i <> j -> i < length centers -> j < length centers ->
  vis_sym sc i j = forallb (basic_visibility eps eta (nthv centers i) (nthv centers j)) surfs.
Proof. exact (vis_sym_line_of_sight eps eta sc centers surfs i j). Qed.
Print Assumptions C07_symmetric_relation.

(** (3) C07_segment_logic -- CONDITIONAL on [pip_correct_at]: [point_in_polygon] decides
    membership in the closed polygon ([inpoly], a parameter) at the points it is asked about.
    [side_of s x] = dot(x - s_0, n) is the signed distance from the plane (times |n|);
    [seg_meets] = some point strictly between p and q lies in the plane and in the polygon.

    (a) endpoints off the plane (further than eta -- so neither is 'in the surface' -- and than
    epsilon -- so a crossing segment passes the gate): hidden <-> the open segment meets S. *)
Theorem C07_segment_logic {T} {O : Ops T} {RL : RingLaws T} {OL : OrderLaws T} {FL : FieldLaws T}
    {AL : AbsLaws T} (eps eta : T) (inpoly : @vec T -> Prop) (s : surface) (p q : @vec T) :
  (0 <= eps)%T ->
  (eps < tabs (side_of s p))%T -> (eta < tabs (side_of s p))%T -> (eta < tabs (side_of s q))%T ->
  (forall t : T, on_plane s (lerp p q t) -> pip_correct_at eps eta inpoly s (lerp p q t)) ->
  (basic_visibility eps eta p q s = false <-> seg_meets inpoly s p q).
Proof. exact (basic_visibility_off_plane eps eta inpoly s p q). Qed.
Print Assumptions C07_segment_logic.

(** (b) one endpoint in the surface, the other off the plane: hidden <-> the other end is
    behind the surface, dot(n, other - this) < 0 -- for either order of the arguments. *)
Theorem C07_segment_logic_endpoint {T} {O : Ops T} {RL : RingLaws T} {OL : OrderLaws T}
    {FL : FieldLaws T} {AL : AbsLaws T} (eps eta : T) (inpoly : @vec T -> Prop) (s : surface)
    (this other : @vec T) :
  inpoly this -> pip_correct_at eps eta inpoly s this -> (eta < tabs (side_of s other))%T ->
  (basic_visibility eps eta this other s = false <-> (vdot (s_nrm s) (vsub other this) < 0)%T) /\
  (basic_visibility eps eta other this s = false <-> (vdot (s_nrm s) (vsub other this) < 0)%T).
Proof. exact (basic_visibility_on_surface eps eta inpoly s this other). Qed.
Print Assumptions C07_segment_logic_endpoint.

(** (c) both within eta of the plane and one of them in the surface: hidden (coplanar). *)
Theorem C07_segment_logic_coplanar {T} {O : Ops T} {RL : RingLaws T} {OL : OrderLaws T}
    {FL : FieldLaws T} {AL : AbsLaws T} (eps eta : T) (inpoly : @vec T -> Prop) (s : surface)
    (p q : @vec T) :
  (tabs (side_of s p) < eta)%T -> (tabs (side_of s q) < eta)%T ->
  pip_correct_at eps eta inpoly s p -> pip_correct_at eps eta inpoly s q ->
  inpoly p \/ inpoly q ->
  basic_visibility eps eta p q s = false.
Proof. exact (basic_visibility_coplanar eps eta inpoly s p q). Qed.
Print Assumptions C07_segment_logic_coplanar.

(** (4) C07_partial.  For a GENERAL polygon only the coplanarity gate of [pip_correct] is proved:
    a point further than eta from the plane is never reported inside.  The correctness of the
    winding count itself (rotation to the horizontal plane incl. the special cases of
    [_rotation_matrix], the epsilon gate for sides parallel to the ray, the eta on-segment test)
    is proved for axis-aligned rectangular surfaces only -- (5), (6) below; for general convex
    polygons and rotated surfaces it is NOT proved (NOT_CARRIED in harness/props/C07.py) and is
    validated against an exact-rational half-plane oracle on every run ... *)
Theorem C07_partial {T} {O : Ops T} {RL : RingLaws T} {OL : OrderLaws T} {FL : FieldLaws T}
    {AL : AbsLaws T} (eps eta : T) (s : surface) (x : @vec T) :
  (eta < tabs (side_of s x))%T -> point_in_polygon eps eta x (s_pts s) (s_nrm s) = false.
Proof. exact (pip_off_plane eps eta s x). Qed.
Print Assumptions C07_partial.

(** ... and as a statement about ALL in-plane points it is FALSE in the faithful model: over
    the rationals, with the triangle (0,0,0) (4,3,0) (0,6,0) in the plane z = 0 and
    epsilon = eta = 1e-6, the point (-1,3,0) -- at least 1 to the left of every vertex -- is
    reported inside, and the segment (-1,3,1)-(-1,3,-1), which misses the triangle by 1, is
    reported hidden.  (/repo behaves the same: finding ray_through_vertex.) *)
Theorem C07_pip_correct_refuted :
  exists (poly : list (@vec Qc)) (n x p q : @vec Qc),
    point_in_polygon e6 e6 x poly n = true /\
    (forall v, In v poly -> (vx x + 1 <= vx v)%T) /\
    x = lerp p q (vqc 1 2) /\
    basic_visibility e6 e6 p q (poly, n) = false.
Proof. exact pip_correct_refuted_witness. Qed.
Print Assumptions C07_pip_correct_refuted.

(** (5) C07_pip_correct_rect -- [pip_correct_at] PROVED for the surfaces of shoebox rooms.
    An axis-aligned rectangular surface [r : rect]: orthogonal to the axis [r_axis r] (x, y or z) at
    position [r_c r], normal + or - the unit vector of that axis ([r_up r]), spanned in the in-plane
    coordinates (u, v) by the opposite corners (ua, va), (ub, vb) (in either order: ua <> ub,
    va <> vb, [rect_wf]) and listed starting at (ua, va) towards (ua, vb) or towards (ub, va)
    ([r_vfirst r]) -- the 6 orientations x 8 vertex orders.  [in_rect r] is the open rectangle
    (strictly between the corners in u and in v), [in_rect_closed r] the closed one,
    [off_bands m r x]: x is farther than m from the four edge lines.

    Needs sqrt: [SqrtLaws] (sqrt x >= 0 and sqrt x ^2 = x for x >= 0, |.|).  Tolerances:
    0 <= epsilon < 1 (a side parallel to the ray is skipped because 0 <= epsilon, a side
    orthogonal to it has a unit normal and passes the gate because epsilon < 1), 0 <= eta, and
    the margin m with eta <= 2 m: the on-segment test | |b-a0| + |b-a1| - |a1-a0| | <= eta
    accepts exactly the points within eta/2 of the side, so eta/2 is the smallest margin
    (C07_pip_rect_margin_sharp); m = eta, and the property's 1 mm, qualify. *)
Theorem C07_pip_correct_rect {T} {O : Ops T} {RL : RingLaws T} {OL : OrderLaws T} {FL : FieldLaws T}
    {SL : SqrtLaws T} (eps eta m : T) (r : rect) (x : @vec T) :
  (0 <= eps)%T -> (eps < 1)%T -> (0 <= eta)%T -> (eta <= m + m)%T -> rect_wf r ->
  (tabs (side_of (rect_surface r) x) <= eta)%T -> off_bands m r x ->
  pip_correct_at eps eta (in_rect r) (rect_surface r) x.
Proof. exact (pip_correct_rect eps eta m r x). Qed.
Print Assumptions C07_pip_correct_rect.

(** ... likewise for the closed rectangle (off the bands the two coincide) *)
Theorem C07_pip_correct_rect_closed {T} {O : Ops T} {RL : RingLaws T} {OL : OrderLaws T}
    {FL : FieldLaws T} {SL : SqrtLaws T} (eps eta m : T) (r : rect) (x : @vec T) :
  (0 <= eps)%T -> (eps < 1)%T -> (0 <= eta)%T -> (eta <= m + m)%T -> rect_wf r ->
  (tabs (side_of (rect_surface r) x) <= eta)%T -> off_bands m r x ->
  pip_correct_at eps eta (in_rect_closed r) (rect_surface r) x.
Proof. exact (pip_correct_rect_closed eps eta m r x). Qed.
Print Assumptions C07_pip_correct_rect_closed.

(** ... and spelled out for a floor / ceiling: the rectangle [x0,x1] x [y0,y1] at height z with
    normal (0,0,+1) or (0,0,-1) ([sgn up]), in each of its 8 vertex orders ([rect_orders8]) *)
Theorem C07_pip_correct_rect_horizontal {T} {O : Ops T} {RL : RingLaws T} {OL : OrderLaws T}
    {FL : FieldLaws T} {SL : SqrtLaws T} (eps eta m x0 x1 y0 y1 z : T) (up : bool)
    (poly : list (@vec T)) (x : @vec T) :
  (0 <= eps)%T -> (eps < 1)%T -> (0 <= eta)%T -> (eta <= m + m)%T ->
  (x0 < x1)%T -> (y0 < y1)%T -> In poly (rect_orders8 x0 x1 y0 y1 z) ->
  (tabs (vz x - z) <= eta)%T ->
  (m < tabs (vx x - x0))%T -> (m < tabs (vx x - x1))%T ->
  (m < tabs (vy x - y0))%T -> (m < tabs (vy x - y1))%T ->
  (point_in_polygon eps eta x poly (mkv 0 0 (sgn up))%T = true
   <-> ((x0 < vx x)%T /\ (vx x < x1)%T) /\ ((y0 < vy x)%T /\ (vy x < y1)%T)).
Proof. exact (pip_horizontal_rect eps eta m x0 x1 y0 y1 z up poly x). Qed.
Print Assumptions C07_pip_correct_rect_horizontal.

(** (6) C07_segment_logic_rect -- the segment logic (3) for shoebox surfaces WITHOUT the
    [pip_correct_at] hypothesis.
    (a) endpoints farther than eta (and p than epsilon) from the plane, and the point where the
    line pq crosses the plane (if any) farther than m from the four edge lines:
    hidden <-> the open segment meets the rectangle. *)
Theorem C07_segment_logic_rect {T} {O : Ops T} {RL : RingLaws T} {OL : OrderLaws T}
    {FL : FieldLaws T} {SL : SqrtLaws T} (eps eta m : T) (r : rect) (p q : @vec T) :
  (0 <= eps)%T -> (eps < 1)%T -> (0 <= eta)%T -> (eta <= m + m)%T -> rect_wf r ->
  (eps < tabs (side_of (rect_surface r) p))%T ->
  (eta < tabs (side_of (rect_surface r) p))%T -> (eta < tabs (side_of (rect_surface r) q))%T ->
  (forall t : T, on_plane (rect_surface r) (lerp p q t) -> off_bands m r (lerp p q t)) ->
  (basic_visibility eps eta p q (rect_surface r) = false
   <-> seg_meets (in_rect r) (rect_surface r) p q).
Proof. exact (segment_logic_rect eps eta m r p q). Qed.
Print Assumptions C07_segment_logic_rect.

(** (b) one endpoint in the rectangle, the other off the plane: hidden <-> the other end is behind *)
Theorem C07_segment_logic_rect_endpoint {T} {O : Ops T} {RL : RingLaws T} {OL : OrderLaws T}
    {FL : FieldLaws T} {SL : SqrtLaws T} (eps eta m : T) (r : rect) (this other : @vec T) :
  (0 <= eps)%T -> (eps < 1)%T -> (0 <= eta)%T -> (eta <= m + m)%T -> rect_wf r ->
  (tabs (side_of (rect_surface r) this) <= eta)%T -> off_bands m r this -> in_rect r this ->
  (eta < tabs (side_of (rect_surface r) other))%T ->
  (basic_visibility eps eta this other (rect_surface r) = false
   <-> (vdot (s_nrm (rect_surface r)) (vsub other this) < 0)%T) /\
  (basic_visibility eps eta other this (rect_surface r) = false
   <-> (vdot (s_nrm (rect_surface r)) (vsub other this) < 0)%T).
Proof. exact (segment_logic_rect_endpoint eps eta m r this other). Qed.
Print Assumptions C07_segment_logic_rect_endpoint.

(** (c) both within eta of the plane, off the bands, one of them in the rectangle: hidden *)
Theorem C07_segment_logic_rect_coplanar {T} {O : Ops T} {RL : RingLaws T} {OL : OrderLaws T}
    {FL : FieldLaws T} {SL : SqrtLaws T} (eps eta m : T) (r : rect) (p q : @vec T) :
  (0 <= eps)%T -> (eps < 1)%T -> (0 <= eta)%T -> (eta <= m + m)%T -> rect_wf r ->
  (tabs (side_of (rect_surface r) p) < eta)%T -> (tabs (side_of (rect_surface r) q) < eta)%T ->
  off_bands m r p -> off_bands m r q -> in_rect r p \/ in_rect r q ->
  basic_visibility eps eta p q (rect_surface r) = false.
Proof. exact (segment_logic_rect_coplanar eps eta m r p q). Qed.
Print Assumptions C07_segment_logic_rect_coplanar.

(** (7) The margin is sharp and the bands are not empty of errors (exact computation over Qc,
    unit-square floor, epsilon = eta = 1e-6): the point (1/2, 1 + eta/2, 0) is in the plane,
    OUTSIDE the closed rectangle, exactly eta/2 from the edge line v = 1 -- and reported inside ... *)
Theorem C07_pip_rect_margin_sharp :
  pip e6 e6 (rect_surface unit_floor) just_outside = true /\
  ~ in_rect_closed unit_floor just_outside /\
  on_plane (rect_surface unit_floor) just_outside /\
  (let d := tabs (vcoord AxZ just_outside - r_vb unit_floor)%T in (d + d <= e6)%T /\ (e6 <= d + d)%T).
Proof. exact margin_sharp_witness. Qed.
Print Assumptions C07_pip_rect_margin_sharp.

(** ... and on the two edge lines orthogonal to the ray the test is half-open (the comparison
    b.x > pt.x is strict): (1, 1/2, 0) on the edge u = 1 is reported outside, (0, 1/2, 0) on the
    edge u = 0 inside.  (/repo behaves the same; inside the property's 1 mm clearance.) *)
Theorem C07_pip_rect_edge_half_open :
  in_rect_closed unit_floor (vqc 1 1, vqc 1 2, vqc 0 1) /\
  pip e6 e6 (rect_surface unit_floor) (vqc 1 1, vqc 1 2, vqc 0 1) = false /\
  in_rect_closed unit_floor (vqc 0 1, vqc 1 2, vqc 0 1) /\
  pip e6 e6 (rect_surface unit_floor) (vqc 0 1, vqc 1 2, vqc 0 1) = true.
Proof. exact right_edge_excluded_witness. Qed.
Print Assumptions C07_pip_rect_edge_half_open.

(** (8) General position: the tolerances drop out.  For ANY polygon [poly2] in the horizontal plane
    (z = 0) and a point [pt] such that for every side (a0, a1) ([side_gp]): both end points are
    farther than dl (eta <= 2 dl) from the ray's line y = pt.y, a0 <> a1, and -- if the side
    crosses that line -- epsilon |a1 - a0| < |a1.y - a0.y| (steeper than the epsilon gate; a
    flatter crossing side is skipped by the code, which then reports interior points of sliver
    polygons outside): the winding count of the model is the signed crossing number
    [crossing_number], which uses comparisons and ring operations only:
    -1 for a side crossing the line upwards with pt strictly to its left, +1 for a side crossing
    it downwards with pt strictly to its right, 0 otherwise. *)
Theorem C07_winding_general_position {T} {O : Ops T} {RL : RingLaws T} {OL : OrderLaws T}
    {FL : FieldLaws T} {SL : SqrtLaws T} (eps eta dl : T) (pt : @vec T) (poly2 : list (@vec T)) :
  (0 <= eps)%T -> (0 <= eta)%T -> (eta <= dl + dl)%T ->
  vz pt = 0%T -> (forall v, In v poly2 -> vz v = 0%T) ->
  (forall s, In s (sides poly2) -> side_gp eps dl pt s) ->
  winding eps eta pt poly2 = crossing_number pt poly2.
Proof. exact (winding_general_position eps eta dl pt poly2). Qed.
Print Assumptions C07_winding_general_position.

(** ... so for a polygon in a plane orthogonal to a coordinate axis (unit normal, any of the six)
    [point_in_polygon] is "crossing number <> 0" of the rotated and flattened data
    ([proj2d ax up] = [flat] after [rotation_to_z]) *)
Theorem C07_pip_general_position {T} {O : Ops T} {RL : RingLaws T} {OL : OrderLaws T}
    {FL : FieldLaws T} {SL : SqrtLaws T} (eps eta dl : T) (p : @vec T) (poly : list (@vec T))
    (ax : axis) (up : bool) :
  (0 <= eps)%T -> (0 <= eta)%T -> (eta <= dl + dl)%T ->
  (tabs (vdot (vsub p (nthv poly 0)) (axis_normal ax up)) <= eta)%T ->
  (forall s, In s (sides (map (proj2d ax up) poly)) -> side_gp eps dl (proj2d ax up p) s) ->
  point_in_polygon eps eta p poly (axis_normal ax up)
  = negb (Z.eqb (crossing_number (proj2d ax up p) (map (proj2d ax up) poly)) 0%Z).
Proof. exact (pip_general_position eps eta dl p poly ax up). Qed.
Print Assumptions C07_pip_general_position.

(** (9) Triangles.  The crossing number of a non-degenerate triangle is non-zero exactly for the
    points strictly inside (on the same side of all three sides; it is -1 for a counter-clockwise
    and +1 for a clockwise triangle), for every point on none of the side lines whose ray line
    passes through no vertex -- ordered ring only ... *)
Theorem C07_crossing_triangle {T} {O : Ops T} {RL : RingLaws T} {OL : OrderLaws T}
    (pt A B C : @vec T) :
  vy A <> vy pt -> vy B <> vy pt -> vy C <> vy pt ->
  cross2 A B pt <> 0%T -> cross2 B C pt <> 0%T -> cross2 C A pt <> 0%T -> cross2 A B C <> 0%T ->
  (crossing_number pt [A; B; C] <> 0%Z <-> inside_tri A B C pt).
Proof. exact (crossing_triangle pt A B C). Qed.
Print Assumptions C07_crossing_triangle.

(** ... hence [pip_correct_at] for triangles on axis planes in general position ([tri_gp]: the
    three sides satisfy [side_gp], the point is on no side line, the triangle is not degenerate) *)
Theorem C07_pip_correct_triangle {T} {O : Ops T} {RL : RingLaws T} {OL : OrderLaws T}
    {FL : FieldLaws T} {SL : SqrtLaws T} (eps eta dl : T) (P0 P1 P2 p : @vec T) (ax : axis) (up : bool) :
  (0 <= eps)%T -> (0 <= eta)%T -> (eta <= dl + dl)%T ->
  (tabs (side_of ([P0; P1; P2], axis_normal ax up) p) <= eta)%T ->
  tri_gp eps dl (proj2d ax up P0) (proj2d ax up P1) (proj2d ax up P2) (proj2d ax up p) ->
  pip_correct_at eps eta
    (fun x => inside_tri (proj2d ax up P0) (proj2d ax up P1) (proj2d ax up P2) (proj2d ax up x))
    ([P0; P1; P2], axis_normal ax up) p.
Proof. exact (pip_correct_triangle eps eta dl P0 P1 P2 p ax up). Qed.
Print Assumptions C07_pip_correct_triangle.

(** (10) C07_room_visibility_geometric -- the COMPOSED model (Model/Full.v: polygons -> tiling ->
    patch visibility -> ... -> receiver curve).  Vocabulary (Proofs/FullVisibility.v), for an
    axis-aligned rectangle [r], its surface s = [rect_surface r] and two points p, q:

    [pt_off eps eta r x]: |side_of s x| > eps and > eta (x is off the plane of r);
    [pt_on m r x]: x lies in the plane of r ([on_plane]) farther than m from its four edge lines;
    [gen_pos eps eta m r p q] (general position of the pair with respect to r), one of:
      p, q both [pt_off] and every point of the line pq in the plane of r is [off_bands m r];
      p [pt_on], q [pt_off];   p [pt_off], q [pt_on];   p, q both [pt_on];
    [blocked r p q] (r hides q from p; exact geometry, no tolerance occurs), one of:
      (i)   neither p nor q in the plane and the OPEN segment pq meets the OPEN rectangle ([seg_meets]);
      (ii)  p in the plane and in the rectangle, q off the plane and behind the one-sided surface:
            dot(n, q - p) < 0;
      (iii) the same with p and q exchanged;
      (iv)  p and q both in the plane and one of them in the rectangle (coplanar).

    (10a) one rectangle: in general position the four-way branch of [_basic_visibility] returns False
    exactly when the rectangle blocks.  This covers, besides (6a)-(6c), the two configurations that
    occur for every other patch of the same wall: an end point in the plane of r but OUTSIDE r, with the
    other end off the plane or in it -- never hidden.  Needs 0 < eta (with eta = 0 the coplanar test
    |.| < eta of the code can never succeed). *)
Theorem C07_blocked_iff_rect {T} {O : Ops T} {RL : RingLaws T} {OL : OrderLaws T} {FL : FieldLaws T}
    {SL : SqrtLaws T} (eps eta m : T) (r : rect) (p q : @vec T) :
  (0 <= eps)%T -> (eps < 1)%T -> (0 < eta)%T -> (eta <= m + m)%T ->
  rect_wf r -> gen_pos eps eta m r p q ->
  (basic_visibility eps eta p q (rect_surface r) = false <-> blocked r p q).
Proof. exact (fun He He1 Heta Hm => blocked_iff_rect eps eta m He He1 Heta Hm r p q). Qed.
Print Assumptions C07_blocked_iff_rect.

(** (10b) the room.  [rects_of surfs rs]: [rs] lists, patch by patch, a well-formed axis-aligned
    rectangle whose [rect_surface] IS the patch surface (polygon and normal) of the composed model.
    For two patches i < j whose centroids are in general position with respect to every patch
    rectangle: the relation the energy exchange uses, [vis_sym (room_scene rm) i j], holds iff NO
    patch rectangle blocks the segment between the two centroids. *)
Theorem C07_room_visibility_geometric {T} {O : Ops T} {RL : RingLaws T} {OL : OrderLaws T}
    {FL : FieldLaws T} {SL : SqrtLaws T} (rm : @room T) (rs : list (@rect T)) (m : T) (i j : nat) :
  (0 <= rm_eps rm)%T -> (rm_eps rm < 1)%T -> (0 < rm_eta rm)%T -> (rm_eta rm <= m + m)%T ->
  rects_of (rm_patch_surfs rm) rs ->
  i < j -> j < rm_np rm ->
  (forall r, In r rs ->
     gen_pos (rm_eps rm) (rm_eta rm) m r (nthv (rm_centers rm) i) (nthv (rm_centers rm) j)) ->
  (vis_sym (room_scene rm) i j = true <->
   forall r, In r rs -> ~ blocked r (nthv (rm_centers rm) i) (nthv (rm_centers rm) j)).
Proof.
  exact (fun He He1 Heta Hm Hrs => room_visibility_geometric rm rs m He He1 Heta Hm Hrs i j).
Qed.
Print Assumptions C07_room_visibility_geometric.

(** (10c) the rectangle hypothesis is a THEOREM for shoebox-like rooms.  [axis_walls rm]: every wall
    lies in an axis plane and is at least one patch wide in both in-plane directions ([wall_ok], the
    domain of C08) and its normal is + or - the unit vector of its flat axis.  Then every patch
    surface of the composed model (tiling cell + inherited wall normal) is a well-formed axis-aligned
    rectangle ... *)
Theorem C07_room_patches_are_rects {T} {O : Ops T} {RL : RingLaws T} {OL : OrderLaws T}
    {FL : FieldLaws T} {FlL : FloorLaws T} {SL : SqrtLaws T} (rm : @room T) :
  axis_walls rm -> exists rs, rects_of (rm_patch_surfs rm) rs.
Proof. exact (room_patches_are_rects rm). Qed.
Print Assumptions C07_room_patches_are_rects.

(** ... and (10b) holds for such rooms with no hypothesis on the patch surfaces *)
Theorem C07_room_visibility_geometric_shoebox {T} {O : Ops T} {RL : RingLaws T} {OL : OrderLaws T}
    {FL : FieldLaws T} {FlL : FloorLaws T} {SL : SqrtLaws T} (rm : @room T) (m : T) :
  (0 <= rm_eps rm)%T -> (rm_eps rm < 1)%T -> (0 < rm_eta rm)%T -> (rm_eta rm <= m + m)%T ->
  axis_walls rm ->
  exists rs, rects_of (rm_patch_surfs rm) rs /\
    forall i j, i < j -> j < rm_np rm ->
      (forall r, In r rs ->
         gen_pos (rm_eps rm) (rm_eta rm) m r (nthv (rm_centers rm) i) (nthv (rm_centers rm) j)) ->
      (vis_sym (room_scene rm) i j = true <->
       forall r, In r rs -> ~ blocked r (nthv (rm_centers rm) i) (nthv (rm_centers rm) j)).
Proof. exact (room_visibility_geometric_shoebox rm m). Qed.
Print Assumptions C07_room_visibility_geometric_shoebox.

(** (10d) the clauses of [gen_pos] that concern a patch's OWN rectangle are theorems about the
    centroid the model computes ([np.sum(points, axis=-2) / 4], [Vec3.centroid]): it lies exactly in
    the plane of its rectangle, strictly inside it, and farther than m from its four edge lines
    whenever both sides of the rectangle exceed 2 m ... *)
Theorem C07_rect_own_centroid {T} {O : Ops T} {RL : RingLaws T} {OL : OrderLaws T} {FL : FieldLaws T}
    {FlL : FloorLaws T} {SL : SqrtLaws T} (m : T) (r : rect) :
  rect_wf r ->
  (m + m < tabs (r_ub r - r_ua r))%T -> (m + m < tabs (r_vb r - r_va r))%T ->
  pt_on m r (centroid (rect_pts r)) /\ in_rect r (centroid (rect_pts r)).
Proof. exact (rect_own_centroid m r). Qed.
Print Assumptions C07_rect_own_centroid.

(** ... and centroid i of the composed room IS the centroid of the i-th patch rectangle *)
Theorem C07_room_center_is_rect_centroid {T} {O : Ops T} {RL : RingLaws T} {OL : OrderLaws T}
    {FL : FieldLaws T} {FlL : FloorLaws T} {SL : SqrtLaws T} (rm : @room T) (rs : list (@rect T)) (i : nat) :
  rects_of (rm_patch_surfs rm) rs -> i < rm_np rm ->
  nthv (rm_centers rm) i = centroid (rect_pts (nth i rs drect)).
Proof. exact (fun Hrs => room_center_is_rect_centroid rm rs Hrs i). Qed.
Print Assumptions C07_room_center_is_rect_centroid.

(** (10e) consequences that need NO hypothesis on the other surfaces ([cell_margin m r]: both sides
    of r exceed 2 m).  A patch never exchanges energy with a patch whose centroid is behind it
    (behind patch i, or patch i behind patch j): the own surface blocks ... *)
Theorem C07_room_behind_hidden {T} {O : Ops T} {RL : RingLaws T} {OL : OrderLaws T}
    {FL : FieldLaws T} {FlL : FloorLaws T} {SL : SqrtLaws T} (rm : @room T) (rs : list (@rect T))
    (m : T) (i j : nat) :
  rects_of (rm_patch_surfs rm) rs ->
  (0 <= rm_eps rm)%T -> (rm_eps rm < 1)%T -> (0 < rm_eta rm)%T -> (rm_eta rm <= m + m)%T ->
  i < j -> j < rm_np rm ->
  let ci := nthv (rm_centers rm) i in
  let cj := nthv (rm_centers rm) j in
  let ri := nth i rs drect in
  let rj := nth j rs drect in
  (cell_margin m ri -> (rm_eta rm < tabs (side_of (rect_surface ri) cj))%T ->
   (vdot (s_nrm (rect_surface ri)) (vsub cj ci) < 0)%T -> vis_sym (room_scene rm) i j = false) /\
  (cell_margin m rj -> (rm_eta rm < tabs (side_of (rect_surface rj) ci))%T ->
   (vdot (s_nrm (rect_surface rj)) (vsub ci cj) < 0)%T -> vis_sym (room_scene rm) i j = false).
Proof. exact (fun Hrs He He1 Heta Hm => room_behind_hidden rm rs Hrs m He He1 Heta Hm i j). Qed.
Print Assumptions C07_room_behind_hidden.

(** ... and two patches of the same wall never exchange energy: a centroid in the plane of patch i
    (off its edge bands) is hidden by the coplanar branch *)
Theorem C07_room_coplanar_hidden {T} {O : Ops T} {RL : RingLaws T} {OL : OrderLaws T}
    {FL : FieldLaws T} {FlL : FloorLaws T} {SL : SqrtLaws T} (rm : @room T) (rs : list (@rect T))
    (m : T) (i j : nat) :
  rects_of (rm_patch_surfs rm) rs ->
  (0 <= rm_eps rm)%T -> (rm_eps rm < 1)%T -> (0 < rm_eta rm)%T -> (rm_eta rm <= m + m)%T ->
  i < j -> j < rm_np rm ->
  let cj := nthv (rm_centers rm) j in
  let ri := nth i rs drect in
  cell_margin m ri -> on_plane (rect_surface ri) cj -> off_bands m ri cj ->
  vis_sym (room_scene rm) i j = false.
Proof. exact (fun Hrs He He1 Heta Hm => room_coplanar_hidden rm rs Hrs m He He1 Heta Hm i j). Qed.
Print Assumptions C07_room_coplanar_hidden.

(** (10f) GENUINE SHOEBOX ROOMS: general position is a theorem, visibility in closed form.
    [is_shoebox rm x0 x1 y0 y1 z0 z1] is, literally, the room of
    [sp.testing.shoebox_room_stub] (there x0 = y0 = z0 = 0): the six walls of the box in the stub's
    order and vertex order, inward unit normals, the stub's up vectors, x0 < x1 etc., and a
    positive patch size not larger than any side of the box ... *)
Theorem C07_is_shoebox_unfold {T} {O : Ops T} (rm : @room T) (x0 x1 y0 y1 z0 z1 : T) :
  is_shoebox rm x0 x1 y0 y1 z0 z1 <->
  rm_walls rm =
    [ mkQuad (mkv x0 y0 z0) (mkv x1 y0 z0) (mkv x1 y0 z1) (mkv x0 y0 z1);
      mkQuad (mkv x0 y1 z0) (mkv x1 y1 z0) (mkv x1 y1 z1) (mkv x0 y1 z1);
      mkQuad (mkv x0 y0 z0) (mkv x1 y0 z0) (mkv x1 y1 z0) (mkv x0 y1 z0);
      mkQuad (mkv x0 y0 z1) (mkv x1 y0 z1) (mkv x1 y1 z1) (mkv x0 y1 z1);
      mkQuad (mkv x0 y0 z0) (mkv x0 y0 z1) (mkv x0 y1 z1) (mkv x0 y1 z0);
      mkQuad (mkv x1 y0 z0) (mkv x1 y0 z1) (mkv x1 y1 z1) (mkv x1 y1 z0) ] /\
  rm_normals rm =
    [ mkv 0 1 0; mkv 0 (- (1)) 0; mkv 0 0 1; mkv 0 0 (- (1)); mkv 1 0 0; mkv (- (1)) 0 0 ]%T /\
  rm_ups rm = [ mkv 1 0 0; mkv 1 0 0; mkv 1 0 0; mkv 1 0 0; mkv 0 0 1; mkv 0 0 1 ]%T /\
  (x0 < x1)%T /\ (y0 < y1)%T /\ (z0 < z1)%T /\ (0 < rm_patch_size rm)%T /\
  (rm_patch_size rm <= x1 - x0)%T /\ (rm_patch_size rm <= y1 - y0)%T /\ (rm_patch_size rm <= z1 - z0)%T.
Proof. exact (iff_refl _). Qed.
Print Assumptions C07_is_shoebox_unfold.

(** ... and [sb_tolerances rm]: the tolerances of the code are small against the patch size
    (epsilon = eta = 1e-6 in /repo: any patch size above 2 micrometres).  Every cell side is at
    least the patch size, so a centroid is more than eps and eta away from every grid line and
    every other wall plane. *)
Theorem C07_sb_tolerances_unfold {T} {O : Ops T} (rm : @room T) :
  sb_tolerances rm <->
  (0 <= rm_eps rm)%T /\ (rm_eps rm < 1)%T /\ (0 < rm_eta rm)%T /\
  (rm_eps rm + rm_eps rm < rm_patch_size rm)%T /\ (rm_eta rm + rm_eta rm < rm_patch_size rm)%T.
Proof. exact (iff_refl _). Qed.
Print Assumptions C07_sb_tolerances_unfold.

(** A shoebox room is a room with axis-aligned rectangular walls ([axis_walls], the hypothesis of
    (10c)), with at least one patch per wall ... *)
Theorem C07_shoebox_axis_walls {T} {O : Ops T} {RL : RingLaws T} {OL : OrderLaws T} {FL : FieldLaws T}
    {FlL : FloorLaws T} {SL : SqrtLaws T} (rm : @room T) (x0 x1 y0 y1 z0 z1 : T) :
  is_shoebox rm x0 x1 y0 y1 z0 z1 -> axis_walls rm /\ 6 <= rm_np rm.
Proof.
  exact (fun H => conj (shoebox_axis_walls rm x0 x1 y0 y1 z0 z1 H) (shoebox_np_ge_6 rm x0 x1 y0 y1 z0 z1 H)).
Qed.
Print Assumptions C07_shoebox_axis_walls.

(** ... and the hypothesis [gen_pos] of [C07_room_visibility_geometric] holds for EVERY pair of
    patch centroids and EVERY patch rectangle (margin m with 2 m < patch size): a centroid lies in
    the plane of the cells of its own wall, at least half a cell from each of their edge lines
    (grid lines at lo + k s, centroids at lo + (k + 1/2) s), and strictly on the inner side of the
    five other wall planes, at least half a cell away; the open segment between two such points
    never meets a wall plane. *)
Theorem C07_shoebox_general_position {T} {O : Ops T} {RL : RingLaws T} {OL : OrderLaws T}
    {FL : FieldLaws T} {FlL : FloorLaws T} {SL : SqrtLaws T}
    (rm : @room T) (x0 x1 y0 y1 z0 z1 m : T) :
  is_shoebox rm x0 x1 y0 y1 z0 z1 ->
  (0 < rm_eta rm)%T ->
  (rm_eps rm + rm_eps rm < rm_patch_size rm)%T -> (rm_eta rm + rm_eta rm < rm_patch_size rm)%T ->
  (m + m < rm_patch_size rm)%T ->
  exists rs, rects_of (rm_patch_surfs rm) rs /\
    forall i j, i < rm_np rm -> j < rm_np rm ->
      forall r, In r rs ->
        gen_pos (rm_eps rm) (rm_eta rm) m r (nthv (rm_centers rm) i) (nthv (rm_centers rm) j).
Proof. exact (shoebox_general_position rm x0 x1 y0 y1 z0 z1 m). Qed.
Print Assumptions C07_shoebox_general_position.

(** CLOSED FORM: in a shoebox room two patches exchange energy iff they lie on different walls
    (same wall: the coplanar branch; different walls: no patch rectangle meets the open segment
    or has a centroid behind it). *)
Theorem C07_shoebox_visibility {T} {O : Ops T} {RL : RingLaws T} {OL : OrderLaws T}
    {FL : FieldLaws T} {FlL : FloorLaws T} {SL : SqrtLaws T}
    (rm : @room T) (x0 x1 y0 y1 z0 z1 : T) :
  is_shoebox rm x0 x1 y0 y1 z0 z1 -> sb_tolerances rm ->
  forall i j, i < j -> j < rm_np rm ->
    (vis_sym (room_scene rm) i j = true <-> wall (room_scene rm) i <> wall (room_scene rm) j).
Proof. exact (shoebox_visibility rm x0 x1 y0 y1 z0 z1). Qed.
Print Assumptions C07_shoebox_visibility.

(** POINT VISIBILITY: from a point strictly inside the box -- farther than eps and eta from each of
    the six wall planes: [wside f s pos] is the inward distance from the wall at the lower
    (s = true) / upper (s = false) end of axis f -- every patch is visible
    ([_check_point2patch_visibility] with the six WALL polygons as blockers). *)
Theorem C07_shoebox_point_visibility {T} {O : Ops T} {RL : RingLaws T} {OL : OrderLaws T}
    {FL : FieldLaws T} {FlL : FloorLaws T} {SL : SqrtLaws T}
    (rm : @room T) (x0 x1 y0 y1 z0 z1 : T) (pos : @vec T) :
  is_shoebox rm x0 x1 y0 y1 z0 z1 -> sb_tolerances rm ->
  (forall f s, f < 3 ->
     (rm_eps rm < (if s : bool then vget pos f - sb_lo x0 y0 z0 f else sb_hi x1 y1 z1 f - vget pos f))%T /\
     (rm_eta rm < (if s : bool then vget pos f - sb_lo x0 y0 z0 f else sb_hi x1 y1 z1 f - vget pos f))%T) ->
  (forall k, k < rm_np rm -> nthb (room_point_vis rm pos) k = true) /\
  room_point_vis rm pos = repeat true (rm_np rm).
Proof.
  exact (fun Hsb Htol Hpos =>
           conj (shoebox_point_visibility rm x0 x1 y0 y1 z0 z1 pos Hsb Htol Hpos)
                (shoebox_point_visibility_all rm x0 x1 y0 y1 z0 z1 pos Hsb Htol Hpos)).
Qed.
Print Assumptions C07_shoebox_point_visibility.
