(** C16 -- A baked object can be reused: results depend only on the final configuration.
    Only theorem statements, each closed by [exact].  Model: Model/Object.v (see Properties/C15.v). *)
From Coq Require Import List Arith Bool.
Import ListNotations.
From SV Require Import Model.Object Spec.ObjectSpec Proofs.ObjectProofs Proofs.ObjectThms
  Proofs.ObjectIdem Proofs.ObjectConfig Proofs.ObjectTail Proofs.ObjectTailSim Proofs.ObjectInitIdem Instances.ObjectExamples.

(** The material part of the provenance of form_factors_tilde and energy_init_source depends on the
    table list and brdf_index only through the per-wall resolution: overwritten tables and the order of
    the setter calls do not enter the configuration in force. *)
Theorem C16_final_config_partial (nw : nat) (idx1 idx2 : list nat) (tabs1 tabs2 din : list term) :
  (forall w, w < nw -> resolve idx1 tabs1 w = resolve idx2 tabs2 w) ->
  wall_cfg nw idx1 tabs1 din = wall_cfg nw idx2 tabs2 din.
Proof. exact (wall_cfg_resolve nw idx1 tabs1 idx2 tabs2 din). Qed.
Print Assumptions C16_final_config_partial.

(** Refuted for objects without materials: init_source_energy installs a default BRDF, so repeating
    bake + init_source (same arguments) changes form_factors_tilde and the histogram
    (finding default_install_rebake). *)
Theorem C16_final_config_refuted_default_brdf :
  exists g src tid ns order,
    let t := [OpBake; OpInitSource src; OpExchange tid ns order true] in
    let s1 := orun g (init g) t in
    let s2 := orun g (init g) ([OpBake; OpInitSource src] ++ t) in
    Forall (fun c => c = ROk) (map oclass_of (otrace g (init g) ([OpBake; OpInitSource src] ++ t))) /\
    term_eqb (optv (o_tilde s1)) (optv (o_tilde s2)) = false /\
    term_eqb (optv (o_etc s1)) (optv (o_etc s2)) = false.
Proof. exact default_brdf_refuted. Qed.
Print Assumptions C16_final_config_refuted_default_brdf.

(** Refuted: an overwritten table of another shape stays in the brdf list; bake_geometry then raises
    ValueError although the configuration in force is valid (finding stale_table_shape). *)
Theorem C16_final_config_refuted_stale_table :
  exists g h h',
    map oclass_of (otrace g (init g) h) = [ROk; ROk; ROk; RValue; RValue; RAttribute] /\
    map oclass_of (otrace g (init g) h') = [ROk; ROk; ROk; ROk; ROk] /\
    h = OpSetBrdf all6 7 0 1 1 2 false :: h'.
Proof. exact stale_table_refuted. Qed.
Print Assumptions C16_final_config_refuted_stale_table.

(** Repeating set_air_attenuation with the same arguments leaves the state unchanged. *)
Theorem C16_idempotent_set_att (s : ostate) (aid fid nb : nat) :
  fst (oset_att s aid fid nb) = ROk ->
  oset_att (snd (oset_att s aid fid nb)) aid fid nb = oset_att s aid fid nb.
Proof. exact (set_att_idem s aid fid nb). Qed.
Print Assumptions C16_idempotent_set_att.

(** Refuted frame clause: after from_dict the two direction lists are the caller's (the lists inside
    the dictionary) and set_wall_brdf assigns into them (finding dict_direction_list_mutated). *)
Theorem C16_frame_refuted_dict_list :
  exists g h o, let s := orun g (init g) h in
    option_map dow (o_dirs_in s) = Some Alias /\ option_map dk (o_dirs_in s) = Some KList /\
    oclass_of (ostep g s o) = ROk /\
    optv (o_dirs_in (ostate_of (ostep g s o))) <> optv (o_dirs_in s).
Proof. exact frame_refuted. Qed.
Print Assumptions C16_frame_refuted_dict_list.

(** Repeating bake_geometry leaves the state unchanged (Leibniz equality of all 25 attributes). *)
Theorem C16_idempotent_bake (g : geo) (s : ostate) :
  fst (obake g s) = ROk -> obake g (snd (obake g s)) = obake g s.
Proof. exact (bake_idem g s). Qed.
Print Assumptions C16_idempotent_bake.

(** Repeating calculate_energy_exchange(..., recalculate=True) with the same arguments leaves the
    state unchanged. *)
Theorem C16_idempotent_exchange (g : geo) (s : ostate) (tid ns order : nat) :
  fst (oexchange g s tid ns order true) = ROk ->
  oexchange g (snd (oexchange g s tid ns order true)) tid ns order true = oexchange g s tid ns order true.
Proof. exact (exchange_idem g s tid ns order). Qed.
Print Assumptions C16_idempotent_exchange.

(** Results depend only on the configuration in force.  Whatever two histories did (re-assignments,
    earlier bakes, sources, exchanges, collections, round trips), once they have led to states that
    agree on the configuration fields (geometry, frequencies, BRDF list / index / direction lists,
    attenuation), the tail  bake; init_source src; exchange(recalculate)  answers with the same
    classes up to the first failure and, when it succeeds, every receiver collection -- with or
    without direct sound -- has the same provenance.  No cached field (visibility, pairs, form
    factors, slot map, distances, initial energy, histogram, timing, source) of either state enters. *)
Theorem C16_final_config_history_independent (g : geo) (h h' : list op) (src tid ns order : nat) :
  cfg_eq (orun g (init g) h) (orun g (init g) h') ->
  upto_fail (tail_classes g (orun g (init g) h) (tail src tid ns order)) =
  upto_fail (tail_classes g (orun g (init g) h') (tail src tid ns order)) /\
  (forallb rok (tail_classes g (orun g (init g) h) (tail src tid ns order)) = true ->
   forall recv direct,
     ocollect g (orun g (init g) (h ++ tail src tid ns order)) recv direct =
     ocollect g (orun g (init g) (h' ++ tail src tid ns order)) recv direct).
Proof. exact (final_config_history_independent g h h' src tid ns order). Qed.
Print Assumptions C16_final_config_history_independent.

(** The same for two arbitrary states (not necessarily reachable). *)
Theorem C16_final_config_state_independent (g : geo) (s s' : ostate) (src tid ns order : nat) :
  cfg_eq s s' ->
  upto_fail (tail_classes g s (tail src tid ns order)) = upto_fail (tail_classes g s' (tail src tid ns order)) /\
  (forallb rok (tail_classes g s (tail src tid ns order)) = true ->
   forall recv direct,
     ocollect g (orun g s (tail src tid ns order)) recv direct =
     ocollect g (orun g s' (tail src tid ns order)) recv direct).
Proof. exact (tail_cfg g s s' src tid ns order). Qed.
Print Assumptions C16_final_config_state_independent.

(** WIDENED (vacuity audit B).  [cfg_eq] above is Leibniz equality of the twelve configuration
    descriptors -- kind, shape, provenance AND ownership tag.  A dictionary or file round trip changes
    kinds (object ndarray of coordinates -> list) and ownership tags, so a restored object is never
    [cfg_eq] to the object it was saved from: the two theorems above say nothing about histories that
    differ by a round trip (Instances/NonVacuityB.v, [cfg_eq_is_leibniz]).  Here the hypothesis is
    weakened to agreement of the configuration fields AFTER the normalisation [norm] of C15 (the
    similarity "~" of an object and its restored twin); [cfg_eq s s'] implies it.  The conclusion is the
    same for the classes; the receiver collection is compared without direct sound (the direct sound
    reads the unserialised [_source]: finding restore_direct_sound).  Proof: [tail_cfg] composed with
    the full bisimulation of C15 (the tail contains no direct-sound collect). *)
Theorem C16_final_config_history_independent_sim (g : geo) (h h' : list op) (src tid ns order : nat) :
  cfg_eq (norm (orun g (init g) h)) (norm (orun g (init g) h')) ->
  upto_fail (tail_classes g (orun g (init g) h) (tail src tid ns order)) =
  upto_fail (tail_classes g (orun g (init g) h') (tail src tid ns order)) /\
  (forallb rok (tail_classes g (orun g (init g) h) (tail src tid ns order)) = true ->
   forall recv,
     ocollect g (orun g (init g) (h ++ tail src tid ns order)) recv false =
     ocollect g (orun g (init g) (h' ++ tail src tid ns order)) recv false).
Proof. exact (final_config_history_independent_sim g h h' src tid ns order). Qed.
Print Assumptions C16_final_config_history_independent_sim.

(** ... and the old hypothesis implies the new one. *)
Theorem C16_cfg_eq_implies_normalised (s s' : ostate) : cfg_eq s s' -> cfg_eq (norm s) (norm s').
Proof. exact (cfg_eq_norm s s'). Qed.
Print Assumptions C16_cfg_eq_implies_normalised.

(** Repeating init_source_energy with the same source leaves the state unchanged (Leibniz equality of
    all 25 attributes), for EVERY state: also when the first call installed the default BRDF, the
    default frequency vector or the default attenuation -- the second call then finds them set. *)
Theorem C16_idempotent_init_source (g : geo) (s : ostate) (src : nat) :
  fst (oinit_source g s src) = ROk ->
  oinit_source g (snd (oinit_source g s src)) src = oinit_source g s src.
Proof. exact (init_idem g s src). Qed.
Print Assumptions C16_idempotent_init_source.

(** The whole tail twice.  If the object has its materials and an attenuation when the tail starts
    (init_source_energy has no default to install) and  bake; init_source src; exchange(recalculate)
    answers Ok three times, then running the same tail again answers Ok three times and ends in the
    same state (all 25 attributes).  Without the materials proviso this is refuted
    (C16_final_config_refuted_default_brdf). *)
Theorem C16_idempotent_tail (g : geo) (s : ostate) (src tid ns order : nat) :
  o_dirs_in s <> None -> o_att s <> None ->
  forallb rok (tail_classes g s (tail src tid ns order)) = true ->
  tail_classes g (orun g s (tail src tid ns order)) (tail src tid ns order) = [ROk; ROk; ROk] /\
  orun g s (tail src tid ns order ++ tail src tid ns order) = orun g s (tail src tid ns order).
Proof. exact (tail_twice g s src tid ns order). Qed.
Print Assumptions C16_idempotent_tail.

(** The attenuation proviso cannot be dropped in the model: the first bake records "no attenuation"
    in the provenance of form_factors_tilde, the second the zero attenuation installed in between
    (both mean a factor 1; a difference of provenance only). *)
Theorem C16_idempotent_tail_needs_attenuation :
  exists g s src tid ns order,
    o_dirs_in s <> None /\ o_att s = None /\
    tail_classes g s (tail src tid ns order ++ tail src tid ns order) = [ROk; ROk; ROk; ROk; ROk; ROk] /\
    o_tilde (orun g s (tail src tid ns order ++ tail src tid ns order)) <>
    o_tilde (orun g s (tail src tid ns order)).
Proof. exact tail_twice_needs_att. Qed.
Print Assumptions C16_idempotent_tail_needs_attenuation.
