(** C14 -- BRDF directions follow the wall frame; lookups use the nearest sample. *)
From Coq Require Import List Arith Bool.
Import ListNotations.
From SV Require Import Base.Ops Base.Arr Model.Vec3 Model.Frame Model.Exchange Model.Scene Proofs.FrameProofs.

(** (1) the map that carries reference directions to a wall with orthonormal (normal, up) is
    rigid: inner products (lengths, angles) are preserved, +z goes to the normal, +x to up, the
    component along the normal is the reference z (upper half space stays outside the wall) *)
Theorem C14_rigid {T} {O : Ops T} {RL : RingLaws T} (n u v w : @vec T) :
  orthonormal n u ->
  vdot (rot n u v) (rot n u w) = vdot v w /\
  rot n u (mkv 0 0 1)%T = n /\ rot n u (mkv 1 0 0)%T = u /\
  vdot (rot n u v) n = vz v /\
  (vnorm2 v = 1%T -> vnorm2 (rot n u v) = 1%T).
Proof.
  intros H. exact (conj (rot_isometry n u v w H) (conj (rot_ez n u) (conj (rot_ex n u)
           (conj (rot_normal_component n u v H) (rot_unit n u v H))))).
Qed.
Print Assumptions C14_rigid.

(** (2) the lookup returns the first index of a sample at minimal squared distance; for unit
    vectors squared distance is 2 - 2 cos(angle), so this is the sample nearest in angle *)
Theorem C14_argmin {T} {O : Ops T} {RL : RingLaws T} {OL : OrderLaws T} (dirs : list (@vec T)) (v : @vec T) :
  dirs <> [] ->
  let k := nearest dirs v in
  k < length dirs /\
  (forall i, i < length dirs -> (vdist2 (nthv dirs k) v <= vdist2 (nthv dirs i) v)%T) /\
  (forall i, i < k -> (vdist2 (nthv dirs k) v < vdist2 (nthv dirs i) v)%T).
Proof. exact (nearest_spec dirs v). Qed.
Print Assumptions C14_argmin.

Theorem C14_angle {T} {O : Ops T} {RL : RingLaws T} (a b : @vec T) :
  vnorm2 a = 1%T -> vnorm2 b = 1%T -> vdist2 a b = ((1 + 1) - (1 + 1) * vdot a b)%T.
Proof. exact (dist2_unit a b). Qed.
Print Assumptions C14_angle.

(** (3) "expressed in that wall frame": looking up the nearest ROTATED sample to the true
    geometric direction [rot w] is looking up the nearest REFERENCE sample to the direction's
    wall-frame coordinates [w] (and [rotT] recovers those coordinates) *)
Theorem C14_frame_equiv {T} {O : Ops T} {RL : RingLaws T} (n u : @vec T) (dirs : list (@vec T)) (w : @vec T) :
  orthonormal n u ->
  nearest (map (rot n u) dirs) (rot n u w) = nearest dirs w /\ rotT n u (rot n u w) = w.
Proof. intros H. exact (conj (nearest_frame_equiv n u dirs w H) (rotT_rot n u w H)). Qed.
Print Assumptions C14_frame_equiv.

(** (3') the wall frame is complete: every geometric direction [v] IS the rotation of its wall-frame
    coordinates, so the lookup of ANY direction among the rotated samples (what the code does) is
    the lookup of its wall-frame coordinates among the reference samples *)
Theorem C14_frame_complete {T} {O : Ops T} {RL : RingLaws T} (n u : @vec T) (dirs : list (@vec T)) (v : @vec T) :
  orthonormal n u ->
  rot n u (rotT n u v) = v /\
  nearest (map (rot n u) dirs) v = nearest dirs (rotT n u v).
Proof.
  intros H. split; [exact (rot_rotT n u v H)|].
  rewrite <- (rot_rotT n u v H) at 1. exact (nearest_frame_equiv n u dirs (rotT n u v) H).
Qed.
Print Assumptions C14_frame_complete.

(** (4) where the executable model uses the lookup: source deposit, patch pair (outgoing slot
    of the sender, incoming sample of the RECEIVING patch), receiver *)
Theorem C14_uses {T} {O : Ops T} (sc : @scene T) (s : @source T) (r : @receiver T) i j :
  src_in_index sc s i = nearest (in_dirs sc (wall sc i)) (vnormalize (vsub (src_pos s) (center sc i))) /\
  out_index sc i j = nearest (out_dirs sc (wall sc i)) (vnormalize (vsub (center sc j) (center sc i))) /\
  in_index sc i j = nearest (in_dirs sc (wall sc j)) (vnormalize (vsub (center sc i) (center sc j))) /\
  r_out_index sc r j = nearest (out_dirs sc (wall sc j)) (vnormalize (vsub (r_pos r) (center sc j))).
Proof. repeat split. Qed.
Print Assumptions C14_uses.
