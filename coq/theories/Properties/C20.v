(** C20 -- Source directivity is applied per direction in the source's own frame.
    Only theorem statements, each closed by [exact]. *)
From Coq Require Import List Arith Bool.
Import ListNotations.
From SV Require Import Base.Ops Base.Arr Model.Vec3 Model.Exchange Model.Scene Model.Directivity
  Proofs.DirectivityProofs.

(** (1) the energy deposited on patch [i] (every outgoing slot [d], band [b]) is the
    omnidirectional value times the table entry of the measured direction nearest to the
    source-to-patch-centre direction in the source frame, at the nearest measured frequency *)
Theorem C20_factor {T} {O : Ops T} (sc : @scene T) (bandf : list T) ori s i d b :
  i < s_np sc -> b < s_nb sc ->
  e0dir_entry sc (with_directivity sc bandf ori s) i d b =
  (e0dir_entry sc (omni s) i d b *
   get2 (dv_table (o_dv ori))
        (lookup (dv_recv (o_dv ori)) (frame_dir (src_pos s) (o_view ori) (o_up ori) (center sc i)))
        (nearest_freq (dv_freqs (o_dv ori)) (nthT bandf b)))%T.
Proof. exact (e0dir_factor sc bandf ori s i d b). Qed.
Print Assumptions C20_factor.

(** (1') the same for the direct sound at a receiver, with the source-to-receiver direction *)
Theorem C20_factor_direct {T} {O : Ops T} (sc : @scene T) (bandf : list T) ori s r b :
  b < s_nb sc ->
  direct_val sc (with_directivity sc bandf ori s) r (Some (recv_dirfac sc bandf ori s r)) b =
  (direct_val sc (omni s) r None b *
   get2 (dv_table (o_dv ori))
        (lookup (dv_recv (o_dv ori)) (frame_dir (src_pos s) (o_view ori) (o_up ori) (r_pos r)))
        (nearest_freq (dv_freqs (o_dv ori)) (nthT bandf b)))%T.
Proof. exact (direct_factor sc bandf ori s r b). Qed.
Print Assumptions C20_factor_direct.

(** (1'') for an orthonormal view/up the normaliser of the frame direction is the distance:
    frame_dir = (<d,view>, <d,up x view>, <d,up>) / |d| with d = target - position *)
Theorem C20_frame_orthonormal {T} {O : Ops T} {RL : RingLaws T} (pos view up target : @vec T) :
  vdot view view = 1%T -> vdot up up = 1%T -> vdot view up = 0%T ->
  let w := metrics_w pos view up target in
  vdot w w = vdot (vsub target pos) (vsub target pos).
Proof. exact (metrics_w_norm pos view up target). Qed.
Print Assumptions C20_frame_orthonormal.

(** (2) rotating source position, view, up and the target together by a proper rotation
    (M^T M = I, det M = 1) leaves the frame direction unchanged ... *)
Theorem C20_corotate {T} {O : Ops T} {RL : RingLaws T} {FL : FieldLaws T}
    (M : @mat T) (pos view up target : @vec T) :
  rotation M -> tsqrt (vdot view view) <> 0%T -> tsqrt (vdot up up) <> 0%T ->
  frame_dir (mv M pos) (mv M view) (mv M up) (mv M target) = frame_dir pos view up target.
Proof. exact (frame_dir_corotate M pos view up target). Qed.
Print Assumptions C20_corotate.

(** (2') ... also for the already normalised arguments [DirectivityMS.get_directivity]
    receives (commutative ring only) ... *)
Theorem C20_corotate_normalised {T} {O : Ops T} {RL : RingLaws T}
    (M : @mat T) (pos view up target : @vec T) :
  rotation M ->
  frame_dir_n (mv M pos) (mv M view) (mv M up) (mv M target) = frame_dir_n pos view up target.
Proof. exact (frame_dir_n_corotate M pos view up target). Qed.
Print Assumptions C20_corotate_normalised.

(** (2'') ... hence every factor of the patches and of the direct sound is unchanged when the
    source pose and the scene (patch centres, receiver) are rotated together *)
Theorem C20_corotate_scene {T} {O : Ops T} {RL : RingLaws T} {FL : FieldLaws T}
    (M : @mat T) (sc sc' : @scene T) (bandf : list T) ori (s s' : @source T) (r r' : @receiver T) :
  rotation M ->
  tsqrt (vdot (o_view ori) (o_view ori)) <> 0%T -> tsqrt (vdot (o_up ori) (o_up ori)) <> 0%T ->
  s_np sc' = s_np sc -> s_nb sc' = s_nb sc ->
  (forall i, i < s_np sc -> center sc' i = mv M (center sc i)) ->
  src_pos s' = mv M (src_pos s) -> r_pos r' = mv M (r_pos r) ->
  source_dirfac sc' bandf (rotate_orientation M ori) s' = source_dirfac sc bandf ori s /\
  recv_dirfac sc' bandf (rotate_orientation M ori) s' r' = recv_dirfac sc bandf ori s r.
Proof. exact (scene_corotate M sc sc' bandf ori s s' r r'). Qed.
Print Assumptions C20_corotate_scene.

(** (3) a directivity that is 1 everywhere reproduces the omnidirectional initial energy,
    hence the whole exchange, exactly.  The only law used is x * 1 = x, which holds in every
    commutative ring and for IEEE-754 multiplication by 1.0. *)
Theorem C20_unit {T} {O : Ops T} {ML : MulOneLaw T} (sc : @scene T) (bandf : list T) ori s tm K :
  unit_table ori ->
  e0dir sc (with_directivity sc bandf ori s) = e0dir sc (omni s) /\
  patch_hist sc tm (with_directivity sc bandf ori s) K = patch_hist sc tm (omni s) K.
Proof.
  exact (fun H => conj (e0dir_unit sc bandf ori s H) (patch_hist_unit sc bandf ori s tm K H)).
Qed.
Print Assumptions C20_unit.

(** (3') ... direct sound included *)
Theorem C20_unit_direct {T} {O : Ops T} {ML : MulOneLaw T} (sc : @scene T) (bandf : list T)
    ori s r tm E direct :
  unit_table ori ->
  mono sc tm E (with_directivity sc bandf ori s) r direct (Some (recv_dirfac sc bandf ori s r)) =
  mono sc tm E (omni s) r direct None.
Proof. exact (mono_unit sc bandf ori s r tm E direct). Qed.
Print Assumptions C20_unit_direct.

(** (3'') a source without directivity IS the omnidirectional source, whatever its orientation *)
Theorem C20_no_directivity {T} {O : Ops T} (s : @source T) : src_dirfac s = None -> s = omni s.
Proof. exact (no_directivity_omni s). Qed.
Print Assumptions C20_no_directivity.
