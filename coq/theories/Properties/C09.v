(** C09 -- Exchanging source and receiver leaves the energy-time curve unchanged. *)
From Coq Require Import List Arith Bool.
Import ListNotations.
From SV Require Import Base.Ops Base.Arr Base.Sums Model.Vec3 Model.Exchange Model.Scene
  Proofs.SceneRefine Proofs.Reciprocity Proofs.ReciprocityModel.

(** (1) the k-leg Green function of the recursion is symmetric up to the area weights, given
    form-factor reciprocity A_i G_ij = A_j G_ji (written with inverse areas), symmetric delays,
    and the RECEIVING patch's reflectance in every step *)
Theorem C09_kernel_symmetric {T} {O : Ops T} {RL : RingLaws T}
    (ps : list nat) (G : nat -> nat -> T) (rho area ia : nat -> T) (delta : nat -> nat -> nat) k i j t :
  NoDup ps -> (forall i, In i ps -> (area i * ia i)%T = 1%T) -> (forall i j, delta i j = delta j i) ->
  (forall i j, In i ps -> In j ps -> (G i j * ia j)%T = (G j i * ia i)%T) ->
  In i ps -> In j ps ->
  (Gam ps G rho delta k i j t * ia j)%T = (Gam ps G rho delta k j i t * ia i)%T.
Proof. intros Hn Ha Hd Hg. exact (Gam_sym ps Hn G rho area ia delta Ha Hd Hg k i j t). Qed.
Print Assumptions C09_kernel_symmetric.

(** (2) reciprocity of the energy-time curve, every order, every bin: source A (deposits
    sA_i rho_i in bin fA_i, is heard with weight sA_i/A_i after gA_i bins) against B *)
Theorem C09_reciprocal {T} {O : Ops T} {RL : RingLaws T}
    (ps : list nat) (G : nat -> nat -> T) (rho area ia : nat -> T) (delta : nat -> nat -> nat)
    sA fA gA sB fB gB K t :
  NoDup ps -> (forall i, In i ps -> (area i * ia i)%T = 1%T) -> (forall i j, delta i j = delta j i) ->
  (forall i j, In i ps -> In j ps -> (G i j * ia j)%T = (G j i * ia i)%T) ->
  (forall i, In i ps -> gA i = S (fA i)) -> (forall j, In j ps -> gB j = S (fB j)) ->
  response_upto ps G rho ia delta sA fA sB gB K t = response_upto ps G rho ia delta sB fB sA gA K t.
Proof.
  intros Hn Ha Hd Hg. exact (reciprocity_upto ps Hn G rho area ia delta Ha Hd Hg sA fA gA sB fB gB K t).
Qed.
Print Assumptions C09_reciprocal.

(** (3) the baked matrix of the executable model satisfies the reciprocity hypothesis: the
    area-ratio rule gives A_i F_ij = A_j F_ji, attenuation and delays depend on the symmetric
    centre distance *)
Theorem C09_baked_reciprocity {T} {O : Ops T} {RL : RingLaws T} {FL : FieldLaws T}
    (sc : @scene T) b i j :
  (forall i, i < s_np sc -> area sc i <> 0%T) -> i < s_np sc -> j < s_np sc ->
  (Gm sc b i j * iaP sc j)%T = (Gm sc b j i * iaP sc i)%T.
Proof.
  intros Ha Hi Hj. apply (Gm_recip sc b Ha i j); apply in_ps; assumption.
Qed.
Print Assumptions C09_baked_reciprocity.

(** (4) on the executable pipeline model: for a diffusely reflecting scene (one slot, any
    per-wall reflectances, any attenuation, any order K) the mono curve at B for a source at A
    equals the mono curve at A for a source at B, in every bin -- provided each point's two roles
    are linked (receiver factor = 4 x source share / area, ceiling bin = truncation bin + 1) and
    the delayed patch energy fits into the histogram (np.roll would wrap otherwise) *)
Theorem C09_model {T} {O : Ops T} {RL : RingLaws T} {FL : FieldLaws T}
    (sc : @scene T) tm b rho (pA pB : @point_data T) K t :
  wf_scene sc -> s_nd sc = 1 -> (forall w a d, beta sc w a d b = rho w) -> b < s_nb sc ->
  (forall i, i < s_np sc -> area sc i <> 0%T) ->
  linked sc tm pA -> linked sc tm pB -> fits sc tm b K pA pB -> fits sc tm b K pB pA ->
  t < n_samples tm ->
  get2 (mono sc tm (patch_hist sc tm (as_source pA) K) (as_source pA) (as_receiver pB) false None) b t =
  get2 (mono sc tm (patch_hist sc tm (as_source pB) K) (as_source pB) (as_receiver pA) false None) b t.
Proof.
  intros WF Hnd Hd Hb Ha. exact (mono_reciprocal sc tm b WF Ha Hnd rho Hd Hb pA pB K t).
Qed.
Print Assumptions C09_model.

(** (5) the role link assumed by [linked] holds for the model of the point-to-patch kernel:
    its receiver mode is four times its source mode divided by the patch area *)
From SV Require Import Model.PtSolution Proofs.ShareLink.
Theorem C09_roles_linked {T} {O : Ops T} {RL : RingLaws T} {FL : FieldLaws T}
    (thr : T) (pt : @vec T) (pts : list (@vec T)) :
  tpi <> 0%T -> @four T O <> 0%T -> poly_area pts <> 0%T ->
  (forall a c : T, a <> 0%T -> c <> 0%T -> (a * c)%T <> 0%T) ->
  pt_solution thr true pt pts = ((four * pt_solution thr false pt pts) * (1 / poly_area pts))%T.
Proof. exact (share_link_inv thr pt pts). Qed.
Print Assumptions C09_roles_linked.

(** (6) a caveat on (4), found while lifting it to the composed model: its diffuse hypothesis
    quantifies over ALL table indices, and a table given by lists returns 0 beyond its end --
    so the hypothesis only allows reflectance 0.  (4) is therefore restated in (7) with the
    hypotheses restricted to what the model reads. *)
From SV Require Import Proofs.ReciprocityVis.
Theorem C09_model_diffuse_everywhere_forces_zero {T} {O : Ops T} (sc : @scene T) b (rho : nat -> T) :
  (forall w a d, beta sc w a d b = rho w) -> forall w, rho w = 0%T.
Proof. exact (diffuse_everywhere_forces_zero sc b rho). Qed.
Print Assumptions C09_model_diffuse_everywhere_forces_zero.

(** (7) (4) with satisfiable hypotheses: the BRDF entry is [rho (wall)] at the incoming sample
    selected for each visible pair and for each patch a point sees (slot 0); the role link and
    the fitting condition are asked only of the patches the point SEES (hidden patches carry
    source energy 0 and receiver factor 0, while the model sets their source-leg distance to 0,
    so the one-bin offset cannot hold for them) *)
Theorem C09_model_vis {T} {O : Ops T} {RL : RingLaws T} {FL : FieldLaws T}
    (sc : @scene T) tm b rho (pA pB : @point_data T) K t :
  wf_scene sc -> s_nd sc = 1 -> b < s_nb sc ->
  (forall i, i < s_np sc -> area sc i <> 0%T) ->
  (forall i j, i < s_np sc -> j < s_np sc -> vis_sym sc i j = true ->
     beta sc (wall sc j) (in_index sc i j) 0 b = rho (wall sc j)) ->
  (forall i, i < s_np sc -> nthb (p_vis pA) i = true ->
     beta sc (wall sc i) (src_in_index sc (as_source pA) i) 0 b = rho (wall sc i)) ->
  (forall i, i < s_np sc -> nthb (p_vis pB) i = true ->
     beta sc (wall sc i) (src_in_index sc (as_source pB) i) 0 b = rho (wall sc i)) ->
  linked_vis sc tm pA -> linked_vis sc tm pB ->
  fits_vis sc tm b K pA pB -> fits_vis sc tm b K pB pA ->
  t < n_samples tm ->
  get2 (mono sc tm (patch_hist sc tm (as_source pA) K) (as_source pA) (as_receiver pB) false None) b t =
  get2 (mono sc tm (patch_hist sc tm (as_source pB) K) (as_source pB) (as_receiver pA) false None) b t.
Proof.
  intros WF Hnd Hb Ha Hdp HdA HdB.
  exact (mono_reciprocal_vis sc tm b WF Ha Hnd rho Hb Hdp pA pB K t HdA HdB).
Qed.
Print Assumptions C09_model_vis.

(** (8) reciprocity of the COMPOSED model (Model/Full.v: polygons -> tiling -> visibility -> form
    factors -> exchange -> receiver).  A room with one outgoing direction slot whose BRDF tables
    are constant per wall over the incoming samples; two points A, B.  Then, in every band and
    bin, the curve at B for a source at A is the curve at A for a source at B (reflections; the
    direct sound is symmetric by itself) -- provided
    - for the patches each point sees, the receiver-leg bin (ceiling) is the source-leg bin
      (truncation) plus one ([room_bins_linked], unfolded in (10); it follows from "no leg length
      is a multiple of c dt", see (9)),
    - the delayed energy of the patches the receiver sees fits into the histogram
      ([room_recv_fits]; the code delays with np.roll: finding receiver_wrap),
    - patch areas, pi and 4 are not zero.
    DISCHARGED from the model rather than assumed: receiver factor = 4 x source share / area for
    the room's own pt_solution values and areas; one visibility vector for both roles of a point;
    well-formedness of the composed scene; form-factor reciprocity of the composed matrix
    (area-ratio rule, cf. C05_room_form_factors_computed). *)
From SV Require Import Model.Frame Model.Tiling Model.Visibility Model.Full
  Proofs.FullReceiver Proofs.FullReciprocity.
Theorem C09_room_reciprocal {T} {O : Ops T} {RL : RingLaws T} {FL : FieldLaws T}
    (rm : @room T) tm b rho (A B : @vec T) K t :
  length (rm_ref_out rm) = 1 -> rm_ref_in rm <> [] ->
  (forall w a, w < length (rm_walls rm) -> a < length (rm_ref_in rm) ->
     beta (room_scene rm) w a 0 b = rho w) ->
  b < rm_nb rm ->
  (forall i, i < rm_np rm -> area (room_scene rm) i <> 0%T) ->
  @tpi T O <> 0%T -> @four T O <> 0%T ->
  room_bins_linked rm tm A -> room_bins_linked rm tm B ->
  room_recv_fits rm tm A B K b -> room_recv_fits rm tm B A K b ->
  t < n_samples tm ->
  get2 (room_mono rm tm A B K false) b t = get2 (room_mono rm tm B A K false) b t.
Proof.
  intros H1 Hin Hd Hb Ha Hpi H4. exact (room_reciprocal rm tm b H1 Hin rho Hd Hb Ha Hpi H4 A B K t).
Qed.
Print Assumptions C09_room_reciprocal.

(** (9) over an ordered field with the floor / ceiling laws and pi > 0 only geometric conditions
    and the fitting condition remain: no scaled leg length to a visible patch is an integer *)
Theorem C09_room_reciprocal_ordered {T} {O : Ops T} {RL : RingLaws T} {OL : OrderLaws T}
    {FL : FieldLaws T} {NL : FloorLaws T} {AL : AcosLaws T}
    (rm : @room T) tm b rho (A B : @vec T) K t :
  length (rm_ref_out rm) = 1 -> rm_ref_in rm <> [] ->
  (forall w a, w < length (rm_walls rm) -> a < length (rm_ref_in rm) ->
     beta (room_scene rm) w a 0 b = rho w) ->
  b < rm_nb rm ->
  (forall i, i < rm_np rm -> area (room_scene rm) i <> 0%T) ->
  (forall P, P = A \/ P = B -> forall k, k < rm_np rm -> nthb (room_point_vis rm P) k = true ->
     let x := ((vdist P (nthv (rm_centers rm) k) / t_c tm) / t_dt tm)%T in
     (0 <= x)%T /\ x <> tofnat (ttrunc x)) ->
  room_recv_fits rm tm A B K b -> room_recv_fits rm tm B A K b ->
  t < n_samples tm ->
  get2 (room_mono rm tm A B K false) b t = get2 (room_mono rm tm B A K false) b t.
Proof.
  intros H1 Hin Hd Hb Ha Hoff.
  exact (room_reciprocal_ordered rm tm b rho A B K t H1 Hin Hd Hb Ha
           (Hoff A (or_introl eq_refl)) (Hoff B (or_intror eq_refl))).
Qed.
Print Assumptions C09_room_reciprocal_ordered.

(** (10) the two named hypotheses of (8), unfolded to the room's data *)
Theorem C09_room_hypotheses_unfolded {T} {O : Ops T} (rm : @room T) tm b (A B : @vec T) K :
  (room_bins_linked rm tm A <->
   forall k, k < rm_np rm -> nthb (room_point_vis rm A) k = true ->
     delay_ceil (vdist (nthv (rm_centers rm) k) A) (t_c tm) (t_dt tm) =
     S (delay_floor (vdist A (nthv (rm_centers rm) k)) (t_c tm) (t_dt tm))) /\
  (room_recv_fits rm tm A B K b <->
   forall k, k < rm_np rm -> nthb (room_point_vis rm B) k = true ->
     let g := delay_ceil (vdist (nthv (rm_centers rm) k) B) (t_c tm) (t_dt tm) in
     g < n_samples tm /\
     forall u, n_samples tm - g <= u -> u < n_samples tm ->
       get4 (patch_hist (room_scene rm) tm (room_source rm A) K) k (room_recv_slot rm B k) b u = 0%T).
Proof. split; split; intros H; exact H. Qed.
Print Assumptions C09_room_hypotheses_unfolded.
