(** C09 -- Exchanging source and receiver leaves the energy-time curve unchanged. *)
From Coq Require Import List Arith Bool.
Import ListNotations.
From SV Require Import Base.Ops Base.Arr Base.Sums Model.Vec3 Model.Exchange Model.Scene
  Proofs.SceneRefine Proofs.Reciprocity Proofs.ReciprocityModel.

(** (1) the k-leg Green function of the recursion is symmetric up to the area weights, given
    form-factor reciprocity A_i G_ij = A_j G_ji (written with inverse areas), symmetric delays,
    and the RECEIVING patch's reflectance in every step *)
Theorem C09_kernel_symmetric {T} {O : Ops T} {RL : RingLaws T}
    (ps : list nat) (G : nat -> nat -> T) (rho area ia : nat -> T) (delta : nat -> nat -> nat) k i j t :
  NoDup ps -> (forall i, In i ps -> (area i * ia i)%T = 1%T) -> (forall i j, delta i j = delta j i) ->
  (forall i j, In i ps -> In j ps -> (G i j * ia j)%T = (G j i * ia i)%T) ->
  In i ps -> In j ps ->
  (Gam ps G rho delta k i j t * ia j)%T = (Gam ps G rho delta k j i t * ia i)%T.
Proof. intros Hn Ha Hd Hg. exact (Gam_sym ps Hn G rho area ia delta Ha Hd Hg k i j t). Qed.
Print Assumptions C09_kernel_symmetric.

(** (2) reciprocity of the energy-time curve, every order, every bin: source A (deposits
    sA_i rho_i in bin fA_i, is heard with weight sA_i/A_i after gA_i bins) against B *)
Theorem C09_reciprocal {T} {O : Ops T} {RL : RingLaws T}
    (ps : list nat) (G : nat -> nat -> T) (rho area ia : nat -> T) (delta : nat -> nat -> nat)
    sA fA gA sB fB gB K t :
  NoDup ps -> (forall i, In i ps -> (area i * ia i)%T = 1%T) -> (forall i j, delta i j = delta j i) ->
  (forall i j, In i ps -> In j ps -> (G i j * ia j)%T = (G j i * ia i)%T) ->
  (forall i, In i ps -> gA i = S (fA i)) -> (forall j, In j ps -> gB j = S (fB j)) ->
  response_upto ps G rho ia delta sA fA sB gB K t = response_upto ps G rho ia delta sB fB sA gA K t.
Proof.
  intros Hn Ha Hd Hg. exact (reciprocity_upto ps Hn G rho area ia delta Ha Hd Hg sA fA gA sB fB gB K t).
Qed.
Print Assumptions C09_reciprocal.

(** (3) the baked matrix of the executable model satisfies the reciprocity hypothesis: the
    area-ratio rule gives A_i F_ij = A_j F_ji, attenuation and delays depend on the symmetric
    centre distance *)
Theorem C09_baked_reciprocity {T} {O : Ops T} {RL : RingLaws T} {FL : FieldLaws T}
    (sc : @scene T) b i j :
  (forall i, i < s_np sc -> area sc i <> 0%T) -> i < s_np sc -> j < s_np sc ->
  (Gm sc b i j * iaP sc j)%T = (Gm sc b j i * iaP sc i)%T.
Proof.
  intros Ha Hi Hj. apply (Gm_recip sc b Ha i j); apply in_ps; assumption.
Qed.
Print Assumptions C09_baked_reciprocity.

(** (4) on the executable pipeline model: for a diffusely reflecting scene (one slot, any
    per-wall reflectances, any attenuation, any order K) the mono curve at B for a source at A
    equals the mono curve at A for a source at B, in every bin -- provided each point's two roles
    are linked (receiver factor = 4 x source share / area, ceiling bin = truncation bin + 1) and
    the delayed patch energy fits into the histogram (np.roll would wrap otherwise) *)
Theorem C09_model {T} {O : Ops T} {RL : RingLaws T} {FL : FieldLaws T}
    (sc : @scene T) tm b rho (pA pB : @point_data T) K t :
  wf_scene sc -> s_nd sc = 1 -> (forall w a d, beta sc w a d b = rho w) -> b < s_nb sc ->
  (forall i, i < s_np sc -> area sc i <> 0%T) ->
  linked sc tm pA -> linked sc tm pB -> fits sc tm b K pA pB -> fits sc tm b K pB pA ->
  t < n_samples tm ->
  get2 (mono sc tm (patch_hist sc tm (as_source pA) K) (as_source pA) (as_receiver pB) false None) b t =
  get2 (mono sc tm (patch_hist sc tm (as_source pB) K) (as_source pB) (as_receiver pA) false None) b t.
Proof.
  intros WF Hnd Hd Hb Ha. exact (mono_reciprocal sc tm b WF Ha Hnd rho Hd Hb pA pB K t).
Qed.
Print Assumptions C09_model.

(** (5) the role link assumed by [linked] holds for the model of the point-to-patch kernel:
    its receiver mode is four times its source mode divided by the patch area *)
From SV Require Import Model.PtSolution Proofs.ShareLink.
Theorem C09_roles_linked {T} {O : Ops T} {RL : RingLaws T} {FL : FieldLaws T}
    (thr : T) (pt : @vec T) (pts : list (@vec T)) :
  tpi <> 0%T -> @four T O <> 0%T -> poly_area pts <> 0%T ->
  (forall a c : T, a <> 0%T -> c <> 0%T -> (a * c)%T <> 0%T) ->
  pt_solution thr true pt pts = ((four * pt_solution thr false pt pts) * (1 / poly_area pts))%T.
Proof. exact (share_link_inv thr pt pts). Qed.
Print Assumptions C09_roles_linked.
