(** C15 -- Saving and restoring a simulation at any stage is lossless.
    Only theorem statements, each closed by [exact].

    [ostep] (Model/Object.v) is the L2 state machine of DirectionalRadiosityFast at HEAD: 23 serialised
    and 2 unserialised attributes, each an optional (kind, shape, provenance term, ownership).
    [restore g viafile s] = from_dict(to_dict(s)) resp. from_read(write(s)); [oeq] = __eq__;
    [sim] (Spec/ObjectSpec.v) = same presence, shapes and provenance of the 23 serialised attributes, kinds
    equal up to "object ndarray of coordinate objects -> list"; [wf] = the kinds the methods produce
    (checked after every call by the correspondence; shown for the five stages in Instances). *)
From Coq Require Import List Arith Bool.
Import ListNotations.
From SV Require Import Model.Object Spec.ObjectSpec Proofs.ObjectProofs Proofs.ObjectThms
  Proofs.ObjectBisim Proofs.ObjectBisimThm Proofs.ObjectBisimFull Proofs.ObjectWf Instances.ObjectExamples.

(** Every attribute in the declared read set of a public call is written by to_dict -- for every
    call except collect_energy_receiver_mono(direct_sound=True). *)
Theorem C15_fields_complete_partial (o : op) (f : field) :
  direct_collect o = false -> In f (reads o) -> In f dict_fields.
Proof. exact (reads_in_dict o f). Qed.
Print Assumptions C15_fields_complete_partial.

(** Refuted at full strength: the direct-sound collect reads [_source], which to_dict omits. *)
Theorem C15_fields_complete_refuted : exists o f, In f (reads o) /\ ~ In f dict_fields.
Proof. exact reads_refuted. Qed.
Print Assumptions C15_fields_complete_refuted.

(** Round trip (dictionary: viafile = false, file: viafile = true), for every well-kinded state:
    a state accepted by check() comes back as a similar state that compares equal in both directions;
    a state refused by check() makes from_dict / from_read raise exactly that error. *)
Theorem C15_roundtrip_partial (g : geo) (viafile : bool) (s : ostate) :
  wf s ->
  (ocheck g s = ROk ->
   exists s', restore g viafile s = (ROk, Some s') /\ sim s s' /\ oeq s s' = true /\ oeq s' s = true) /\
  (ocheck g s <> ROk -> restore g viafile s = (ocheck g s, None)).
Proof. exact (roundtrip g viafile s). Qed.
Print Assumptions C15_roundtrip_partial.

(** Refuted: a completed simulation is restored to a similar, equal object on which
    collect_energy_receiver_mono(direct_sound=True) raises AttributeError while the original answers
    (known finding restore_direct_sound). *)
Theorem C15_roundtrip_refuted_source :
  exists g h s', let s := orun g (init g) h in
    restore g false s = (ROk, Some s') /\ sim s s' /\ oeq s s' = true /\
    oclass_of (ostep g s (OpCollect 1 true)) = ROk /\
    oclass_of (ostep g s' (OpCollect 1 true)) = RAttribute.
Proof. exact source_refuted. Qed.
Print Assumptions C15_roundtrip_refuted_source.

(** Refuted: after set_wall_brdf on some walls only (every call answered Ok) the object cannot be
    restored: check() rejects the unset direction entries (finding restore_refused_partial_materials). *)
Theorem C15_roundtrip_refuted_partial_materials :
  exists g h, let s := orun g (init g) h in
    Forall (fun c => c = ROk) (map oclass_of (otrace g (init g) h)) /\
    restore g false s = (RValue, None) /\ restore g true s = (RValue, None).
Proof. exact partial_materials_refuted. Qed.
Print Assumptions C15_roundtrip_refuted_partial_materials.

(** Refuted: calculate_energy_exchange without recalculate keeps the old histogram but overwrites the
    duration / resolution; the resulting object cannot be restored (finding restore_refused_stale_cache). *)
Theorem C15_roundtrip_refuted_stale_cache :
  exists g h, let s := orun g (init g) h in
    Forall (fun c => c = ROk) (map oclass_of (otrace g (init g) h)) /\
    restore g false s = (RValue, None) /\ restore g true s = (RValue, None).
Proof. exact stale_cache_refuted. Qed.
Print Assumptions C15_roundtrip_refuted_stale_cache.

(** Bisimulation, for the calls for which it is proved ([covered]: set_wall_brdf, set_air_attenuation,
    dictionary and file round trips): similar objects answer with the same exception class and the same
    observation, and the successors are similar again ... *)
Theorem C15_bisim_partial (g : geo) (s s' : ostate) (o : op) :
  covered o = true -> sim s s' -> normr (ostep g s o) = normr (ostep g s' o).
Proof. exact (bisim_step g s s' o). Qed.
Print Assumptions C15_bisim_partial.

(** ... hence every continuation (of any length) by such calls yields equal classes and observations on
    the original and on the restored twin, and similar final states. *)
Theorem C15_bisim_trace_partial (g : geo) (h : list op) (s s' : ostate) :
  forallb covered h = true -> sim s s' ->
  map (fun r => (oclass_of r, oobs_of r)) (otrace g s h) =
  map (fun r => (oclass_of r, oobs_of r)) (otrace g s' h) /\
  sim (orun g s h) (orun g s' h).
Proof. exact (bisim_trace g h s s'). Qed.
Print Assumptions C15_bisim_trace_partial.

(** FULL bisimulation: for EVERY public call except collect_energy_receiver_mono(direct_sound=True)
    -- i.e. also bake_geometry, init_source_energy (including its default installs and its partial
    effects when it raises), calculate_energy_exchange (with and without recalculate) and
    collect_energy_receiver_mono(direct_sound=False) -- similar objects answer with the same exception
    class and the same observation, and the successors are similar again.  No kind hypothesis is needed:
    no stage reads the kind or the ownership of a direction list. *)
Theorem C15_bisim (g : geo) (s s' : ostate) (o : op) :
  direct_collect o = false -> sim s s' -> normr (ostep g s o) = normr (ostep g s' o).
Proof. exact (bisim_step_full g s s' o). Qed.
Print Assumptions C15_bisim.

(** ... hence every continuation (of any length) without direct-sound collects yields equal classes and
    observations on two similar objects, and similar final states. *)
Theorem C15_bisim_trace (g : geo) (h : list op) (s s' : ostate) :
  forallb (fun o => negb (direct_collect o)) h = true -> sim s s' ->
  map (fun r => (oclass_of r, oobs_of r)) (otrace g s h) =
  map (fun r => (oclass_of r, oobs_of r)) (otrace g s' h) /\
  sim (orun g s h) (orun g s' h).
Proof. exact (bisim_trace_full g h s s'). Qed.
Print Assumptions C15_bisim_trace.

(** The kind invariant: it holds for a freshly constructed object, every public call preserves it
    (whatever class it answers with -- the partial effects of failed calls included), hence it holds in
    every reachable state. *)
Theorem C15_wf_reachable (g : geo) :
  wf (init g) /\
  (forall s o, wf s -> wf (ostate_of (ostep g s o))) /\
  (forall s, reachable g s -> wf s).
Proof. exact (conj (wf_init g) (conj (fun s o => step_wf g s o) (reachable_wf g))). Qed.
Print Assumptions C15_wf_reachable.

(** Round trip at EVERY reachable state (no kind hypothesis): accepted by check() <-> restored to a
    similar object that compares equal in both directions; refused by check() -> from_dict / from_read
    raise exactly that error. *)
Theorem C15_roundtrip_reachable (g : geo) (viafile : bool) (s : ostate) :
  reachable g s ->
  (ocheck g s = ROk ->
   exists s', restore g viafile s = (ROk, Some s') /\ sim s s' /\ oeq s s' = true /\ oeq s' s = true) /\
  (ocheck g s <> ROk -> restore g viafile s = (ocheck g s, None)).
Proof. exact (roundtrip_reachable g viafile s). Qed.
Print Assumptions C15_roundtrip_reachable.

(** HEADLINE.  Take any history [h0] of public calls on a fresh object and let [s] be the state it ends
    in.  If check() accepts [s], then saving and restoring (dictionary or file) succeeds, the restored
    [s'] is similar and equal to [s], and EVERY continuation [h] that contains no direct-sound collect
    answers every call with the same exception class and the same observation on [s] and on [s'], passes
    through similar states after every call, and ends in similar states.  (The direct-sound collect is
    the known finding C15_roundtrip_refuted_source; states refused by check() are the known findings
    C15_roundtrip_refuted_partial_materials / _stale_cache.) *)
Theorem C15_lossless_continuation (g : geo) (h0 : list op) (viafile : bool) :
  let s := orun g (init g) h0 in
  ocheck g s = ROk ->
  exists s',
    restore g viafile s = (ROk, Some s') /\ sim s s' /\ oeq s s' = true /\ oeq s' s = true /\
    forall h, forallb (fun o => negb (direct_collect o)) h = true ->
      map (fun r => (oclass_of r, oobs_of r)) (otrace g s h) =
      map (fun r => (oclass_of r, oobs_of r)) (otrace g s' h) /\
      map normr (otrace g s h) = map normr (otrace g s' h) /\
      sim (orun g s h) (orun g s' h).
Proof. exact (lossless_continuation g h0 viafile). Qed.
Print Assumptions C15_lossless_continuation.

(** Non-vacuity: the five pipeline stages of Instances/ObjectExamples are reachable states accepted by
    check(), so the headline theorem applies to each of them. *)
Theorem C15_lossless_continuation_stages :
  Forall (fun h0 => ocheck g0 (orun g0 (init g0) h0) = ROk)
    [[]; mats0; mats0 ++ [OpBake]; mats0 ++ [OpBake; OpInitSource 1]; pipe0].
Proof. exact stages_check_forall. Qed.
Print Assumptions C15_lossless_continuation_stages.
