(** C15 -- Saving and restoring a simulation at any stage is lossless.
    Only theorem statements, each closed by [exact].

    [ostep] (Model/Object.v) is the L2 state machine of DirectionalRadiosityFast at HEAD: 23 serialised
    and 2 unserialised attributes, each an optional (kind, shape, provenance term, ownership).
    [restore g viafile s] = from_dict(to_dict(s)) resp. from_read(write(s)); [oeq] = __eq__;
    [sim] (Spec/ObjectSpec.v) = same presence, shapes and provenance of the 23 serialised attributes, kinds
    equal up to "object ndarray of coordinate objects -> list"; [wf] = the kinds the methods produce
    (checked after every call by the correspondence; shown for the five stages in Instances). *)
From Coq Require Import List Arith Bool.
Import ListNotations.
From SV Require Import Model.Object Spec.ObjectSpec Proofs.ObjectProofs Proofs.ObjectThms
  Proofs.ObjectBisim Proofs.ObjectBisimThm Instances.ObjectExamples.

(** Every attribute in the declared read set of a public call is written by to_dict -- for every
    call except collect_energy_receiver_mono(direct_sound=True). *)
Theorem C15_fields_complete_partial (o : op) (f : field) :
  direct_collect o = false -> In f (reads o) -> In f dict_fields.
Proof. exact (reads_in_dict o f). Qed.
Print Assumptions C15_fields_complete_partial.

(** Refuted at full strength: the direct-sound collect reads [_source], which to_dict omits. *)
Theorem C15_fields_complete_refuted : exists o f, In f (reads o) /\ ~ In f dict_fields.
Proof. exact reads_refuted. Qed.
Print Assumptions C15_fields_complete_refuted.

(** Round trip (dictionary: viafile = false, file: viafile = true), for every well-kinded state:
    a state accepted by check() comes back as a similar state that compares equal in both directions;
    a state refused by check() makes from_dict / from_read raise exactly that error. *)
Theorem C15_roundtrip_partial (g : geo) (viafile : bool) (s : ostate) :
  wf s ->
  (ocheck g s = ROk ->
   exists s', restore g viafile s = (ROk, Some s') /\ sim s s' /\ oeq s s' = true /\ oeq s' s = true) /\
  (ocheck g s <> ROk -> restore g viafile s = (ocheck g s, None)).
Proof. exact (roundtrip g viafile s). Qed.
Print Assumptions C15_roundtrip_partial.

(** Refuted: a completed simulation is restored to a similar, equal object on which
    collect_energy_receiver_mono(direct_sound=True) raises AttributeError while the original answers
    (known finding restore_direct_sound). *)
Theorem C15_roundtrip_refuted_source :
  exists g h s', let s := orun g (init g) h in
    restore g false s = (ROk, Some s') /\ sim s s' /\ oeq s s' = true /\
    oclass_of (ostep g s (OpCollect 1 true)) = ROk /\
    oclass_of (ostep g s' (OpCollect 1 true)) = RAttribute.
Proof. exact source_refuted. Qed.
Print Assumptions C15_roundtrip_refuted_source.

(** Refuted: after set_wall_brdf on some walls only (every call answered Ok) the object cannot be
    restored: check() rejects the unset direction entries (finding restore_refused_partial_materials). *)
Theorem C15_roundtrip_refuted_partial_materials :
  exists g h, let s := orun g (init g) h in
    Forall (fun c => c = ROk) (map oclass_of (otrace g (init g) h)) /\
    restore g false s = (RValue, None) /\ restore g true s = (RValue, None).
Proof. exact partial_materials_refuted. Qed.
Print Assumptions C15_roundtrip_refuted_partial_materials.

(** Refuted: calculate_energy_exchange without recalculate keeps the old histogram but overwrites the
    duration / resolution; the resulting object cannot be restored (finding restore_refused_stale_cache). *)
Theorem C15_roundtrip_refuted_stale_cache :
  exists g h, let s := orun g (init g) h in
    Forall (fun c => c = ROk) (map oclass_of (otrace g (init g) h)) /\
    restore g false s = (RValue, None) /\ restore g true s = (RValue, None).
Proof. exact stale_cache_refuted. Qed.
Print Assumptions C15_roundtrip_refuted_stale_cache.

(** Bisimulation, for the calls for which it is proved ([covered]: set_wall_brdf, set_air_attenuation,
    dictionary and file round trips): similar objects answer with the same exception class and the same
    observation, and the successors are similar again ... *)
Theorem C15_bisim_partial (g : geo) (s s' : ostate) (o : op) :
  covered o = true -> sim s s' -> normr (ostep g s o) = normr (ostep g s' o).
Proof. exact (bisim_step g s s' o). Qed.
Print Assumptions C15_bisim_partial.

(** ... hence every continuation (of any length) by such calls yields equal classes and observations on
    the original and on the restored twin, and similar final states. *)
Theorem C15_bisim_trace_partial (g : geo) (h : list op) (s s' : ostate) :
  forallb covered h = true -> sim s s' ->
  map (fun r => (oclass_of r, oobs_of r)) (otrace g s h) =
  map (fun r => (oclass_of r, oobs_of r)) (otrace g s' h) /\
  sim (orun g s h) (orun g s' h).
Proof. exact (bisim_trace g h s s'). Qed.
Print Assumptions C15_bisim_trace_partial.
