(** C11 -- Receiver collection is geometric, per-receiver and additive over patches. *)
From Coq Require Import List Arith Bool.
Import ListNotations.
From SV Require Import Base.Ops Base.Arr Base.Sums Model.Vec3 Model.Exchange Model.Scene
  Proofs.SceneRefine Proofs.HistProofs Proofs.ReceiverProofs.

(** (1) the contribution of a patch: its histogram in the outgoing slot nearest to the
    receiver direction, times the receiver factor (solid angle / (pi * area), zero if hidden),
    times the attenuation, delayed by the patch->receiver bins.  Full strength holds when the
    delayed contribution fits into the histogram (the code's np.roll wraps otherwise: known
    finding C11/receiver_wrap, see [C11_wrap_refuted]). *)
Theorem C11_patch_term_partial {T} {O : Ops T} {RL : RingLaws T} (sc : @scene T) tm E r k b t :
  k < s_np sc -> b < s_nb sc -> t < n_samples tm -> r_delay sc tm r k < n_samples tm ->
  (forall u, n_samples tm - r_delay sc tm r k <= u -> u < n_samples tm ->
             get4 E k (r_out_index sc r k) b u = 0%T) ->
  get3 (patchwise sc tm E r) k b t =
  if t <? r_delay sc tm r k then 0%T
  else ((get4 E k (r_out_index sc r k) b (t - r_delay sc tm r k) * r_factor r k) *
        attn sc b (r_dist sc r k))%T.
Proof. exact (patchwise_fits sc tm E r k b t). Qed.
Print Assumptions C11_patch_term_partial.

Theorem C11_wrap_refuted {T} {O : Ops T} (sc : @scene T) tm E r k b t :
  k < s_np sc -> b < s_nb sc -> r_delay sc tm r k < n_samples tm -> t < r_delay sc tm r k ->
  get3 (patchwise sc tm E r) k b t = r_term sc E r k b (t + n_samples tm - r_delay sc tm r k).
Proof. exact (patchwise_wraps sc tm E r k b t). Qed.
Print Assumptions C11_wrap_refuted.

Theorem C11_nearest_slot {T} {O : Ops T} (sc : @scene T) (r : @receiver T) k :
  r_out_index sc r k = nearest (out_dirs sc (wall sc k)) (vnormalize (vsub (r_pos r) (center sc k))).
Proof. reflexivity. Qed.
Print Assumptions C11_nearest_slot.

(** hidden patches (or patches seen from behind: the visibility input is false) contribute
    exactly nothing *)
Theorem C11_hidden {T} {O : Ops T} {RL : RingLaws T} (sc : @scene T) tm E r k b t :
  nthb (r_vis r) k = false -> get3 (patchwise sc tm E r) k b t = 0%T.
Proof. exact (patchwise_hidden sc tm E r k b t). Qed.
Print Assumptions C11_hidden.

(** (2) per receiver *)
Theorem C11_per_receiver {T} {O : Ops T} (sc : @scene T) tm E (rs1 rs2 : list (@receiver T)) :
  map (patchwise sc tm E) (rs1 ++ rs2) = map (patchwise sc tm E) rs1 ++ map (patchwise sc tm E) rs2.
Proof. exact (receivers_independent sc tm E rs1 rs2). Qed.
Print Assumptions C11_per_receiver.

(** (3) the mono curve is the sum of the patch-wise curves *)
Theorem C11_mono_sum {T} {O : Ops T} {RL : RingLaws T} (sc : @scene T) tm (pw : @arr3 T) b t :
  b < s_nb sc -> t < n_samples tm ->
  get2 (mono_of sc tm pw) b t = sumf (seq 0 (s_np sc)) (fun k => get3 pw k b t).
Proof. exact (mono_is_sum sc tm pw b t). Qed.
Print Assumptions C11_mono_sum.

(** (4) direct sound: exactly 1/(4 pi r^2) exp(-m r) (times the directivity factor, if any)
    in the bin of r/c, nothing anywhere else *)
Theorem C11_direct {T} {O : Ops T} {RL : RingLaws T} (sc : @scene T) tm E s r rdf b t :
  b < s_nb sc -> t < n_samples tm ->
  get2 (mono sc tm E s r true rdf) b t =
  (get2 (mono sc tm E s r false rdf) b t +
   (if t =? delay_floor (vnorm (vsub (r_pos r) (src_pos s))) (t_c tm) (t_dt tm)
    then direct_val sc s r rdf b else 0))%T.
Proof. exact (mono_direct sc tm E s r rdf b t). Qed.
Print Assumptions C11_direct.

(** (5) the receiver formula of the COMPOSED model (Model/Full.v: polygons -> tiling -> visibility
    -> form factors -> exchange -> receiver), written in the room's own data.  In band [b] and
    bin [t] the mono curve is the sum, over the patches that the room's point visibility reports
    visible from the receiver, of
      patch histogram in the outgoing slot nearest to the receiver direction (direction set of
      the patch's wall = reference set carried to the wall frame)
      x pt_solution(receiver mode) of the patch polygon x exp(-m_b d),
    read from the histogram bin that the code's cyclic delay (np.roll by the ceiling bin of
    d / c / dt) shows in bin [t] -- with the known wrap (finding C11/receiver_wrap) --
    plus, when [direct], 1/(4 pi r^2) exp(-m_b r) in the truncation bin of r / c / dt. *)
From SV Require Import Model.Frame Model.Tiling Model.Visibility Model.PtSolution Model.Full
  Proofs.FullReceiver.

Theorem C11_room_receiver {T} {O : Ops T} {RL : RingLaws T}
    (rm : @room T) tm (src rcv : @vec T) K direct b t :
  b < rm_nb rm -> t < n_samples tm ->
  get2 (room_mono rm tm src rcv K direct) b t =
  (sumf (filter (fun k => nthb (room_point_vis rm rcv) k) (seq 0 (rm_np rm))) (fun k =>
     let N := n_samples tm in
     let d := vdist (nthv (rm_centers rm) k) rcv in
     let w := nthn (pr_wall_ids (rm_processed rm)) k in
     let slot := nearest (wall_dirs (nthv (rm_normals rm) w) (nthv (rm_ups rm) w) (rm_ref_out rm))
                         (vnormalize (vsub rcv (nthv (rm_centers rm) k))) in
     let u := (t + (N - delay_ceil d (t_c tm) (t_dt tm) mod N)) mod N in
     ((get4 (patch_hist (room_scene rm) tm (room_source rm src) K) k slot b u *
       pt_solution (rm_thr rm) true rcv (nth k (rm_patch_pts rm) [])) *
      texp ((- nthT (rm_att rm) b) * d))%T) +
   (if direct && (t =? delay_floor (vnorm (vsub rcv src)) (t_c tm) (t_dt tm))
    then (let rr := vnorm (vsub rcv src) in
          (1 * (1 / ((four * tpi) * (rr * rr)))) * texp ((- nthT (rm_att rm) b) * rr))
    else 0))%T.
Proof. exact (room_receiver_formula rm tm src rcv K direct b t). Qed.
Print Assumptions C11_room_receiver.

(** (6) ... and with "delayed by the patch->receiver travel time" at full strength (truncated
    shift: nothing before the delay, nothing wraps) when the delayed energy of every VISIBLE
    patch fits into the histogram *)
Theorem C11_room_receiver_partial {T} {O : Ops T} {RL : RingLaws T}
    (rm : @room T) tm (src rcv : @vec T) K direct b t :
  b < rm_nb rm -> t < n_samples tm ->
  (forall k, k < rm_np rm -> nthb (room_point_vis rm rcv) k = true ->
     room_recv_bin rm tm rcv k < n_samples tm /\
     forall u, n_samples tm - room_recv_bin rm tm rcv k <= u -> u < n_samples tm ->
       get4 (patch_hist (room_scene rm) tm (room_source rm src) K) k (room_recv_slot rm rcv k) b u = 0%T) ->
  get2 (room_mono rm tm src rcv K direct) b t =
  (sumf (filter (fun k => nthb (room_point_vis rm rcv) k) (seq 0 (rm_np rm))) (fun k =>
     let d := vdist (nthv (rm_centers rm) k) rcv in
     let g := delay_ceil d (t_c tm) (t_dt tm) in
     if t <? g then 0%T
     else ((get4 (patch_hist (room_scene rm) tm (room_source rm src) K) k (room_recv_slot rm rcv k) b (t - g) *
            pt_solution (rm_thr rm) true rcv (nth k (rm_patch_pts rm) [])) *
           texp ((- nthT (rm_att rm) b) * d))%T) +
   (if direct && (t =? delay_floor (vnorm (vsub rcv src)) (t_c tm) (t_dt tm))
    then (let rr := vnorm (vsub rcv src) in
          (1 * (1 / ((four * tpi) * (rr * rr)))) * texp ((- nthT (rm_att rm) b) * rr))
    else 0))%T.
Proof. exact (room_receiver_formula_fits rm tm src rcv K direct b t). Qed.
Print Assumptions C11_room_receiver_partial.

(** the names used in (6): the receiver-leg bin and the slot towards the receiver *)
Theorem C11_room_names {T} {O : Ops T} (rm : @room T) tm (rcv : @vec T) k :
  room_recv_bin rm tm rcv k = delay_ceil (vdist (nthv (rm_centers rm) k) rcv) (t_c tm) (t_dt tm) /\
  room_recv_slot rm rcv k =
    nearest (wall_dirs (nthv (rm_normals rm) (nthn (pr_wall_ids (rm_processed rm)) k))
                       (nthv (rm_ups rm) (nthn (pr_wall_ids (rm_processed rm)) k)) (rm_ref_out rm))
            (vnormalize (vsub rcv (nthv (rm_centers rm) k))).
Proof. split; reflexivity. Qed.
Print Assumptions C11_room_names.
