(** C11 -- Receiver collection is geometric, per-receiver and additive over patches. *)
From Coq Require Import List Arith Bool.
Import ListNotations.
From SV Require Import Base.Ops Base.Arr Base.Sums Model.Vec3 Model.Exchange Model.Scene
  Proofs.SceneRefine Proofs.HistProofs Proofs.ReceiverProofs.

(** (1) the contribution of a patch: its histogram in the outgoing slot nearest to the
    receiver direction, times the receiver factor (solid angle / (pi * area), zero if hidden),
    times the attenuation, delayed by the patch->receiver bins.  Full strength holds when the
    delayed contribution fits into the histogram (the code's np.roll wraps otherwise: known
    finding C11/receiver_wrap, see [C11_wrap_refuted]). *)
Theorem C11_patch_term_partial {T} {O : Ops T} {RL : RingLaws T} (sc : @scene T) tm E r k b t :
  k < s_np sc -> b < s_nb sc -> t < n_samples tm -> r_delay sc tm r k < n_samples tm ->
  (forall u, n_samples tm - r_delay sc tm r k <= u -> u < n_samples tm ->
             get4 E k (r_out_index sc r k) b u = 0%T) ->
  get3 (patchwise sc tm E r) k b t =
  if t <? r_delay sc tm r k then 0%T
  else ((get4 E k (r_out_index sc r k) b (t - r_delay sc tm r k) * r_factor r k) *
        attn sc b (r_dist sc r k))%T.
Proof. exact (patchwise_fits sc tm E r k b t). Qed.
Print Assumptions C11_patch_term_partial.

Theorem C11_wrap_refuted {T} {O : Ops T} (sc : @scene T) tm E r k b t :
  k < s_np sc -> b < s_nb sc -> r_delay sc tm r k < n_samples tm -> t < r_delay sc tm r k ->
  get3 (patchwise sc tm E r) k b t = r_term sc E r k b (t + n_samples tm - r_delay sc tm r k).
Proof. exact (patchwise_wraps sc tm E r k b t). Qed.
Print Assumptions C11_wrap_refuted.

Theorem C11_nearest_slot {T} {O : Ops T} (sc : @scene T) (r : @receiver T) k :
  r_out_index sc r k = nearest (out_dirs sc (wall sc k)) (vnormalize (vsub (r_pos r) (center sc k))).
Proof. reflexivity. Qed.
Print Assumptions C11_nearest_slot.

(** hidden patches (or patches seen from behind: the visibility input is false) contribute
    exactly nothing *)
Theorem C11_hidden {T} {O : Ops T} {RL : RingLaws T} (sc : @scene T) tm E r k b t :
  nthb (r_vis r) k = false -> get3 (patchwise sc tm E r) k b t = 0%T.
Proof. exact (patchwise_hidden sc tm E r k b t). Qed.
Print Assumptions C11_hidden.

(** (2) per receiver *)
Theorem C11_per_receiver {T} {O : Ops T} (sc : @scene T) tm E (rs1 rs2 : list (@receiver T)) :
  map (patchwise sc tm E) (rs1 ++ rs2) = map (patchwise sc tm E) rs1 ++ map (patchwise sc tm E) rs2.
Proof. exact (receivers_independent sc tm E rs1 rs2). Qed.
Print Assumptions C11_per_receiver.

(** (3) the mono curve is the sum of the patch-wise curves *)
Theorem C11_mono_sum {T} {O : Ops T} {RL : RingLaws T} (sc : @scene T) tm (pw : @arr3 T) b t :
  b < s_nb sc -> t < n_samples tm ->
  get2 (mono_of sc tm pw) b t = sumf (seq 0 (s_np sc)) (fun k => get3 pw k b t).
Proof. exact (mono_is_sum sc tm pw b t). Qed.
Print Assumptions C11_mono_sum.

(** (4) direct sound: exactly 1/(4 pi r^2) exp(-m r) (times the directivity factor, if any)
    in the bin of r/c, nothing anywhere else *)
Theorem C11_direct {T} {O : Ops T} {RL : RingLaws T} (sc : @scene T) tm E s r rdf b t :
  b < s_nb sc -> t < n_samples tm ->
  get2 (mono sc tm E s r true rdf) b t =
  (get2 (mono sc tm E s r false rdf) b t +
   (if t =? delay_floor (vnorm (vsub (r_pos r) (src_pos s))) (t_c tm) (t_dt tm)
    then direct_val sc s r rdf b else 0))%T.
Proof. exact (mono_direct sc tm E s r rdf b t). Qed.
Print Assumptions C11_direct.
