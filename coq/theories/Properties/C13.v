(** C13 -- Constructed BRDFs conserve energy, are non-negative and reciprocal.
    Only theorem statements, each closed by [exact].

    Model: [Model/Brdf.v] ([from_scattering] = [brdf.create_from_scattering],
    [from_directional] = [brdf.create_from_directional_scattering]); tables are [brdf[i][o][b]].
    "Gauss-type hemisphere sampling" ([Spec/BrdfSpec.v]) for raw weights [w], cosines [cosv] and
    mirror map [mu] on [n] directions:
      (H1) [gauss_H1]  : 2 * sum_o w_o cos_o = sum_o w_o
      (H2) [mirror_H2] : mu is an involution on indices, w_(mu i) = w_i, cos_(mu i) = cos_i
      (H3) [pos_H3]    : 0 < w_o, 0 < cos_o
    [T] is any ordered field; [tpi] is only assumed positive.
    [reflected n B cosv wh i b] = sum_(o<n) B[i][o][b] * cos_o * wh_o. *)
From Coq Require Import List Arith Bool.
Import ListNotations.
From SV Require Import Base.Ops Base.Arr Base.Sums Model.Exchange Model.Brdf Spec.BrdfSpec
  Proofs.BrdfField Proofs.BrdfProofs.

(** (0) what the normalised weights are: w_hat_o = w_o * (2 pi / sum_o w_o) *)
Theorem C13_normalised_weights {T} {O : Ops T} {RL : RingLaws T} (w : list T) o :
  nthT (norm_weights w) o = (nthT w o * (((1 + 1) * tpi) / wsum w))%T
  /\ wsum w = sumf (seq 0 (length w)) (nthT w).
Proof. exact (conj (nth_norm w o) (wsum_seq w)). Qed.
Print Assumptions C13_normalised_weights.

(** (1) energy: for every incident direction [i] and band [b] the table reflects exactly
    [1 - a_b]; every entry is the diffuse level [s_b/pi (1-a_b)] plus, at [o = mu i] only, a
    specular excess; the diffuse level carries [s_b (1-a_b)], the excess [(1-s_b)(1-a_b)]. *)
Theorem C13_energy {T} {O : Ops T} {RL : RingLaws T} {OL : OrderLaws T} {FL : FieldLaws T}
    n nb (w cosv : list T) (mu : list nat) (s a : list T) i b :
  length w = n -> gauss_H1 n w cosv -> mirror_H2 n mu w cosv -> pos_H3 n w cosv -> (0 < tpi)%T ->
  i < n -> b < nb ->
  let B := from_scattering n nb cosv w mu s a in
  let wh := norm_weights w in
  reflected n B cosv wh i b = (1 - nthT a b)%T
  /\ (forall o, o < n ->
        get3 B i o b = (diffuse_part s a b
                        + (if o =? nthn mu i then specular_part cosv wh mu s a i b else 0))%T)
  /\ sumf (seq 0 n) (fun o => (diffuse_part s a b * nthT cosv o * nthT wh o)%T)
     = (nthT s b * (1 - nthT a b))%T
  /\ (specular_part cosv wh mu s a i b * nthT cosv (nthn mu i) * nthT wh (nthn mu i))%T
     = ((1 - nthT s b) * (1 - nthT a b))%T.
Proof. exact (scat_energy_full n nb w cosv mu s a i b). Qed.
Print Assumptions C13_energy.

(** (1') rescaling all weights by a non-zero factor leaves both tables (and the normalised
    weights, hence the reflected energy) unchanged *)
Theorem C13_scale_invariant {T} {O : Ops T} {RL : RingLaws T} {OL : OrderLaws T} {FL : FieldLaws T}
    (c : T) ns n nb (w cosv : list T) (mu : list nat) (s a : list T) (ds : arr3) :
  c <> 0%T -> wsum w <> 0%T ->
  norm_weights (map (tmul c) w) = norm_weights w
  /\ from_scattering n nb cosv (map (tmul c) w) mu s a = from_scattering n nb cosv w mu s a
  /\ from_directional ns n nb cosv (map (tmul c) w) ds a = from_directional ns n nb cosv w ds a.
Proof.
  exact (fun Hc HW => conj (norm_weights_scale c w Hc HW)
          (conj (scat_scale_invariant c n nb cosv w mu s a Hc HW)
                (dir_scale_invariant c ns n nb cosv w ds a Hc HW))).
Qed.
Print Assumptions C13_scale_invariant.

(** (2) non-negativity for coefficients in [0,1] *)
Theorem C13_nonneg {T} {O : Ops T} {RL : RingLaws T} {OL : OrderLaws T} {FL : FieldLaws T}
    n nb (w cosv : list T) (mu : list nat) (s a : list T) i o b :
  length w = n -> (forall j, j < n -> nthn mu j < n) -> pos_H3 n w cosv -> (0 < tpi)%T ->
  unit_interval nb s -> unit_interval nb a -> i < n -> o < n -> b < nb ->
  (0 <= get3 (from_scattering n nb cosv w mu s a) i o b)%T.
Proof. exact (scat_nonneg n nb w cosv mu s a i o b). Qed.
Print Assumptions C13_nonneg.

Theorem C13_nonneg_directional {T} {O : Ops T} {RL : RingLaws T} {OL : OrderLaws T} {FL : FieldLaws T}
    ns nr nb (w cosv : list T) (ds : arr3) (a : list T) i o b :
  length w = nr -> pos_H3 nr w cosv -> (0 < tpi)%T -> unit_interval nb a ->
  (0 <= get3 ds i o b)%T -> i < ns -> o < nr -> b < nb ->
  (0 <= get3 (from_directional ns nr nb cosv w ds a) i o b)%T.
Proof. exact (dir_nonneg ns nr nb w cosv ds a i o b). Qed.
Print Assumptions C13_nonneg_directional.

(** (3) reciprocity on samplings closed under the mirror operation (needs (H2) only) *)
Theorem C13_symmetric {T} {O : Ops T} {RL : RingLaws T}
    n nb (cosv w : list T) (mu : list nat) (s a : list T) i o b :
  mirror_H2 n mu w cosv -> i < n -> o < n -> b < nb ->
  get3 (from_scattering n nb cosv w mu s a) i o b = get3 (from_scattering n nb cosv w mu s a) o i b.
Proof. exact (scat_symmetric n nb cosv w mu s a i o b). Qed.
Print Assumptions C13_symmetric.

(** (4) directional scattering coefficients that sum to 1 over the outgoing directions:
    the table reflects exactly [1 - a_b] ([ns] incident, [nr] outgoing directions) *)
Theorem C13_directional {T} {O : Ops T} {RL : RingLaws T} {OL : OrderLaws T} {FL : FieldLaws T}
    ns nr nb (w cosv : list T) (ds : arr3) (a : list T) i b :
  length w = nr -> rows_sum_one ns nr nb ds -> pos_H3 nr w cosv -> (0 < tpi)%T ->
  i < ns -> b < nb ->
  reflected nr (from_directional ns nr nb cosv w ds a) cosv (norm_weights w) i b = (1 - nthT a b)%T.
Proof. exact (dir_energy ns nr nb w cosv ds a i b). Qed.
Print Assumptions C13_directional.
