(** C17 -- Simulation results do not depend on where or how the room is placed.
    Only theorem statements, each closed by [exact].

    Decomposition (DESIGN.md section 5, C17):
    - translation: every stage of the pipeline model returns the identical list (a);
    - renumbering of the patches, as induced by axis permutations / mirrorings: the L0 recursion
      and the pipeline model's histograms correspond patch by patch (b);
    - rigid maps [x |-> M x + t], [M^T M = I]: all distances and delay bins are preserved (c);
    - the geometric kernels: what is proved for each of them (d);
    - rescaling a wall's normal / up vector by positive factors changes no BRDF direction (e).
    - the patch subdivision of a wall under the 48 signed axis permutations: the patches of the
      image wall are the images of the patches, renumbered (f).
    - the COMPOSED room model ([Model/Full.v]: polygons -> tiling -> visibility -> form factors ->
      shares -> exchange -> receiver) instead of an abstract scene with assumed baked data:
      translating the room description leaves the whole output IDENTICAL, nothing assumed (g);
      under a signed axis permutation the tiling, centres, areas, wall ids, all delay bins (h), the
      source / receiver shares and initial energies (i), the wall frames for the 24 rotations (j),
      the Stokes entries of the form-factor matrix (k) of the image room are DERIVED to be the
      renumbered ones; with the visibility data and the Nusselt-branch entries transported
      (hypotheses) the patch histograms correspond (l, partial) and the output curve of the
      rotated room is the identical list (m, partial).
    NOT carried by any theorem (NOT_CARRIED in harness/props/C17.py): the 0.5 %-of-peak bound under
    axis permutations, float rounding, the Nusselt branch,
    [point_in_polygon] under rotations (the visibility statement is conditional on it).
    Stokes form factors under rigid maps ARE carried (d''): the cut-off-free sum, i.e. the code
    with its cut-off 0 as repaired in /repo (it was false for the pinned 1e-3 m cut-off: finding
    C05/similarity_cutoff). *)
From Coq Require Import List Arith Bool Permutation FinFun.
Import ListNotations.
From SV Require Import Base.Ops Base.OpsGeom Base.Arr Base.Sums Model.Vec3 Model.Exchange Model.Scene
  Model.Frame Model.Tiling Model.PtSolution Model.Stokes Model.Visibility Model.Nusselt Model.Full.
From SV Require Import Spec.ExchangeSpec Spec.Isometry Proofs.SceneRefine Proofs.ReceiverProofs
  Proofs.PtSimilarity Proofs.FieldFacts Proofs.StokesSum Proofs.StokesSimilarity Proofs.TilingProofs
  Proofs.TilingPerm
  Proofs.PlacementTranslate Proofs.PlacementRelabel Proofs.PlacementKernels Proofs.PlacementVisibility
  Proofs.FullProofs Proofs.FullTranslate Proofs.FullPlacement Proofs.FullPlacementScene.

(** (a) C17_translate.  Shift every patch centre, the source and the receiver by [t] and keep the
    data produced by the geometry kernels (form factors, visibility, areas, point-to-patch
    shares): the baked transfer factors, the outgoing-slot map, all delay bins, the initial
    energies, the patch histograms of every order, the patch-wise receiver curves and the mono
    curve with or without direct sound are IDENTICAL lists.  Commutative ring. *)
Theorem C17_translate {T} {O : Ops T} {RL : RingLaws T} (t : @vec T) (sc : @scene T)
    (s : @source T) (r : @receiver T) (tm : @timing T) (K : nat) (E : @arr4 T) (direct : bool)
    (rdf : option (list T)) :
  s_np sc <= length (s_centers sc) ->
  let sc' := translate_scene t sc in
  let s' := translate_source t s in
  let r' := translate_receiver t r in
  tilde sc' = tilde sc /\ p2o sc' = p2o sc /\ delay_matrix sc' tm = delay_matrix sc tm /\
  e0dir sc' s' = e0dir sc s /\ delay0 sc' tm s' = delay0 sc tm s /\
  patch_hist sc' tm s' K = patch_hist sc tm s K /\
  patchwise sc' tm E r' = patchwise sc tm E r /\
  mono sc' tm E s' r' direct rdf = mono sc tm E s r direct rdf.
Proof. exact (translate_pipeline t sc s r tm K E direct rdf). Qed.
Print Assumptions C17_translate.

(** (a') entry-wise, for ANY scene whose centres are the shifted ones ([translated]), e.g. one whose
    patches were produced by tiling the shifted walls: transfer factor, outgoing slot, initial
    energy, source distance and both delay bins *)
Theorem C17_translate_entries {T} {O : Ops T} {RL : RingLaws T} (t : @vec T) (sc sc' : @scene T)
    (s s' : @source T) (tm : @timing T) (i j d b : nat) :
  translated t sc sc' ->
  src_pos s' = vadd (src_pos s) t /\ src_vis s' = src_vis s /\ src_share s' = src_share s /\
    src_dirfac s' = src_dirfac s ->
  i < s_np sc -> j < s_np sc ->
  tilde_entry sc' i j d b = tilde_entry sc i j d b /\
  out_index sc' i j = out_index sc i j /\
  e0dir_entry sc' s' i d b = e0dir_entry sc s i d b /\
  src_dist sc' s' j = src_dist sc s j /\
  scene_delta sc' tm i j = scene_delta sc tm i j /\
  scene_delta0 sc' tm s' j = scene_delta0 sc tm s j.
Proof.
  intros Htr Hs Hi Hj.
  exact (conj (tr_tilde_entry t sc sc' Htr i j d b Hi Hj)
        (conj (tr_out_index t sc sc' Htr i j Hi Hj)
        (conj (tr_e0dir_entry t sc sc' Htr s s' Hs i d b Hi)
        (conj (tr_src_dist t sc sc' Htr s s' Hs j Hj)
        (conj (tr_scene_delta t sc sc' Htr tm i j Hi Hj)
              (tr_scene_delta0 t sc sc' Htr s s' Hs tm j Hj)))))).
Qed.
Print Assumptions C17_translate_entries.

(** (b) C17_relabel.  [sigma] injective on the patches that occur, the new pair list ANY
    permutation of the [sigma]-image of the old one, kernel data transported by [sigma]: the order-k
    histogram of patch [sigma j] in the new numbering is that of patch [j] in the old one, for
    every order, slot, band and bin.  Commutative ring. *)
Theorem C17_relabel {T} {O : Ops T} {RL : RingLaws T} (sigma : nat -> nat)
    (P P' : list (nat * nat)) (dom : nat -> Prop)
    (delta delta' : nat -> nat -> nat) (c c' : nat -> nat -> nat -> nat -> T)
    (out out' : nat -> nat -> nat) (delta0 delta0' : nat -> nat) (e0 e0' : nat -> nat -> nat -> T) :
  (forall i j, In (i, j) P -> dom i /\ dom j) ->
  (forall x y, dom x -> dom y -> sigma x = sigma y -> x = y) ->
  Permutation P' (map (sig2 sigma) P) ->
  (forall i j, In (i, j) P -> delta' (sigma i) (sigma j) = delta i j) ->
  (forall i j, In (i, j) P -> out' (sigma i) (sigma j) = out i j) ->
  (forall i j d b, In (i, j) P -> c' (sigma i) (sigma j) d b = c i j d b) ->
  (forall j, dom j -> delta0' (sigma j) = delta0 j) ->
  (forall j d b, dom j -> e0' (sigma j) d b = e0 j d b) ->
  forall k j d b t, dom j ->
    E P' delta' c' out' delta0' e0' k (sigma j) d b t = E P delta c out delta0 e0 k j d b t.
Proof.
  intros H1 H2 H3 H4 H5 H6 H7 H8.
  exact (E_relabel sigma P P' dom H1 H2 H3 delta delta' c c' out out' delta0 delta0' e0 e0' H4 H5 H6 H7 H8).
Qed.
Print Assumptions C17_relabel.

(** (b') the accumulated histogram up to order K *)
Theorem C17_relabel_total {T} {O : Ops T} {RL : RingLaws T} (sigma : nat -> nat)
    (P P' : list (nat * nat)) (dom : nat -> Prop)
    (delta delta' : nat -> nat -> nat) (c c' : nat -> nat -> nat -> nat -> T)
    (out out' : nat -> nat -> nat) (delta0 delta0' : nat -> nat) (e0 e0' : nat -> nat -> nat -> T) :
  (forall i j, In (i, j) P -> dom i /\ dom j) ->
  (forall x y, dom x -> dom y -> sigma x = sigma y -> x = y) ->
  Permutation P' (map (sig2 sigma) P) ->
  (forall i j, In (i, j) P -> delta' (sigma i) (sigma j) = delta i j) ->
  (forall i j, In (i, j) P -> out' (sigma i) (sigma j) = out i j) ->
  (forall i j d b, In (i, j) P -> c' (sigma i) (sigma j) d b = c i j d b) ->
  (forall j, dom j -> delta0' (sigma j) = delta0 j) ->
  (forall j d b, dom j -> e0' (sigma j) d b = e0 j d b) ->
  forall K j d b t, dom j ->
    Tot P' delta' c' out' delta0' e0' K (sigma j) d b t = Tot P delta c out delta0 e0 K j d b t.
Proof.
  intros H1 H2 H3 H4 H5 H6 H7 H8.
  exact (Tot_relabel sigma P P' dom H1 H2 H3 delta delta' c c' out out' delta0 delta0' e0 e0' H4 H5 H6 H7 H8).
Qed.
Print Assumptions C17_relabel_total.

(** (b'') "all arrival bins": the (arrival bin, weight) contributions of the path expansion of patch
    [sigma j] are those of patch [j], listed in a possibly different order.  No law needed. *)
Theorem C17_relabel_arrivals {T} {O : Ops T} (sigma : nat -> nat)
    (P P' : list (nat * nat)) (dom : nat -> Prop)
    (delta delta' : nat -> nat -> nat) (c c' : nat -> nat -> nat -> nat -> T)
    (out out' : nat -> nat -> nat) (delta0 delta0' : nat -> nat) (e0 e0' : nat -> nat -> nat -> T) :
  (forall i j, In (i, j) P -> dom i /\ dom j) ->
  (forall x y, dom x -> dom y -> sigma x = sigma y -> x = y) ->
  Permutation P' (map (sig2 sigma) P) ->
  (forall i j, In (i, j) P -> delta' (sigma i) (sigma j) = delta i j) ->
  (forall i j, In (i, j) P -> out' (sigma i) (sigma j) = out i j) ->
  (forall i j d b, In (i, j) P -> c' (sigma i) (sigma j) d b = c i j d b) ->
  (forall j, dom j -> delta0' (sigma j) = delta0 j) ->
  (forall j d b, dom j -> e0' (sigma j) d b = e0 j d b) ->
  forall k j d b, dom j ->
    Permutation (contrib P' delta' c' out' delta0' e0' k (sigma j) d b)
                (contrib P delta c out delta0 e0 k j d b).
Proof.
  intros H1 H2 H3 H4 H5 H6 H7 H8.
  exact (contrib_relabel sigma P P' dom H1 H2 H3 delta delta' c c' out out' delta0 delta0' e0 e0' H4 H5 H6 H7 H8).
Qed.
Print Assumptions C17_relabel_arrivals.

(** (b''') on the executable pipeline model: two well-formed scenes whose patches are renumbered
    by [sigma], with [sigma]-transported baked factors, slots, delay bins and initial energies,
    have corresponding patch histograms *)
Theorem C17_relabel_scene {T} {O : Ops T} {RL : RingLaws T} (sc sc' : @scene T) (sigma : nat -> nat)
    (tm : @timing T) (s s' : @source T) :
  wf_scene sc -> wf_scene sc' ->
  s_np sc' = s_np sc -> s_nd sc' = s_nd sc -> s_nb sc' = s_nb sc ->
  (forall j, j < s_np sc -> sigma j < s_np sc) ->
  (forall x y, x < s_np sc -> y < s_np sc -> sigma x = sigma y -> x = y) ->
  Permutation (directed (vis_pairs sc')) (map (sig2 sigma) (directed (vis_pairs sc))) ->
  (forall i j, i < s_np sc -> j < s_np sc -> scene_delta sc' tm (sigma i) (sigma j) = scene_delta sc tm i j) ->
  (forall i j, i < s_np sc -> j < s_np sc -> out_index sc' (sigma i) (sigma j) = out_index sc i j) ->
  (forall i j d b, i < s_np sc -> j < s_np sc ->
     tilde_entry sc' (sigma i) (sigma j) d b = tilde_entry sc i j d b) ->
  (forall j, j < s_np sc -> scene_delta0 sc' tm s' (sigma j) = scene_delta0 sc tm s j) ->
  (forall j d b, j < s_np sc -> e0dir_entry sc' s' (sigma j) d b = e0dir_entry sc s j d b) ->
  forall K j d b t, j < s_np sc -> d < s_nd sc -> b < s_nb sc -> t < n_samples tm ->
    get4 (patch_hist sc' tm s' K) (sigma j) d b t = get4 (patch_hist sc tm s K) j d b t.
Proof. exact (patch_hist_relabel sc sc' sigma tm s s'). Qed.
Print Assumptions C17_relabel_scene.

(** (c) C17_distances.  For [M^T M = I] the map [x |-> M x + t] preserves distances, squared
    distances and the inner products of differences, hence every travel-time bin. *)
Theorem C17_distances {T} {O : Ops T} {RL : RingLaws T} (M : @mat T) (t a b c d : @vec T) (cs dt : T) :
  orthogonal M ->
  vdist (place M t a) (place M t b) = vdist a b /\
  vdist2 (place M t a) (place M t b) = vdist2 a b /\
  vdot (vsub (place M t a) (place M t b)) (vsub (place M t c) (place M t d)) = vdot (vsub a b) (vsub c d) /\
  delay_floor (vdist (place M t a) (place M t b)) cs dt = delay_floor (vdist a b) cs dt /\
  delay_ceil (vdist (place M t a) (place M t b)) cs dt = delay_ceil (vdist a b) cs dt.
Proof.
  intros HM.
  exact (conj (place_dist M HM t a b) (conj (place_dist2 M HM t a b) (conj (place_dot_sub M HM t a b c d)
        (conj (place_delay_floor M HM t a b cs dt) (place_delay_ceil M HM t a b cs dt))))).
Qed.
Print Assumptions C17_distances.

(** (c') on scenes: if patch [sigma i] of the placed scene sits where the map carries patch [i]
    (and source / receiver are carried along), the patch-to-patch, source-to-patch,
    patch-to-receiver and direct-sound bins are those of the original scene -- these are the
    delay hypotheses of (b''') *)
Theorem C17_distances_scene {T} {O : Ops T} {RL : RingLaws T} (M : @mat T) (t : @vec T)
    (sc sc' : @scene T) (sigma : nat -> nat) (tm : @timing T) (s s' : @source T)
    (r r' : @receiver T) (i j : nat) :
  orthogonal M ->
  (forall k, k < s_np sc -> center sc' (sigma k) = place M t (center sc k)) ->
  src_pos s' = place M t (src_pos s) -> nthb (src_vis s') (sigma j) = nthb (src_vis s) j ->
  r_pos r' = place M t (r_pos r) ->
  i < s_np sc -> j < s_np sc ->
  scene_delta sc' tm (sigma i) (sigma j) = scene_delta sc tm i j /\
  scene_delta0 sc' tm s' (sigma j) = scene_delta0 sc tm s j /\
  r_delay sc' tm r' (sigma j) = r_delay sc tm r j /\
  direct_bin tm s' r' = direct_bin tm s r.
Proof.
  intros HM Hc Hs Hv Hr Hi Hj.
  exact (conj (placed_scene_delta M HM t sc sc' sigma Hc tm i j Hi Hj)
        (conj (placed_scene_delta0 M HM t sc sc' sigma Hc tm s s' j Hj Hs Hv)
        (conj (placed_r_delay M HM t sc sc' sigma Hc tm r r' j Hj Hr)
              (placed_direct_bin M HM t tm s s' r r' Hs Hr)))).
Qed.
Print Assumptions C17_distances_scene.

(** (d) C17_kernels (PARTIAL: what the kernel developments prove).  Point-to-patch factor: both
    modes, translations and all linear isometries (C04).  Stokes form factor: translations, with
    the code's cut-off in place (C05); rigid maps: see (d'') below.
    Tiling: translation equivariant (C08). *)
Theorem C17_kernels_partial {T} {O : Ops T} {RL : RingLaws T} {OL : OrderLaws T} {DL : DivLaws T}
    (M : @mat T) (thr cut : T) (recv : bool) (t pt : @vec T) (pts pi pj : list (@vec T)) (a : T)
    (q : @Tiling.quad T) (p : T) :
  orthogonal M ->
  pt_solution thr recv (vadd pt t) (map (fun x => vadd x t) pts) = pt_solution thr recv pt pts /\
  pt_solution thr recv (mapply M pt) (map (mapply M) pts) = pt_solution thr recv pt pts /\
  stokes_integration cut (map (fun x => vadd x t) pi) (map (fun x => vadd x t) pj) a =
    stokes_integration cut pi pj a /\
  create_patches (translate_quad t q) p = map (translate_quad t) (create_patches q p).
Proof.
  intros HM.
  exact (conj (pt_solution_translate thr recv t pt pts)
        (conj (pt_solution_iso M HM thr recv pt pts)
        (conj (stokes_gen_translate (cut_active cut) t pi pj a)
              (create_patches_translate q t p)))).
Qed.
Print Assumptions C17_kernels_partial.

(** (d'') C17_kernels, Stokes form factor under rigid placement maps [x |-> M x + t], [M^T M = I]
    (rotations, mirrorings, the 48 signed axis permutations): the cut-off-free double Boole sum and
    the code's value with its cut-off 0 ([np.abs(x[-1]-x[0]) > 0]) are unchanged -- the sum over the
    three coordinates is a sum of inner products of segment step vectors, the entries only contain
    distances.  Ordered field; [tln], [tsqrt] uninterpreted. *)
Theorem C17_kernels_stokes_rotation {T} {O : Ops T} {RL : RingLaws T} {OL : OrderLaws T}
    {FL : FieldLaws T} {AL : FieldFacts.AbsLaws T} (M : @mat T) (t : @vec T)
    (pi pj : list (@vec T)) (a : T) :
  orthogonal M ->
  stokes_nocut (map (place M t) pi) (map (place M t) pj) a = stokes_nocut pi pj a /\
  stokes_integration 0%T (map (place M t) pi) (map (place M t) pj) a = stokes_integration 0%T pi pj a.
Proof.
  intros HM. exact (conj (stokes_nocut_orthogonal M t pi pj a HM) (stokes_cut0_orthogonal M t pi pj a HM)).
Qed.
Print Assumptions C17_kernels_stokes_rotation.

(** (d') visibility, CONDITIONAL: the line-of-sight test against a surface is invariant under a
    rigid placement map provided the [point_in_polygon] queries it makes (view point, evaluated
    point, intersection point) answer the same in both poses.  The proviso is not proved. *)
Theorem C17_kernels_visibility_partial {T} {O : Ops T} {RL : RingLaws T} (M : @mat T) (t : @vec T)
    (eps eta : T) (p q : @vec T) (s : @surface T) :
  orthogonal M -> s_pts s <> [] ->
  pip eps eta (place_surface M t s) (place M t p) = pip eps eta s p ->
  pip eps eta (place_surface M t s) (place M t q) = pip eps eta s q ->
  (forall x, project_to_plane false eps p q (s_p0 s) (s_nrm s) = Some x ->
             pip eps eta (place_surface M t s) (place M t x) = pip eps eta s x) ->
  basic_visibility eps eta (place M t p) (place M t q) (place_surface M t s) = basic_visibility eps eta p q s.
Proof. intros HM. exact (basic_visibility_place M HM t eps eta p q s). Qed.
Print Assumptions C17_kernels_visibility_partial.

(** (e) C17_normal_scale.  Rescaling the normal and the up vector given for a wall by positive
    factors changes no BRDF direction of that wall (ordered field with square roots:
    [sqrt (s^2 x) = s sqrt x] is derived from [SqrtLaws]). *)
Theorem C17_normal_scale {T} {O : Ops T} {RL : RingLaws T} {OL : OrderLaws T} {FL : FieldLaws T}
    {SL : SqrtLaws T} (s s' : T) (n u : @vec T) (dirs : list (@vec T)) :
  (0 < s)%T -> (0 < s')%T -> (0 < vnorm2 n)%T -> (0 < vnorm2 u)%T ->
  wall_dirs (vscale s n) (vscale s' u) dirs = wall_dirs n u dirs.
Proof. exact (wall_dirs_scale s s' n u dirs). Qed.
Print Assumptions C17_normal_scale.

(** (f) C17_tiling_axis_permutation.  "Permuting the coordinate axes (and mirroring), which also
    renumbers the patches": for each of the 48 maps
    [m v = (e0 * v[sigma 0], e1 * v[sigma 1], e2 * v[sigma 2])] and every wall of C08's domain
    ([wall_ok]: in a coordinate plane, both in-plane extents at least the patch size [p > 0]) the
    image wall is again such a wall (flat axis [f'] with [sigma f' = f], flat coordinate
    [e_f' * c]), it has the same number of patches, and the list of patches the subdivision makes
    of the image wall -- in both engines -- is a PERMUTATION of the images of the wall's patches,
    each with its four vertices reordered by one fixed [reorder o] (one of the 8 orders of a
    rectangle; the same [o] for all patches of the wall).  Hence also: seen as vertex sets, the
    patches of the image wall are, up to a renumbering, the images of the patches.
    Ordered field with floor (exact arithmetic; the mirrored cell edges are computed from the new
    minimum).  The explicit index map is [C08_axis_permutation_index]. *)
Theorem C17_tiling_axis_permutation {T} {O : Ops T} {RL : RingLaws T} {OL : OrderLaws T}
    {FL : FieldLaws T} {FlL : FloorLaws T} (sigma : nat -> nat) (e0 e1 e2 : T) (q : @Tiling.quad T) p f c :
  Permutation [sigma 0; sigma 1; sigma 2] [0; 1; 2] ->
  (e0 = 1 \/ e0 = - (1))%T -> (e1 = 1 \/ e1 = - (1))%T -> (e2 = 1 \/ e2 = - (1))%T ->
  wall_ok q p f c ->
  let m := fun v : @vec T =>
    mkv (e0 * coord (sigma 0%nat) v)%T (e1 * coord (sigma 1%nat) v)%T (e2 * coord (sigma 2%nat) v)%T in
  let e := fun d : nat => match d with 0 => e0 | 1 => e1 | _ => e2 end in
  (exists f' o, f' < 3 /\ sigma f' = f /\ o < 8 /\
     wall_ok (map_quad m q) p f' (e f' * c)%T /\
     total_number_of_patches (map_quad m q) p = total_number_of_patches q p /\
     Permutation (create_patches (map_quad m q) p)
                 (map (fun Q => reorder o (map_quad m Q)) (create_patches q p)) /\
     Permutation (kang_patches (map_quad m q) p)
                 (map (fun Q => reorder o (map_quad m Q)) (kang_patches q p))) /\
  (exists L, Permutation (create_patches (map_quad m q) p) L /\
     Forall2 (fun Q' Q => Permutation (verts Q') (map m (verts Q))) L (create_patches q p)).
Proof.
  exact (fun Hp H0 H1 H2 Hok =>
           conj (tiling_signed_perm_both sigma e0 e1 e2 Hp H0 H1 H2 q p f c Hok)
                (tiling_signed_perm_vertices sigma e0 e1 e2 Hp H0 H1 H2 q p f c Hok)).
Qed.
Print Assumptions C17_tiling_axis_permutation.

(** * The composed room model (Model/Full.v): placement invariance derived from the room description *)

(** (g) C17_room_translate.  Shift every wall polygon of a room description by [t] (normals, up
    vectors, patch size, BRDF data, tolerances kept), and the source and the receiver with it.
    NOTHING is assumed about the tiling, the visibility, the form factors or the shares of the
    shifted room -- they are computed by the composed model and proved to be: the shifted patch
    polygons and centroids, the same areas, wall ids, patch-to-patch visibility matrix
    ([point_in_polygon], [project_to_plane], [basic_visibility] are translation invariant), the
    same form-factor matrix (Stokes AND Nusselt entries), the same point visibility and shares.
    Hence the baked scene / source / receiver are the translated ones of (a), and the patch
    histograms of every order and the mono curve of [room_mono] are IDENTICAL lists.
    Ordered field with floor (exact arithmetic): comparisons of shifted abscissae, the tiling's
    min / max, the centroid [sum / 4]. *)
Theorem C17_room_translate {T} {O : Ops T} {RL : RingLaws T} {OL : OrderLaws T} {FL : FieldLaws T}
    {FlL : FloorLaws T} (t : @vec T) (rm : @room T) (tm : @timing T) (src rcv : @vec T) (K : nat)
    (direct : bool) :
  let rm' := translate_room t rm in
  (rm_patch_pts rm' = map (map (fun p => vadd p t)) (rm_patch_pts rm) /\
   rm_centers rm' = map (fun c => vadd c t) (rm_centers rm) /\
   rm_areas rm' = rm_areas rm /\
   pr_wall_ids (rm_processed rm') = pr_wall_ids (rm_processed rm) /\
   rm_visU rm' = rm_visU rm /\ rm_F rm' = rm_F rm /\
   room_point_vis rm' (vadd src t) = room_point_vis rm src) /\
  room_scene rm' = translate_scene t (room_scene rm) /\
  room_source rm' (vadd src t) = translate_source t (room_source rm src) /\
  room_receiver rm' (vadd rcv t) = translate_receiver t (room_receiver rm rcv) /\
  patch_hist (room_scene rm') tm (room_source rm' (vadd src t)) K =
    patch_hist (room_scene rm) tm (room_source rm src) K /\
  room_mono rm' tm (vadd src t) (vadd rcv t) K direct = room_mono rm tm src rcv K direct.
Proof.
  exact (conj (conj (room_patch_pts_translate t rm) (conj (room_centers_translate t rm)
          (conj (room_areas_translate t rm) (conj (room_wall_ids_translate t rm)
          (conj (room_visU_translate t rm) (conj (room_F_translate t rm) (room_point_vis_translate t rm src)))))))
        (conj (room_scene_translate t rm) (conj (room_source_translate t rm src)
        (conj (room_receiver_translate t rm rcv) (conj (room_patch_hist_translate t rm tm src K)
              (room_mono_translate t rm tm src rcv K direct)))))).
Qed.
Print Assumptions C17_room_translate.

(** the vocabulary of (h)-(l), unfolded.  [sperm_room]: walls, normals, up vectors mapped by
    [m = smap sigma e0 e1 e2]; [walls_ok]: every wall in the domain of C08; [patch_image Q' Q]: [Q'] is
    the image of [Q] with its vertex list re-ordered (one of the 8 orders of a quadrilateral);
    [relabels .. pi]: [pi] is a bijection of [0, np) that sends every patch to its image on the
    same wall; [sdet]: the handedness (determinant) of [m]. *)
Theorem C17_room_vocabulary {T} {O : Ops T} (sigma : nat -> nat) (e0 e1 e2 : T) (rm : @room T)
    (pi : nat -> nat) (Q' Q : @Tiling.quad T) :
  let m := smap sigma e0 e1 e2 in
  let rm' := sperm_room sigma e0 e1 e2 rm in
  (rm_walls rm' = map (map_quad m) (rm_walls rm) /\ rm_normals rm' = map m (rm_normals rm) /\
   rm_ups rm' = map m (rm_ups rm) /\ rm_patch_size rm' = rm_patch_size rm) /\
  (walls_ok rm <-> forall q, In q (rm_walls rm) -> exists f c, wall_ok q (rm_patch_size rm) f c) /\
  (patch_image sigma e0 e1 e2 Q' Q <-> exists o, Q' = reorder o (map_quad m Q)) /\
  (relabels sigma e0 e1 e2 rm pi <->
     bFun (rm_np rm) pi /\ bInjective (rm_np rm) pi /\
     (forall k, k < rm_np rm ->
        patch_image sigma e0 e1 e2 (nth (pi k) (pr_points (rm_processed rm')) dquad)
                                   (nth k (pr_points (rm_processed rm)) dquad)) /\
     (forall k, k < rm_np rm ->
        nthn (pr_wall_ids (rm_processed rm')) (pi k) = nthn (pr_wall_ids (rm_processed rm)) k)) /\
  (let sg : T := if sigma 0 =? 0 then (if sigma 1 =? 1 then 1%T else (- (1))%T)
                 else if sigma 0 =? 1 then (if sigma 1 =? 2 then 1%T else (- (1))%T)
                 else (if sigma 1 =? 0 then 1%T else (- (1))%T) in
   sdet sigma e0 e1 e2 = (((sg * e0) * e1) * e2)%T).
Proof.
  exact (conj (conj eq_refl (conj eq_refl (conj eq_refl eq_refl)))
        (conj (iff_refl _) (conj (iff_refl _) (conj (iff_refl _) eq_refl)))).
Qed.
Print Assumptions C17_room_vocabulary.

(** (h) C17_room_geometry_axis_permutation.  For each of the 48 signed axis permutations and every
    room whose walls are in the domain of C08: the image room has the same number of patches and the
    same wall-id list, and THERE IS a renumbering [pi] of the patches (built wall by wall from (f))
    such that patch [pi k] of the image room is the image of patch [k], vertices re-ordered, on the
    same wall.  For EVERY such [pi]: centroids, areas, wall ids and patch normals of the image room
    are the [pi]-transported ones, and every travel-time bin -- patch to patch, patch to the carried
    receiver, direct sound, and source to patch where the source visibility agrees -- is unchanged.
    Ordered field with floor. *)
Theorem C17_room_geometry_axis_permutation {T} {O : Ops T} {RL : RingLaws T} {OL : OrderLaws T}
    {FL : FieldLaws T} {FlL : FloorLaws T}
    (sigma : nat -> nat) (e0 e1 e2 : T) (rm : @room T) :
  Permutation [sigma 0; sigma 1; sigma 2] [0; 1; 2] ->
  (e0 = 1 \/ e0 = - (1))%T -> (e1 = 1 \/ e1 = - (1))%T -> (e2 = 1 \/ e2 = - (1))%T ->
  walls_ok rm ->
  let m := smap sigma e0 e1 e2 in
  let rm' := sperm_room sigma e0 e1 e2 rm in
  let sc := room_scene rm in
  let sc' := room_scene rm' in
  rm_np rm' = rm_np rm /\ pr_wall_ids (rm_processed rm') = pr_wall_ids (rm_processed rm) /\
  (exists pi, relabels sigma e0 e1 e2 rm pi) /\
  forall pi, relabels sigma e0 e1 e2 rm pi ->
    (forall k, k < rm_np rm ->
       nthv (rm_centers rm') (pi k) = m (nthv (rm_centers rm) k) /\
       nthT (rm_areas rm') (pi k) = nthT (rm_areas rm) k /\
       wall sc' (pi k) = wall sc k /\
       nthv (pr_normals (rm_processed rm')) (pi k) = m (nthv (pr_normals (rm_processed rm)) k)) /\
    (forall tm i j, i < rm_np rm -> j < rm_np rm ->
       scene_delta sc' tm (pi i) (pi j) = scene_delta sc tm i j) /\
    (forall tm spos rpos k, k < rm_np rm ->
       r_delay sc' tm (room_receiver rm' (m rpos)) (pi k) = r_delay sc tm (room_receiver rm rpos) k /\
       direct_bin tm (room_source rm' (m spos)) (room_receiver rm' (m rpos)) =
         direct_bin tm (room_source rm spos) (room_receiver rm rpos)) /\
    (forall tm spos,
       (forall k, k < rm_np rm ->
          nthb (room_point_vis rm' (m spos)) (pi k) = nthb (room_point_vis rm spos) k) ->
       forall k, k < rm_np rm ->
         scene_delta0 sc' tm (room_source rm' (m spos)) (pi k) = scene_delta0 sc tm (room_source rm spos) k).
Proof.
  intros Hp H0 H1 H2 Hw. cbv zeta.
  split; [exact (sperm_room_np sigma e0 e1 e2 Hp H0 H1 H2 rm Hw)|].
  split; [exact (sperm_room_wall_ids sigma e0 e1 e2 Hp H0 H1 H2 rm Hw)|].
  split; [exact (room_relabel_exists sigma e0 e1 e2 Hp H0 H1 H2 rm Hw)|].
  intros pi Hpi. split; [|split; [|split]].
  - intros k Hk.
    exact (conj (relabel_center sigma e0 e1 e2 Hp H0 H1 H2 rm Hw pi Hpi k Hk)
          (conj (relabel_area sigma e0 e1 e2 Hp H0 H1 H2 rm Hw pi Hpi k Hk)
          (conj (sc_wall sigma e0 e1 e2 rm pi Hpi k Hk)
                (relabel_normal sigma e0 e1 e2 Hp H0 H1 H2 rm Hw pi Hpi k Hk)))).
  - intros tm i j Hi Hj. exact (sc_delta sigma e0 e1 e2 Hp H0 H1 H2 rm Hw pi Hpi tm i j Hi Hj).
  - intros tm spos rpos k Hk.
    exact (conj (sc_r_delay sigma e0 e1 e2 Hp H0 H1 H2 rm Hw pi Hpi rpos tm k Hk)
                (sc_direct_bin sigma e0 e1 e2 Hp H0 H1 H2 rm spos rpos tm)).
  - intros tm spos Hsv k Hk.
    exact (sc_delta0 sigma e0 e1 e2 Hp H0 H1 H2 rm Hw pi Hpi spos Hsv tm k Hk).
Qed.
Print Assumptions C17_room_geometry_axis_permutation.

(** (i) C17_room_initial_energy_axis_permutation.  The point-to-patch shares of the carried source
    and receiver (both modes of [pt_solution]: invariance under linear isometries and under the
    re-ordering of the vertex list; the receiver mode also needs the area) are the renumbered
    shares -- no hypothesis.  Where the visibility from the source is the transported one
    (hypothesis: C07 proves it in closed form for interior points of shoebox rooms only) the
    source distance and the initial energy [energy0] of every patch and band are the renumbered
    ones; for the 24 ROTATIONS ([sdet = 1]) also the incoming-direction sample, hence the
    directional initial energies [e0dir_entry].  [DivLaws]: division by a possibly vanishing norm. *)
Theorem C17_room_initial_energy_axis_permutation {T} {O : Ops T} {RL : RingLaws T} {OL : OrderLaws T}
    {FL : FieldLaws T} {FlL : FloorLaws T} {DL : DivLaws T}
    (sigma : nat -> nat) (e0 e1 e2 : T) (rm : @room T) (pi : nat -> nat) (spos rpos : @vec T) :
  Permutation [sigma 0; sigma 1; sigma 2] [0; 1; 2] ->
  (e0 = 1 \/ e0 = - (1))%T -> (e1 = 1 \/ e1 = - (1))%T -> (e2 = 1 \/ e2 = - (1))%T ->
  walls_ok rm -> relabels sigma e0 e1 e2 rm pi ->
  let m := smap sigma e0 e1 e2 in
  let rm' := sperm_room sigma e0 e1 e2 rm in
  let sc := room_scene rm in
  let sc' := room_scene rm' in
  let s := room_source rm spos in
  let s' := room_source rm' (m spos) in
  (forall k, k < rm_np rm ->
     nthT (src_share s') (pi k) = nthT (src_share s) k /\
     nthT (r_share (room_receiver rm' (m rpos))) (pi k) = nthT (r_share (room_receiver rm rpos)) k) /\
  ((forall k, k < rm_np rm ->
      nthb (room_point_vis rm' (m spos)) (pi k) = nthb (room_point_vis rm spos) k) ->
   (forall k b, k < rm_np rm ->
      src_dist sc' s' (pi k) = src_dist sc s k /\ energy0 sc' s' (pi k) b = energy0 sc s k b) /\
   (sdet sigma e0 e1 e2 = 1%T ->
    forall k d b, k < rm_np rm ->
      src_in_index sc' s' (pi k) = src_in_index sc s k /\
      e0dir_entry sc' s' (pi k) d b = e0dir_entry sc s k d b)).
Proof.
  intros Hp H0 H1 H2 Hw Hpi. cbv zeta. split.
  - intros k Hk.
    exact (conj (sc_src_share sigma e0 e1 e2 Hp H0 H1 H2 rm Hw pi Hpi spos k Hk)
                (sc_rcv_share sigma e0 e1 e2 Hp H0 H1 H2 rm Hw pi Hpi rpos k Hk)).
  - intros Hsv. split.
    + intros k b Hk.
      exact (conj (sc_src_dist sigma e0 e1 e2 Hp H0 H1 H2 rm Hw pi Hpi spos Hsv k Hk)
                  (sc_energy0 sigma e0 e1 e2 Hp H0 H1 H2 rm Hw pi Hpi spos Hsv k b Hk)).
    + intros Hdet k d b Hk.
      exact (conj (sc_src_in_index sigma e0 e1 e2 Hp H0 H1 H2 rm Hw pi Hpi spos Hdet k Hk)
                  (sc_e0dir_entry sigma e0 e1 e2 Hp H0 H1 H2 rm Hw pi Hpi spos Hsv Hdet k d b Hk)).
Qed.
Print Assumptions C17_room_initial_energy_axis_permutation.

(** (j) C17_room_frames_axis_permutation.  The wall frame of the BRDF direction sets is built with a
    cross product, so it follows the handedness of [m]: the frame direction of the image wall is
    the image of the frame direction with the tangential y component multiplied by [sdet] (+1 for
    the 24 rotations, -1 for the 24 maps that contain a mirroring -- there the direction set of the
    image wall is NOT the image of the direction set unless the set is symmetric in y).  For
    rotations every incoming-sample and outgoing-slot index between renumbered patches, and towards
    the carried receiver, is the same. *)
Theorem C17_room_frames_axis_permutation {T} {O : Ops T} {RL : RingLaws T} {OL : OrderLaws T}
    {FL : FieldLaws T} {FlL : FloorLaws T} {DL : DivLaws T}
    (sigma : nat -> nat) (e0 e1 e2 : T) (rm : @room T) (pi : nat -> nat) (rpos : @vec T) :
  Permutation [sigma 0; sigma 1; sigma 2] [0; 1; 2] ->
  (e0 = 1 \/ e0 = - (1))%T -> (e1 = 1 \/ e1 = - (1))%T -> (e2 = 1 \/ e2 = - (1))%T ->
  let m := smap sigma e0 e1 e2 in
  let rm' := sperm_room sigma e0 e1 e2 rm in
  let sc := room_scene rm in
  let sc' := room_scene rm' in
  (forall a b, vcross (m a) (m b) = vscale (sdet sigma e0 e1 e2) (m (vcross a b))) /\
  (forall n u d, wall_dir (m n) (m u) d =
                 m (wall_dir n u (mkv (vx d) (sdet sigma e0 e1 e2 * vy d) (vz d))%T)) /\
  (walls_ok rm -> relabels sigma e0 e1 e2 rm pi -> sdet sigma e0 e1 e2 = 1%T ->
   (forall w, in_dirs sc' w = map m (in_dirs sc w) /\ out_dirs sc' w = map m (out_dirs sc w)) /\
   forall i j, i < rm_np rm -> j < rm_np rm ->
     in_index sc' (pi i) (pi j) = in_index sc i j /\ out_index sc' (pi i) (pi j) = out_index sc i j /\
     r_out_index sc' (room_receiver rm' (m rpos)) (pi i) = r_out_index sc (room_receiver rm rpos) i).
Proof.
  intros Hp H0 H1 H2. cbv zeta.
  split; [exact (smap_cross sigma e0 e1 e2 Hp H0 H1 H2)|].
  split; [exact (wall_dir_sperm sigma e0 e1 e2 Hp H0 H1 H2)|].
  intros Hw Hpi Hdet. split.
  - intros w. exact (conj (sc_in_dirs sigma e0 e1 e2 Hp H0 H1 H2 rm Hdet w)
                          (sc_out_dirs sigma e0 e1 e2 Hp H0 H1 H2 rm Hdet w)).
  - intros i j Hi Hj.
    exact (conj (sc_in_index sigma e0 e1 e2 Hp H0 H1 H2 rm Hw pi Hpi Hdet i j Hi Hj)
          (conj (sc_out_index sigma e0 e1 e2 Hp H0 H1 H2 rm Hw pi Hpi Hdet i j Hi Hj)
                (sc_r_out_index sigma e0 e1 e2 Hp H0 H1 H2 rm Hw pi Hpi rpos Hdet i Hi))).
Qed.
Print Assumptions C17_room_frames_axis_permutation.

(** (k) C17_room_stokes_axis_permutation.  The touching test [_coincidence_check] that selects the
    branch of [universal_form_factor] gives the same answer on renumbered pairs (it only looks at
    vertex distances), and for a visible pair i < j on the Stokes branch the entry of the image
    room's form-factor matrix IS the entry of the room's matrix: the Stokes kernel is invariant
    under signed axis permutations with ANY cut-off (C05) and under the independent
    re-ordering of the two vertex lists (a reversal flips the sign of the contour integral, the
    final absolute value removes it), and the area is the same.  Visibility of the pair in both
    rooms is a hypothesis here (see (l)); a pair on different walls keeps its order. *)
Theorem C17_room_stokes_axis_permutation {T} {O : Ops T} {RL : RingLaws T} {OL : OrderLaws T}
    {FL : FieldLaws T} {FlL : FloorLaws T} {DL : DivLaws T} {AL : FieldFacts.AbsLaws T}
    (sigma : nat -> nat) (e0 e1 e2 : T) (rm : @room T) (pi : nat -> nat) (i j : nat) :
  Permutation [sigma 0; sigma 1; sigma 2] [0; 1; 2] ->
  (e0 = 1 \/ e0 = - (1))%T -> (e1 = 1 \/ e1 = - (1))%T -> (e2 = 1 \/ e2 = - (1))%T ->
  walls_ok rm -> relabels sigma e0 e1 e2 rm pi ->
  let rm' := sperm_room sigma e0 e1 e2 rm in
  (i < rm_np rm -> j < rm_np rm ->
   coincidence_check (rm_thres rm) (nth (pi j) (rm_patch_pts rm') []) (nth (pi i) (rm_patch_pts rm') []) =
   coincidence_check (rm_thres rm) (nth j (rm_patch_pts rm) []) (nth i (rm_patch_pts rm) [])) /\
  (i < j -> j < rm_np rm ->
   (wall (room_scene rm) i <> wall (room_scene rm) j -> pi i < pi j) /\
   (pi i < pi j ->
    vis_sym (room_scene rm) i j = true -> vis_sym (room_scene rm') (pi i) (pi j) = true ->
    coincidence_check (rm_thres rm) (nth j (rm_patch_pts rm) []) (nth i (rm_patch_pts rm) []) = false ->
    get2 (s_F (room_scene rm')) (pi i) (pi j) = get2 (s_F (room_scene rm)) i j)).
Proof.
  intros Hp H0 H1 H2 Hw Hpi. cbv zeta. split.
  - intros Hi Hj. exact (sc_coincidence sigma e0 e1 e2 Hp H0 H1 H2 rm Hw pi Hpi i j Hi Hj).
  - intros Hij Hj. split.
    + exact (relabel_mono sigma e0 e1 e2 Hp H0 H1 H2 rm Hw pi Hpi i j Hij Hj).
    + exact (sc_F_stokes sigma e0 e1 e2 Hp H0 H1 H2 rm Hw pi Hpi i j Hij Hj).
Qed.
Print Assumptions C17_room_stokes_axis_permutation.

(** (l) C17_room_axis_permutation_partial (PARTIAL).  For the 24 rotations among the signed axis
    permutations ([sdet = 1]), a room in the domain of C08 with a non-empty outgoing direction set,
    and any renumbering [pi] of (h): every hypothesis of C17_relabel_scene about delay bins,
    outgoing slots, baked transfer factors on the Stokes branch, initial energies and the pair list
    is DERIVED from (h)-(k).  What remains as hypotheses:
    - the patch-to-patch visibility of the image room is the renumbered one, and the visibility
      from the carried source likewise (C07: conditional on [point_in_polygon]);
    - visible pairs lie on different walls (a theorem for shoebox rooms, [C07_shoebox_visibility];
      it makes [pi] keep the order of every visible pair);
    - for visible TOUCHING pairs the Nusselt integrator returns the same value on the image
      patches.  This is the genuinely non-invariant part: the integrator samples a regular grid
      spanned by the first and the last edge of the vertex list and is not symmetric under axis
      permutations; the property only claims a 0.5 %-of-peak bound for the curve there
      (numerical statement, not a proof target).
    Conclusion: all baked transfer factors are the renumbered ones, the directed pair list is a
    permutation of the renumbered list, and the order-K histogram of patch [pi j] of the image room
    is that of patch [j].  Mirrorings are excluded because of the wall frames (j). *)
Theorem C17_room_axis_permutation_partial {T} {O : Ops T} {RL : RingLaws T} {OL : OrderLaws T}
    {FL : FieldLaws T} {FlL : FloorLaws T} {DL : DivLaws T} {AL : FieldFacts.AbsLaws T}
    (sigma : nat -> nat) (e0 e1 e2 : T) (rm : @room T) (pi : nat -> nat) (spos : @vec T) :
  Permutation [sigma 0; sigma 1; sigma 2] [0; 1; 2] ->
  (e0 = 1 \/ e0 = - (1))%T -> (e1 = 1 \/ e1 = - (1))%T -> (e2 = 1 \/ e2 = - (1))%T ->
  sdet sigma e0 e1 e2 = 1%T ->
  walls_ok rm -> rm_ref_out rm <> [] -> relabels sigma e0 e1 e2 rm pi ->
  let m := smap sigma e0 e1 e2 in
  let rm' := sperm_room sigma e0 e1 e2 rm in
  let sc := room_scene rm in
  let sc' := room_scene rm' in
  (forall k, k < rm_np rm ->
     nthb (room_point_vis rm' (m spos)) (pi k) = nthb (room_point_vis rm spos) k) ->
  (forall i j, i < rm_np rm -> j < rm_np rm -> vis_sym sc' (pi i) (pi j) = vis_sym sc i j) ->
  (forall i j, i < rm_np rm -> j < rm_np rm -> vis_sym sc i j = true -> wall sc i <> wall sc j) ->
  (forall i j, i < j -> j < rm_np rm -> vis_sym sc i j = true ->
     coincidence_check (rm_thres rm) (nth j (rm_patch_pts rm) []) (nth i (rm_patch_pts rm) []) = true ->
     nusselt_ff (rm_thr_seg rm) (rm_thr_dot rm) (rm_thr_lag rm)
       (nth (pi i) (rm_patch_pts rm') []) (nthv (pr_normals (rm_processed rm')) (pi i))
       (nth (pi j) (rm_patch_pts rm') []) (nthv (pr_normals (rm_processed rm')) (pi j)) =
     nusselt_ff (rm_thr_seg rm) (rm_thr_dot rm) (rm_thr_lag rm)
       (nth i (rm_patch_pts rm) []) (nthv (pr_normals (rm_processed rm)) i)
       (nth j (rm_patch_pts rm) []) (nthv (pr_normals (rm_processed rm)) j)) ->
  (forall i j d b, i < rm_np rm -> j < rm_np rm ->
     tilde_entry sc' (pi i) (pi j) d b = tilde_entry sc i j d b) /\
  Permutation (directed (vis_pairs sc')) (map (sig2 pi) (directed (vis_pairs sc))) /\
  forall tm K j d b t, j < rm_np rm -> d < s_nd sc -> b < s_nb sc -> t < n_samples tm ->
    get4 (patch_hist sc' tm (room_source rm' (m spos)) K) (pi j) d b t =
    get4 (patch_hist sc tm (room_source rm spos) K) j d b t.
Proof.
  intros Hp H0 H1 H2 Hdet Hw Hout Hpi. cbv zeta. intros Hsv Hvis Hacross HNus.
  split; [|split].
  - intros i j d b Hi Hj.
    exact (sc_tilde_entry sigma e0 e1 e2 Hp H0 H1 H2 rm Hw pi Hpi Hvis Hacross HNus Hdet i j d b Hi Hj).
  - exact (directed_relabel_perm (room_scene rm) (room_scene (sperm_room sigma e0 e1 e2 rm))
             (room_scene_wf rm Hout) (room_scene_wf (sperm_room sigma e0 e1 e2 rm) Hout)
             (sc_np sigma e0 e1 e2 Hp H0 H1 H2 rm Hw) pi (proj1 Hpi) (proj1 (proj2 Hpi)) Hvis).
  - intros tm K j d b t.
    exact (room_patch_hist_relabel sigma e0 e1 e2 Hp H0 H1 H2 rm Hw pi Hpi spos Hsv Hvis Hacross HNus Hdet Hout
             tm K j d b t).
Qed.
Print Assumptions C17_room_axis_permutation_partial.

(** (m) C17_room_rotation_curve_partial (PARTIAL).  Under the hypotheses of (l), and with the
    visibility from the carried receiver transported as well, the result of the whole composed
    model -- the mono curve with or without direct sound -- of the rotated room for the rotated
    source and receiver is the IDENTICAL list: the patch-wise receiver terms correspond through
    [pi] (same slot towards the receiver, same receiver share, distance and arrival bin), and the
    sum over the patches does not depend on their numbering. *)
Theorem C17_room_rotation_curve_partial {T} {O : Ops T} {RL : RingLaws T} {OL : OrderLaws T}
    {FL : FieldLaws T} {FlL : FloorLaws T} {DL : DivLaws T} {AL : FieldFacts.AbsLaws T}
    (sigma : nat -> nat) (e0 e1 e2 : T) (rm : @room T) (pi : nat -> nat) (spos rpos : @vec T) :
  Permutation [sigma 0; sigma 1; sigma 2] [0; 1; 2] ->
  (e0 = 1 \/ e0 = - (1))%T -> (e1 = 1 \/ e1 = - (1))%T -> (e2 = 1 \/ e2 = - (1))%T ->
  sdet sigma e0 e1 e2 = 1%T ->
  walls_ok rm -> rm_ref_out rm <> [] -> relabels sigma e0 e1 e2 rm pi ->
  let m := smap sigma e0 e1 e2 in
  let rm' := sperm_room sigma e0 e1 e2 rm in
  let sc := room_scene rm in
  let sc' := room_scene rm' in
  (forall k, k < rm_np rm ->
     nthb (room_point_vis rm' (m spos)) (pi k) = nthb (room_point_vis rm spos) k) ->
  (forall k, k < rm_np rm ->
     nthb (room_point_vis rm' (m rpos)) (pi k) = nthb (room_point_vis rm rpos) k) ->
  (forall i j, i < rm_np rm -> j < rm_np rm -> vis_sym sc' (pi i) (pi j) = vis_sym sc i j) ->
  (forall i j, i < rm_np rm -> j < rm_np rm -> vis_sym sc i j = true -> wall sc i <> wall sc j) ->
  (forall i j, i < j -> j < rm_np rm -> vis_sym sc i j = true ->
     coincidence_check (rm_thres rm) (nth j (rm_patch_pts rm) []) (nth i (rm_patch_pts rm) []) = true ->
     nusselt_ff (rm_thr_seg rm) (rm_thr_dot rm) (rm_thr_lag rm)
       (nth (pi i) (rm_patch_pts rm') []) (nthv (pr_normals (rm_processed rm')) (pi i))
       (nth (pi j) (rm_patch_pts rm') []) (nthv (pr_normals (rm_processed rm')) (pi j)) =
     nusselt_ff (rm_thr_seg rm) (rm_thr_dot rm) (rm_thr_lag rm)
       (nth i (rm_patch_pts rm) []) (nthv (pr_normals (rm_processed rm)) i)
       (nth j (rm_patch_pts rm) []) (nthv (pr_normals (rm_processed rm)) j)) ->
  forall tm K direct,
    room_mono rm' tm (m spos) (m rpos) K direct = room_mono rm tm spos rpos K direct.
Proof.
  intros Hp H0 H1 H2 Hdet Hw Hout Hpi. cbv zeta. intros Hsv Hrv Hvis Hacross HNus tm K direct.
  exact (room_mono_rotation sigma e0 e1 e2 Hp H0 H1 H2 Hdet rm Hw Hout pi Hpi spos rpos Hsv Hrv Hvis Hacross HNus
           tm K direct).
Qed.
Print Assumptions C17_room_rotation_curve_partial.
