(** C02 -- Energy arrives at its time of flight and is never wrapped around the histogram. *)
From Coq Require Import List Arith Bool ZArith Lia.
Import ListNotations.
From SV Require Import Base.Ops Base.Arr Base.Sums Model.Vec3 Model.Exchange Model.Scene
  Spec.ExchangeSpec Proofs.ExchangeL0 Proofs.ExchangeRefine Proofs.SceneRefine
  Proofs.HistProofs Proofs.ReceiverProofs Instances.InstZ.

(** (1) path expansion: the order-k histogram of patch j is the sum of its contributions, each
    in the bin that is the sum of its per-leg bins (source leg + patch legs) and nowhere else *)
Theorem C02_bins {T} {O : Ops T} {RL : RingLaws T}
    (P : list (nat * nat)) delta c out delta0 e0 k j d b t :
  E P delta c out delta0 e0 k j d b t =
  sumf (contrib P delta c out delta0 e0 k j d b) (fun lw => if t =? fst lw then snd lw else 0%T).
Proof. exact (E_contrib P delta c out delta0 e0 k j d b t). Qed.
Print Assumptions C02_bins.

Theorem C02_bins_are_leg_sums {T} {O : Ops T} {RL : RingLaws T}
    (P : list (nat * nat)) delta c out delta0 e0 k j d b l w :
  In (l, w) (contrib P delta c out delta0 e0 (S k) j d b) ->
  exists i l' w', In (i, j) P /\ In (l', w') (contrib P delta c out delta0 e0 k i (out i j) b)
                  /\ l = l' + delta i j.
Proof. exact (contrib_S_bins P delta c out delta0 e0 k j d b l w). Qed.
Print Assumptions C02_bins_are_leg_sums.

(** (2) no patch shows energy before sound from the source can reach it *)
Theorem C02_order0_bin {T} {O : Ops T} {RL : RingLaws T}
    (P : list (nat * nat)) delta c out delta0 e0 j d b t :
  t <> delta0 j -> E P delta c out delta0 e0 0 j d b t = 0%T.
Proof. exact (E0_bin P delta c out delta0 e0 j d b t). Qed.
Print Assumptions C02_order0_bin.

Theorem C02_nothing_before_first_path {T} {O : Ops T} {RL : RingLaws T}
    (P : list (nat * nat)) delta c out delta0 e0 k j d b t :
  (forall l w, In (l, w) (contrib P delta c out delta0 e0 k j d b) -> t < l) ->
  E P delta c out delta0 e0 k j d b t = 0%T.
Proof. exact (E_before_first P delta c out delta0 e0 k j d b t). Qed.
Print Assumptions C02_nothing_before_first_path.

(** the per-leg bin functions (truncation on source and patch legs, ceiling on the receiver
    leg) cannot beat the direct path: source -> patch -> receiver lands at or after the
    direct-sound bin, and k further truncated legs lose at most k bins *)
Theorem C02_not_before_direct {T} {O : Ops T} {RL : RingLaws T} {OL : OrderLaws T} {FL : FloorLaws T}
    (D a b : T) :
  (0 <= D)%T -> (0 <= a)%T -> (0 <= b)%T -> (D <= a + b)%T -> ttrunc D <= ttrunc a + tceil b.
Proof. exact (bins_triangle D a b). Qed.
Print Assumptions C02_not_before_direct.

Theorem C02_not_before_direct_chain {T} {O : Ops T} {RL : RingLaws T} {OL : OrderLaws T} {FL : FloorLaws T}
    (D : T) (legs : list T) (b : T) :
  legs <> [] -> (0 <= D)%T -> (forall x, In x legs -> (0 <= x)%T) -> (0 <= b)%T ->
  (D <= sumf legs (fun x => x) + b)%T ->
  ttrunc D + 1 <= sum_trunc legs + length legs + tceil b.
Proof. exact (bins_chain D legs b). Qed.
Print Assumptions C02_not_before_direct_chain.

(** (3) dropped, never wrapped -- patch stage: the executable model truncated at N after every
    order equals the unbounded recursion on [0,N) (so energy past the end influences nothing),
    and has no bins beyond N *)
Theorem C02_patch_stage_no_wrap {T} {O : Ops T} {RL : RingLaws T} (sc : @scene T) tm s K j d b t :
  wf_scene sc -> j < s_np sc -> d < s_nd sc -> b < s_nb sc -> t < n_samples tm ->
  get4 (patch_hist sc tm s K) j d b t =
  Tot (directed (vis_pairs sc)) (scene_delta sc tm) (tilde_entry sc) (out_index sc)
      (scene_delta0 sc tm s) (e0dir_entry sc s) K j d b t.
Proof. exact (patch_hist_refines sc tm s K j d b t). Qed.
Print Assumptions C02_patch_stage_no_wrap.

Theorem C02_patch_stage_window {T} {O : Ops T}
    K vis np nd nb N (e0 : @arr3 T) delay0 fft p2o delay j d b t :
  N <= t -> get4 (exchange K vis np nd nb N e0 delay0 fft p2o delay) j d b t = 0%T.
Proof. exact (exchange_window np nd nb N fft p2o delay e0 delay0 K vis j d b t). Qed.
Print Assumptions C02_patch_stage_window.

Theorem C02_shift_drops {T} {O : Ops T} N d (h : list T) t :
  (t < d -> nthT (shift_trunc N d h) t = 0%T) /\ (N <= t -> nthT (shift_trunc N d h) t = 0%T) /\
  (N <= d -> nthT (shift_trunc N d h) t = 0%T).
Proof.
  exact (conj (shift_trunc_before N d h t) (conj (shift_trunc_beyond N d h t) (shift_trunc_all_dropped N d h t))).
Qed.
Print Assumptions C02_shift_drops.

(** (3') receiver stage.  The code delays with np.roll; the full-strength clause ("never
    re-appears at the start") is REFUTED for the faithful model (known finding
    C02/receiver_wrap) and holds on the complement: histograms the delayed energy fits into. *)
Theorem C02_receiver_stage_partial {T} {O : Ops T} {RL : RingLaws T} (sc : @scene T) tm E r k b t :
  k < s_np sc -> b < s_nb sc -> t < n_samples tm -> r_delay sc tm r k < n_samples tm ->
  (forall u, n_samples tm - r_delay sc tm r k <= u -> u < n_samples tm ->
             get4 E k (r_out_index sc r k) b u = 0%T) ->
  get3 (patchwise sc tm E r) k b t =
  if t <? r_delay sc tm r k then 0%T else r_term sc E r k b (t - r_delay sc tm r k).
Proof. exact (patchwise_fits sc tm E r k b t). Qed.
Print Assumptions C02_receiver_stage_partial.

Theorem C02_receiver_wrap_refuted :
  exists (N d : nat) (h : list Z) (t : nat),
    d < N /\ t < d /\ nthT (roll N d h) t <> 0%Z /\ nthT (shift_trunc N d h) t = 0%Z.
Proof. exists 4, 2, [0; 0; 0; 5]%Z, 1. vm_compute. repeat split; try lia; congruence. Qed.
Print Assumptions C02_receiver_wrap_refuted.

(** (2') geometry: the Euclidean norm of the model satisfies the triangle inequality (from the
    sqrt laws, via Cauchy-Schwarz/Lagrange), so on the executable model an order-0 contribution
    source -> patch j -> receiver NEVER lands before the direct-sound bin *)
From SV Require Import Proofs.OrderField Proofs.TriangleProofs.
Theorem C02_triangle {T} {O : Ops T} {RL : RingLaws T} {OL : OrderLaws T} {SL : SqrtLaws T}
    (s c r : @vec T) : (vdist r s <= vdist s c + vdist c r)%T.
Proof. exact (vdist_triangle s c r). Qed.
Print Assumptions C02_triangle.

Theorem C02_model_not_before_direct {T} {O : Ops T} {RL : RingLaws T} {OL : OrderLaws T}
    {FL : FieldLaws T} {SL : SqrtLaws T} {FlL : FloorLaws T}
    (sc : @scene T) tm (s : @source T) (r : @receiver T) j :
  (0 < t_c tm)%T -> (0 < t_dt tm)%T -> nthb (src_vis s) j = true ->
  direct_bin tm s r <= scene_delta0 sc tm s j + r_delay sc tm r j.
Proof. intros Hc Hd. exact (order0_not_before_direct sc tm Hc Hd s r j). Qed.
Print Assumptions C02_model_not_before_direct.
