(** C08 -- Patch subdivision is an exact congruent tiling of each wall.
    Only theorem statements, each closed by [exact].

    Vocabulary (Model/Tiling.v, Proofs/TilingProofs.v):
    [quad] = the four vertices of a wall, [vget v a] = coordinate [a] of [v],
    [col_min q a], [col_max q a] = per-axis minimum / maximum over the four vertices,
    [size q a] = their difference, [patch_num q p a] = ttrunc (size q a / p),
    [real_size q p a] = size q a / patch_num q p a, [(px f, py f)] = the in-plane axes of a wall
    with flat axis [f], [gline x0 r i] = x0 + i * r.
    [wall_ok q p f c]: f < 3, all four vertices have coordinate c on axis f, 0 < p,
    p <= size q (px f), p <= size q (py f). *)
From Coq Require Import List Arith Bool Permutation.
Import ListNotations.
From SV Require Import Base.Ops Base.Arr Base.Sums Model.Vec3 Model.Tiling
  Proofs.OrderField Proofs.TilingLists Proofs.TilingProofs Proofs.TilingPerm.

(** (1) count: the flat axis is detected ([ttrunc (0/p) = 0], the two others >= 1), there are
    n_x * n_y patches and [_total_number_of_patches] agrees *)
Theorem C08_count {T} {O : Ops T} {RL : RingLaws T} {OL : OrderLaws T} {FL : FieldLaws T}
    {FlL : FloorLaws T} (q : @quad T) p f c : wall_ok q p f c ->
  axes q p = Some (px f, py f) /\ patch_num q p f = 0 /\
  1 <= patch_num q p (px f) /\ 1 <= patch_num q p (py f) /\
  length (create_patches q p) = patch_num q p (px f) * patch_num q p (py f) /\
  total_number_of_patches q p = patch_num q p (px f) * patch_num q p (py f).
Proof. exact (stmt_count q p f c). Qed.
Print Assumptions C08_count.

(** (1') ... and the per-direction count is floor(side/p):  n*p <= side < (n+1)*p *)
Theorem C08_count_is_floor {T} {O : Ops T} {RL : RingLaws T} {OL : OrderLaws T} {FL : FieldLaws T}
    {FlL : FloorLaws T} (q : @quad T) p f c a : wall_ok q p f c -> a = px f \/ a = py f ->
  (tofnat (patch_num q p a) * p <= size q a)%T /\ (size q a < tofnat (S (patch_num q p a)) * p)%T.
Proof. exact (stmt_floor q p f c a). Qed.
Print Assumptions C08_count_is_floor.

(** (1'') [_total_number_of_patches] is the number of patches [_create_patches] returns, for
    every input (this is what makes the pre-allocation in [_process_patches] fit) *)
Theorem C08_total_is_length {T} {O : Ops T} (q : @quad T) p :
  total_number_of_patches q p = length (create_patches q p).
Proof. exact (total_eq_length q p). Qed.
Print Assumptions C08_total_is_length.

(** (2) every patch (i,j) is the rectangle
    [x_min + i s_x/n_x, x_min + (i+1) s_x/n_x] x [y_min + j s_y/n_y, y_min + (j+1) s_y/n_y],
    vertices in the order lower-left, lower-right, upper-right, upper-left; the flat coordinate
    of vertex k is that of the wall's vertex k, so the patch lies in the wall's plane *)
Theorem C08_cell {T} {O : Ops T} {RL : RingLaws T} {OL : OrderLaws T} {FL : FieldLaws T}
    {FlL : FloorLaws T} (q : @quad T) p f c i j d : wall_ok q p f c ->
  i < patch_num q p (px f) -> j < patch_num q p (py f) ->
  let P := nth (i * patch_num q p (py f) + j) (create_patches q p) d in
  is_rect (px f) (py f) P
    (gline (col_min q (px f)) (real_size q p (px f)) i) (gline (col_min q (px f)) (real_size q p (px f)) (S i))
    (gline (col_min q (py f)) (real_size q p (py f)) j) (gline (col_min q (py f)) (real_size q p (py f)) (S j)) /\
  flat_kept f q P /\ planar P f c.
Proof. exact (stmt_cell q p f c i j d). Qed.
Print Assumptions C08_cell.

(** (2') congruent: all patches have the side lengths (s_x/n_x, s_y/n_y) *)
Theorem C08_congruent {T} {O : Ops T} {RL : RingLaws T} {OL : OrderLaws T} {FL : FieldLaws T}
    {FlL : FloorLaws T} (q : @quad T) p f c k d : wall_ok q p f c -> k < length (create_patches q p) ->
  let P := nth k (create_patches q p) d in
  (vget (q1 P) (px f) - vget (q0 P) (px f))%T = (size q (px f) / tofnat (patch_num q p (px f)))%T /\
  (vget (q3 P) (py f) - vget (q0 P) (py f))%T = (size q (py f) / tofnat (patch_num q p (py f)))%T /\
  (vget (q2 P) (px f) - vget (q3 P) (px f))%T = (size q (px f) / tofnat (patch_num q p (px f)))%T /\
  (vget (q2 P) (py f) - vget (q1 P) (py f))%T = (size q (py f) / tofnat (patch_num q p (py f)))%T.
Proof. exact (stmt_congruent q p f c k d). Qed.
Print Assumptions C08_congruent.

(** (3a) two different patches have no common interior point *)
Theorem C08_disjoint {T} {O : Ops T} {RL : RingLaws T} {OL : OrderLaws T} {FL : FieldLaws T}
    {FlL : FloorLaws T} (q : @quad T) p f c k k' d x y : wall_ok q p f c ->
  k < length (create_patches q p) -> k' < length (create_patches q p) -> k <> k' ->
  ~ (in_interior (px f) (py f) (nth k (create_patches q p) d) x y /\
     in_interior (px f) (py f) (nth k' (create_patches q p) d) x y).
Proof. exact (stmt_disjoint q p f c k k' d x y). Qed.
Print Assumptions C08_disjoint.

(** (3b) every point of the wall's bounding rectangle lies in some closed patch ... *)
Theorem C08_cover {T} {O : Ops T} {RL : RingLaws T} {OL : OrderLaws T} {FL : FieldLaws T}
    {FlL : FloorLaws T} (q : @quad T) p f c d x y : wall_ok q p f c ->
  (col_min q (px f) <= x)%T -> (x <= col_max q (px f))%T ->
  (col_min q (py f) <= y)%T -> (y <= col_max q (py f))%T ->
  exists k, k < length (create_patches q p) /\ in_closed (px f) (py f) (nth k (create_patches q p) d) x y.
Proof. exact (stmt_cover q p f c d x y). Qed.
Print Assumptions C08_cover.

(** (3c) ... and every patch lies in the bounding rectangle *)
Theorem C08_inside {T} {O : Ops T} {RL : RingLaws T} {OL : OrderLaws T} {FL : FieldLaws T}
    {FlL : FloorLaws T} (q : @quad T) p f c k d x y : wall_ok q p f c -> k < length (create_patches q p) ->
  in_closed (px f) (py f) (nth k (create_patches q p) d) x y ->
  (col_min q (px f) <= x)%T /\ (x <= col_max q (px f))%T /\
  (col_min q (py f) <= y)%T /\ (y <= col_max q (py f))%T.
Proof. exact (stmt_inside q p f c k d x y). Qed.
Print Assumptions C08_inside.

(** (3d) the bounding rectangle of a rectangular wall, given in any vertex order, is the wall *)
Theorem C08_rect_wall_extents {T} {O : Ops T} {RL : RingLaws T} {OL : OrderLaws T}
    (q q' : @quad T) xi yi xl xh yl yh :
  is_rect xi yi q xl xh yl yh -> (xl <= xh)%T -> (yl <= yh)%T ->
  (forall v, In v (verts q') <-> In v (verts q)) ->
  col_min q' xi = xl /\ col_max q' xi = xh /\ col_min q' yi = yl /\ col_max q' yi = yh.
Proof. exact (stmt_rect_extents q q' xi yi xl xh yl yh). Qed.
Print Assumptions C08_rect_wall_extents.

(** (3e) the patch areas (product of the side lengths) sum to the wall area s_x * s_y *)
Theorem C08_area_sum {T} {O : Ops T} {RL : RingLaws T} {OL : OrderLaws T} {FL : FieldLaws T}
    {FlL : FloorLaws T} (q : @quad T) p f c : wall_ok q p f c ->
  sumf (create_patches q p) (rect_area (px f) (py f)) = (size q (px f) * size q (py f))%T.
Proof. exact (stmt_area q p f c). Qed.
Print Assumptions C08_area_sum.

(** (3f) the same with the code's own area, [_polygon_area] (fan of triangles, norm of a cross
    product; needs the square-root laws): every patch has area (s_x/n_x)(s_y/n_y) and the areas
    sum to the wall area *)
Theorem C08_patch_area {T} {O : Ops T} {RL : RingLaws T} {OL : OrderLaws T} {FL : FieldLaws T}
    {FlL : FloorLaws T} {SL : SqrtLaws T} (q : @quad T) p f c : wall_ok q p f c ->
  (forall P, In P (create_patches q p) ->
     patch_area P = (size q (px f) / tofnat (patch_num q p (px f)) *
                     (size q (py f) / tofnat (patch_num q p (py f))))%T) /\
  sumf (create_patches q p) patch_area = (size q (px f) * size q (py f))%T.
Proof. exact (stmt_patch_area q p f c). Qed.
Print Assumptions C08_patch_area.

(** (4) [_process_patches]: the counts agree, patch k carries wall id w iff k lies in wall w's
    contiguous block [offset w, offset (w+1)), offset w = sum of the patch counts of the walls
    before w ... *)
Theorem C08_wall_attribution {T} {O : Ops T} (walls : list (@quad T)) normals p k w d :
  let counts := map (fun q => total_number_of_patches q p) walls in
  let r := process walls normals p in
  (pr_n r = sumn counts /\ length (pr_points r) = pr_n r /\ length (pr_wall_ids r) = pr_n r /\
   length (pr_normals r) = pr_n r) /\
  (k < pr_n r -> w < length walls ->
   (nth k (pr_wall_ids r) d = w <-> prefix_sum counts w <= k < prefix_sum counts (S w))).
Proof.
  exact (conj (conj (process_n walls normals p) (conj (process_points_length walls normals p)
         (conj (process_ids_length walls normals p) (process_normals_length walls normals p))))
         (process_attribution walls normals p k w d)).
Qed.
Print Assumptions C08_wall_attribution.

(** (4') ... and the j-th entry of wall w's block is the j-th patch of wall w, with wall id w
    and the normal of wall w *)
Theorem C08_wall_block {T} {O : Ops T} (walls : list (@quad T)) normals p w j dq dv dn :
  let counts := map (fun q => total_number_of_patches q p) walls in
  let r := process walls normals p in
  w < length walls -> j < length (create_patches (nth w walls dquad) p) ->
  nth (prefix_sum counts w + j) (pr_points r) dq = nth j (create_patches (nth w walls dquad) p) dq /\
  nth (prefix_sum counts w + j) (pr_wall_ids r) dn = w /\
  nth (prefix_sum counts w + j) (pr_normals r) dv = nthv normals w.
Proof. exact (process_block walls normals p w j dq dv dn). Qed.
Print Assumptions C08_wall_block.

(** (5a) what "independent of the vertex order" means in general: the output is a function of
    the per-axis minima/maxima and of the flat coordinate of each vertex (which is copied to
    the same-numbered vertex of every patch) ... *)
Theorem C08_depends_on_extents {T} {O : Ops T} (q q' : @quad T) p f : f < 3 ->
  axes q p = Some (px f, py f) ->
  (forall a, col_min q' a = col_min q a) -> (forall a, col_max q' a = col_max q a) ->
  vget (q0 q') f = vget (q0 q) f -> vget (q1 q') f = vget (q1 q) f ->
  vget (q2 q') f = vget (q2 q) f -> vget (q3 q') f = vget (q3 q) f ->
  create_patches q' p = create_patches q p.
Proof. exact (create_patches_ext q q' p f). Qed.
Print Assumptions C08_depends_on_extents.

(** (5b) ... so for a planar wall every wall with the same SET of vertices (all 24 orders) yields
    the identical list of patches, vertex for vertex ... *)
Theorem C08_vertex_order {T} {O : Ops T} {RL : RingLaws T} {OL : OrderLaws T} {FL : FieldLaws T}
    {FlL : FloorLaws T} (q q' : @quad T) p f c : wall_ok q p f c ->
  (forall v, In v (verts q') <-> In v (verts q)) ->
  create_patches q' p = create_patches q p.
Proof. exact (stmt_vertex_set q q' p f c). Qed.
Print Assumptions C08_vertex_order.

(** (5c) ... in particular the 8 orders of a rectangle: 4 rotations x 2 directions *)
Theorem C08_eight_orders {T} {O : Ops T} {RL : RingLaws T} {OL : OrderLaws T} {FL : FieldLaws T}
    {FlL : FloorLaws T} (q : @quad T) p f c o : wall_ok q p f c ->
  create_patches (reorder o q) p = create_patches q p.
Proof. exact (stmt_eight_orders q p f c o). Qed.
Print Assumptions C08_eight_orders.

(** (5d) translation equivariance in exact arithmetic (any wall, any patch size) *)
Theorem C08_translate {T} {O : Ops T} {RL : RingLaws T} {OL : OrderLaws T} (q : @quad T) t p :
  create_patches (translate_quad t q) p = map (translate_quad t) (create_patches q p).
Proof. exact (create_patches_translate q t p). Qed.
Print Assumptions C08_translate.

(** (6) the Kang engine's loop computes the same list (any wall, any patch size) *)
Theorem C08_kang_same {T} {O : Ops T} (q : @quad T) p : kang_patches q p = create_patches q p.
Proof. exact (kang_same q p). Qed.
Print Assumptions C08_kang_same.

(** (7) the 48 signed axis permutations
    [m v = (e0 * v[sigma 0], e1 * v[sigma 1], e2 * v[sigma 2])], [sigma] a permutation of {0,1,2},
    every [e_k] in {1,-1}; [map_quad m q] = the wall with [m] applied to its four vertices.
    The image of a wall of the property's domain is again one: its flat axis is the [f'] with
    [sigma f' = f] (found by the code from the exact zero extent), its flat coordinate [e_f' * c];
    extent, count [int(size/p)] and cell size of axis [d] of the image are those of axis [sigma d]
    of the wall (the two in-plane counts are exchanged with the axes); and the list of patches of
    the image wall is a PERMUTATION of the images of the wall's patches, each image taken in one
    of the 8 vertex orders [reorder o] -- the same [o] for all patches of the wall.
    Ordered field: under a mirroring the cell edges are computed from the new minimum
    [-(x_max)], and [-(x_max) + (n-1-i) s = -(x_min + (i+1) s)] needs [x_max = x_min + n (size/n)]. *)
Theorem C08_axis_permutation {T} {O : Ops T} {RL : RingLaws T} {OL : OrderLaws T} {FL : FieldLaws T}
    {FlL : FloorLaws T} (sigma : nat -> nat) (e0 e1 e2 : T) (q : @quad T) p f c :
  Permutation [sigma 0; sigma 1; sigma 2] [0; 1; 2] ->
  (e0 = 1 \/ e0 = - (1))%T -> (e1 = 1 \/ e1 = - (1))%T -> (e2 = 1 \/ e2 = - (1))%T ->
  wall_ok q p f c ->
  let m := fun v : @vec T =>
    mkv (e0 * vget v (sigma 0%nat))%T (e1 * vget v (sigma 1%nat))%T (e2 * vget v (sigma 2%nat))%T in
  let e := fun d : nat => match d with 0 => e0 | 1 => e1 | _ => e2 end in
  exists f' o, f' < 3 /\ sigma f' = f /\ o < 8 /\
    wall_ok (map_quad m q) p f' (e f' * c)%T /\
    (forall d, d < 3 -> size (map_quad m q) d = size q (sigma d) /\
                        patch_num (map_quad m q) p d = patch_num q p (sigma d) /\
                        real_size (map_quad m q) p d = real_size q p (sigma d)) /\
    Permutation (create_patches (map_quad m q) p)
                (map (fun Q => reorder o (map_quad m Q)) (create_patches q p)).
Proof.
  exact (fun Hp H0 H1 H2 => tiling_signed_perm sigma e0 e1 e2 Hp H0 H1 H2 q p f c).
Qed.
Print Assumptions C08_axis_permutation.

(** (7a) the renumbering, written out.  [sw]: [sigma] exchanges the two in-plane axes; [sx] / [sy]:
    the sign attached to the new first / second in-plane axis is -1 ([sgn_is true e] is [e = -1],
    [sgn_is false e] is [e = 1]).  Patch (i,j) of the wall (list index [i * ny + j]) goes to the
    patch of the image wall whose index on an axis is [i] or, under a mirroring, [n - 1 - i]
    ([flip]), rows and columns exchanged if [sw]; its four vertices are reordered by
    [ord_of sw sx sy] (a table of the 8 orders). *)
Theorem C08_axis_permutation_index {T} {O : Ops T} {RL : RingLaws T} {OL : OrderLaws T}
    {FL : FieldLaws T} {FlL : FloorLaws T} (sigma : nat -> nat) (e0 e1 e2 : T) (q : @quad T) p f c :
  Permutation [sigma 0; sigma 1; sigma 2] [0; 1; 2] ->
  (e0 = 1 \/ e0 = - (1))%T -> (e1 = 1 \/ e1 = - (1))%T -> (e2 = 1 \/ e2 = - (1))%T ->
  wall_ok q p f c ->
  let m := fun v : @vec T =>
    mkv (e0 * vget v (sigma 0%nat))%T (e1 * vget v (sigma 1%nat))%T (e2 * vget v (sigma 2%nat))%T in
  let e := fun d : nat => match d with 0 => e0 | 1 => e1 | _ => e2 end in
  exists f' (sw sx sy : bool), f' < 3 /\ sigma f' = f /\
    (if sw then sigma (px f') = py f /\ sigma (py f') = px f
     else sigma (px f') = px f /\ sigma (py f') = py f) /\
    sgn_is sx (e (px f')) /\ sgn_is sy (e (py f')) /\
    let nx := patch_num q p (px f) in
    let ny := patch_num q p (py f) in
    patch_num (map_quad m q) p (px f') = (if sw then ny else nx) /\
    patch_num (map_quad m q) p (py f') = (if sw then nx else ny) /\
    forall i j d, i < nx -> j < ny ->
      nth (if sw then flip sx ny j * nx + flip sy nx i else flip sx nx i * ny + flip sy ny j)
          (create_patches (map_quad m q) p) d
      = reorder (ord_of sw sx sy) (map_quad m (nth (i * ny + j) (create_patches q p) d)).
Proof.
  exact (fun Hp H0 H1 H2 => tiling_signed_perm_index sigma e0 e1 e2 Hp H0 H1 H2 q p f c).
Qed.
Print Assumptions C08_axis_permutation_index.

(** (7b) each patch seen through its vertices only: some renumbering [L] of the patches of the
    image wall has, entry by entry and up to the order within the patch, the images of the
    vertices of the wall's patches *)
Theorem C08_axis_permutation_vertices {T} {O : Ops T} {RL : RingLaws T} {OL : OrderLaws T}
    {FL : FieldLaws T} {FlL : FloorLaws T} (sigma : nat -> nat) (e0 e1 e2 : T) (q : @quad T) p f c :
  Permutation [sigma 0; sigma 1; sigma 2] [0; 1; 2] ->
  (e0 = 1 \/ e0 = - (1))%T -> (e1 = 1 \/ e1 = - (1))%T -> (e2 = 1 \/ e2 = - (1))%T ->
  wall_ok q p f c ->
  let m := fun v : @vec T =>
    mkv (e0 * vget v (sigma 0%nat))%T (e1 * vget v (sigma 1%nat))%T (e2 * vget v (sigma 2%nat))%T in
  exists L, Permutation (create_patches (map_quad m q) p) L /\
    Forall2 (fun Q' Q => Permutation (verts Q') (map m (verts Q))) L (create_patches q p).
Proof.
  exact (fun Hp H0 H1 H2 => tiling_signed_perm_vertices sigma e0 e1 e2 Hp H0 H1 H2 q p f c).
Qed.
Print Assumptions C08_axis_permutation_vertices.

(** (7c) the Kang engine's loop builds the same list ((6)), so the same holds for it *)
Theorem C08_kang_axis_permutation {T} {O : Ops T} {RL : RingLaws T} {OL : OrderLaws T}
    {FL : FieldLaws T} {FlL : FloorLaws T} (sigma : nat -> nat) (e0 e1 e2 : T) (q : @quad T) p f c :
  Permutation [sigma 0; sigma 1; sigma 2] [0; 1; 2] ->
  (e0 = 1 \/ e0 = - (1))%T -> (e1 = 1 \/ e1 = - (1))%T -> (e2 = 1 \/ e2 = - (1))%T ->
  wall_ok q p f c ->
  let m := fun v : @vec T =>
    mkv (e0 * vget v (sigma 0%nat))%T (e1 * vget v (sigma 1%nat))%T (e2 * vget v (sigma 2%nat))%T in
  exists o, o < 8 /\
    Permutation (kang_patches (map_quad m q) p)
                (map (fun Q => reorder o (map_quad m Q)) (kang_patches q p)).
Proof.
  exact (fun Hp H0 H1 H2 => kang_signed_perm sigma e0 e1 e2 Hp H0 H1 H2 q p f c).
Qed.
Print Assumptions C08_kang_axis_permutation.
