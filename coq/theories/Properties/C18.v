(** C18 -- Inconsistent simulation states are rejected, not simulated.
    Only theorem statements, each closed by [exact].

    [construct] (Model/Validate.v) is the model of [DirectionalRadiosityFast.__init__] (input
    conversions) followed by [check()]; [from_dict] / [from_read] end in it.  [holds c s]
    (Spec/ValidateSpec.v) is clause [c] of the catalogue of documented constraints, read on the
    data as passed; [Consistent s] is all clauses. *)
From Coq Require Import List Arith Bool ZArith.
Import ListNotations.
From SV Require Import Base.Ops Model.Validate Spec.ValidateSpec Proofs.ValidateProofs.

(** Valid states are always accepted. *)
Theorem C18_sound {T} {O : Ops T} {OL : OrderLaws T} (s : state T) :
  Consistent s -> construct s = Ok.
Proof. exact (construct_sound s). Qed.
Print Assumptions C18_sound.

(** Every violated clause is answered with ValueError -- for all sizes, whatever else is wrong
    with the state and wherever in the cascade the clause is tested -- EXCEPT in the situations
    named by [masked] (a violation hidden by atleast_2d / atleast_1d / len()) and [Foreign]
    (check() itself raises TypeError / IndexError); each exception is shown to be real below. *)
Theorem C18_complete_partial {T} {O : Ops T} {OL : OrderLaws T} (s : state T) (c : clause) :
  ~ Foreign s -> ~ holds c s -> ~ masked c s -> construct s = ValueError.
Proof. exact (construct_complete s c). Qed.
Print Assumptions C18_complete_partial.

(** Refuted: a rank-1 up vector [(3,)] instead of [(n_walls, 3)] is ACCEPTED in a one-wall
    scene: [np.atleast_2d] turns it into [(1, 3)] before check() looks at it. *)
Theorem C18_complete_refuted_up_vector_rank {T} {O : Ops T} :
  exists s : state T, ~ holds CUp s /\ construct s = Ok.
Proof. exact masked_up_vector. Qed.
Print Assumptions C18_complete_refuted_up_vector_rank.

(** Refuted: the same for the wall normals. *)
Theorem C18_complete_refuted_normal_rank {T} {O : Ops T} :
  exists s : state T, ~ holds CNormal s /\ construct s = Ok.
Proof. exact masked_normal. Qed.
Print Assumptions C18_complete_refuted_normal_rank.

(** Refuted: a bare integer instead of a [(n_patches,)] wall-id array is ACCEPTED in a
    one-patch scene ([np.atleast_1d]). *)
Theorem C18_complete_refuted_wall_ids_rank {T} {O : Ops T} :
  exists s : state T, ~ holds CIdsShape s /\ construct s = Ok.
Proof. exact masked_wall_ids. Qed.
Print Assumptions C18_complete_refuted_wall_ids_rank.

(** Refuted (docstring clause, not in the statement's enumeration): brdf_index is tested with
    [len()] only -- shape [(n_walls, 2)] is accepted, a 0-d value raises TypeError. *)
Theorem C18_complete_refuted_brdf_index {T} {O : Ops T} :
  (exists s : state T, ~ holds CBrdfIndex s /\ construct s = Ok) /\
  (exists s : state T, ~ holds CBrdfIndex s /\ construct s = OtherError).
Proof. exact weak_brdf_index. Qed.
Print Assumptions C18_complete_refuted_brdf_index.

(** Refuted (outside the enumeration): an EMPTY outgoing direction list passes the element
    test and then [brdf_outgoing_directions[0]] raises IndexError. *)
Theorem C18_complete_refuted_out_dirs_empty {T} {O : Ops T} :
  exists s : state T, ~ holds COutDirs s /\ construct s = OtherError.
Proof. exact empty_out_dirs. Qed.
Print Assumptions C18_complete_refuted_out_dirs_empty.

(** Refuted (outside the enumeration): a histogram without duration / resolution makes
    [int(None / None)] raise TypeError. *)
Theorem C18_complete_refuted_hist_without_duration {T} {O : Ops T} :
  exists s : state T, ~ holds CHist s /\ construct s = OtherError.
Proof. exact hist_without_duration. Qed.
Print Assumptions C18_complete_refuted_hist_without_duration.
