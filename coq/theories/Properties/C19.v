(** C19 -- Kang engine: exact order recursion, placement invariance, direct-sound law.
    Only theorem statements, each closed by [exact]. *)
From Coq Require Import List Arith Bool.
Import ListNotations.
From SV Require Import Base.Ops Base.Arr Base.Sums Model.Vec3 Model.Exchange Model.Kang
  Spec.ExchangeSpec Spec.KangSpec Proofs.ExchangeL0 Proofs.KangRefine Proofs.KangInvariance Proofs.KangPlacement.

(** (1a) [get_form_factor] addresses the right column: in a row laid out as
    [calculate_form_factor] writes it (the blocks of the other walls, in the order of the
    SOURCE wall's other_wall_ids), column [r + offset] holds the entry of patch [r] of wall [w]. *)
Theorem C19_offset {T} {O : Ops T} (sc : @kscene T) (G : nat -> nat -> T) oth w r :
  In w oth -> r < knpat sc w ->
  nthT (kff_row sc G oth) (r + kff_offset sc oth w 0) = G w r.
Proof. exact (kff_row_nth sc G oth w r). Qed.
Print Assumptions C19_offset.

(** (1b) the order recursion of the list model: the order-(k+1) histogram of patch (w,r), band b,
    bin t < N is the sum over the walls w' of other_wall_ids(w) and the patches s of w' of
    ff_{w'}(s -> (w,r)) * scat_{w,b} * (1 - alpha_{w,b}) * exp(-m_{w,b} d) * [t >= delta] *
    E^k_{w',s}[b](t - delta), with d the centre-to-centre distance and delta = int(d/c*fs). *)
Theorem C19_recursion {T} {O : Ops T} {RL : RingLaws T} (sc : @kscene T) N ffs F d0 en k w b r t :
  ff_layout sc F ffs -> wf_others sc ->
  w < knw sc -> b < ks_nb sc -> r < knpat sc w -> t < N ->
  nthT (khist (korder sc N ffs (kinit_with sc d0 en N) (S k)) w b r) t =
  sumf (kothers sc w) (fun w' => sumf (seq 0 (knpat sc w')) (fun s =>
    ((((F w' s w r * kscat sc w b) * (1 - kalpha sc w b)) *
        texp ((- katt sc w b) * kpdist sc w' s w r)) *
     (if t <? kdelay sc (kpdist sc w' s w r) then 0
      else nthT (khist (korder sc N ffs (kinit_with sc d0 en N) k) w' b s)
                (t - kdelay sc (kpdist sc w' s w r))))%T)).
Proof. intros HL WF. exact (korder_step sc N ffs F d0 en HL WF k w b r t). Qed.
Print Assumptions C19_recursion.

(** (1c) ... and [RadiosityKang.run] of the model is that recursion with the matrices of
    [calculate_form_factor] and the energies of [init_energy_exchange]: the matrices have the
    layout, and the list of orders it returns are the iterates. *)
Theorem C19_run_is_recursion {T} {O : Ops T} (sc : @kscene T) K k :
  ff_layout sc (kff_entry sc) (kang_ffs sc) /\
  (k <= K -> kord (kang_run sc K) k =
             korder sc (kN sc) (kang_ffs sc) (kinit_with sc (kdelay0 sc) (ke0 sc) (kN sc)) k).
Proof.
  exact (conj (kang_ffs_layout sc)
              (korders_from_order sc (kN sc) (kang_ffs sc) K k (kinit sc (kN sc)))).
Qed.
Print Assumptions C19_run_is_recursion.

(** (2a) [_add_delay]: nothing before the delay, the rest moved by exactly [d] bins, bins >= N do not
    exist, and the energy left in the window is that of the first N-d bins (the last d bins are
    dropped -- nothing wraps around). *)
Theorem C19_drop {T} {O : Ops T} {RL : RingLaws T} N d (h : list T) :
  (forall t, t < N -> t < d -> nthT (shift_trunc N d h) t = 0%T) /\
  (forall t, t < N -> d <= t -> nthT (shift_trunc N d h) t = nthT h (t - d)) /\
  (forall t, N <= t -> nthT (shift_trunc N d h) t = 0%T) /\
  length (shift_trunc N d h) = N /\
  (d <= N -> hsum N (nthT (shift_trunc N d h)) = hsum (N - d) (nthT h)) /\
  (N <= d -> hsum N (nthT (shift_trunc N d h)) = 0%T).
Proof. exact (shift_trunc_facts N d h). Qed.
Print Assumptions C19_drop.

(** (2b) truncating after every order equals the unbounded recursion restricted to [0, N):
    every order of the list model is the L0 recursion [KE] (total functions of unbounded time)
    read at the bins below N ... *)
Theorem C19_truncation_commutes {T} {O : Ops T} {RL : RingLaws T} (sc : @kscene T) N ffs F d0 en k w b r t :
  ff_layout sc F ffs -> wf_others sc ->
  w < knw sc -> b < ks_nb sc -> r < knpat sc w -> t < N ->
  nthT (khist (korder sc N ffs (kinit_with sc d0 en N) k) w b r) t =
  KE (kothers sc) (knpat sc) (kcoef sc F) (kdelta sc) d0 en k w r b t.
Proof. intros HL WF. exact (korder_refines sc N ffs F d0 en HL WF k w b r t). Qed.
Print Assumptions C19_truncation_commutes.

(** (2c) ... and holds nothing at bins >= N; in the recursion no energy arrives at a patch before
    the shortest delay from a radiating patch, and order 0 sits in the source bin only. *)
Theorem C19_window {T} {O : Ops T} {RL : RingLaws T} (sc : @kscene T) N ffs d0 en k w b r t :
  N <= t -> nthT (khist (korder sc N ffs (kinit_with sc d0 en N) k) w b r) t = 0%T.
Proof. exact (korder_window sc N ffs d0 en k w b r t). Qed.
Print Assumptions C19_window.

Theorem C19_nothing_before_delay {T} {O : Ops T} {RL : RingLaws T}
    others npat coef delta delta0 (en0 : nat -> nat -> nat -> T) k w r b t :
  (forall w' s, In w' (others w) -> s < npat w' -> t < delta w' s w r) ->
  KE others npat coef delta delta0 en0 (S k) w r b t = 0%T.
Proof. exact (KE_before others npat coef delta delta0 en0 k w r b t). Qed.
Print Assumptions C19_nothing_before_delay.

(** (3) the receiver response is non-decreasing in the maximum order, bin by bin, with and
    without the direct sound, when the data are non-negative. *)
Theorem C19_monotone_K {T} {O : Ops T} {RL : RingLaws T} {OL : OrderLaws T} {EL : ExpLaws T}
    (sc : @kscene T) N ffs F d0 en Kmax recv K ign b t :
  ff_layout sc F ffs -> wf_others sc ->
  (forall w' s w r, (0 <= F w' s w r)%T) -> (forall w b, (0 <= kscat sc w b)%T) ->
  (forall w b, (kalpha sc w b <= 1)%T) -> (forall w r b, (0 <= en w r b)%T) ->
  (forall w s b, (0 <= krcv_factor sc recv w s b)%T) -> t < N ->
  (nthT (kresp sc N (korders_from sc N ffs (kinit_with sc d0 en N) Kmax) K recv ign b) t <=
   nthT (kresp sc N (korders_from sc N ffs (kinit_with sc d0 en N) Kmax) (S K) recv ign b) t)%T.
Proof.
  intros HL WF HF Hs Ha He. exact (kresp_monotone_model sc N ffs F d0 en HL WF HF Hs Ha He Kmax recv K ign b t).
Qed.
Print Assumptions C19_monotone_K.

(** (3') the receiver factor cos(xi) exp(-m R) / (pi R^2) is non-negative unless the receiver
    sits on a patch centre *)
Theorem C19_receiver_factor_nonneg {T} {O : Ops T} {RL : RingLaws T} {OL : OrderLaws T}
    {FL : FieldLaws T} {EL : ExpLaws T} {SL : SqrtLaws T} {AL : AcosLaws T}
    (sc : @kscene T) recv w s b :
  (0 < krcv_R sc recv w s)%T -> (0 <= krcv_factor sc recv w s b)%T.
Proof. exact (krcv_factor_nonneg sc recv w s b). Qed.
Print Assumptions C19_receiver_factor_nonneg.

(** (3'') what the response is: the sum over orders 0..K, walls and patches of the patch
    histogram delayed by the patch-receiver bins and scaled by the receiver factor. *)
Theorem C19_response {T} {O : Ops T} {RL : RingLaws T} (sc : @kscene T) N E recv K b t :
  t < N ->
  nthT (kresp sc N E K recv true b) t =
  sumf (seq 0 (S K)) (fun k => sumf (seq 0 (knw sc)) (fun w => sumf (seq 0 (knpat sc w)) (fun s =>
    (shiftf (krcv_delay sc recv w s) (nthT (khist (kord E k) w b s)) t * krcv_factor sc recv w s b)%T))).
Proof. exact (kresp_patches_spec sc N E recv K b t). Qed.
Print Assumptions C19_response.

(** (4) direct sound: [ignore_direct = False] adds exactly (1/(4 pi r^2)) exp(-m r) in the bin
    int(r/c*fs) and nothing anywhere else; beyond the end of the histogram it is dropped. *)
Theorem C19_direct {T} {O : Ops T} {RL : RingLaws T} (sc : @kscene T) N E recv K b :
  (forall t, t < N ->
     nthT (kresp sc N E K recv false b) t =
     (nthT (kresp sc N E K recv true b) t +
      (if t =? kdelay sc (tsqrt (vdist2 recv (ks_src sc))) then
         ((1 / ((tofnat 4 * tpi) * (tsqrt (vdist2 recv (ks_src sc)) * tsqrt (vdist2 recv (ks_src sc))))) *
          texp ((- katt sc 0 b) * tsqrt (vdist2 recv (ks_src sc))))
       else 0))%T) /\
  (forall t, N <= t -> nthT (kresp sc N E K recv false b) t = 0%T) /\
  (N <= kdelay sc (tsqrt (vdist2 recv (ks_src sc))) ->
     kresp sc N E K recv false b = kresp sc N E K recv true b).
Proof.
  exact (conj (kresp_direct sc N E recv K b)
        (conj (kresp_window sc N E recv K false b) (kresp_dropped sc N E recv K b))).
Qed.
Print Assumptions C19_direct.

(** (5) translation of the whole scene (patch centres, wall centres, source, receiver) changes
    nothing: form factors, order-0 energies, delays, every order of every wall, the response. *)
Theorem C19_translate {T} {O : Ops T} {RL : RingLaws T} {OL : OrderLaws T} (sc : @kscene T) (v : @vec T) :
  kang_ffs (tr_scene v sc) = kang_ffs sc /\
  (forall N, kinit (tr_scene v sc) N = kinit sc N) /\
  (forall K, kang_run (tr_scene v sc) K = kang_run sc K) /\
  (forall E K recv ign, kang_resp (tr_scene v sc) E K (vadd recv v) ign = kang_resp sc E K recv ign).
Proof. exact (kang_translate v sc). Qed.
Print Assumptions C19_translate.

(** (6) cyclic permutation of the axes x -> y -> z -> x (patch centres, sizes, normals, wall centres,
    source, receiver) on an axis-aligned scene -- every normal has exactly one component above the
    thresholds 1e-5 and 0.99, orthogonal walls have different normal axes, the centres of
    non-orthogonal (parallel) walls differ along exactly one axis -- changes nothing either: form
    factors, order-0 energies, every order of every wall (patch by patch, in the given patch order),
    the response. *)
Theorem C19_cyclic {T} {O : Ops T} {RL : RingLaws T} (sc : @kscene T) :
  cyc_ok sc ->
  kang_ffs (cyc_scene sc) = kang_ffs sc /\
  (forall N, kinit (cyc_scene sc) N = kinit sc N) /\
  (forall K, kang_run (cyc_scene sc) K = kang_run sc K) /\
  (forall E K recv ign, kang_resp (cyc_scene sc) E K (vcyc recv) ign = kang_resp sc E K recv ign).
Proof. exact (kang_cyclic sc). Qed.
Print Assumptions C19_cyclic.

(** (6') without any assumption on the scene: all distances (centre-to-centre, source-patch,
    patch-receiver, source-receiver), hence all delays, the air attenuation and the direct-sound
    term, are invariant under the cyclic permutation. *)
Theorem C19_cyclic_distances {T} {O : Ops T} {RL : RingLaws T} (a b : @vec T) :
  vnorm (vsub (vcyc a) (vcyc b)) = vnorm (vsub a b) /\
  tsqrt (vdist2 (vcyc a) (vcyc b)) = tsqrt (vdist2 a b).
Proof. exact (vcyc_dist a b). Qed.
Print Assumptions C19_cyclic_distances.
