(** C10 -- Air attenuation follows exp(-m d) on every propagation leg. *)
From Coq Require Import List Arith Bool.
Import ListNotations.
From SV Require Import Base.Ops Base.Arr Base.Sums Model.Vec3 Model.Exchange Model.Scene
  Spec.ExchangeSpec Proofs.ExchangeL0 Proofs.SceneRefine Proofs.ReceiverProofs Proofs.BandAttenProofs.

(** the four legs of the executable model carry exp(-m_b * d) of their own geometric length *)
Theorem C10_patch_leg {T} {O : Ops T} (sc : @scene T) i j d b :
  vis_sym sc i j = true ->
  tilde_entry sc i j d b =
  ((ff_full sc i j * texp (- att sc b * vdist (center sc i) (center sc j))) *
   beta sc (wall sc j) (in_index sc i j) d b)%T.
Proof. intros H. unfold tilde_entry, attn, dist. rewrite H. reflexivity. Qed.
Print Assumptions C10_patch_leg.

Theorem C10_source_leg {T} {O : Ops T} (sc : @scene T) s j b :
  nthb (src_vis s) j = true ->
  energy0 sc s j b = (texp (- att sc b * vdist (src_pos s) (center sc j)) * nthT (src_share s) j)%T.
Proof. intros H. unfold energy0, src_dist, attn. rewrite H. reflexivity. Qed.
Print Assumptions C10_source_leg.

Theorem C10_receiver_leg {T} {O : Ops T} (sc : @scene T) E r k b u :
  r_term sc E r k b u =
  ((get4 E k (r_out_index sc r k) b u * r_factor r k) *
   texp (- att sc b * vdist (center sc k) (r_pos r)))%T.
Proof. reflexivity. Qed.
Print Assumptions C10_receiver_leg.

Theorem C10_direct_sound {T} {O : Ops T} (sc : @scene T) s r b :
  direct_val sc s r None b =
  ((1 * (1 / ((four * tpi) * (vnorm (vsub (r_pos r) (src_pos s)) * vnorm (vsub (r_pos r) (src_pos s)))))) *
   texp (- att sc b * vnorm (vsub (r_pos r) (src_pos s))))%T.
Proof. reflexivity. Qed.
Print Assumptions C10_direct_sound.

(** legs compose multiplicatively: a path is attenuated by exp(-m * total geometric length) *)
Theorem C10_compose {T} {O : Ops T} {RL : RingLaws T} {EL : ExpLaws T} (sc : @scene T) b d1 d2 :
  (attn sc b d1 * attn sc b d2)%T = attn sc b (d1 + d2)%T.
Proof. exact (attn_compose sc b d1 d2). Qed.
Print Assumptions C10_compose.

Theorem C10_path_attenuation {T} {O : Ops T} {RL : RingLaws T} {EL : ExpLaws T}
    (P : list (nat * nat)) delta out delta0 m len len0 g h k j d b :
  contrib P delta (c_att m len g) out delta0 (e0_att m len0 h) k j d b =
  map (fun x => (fst x, (snd (snd x) * texp (- m b * fst (snd x)))%T))
      (contribL P delta out delta0 len len0 g h k j d b).
Proof. exact (path_attenuation P delta out delta0 m len len0 g h k j d b). Qed.
Print Assumptions C10_path_attenuation.

(** m = 0 reproduces the unattenuated result exactly *)
Theorem C10_zero {T} {O : Ops T} {RL : RingLaws T} {EL : ExpLaws T} (sc : @scene T) b d :
  att sc b = 0%T -> attn sc b d = 1%T.
Proof. exact (attn_zero sc b d). Qed.
Print Assumptions C10_zero.

(** non-increasing in m; longer legs are attenuated more *)
Theorem C10_monotone_m {T} {O : Ops T} {RL : RingLaws T} {OL : OrderLaws T} {EL : ExpLaws T}
    (sc sc' : @scene T) b d :
  (0 <= d)%T -> (att sc b <= att sc' b)%T -> (attn sc' b d <= attn sc b d)%T.
Proof. exact (attn_mono_m sc sc' b d). Qed.
Print Assumptions C10_monotone_m.

Theorem C10_monotone_d {T} {O : Ops T} {RL : RingLaws T} {OL : OrderLaws T} {EL : ExpLaws T}
    (sc : @scene T) b d d' :
  (0 <= att sc b)%T -> (d <= d')%T -> (attn sc b d' <= attn sc b d)%T.
Proof. exact (attn_mono_d sc b d d'). Qed.
Print Assumptions C10_monotone_d.

(** ... and the whole recursion is monotone in its (non-negative) transfer factors and initial
    energies, so every histogram bin is non-increasing in m *)
Theorem C10_results_monotone {T} {O : Ops T} {RL : RingLaws T} {OL : OrderLaws T}
    (P : list (nat * nat)) delta out delta0 c c' e0 e0' :
  (forall i j d b, (0 <= c i j d b)%T) -> (forall j d b, (0 <= e0 j d b)%T) ->
  (forall i j d b, (c i j d b <= c' i j d b)%T) -> (forall j d b, (e0 j d b <= e0' j d b)%T) ->
  forall k j d b t,
  (E P delta c out delta0 e0 k j d b t <= E P delta c' out delta0 e0' k j d b t)%T.
Proof. exact (E_monotone P delta out delta0 c c' e0 e0'). Qed.
Print Assumptions C10_results_monotone.
