(** C01 -- Energy exchange never creates energy; the receiving wall's reflectance governs.
    Only theorem statements, each closed by [exact]. *)
From Coq Require Import List Arith Bool.
Import ListNotations.
From SV Require Import Base.Ops Base.Arr Base.Sums Model.Vec3 Model.Exchange Model.Scene
  Spec.ExchangeSpec Proofs.ExchangeL0 Proofs.ExchangeRefine Proofs.SceneRefine.

(** (1) energy balance of one order, patch by patch: with a window of [N] bins that holds
    every arrival, the order-(k+1) energy is the order-k energy of each radiating patch [i]
    times the transfer factor [c i j] of the leg [i -> j]. *)
Theorem C01_balance {T} {O : Ops T} {RL : RingLaws T}
    (P : list (nat * nat)) delta c out delta0 e0 (patches : list nat) (N k d b : nat) :
  NoDup patches -> (forall p, In p P -> In (snd p) patches) ->
  (forall p, In p P -> delta (fst p) (snd p) <= N /\
      forall t, N - delta (fst p) (snd p) <= t -> t < N ->
                E P delta c out delta0 e0 k (fst p) (out (fst p) (snd p)) b t = 0%T) ->
  sumf patches (fun j => hsum N (E P delta c out delta0 e0 (S k) j d b)) =
  sumf P (fun p => (c (fst p) (snd p) d b *
                    hsum N (E P delta c out delta0 e0 k (fst p) (out (fst p) (snd p)) b))%T).
Proof. exact (balance P delta c out delta0 e0 patches N k d b). Qed.
Print Assumptions C01_balance.

(** (1') ... and in the executable model the transfer factor of the leg [i -> j] is the form
    factor times the attenuation times pi*BRDF of the wall of the RECEIVING patch [j]. *)
Theorem C01_receiving_wall {T} {O : Ops T} (sc : @scene T) i j d b :
  i < s_np sc -> j < s_np sc -> d < s_nd sc -> b < s_nb sc -> vis_sym sc i j = true ->
  get4 (tilde sc) i j d b =
  ((ff_full sc i j * attn sc b (dist sc i j)) * beta sc (wall sc j) (in_index sc i j) d b)%T.
Proof. exact (tilde_visible sc i j d b). Qed.
Print Assumptions C01_receiving_wall.

(** (1'') the executable pipeline model computes exactly that recursion *)
Theorem C01_model_is_recursion {T} {O : Ops T} {RL : RingLaws T} (sc : @scene T) tm s K j d b t :
  wf_scene sc -> j < s_np sc -> d < s_nd sc -> b < s_nb sc -> t < n_samples tm ->
  get4 (patch_hist sc tm s K) j d b t =
  Tot (directed (vis_pairs sc)) (scene_delta sc tm) (tilde_entry sc) (out_index sc)
      (scene_delta0 sc tm s) (e0dir_entry sc s) K j d b t.
Proof. exact (patch_hist_refines sc tm s K j d b t). Qed.
Print Assumptions C01_model_is_recursion.

(** (3) never more than the closure error: with every row sum of transfer factors bounded
    by [r] (r = 1 + closure error for reflectances <= 1), order k+1 carries at most r times
    the energy of order k -- also on a truncated window. *)
Theorem C01_bound {T} {O : Ops T} {RL : RingLaws T} {OL : OrderLaws T}
    (P : list (nat * nat)) delta c out delta0 e0 (patches : list nat) (N k d b : nat) (r : T) :
  (forall i j d b, (0 <= c i j d b)%T) -> (forall j d b, (0 <= e0 j d b)%T) ->
  NoDup patches -> (forall p, In p P -> In (snd p) patches /\ In (fst p) patches) ->
  (forall i j, out i j = d) -> (0 <= r)%T ->
  (forall i, In i patches ->
     (sumf (filter (fun p => fst p =? i) P) (fun p => c (fst p) (snd p) d b) <= r)%T) ->
  (sumf patches (fun j => hsum N (E P delta c out delta0 e0 (S k) j d b))
   <= r * sumf patches (fun i => hsum N (E P delta c out delta0 e0 k i d b)))%T.
Proof. intros Hc He. exact (energy_bound P delta c out delta0 e0 Hc He patches N k d b r). Qed.
Print Assumptions C01_bound.

(** (4) a wall with absorption 1 (zero table) re-radiates nothing at any order: exact zero *)
Theorem C01_absorbing {T} {O : Ops T} {RL : RingLaws T}
    (P : list (nat * nat)) delta c out delta0 e0 j d b :
  e0 j d b = 0%T -> (forall i, c i j d b = 0%T) ->
  forall k t, E P delta c out delta0 e0 k j d b t = 0%T.
Proof. exact (E_absorbing P delta c out delta0 e0 j d b). Qed.
Print Assumptions C01_absorbing.

Theorem C01_absorbing_model {T} {O : Ops T} {RL : RingLaws T} (sc : @scene T) s j d b :
  (forall a, beta sc (wall sc j) a d b = 0%T) ->
  e0dir_entry sc s j d b = 0%T /\ forall i, tilde_entry sc i j d b = 0%T.
Proof. exact (absorbing_wall_zero sc s j d b). Qed.
Print Assumptions C01_absorbing_model.

(** (5) shortening the histogram only removes energy: the model's first N' bins do not depend
    on the window at all (they equal the unbounded recursion), and the energy in a shorter
    window is at most the energy in a longer one. *)
Theorem C01_truncate {T} {O : Ops T} {RL : RingLaws T} {OL : OrderLaws T}
    (P : list (nat * nat)) delta c out delta0 e0 N N' K j d b :
  (forall i j d b, (0 <= c i j d b)%T) -> (forall j d b, (0 <= e0 j d b)%T) -> N' <= N ->
  (hsum N' (Tot P delta c out delta0 e0 K j d b) <= hsum N (Tot P delta c out delta0 e0 K j d b))%T.
Proof. intros Hc He. exact (window_monotone P delta c out delta0 e0 Hc He N N' K j d b). Qed.
Print Assumptions C01_truncate.

(** (1''') the statement itself, on the executable pipeline model of a diffusely reflecting scene:
    with a window that holds every arrival, the order-(k+1) energy summed over patches and time
    equals the order-k energy of every patch m, redistributed by form factor x attenuation [Gm m j]
    and multiplied, patch by patch, by the reflectance of the wall of the RECEIVING patch j *)
From SV Require Import Proofs.Reciprocity Proofs.ReciprocityModel Proofs.BalanceModel.
Theorem C01_model_balance {T} {O : Ops T} {RL : RingLaws T}
    (sc : @scene T) tm b rho (p : @point_data T) N k :
  wf_scene sc -> s_nd sc = 1 -> (forall w a d, beta sc w a d b = rho w) -> b < s_nb sc ->
  (forall m j, m < s_np sc -> j < s_np sc -> scene_delta sc tm m j <= N /\
      forall t, N - scene_delta sc tm m j <= t -> t < N ->
        E (directed (vis_pairs sc)) (scene_delta sc tm) (tilde_entry sc) (out_index sc)
          (scene_delta0 sc tm (as_source p)) (e0dir_entry sc (as_source p)) k m 0 b t = 0%T) ->
  sumf (seq 0 (s_np sc)) (fun j => hsum N
    (E (directed (vis_pairs sc)) (scene_delta sc tm) (tilde_entry sc) (out_index sc)
       (scene_delta0 sc tm (as_source p)) (e0dir_entry sc (as_source p)) (S k) j 0 b)) =
  sumf (seq 0 (s_np sc)) (fun j =>
    (rho (wall sc j) * sumf (seq 0 (s_np sc)) (fun m => (Gm sc b m j * hsum N
      (E (directed (vis_pairs sc)) (scene_delta sc tm) (tilde_entry sc) (out_index sc)
         (scene_delta0 sc tm (as_source p)) (e0dir_entry sc (as_source p)) k m 0 b))%T))%T).
Proof. intros WF Hnd Hd Hb. exact (model_balance sc tm b WF Hnd rho Hd Hb p N k). Qed.
Print Assumptions C01_model_balance.

(** (1'''') a caveat on [C01_model_balance], found while lifting C09 to the composed model: its
    diffuse hypothesis quantifies over ALL table indices, and [beta] -- a total lookup into nested
    lists -- returns 0 beyond the end of a table.  The hypothesis therefore only allows
    reflectance 0 (cf. [C09_model_diffuse_everywhere_forces_zero]): [C01_model_balance] as stated
    covers scenes that reflect nothing.  It is kept, and restated below with hypotheses a scene
    given by lists can meet. *)
From SV Require Import Proofs.ReciprocityVis Proofs.DiffuseBounded.
Theorem C01_model_balance_forces_zero {T} {O : Ops T} (sc : @scene T) b (rho : nat -> T) :
  (forall w a d, beta sc w a d b = rho w) -> forall w, rho w = 0%T.
Proof. exact (diffuse_everywhere_forces_zero sc b rho). Qed.
Print Assumptions C01_model_balance_forces_zero.

(** (1''''') [C01_model_balance] with the diffuse hypothesis restricted to the IN-RANGE table
    entries: walls that have a table index, incoming samples below the number of rows of that
    wall's table, outgoing slots below [s_nd sc]; plus the shape condition that makes every
    lookup of the model land in range (every patch's wall has a table index, a non-empty incoming
    direction set, and a table row for each incoming direction).
    Non-vacuity: [Instances/NonVacuity.v], [C01_model_balance_bounded_witness] (reflectances
    1/2 and 1/3, every hypothesis checked by computation, both sides equal to a non-zero number). *)
Theorem C01_model_balance_bounded {T} {O : Ops T} {RL : RingLaws T}
    (sc : @scene T) tm b rho (p : @point_data T) N k :
  wf_scene sc -> s_nd sc = 1 -> b < s_nb sc ->
  (forall j, j < s_np sc ->
     wall sc j < length (s_tidx sc) /\ in_dirs sc (wall sc j) <> [] /\
     length (in_dirs sc (wall sc j)) <= length (nthl (s_tables sc) (nthn (s_tidx sc) (wall sc j)))) ->
  (forall w a d, w < length (s_tidx sc) -> a < length (nthl (s_tables sc) (nthn (s_tidx sc) w)) ->
     d < s_nd sc -> beta sc w a d b = rho w) ->
  (forall m j, m < s_np sc -> j < s_np sc -> scene_delta sc tm m j <= N /\
      forall t, N - scene_delta sc tm m j <= t -> t < N ->
        E (directed (vis_pairs sc)) (scene_delta sc tm) (tilde_entry sc) (out_index sc)
          (scene_delta0 sc tm (as_source p)) (e0dir_entry sc (as_source p)) k m 0 b t = 0%T) ->
  sumf (seq 0 (s_np sc)) (fun j => hsum N
    (E (directed (vis_pairs sc)) (scene_delta sc tm) (tilde_entry sc) (out_index sc)
       (scene_delta0 sc tm (as_source p)) (e0dir_entry sc (as_source p)) (S k) j 0 b)) =
  sumf (seq 0 (s_np sc)) (fun j =>
    (rho (wall sc j) * sumf (seq 0 (s_np sc)) (fun m => (Gm sc b m j * hsum N
      (E (directed (vis_pairs sc)) (scene_delta sc tm) (tilde_entry sc) (out_index sc)
         (scene_delta0 sc tm (as_source p)) (e0dir_entry sc (as_source p)) k m 0 b))%T))%T).
Proof.
  intros WF Hnd Hb TO Hd. exact (model_balance_bounded sc tm b WF Hnd rho Hb p N k TO Hd).
Qed.
Print Assumptions C01_model_balance_bounded.

(** ... and with the diffuse hypothesis asked only of the entries the model READS: the incoming
    sample selected for each visible pair and for each patch the source sees, slot 0 (no shape
    condition on the tables is needed then) *)
Theorem C01_model_balance_vis {T} {O : Ops T} {RL : RingLaws T}
    (sc : @scene T) tm b rho (p : @point_data T) N k :
  wf_scene sc -> s_nd sc = 1 -> b < s_nb sc ->
  (forall i j, i < s_np sc -> j < s_np sc -> vis_sym sc i j = true ->
     beta sc (wall sc j) (in_index sc i j) 0 b = rho (wall sc j)) ->
  (forall i, i < s_np sc -> nthb (p_vis p) i = true ->
     beta sc (wall sc i) (src_in_index sc (as_source p) i) 0 b = rho (wall sc i)) ->
  (forall m j, m < s_np sc -> j < s_np sc -> scene_delta sc tm m j <= N /\
      forall t, N - scene_delta sc tm m j <= t -> t < N ->
        E (directed (vis_pairs sc)) (scene_delta sc tm) (tilde_entry sc) (out_index sc)
          (scene_delta0 sc tm (as_source p)) (e0dir_entry sc (as_source p)) k m 0 b t = 0%T) ->
  sumf (seq 0 (s_np sc)) (fun j => hsum N
    (E (directed (vis_pairs sc)) (scene_delta sc tm) (tilde_entry sc) (out_index sc)
       (scene_delta0 sc tm (as_source p)) (e0dir_entry sc (as_source p)) (S k) j 0 b)) =
  sumf (seq 0 (s_np sc)) (fun j =>
    (rho (wall sc j) * sumf (seq 0 (s_np sc)) (fun m => (Gm sc b m j * hsum N
      (E (directed (vis_pairs sc)) (scene_delta sc tm) (tilde_entry sc) (out_index sc)
         (scene_delta0 sc tm (as_source p)) (e0dir_entry sc (as_source p)) k m 0 b))%T))%T).
Proof.
  intros WF Hnd Hb Hdp Hds. exact (model_balance_vis sc tm b WF Hnd rho Hb p N k Hdp Hds).
Qed.
Print Assumptions C01_model_balance_vis.
