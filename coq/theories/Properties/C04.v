(** C04 -- Initial source energy is the solid-angle share of each patch.
    Only theorem statements, each closed by [exact].

    Model: [Model/PtSolution.v] ([sphere_tangent], [pt_solution] in both modes, [poly_area],
    [s2p_energy]/[s2p_dist]/[p2r_factor] = the visibility-gated kernels on top of [Scene.energy0]).

    NOT proved (see [C04_partial] and NOT_CARRIED in harness/props/C04.py): [0 <= share], "the
    shares of all patches of a closed room sum to 1", and "the share of a wall does not depend on
    its subdivision".  All three are the spherical angle-excess (Girard / Gauss-Bonnet) theorem,
    which is not available in the installed libraries; they are exercised by the search only. *)
From Coq Require Import List Arith Bool.
Import ListNotations.
From SV Require Import Base.Ops Base.OpsGeom Base.Arr Base.Sums Model.Vec3 Model.Exchange Model.Scene
  Model.PtSolution Spec.Isometry Proofs.PtUpper Proofs.PtVertexOrder Proofs.PtSimilarity
  Model.Tiling Model.Full Proofs.FullShoebox.

(** (1) the share of any polygon with at least three vertices is at most one half:
    every interior angle is an [acos], hence [<= pi], so the excess is [<= 2 pi]. *)
Theorem C04_upper {T} {O : Ops T} {RL : RingLaws T} {OL : OrderLaws T} {FL : FieldLaws T}
    {NL : NatLaws T} {AL : AcosLaws T} (thr : T) (pt : @vec T) (pts : list (@vec T)) :
  3 <= length pts -> (pt_solution thr false pt pts <= 1 / (1 + 1))%T.
Proof. exact (share_le_half thr pt pts). Qed.
Print Assumptions C04_upper.

(** (1') strictly below one half as soon as, at some vertex of the projected polygon, the two
    tangent vectors are not antiparallel (non-degeneracy; [acos x < pi] for [-1 < x]). *)
Theorem C04_upper_strict {T} {O : Ops T} {RL : RingLaws T} {OL : OrderLaws T} {FL : FieldLaws T}
    {NL : NatLaws T} {AL : AcosLaws T} {ASL : AcosStrictLaws T}
    (thr : T) (pt : @vec T) (pts : list (@vec T)) :
  3 <= length pts ->
  (exists i, i < length pts /\
     let S := on_sphere pt pts in let n := length S in
     (- (1) < vdot (sphere_tangent thr (nthv S i) (nthv S (prev_idx n i)))
                   (sphere_tangent thr (nthv S i) (nthv S (next_idx n i))))%T) ->
  (pt_solution thr false pt pts < 1 / (1 + 1))%T.
Proof. exact (share_lt_half_tangent thr pt pts). Qed.
Print Assumptions C04_upper_strict.

(** (2) a patch that is not visible from the source (facing away or hidden) receives exactly
    zero energy in every band and is assigned distance exactly zero -- no law needed. *)
Theorem C04_hidden_zero {T} {O : Ops T} (sc : @scene T) (s : @source T) (j b : nat) :
  nthb (src_vis s) j = false -> energy0 sc s j b = 0%T /\ src_dist sc s j = 0%T.
Proof. exact (hidden_zero sc s j b). Qed.
Print Assumptions C04_hidden_zero.

(** (2') the same for the kernels that compute the shares with [pt_solution] (source and receiver) *)
Theorem C04_hidden_zero_kernels {T} {O : Ops T} (thr : T) (sc : @scene T) (pos : @vec T)
    (vis : list bool) (patches : list (list (@vec T))) (j b : nat) :
  nthb vis j = false ->
  s2p_energy thr sc pos vis patches j b = 0%T /\ s2p_dist thr sc pos vis patches j = 0%T /\
  p2r_factor thr pos vis patches j = 0%T.
Proof. exact (hidden_zero_kernels thr sc pos vis patches j b). Qed.
Print Assumptions C04_hidden_zero_kernels.

(** (3) vertex order.  In a commutative ring the SUM of the interior angles (written with [sumf]
    over the index list, [asum]) is the same for every cyclic shift [l1 ++ l2 -> l2 ++ l1] and for
    the reversed vertex list: the summands are re-indexed by a permutation.  The list model folds
    left to right; as ring elements its results coincide too (second conjunct).  For floats the
    fold visits the same summands in another order: equal up to rounding only. *)
Theorem C04_vertex_order {T} {O : Ops T} {RL : RingLaws T} (thr : T) (pt : @vec T)
    (l1 l2 l : list (@vec T)) :
  (asum thr (on_sphere pt (l1 ++ l2)) = asum thr (on_sphere pt (l2 ++ l1)) /\
   asum thr (on_sphere pt (rev l)) = asum thr (on_sphere pt l)) /\
  (pt_solution thr false pt (l1 ++ l2) = pt_solution thr false pt (l2 ++ l1) /\
   pt_solution thr false pt (rev l) = pt_solution thr false pt l).
Proof. exact (vertex_order thr pt l1 l2 l). Qed.
Print Assumptions C04_vertex_order.

(** (4a) translation of point and patch, both modes (commutative ring) *)
Theorem C04_similarity_translation {T} {O : Ops T} {RL : RingLaws T} (thr : T) (recv : bool)
    (t pt : @vec T) (pts : list (@vec T)) :
  pt_solution thr recv (vadd pt t) (map (fun p => vadd p t) pts) = pt_solution thr recv pt pts.
Proof. exact (pt_solution_translate thr recv t pt pts). Qed.
Print Assumptions C04_similarity_translation.

(** (4b) any linear isometry [M^T M = I] (rotations and reflections), both modes *)
Theorem C04_similarity_isometry {T} {O : Ops T} {RL : RingLaws T} {DL : DivLaws T} (M : @mat T)
    (thr : T) (recv : bool) (pt : @vec T) (pts : list (@vec T)) :
  orthogonal M ->
  pt_solution thr recv (mapply M pt) (map (mapply M) pts) = pt_solution thr recv pt pts.
Proof. intros HM. exact (pt_solution_iso M HM thr recv pt pts). Qed.
Print Assumptions C04_similarity_isometry.

(** (4c) uniform positive scaling, source mode, when no vertex coincides with the point
    (ordered field with square roots: [sqrt (s^2 x) = s sqrt x] is derived from [SqrtLaws]) *)
Theorem C04_similarity_scaling {T} {O : Ops T} {RL : RingLaws T} {OL : OrderLaws T} {FL : FieldLaws T}
    {SL : SqrtLaws T} (thr s : T) (pt : @vec T) (pts : list (@vec T)) :
  (0 < s)%T -> (forall p, In p pts -> (0 < vnorm2 (vsub p pt))%T) ->
  pt_solution thr false (vscale s pt) (map (vscale s) pts) = pt_solution thr false pt pts.
Proof. exact (pt_solution_scale thr s pt pts). Qed.
Print Assumptions C04_similarity_scaling.

(** (4) all three together: the source-mode share is a similarity invariant *)
Theorem C04_similarity {T} {O : Ops T} {RL : RingLaws T} {OL : OrderLaws T} {FL : FieldLaws T}
    {SL : SqrtLaws T} {DL : DivLaws T} (M : @mat T) (thr s : T) (t pt : @vec T) (pts : list (@vec T)) :
  orthogonal M -> (0 < s)%T -> (forall p, In p pts -> (0 < vnorm2 (vsub p pt))%T) ->
  pt_solution thr false (vadd pt t) (map (fun p => vadd p t) pts) = pt_solution thr false pt pts /\
  pt_solution thr false (mapply M pt) (map (mapply M) pts) = pt_solution thr false pt pts /\
  pt_solution thr false (vscale s pt) (map (vscale s) pts) = pt_solution thr false pt pts.
Proof.
  intros HM Hs Hp.
  exact (conj (pt_solution_translate thr false t pt pts)
          (conj (pt_solution_iso M HM thr false pt pts) (pt_solution_scale thr s pt pts Hs Hp))).
Qed.
Print Assumptions C04_similarity.

(** (5) PARTIAL.  What is proved towards the remaining clauses: a visible patch receives
    attenuation times the modelled share, and the excess is bounded below by [-(n-2) pi]
    (each interior angle is [>= 0]).  NOT proved: [0 <= share]; closed-room shares sum to 1;
    independence of subdivision (Gauss-Bonnet; see the header). *)
Theorem C04_partial {T} {O : Ops T} {RL : RingLaws T} {OL : OrderLaws T} {FL : FieldLaws T}
    {NL : NatLaws T} {AL : AcosLaws T} (thr : T) (sc : @scene T) (pos : @vec T)
    (vis : list bool) (patches : list (list (@vec T))) (j b : nat) :
  (nthb vis j = true -> j < length patches ->
   s2p_energy thr sc pos vis patches j b =
   (attn sc b (vdist pos (center sc j)) * pt_solution thr false pos (nth j patches []))%T) /\
  (- (tofnat (length (nth j patches []) - 2) * tpi)
   <= pt_solution thr false pos (nth j patches []) * (tpi * four))%T.
Proof.
  exact (conj (visible_share thr sc pos vis patches j b) (share_lower_weak thr pos (nth j patches []))).
Qed.
Print Assumptions C04_partial.

(** (6) in a genuine shoebox room the hidden-patch clause (2) is vacuous for an interior source or
    receiver: every patch is visible from every point strictly inside the box (farther than eps and
    eta from the six wall planes), so each patch receives attenuation times its share (5).
    [is_shoebox], [sb_tolerances]: see C07_is_shoebox_unfold / C07_sb_tolerances_unfold in
    Properties/C07.v (the room of [sp.testing.shoebox_room_stub]; 2 eps, 2 eta < patch size);
    [sb_inside]: eps, eta < inward distance from each of the six wall planes
    (C07_shoebox_point_visibility spells it out). *)
Theorem C04_shoebox_all_patches_visible {T} {O : Ops T} {RL : RingLaws T} {OL : OrderLaws T}
    {FL : FieldLaws T} {FlL : FloorLaws T} {SL : SqrtLaws T}
    (rm : @room T) (x0 x1 y0 y1 z0 z1 : T) (pos : @vec T) :
  is_shoebox rm x0 x1 y0 y1 z0 z1 -> sb_tolerances rm -> sb_inside rm x0 x1 y0 y1 z0 z1 pos ->
  forall k, k < rm_np rm ->
    nthb (src_vis (room_source rm pos)) k = true /\ nthb (r_vis (room_receiver rm pos)) k = true.
Proof.
  exact (fun Hsb Htol Hpos k Hk =>
           conj (shoebox_point_visibility rm x0 x1 y0 y1 z0 z1 pos Hsb Htol Hpos k Hk)
                (shoebox_point_visibility rm x0 x1 y0 y1 z0 z1 pos Hsb Htol Hpos k Hk)).
Qed.
Print Assumptions C04_shoebox_all_patches_visible.
