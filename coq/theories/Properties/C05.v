(** C05 -- Form factors obey bounds, reciprocity, closure and similarity invariance.
    Only theorem statements, each closed by [exact].

    Similarity: with cut-off 0 (the code as repaired in /repo) the Stokes value is the cut-off-free
    double Boole sum (5c); that sum is invariant under translations (5b), under every linear map
    preserving inner products composed with a translation (5d), under uniform scaling by s > 0 with
    the area scaled by s*s (5e); the 48 signed axis permutations keep the value for EVERY cut-off (5f).

    NOT carried by any theorem (see NOT_CARRIED in harness/props/C05.py): F <= 1, the 2.5 % closure
    of a closed room, every statement about the Nusselt branch. *)
From Coq Require Import List Arith Bool Permutation.
Import ListNotations.
From SV Require Import Base.Ops Base.Arr Base.Sums Model.Vec3 Model.Exchange Model.Scene Model.Stokes
  Spec.Isometry Proofs.FieldFacts Proofs.BooleExact Proofs.StokesAssembly Proofs.StokesSum
  Proofs.StokesSimilarity.

(** (1) a pair that is not in the visible list has an exactly zero entry in the assembled
    form-factor matrix (zero initialised, only listed pairs are written), an exactly zero full
    form factor under the i<j rule, and exactly zero transfer factors. *)
Theorem C05_invisible_zero {T} {O : Ops T} {RL : RingLaws T} {OL : OrderLaws T} {FL : FieldLaws T}
    (sc : @scene T) thres cut pts nus i j :
  s_F sc = patch2patch_ff thres cut pts (s_areas sc) (vis_pairs sc) nus ->
  area sc i <> 0%T -> vis_sym sc i j = false ->
  (if i <? j then get2 (s_F sc) i j else get2 (s_F sc) j i) = 0%T /\
  ff_full sc i j = 0%T /\
  forall d b, get4 (tilde sc) i j d b = 0%T.
Proof. exact (invisible_zero sc thres cut pts nus i j). Qed.
Print Assumptions C05_invisible_zero.

(** (2) reciprocity of the full matrix implied by the i<j rule, for arbitrary stored entries *)
Theorem C05_reciprocity {T} {O : Ops T} {RL : RingLaws T} {OL : OrderLaws T} {FL : FieldLaws T}
    (sc : @scene T) i j :
  i <> j -> area sc i <> 0%T -> area sc j <> 0%T ->
  (area sc i * ff_full sc i j)%T = (area sc j * ff_full sc j i)%T.
Proof. exact (ff_full_reciprocity sc i j). Qed.
Print Assumptions C05_reciprocity.

(** (2') the double Boole sum of the Stokes model is symmetric in the two patches -- in every
    commutative ring, with the cut-off in place (the rule is applied to the segments of each patch
    separately, so no condition on the cut-off is needed) ... *)
Theorem C05_stokes_sum_symmetric {T} {O : Ops T} {RL : RingLaws T} (cut : T) (pi pj : list (@vec T)) :
  stokes_outer (cut_active cut) pi pj = stokes_outer (cut_active cut) pj pi.
Proof. exact (stokes_outer_sym (cut_active cut) pi pj). Qed.
Print Assumptions C05_stokes_sum_symmetric.

(** (2'') ... hence area_i * stokes(i->j) = area_j * stokes(j->i): which side is integrated is
    immaterial on the Stokes branch. *)
Theorem C05_reciprocity_stokes {T} {O : Ops T} {RL : RingLaws T} {OL : OrderLaws T} {FL : FieldLaws T}
    {AL : AbsLaws T} (cut : T) (pi pj : list (@vec T)) (ai aj : T) :
  (0 < tpi)%T -> (0 < ai)%T -> (0 < aj)%T ->
  (ai * stokes_integration cut pi pj ai)%T = (aj * stokes_integration cut pj pi aj)%T.
Proof. exact (stokes_reciprocity (cut_active cut) pi pj ai aj). Qed.
Print Assumptions C05_reciprocity_stokes.

(** (3) the Stokes value is never negative; so is every Stokes-branch entry of the assembled matrix *)
Theorem C05_stokes_nonneg {T} {O : Ops T} {AL : AbsLaws T} (cut : T) (pi pj : list (@vec T)) (a : T) :
  (0 <= stokes_integration cut pi pj a)%T.
Proof. exact (stokes_gen_nonneg (cut_active cut) pi pj a). Qed.
Print Assumptions C05_stokes_nonneg.

Theorem C05_stokes_entry_nonneg {T} {O : Ops T} {AL : AbsLaws T} thres cut pts areas pairs nus i j :
  i < length areas -> j < length areas -> pair_in pairs i j = true ->
  coincidence_check thres (nth j pts []) (nth i pts []) = false ->
  (0 <= get2 (patch2patch_ff thres cut pts areas pairs nus) i j)%T.
Proof. exact (baked_stokes_entry_nonneg thres cut pts areas pairs nus i j). Qed.
Print Assumptions C05_stokes_entry_nonneg.

(** (4) [_newton_cotes_4th] integrates every polynomial of degree <= 5 exactly on five equidistant
    nodes a, a+h, ..., a+4h (ordered field, i.e. characteristic 0), and is linear in the samples. *)
Theorem C05_boole_exact {T} {O : Ops T} {RL : RingLaws T} {OL : OrderLaws T} {FL : FieldLaws T}
    (k0 k1 k2 k3 k4 k5 a h : T) :
  let p := poly5 k0 k1 k2 k3 k4 k5 in
  let x := [a; a + h; a + c2 * h; a + c3 * h; a + c4 * h]%T in
  newton_cotes_4th x (map p x) =
  (prim5 k0 k1 k2 k3 k4 k5 (a + c4 * h) - prim5 k0 k1 k2 k3 k4 k5 a)%T.
Proof. exact (boole_exact k0 k1 k2 k3 k4 k5 a h). Qed.
Print Assumptions C05_boole_exact.

Theorem C05_boole_linear {T} {O : Ops T} {RL : RingLaws T} {OL : OrderLaws T} {FL : FieldLaws T}
    (h a b y0 y1 y2 y3 y4 z0 z1 z2 z3 z4 : T) :
  boole_h h (a * y0 + b * z0)%T (a * y1 + b * z1)%T (a * y2 + b * z2)%T (a * y3 + b * z3)%T (a * y4 + b * z4)%T =
  (a * boole_h h y0 y1 y2 y3 y4 + b * boole_h h z0 z1 z2 z3 z4)%T.
Proof. exact (boole_h_linear h a b y0 y1 y2 y3 y4 z0 z1 z2 z3 z4). Qed.
Print Assumptions C05_boole_linear.

(** (5a) if no polygon edge has a coordinate extent in (0, cut] -- every extent is exactly 0 or
    exceeds the cut-off -- the code's value is the cut-off-free double Boole sum *)
Theorem C05_similarity_cut_is_nocut {T} {O : Ops T} {RL : RingLaws T} {OL : OrderLaws T} {FL : FieldLaws T}
    (cut : T) (pi pj : list (@vec T)) (a : T) :
  (forall dim i, i < length pi -> edge_ext pi dim i = 0%T \/ cut_active cut (edge_ext pi dim i) = true) ->
  (forall dim i, i < length pj -> edge_ext pj dim i = 0%T \/ cut_active cut (edge_ext pj dim i) = true) ->
  stokes_integration cut pi pj a = stokes_nocut pi pj a.
Proof. exact (stokes_cut_is_nocut cut pi pj a). Qed.
Print Assumptions C05_similarity_cut_is_nocut.

(** (5b, partial) translation invariance -- of the code's value (cut-off included: the rule looks at
    coordinate differences only) and of the cut-off-free sum.  Rotations, scalings, axis permutations: (5d), (5e), (5f) below. *)
Theorem C05_similarity_partial {T} {O : Ops T} {RL : RingLaws T} (cut : T) (t : @vec T)
    (pi pj : list (@vec T)) (a : T) :
  stokes_integration cut (map (fun p => vadd p t) pi) (map (fun p => vadd p t) pj) a =
    stokes_integration cut pi pj a /\
  stokes_nocut (map (fun p => vadd p t) pi) (map (fun p => vadd p t) pj) a = stokes_nocut pi pj a.
Proof.
  exact (conj (stokes_gen_translate (cut_active cut) t pi pj a)
              (stokes_gen_translate (fun _ => true) t pi pj a)).
Qed.
Print Assumptions C05_similarity_partial.

(** (5c) cut-off 0, i.e. the code's [np.abs(x[-1]-x[0]) > 0]: a skipped segment has extent exactly 0,
    its Boole term is 0, so the value is the cut-off-free double Boole sum -- for ALL patches *)
Theorem C05_similarity_cut0 {T} {O : Ops T} {RL : RingLaws T} {OL : OrderLaws T} {FL : FieldLaws T}
    {AL : AbsLaws T} (pi pj : list (@vec T)) (a : T) :
  stokes_integration 0%T pi pj a = stokes_nocut pi pj a.
Proof. exact (stokes_cut0_is_nocut pi pj a). Qed.
Print Assumptions C05_similarity_cut0.

(** (5d) rigid motions [x |-> M x + t] with [M] preserving inner products (equivalently [M^T M = I]:
    rotations, mirrorings): the cut-off-free sum and the code's value with cut-off 0 are unchanged.
    Ordered field; [tsqrt] and [tln] are uninterpreted (the entries only see [<p-q, p-q>]). *)
Theorem C05_similarity_isometry {T} {O : Ops T} {RL : RingLaws T} {OL : OrderLaws T} {FL : FieldLaws T}
    {AL : AbsLaws T} (M : @mat T) (t : @vec T) (pi pj : list (@vec T)) (a : T) :
  (forall x y, vdot (mapply M x) (mapply M y) = vdot x y) ->
  stokes_nocut (map (fun x => vadd (mapply M x) t) pi) (map (fun x => vadd (mapply M x) t) pj) a =
    stokes_nocut pi pj a /\
  stokes_integration 0%T (map (fun x => vadd (mapply M x) t) pi) (map (fun x => vadd (mapply M x) t) pj) a =
    stokes_integration 0%T pi pj a.
Proof.
  intros H. exact (conj (stokes_nocut_rigid M t pi pj a H) (stokes_cut0_rigid M t pi pj a H)).
Qed.
Print Assumptions C05_similarity_isometry.

(** (5d') the same for [M^T M = I] as defined in Spec/Isometry.v *)
Theorem C05_similarity_orthogonal {T} {O : Ops T} {RL : RingLaws T} {OL : OrderLaws T} {FL : FieldLaws T}
    {AL : AbsLaws T} (M : @mat T) (t : @vec T) (pi pj : list (@vec T)) (a : T) :
  orthogonal M ->
  stokes_nocut (map (fun x => vadd (mapply M x) t) pi) (map (fun x => vadd (mapply M x) t) pj) a =
    stokes_nocut pi pj a /\
  stokes_integration 0%T (map (fun x => vadd (mapply M x) t) pi) (map (fun x => vadd (mapply M x) t) pj) a =
    stokes_integration 0%T pi pj a.
Proof.
  intros H. exact (conj (stokes_nocut_orthogonal M t pi pj a H) (stokes_cut0_orthogonal M t pi pj a H)).
Qed.
Print Assumptions C05_similarity_orthogonal.

(** (5e) uniform scaling by [s > 0], the area scaled by [s*s]: unchanged, provided the sampled
    boundaries of the two patches are at positive distance (true whenever the Stokes branch is
    taken: the patches do not touch), [pi <> 0] and the area is not 0.  Uses
    [ln (x y) = ln x + ln y] for positive x, y ([LnLaws]) and [SqrtLaws]; the [ln s] term
    multiplies the sum of the step vectors of a closed polygon, which is 0. *)
Theorem C05_similarity_scaling {T} {O : Ops T} {RL : RingLaws T} {OL : OrderLaws T} {FL : FieldLaws T}
    {SL : SqrtLaws T} {LL : LnLaws T} (s : T) (pi pj : list (@vec T)) (a : T) :
  (0 < s)%T ->
  (forall p q, In p (sample_pts 5 pi) -> In q (sample_pts 5 pj) -> (0 < vnorm (vsub p q))%T) ->
  tpi <> 0%T -> a <> 0%T ->
  stokes_nocut (map (vscale s) pi) (map (vscale s) pj) ((s * s) * a)%T = stokes_nocut pi pj a /\
  stokes_integration 0%T (map (vscale s) pi) (map (vscale s) pj) ((s * s) * a)%T =
    stokes_integration 0%T pi pj a.
Proof.
  intros Hs Hpos Hpi Ha.
  exact (conj (stokes_nocut_scale s Hs pi pj Hpos a Hpi Ha) (stokes_cut0_scale s Hs pi pj Hpos a Hpi Ha)).
Qed.
Print Assumptions C05_similarity_scaling.

(** (5e') the double sum itself picks up the factor [s*s] (no condition on [pi] or the area) *)
Theorem C05_similarity_scaling_sum {T} {O : Ops T} {RL : RingLaws T} {OL : OrderLaws T} {FL : FieldLaws T}
    {SL : SqrtLaws T} {LL : LnLaws T} (s : T) (pi pj : list (@vec T)) :
  (0 < s)%T ->
  (forall p q, In p (sample_pts 5 pi) -> In q (sample_pts 5 pj) -> (0 < vnorm (vsub p q))%T) ->
  stokes_outer (fun _ => true) (map (vscale s) pi) (map (vscale s) pj) =
    ((s * s) * stokes_outer (fun _ => true) pi pj)%T.
Proof. intros Hs Hpos. exact (stokes_outer_nocut_scale s Hs pi pj Hpos). Qed.
Print Assumptions C05_similarity_scaling_sum.

(** (5f) the 48 signed axis permutations [p |-> (e0 p[sigma 0], e1 p[sigma 1], e2 p[sigma 2])] keep
    the code's value for EVERY cut-off: the segment rule sees |e_d x| = |x|, both patches carry the
    same sign, and the three coordinate sums are reordered. *)
Theorem C05_similarity_axis_permutation {T} {O : Ops T} {RL : RingLaws T} {OL : OrderLaws T}
    {FL : FieldLaws T} {AL : AbsLaws T} (sigma : nat -> nat) (e0 e1 e2 cut : T)
    (pi pj : list (@vec T)) (a : T) :
  Permutation [sigma 0; sigma 1; sigma 2] [0; 1; 2] ->
  (e0 = 1 \/ e0 = - (1))%T -> (e1 = 1 \/ e1 = - (1))%T -> (e2 = 1 \/ e2 = - (1))%T ->
  let m := fun p : @vec T =>
    mkv (e0 * coord (sigma 0%nat) p)%T (e1 * coord (sigma 1%nat) p)%T (e2 * coord (sigma 2%nat) p)%T in
  stokes_integration cut (map m pi) (map m pj) a = stokes_integration cut pi pj a.
Proof.
  intros Hp H0 H1 H2. exact (stokes_integration_sperm sigma e0 e1 e2 Hp H0 H1 H2 cut pi pj a).
Qed.
Print Assumptions C05_similarity_axis_permutation.
