(** C05 -- Form factors obey bounds, reciprocity, closure and similarity invariance.
    Only theorem statements, each closed by [exact].

    NOT carried by any theorem (see NOT_CARRIED in harness/props/C05.py): F <= 1, the 2.5 % closure
    of a closed room, every statement about the Nusselt branch, invariance under rotations and
    scalings (false for the code with its cut-off: known finding; for [stokes_nocut] not proved). *)
From Coq Require Import List Arith Bool.
Import ListNotations.
From SV Require Import Base.Ops Base.Arr Base.Sums Model.Vec3 Model.Exchange Model.Scene Model.Stokes
  Proofs.FieldFacts Proofs.BooleExact Proofs.StokesAssembly Proofs.StokesSum.

(** (1) a pair that is not in the visible list has an exactly zero entry in the assembled
    form-factor matrix (zero initialised, only listed pairs are written), an exactly zero full
    form factor under the i<j rule, and exactly zero transfer factors. *)
Theorem C05_invisible_zero {T} {O : Ops T} {RL : RingLaws T} {OL : OrderLaws T} {FL : FieldLaws T}
    (sc : @scene T) thres cut pts nus i j :
  s_F sc = patch2patch_ff thres cut pts (s_areas sc) (vis_pairs sc) nus ->
  area sc i <> 0%T -> vis_sym sc i j = false ->
  (if i <? j then get2 (s_F sc) i j else get2 (s_F sc) j i) = 0%T /\
  ff_full sc i j = 0%T /\
  forall d b, get4 (tilde sc) i j d b = 0%T.
Proof. exact (invisible_zero sc thres cut pts nus i j). Qed.
Print Assumptions C05_invisible_zero.

(** (2) reciprocity of the full matrix implied by the i<j rule, for arbitrary stored entries *)
Theorem C05_reciprocity {T} {O : Ops T} {RL : RingLaws T} {OL : OrderLaws T} {FL : FieldLaws T}
    (sc : @scene T) i j :
  i <> j -> area sc i <> 0%T -> area sc j <> 0%T ->
  (area sc i * ff_full sc i j)%T = (area sc j * ff_full sc j i)%T.
Proof. exact (ff_full_reciprocity sc i j). Qed.
Print Assumptions C05_reciprocity.

(** (2') the double Boole sum of the Stokes model is symmetric in the two patches -- in every
    commutative ring, with the cut-off in place (the rule is applied to the segments of each patch
    separately, so no condition on the cut-off is needed) ... *)
Theorem C05_stokes_sum_symmetric {T} {O : Ops T} {RL : RingLaws T} (cut : T) (pi pj : list (@vec T)) :
  stokes_outer (cut_active cut) pi pj = stokes_outer (cut_active cut) pj pi.
Proof. exact (stokes_outer_sym (cut_active cut) pi pj). Qed.
Print Assumptions C05_stokes_sum_symmetric.

(** (2'') ... hence area_i * stokes(i->j) = area_j * stokes(j->i): which side is integrated is
    immaterial on the Stokes branch. *)
Theorem C05_reciprocity_stokes {T} {O : Ops T} {RL : RingLaws T} {OL : OrderLaws T} {FL : FieldLaws T}
    {AL : AbsLaws T} (cut : T) (pi pj : list (@vec T)) (ai aj : T) :
  (0 < tpi)%T -> (0 < ai)%T -> (0 < aj)%T ->
  (ai * stokes_integration cut pi pj ai)%T = (aj * stokes_integration cut pj pi aj)%T.
Proof. exact (stokes_reciprocity (cut_active cut) pi pj ai aj). Qed.
Print Assumptions C05_reciprocity_stokes.

(** (3) the Stokes value is never negative; so is every Stokes-branch entry of the assembled matrix *)
Theorem C05_stokes_nonneg {T} {O : Ops T} {AL : AbsLaws T} (cut : T) (pi pj : list (@vec T)) (a : T) :
  (0 <= stokes_integration cut pi pj a)%T.
Proof. exact (stokes_gen_nonneg (cut_active cut) pi pj a). Qed.
Print Assumptions C05_stokes_nonneg.

Theorem C05_stokes_entry_nonneg {T} {O : Ops T} {AL : AbsLaws T} thres cut pts areas pairs nus i j :
  i < length areas -> j < length areas -> pair_in pairs i j = true ->
  coincidence_check thres (nth j pts []) (nth i pts []) = false ->
  (0 <= get2 (patch2patch_ff thres cut pts areas pairs nus) i j)%T.
Proof. exact (baked_stokes_entry_nonneg thres cut pts areas pairs nus i j). Qed.
Print Assumptions C05_stokes_entry_nonneg.

(** (4) [_newton_cotes_4th] integrates every polynomial of degree <= 5 exactly on five equidistant
    nodes a, a+h, ..., a+4h (ordered field, i.e. characteristic 0), and is linear in the samples. *)
Theorem C05_boole_exact {T} {O : Ops T} {RL : RingLaws T} {OL : OrderLaws T} {FL : FieldLaws T}
    (k0 k1 k2 k3 k4 k5 a h : T) :
  let p := poly5 k0 k1 k2 k3 k4 k5 in
  let x := [a; a + h; a + c2 * h; a + c3 * h; a + c4 * h]%T in
  newton_cotes_4th x (map p x) =
  (prim5 k0 k1 k2 k3 k4 k5 (a + c4 * h) - prim5 k0 k1 k2 k3 k4 k5 a)%T.
Proof. exact (boole_exact k0 k1 k2 k3 k4 k5 a h). Qed.
Print Assumptions C05_boole_exact.

Theorem C05_boole_linear {T} {O : Ops T} {RL : RingLaws T} {OL : OrderLaws T} {FL : FieldLaws T}
    (h a b y0 y1 y2 y3 y4 z0 z1 z2 z3 z4 : T) :
  boole_h h (a * y0 + b * z0)%T (a * y1 + b * z1)%T (a * y2 + b * z2)%T (a * y3 + b * z3)%T (a * y4 + b * z4)%T =
  (a * boole_h h y0 y1 y2 y3 y4 + b * boole_h h z0 z1 z2 z3 z4)%T.
Proof. exact (boole_h_linear h a b y0 y1 y2 y3 y4 z0 z1 z2 z3 z4). Qed.
Print Assumptions C05_boole_linear.

(** (5a) if no polygon edge has a coordinate extent in (0, cut] -- every extent is exactly 0 or
    exceeds the cut-off -- the code's value is the cut-off-free double Boole sum *)
Theorem C05_similarity_cut_is_nocut {T} {O : Ops T} {RL : RingLaws T} {OL : OrderLaws T} {FL : FieldLaws T}
    (cut : T) (pi pj : list (@vec T)) (a : T) :
  (forall dim i, i < length pi -> edge_ext pi dim i = 0%T \/ cut_active cut (edge_ext pi dim i) = true) ->
  (forall dim i, i < length pj -> edge_ext pj dim i = 0%T \/ cut_active cut (edge_ext pj dim i) = true) ->
  stokes_integration cut pi pj a = stokes_nocut pi pj a.
Proof. exact (stokes_cut_is_nocut cut pi pj a). Qed.
Print Assumptions C05_similarity_cut_is_nocut.

(** (5b, partial) translation invariance -- of the code's value (cut-off included: the rule looks at
    coordinate differences only) and of the cut-off-free sum.  Rotations and scalings: not carried. *)
Theorem C05_similarity_partial {T} {O : Ops T} {RL : RingLaws T} (cut : T) (t : @vec T)
    (pi pj : list (@vec T)) (a : T) :
  stokes_integration cut (map (fun p => vadd p t) pi) (map (fun p => vadd p t) pj) a =
    stokes_integration cut pi pj a /\
  stokes_nocut (map (fun p => vadd p t) pi) (map (fun p => vadd p t) pj) a = stokes_nocut pi pj a.
Proof.
  exact (conj (stokes_gen_translate (cut_active cut) t pi pj a)
              (stokes_gen_translate (fun _ => true) t pi pj a)).
Qed.
Print Assumptions C05_similarity_partial.
