(** C05 -- Form factors obey bounds, reciprocity, closure and similarity invariance.
    Only theorem statements, each closed by [exact].

    Similarity: with cut-off 0 (the code as repaired in /repo) the Stokes value is the cut-off-free
    double Boole sum (5c); that sum is invariant under translations (5b), under every linear map
    preserving inner products composed with a translation (5d), under uniform scaling by s > 0 with
    the area scaled by s*s (5e); the 48 signed axis permutations keep the value for EVERY cut-off (5f).

    Nusselt branch (Model/Nusselt.v, Proofs/NusseltProofs.v): the model of [nusselt_analog] /
    [nusselt_integration] is invariant under a common translation (6a) and under uniform scaling by
    s > 0 (6b); the sample grid of a 4-vertex patch consists of the npointsx*npointsz cell centres (6c);
    the assembly with both branches computed keeps the exact zeros and the i<j reciprocity (6d);
    the composed room model ([Model/Full.v]) computes its whole form-factor matrix itself -- it is
    [patch2patch_ff_full] of the room's own tiling (6e).

    NOT carried by any theorem (see NOT_CARRIED in harness/props/C05.py): F <= 1, the 2.5 % closure
    of a closed room; for the Nusselt branch: accuracy, 0 <= F <= 1, reciprocity of the two-sided
    kernel, rotation invariance. *)
From Coq Require Import List Arith Bool Permutation.
Import ListNotations.
From SV Require Import Base.Ops Base.Arr Base.Sums Model.Vec3 Model.Exchange Model.Scene Model.Stokes
  Model.Nusselt Model.Tiling Model.PtSolution Model.Full Spec.Isometry Proofs.FieldFacts Proofs.BooleExact Proofs.StokesAssembly Proofs.StokesSum
  Proofs.StokesSimilarity Proofs.NusseltProofs.

(** (1) a pair that is not in the visible list has an exactly zero entry in the assembled
    form-factor matrix (zero initialised, only listed pairs are written), an exactly zero full
    form factor under the i<j rule, and exactly zero transfer factors. *)
Theorem C05_invisible_zero {T} {O : Ops T} {RL : RingLaws T} {OL : OrderLaws T} {FL : FieldLaws T}
    (sc : @scene T) thres cut pts nus i j :
  s_F sc = patch2patch_ff thres cut pts (s_areas sc) (vis_pairs sc) nus ->
  area sc i <> 0%T -> vis_sym sc i j = false ->
  (if i <? j then get2 (s_F sc) i j else get2 (s_F sc) j i) = 0%T /\
  ff_full sc i j = 0%T /\
  forall d b, get4 (tilde sc) i j d b = 0%T.
Proof. exact (invisible_zero sc thres cut pts nus i j). Qed.
Print Assumptions C05_invisible_zero.

(** (2) reciprocity of the full matrix implied by the i<j rule, for arbitrary stored entries *)
Theorem C05_reciprocity {T} {O : Ops T} {RL : RingLaws T} {OL : OrderLaws T} {FL : FieldLaws T}
    (sc : @scene T) i j :
  i <> j -> area sc i <> 0%T -> area sc j <> 0%T ->
  (area sc i * ff_full sc i j)%T = (area sc j * ff_full sc j i)%T.
Proof. exact (ff_full_reciprocity sc i j). Qed.
Print Assumptions C05_reciprocity.

(** (2') the double Boole sum of the Stokes model is symmetric in the two patches -- in every
    commutative ring, with the cut-off in place (the rule is applied to the segments of each patch
    separately, so no condition on the cut-off is needed) ... *)
Theorem C05_stokes_sum_symmetric {T} {O : Ops T} {RL : RingLaws T} (cut : T) (pi pj : list (@vec T)) :
  stokes_outer (cut_active cut) pi pj = stokes_outer (cut_active cut) pj pi.
Proof. exact (stokes_outer_sym (cut_active cut) pi pj). Qed.
Print Assumptions C05_stokes_sum_symmetric.

(** (2'') ... hence area_i * stokes(i->j) = area_j * stokes(j->i): which side is integrated is
    immaterial on the Stokes branch. *)
Theorem C05_reciprocity_stokes {T} {O : Ops T} {RL : RingLaws T} {OL : OrderLaws T} {FL : FieldLaws T}
    {AL : AbsLaws T} (cut : T) (pi pj : list (@vec T)) (ai aj : T) :
  (0 < tpi)%T -> (0 < ai)%T -> (0 < aj)%T ->
  (ai * stokes_integration cut pi pj ai)%T = (aj * stokes_integration cut pj pi aj)%T.
Proof. exact (stokes_reciprocity (cut_active cut) pi pj ai aj). Qed.
Print Assumptions C05_reciprocity_stokes.

(** (3) the Stokes value is never negative; so is every Stokes-branch entry of the assembled matrix *)
Theorem C05_stokes_nonneg {T} {O : Ops T} {AL : AbsLaws T} (cut : T) (pi pj : list (@vec T)) (a : T) :
  (0 <= stokes_integration cut pi pj a)%T.
Proof. exact (stokes_gen_nonneg (cut_active cut) pi pj a). Qed.
Print Assumptions C05_stokes_nonneg.

Theorem C05_stokes_entry_nonneg {T} {O : Ops T} {AL : AbsLaws T} thres cut pts areas pairs nus i j :
  i < length areas -> j < length areas -> pair_in pairs i j = true ->
  coincidence_check thres (nth j pts []) (nth i pts []) = false ->
  (0 <= get2 (patch2patch_ff thres cut pts areas pairs nus) i j)%T.
Proof. exact (baked_stokes_entry_nonneg thres cut pts areas pairs nus i j). Qed.
Print Assumptions C05_stokes_entry_nonneg.

(** (4) [_newton_cotes_4th] integrates every polynomial of degree <= 5 exactly on five equidistant
    nodes a, a+h, ..., a+4h (ordered field, i.e. characteristic 0), and is linear in the samples. *)
Theorem C05_boole_exact {T} {O : Ops T} {RL : RingLaws T} {OL : OrderLaws T} {FL : FieldLaws T}
    (k0 k1 k2 k3 k4 k5 a h : T) :
  let p := poly5 k0 k1 k2 k3 k4 k5 in
  let x := [a; a + h; a + c2 * h; a + c3 * h; a + c4 * h]%T in
  newton_cotes_4th x (map p x) =
  (prim5 k0 k1 k2 k3 k4 k5 (a + c4 * h) - prim5 k0 k1 k2 k3 k4 k5 a)%T.
Proof. exact (boole_exact k0 k1 k2 k3 k4 k5 a h). Qed.
Print Assumptions C05_boole_exact.

Theorem C05_boole_linear {T} {O : Ops T} {RL : RingLaws T} {OL : OrderLaws T} {FL : FieldLaws T}
    (h a b y0 y1 y2 y3 y4 z0 z1 z2 z3 z4 : T) :
  boole_h h (a * y0 + b * z0)%T (a * y1 + b * z1)%T (a * y2 + b * z2)%T (a * y3 + b * z3)%T (a * y4 + b * z4)%T =
  (a * boole_h h y0 y1 y2 y3 y4 + b * boole_h h z0 z1 z2 z3 z4)%T.
Proof. exact (boole_h_linear h a b y0 y1 y2 y3 y4 z0 z1 z2 z3 z4). Qed.
Print Assumptions C05_boole_linear.

(** (5a) if no polygon edge has a coordinate extent in (0, cut] -- every extent is exactly 0 or
    exceeds the cut-off -- the code's value is the cut-off-free double Boole sum *)
Theorem C05_similarity_cut_is_nocut {T} {O : Ops T} {RL : RingLaws T} {OL : OrderLaws T} {FL : FieldLaws T}
    (cut : T) (pi pj : list (@vec T)) (a : T) :
  (forall dim i, i < length pi -> edge_ext pi dim i = 0%T \/ cut_active cut (edge_ext pi dim i) = true) ->
  (forall dim i, i < length pj -> edge_ext pj dim i = 0%T \/ cut_active cut (edge_ext pj dim i) = true) ->
  stokes_integration cut pi pj a = stokes_nocut pi pj a.
Proof. exact (stokes_cut_is_nocut cut pi pj a). Qed.
Print Assumptions C05_similarity_cut_is_nocut.

(** (5b, partial) translation invariance -- of the code's value (cut-off included: the rule looks at
    coordinate differences only) and of the cut-off-free sum.  Rotations, scalings, axis permutations: (5d), (5e), (5f) below. *)
Theorem C05_similarity_partial {T} {O : Ops T} {RL : RingLaws T} (cut : T) (t : @vec T)
    (pi pj : list (@vec T)) (a : T) :
  stokes_integration cut (map (fun p => vadd p t) pi) (map (fun p => vadd p t) pj) a =
    stokes_integration cut pi pj a /\
  stokes_nocut (map (fun p => vadd p t) pi) (map (fun p => vadd p t) pj) a = stokes_nocut pi pj a.
Proof.
  exact (conj (stokes_gen_translate (cut_active cut) t pi pj a)
              (stokes_gen_translate (fun _ => true) t pi pj a)).
Qed.
Print Assumptions C05_similarity_partial.

(** (5c) cut-off 0, i.e. the code's [np.abs(x[-1]-x[0]) > 0]: a skipped segment has extent exactly 0,
    its Boole term is 0, so the value is the cut-off-free double Boole sum -- for ALL patches *)
Theorem C05_similarity_cut0 {T} {O : Ops T} {RL : RingLaws T} {OL : OrderLaws T} {FL : FieldLaws T}
    {AL : AbsLaws T} (pi pj : list (@vec T)) (a : T) :
  stokes_integration 0%T pi pj a = stokes_nocut pi pj a.
Proof. exact (stokes_cut0_is_nocut pi pj a). Qed.
Print Assumptions C05_similarity_cut0.

(** (5d) rigid motions [x |-> M x + t] with [M] preserving inner products (equivalently [M^T M = I]:
    rotations, mirrorings): the cut-off-free sum and the code's value with cut-off 0 are unchanged.
    Ordered field; [tsqrt] and [tln] are uninterpreted (the entries only see [<p-q, p-q>]). *)
Theorem C05_similarity_isometry {T} {O : Ops T} {RL : RingLaws T} {OL : OrderLaws T} {FL : FieldLaws T}
    {AL : AbsLaws T} (M : @mat T) (t : @vec T) (pi pj : list (@vec T)) (a : T) :
  (forall x y, vdot (mapply M x) (mapply M y) = vdot x y) ->
  stokes_nocut (map (fun x => vadd (mapply M x) t) pi) (map (fun x => vadd (mapply M x) t) pj) a =
    stokes_nocut pi pj a /\
  stokes_integration 0%T (map (fun x => vadd (mapply M x) t) pi) (map (fun x => vadd (mapply M x) t) pj) a =
    stokes_integration 0%T pi pj a.
Proof.
  intros H. exact (conj (stokes_nocut_rigid M t pi pj a H) (stokes_cut0_rigid M t pi pj a H)).
Qed.
Print Assumptions C05_similarity_isometry.

(** (5d') the same for [M^T M = I] as defined in Spec/Isometry.v *)
Theorem C05_similarity_orthogonal {T} {O : Ops T} {RL : RingLaws T} {OL : OrderLaws T} {FL : FieldLaws T}
    {AL : AbsLaws T} (M : @mat T) (t : @vec T) (pi pj : list (@vec T)) (a : T) :
  orthogonal M ->
  stokes_nocut (map (fun x => vadd (mapply M x) t) pi) (map (fun x => vadd (mapply M x) t) pj) a =
    stokes_nocut pi pj a /\
  stokes_integration 0%T (map (fun x => vadd (mapply M x) t) pi) (map (fun x => vadd (mapply M x) t) pj) a =
    stokes_integration 0%T pi pj a.
Proof.
  intros H. exact (conj (stokes_nocut_orthogonal M t pi pj a H) (stokes_cut0_orthogonal M t pi pj a H)).
Qed.
Print Assumptions C05_similarity_orthogonal.

(** (5e) uniform scaling by [s > 0], the area scaled by [s*s]: unchanged, provided the sampled
    boundaries of the two patches are at positive distance (true whenever the Stokes branch is
    taken: the patches do not touch), [pi <> 0] and the area is not 0.  Uses
    [ln (x y) = ln x + ln y] for positive x, y ([LnLaws]) and [SqrtLaws]; the [ln s] term
    multiplies the sum of the step vectors of a closed polygon, which is 0. *)
Theorem C05_similarity_scaling {T} {O : Ops T} {RL : RingLaws T} {OL : OrderLaws T} {FL : FieldLaws T}
    {SL : SqrtLaws T} {LL : LnLaws T} (s : T) (pi pj : list (@vec T)) (a : T) :
  (0 < s)%T ->
  (forall p q, In p (sample_pts 5 pi) -> In q (sample_pts 5 pj) -> (0 < vnorm (vsub p q))%T) ->
  tpi <> 0%T -> a <> 0%T ->
  stokes_nocut (map (vscale s) pi) (map (vscale s) pj) ((s * s) * a)%T = stokes_nocut pi pj a /\
  stokes_integration 0%T (map (vscale s) pi) (map (vscale s) pj) ((s * s) * a)%T =
    stokes_integration 0%T pi pj a.
Proof.
  intros Hs Hpos Hpi Ha.
  exact (conj (stokes_nocut_scale s Hs pi pj Hpos a Hpi Ha) (stokes_cut0_scale s Hs pi pj Hpos a Hpi Ha)).
Qed.
Print Assumptions C05_similarity_scaling.

(** (5e') the double sum itself picks up the factor [s*s] (no condition on [pi] or the area) *)
Theorem C05_similarity_scaling_sum {T} {O : Ops T} {RL : RingLaws T} {OL : OrderLaws T} {FL : FieldLaws T}
    {SL : SqrtLaws T} {LL : LnLaws T} (s : T) (pi pj : list (@vec T)) :
  (0 < s)%T ->
  (forall p q, In p (sample_pts 5 pi) -> In q (sample_pts 5 pj) -> (0 < vnorm (vsub p q))%T) ->
  stokes_outer (fun _ => true) (map (vscale s) pi) (map (vscale s) pj) =
    ((s * s) * stokes_outer (fun _ => true) pi pj)%T.
Proof. intros Hs Hpos. exact (stokes_outer_nocut_scale s Hs pi pj Hpos). Qed.
Print Assumptions C05_similarity_scaling_sum.

(** (5f) the 48 signed axis permutations [p |-> (e0 p[sigma 0], e1 p[sigma 1], e2 p[sigma 2])] keep
    the code's value for EVERY cut-off: the segment rule sees |e_d x| = |x|, both patches carry the
    same sign, and the three coordinate sums are reordered. *)
Theorem C05_similarity_axis_permutation {T} {O : Ops T} {RL : RingLaws T} {OL : OrderLaws T}
    {FL : FieldLaws T} {AL : AbsLaws T} (sigma : nat -> nat) (e0 e1 e2 cut : T)
    (pi pj : list (@vec T)) (a : T) :
  Permutation [sigma 0; sigma 1; sigma 2] [0; 1; 2] ->
  (e0 = 1 \/ e0 = - (1))%T -> (e1 = 1 \/ e1 = - (1))%T -> (e2 = 1 \/ e2 = - (1))%T ->
  let m := fun p : @vec T =>
    mkv (e0 * coord (sigma 0%nat) p)%T (e1 * coord (sigma 1%nat) p)%T (e2 * coord (sigma 2%nat) p)%T in
  stokes_integration cut (map m pi) (map m pj) a = stokes_integration cut pi pj a.
Proof.
  intros Hp H0 H1 H2. exact (stokes_integration_sperm sigma e0 e1 e2 Hp H0 H1 H2 cut pi pj a).
Qed.
Print Assumptions C05_similarity_axis_permutation.

(** (6a) Nusselt branch, translation: [nusselt_analog] (evaluation point and receiver patch moved
    together) and [nusselt_integration] (both patches moved) are unchanged -- in every commutative
    ring, for all thresholds, normals and sample counts (every quantity is a function of coordinate
    differences).  [2 <= length pi], [3 <= length pj]: the vertices the code indexes exist. *)
Theorem C05_nusselt_translation {T} {O : Ops T} {RL : RingLaws T} (thr_seg thr_dot thr_lag : T)
    (t o n : @vec T) (pi pj : list (@vec T)) (ni nj : @vec T) (ns : nat) :
  2 <= length pi -> 3 <= length pj ->
  nusselt_analog thr_seg thr_dot thr_lag (vadd o t) n (map (fun p => vadd p t) pj) nj =
    nusselt_analog thr_seg thr_dot thr_lag o n pj nj /\
  nusselt_integration thr_seg thr_dot thr_lag (map (fun p => vadd p t) pi) (map (fun p => vadd p t) pj) ni nj ns =
    nusselt_integration thr_seg thr_dot thr_lag pi pj ni nj ns.
Proof.
  intros Hi Hj.
  exact (conj (nusselt_analog_translate thr_seg thr_dot thr_lag t o n pj nj Hj)
              (nusselt_integration_translate thr_seg thr_dot thr_lag t pi pj ni nj ns Hi Hj)).
Qed.
Print Assumptions C05_nusselt_translation.

(** (6a') [universal_form_factor] with BOTH branches computed by the model is translation invariant,
    branch decision ([_coincidence_check]) and Stokes cut-off included *)
Theorem C05_universal_full_translation {T} {O : Ops T} {RL : RingLaws T}
    (thres cut thr_seg thr_dot thr_lag : T) (t : @vec T) (src : list (@vec T)) (src_n : @vec T) (a : T)
    (rcv : list (@vec T)) (rcv_n : @vec T) :
  2 <= length src -> 3 <= length rcv ->
  universal_ff_full thres cut thr_seg thr_dot thr_lag (map (fun p => vadd p t) src) src_n a
                    (map (fun p => vadd p t) rcv) rcv_n =
  universal_ff_full thres cut thr_seg thr_dot thr_lag src src_n a rcv rcv_n.
Proof.
  intros Hs Hr.
  exact (universal_ff_full_translate thres cut thr_seg thr_dot thr_lag t src src_n a rcv rcv_n Hs Hr).
Qed.
Print Assumptions C05_universal_full_translation.

(** (6b) Nusselt branch, uniform scaling by [s > 0] of both patches (normals unchanged): unchanged.
    Ordered field with [SqrtLaws] ([sqrt(s*s*x) = s*sqrt x], the projection onto the unit sphere
    normalises; [np.sign] ignores the factor [s*s]); the grid counts are [round] of ratios of side
    lengths, which are unchanged when the two sampled sides [el[1]-el[0]], [el[-1]-el[0]] have
    non-zero length.  [nusselt_analog] needs no side condition at all. *)
Theorem C05_nusselt_scaling {T} {O : Ops T} {RL : RingLaws T} {OL : OrderLaws T} {FL : FieldLaws T}
    {SL : SqrtLaws T} (thr_seg thr_dot thr_lag s : T) (o n : @vec T) (pi pj : list (@vec T))
    (ni nj : @vec T) (ns : nat) :
  (0 < s)%T ->
  nusselt_analog thr_seg thr_dot thr_lag (vscale s o) n (map (vscale s) pj) nj =
    nusselt_analog thr_seg thr_dot thr_lag o n pj nj /\
  (vnorm (grid_u pi) <> 0%T -> vnorm (grid_v pi) <> 0%T ->
   nusselt_integration thr_seg thr_dot thr_lag (map (vscale s) pi) (map (vscale s) pj) ni nj ns =
     nusselt_integration thr_seg thr_dot thr_lag pi pj ni nj ns).
Proof.
  intros Hs.
  exact (conj (nusselt_analog_scale s Hs thr_seg thr_dot thr_lag o n pj nj)
              (nusselt_integration_scale s Hs thr_seg thr_dot thr_lag pi pj ni nj ns)).
Qed.
Print Assumptions C05_nusselt_scaling.

(** (6c) [_surf_sample_regulargrid] on a patch that is not a triangle: [npointsx * npointsz] points,
    and every point is [el[0] + s*u + t*v] with [s = (2i+1)/(2 npointsx)], [t = (2j+1)/(2 npointsz)]
    -- the cell centres, strictly inside the parallelogram spanned by [u = el[1]-el[0]] and
    [v = el[-1]-el[0]].  Ordered field with [FloorLaws] ([round(0.0) = 0] in the slice bound). *)
Theorem C05_nusselt_grid_rectangle {T} {O : Ops T} {RL : RingLaws T} {OL : OrderLaws T} {FL : FieldLaws T}
    {FlL : FloorLaws T} (el : list (@vec T)) (np : nat) :
  length el <> 3 ->
  length (surf_grid el np) = grid_nx el np * grid_nz el np /\
  0 < grid_nx el np /\ 0 < grid_nz el np /\
  forall p, In p (surf_grid el np) ->
    exists i j, i < grid_nx el np /\ j < grid_nz el np /\
      let s := (@tnat T O (2 * i + 1) / tnat (2 * grid_nx el np))%T in
      let t := (@tnat T O (2 * j + 1) / tnat (2 * grid_nz el np))%T in
      p = vadd (vadd (vscale s (grid_u el)) (vscale t (grid_v el))) (nthv el 0) /\
      (0 < s)%T /\ (s < 1)%T /\ (0 < t)%T /\ (t < 1)%T.
Proof.
  intros H.
  exact (conj (surf_grid_rect_length el np H)
        (conj (grid_nx_pos el np) (conj (grid_nz_pos el np)
              (fun p Hp => surf_grid_rect_inside el np p H Hp)))).
Qed.
Print Assumptions C05_nusselt_grid_rectangle.

(** (6d) the assembly with both branches computed by the model ([patch2patch_ff_full]): a pair outside
    the visible list holds an exact zero; a listed pair holds the model's Nusselt value when the patches
    touch and the Stokes value otherwise; for a scene baked from it, invisible pairs have zero full form
    factor / transfer factors and the i<j rule gives area_i F_ij = area_j F_ji. *)
Theorem C05_full_assembly_entries {T} {O : Ops T} (thres cut thr_seg thr_dot thr_lag : T)
    (pts : list (list (@vec T))) (normals : list (@vec T)) (areas : list T) (pairs : list (nat * nat)) (i j : nat) :
  (pair_in pairs i j = false ->
     get2 (patch2patch_ff_full thres cut thr_seg thr_dot thr_lag pts normals areas pairs) i j = 0%T) /\
  (i < length areas -> j < length areas -> pair_in pairs i j = true ->
     get2 (patch2patch_ff_full thres cut thr_seg thr_dot thr_lag pts normals areas pairs) i j =
     if coincidence_check thres (nth j pts []) (nth i pts [])
     then nusselt_ff thr_seg thr_dot thr_lag (nth i pts []) (nthv normals i) (nth j pts []) (nthv normals j)
     else stokes_integration cut (nth i pts []) (nth j pts []) (nthT areas i)).
Proof.
  exact (conj (p2p_full_unlisted thres cut thr_seg thr_dot thr_lag pts normals areas pairs i j)
              (p2p_full_listed thres cut thr_seg thr_dot thr_lag pts normals areas pairs i j)).
Qed.
Print Assumptions C05_full_assembly_entries.

Theorem C05_full_assembly {T} {O : Ops T} {RL : RingLaws T} {OL : OrderLaws T} {FL : FieldLaws T}
    (sc : @scene T) (thres cut thr_seg thr_dot thr_lag : T) pts normals i j :
  s_F sc = patch2patch_ff_full thres cut thr_seg thr_dot thr_lag pts normals (s_areas sc) (vis_pairs sc) ->
  (area sc i <> 0%T -> vis_sym sc i j = false ->
     (if i <? j then get2 (s_F sc) i j else get2 (s_F sc) j i) = 0%T /\
     ff_full sc i j = 0%T /\
     forall d b, get4 (tilde sc) i j d b = 0%T) /\
  (i <> j -> area sc i <> 0%T -> area sc j <> 0%T ->
     (area sc i * ff_full sc i j)%T = (area sc j * ff_full sc j i)%T).
Proof.
  intros HF.
  exact (conj (full_invisible_zero sc thres cut thr_seg thr_dot thr_lag pts normals i j HF)
              (full_reciprocity sc thres cut thr_seg thr_dot thr_lag pts normals i j HF)).
Qed.
Print Assumptions C05_full_assembly.

(** (6e) C05_room_form_factors_computed -- the composed end-to-end model.  For EVERY room description
    [rm] (wall polygons, normals, patch size, tolerances; NO form-factor value is a field of [room]):
    the form-factor matrix of the scene the model builds, [s_F (room_scene rm)], is
    [patch2patch_ff_full] evaluated on the room's own tiling ([rm_patch_pts rm] = the vertex lists of
    [create_patches] of every wall, concatenated), the patch normals, the [_polygon_area] areas and
    the visible-pair list the model's own visibility scan produced; a visible pair i < j holds the
    model's Nusselt value ([nusselt_ff], nsamples = 64) when the two patches touch
    ([_coincidence_check]) and the Stokes contour integral otherwise; a pair that is not visible has an
    exactly zero entry, zero full form factor and zero transfer factors; and the lower triangle follows
    from the upper one by the area ratio, area_i F_ij = area_j F_ji. *)
Theorem C05_room_form_factors_computed {T} {O : Ops T} {RL : RingLaws T} {OL : OrderLaws T}
    {FL : FieldLaws T} (rm : @room T) (i j : nat) :
  let sc := room_scene rm in
  s_F sc = patch2patch_ff_full (rm_thres rm) (rm_cut rm) (rm_thr_seg rm) (rm_thr_dot rm) (rm_thr_lag rm)
             (rm_patch_pts rm) (pr_normals (rm_processed rm)) (s_areas sc) (vis_pairs sc) /\
  (i < j -> j < rm_np rm -> vis_sym sc i j = true ->
     get2 (s_F sc) i j =
     if coincidence_check (rm_thres rm) (nth j (rm_patch_pts rm) []) (nth i (rm_patch_pts rm) [])
     then nusselt_ff (rm_thr_seg rm) (rm_thr_dot rm) (rm_thr_lag rm)
            (nth i (rm_patch_pts rm) []) (nthv (pr_normals (rm_processed rm)) i)
            (nth j (rm_patch_pts rm) []) (nthv (pr_normals (rm_processed rm)) j)
     else stokes_integration (rm_cut rm) (nth i (rm_patch_pts rm) []) (nth j (rm_patch_pts rm) [])
            (area sc i)) /\
  (area sc i <> 0%T -> vis_sym sc i j = false ->
     (if i <? j then get2 (s_F sc) i j else get2 (s_F sc) j i) = 0%T /\
     ff_full sc i j = 0%T /\
     forall d b, get4 (tilde sc) i j d b = 0%T) /\
  (i <> j -> area sc i <> 0%T -> area sc j <> 0%T ->
     (area sc i * ff_full sc i j)%T = (area sc j * ff_full sc j i)%T).
Proof. exact (room_form_factors_computed rm i j). Qed.
Print Assumptions C05_room_form_factors_computed.

(** ... where the geometry the matrix is computed from is the tiling of the walls *)
Theorem C05_room_geometry_is_tiling {T} {O : Ops T} (rm : @room T) :
  rm_patch_pts rm = map verts (concat (map (fun q => create_patches q (rm_patch_size rm)) (rm_walls rm))) /\
  pr_normals (rm_processed rm) = map (fun w => nthv (rm_normals rm) w) (pr_wall_ids (rm_processed rm)) /\
  s_areas (room_scene rm) = map poly_area (rm_patch_pts rm).
Proof. exact (room_geometry_is_tiling rm). Qed.
Print Assumptions C05_room_geometry_is_tiling.
