(** C12 -- Frequency bands are simulated independently. *)
From Coq Require Import List Arith Bool.
Import ListNotations.
From SV Require Import Base.Ops Base.Arr Base.Sums Model.Vec3 Model.Exchange Model.Scene
  Spec.ExchangeSpec Proofs.ExchangeL0 Proofs.SceneRefine Proofs.ReceiverProofs Proofs.BandAttenProofs.

(** the recursion for band b reads only band-b data *)
Theorem C12_recursion {T} {O : Ops T} {RL : RingLaws T}
    (P : list (nat * nat)) delta out delta0 c c' e0 e0' b b' :
  (forall i j d, c i j d b = c' i j d b') -> (forall j d, e0 j d b = e0' j d b') ->
  forall k j d t, E P delta c out delta0 e0 k j d b t = E P delta c' out delta0 e0' k j d b' t.
Proof. exact (E_band_independent P delta out delta0 c c' e0 e0' b b'). Qed.
Print Assumptions C12_recursion.

(** stage by stage in the executable pipeline model: if band b of scene sc and band b' of a
    scene sc' with the same geometry (e.g. the single-band scene holding only that band) carry
    the same attenuation and pi*BRDF values, then baked factors, initial energies, patch
    histograms and receiver entries coincide *)
Theorem C12_baked {T} {O : Ops T} (sc sc' : @scene T) b b' i j d :
  same_geometry sc sc' -> band_match sc b sc' b' ->
  tilde_entry sc i j d b = tilde_entry sc' i j d b'.
Proof. intros G B. exact (tilde_band sc sc' G b b' B i j d). Qed.
Print Assumptions C12_baked.

Theorem C12_initial {T} {O : Ops T} (sc sc' : @scene T) b b' s s' i d :
  same_geometry sc sc' -> band_match sc b sc' b' -> source_match s b s' b' ->
  e0dir_entry sc s i d b = e0dir_entry sc' s' i d b'.
Proof. intros G B. exact (e0dir_band sc sc' G b b' B s s' i d). Qed.
Print Assumptions C12_initial.

Theorem C12_histograms {T} {O : Ops T} {RL : RingLaws T} (sc sc' : @scene T) b b' tm s s' K j d t :
  same_geometry sc sc' -> band_match sc b sc' b' ->
  wf_scene sc -> wf_scene sc' -> source_match s b s' b' ->
  j < s_np sc -> d < s_nd sc -> b < s_nb sc -> b' < s_nb sc' -> t < n_samples tm ->
  get4 (patch_hist sc tm s K) j d b t = get4 (patch_hist sc' tm s' K) j d b' t.
Proof. intros G B. exact (patch_hist_band sc sc' G b b' B tm s s' K j d t). Qed.
Print Assumptions C12_histograms.

Theorem C12_receiver {T} {O : Ops T} (sc sc' : @scene T) b b' tm (E E' : @arr4 T) r k t :
  same_geometry sc sc' -> band_match sc b sc' b' ->
  (forall d u, get4 E k d b u = get4 E' k d b' u) ->
  k < s_np sc -> b < s_nb sc -> b' < s_nb sc' -> t < n_samples tm ->
  get3 (patchwise sc tm E r) k b t = get3 (patchwise sc' tm E' r) k b' t.
Proof. intros G B. exact (patchwise_band sc sc' G b b' B tm E E' r k t). Qed.
Print Assumptions C12_receiver.

(** receiver curves (mono, with or without the direct sound) *)
Theorem C12_receiver_curve {T} {O : Ops T} {RL : RingLaws T} (sc sc' : @scene T) b b' tm
    (E E' : @arr4 T) (s s' : @source T) r direct (rdf rdf' : option (list T)) t :
  same_geometry sc sc' -> band_match sc b sc' b' ->
  (forall k d u, k < s_np sc -> get4 E k d b u = get4 E' k d b' u) ->
  src_pos s = src_pos s' ->
  match rdf, rdf' with
  | None, None => True
  | Some f, Some f' => nthT f b = nthT f' b'
  | _, _ => False
  end ->
  b < s_nb sc -> b' < s_nb sc' -> t < n_samples tm ->
  get2 (mono sc tm E s r direct rdf) b t = get2 (mono sc' tm E' s' r direct rdf') b' t.
Proof.
  intros G B HE Hp Hr. apply (mono_band sc sc' G b b' B tm E E' s s' r direct rdf rdf' t HE Hp).
  destruct rdf, rdf'; exact Hr.
Qed.
Print Assumptions C12_receiver_curve.
