(** * L0 specification of the Kang order recursion and receiver collection.

    Histograms are total functions [nat -> T] over unbounded time.  The geometry enters
    only through the travel-time bins [delta], the transfer coefficients [coef] (form factor
    x scattering x (1 - absorption) of the RECEIVING wall x air attenuation), the source bins
    [delta0] and the order-0 energies [en0]. *)
From Coq Require Import List Arith Bool.
Import ListNotations.
From SV Require Import Base.Ops Base.Sums Spec.ExchangeSpec.

Section KangSpec.
  Context {T : Type} {O : Ops T}.

  Variable others : nat -> list nat.                      (* other_wall_ids of wall w *)
  Variable npat : nat -> nat.                             (* number of patches of wall w *)
  Variable coef : nat -> nat -> nat -> nat -> nat -> T.   (* coef w' s w r b : patch s of w' -> patch r of w *)
  Variable delta : nat -> nat -> nat -> nat -> nat.       (* delta w' s w r *)
  Variable delta0 : nat -> nat -> nat.                    (* source -> patch r of wall w *)
  Variable en0 : nat -> nat -> nat -> T.                  (* en0 w r b *)

  Definition KE0 (w r b : nat) : nat -> T := fun t => if t =? delta0 w r then en0 w r b else 0%T.

  Fixpoint KE (k : nat) (w r b : nat) : nat -> T :=
    match k with
    | 0 => KE0 w r b
    | S k' => fun t =>
        sumf (others w) (fun w' => sumf (seq 0 (npat w')) (fun s =>
          shiftf (delta w' s w r) (fun u => (coef w' s w r b * KE k' w' s b u)%T) t))
    end.

  (** receiver: every patch radiates all its orders [0..K] towards the receiver *)
  Variable nw : nat.
  Variable g : nat -> nat -> nat -> T.                    (* receiver factor g w s b *)
  Variable rdelta : nat -> nat -> nat.                    (* patch -> receiver bins *)

  Definition KOrderAtReceiver (k b : nat) : nat -> T := fun t =>
    sumf (seq 0 nw) (fun w => sumf (seq 0 (npat w)) (fun s =>
      shiftf (rdelta w s) (fun u => (KE k w s b u * g w s b)%T) t)).
  Definition KResp (K b : nat) : nat -> T := fun t =>
    sumf (seq 0 (S K)) (fun k => KOrderAtReceiver k b t).
End KangSpec.
