(** * Reference notions for the L2 object model (C15, C16): the similarity "~" between an
    object and its restored twin, reachability, read sets, the configuration in force. *)
From Coq Require Import List Arith Bool.
Import ListNotations.
From SV Require Import Model.Object.

(** ** similarity: same presence, shapes, provenance of the 23 serialised attributes; kinds
    equal up to the declared normalisation (an object ndarray of coordinate objects comes back
    as a list); ownership and the two unserialised attributes are not compared. *)
Definition nk (k : okind) : okind := match k with KObjArr => KList | x => x end.
Definition is_dirs (f : field) : bool := match f with FDirsIn | FDirsOut => true | _ => false end.
(** [nd true] for the two direction lists, [nd false] elsewhere *)
Definition nd (b : bool) (d : desc) : desc := mkD (if b then nk (dk d) else dk d) (dsh d) (dv d) Fresh.
Definition serialised (f : field) : bool :=
  match f with FSource | FSourceVis => false | _ => true end.
Definition norm (s : ostate) : ostate :=
  omap (fun f d => if serialised f then option_map (nd (is_dirs f)) d else None) s.
Definition sim (s s' : ostate) : Prop := norm s = norm s'.

(** the stronger relation that also fixes the unserialised attributes *)
Definition normfull (s : ostate) : ostate := omap (fun f d => option_map (nd (is_dirs f)) d) s.
Definition simfull (s s' : ostate) : Prop := normfull s = normfull s'.

Definition normr (r : rclass * ostate * obs) : rclass * ostate * obs :=
  (oclass_of r, norm (ostate_of r), oobs_of r).

(** the one call whose outcome depends on an unserialised attribute *)
Definition direct_collect (o : op) : bool :=
  match o with OpCollect _ true => true | _ => false end.

(** ** reachable states: any history from a freshly constructed object *)
Definition reachable (g : geo) (s : ostate) : Prop := exists h, s = orun g (init g) h.

(** ** kinds of a state built by the methods (invariant of [ostep]) *)
Definition fkind_ok (f : field) (d : option desc) : bool :=
  match d with
  | None => true
  | Some x =>
    match f, dk x with
    | (FWallIds | FP2O | FBrdfIndex), KArrI => true
    | (FWallsPoints | FWallsNormal | FWallsUp | FPatchesPoints | FVis | FPairs | FFF | FTilde | FFreq
       | FAtt | FDist | FE0 | FEtc), (KArrB | KArrI | KArrF) => true
    | FNPatches, (KInt | KFloat) => true
    | (FC | FDt | FDur), KFloat => true
    | FBrdf, KList => true
    | (FDirsIn | FDirsOut), (KObjArr | KList) => true
    | (FSource | FSourceVis), _ => true
    | _, _ => false
    end
  end.
Definition wf (s : ostate) : Prop := forall f, fkind_ok f (get f s) = true.

(** ** declared read sets of the public calls (justified by [ostep_reads]) *)
Definition geo_fields : list field :=
  [FWallsPoints; FWallsNormal; FWallsUp; FPatchesPoints; FNPatches; FWallIds].
Definition mat_fields : list field := [FFreq; FDirsIn; FDirsOut; FBrdf; FBrdfIndex; FAtt].
Definition reads (o : op) : list field :=
  match o with
  | OpSetBrdf _ _ _ _ _ _ _ => [FFreq; FDirsIn; FDirsOut; FBrdf; FBrdfIndex]
  | OpSetAtt _ _ _ => [FFreq]
  | OpBake => geo_fields ++ mat_fields
  | OpInitSource _ => geo_fields ++ mat_fields
  | OpExchange _ _ _ _ => geo_fields ++ [FEtc; FE0; FDist; FTilde; FP2O; FPairs]
  | OpCollect _ false => geo_fields ++ [FEtc; FDirsOut; FAtt; FC; FDt]
  | OpCollect _ true => geo_fields ++ [FEtc; FDirsOut; FAtt; FC; FDt; FSource]
  | OpDictRoundTrip | OpFileRoundTrip => dict_fields
  end.
Fixpoint fmem (f : field) (l : list field) : bool :=
  match l with [] => false | x :: r => field_eqb f x || fmem f r end.
(** forget every attribute outside [l] *)
Definition mask (l : list field) (s : ostate) : ostate :=
  omap (fun f d => if fmem f l then d else None) s.

(** ** the configuration in force: what the three final stages read of the materials *)
Record config : Type := mkCfg {
  c_geo : term;            (* the six constructor arguments *)
  c_nb : nat;              (* number of frequency bins *)
  c_att : term;            (* attenuation vector (tnone when unset) *)
  c_in : option (list term);    (* per wall: incoming directions *)
  c_out : option (list term);   (* per wall: outgoing directions *)
  c_tab : list term;       (* per wall: table resolved through brdf_index *)
  c_homog : bool           (* all stored tables (also overwritten ones) have one shape *)
}.
Definition cfg_of (g : geo) (s : ostate) : config :=
  mkCfg (tgeo s) (nbins s) (optv (o_att s))
        (option_map (fun d => targs (dv d)) (o_dirs_in s))
        (option_map (fun d => targs (dv d)) (o_dirs_out s))
        (match o_brdf s, o_brdf_index s with
         | Some b, Some ix => map (resolve (tnums (dv ix)) (targs (dv b))) (seq 0 (g_nw g))
         | _, _ => []
         end)
        (match o_brdf s with
         | Some b => homog nats_eqb (map tab_shape (targs (dv b)))
         | None => true
         end).
