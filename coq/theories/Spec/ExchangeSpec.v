(** * L0 specification of the discretised radiosity recursion.

    Histograms are total functions [nat -> T] over unbounded time.  One
    recursion equation per reflection order; sums over the directed pair list. *)
From Coq Require Import List Arith Bool.
Import ListNotations.
From SV Require Import Base.Ops Base.Sums.

Section Spec.
  Context {T : Type} {O : Ops T}.

  (** delay by [d] bins; nothing before bin [d] *)
  Definition shiftf (d : nat) (h : nat -> T) : nat -> T :=
    fun t => if t <? d then 0%T else h (t - d).

  Variable P : list (nat * nat).                 (* directed pairs (i, j): i radiates to j *)
  Variable delta : nat -> nat -> nat.            (* travel-time bins of the leg i -> j *)
  Variable c : nat -> nat -> nat -> nat -> T.    (* transfer factor  c i j d b  of the leg i -> j
                                                    into outgoing slot d of j, band b *)
  Variable out : nat -> nat -> nat.              (* outgoing slot of i towards j *)
  Variable delta0 : nat -> nat.                  (* source -> patch bins *)
  Variable e0 : nat -> nat -> nat -> T.          (* initial energy  e0 j d b *)

  Definition into (j : nat) : list (nat * nat) := filter (fun p => snd p =? j) P.

  Definition E0 (j d b : nat) : nat -> T := fun t => if t =? delta0 j then e0 j d b else 0%T.

  Fixpoint E (k : nat) (j d b : nat) : nat -> T :=
    match k with
    | 0 => E0 j d b
    | S k' => fun t =>
        sumf (into j) (fun p =>
          shiftf (delta (fst p) j) (fun u => (c (fst p) j d b * E k' (fst p) (out (fst p) j) b u)%T) t)
    end.

  (** accumulated histogram up to order [K] *)
  Definition Tot (K : nat) (j d b : nat) : nat -> T :=
    fun t => sumf (seq 0 (S K)) (fun k => E k j d b t).

  (** path expansion: the list of (arrival bin, weight) contributions of order k *)
  Fixpoint contrib (k : nat) (j d b : nat) : list (nat * T) :=
    match k with
    | 0 => [(delta0 j, e0 j d b)]
    | S k' =>
        flat_map (fun p =>
          map (fun lw => (fst lw + delta (fst p) j, (c (fst p) j d b * snd lw)%T))
              (contrib k' (fst p) (out (fst p) j) b)) (into j)
    end.
End Spec.
