(** * Formalisation of "Gauss-type hemisphere sampling" (DESIGN.md, C13) on index lists.
    [w] raw weights, [cosv] cos(colatitude), [mu] mirror map, all of length [n]. *)
From Coq Require Import List Arith Bool.
Import ListNotations.
From SV Require Import Base.Ops Base.Arr Base.Sums Model.Exchange Model.Brdf.

Section BrdfSpec.
  Context {T : Type} {O : Ops T}.

  (** (H1) the quadrature integrates cos over the hemisphere exactly:
      sum_o w_o cos_o = (sum_o w_o) / 2, stated without division *)
  Definition gauss_H1 (n : nat) (w cosv : list T) : Prop :=
    ((1 + 1) * sumf (seq 0 n) (fun o => (nthT w o * nthT cosv o)%T))%T = sumf (seq 0 n) (nthT w).

  (** (H2) the mirror map is an involution on the indices that preserves weight and cos *)
  Definition mirror_H2 (n : nat) (mu : list nat) (w cosv : list T) : Prop :=
    forall i, i < n ->
      nthn mu i < n /\ nthn mu (nthn mu i) = i /\
      nthT w (nthn mu i) = nthT w i /\ nthT cosv (nthn mu i) = nthT cosv i.

  (** the part of (H2) that the energy balance needs *)
  Definition mirror_weights (n : nat) (mu : list nat) (w : list T) : Prop :=
    forall i, i < n -> nthn mu i < n /\ nthT w (nthn mu i) = nthT w i.

  (** (H3) positive weights, directions strictly above the horizon *)
  Definition pos_H3 (n : nat) (w cosv : list T) : Prop :=
    forall o, o < n -> (0 < nthT w o)%T /\ (0 < nthT cosv o)%T.

  Definition unit_interval (nb : nat) (s : list T) : Prop :=
    forall b, b < nb -> (0 <= nthT s b)%T /\ (nthT s b <= 1)%T.

  (** directional scattering coefficients of every incident direction sum to one *)
  Definition rows_sum_one (ns nr nb : nat) (ds : arr3) : Prop :=
    forall i b, i < ns -> b < nb -> sumf (seq 0 nr) (fun o => get3 ds i o b) = 1%T.
End BrdfSpec.

Section BrdfParts.
  Context {T : Type} {O : Ops T}.
  (** the two parts the property speaks about: the diffuse (Lambertian) level, present in every
      outgoing direction, and the specular excess, present only at the mirror direction *)
  Definition diffuse_part (s a : list T) (b : nat) : T := ((nthT s b / tpi) * (1 - nthT a b))%T.
  Definition specular_part (cosv wh : list T) (mu : list nat) (s a : list T) (i b : nat) : T :=
    (((1 - nthT s b) / (nthT cosv (nthn mu i) * nthT wh i)) * (1 - nthT a b))%T.
End BrdfParts.
