(** * Linear maps of 3-space and the orthogonality condition [M^T M = I] (reference definitions
    for the similarity-invariance statements of C04/C05). *)
From SV Require Import Base.Ops Model.Vec3.

Section Isometry.
  Context {T : Type} {O : Ops T}.

  (** a 3x3 matrix as its three rows *)
  Definition mat : Type := (@vec T * @vec T * @vec T)%type.
  Definition mrow1 (M : mat) : vec := fst (fst M).
  Definition mrow2 (M : mat) : vec := snd (fst M).
  Definition mrow3 (M : mat) : vec := snd M.
  Definition mcol1 (M : mat) : vec := mkv (vx (mrow1 M)) (vx (mrow2 M)) (vx (mrow3 M)).
  Definition mcol2 (M : mat) : vec := mkv (vy (mrow1 M)) (vy (mrow2 M)) (vy (mrow3 M)).
  Definition mcol3 (M : mat) : vec := mkv (vz (mrow1 M)) (vz (mrow2 M)) (vz (mrow3 M)).

  Definition mapply (M : mat) (v : vec) : vec :=
    mkv (vdot (mrow1 M) v) (vdot (mrow2 M) v) (vdot (mrow3 M) v).

  (** [M^T M = I]: the columns are orthonormal (rotations and reflections, det = +-1) *)
  Definition orthogonal (M : mat) : Prop :=
    vdot (mcol1 M) (mcol1 M) = 1%T /\ vdot (mcol2 M) (mcol2 M) = 1%T /\ vdot (mcol3 M) (mcol3 M) = 1%T /\
    vdot (mcol1 M) (mcol2 M) = 0%T /\ vdot (mcol1 M) (mcol3 M) = 0%T /\ vdot (mcol2 M) (mcol3 M) = 0%T.
End Isometry.
