(** * C18 specification: the catalogue of documented constraints on a simulation state.

    One clause per item of the property statement ("wrong array ranks or lengths for walls,
    patches, wall ids, frequencies, form factors, attenuation, initial energy or histograms,
    wall ids outside the wall list, non-positive speed of sound, resolution or duration,
    direction lists that are not coordinate objects"), each read against the shapes documented
    in the constructor's docstring.  The clauses speak about the data AS PASSED (raw shapes),
    not about what the conversions turn it into.

    Two things are added to the bare enumeration, both forced by "valid states are always
    accepted" and both documented in the docstring:
      - [CBrdfIndex]: "brdf_index ... must be of shape (n_walls, )";
      - the shapes of form_factors_tilde / energy_init_source / energy_exchange_etc are
        documented in terms of n_outgoing_directions and n_samples, which exist only when the
        outgoing direction list has a first element and when duration and resolution are set:
        [COutDirs] asks for a NON-EMPTY list of coordinate objects, [CHist] for both scalars.
    Nothing else is demanded: visibility_matrix, visible_patches, patch_2_brdf_outgoing_index
    and brdf have no clause. *)
From Coq Require Import List Arith Bool ZArith.
Import ListNotations.
From SV Require Import Base.Ops Model.Validate.

Inductive clause : Type :=
| CWalls | CUp | CNormal | CPatches
| CIdsShape | CIdsRange | CIdsCover
| CFreq | CFormFactors | CBrdfIndex | CInDirs | COutDirs
| CTilde | CAttenuation | CSpeed | CResolution | CDuration
| CDistance | CEnergyInit | CHist.

Definition all_clauses : list clause :=
  [ CWalls; CUp; CNormal; CPatches; CIdsShape; CIdsRange; CIdsCover; CFreq; CFormFactors;
    CBrdfIndex; CInDirs; COutDirs; CTilde; CAttenuation; CSpeed; CResolution; CDuration;
    CDistance; CEnergyInit; CHist ].

Section Spec.
  Context {T : Type} {O : Ops T}.
  Notation state := (state T).

  Definition opt_holds {A} (x : option A) (P : A -> Prop) : Prop :=
    match x with None => True | Some a => P a end.

  Definition positive (x : option T) : Prop := opt_holds x (fun v => (0 < v)%T).

  Definition holds (c : clause) (s : state) : Prop :=
    let np := v_n_patches s in
    let nw := n_walls s in
    match c with
    | CWalls =>        (* (n_walls, n_points, 3) *)
        exists k, v_walls_points s = [nw; k; 3]
    | CUp =>           (* (n_walls, 3) *)
        v_walls_up_vector s = [nw; 3]
    | CNormal =>       (* (n_walls, 3) *)
        v_walls_normal s = [nw; 3]
    | CPatches =>      (* (n_patches, n_points, 3) *)
        exists k, v_patches_points s = [np; k; 3]
    | CIdsShape =>     (* (n_patches,) *)
        exists l, v_patch_to_wall_ids s = IdsVec l /\ length l = np
    | CIdsRange =>     (* every id is a wall index *)
        forall z, In z (ids_vals (v_patch_to_wall_ids s)) -> (0 <= z < Z.of_nat nw)%Z
    | CIdsCover =>     (* every wall has a patch *)
        forall w, w < nw -> In (Z.of_nat w) (ids_vals (v_patch_to_wall_ids s))
    | CFreq =>         (* (n_bins,) *)
        opt_holds (v_frequencies s) (fun sh => length sh = 1)
    | CFormFactors =>  (* (n_patches, n_patches) *)
        opt_holds (v_form_factors s) (fun sh => sh = [np; np])
    | CBrdfIndex =>    (* (n_walls,) *)
        opt_holds (v_brdf_index s) (fun sh => sh = [nw])
    | CInDirs =>
        opt_holds (v_brdf_incoming_directions s) (fun l => forall k, In k l -> k = Coord)
    | COutDirs =>
        opt_holds (v_brdf_outgoing_directions s)
                  (fun l => l <> [] /\ forall k, In k l -> k = Coord)
    | CTilde =>        (* (n_patches, n_patches, n_outgoing_directions, n_bins) *)
        opt_holds (v_form_factors_tilde s) (fun sh => sh = [np; np; n_dirs s; n_bins s])
    | CAttenuation =>  (* (n_bins,) *)
        opt_holds (v_air_attenuation s) (fun sh => sh = [n_bins s])
    | CSpeed => positive (v_speed_of_sound s)
    | CResolution => positive (v_etc_time_resolution s)
    | CDuration => positive (v_etc_duration s)
    | CDistance =>     (* (n_patches,) *)
        opt_holds (v_distance_patches_to_source s) (fun sh => sh = [np])
    | CEnergyInit =>   (* (n_patches, n_outgoing_directions, n_bins) *)
        opt_holds (v_energy_init_source s) (fun sh => sh = [np; n_dirs s; n_bins s])
    | CHist =>         (* (n_patches, n_outgoing_directions, n_bins, n_samples) *)
        opt_holds (v_energy_exchange_etc s) (fun sh =>
          exists d r, v_etc_duration s = Some d /\ v_etc_time_resolution s = Some r /\
                      sh = [np; n_dirs s; n_bins s; hist_samples d r])
    end.

  Definition Consistent (s : state) : Prop := forall c, holds c s.

  (** States on which a test of the cascade leaves the documented exception class: the three
      places where [check()] itself raises something else than ValueError.  None of them is a
      corruption of the catalogue (a 0-d brdf_index, an EMPTY outgoing list, a histogram
      without duration/resolution). *)
  Definition Foreign (s : state) : Prop :=
    v_brdf_index s = Some [] \/
    v_brdf_outgoing_directions s = Some [] \/
    (v_energy_exchange_etc s <> None /\
     (v_etc_duration s = None \/ v_etc_time_resolution s = None)).

  (** The violations of a clause that the conversions / the weak [len()] test hide:
      a rank-1 up vector or normal in a one-wall scene ([atleast_2d]), a bare integer as wall-id
      list of a one-patch scene ([atleast_1d]), a brdf_index of rank >= 2 whose first axis has
      n_walls entries ([len()]). *)
  Definition masked (c : clause) (s : state) : Prop :=
    match c with
    | CUp => v_walls_up_vector s = [3] /\ n_walls s = 1
    | CNormal => v_walls_normal s = [3] /\ n_walls s = 1
    | CIdsShape => (exists z, v_patch_to_wall_ids s = IdsScalar z) /\ v_n_patches s = 1
    | CBrdfIndex => exists n rest, v_brdf_index s = Some (n :: rest) /\ n = n_walls s /\ rest <> []
    | _ => False
    end.
End Spec.
