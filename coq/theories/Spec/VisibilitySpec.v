(** * Reference semantics for line of sight against one planar surface.

    [inpoly] -- membership of a point in the closed polygon -- is a parameter: the model's
    [point_in_polygon] is only assumed to decide it at the points that are actually queried
    ([pip_correct_at]); that assumption is NOT proved (see Properties/C07.v, C07_partial). *)
From Coq Require Import List Arith Bool.
Import ListNotations.
From SV Require Import Base.Ops Base.Arr Model.Vec3 Model.Visibility.

Section VisSpec.
  Context {T : Type} {O : Ops T}.
  Local Notation vec := (@vec T).

  (** signed distance from the plane of [s] (times |n|), in the form the code evaluates it *)
  Definition side_of (s : surface) (x : vec) : T := vdot (vsub x (s_p0 s)) (s_nrm s).
  Definition on_plane (s : surface) (x : vec) : Prop := side_of s x = 0%T.

  (** the point p + t (q - p) *)
  Definition lerp (p q : vec) (t : T) : vec := vadd p (vscale t (vsub q p)).

  (** the open segment pq meets the surface: some point strictly between p and q lies in the
      plane of [s] and in its polygon *)
  Definition seg_meets (inpoly : vec -> Prop) (s : surface) (p q : vec) : Prop :=
    exists t : T, (0 < t)%T /\ (t < 1)%T /\ on_plane s (lerp p q t) /\ inpoly (lerp p q t).

  (** [point_in_polygon] decides membership at the point [x] *)
  Definition pip_correct_at (eps eta : T) (inpoly : vec -> Prop) (s : surface) (x : vec) : Prop :=
    pip eps eta s x = true <-> inpoly x.
End VisSpec.
