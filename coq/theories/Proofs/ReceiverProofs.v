(** * Receiver collection of the pipeline model ([patchwise], [mono_of], [mono]). *)
From Coq Require Import List Arith Bool Ring Lia.
Import ListNotations.
From SV Require Import Base.Ops Base.Arr Base.Sums Model.Vec3 Model.Exchange Model.Scene
  Proofs.ExchangeRefine Proofs.SceneRefine Proofs.HistProofs.

Section Receiver.
  Context {T : Type} {O : Ops T}.
  Variable sc : @scene T.
  Variable tm : @timing T.

  Definition r_delay (r : @receiver T) (k : nat) : nat :=
    delay_ceil (r_dist sc r k) (t_c tm) (t_dt tm).
  (** what patch [k] sends towards the receiver in band [b], before the delay *)
  Definition r_term (E : @arr4 T) (r : @receiver T) (k b u : nat) : T :=
    ((get4 E k (r_out_index sc r k) b u * r_factor r k) * attn sc b (r_dist sc r k))%T.

  Lemma get2_tab n m (f : nat -> nat -> T) i j : i < n -> j < m ->
    get2 (tab n (fun i => tab m (fun j => f i j))) i j = f i j.
  Proof.
    intros Hi Hj. unfold get2, nthT, nthl. now rewrite (nth_tab n _ [] i Hi), (nth_tab m _ 0%T j Hj).
  Qed.

  (** the model's patch-wise receiver entry, as computed (cyclic delay) *)
  Lemma patchwise_entry E r k b t : k < s_np sc -> b < s_nb sc -> t < n_samples tm ->
    get3 (patchwise sc tm E r) k b t =
    r_term E r k b ((t + (n_samples tm - r_delay r k mod n_samples tm)) mod n_samples tm).
  Proof.
    intros Hk Hb Ht. unfold patchwise, get3, nthl.
    rewrite (nth_tab _ _ [] k Hk), (nth_tab _ _ [] b Hb).
    fold (nthT (roll (n_samples tm) (delay_ceil (r_dist sc r k) (t_c tm) (t_dt tm))
                  (tab (n_samples tm) (fun t0 => r_term E r k b t0))) t).
    rewrite roll_nth by exact Ht. rewrite nthT_tab; [reflexivity|].
    apply Nat.mod_upper_bound. lia.
  Qed.

  (** the np.roll delay does wrap (known finding C02/receiver_wrap): a bin before the delay
      shows what the patch histogram holds [N - delay] bins later *)
  Theorem patchwise_wraps E r k b t : k < s_np sc -> b < s_nb sc ->
    r_delay r k < n_samples tm -> t < r_delay r k ->
    get3 (patchwise sc tm E r) k b t = r_term E r k b (t + n_samples tm - r_delay r k).
  Proof.
    intros Hk Hb Hd Ht. rewrite patchwise_entry by (try assumption; lia).
    f_equal. rewrite (Nat.mod_small (r_delay r k)) by exact Hd. rewrite Nat.mod_small by lia. lia.
  Qed.

  Section WithRing.
    Context {RL : RingLaws T}.
    Add Ring TRingRc : (@ring_th T O RL).

    (** C11.1 (partial: the delayed contribution fits into the histogram): the entry is the
        patch histogram in the slot towards the receiver, times the receiver factor, times the
        attenuation, delayed by the patch->receiver bins *)
    Theorem patchwise_fits E r k b t : k < s_np sc -> b < s_nb sc -> t < n_samples tm ->
      r_delay r k < n_samples tm ->
      (forall u, n_samples tm - r_delay r k <= u -> u < n_samples tm ->
                 get4 E k (r_out_index sc r k) b u = 0%T) ->
      get3 (patchwise sc tm E r) k b t =
      if t <? r_delay r k then 0%T else r_term E r k b (t - r_delay r k).
    Proof.
      intros Hk Hb Ht Hd Hz. unfold patchwise, get3, nthl.
      rewrite (nth_tab _ _ [] k Hk), (nth_tab _ _ [] b Hb).
      rewrite roll_eq_shift_when_fits.
      - fold (nthT (shift_trunc (n_samples tm) (delay_ceil (r_dist sc r k) (t_c tm) (t_dt tm))
                    (tab (n_samples tm) (fun t0 => r_term E r k b t0))) t).
        rewrite shift_trunc_nth by exact Ht. fold (r_delay r k).
        destruct (Nat.ltb_spec t (r_delay r k)); [reflexivity|]. rewrite nthT_tab by lia. reflexivity.
      - exact Hd.
      - intros u H1 H2. rewrite nthT_tab by exact H2. fold (r_delay r k) in H1.
        unfold r_term. rewrite (Hz u H1 H2). ring.
    Qed.

    (** hidden patches contribute exactly nothing *)
    Theorem patchwise_hidden E r k b t : nthb (r_vis r) k = false ->
      get3 (patchwise sc tm E r) k b t = 0%T.
    Proof.
      intros Hv.
      destruct (Nat.lt_ge_cases k (s_np sc)) as [Hk|Hk];
        [destruct (Nat.lt_ge_cases b (s_nb sc)) as [Hb|Hb];
         [destruct (Nat.lt_ge_cases t (n_samples tm)) as [Ht|Ht]|]|].
      - rewrite patchwise_entry by assumption. unfold r_term, r_factor. rewrite Hv. ring.
      - unfold patchwise, get3, nthl. rewrite (nth_tab _ _ [] k Hk), (nth_tab _ _ [] b Hb).
        apply nthT_out. now rewrite roll_length.
      - unfold patchwise, get3, nthl. rewrite (nth_tab _ _ [] k Hk), (nth_tab_out _ _ [] b Hb).
        now destruct t.
      - unfold patchwise, get3, nthl. rewrite (nth_tab_out _ _ [] k Hk). now destruct b, t.
    Qed.

    (** C11.3: the mono curve is the sum of the patch-wise curves *)
    Theorem mono_is_sum (pw : @arr3 T) b t : b < s_nb sc -> t < n_samples tm ->
      get2 (mono_of sc tm pw) b t = sumf (seq 0 (s_np sc)) (fun k => get3 pw k b t).
    Proof.
      intros Hb Ht. unfold mono_of. rewrite get2_tab by assumption.
      rewrite suml_acc. ring.
    Qed.

    (** C11.4: the optional direct sound adds exactly [direct_val] in the bin of r/c and
        nothing else *)
    Theorem mono_direct E s r rdf b t : b < s_nb sc -> t < n_samples tm ->
      get2 (mono sc tm E s r true rdf) b t =
      (get2 (mono sc tm E s r false rdf) b t +
       (if t =? direct_bin tm s r then direct_val sc s r rdf b else 0))%T.
    Proof.
      intros Hb Ht. unfold mono. rewrite get2_tab by assumption.
      destruct (t =? direct_bin tm s r); ring.
    Qed.
  End WithRing.

  (** C11.2: receivers are processed independently *)
  Theorem receivers_independent E (rs1 rs2 : list (@receiver T)) :
    map (patchwise sc tm E) (rs1 ++ rs2) = map (patchwise sc tm E) rs1 ++ map (patchwise sc tm E) rs2.
  Proof. apply map_app. Qed.
End Receiver.
