(** * The winding count of [point_in_polygon] in general position, for ANY polygon in the
    horizontal plane: the tolerances drop out and every side contributes its signed crossing of
    the +x ray.

    General position of the point [pt] with respect to a side (a0, a1):
    - both end points farther than [dl] from the ray's line y = pt.y, with eta <= 2 dl;
    - the side is not degenerate (a0 <> a1);
    - if the side crosses the ray's line, it is steep enough to pass the epsilon gate of
      [project_to_plane]: epsilon * |a1 - a0| < |a1.y - a0.y|.  (A side that is flatter than
      that is SKIPPED by the code although the line through [pt] crosses it -- the gate is meant
      for sides parallel to the ray but compares the x-component of the UNIT normal with
      epsilon.)
    Then [side_count] = [cross_count]: -1 for a side that crosses the line upwards to the right
    of [pt] (pt strictly to its left: cross2 > 0), +1 for a side that crosses it downwards to the
    right of [pt] (cross2 < 0), 0 otherwise.  [cross_count] uses order and ring operations only
    (no sqrt, no division, no tolerance).

    What remains for a convex polygon is textbook geometry about [cross_count] alone (the boundary
    crosses a horizontal line upwards exactly once to the right of an interior point); it is NOT
    proved here. *)
From Coq Require Import List Arith Bool Ring Lia ZArith.
Import ListNotations.
From SV Require Import Base.Ops Base.Arr Model.Vec3 Model.Visibility Spec.VisibilitySpec
  Proofs.OrderField Proofs.VisibilitySym Proofs.VisibilitySegment Proofs.PipRect Proofs.PipRectSurface.

Section PipGeneral.
  Context {T : Type} {O : Ops T} {RL : RingLaws T} {OL : OrderLaws T} {FL : FieldLaws T}
          {SL : SqrtLaws T}.
  Add Ring TRingPipGen : (@ring_th T O RL).
  Local Notation vec := (@vec T).
  Local Open Scope T_scope.

  Lemma vec_ext3' (a b c a' b' c' : T) : a = a' -> b = b' -> c = c' -> (a, b, c) = (a', b', c').
  Proof. now intros -> -> ->. Qed.
  Ltac vunfold := unfold vnorm2, vdot, vcross, vsub, vadd, vscale, vdivs, mkv, vx, vy, vz; cbn [fst snd].
  Ltac veq := vunfold; apply vec_ext3'; ring.

  (** ** more scalar facts *)
  Lemma tabs_sq (a : T) : tabs a * tabs a = a * a.
  Proof.
    destruct (tle_total 0 a) as [H|H].
    - now rewrite (tabs_pos a H).
    - rewrite (tabs_neg a H). ring.
  Qed.

  Lemma tabs_mul (a b : T) : tabs (a * b) = tabs a * tabs b.
  Proof.
    apply sq_inj_nonneg.
    - apply tabs_nonneg.
    - apply tmul_nonneg; apply tabs_nonneg.
    - rewrite tabs_sq. replace (tabs a * tabs b * (tabs a * tabs b)) with ((tabs a * tabs a) * (tabs b * tabs b)) by ring.
      rewrite !tabs_sq. ring.
  Qed.

  Lemma sq_lt_mono (a b : T) : 0 <= a -> a < b -> a * a < b * b.
  Proof.
    intros Ha L. assert (Hb : 0 < b) by (apply (tle_lt_trans _ a); assumption).
    apply (tle_lt_trans _ (a * b)).
    - apply tmul_le_mono_nonneg_l; [exact Ha|now apply tlt_le].
    - now apply tmul_lt_mono_pos_r.
  Qed.

  Lemma tlt_bool_iff (a b c d : T) : (a < b <-> c < d) -> tltb a b = tltb c d.
  Proof.
    unfold tlt. intros [H1 H2]. destruct (tltb a b), (tltb c d); try reflexivity.
    - symmetry. now apply H1.
    - now apply H2.
  Qed.

  (** sign of a factor from the sign of a product with a positive factor *)
  Lemma tmul_pos_cancel (a l : T) : 0 < l -> (0 < a <-> 0 < a * l).
  Proof.
    intros Hl. split; intros H.
    - now apply tmul_pos.
    - apply (tmul_lt_cancel_pos_r _ _ l Hl). now replace (0 * l) with (0 : T) by ring.
  Qed.

  Lemma tmul_neg_cancel (a l : T) : 0 < l -> (a < 0 <-> a * l < 0).
  Proof.
    intros Hl. split; intros H.
    - now apply tmul_neg_pos.
    - apply (tmul_lt_cancel_pos_r _ _ l Hl). now replace (0 * l) with (0 : T) by ring.
  Qed.

  Lemma tlt_opp0 (a : T) : (0 < - a <-> a < 0).
  Proof.
    split; intros H.
    - replace a with (- - a) by ring. now apply tlt_pos_neg.
    - now apply tlt_neg_pos.
  Qed.

  Lemma tlt_0opp (a : T) : (- a < 0 <-> 0 < a).
  Proof.
    split; intros H.
    - replace a with (- - a) by ring. now apply tlt_neg_pos.
    - now apply tlt_pos_neg.
  Qed.

  (** ** norms *)
  Lemma vnorm_nonneg (v : vec) : 0 <= vnorm v.
  Proof. apply tsqrt_nonneg, vnorm2_nonneg. Qed.

  Lemma vnorm_sq (v : vec) : vnorm v * vnorm v = vnorm2 v.
  Proof. apply tsqrt_sq, vnorm2_nonneg. Qed.

  Lemma vnorm_scaled (u s : vec) (t : T) : vnorm2 u = (t * t) * vnorm2 s -> vnorm u = tabs t * vnorm s.
  Proof.
    intros H. apply sq_inj_nonneg.
    - apply vnorm_nonneg.
    - apply tmul_nonneg; [apply tabs_nonneg|apply vnorm_nonneg].
    - rewrite vnorm_sq, H.
      replace (tabs t * vnorm s * (tabs t * vnorm s)) with ((tabs t * tabs t) * (vnorm s * vnorm s)) by ring.
      now rewrite tabs_sq, vnorm_sq.
  Qed.

  (** ** the signed crossing of the ray by one side: order and ring operations only *)
  Definition cross2 (a0 a1 pt : vec) : T :=
    (vx a1 - vx a0) * (vy pt - vy a0) - (vy a1 - vy a0) * (vx pt - vx a0).

  Definition cross_count (pt : vec) (s : vec * vec) : Z :=
    let a0 := fst s in
    let a1 := snd s in
    if tltb (vy a0) (vy pt) && tltb (vy pt) (vy a1)
    then (if tltb 0 (cross2 a0 a1 pt) then (-1)%Z else 0%Z)
    else if tltb (vy a1) (vy pt) && tltb (vy pt) (vy a0)
         then (if tltb (cross2 a0 a1 pt) 0 then 1%Z else 0%Z)
         else 0%Z.

  Definition crossing_number (pt : vec) (poly2 : list vec) : Z :=
    fold_left Z.add (map (cross_count pt) (sides poly2)) 0%Z.

  (** the general form of the point the ray's line shares with the side's line *)
  Lemma ray_hit_form (eps px py x1 y1 nx ny : T) :
    project_to_plane false eps (mkv px py 0) (vadd (mkv px py 0) (mkv 1 0 0)) (mkv x1 y1 0) (mkv nx ny 0)
    = if tltb eps (tabs nx)
      then Some (mkv ((px + 1) - (nx * ((px + 1) - x1) + ny * (py - y1)) / nx) py 0)
      else None.
  Proof.
    unfold project_to_plane. cbv zeta. rewrite ray_dir, vdot_e1.
    change (vx (mkv nx ny 0)) with nx.
    destruct (tltb eps (tabs nx)); [|reflexivity]. f_equal.
    replace (vdot (mkv nx ny 0) (vsub (vadd (mkv px py 0) (mkv 1 0 0)) (mkv x1 y1 0)))
      with (nx * ((px + 1) - x1) + ny * (py - y1)) by (vunfold; ring).
    veq.
  Qed.

  Section OneSide.
    Variables (eps eta dl px py x0 y0 x1 y1 : T).
    Hypothesis He : 0 <= eps.
    Hypothesis Heta : 0 <= eta.
    Hypothesis Hdl : eta <= dl + dl.
    Hypothesis M0 : dl < tabs (py - y0).
    Hypothesis M1 : dl < tabs (py - y1).
    Hypothesis Hsy : y1 - y0 <> 0.

    Let pt : vec := mkv px py 0.
    Let a0 : vec := mkv x0 y0 0.
    Let a1 : vec := mkv x1 y1 0.
    Let sx : T := x1 - x0.
    Let sy : T := y1 - y0.
    Let L : T := vnorm (vsub a1 a0).
    Let nx : T := (- sy) / L.
    Let ny : T := sx / L.
    Let t : T := (py - y0) / sy.
    Let bx : T := (px + 1) - (nx * ((px + 1) - x1) + ny * (py - y1)) / nx.
    Let b : vec := mkv bx py 0.
    Let cr : T := cross2 a0 a1 pt.

    Lemma L_sq : L * L = sx * sx + sy * sy.
    Proof. unfold L. rewrite vnorm_sq. unfold a0, a1, sx, sy. vunfold. ring. Qed.

    Lemma L_pos : 0 < L.
    Proof.
      destruct (tle_lt_or_eq _ _ (vnorm_nonneg (vsub a1 a0))) as [H|H]; [exact H|]. exfalso.
      fold L in H. pose proof L_sq as E. rewrite <- H in E.
      assert (Z0 : sx * sx + sy * sy = 0) by (rewrite <- E; ring).
      apply Hsy. fold sy. apply tsq_zero. apply tle_antisym; [|apply tsq_nonneg].
      replace (sy * sy) with (0 - sx * sx) by (rewrite <- Z0; ring).
      replace (0 - sx * sx) with (- (sx * sx)) by ring. apply tle_opp_nonpos, tsq_nonneg.
    Qed.

    Lemma L_neq0 : L <> 0.
    Proof. apply tpos_neq, L_pos. Qed.

    Lemma nxL : nx * L = - sy.
    Proof. unfold nx. apply tdiv_mul, L_neq0. Qed.
    Lemma nyL : ny * L = sx.
    Proof. unfold ny. apply tdiv_mul, L_neq0. Qed.

    Lemma nx_neq0 : nx <> 0.
    Proof.
      intros E. apply Hsy. fold sy. pose proof nxL as H. rewrite E in H.
      replace sy with (- - sy) by ring. rewrite <- H. ring.
    Qed.

    Lemma side_nl_general : side_nl a0 a1 = mkv nx ny 0.
    Proof.
      unfold side_nl. fold L. unfold a0, a1, vdivs, vsub, mkv, vx, vy, vz. cbn [fst snd].
      fold sx sy. fold nx ny. now rewrite (tdiv_zero_l _ L_neq0).
    Qed.

    (** |sy| <= L *)
    Lemma sy_le_L : tabs sy <= L.
    Proof.
      destruct (tle_dec (tabs sy) L) as [H|H]; [exact H|]. exfalso.
      pose proof (sq_lt_mono L (tabs sy) (tlt_le _ _ L_pos) H) as Q.
      rewrite tabs_sq, L_sq in Q. apply (proj1 (tlt_iff _ _) Q).
      replace (sy * sy) with (0 + sy * sy) at 1 by ring. apply tadd_le_mono, tsq_nonneg.
    Qed.

    (** the gate, without division: eps < |nx|  <->  eps * L < |sy| *)
    Lemma gate_iff : eps < tabs nx <-> eps * L < tabs sy.
    Proof.
      assert (E : tabs nx * L = tabs sy).
      { rewrite <- (tabs_pos L (tlt_le _ _ L_pos)) at 1. rewrite <- tabs_mul, nxL. apply tabs_opp. }
      rewrite <- E. split; intros H.
      - now apply tmul_lt_mono_pos_r; [apply L_pos|].
      - now apply (tmul_lt_cancel_pos_r _ _ L L_pos).
    Qed.

    Lemma t_sy : t * sy = py - y0.
    Proof. unfold t. apply tdiv_mul. exact Hsy. Qed.

    Lemma t1_sy : (t - 1) * sy = py - y1.
    Proof. replace ((t - 1) * sy) with (t * sy - sy) by ring. rewrite t_sy. unfold sy. ring. Qed.

    (** the characteristic equation of the hit point *)
    Lemma bx_sy : bx * sy = x1 * sy + sx * (py - y1).
    Proof.
      set (q := (nx * ((px + 1) - x1) + ny * (py - y1)) / nx).
      assert (Hq : q * nx = nx * ((px + 1) - x1) + ny * (py - y1)) by (apply tdiv_mul, nx_neq0).
      assert (HqL : q * (- sy) = (- sy) * ((px + 1) - x1) + sx * (py - y1)).
      { rewrite <- nxL, <- nyL.
        replace (q * (nx * L)) with ((q * nx) * L) by ring. rewrite Hq. ring. }
      unfold bx. fold q.
      replace (((px + 1) - q) * sy) with ((px + 1) * sy + q * (- sy)) by ring. rewrite HqL. ring.
    Qed.

    Lemma bx_x0 : bx - x0 = t * sx.
    Proof.
      apply (tmul_inj_r _ _ sy Hsy).
      replace ((bx - x0) * sy) with (bx * sy - x0 * sy) by ring. rewrite bx_sy.
      replace (t * sx * sy) with (sx * (t * sy)) by ring. rewrite t_sy. unfold sx, sy. ring.
    Qed.

    Lemma bx_x1 : bx - x1 = (t - 1) * sx.
    Proof.
      apply (tmul_inj_r _ _ sy Hsy).
      replace ((bx - x1) * sy) with (bx * sy - x1 * sy) by ring. rewrite bx_sy.
      replace ((t - 1) * sx * sy) with (sx * ((t - 1) * sy)) by ring. rewrite t1_sy. ring.
    Qed.

    Lemma bx_px : (bx - px) * sy = cr.
    Proof.
      replace ((bx - px) * sy) with (bx * sy - px * sy) by ring. rewrite bx_sy.
      unfold cr, cross2, a0, a1, pt, sx, sy, mkv, vx, vy. cbn [fst snd]. ring.
    Qed.

    Lemma norm_b_a0 : vnorm (vsub b a0) = tabs t * L.
    Proof.
      apply vnorm_scaled.
      replace (vnorm2 (vsub b a0)) with ((bx - x0) * (bx - x0) + (py - y0) * (py - y0))
        by (unfold b, a0; vunfold; ring).
      rewrite bx_x0, <- t_sy. unfold a0, a1, sx, sy. vunfold. ring.
    Qed.

    Lemma norm_b_a1 : vnorm (vsub b a1) = tabs (t - 1) * L.
    Proof.
      apply vnorm_scaled.
      replace (vnorm2 (vsub b a1)) with ((bx - x1) * (bx - x1) + (py - y1) * (py - y1))
        by (unfold b, a1; vunfold; ring).
      rewrite bx_x1, <- t1_sy. unfold a0, a1, sx, sy. vunfold. ring.
    Qed.

    (** the on-segment expression is that of the parameter t on [0,1], times the length *)
    Lemma onseg_general :
      (vnorm (vsub b a0) + vnorm (vsub b a1)) - vnorm (vsub a1 a0) = onseg_expr t 0 1 * L.
    Proof.
      rewrite norm_b_a0, norm_b_a1. fold L. unfold onseg_expr.
      replace (t - 0) with t by ring. replace (1 - 0) with (1 : T) by ring. rewrite tabs_one. ring.
    Qed.

    (** 0 < t < 1 iff the side crosses the ray's line *)
    Lemma t_between : (0 < t /\ t < 1) <-> between y0 y1 py.
    Proof.
      assert (E0 : py - y0 = t * sy) by (symmetry; apply t_sy).
      assert (E1 : y1 - py = (1 - t) * sy) by (replace ((1 - t) * sy) with (sy - t * sy) by ring; rewrite t_sy; unfold sy; ring).
      assert (F0 : y0 - py = t * (- sy)) by (transitivity (- (py - y0)); [ring|rewrite <- t_sy; ring]).
      assert (F1 : py - y1 = (1 - t) * (- sy)) by (rewrite <- t1_sy; ring).
      unfold between. destruct (tneq_lt _ _ Hsy) as [Sn|Sp]; [fold sy in Sn|fold sy in Sp].
      - (* sy < 0 *)
        assert (Sp : 0 < - sy) by now apply tlt_neg_pos.
        split.
        + intros [H0 H1]. right. split; apply (proj2 (tlt_sub _ _)).
          * rewrite F1.
            apply tmul_pos; [now apply (proj1 (tlt_sub _ _))|exact Sp].
          * rewrite F0. now apply tmul_pos.
        + intros [[H0 H1]|[H1 H0]].
          * exfalso. apply (tlt_irrefl y0). apply (tlt_trans _ py); [exact H0|].
            apply (tlt_trans _ y1); [exact H1|]. apply (proj2 (tlt_sub _ _)).
            replace (y0 - y1) with (- sy) by (unfold sy; ring). exact Sp.
          * apply (proj1 (tlt_sub _ _)) in H0, H1.
            split.
            -- apply (proj2 (tmul_pos_cancel t (- sy) Sp)).
               rewrite <- F0. exact H0.
            -- apply (proj2 (tlt_sub _ _)). apply (proj2 (tmul_pos_cancel (1 - t) (- sy) Sp)).
               rewrite <- F1. exact H1.
      - (* 0 < sy *)
        split.
        + intros [H0 H1]. left. split; apply (proj2 (tlt_sub _ _)).
          * rewrite E0. now apply tmul_pos.
          * rewrite E1. apply tmul_pos; [now apply (proj1 (tlt_sub _ _))|exact Sp].
        + intros [[H0 H1]|[H1 H0]].
          * apply (proj1 (tlt_sub _ _)) in H0, H1. split.
            -- apply (proj2 (tmul_pos_cancel t sy Sp)). now rewrite <- E0.
            -- apply (proj2 (tlt_sub _ _)). apply (proj2 (tmul_pos_cancel (1 - t) sy Sp)). now rewrite <- E1.
          * exfalso. apply (tlt_irrefl y1). apply (tlt_trans _ py); [exact H1|].
            apply (tlt_trans _ y0); [exact H0|]. apply (proj2 (tlt_sub _ _)). exact Sp.
    Qed.

    (** |t| L >= |py - y0| and |t - 1| L >= |py - y1| *)
    Lemma tL_ge : tabs (py - y0) <= tabs t * L.
    Proof.
      rewrite <- t_sy, tabs_mul. apply tmul_le_mono_nonneg_l; [apply tabs_nonneg|apply sy_le_L].
    Qed.
    Lemma t1L_ge : tabs (py - y1) <= tabs (t - 1) * L.
    Proof.
      rewrite <- t1_sy, tabs_mul. apply tmul_le_mono_nonneg_l; [apply tabs_nonneg|apply sy_le_L].
    Qed.

    (** the on-segment test of the model decides "the side crosses the ray's line" *)
    Lemma onseg_general_test :
      tleb (tabs ((vnorm (vsub b a0) + vnorm (vsub b a1)) - vnorm (vsub a1 a0))) eta
      = true <-> between y0 y1 py.
    Proof.
      rewrite onseg_general, <- t_between. split.
      - intros H. destruct (tle_dec t 0) as [T0|T0].
        + exfalso. rewrite (onseg_below t 0 1 T0 tzero_le_one) in H.
          assert (Et : tabs t = 0 - t) by (rewrite <- (tabs_sub_le t 0 T0); f_equal; ring).
          pose proof tL_ge as G. rewrite Et in G.
          pose proof (twice_margin eta dl ((0 - t) * L) Hdl (tlt_le_trans _ _ _ M0 G)) as K.
          assert (P : 0 <= ((0 - t) + (0 - t)) * L).
          { apply tmul_nonneg; [|apply tlt_le, L_pos]. apply tadd_nonneg; now apply (proj1 (tle_sub _ _)). }
          rewrite (tabs_pos _ P) in H.
          apply (proj1 (tlt_iff _ _) K). replace ((0 - t) * L + (0 - t) * L) with (((0 - t) + (0 - t)) * L) by ring.
          exact H.
        + destruct (tle_dec 1 t) as [T1|T1]; [|now split].
          exfalso. rewrite (onseg_above t 0 1 T1 tzero_le_one) in H.
          assert (Et : tabs (t - 1) = t - 1) by now apply tabs_sub_ge.
          pose proof t1L_ge as G. rewrite Et in G.
          pose proof (twice_margin eta dl ((t - 1) * L) Hdl (tlt_le_trans _ _ _ M1 G)) as K.
          assert (P : 0 <= ((t - 1) + (t - 1)) * L).
          { apply tmul_nonneg; [|apply tlt_le, L_pos]. apply tadd_nonneg; now apply (proj1 (tle_sub _ _)). }
          rewrite (tabs_pos _ P) in H.
          apply (proj1 (tlt_iff _ _) K). replace ((t - 1) * L + (t - 1) * L) with (((t - 1) + (t - 1)) * L) by ring.
          exact H.
      - intros [H0 H1]. rewrite (onseg_inside t 0 1 (tlt_le _ _ H0) (tlt_le _ _ H1)).
        replace (0 * L) with (0 : T) by ring. rewrite tabs_zero. exact Heta.
    Qed.

    (** position of the hit point relative to pt, and the sign of the count, through cross2 *)
    Lemma hit_right_up : 0 < sy -> (px < bx <-> 0 < cr).
    Proof.
      intros Sp. rewrite <- bx_px, <- (tmul_pos_cancel _ sy Sp). apply tlt_sub.
    Qed.
    Lemma hit_right_down : sy < 0 -> (px < bx <-> cr < 0).
    Proof.
      intros Sn. pose proof (tlt_neg_pos _ Sn) as Sp.
      rewrite (tlt_sub px bx), (tmul_pos_cancel _ (- sy) Sp).
      replace ((bx - px) * - sy) with (- cr) by (rewrite <- bx_px; ring). apply tlt_opp0.
    Qed.

    Lemma dsign_L : vdot (vsub b pt) (mkv nx ny 0) * L = - cr.
    Proof.
      replace (vdot (vsub b pt) (mkv nx ny 0) * L) with ((bx - px) * (nx * L))
        by (unfold b, pt; vunfold; ring).
      rewrite nxL, <- bx_px. ring.
    Qed.

    (** ** the count of one side in general position *)
    Lemma side_count_sloped :
      (between y0 y1 py -> eps * L < tabs sy) ->
      side_count eps eta pt (a0, a1) = cross_count pt (a0, a1).
    Proof.
      intros Hsteep. rewrite side_count_eq, side_nl_general. unfold count_at.
      unfold pt at 1 2, a1 at 1. rewrite ray_hit_form. fold bx.
      unfold cross_count. cbn [fst snd]. fold cr.
      change (vy a0) with y0. change (vy a1) with y1. change (vy pt) with py.
      destruct (between_dec y0 y1 py) as [B|B].
      - (* crossing side: the gate is open *)
        pose proof (proj2 gate_iff (Hsteep B)) as G. unfold tlt in G. rewrite G.
        fold b. change (vx (mkv px py 0)) with px. change (vx pt) with px. change (vx b) with bx.
        rewrite (proj2 onseg_general_test B). cbv zeta.
        pose proof L_pos as Lp.
        assert (Dpos : 0 < vdot (vsub b pt) (mkv nx ny 0) <-> cr < 0).
        { rewrite (tmul_pos_cancel _ L Lp), dsign_L. apply tlt_opp0. }
        assert (Dneg : vdot (vsub b pt) (mkv nx ny 0) < 0 <-> 0 < cr).
        { rewrite (tmul_neg_cancel _ L Lp), dsign_L. apply tlt_0opp. }
        destruct B as [[B0 B1]|[B1 B0]].
        + (* upwards *)
          assert (Sp : 0 < sy) by (apply (proj1 (tlt_sub _ _)); now apply (tlt_trans _ py)).
          unfold tlt in B0, B1. rewrite B0, B1. cbn [andb].
          rewrite (tlt_bool_iff _ _ _ _ (hit_right_up Sp)).
          destruct (tltb 0 cr) eqn:C; [|reflexivity].
          rewrite (tlt_not_swap _ _ (proj2 Dneg C)).
          pose proof (proj2 Dneg C) as C'. unfold tlt in C'. now rewrite C'.
        + (* downwards *)
          assert (Sn : sy < 0).
          { apply (proj2 (tlt_sub _ _)). replace (0 - sy) with (y0 - y1) by (unfold sy; ring).
            apply (proj1 (tlt_sub _ _)). now apply (tlt_trans _ py). }
          rewrite (tlt_not_swap _ _ B0). cbn [andb].
          unfold tlt in B0, B1. rewrite B0, B1. cbn [andb].
          rewrite (tlt_bool_iff _ _ _ _ (hit_right_down Sn)).
          destruct (tltb cr 0) eqn:C; [|reflexivity].
          pose proof (proj2 Dpos C) as C'. unfold tlt in C'. now rewrite C'.
      - (* the side does not cross the line: not counted, whatever the gate says *)
        assert (N1 : tltb y0 py && tltb py y1 = false).
        { destruct (tltb y0 py) eqn:E1, (tltb py y1) eqn:E2; try reflexivity.
          exfalso. apply B. left. now split. }
        assert (N2 : tltb y1 py && tltb py y0 = false).
        { destruct (tltb y1 py) eqn:E1, (tltb py y0) eqn:E2; try reflexivity.
          exfalso. apply B. right. now split. }
        rewrite N1, N2.
        destruct (tltb eps (tabs nx)); [|reflexivity].
        fold b. change (vx (mkv px py 0)) with px. change (vx pt) with px. change (vx b) with bx.
        destruct (tltb px bx); [|reflexivity].
        destruct (tleb (tabs (vnorm (vsub b a0) + vnorm (vsub b a1) - vnorm (vsub a1 a0))) eta) eqn:E; [|reflexivity].
        exfalso. apply B. now apply onseg_general_test.
    Qed.
  End OneSide.

  (** ** general position of [pt] with respect to one side *)
  Definition side_gp (eps dl : T) (pt : vec) (s : vec * vec) : Prop :=
    let a0 := fst s in
    let a1 := snd s in
    dl < tabs (vy pt - vy a0) /\ dl < tabs (vy pt - vy a1) /\
    (vx a0 <> vx a1 \/ vy a0 <> vy a1) /\
    (between (vy a0) (vy a1) (vy pt) -> eps * vnorm (vsub a1 a0) < tabs (vy a1 - vy a0)).

  Lemma cross_count_level (pt a0 a1 : vec) : vy a0 = vy a1 -> cross_count pt (a0, a1) = 0%Z.
  Proof.
    intros E. unfold cross_count. cbn [fst snd]. rewrite E.
    destruct (tltb (vy a1) (vy pt)) eqn:H1; cbn [andb]; [|reflexivity].
    rewrite (tlt_not_swap _ _ H1). reflexivity.
  Qed.

  Theorem side_count_general (eps eta dl : T) (pt a0 a1 : vec) :
    0 <= eps -> 0 <= eta -> eta <= dl + dl ->
    vz pt = 0 -> vz a0 = 0 -> vz a1 = 0 -> side_gp eps dl pt (a0, a1) ->
    side_count eps eta pt (a0, a1) = cross_count pt (a0, a1).
  Proof.
    intros He Heta Hdl Zp Z0 Z1 (M0 & M1 & Nd & Hst).
    destruct pt as [[px py] pz]. destruct a0 as [[x0 y0] z0]. destruct a1 as [[x1 y1] z1].
    unfold vx, vy, vz in *. cbn [fst snd] in *. subst pz z0 z1.
    change (side_count eps eta (mkv px py 0) (mkv x0 y0 0, mkv x1 y1 0)
            = cross_count (mkv px py 0) (mkv x0 y0 0, mkv x1 y1 0)).
    destruct (tlt_trichotomy y0 y1) as [H|[H|H]].
    - apply (side_count_sloped eps eta dl px py x0 y0 x1 y1 Heta Hdl M0 M1).
      + apply tsub_neq0. now apply tlt_neq.
      + exact Hst.
    - subst y1. rewrite cross_count_level by reflexivity.
      apply side_count_horizontal; [exact He|]. destruct Nd as [N|N]; [exact N|now elim N].
    - apply (side_count_sloped eps eta dl px py x0 y0 x1 y1 Heta Hdl M0 M1).
      + apply tsub_neq0. intros E. subst y1. exact (tlt_irrefl _ H).
      + exact Hst.
  Qed.

  Lemma sides_in (poly : list vec) (a0 a1 : vec) : In (a0, a1) (sides poly) -> In a0 poly /\ In a1 poly.
  Proof.
    destruct poly as [|h tl]; [intros []|]. unfold sides. intros H. split.
    - exact (in_combine_l _ _ _ _ H).
    - apply in_combine_r in H. apply in_app_or in H. destruct H as [H|[H|[]]].
      + now right.
      + now left.
  Qed.

  (** ** the winding count of the model is the crossing number, for every polygon in general
      position *)
  Theorem winding_general_position (eps eta dl : T) (pt : vec) (poly2 : list vec) :
    0 <= eps -> 0 <= eta -> eta <= dl + dl ->
    vz pt = 0 -> (forall v, In v poly2 -> vz v = 0) ->
    (forall s, In s (sides poly2) -> side_gp eps dl pt s) ->
    winding eps eta pt poly2 = crossing_number pt poly2.
  Proof.
    intros He Heta Hdl Zp Zv Hgp. unfold winding, crossing_number. f_equal.
    apply map_ext_in. intros [a0 a1] Hin. destruct (sides_in _ _ _ Hin) as [I0 I1].
    apply (side_count_general eps eta dl); auto.
  Qed.

  Lemma proj2d_flat (ax : axis) (up : bool) (q : vec) : vz (proj2d ax up q) = 0.
  Proof. destruct ax, up; reflexivity. Qed.

  (** ... hence, for a polygon in a plane orthogonal to a coordinate axis (unit normal), and a
      point within eta of that plane: [point_in_polygon] = "crossing number <> 0" of the rotated,
      flattened data, whenever these are in general position *)
  Theorem pip_general_position (eps eta dl : T) (p : vec) (poly : list vec) (ax : axis) (up : bool) :
    0 <= eps -> 0 <= eta -> eta <= dl + dl ->
    tabs (vdot (vsub p (nthv poly 0)) (axis_normal ax up)) <= eta ->
    (forall s, In s (sides (map (proj2d ax up) poly)) -> side_gp eps dl (proj2d ax up p) s) ->
    point_in_polygon eps eta p poly (axis_normal ax up)
    = negb (Z.eqb (crossing_number (proj2d ax up p) (map (proj2d ax up) poly)) 0%Z).
  Proof.
    intros He Heta Hdl Hg Hgp. rewrite (pip_axis eps eta p poly ax up Hg).
    rewrite (winding_general_position eps eta dl); auto.
    - apply proj2d_flat.
    - intros v Hv. apply in_map_iff in Hv. destruct Hv as (q & <- & _). apply proj2d_flat.
  Qed.

  (** ** the crossing number of a closed polygon: as many upward as downward crossings of the
      line (the sum telescopes) -- used to read the count of a point that lies to the left of
      every upward and to the right of no downward crossing *)
  Definition above (pt v : vec) : Z := if tltb (vy pt) (vy v) then 1%Z else 0%Z.

  (** +1 for a side that crosses the line y = pt.y upwards, -1 downwards, when no end point is on
      the line *)
  Lemma above_diff (pt a0 a1 : vec) :
    vy a0 <> vy pt -> vy a1 <> vy pt ->
    (above pt a1 - above pt a0)%Z
    = ((if tltb (vy a0) (vy pt) && tltb (vy pt) (vy a1) then 1 else 0)
       - (if tltb (vy a1) (vy pt) && tltb (vy pt) (vy a0) then 1 else 0))%Z.
  Proof.
    intros N0 N1. unfold above.
    destruct (tneq_lt _ _ N0) as [L0|L0]; destruct (tneq_lt _ _ N1) as [L1|L1];
      rewrite ?(tlt_not_swap _ _ L0), ?(tlt_not_swap _ _ L1);
      unfold tlt in L0, L1; rewrite ?L0, ?L1; reflexivity.
  Qed.

  Lemma telescope (f : vec -> Z) (l : list vec) (x h : vec) :
    fold_left Z.add (map (fun s => (f (snd s) - f (fst s))%Z) (combine (x :: l) (l ++ [h]))) 0%Z
    = (f h - f x)%Z.
  Proof.
    assert (G : forall (l : list vec) (x : vec) (acc : Z),
               fold_left Z.add (map (fun s => (f (snd s) - f (fst s))%Z) (combine (x :: l) (l ++ [h]))) acc
               = (acc + (f h - f x))%Z).
    { induction l0 as [|y l0 IH]; intros x0 acc.
      - reflexivity.
      - change (combine (x0 :: y :: l0) ((y :: l0) ++ [h])) with ((x0, y) :: combine (y :: l0) (l0 ++ [h])).
        cbn [map fold_left fst snd]. rewrite IH. lia. }
    rewrite G. lia.
  Qed.

  (** over a closed polygon the up-crossings and the down-crossings of a line balance *)
  Lemma closed_balance (pt : vec) (poly2 : list vec) :
    fold_left Z.add (map (fun s => (above pt (snd s) - above pt (fst s))%Z) (sides poly2)) 0%Z = 0%Z.
  Proof.
    destruct poly2 as [|h tl]; [reflexivity|]. unfold sides. rewrite telescope. lia.
  Qed.
End PipGeneral.
