(** * Consequences of the ordered-field and floor laws used by the tiling proofs.
    Nothing is assumed here beyond the law classes of [Base/Ops.v]. *)
From Coq Require Import List Arith Bool Ring Lia.
Import ListNotations.
From SV Require Import Base.Ops.

Section OrderRing.
  Context {T : Type} {O : Ops T} {RL : RingLaws T} {OL : OrderLaws T}.
  Add Ring TRingOF : (@ring_th T O RL).

  Lemma tle_dec a b : {(a <= b)%T} + {(b < a)%T}.
  Proof.
    unfold tle, tlt. rewrite tltb_spec. destruct (tleb a b); [left|right]; reflexivity.
  Qed.

  Lemma tlt_sub a b : (a < b)%T <-> (0 < b - a)%T.
  Proof.
    rewrite !tlt_iff. split; intros H C; apply H.
    - apply (proj2 (tle_sub _ _)). replace (a - b)%T with (0 - (b - a))%T by ring.
      now apply (proj1 (tle_sub _ _)).
    - apply (proj1 (tle_sub _ _)) in C. apply (proj2 (tle_sub _ _)).
      replace (0 - (b - a))%T with (a - b)%T by ring. exact C.
  Qed.

  Lemma tlt_neq a b : (a < b)%T -> a <> b.
  Proof. intros H E. subst b. exact (tlt_irrefl a H). Qed.

  Lemma tpos_neq a : (0 < a)%T -> a <> 0%T.
  Proof. intros H E. subst a. exact (tlt_irrefl _ H). Qed.

  Lemma tlt_trans a b c : (a < b)%T -> (b < c)%T -> (a < c)%T.
  Proof. intros H1 H2. eapply tlt_le_trans; [exact H1|now apply tlt_le]. Qed.

  Lemma tle_not_lt a b : (a <= b)%T -> ~ (b < a)%T.
  Proof. intros H C. apply tlt_iff in C. contradiction. Qed.

  Lemma tmul_lt_mono_pos_r a b c : (0 < c)%T -> (a < b)%T -> (a * c < b * c)%T.
  Proof.
    intros Hc H. apply (proj2 (tlt_sub _ _)).
    replace (b * c - a * c)%T with ((b - a) * c)%T by ring.
    apply tmul_pos; [now apply (proj1 (tlt_sub _ _))|exact Hc].
  Qed.

  (** cancellation of a positive factor *)
  Lemma tmul_le_cancel_pos_r a b c : (0 < c)%T -> (a * c <= b * c)%T -> (a <= b)%T.
  Proof.
    intros Hc H. destruct (tle_dec a b) as [L|L]; [exact L|].
    exfalso. apply (tle_not_lt _ _ H). now apply tmul_lt_mono_pos_r.
  Qed.

  Lemma tmul_lt_cancel_pos_r a b c : (0 < c)%T -> (a * c < b * c)%T -> (a < b)%T.
  Proof.
    intros Hc H. destruct (tle_dec b a) as [L|L]; [|exact L].
    exfalso. apply (tle_not_lt (b * c)%T (a * c)%T); [|exact H].
    apply tmul_le_mono_nonneg_r; [now apply tlt_le|exact L].
  Qed.

  Lemma tmul_eq_cancel_pos_r a b c : (0 < c)%T -> (a * c)%T = (b * c)%T -> a = b.
  Proof.
    intros Hc H. apply tle_antisym; apply (tmul_le_cancel_pos_r _ _ c Hc); rewrite H; apply tle_refl.
  Qed.

  Lemma tadd_le_cancel_l a b c : (c + a <= c + b)%T -> (a <= b)%T.
  Proof.
    intros H. apply (tadd_le_mono _ _ (- c)%T) in H.
    replace (c + a + - c)%T with a in H by ring. replace (c + b + - c)%T with b in H by ring. exact H.
  Qed.

  Lemma tadd_lt_mono_l a b c : (a < b)%T -> (c + a < c + b)%T.
  Proof.
    intros H. apply tlt_iff. intros C. apply tlt_iff in H. apply H. now apply tadd_le_cancel_l in C.
  Qed.
End OrderRing.

Section OrderField.
  Context {T : Type} {O : Ops T} {RL : RingLaws T} {OL : OrderLaws T} {FL : FieldLaws T}.
  Add Ring TRingOF2 : (@ring_th T O RL).

  Lemma tmul_div_cancel a b : b <> 0%T -> (b * (a / b))%T = a.
  Proof. intros H. replace (b * (a / b))%T with ((a / b) * b)%T by ring. now apply tdiv_mul. Qed.

  Lemma tdiv_zero b : (0 < b)%T -> (0 / b)%T = 0%T.
  Proof.
    intros Hb. apply (tmul_eq_cancel_pos_r _ _ b Hb).
    rewrite tdiv_mul by now apply tpos_neq. ring.
  Qed.

  Lemma tdiv_pos a b : (0 < a)%T -> (0 < b)%T -> (0 < a / b)%T.
  Proof.
    intros Ha Hb. apply (tmul_lt_cancel_pos_r _ _ b Hb).
    rewrite tdiv_mul by now apply tpos_neq. replace (0 * b)%T with 0%T by ring. exact Ha.
  Qed.

  Lemma tdiv_nonneg a b : (0 <= a)%T -> (0 < b)%T -> (0 <= a / b)%T.
  Proof.
    intros Ha Hb. apply (tmul_le_cancel_pos_r _ _ b Hb).
    rewrite tdiv_mul by now apply tpos_neq. replace (0 * b)%T with 0%T by ring. exact Ha.
  Qed.

  Lemma tdiv_ge_one a b : (0 < b)%T -> (b <= a)%T -> (1 <= a / b)%T.
  Proof.
    intros Hb H. apply (tmul_le_cancel_pos_r _ _ b Hb).
    rewrite tdiv_mul by now apply tpos_neq. replace (1 * b)%T with b by ring. exact H.
  Qed.

  (** division depends on the quotient's arguments only, so translated extents divide alike *)
  Lemma tdiv_same a b : b <> 0%T -> (a / b * b)%T = a.
  Proof. apply tdiv_mul. Qed.
End OrderField.

Section Floor.
  Context {T : Type} {O : Ops T} {RL : RingLaws T} {OL : OrderLaws T} {FlL : FloorLaws T}.
  Add Ring TRingOF3 : (@ring_th T O RL).

  Lemma tofnat_1 : tofnat 1 = 1%T.
  Proof. rewrite tofnat_S, tofnat_0. ring. Qed.

  Lemma tofnat_nonneg n : (0 <= tofnat n)%T.
  Proof.
    induction n as [|n IH]; [rewrite tofnat_0; apply tle_refl|].
    rewrite tofnat_S. apply tadd_nonneg; [exact IH|apply tzero_le_one].
  Qed.

  Lemma tofnat_pos n : 0 < n -> (0 < tofnat n)%T.
  Proof.
    destruct n as [|n]; [lia|]. intros _. rewrite tofnat_S.
    apply (tlt_le_trans _ 1%T); [apply tone_pos|].
    replace 1%T with (0 + 1)%T at 1 by ring. apply tadd_le_mono, tofnat_nonneg.
  Qed.

  Lemma tofnat_add n m : tofnat (n + m) = (tofnat n + tofnat m)%T.
  Proof.
    induction n as [|n IH]; simpl.
    - rewrite tofnat_0. ring.
    - rewrite !tofnat_S, IH. ring.
  Qed.

  Lemma tofnat_mono n m : n <= m -> (tofnat n <= tofnat m)%T.
  Proof.
    intros H. replace m with (n + (m - n)) by lia. rewrite tofnat_add.
    replace (tofnat n) with (tofnat n + 0)%T at 1 by ring. apply tadd_le_mono_l, tofnat_nonneg.
  Qed.

  Lemma tofnat_mul n m : tofnat (n * m) = (tofnat n * tofnat m)%T.
  Proof.
    induction n as [|n IH]; simpl.
    - rewrite tofnat_0. ring.
    - rewrite tofnat_add, tofnat_S, IH. ring.
  Qed.

  Lemma ttrunc_zero : ttrunc 0%T = 0.
  Proof.
    pose proof (ttrunc_lo 0%T (tle_refl _)) as H.
    destruct (ttrunc 0%T) as [|n] eqn:E; [reflexivity|].
    exfalso. apply (tle_not_lt _ _ H). apply tofnat_pos. lia.
  Qed.

  Lemma ttrunc_ge_one x : (1 <= x)%T -> 1 <= ttrunc x.
  Proof.
    intros H. assert (H0 : (0 <= x)%T) by (eapply tle_trans; [apply tzero_le_one|exact H]).
    pose proof (ttrunc_hi x H0) as Hh.
    destruct (ttrunc x) as [|n]; [|lia].
    exfalso. rewrite tofnat_1 in Hh. exact (tle_not_lt _ _ H Hh).
  Qed.
End Floor.
