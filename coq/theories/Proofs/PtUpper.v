(** * Bounds on the point-to-patch share and exact zeros of hidden patches (C04). *)
From Coq Require Import List Arith Bool Ring Lia.
Import ListNotations.
From SV Require Import Base.Ops Base.OpsGeom Base.Arr Base.Sums
  Model.Vec3 Model.Exchange Model.Scene Model.PtSolution.

(** ** order / field helpers *)
Section OrderMore.
  Context {T : Type} {O : Ops T} {RL : RingLaws T} {OL : OrderLaws T}.
  Add Ring TRingPU0 : (@ring_th T O RL).

  Lemma tlt_sub a b : (a < b)%T <-> (0 < b - a)%T.
  Proof.
    rewrite !tlt_iff. split; intros H C; apply H.
    - apply (proj1 (tle_sub _ _)) in C. replace (0 - (b - a))%T with (a - b)%T in C by ring.
      now apply (proj2 (tle_sub _ _)).
    - apply (proj1 (tle_sub _ _)) in C. apply (proj2 (tle_sub _ _)).
      replace (0 - (b - a))%T with (a - b)%T by ring. exact C.
  Qed.

  Lemma tadd_lt_mono a b c : (a < b)%T -> (a + c < b + c)%T.
  Proof.
    intros H. apply (proj2 (tlt_sub _ _)). replace (b + c - (a + c))%T with (b - a)%T by ring. exact (proj1 (tlt_sub _ _) H).
  Qed.

  Lemma tadd_lt_le a b c d : (a < b)%T -> (c <= d)%T -> (a + c < b + d)%T.
  Proof.
    intros H1 H2. eapply tlt_le_trans; [apply tadd_lt_mono; eassumption|]. now apply tadd_le_mono_l.
  Qed.

  Lemma tadd_le_lt a b c d : (a <= b)%T -> (c < d)%T -> (a + c < b + d)%T.
  Proof.
    intros H1 H2. replace (a + c)%T with (c + a)%T by ring. replace (b + d)%T with (d + b)%T by ring.
    now apply tadd_lt_le.
  Qed.

  Lemma tmul_lt_mono_pos_r a b c : (0 < c)%T -> (a < b)%T -> (a * c < b * c)%T.
  Proof.
    intros Hc H. apply (proj2 (tlt_sub _ _)). replace (b * c - a * c)%T with ((b - a) * c)%T by ring.
    apply tmul_pos; [exact (proj1 (tlt_sub _ _) H)|assumption].
  Qed.

  Lemma tpos_neq0 a : (0 < a)%T -> a <> 0%T.
  Proof. intros H E. subst a. exact (tlt_irrefl _ H). Qed.

  Lemma two_pos : (0 < 1 + 1)%T.
  Proof.
    apply (tlt_le_trans _ 1%T); [apply tone_pos|].
    replace 1%T with (0 + 1)%T at 1 by ring. apply tadd_le_mono, tzero_le_one.
  Qed.

  Lemma four_pos : (0 < @four T O)%T.
  Proof.
    unfold four. replace 0%T with (0 + 0)%T by ring.
    apply tadd_lt_le; [apply two_pos|apply tlt_le, two_pos].
  Qed.

  Lemma sumf_lt {A} (l : list A) (f g : A -> T) :
    (forall a, In a l -> (f a <= g a)%T) -> (exists a, In a l /\ (f a < g a)%T) ->
    (sumf l f < sumf l g)%T.
  Proof.
    induction l as [|x l IH]; intros Hle (a & Hin & Hlt); [destruct Hin|].
    simpl. destruct Hin as [->|Hin].
    - apply tadd_lt_le; [assumption|]. apply sumf_le. intros b Hb. apply Hle. now right.
    - apply tadd_le_lt; [apply Hle; now left|].
      apply IH; [intros b Hb; apply Hle; now right|]. exists a. now split.
  Qed.

  Context {FL : FieldLaws T}.

  (** dividing by a positive number: [a <= c * b -> a / b <= c] *)
  Lemma tdiv_le_of a b c : (0 < b)%T -> (a <= c * b)%T -> (a / b <= c)%T.
  Proof.
    intros Hb H. destruct (tle_total (a / b)%T c) as [L|L]; [exact L|].
    destruct (tle_lt_or_eq _ _ L) as [Lt|E]; [|rewrite <- E; apply tle_refl].
    exfalso. apply (tmul_lt_mono_pos_r _ _ b Hb) in Lt.
    rewrite (tdiv_mul a b (tpos_neq0 _ Hb)) in Lt.
    apply tlt_iff in Lt. now apply Lt.
  Qed.

  Lemma tdiv_lt_of a b c : (0 < b)%T -> (a < c * b)%T -> (a / b < c)%T.
  Proof.
    intros Hb H. apply tlt_iff. intros L.
    apply (tmul_le_mono_nonneg_r _ _ b (tlt_le _ _ Hb)) in L.
    rewrite (tdiv_mul a b (tpos_neq0 _ Hb)) in L.
    apply tlt_iff in H. now apply H.
  Qed.

  Lemma half_two : ((1 / (1 + 1)) * (1 + 1))%T = 1%T.
  Proof. apply tdiv_mul, tpos_neq0, two_pos. Qed.
End OrderMore.

(** ** the share is at most one half *)
Section Upper.
  Context {T : Type} {O : Ops T} {RL : RingLaws T} {OL : OrderLaws T} {FL : FieldLaws T}
          {NL : NatLaws T} {AL : AcosLaws T}.
  Add Ring TRingPU1 : (@ring_th T O RL).

  Lemma angle_sum_sumf thr (S : list (@vec T)) :
    angle_sum thr S = sumf (seq 0 (length S)) (angle_at thr S).
  Proof. unfold angle_sum. exact (suml_sumf _ _). Qed.

  Lemma sumf_const {A} (l : list A) (c : T) : sumf l (fun _ => c) = (tofnat (length l) * c)%T.
  Proof.
    induction l as [|a l IH]; simpl.
    - rewrite tofnat_zero. ring.
    - rewrite IH, tofnat_succ. ring.
  Qed.

  Lemma angle_at_le_pi thr (S : list (@vec T)) i : (angle_at thr S i <= tpi)%T.
  Proof. unfold angle_at, angle_of. apply tacos_hi. Qed.

  Lemma angle_at_nonneg thr (S : list (@vec T)) i : (0 <= angle_at thr S i)%T.
  Proof. unfold angle_at, angle_of. apply tacos_lo. Qed.

  Lemma tofnat_minus2 n : 2 <= n -> tofnat n = (tofnat (n - 2) + (1 + 1))%T.
  Proof.
    intros H. replace n with (S (S (n - 2))) at 1 by lia. rewrite !tofnat_succ. ring.
  Qed.

  (** angle excess of any vertex list with at least two vertices is at most [2 pi] ... *)
  Lemma excess_le_2pi thr pt (pts : list (@vec T)) :
    2 <= length pts -> (excess thr pt pts <= (1 + 1) * tpi)%T.
  Proof.
    intros Hn. unfold excess. rewrite angle_sum_sumf.
    assert (L : length (on_sphere pt pts) = length pts) by (unfold on_sphere; apply map_length).
    rewrite L.
    apply (proj2 (tle_sub _ _)).
    assert (H : (sumf (seq 0 (length pts)) (angle_at thr (on_sphere pt pts)) <= tofnat (length pts) * tpi)%T).
    { eapply tle_trans; [apply sumf_le; intros i _; apply angle_at_le_pi|].
      rewrite sumf_const, seq_length. apply tle_refl. }
    apply (proj1 (tle_sub _ _)) in H. rewrite (tofnat_minus2 _ Hn) in H.
    match goal with |- (0 <= ?g)%T => match type of H with (0 <= ?h)%T => replace g with h by ring end end.
    exact H.
  Qed.

  (** ... and at least [-(n-2) pi] (every interior angle is non-negative) *)
  Lemma excess_lower thr pt (pts : list (@vec T)) :
    (- (tofnat (length pts - 2) * tpi) <= excess thr pt pts)%T.
  Proof.
    unfold excess. rewrite angle_sum_sumf. apply (proj2 (tle_sub _ _)).
    match goal with |- (0 <= ?g)%T =>
      replace g with (sumf (seq 0 (length (on_sphere pt pts))) (angle_at thr (on_sphere pt pts))) by ring end.
    apply sumf_nonneg. intros i _. apply angle_at_nonneg.
  Qed.

  Lemma pi_four_pos : (0 < tpi * @four T O)%T.
  Proof. apply tmul_pos; [apply tpi_pos|apply four_pos]. Qed.

  Lemma half_pi_four : ((1 / (1 + 1)) * (tpi * @four T O))%T = ((1 + 1) * tpi)%T.
  Proof.
    unfold four.
    replace ((1 / (1 + 1)) * (tpi * ((1 + 1) + (1 + 1))))%T
      with (((1 / (1 + 1)) * (1 + 1)) * ((1 + 1) * tpi))%T by ring.
    rewrite half_two. ring.
  Qed.

  Theorem share_le_half thr pt (pts : list (@vec T)) :
    3 <= length pts -> (pt_solution thr false pt pts <= 1 / (1 + 1))%T.
  Proof.
    intros Hn. unfold pt_solution, source_area.
    apply tdiv_le_of; [apply pi_four_pos|]. rewrite half_pi_four. apply excess_le_2pi. lia.
  Qed.

  (** strict form: some interior angle of the projected polygon is smaller than pi *)
  Lemma excess_lt_2pi thr pt (pts : list (@vec T)) :
    2 <= length pts ->
    (exists i, i < length pts /\ (angle_at thr (on_sphere pt pts) i < tpi)%T) ->
    (excess thr pt pts < (1 + 1) * tpi)%T.
  Proof.
    intros Hn (i & Hi & Hlt). unfold excess. rewrite angle_sum_sumf.
    assert (L : length (on_sphere pt pts) = length pts) by (unfold on_sphere; apply map_length).
    rewrite L. apply (proj2 (tlt_sub _ _)).
    assert (H : (sumf (seq 0 (length pts)) (angle_at thr (on_sphere pt pts)) < tofnat (length pts) * tpi)%T).
    { rewrite <- (seq_length (length pts) 0) at 2. rewrite <- sumf_const.
      apply sumf_lt; [intros a _; apply angle_at_le_pi|].
      exists i. split; [apply in_seq; lia|exact Hlt]. }
    apply (proj1 (tlt_sub _ _)) in H. rewrite (tofnat_minus2 _ Hn) in H.
    match goal with |- (0 < ?g)%T => match type of H with (0 < ?h)%T => replace g with h by ring end end.
    exact H.
  Qed.

  Theorem share_lt_half thr pt (pts : list (@vec T)) :
    3 <= length pts ->
    (exists i, i < length pts /\ (angle_at thr (on_sphere pt pts) i < tpi)%T) ->
    (pt_solution thr false pt pts < 1 / (1 + 1))%T.
  Proof.
    intros Hn Hex. unfold pt_solution, source_area.
    apply tdiv_lt_of; [apply pi_four_pos|]. rewrite half_pi_four. apply excess_lt_2pi; [lia|exact Hex].
  Qed.

  (** the non-degeneracy hypothesis in geometric terms: at some vertex the two tangent
      vectors are not antiparallel *)
  Theorem share_lt_half_tangent {ASL : AcosStrictLaws T} thr pt (pts : list (@vec T)) :
    3 <= length pts ->
    (exists i, i < length pts /\
       let S := on_sphere pt pts in let n := length S in
       (- (1) < vdot (sphere_tangent thr (nthv S i) (nthv S (prev_idx n i)))
                     (sphere_tangent thr (nthv S i) (nthv S (next_idx n i))))%T) ->
    (pt_solution thr false pt pts < 1 / (1 + 1))%T.
  Proof.
    intros Hn (i & Hi & H). apply share_lt_half; [exact Hn|].
    exists i. split; [exact Hi|]. unfold angle_at, angle_of. apply tacos_lt_pi. exact H.
  Qed.

  (** the lower bound that IS provable without spherical geometry *)
  Theorem share_lower_weak thr pt (pts : list (@vec T)) :
    (- (tofnat (length pts - 2) * tpi) <= pt_solution thr false pt pts * (tpi * four))%T.
  Proof.
    unfold pt_solution, source_area. rewrite tdiv_mul by (apply tpos_neq0, pi_four_pos).
    apply excess_lower.
  Qed.
End Upper.

(** ** hidden or back-facing patches: exact zeros *)
Section Hidden.
  Context {T : Type} {O : Ops T}.

  Theorem hidden_zero (sc : @scene T) (s : @source T) j b :
    nthb (src_vis s) j = false -> energy0 sc s j b = 0%T /\ src_dist sc s j = 0%T.
  Proof. intros H. unfold energy0, src_dist. rewrite H. split; reflexivity. Qed.

  Theorem hidden_zero_kernels thr (sc : @scene T) pos vis patches j b :
    nthb vis j = false ->
    s2p_energy thr sc pos vis patches j b = 0%T /\ s2p_dist thr sc pos vis patches j = 0%T /\
    p2r_factor thr pos vis patches j = 0%T.
  Proof.
    intros H. unfold s2p_energy, s2p_dist, p2r_factor, energy0, src_dist, r_factor, source_at, receiver_at.
    simpl. rewrite H. repeat split; reflexivity.
  Qed.

  (** a visible patch receives attenuation times the modelled share *)
  Theorem visible_share thr (sc : @scene T) pos vis patches j b :
    nthb vis j = true -> j < length patches ->
    s2p_energy thr sc pos vis patches j b =
    (attn sc b (vdist pos (center sc j)) * pt_solution thr false pos (nth j patches []))%T.
  Proof.
    intros H Hj. unfold s2p_energy, energy0, src_dist, source_at. simpl. rewrite H.
    f_equal. unfold nthT.
    rewrite nth_indep with (d' := pt_solution thr false pos []) by (rewrite map_length; exact Hj).
    apply map_nth.
  Qed.
End Hidden.
