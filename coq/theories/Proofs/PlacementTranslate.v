(** * C17 (translation): the pipeline model depends on positions only through differences.

    A scene [sc'] is [translated t] from [sc] when every patch centre is shifted by [t] and all
    other fields -- in particular the data produced by the geometry kernels (form factors,
    visibility, areas; the kernels' own translation invariance is C04/C05/C07/C08) -- are the
    same.  Then every stage of [Model/Scene.v] returns the IDENTICAL list: baked factors,
    outgoing-slot map, delay bins, initial energies, patch histograms, the patch-wise and the
    mono receiver curves with and without direct sound.  Commutative-ring laws only
    ([vsub (a + t) (b + t) = vsub a b]). *)
From Coq Require Import List Arith Bool Ring Lia.
Import ListNotations.
From SV Require Import Base.Ops Base.Arr Base.Sums Model.Vec3 Model.Exchange Model.Scene
  Proofs.SceneRefine.

Section TranslateDefs.
  Context {T : Type} {O : Ops T}.

  (** all centres shifted by [t]; everything else equal *)
  Definition translate_scene (t : @vec T) (sc : @scene T) : @scene T :=
    mkScene (s_np sc) (s_nd sc) (s_nb sc) (map (fun c => vadd c t) (s_centers sc))
            (s_areas sc) (s_wall sc) (s_visU sc) (s_F sc) (s_att sc) (s_tables sc) (s_tidx sc)
            (s_in sc) (s_out sc).
  Definition translate_source (t : @vec T) (s : @source T) : @source T :=
    mkSource (vadd (src_pos s) t) (src_vis s) (src_share s) (src_dirfac s).
  Definition translate_receiver (t : @vec T) (r : @receiver T) : @receiver T :=
    mkReceiver (vadd (r_pos r) t) (r_vis r) (r_share r).

  (** the relation the theorems are stated for (any scene whose centres are the shifted ones) *)
  Definition translated (t : @vec T) (sc sc' : @scene T) : Prop :=
    s_np sc' = s_np sc /\ s_nd sc' = s_nd sc /\ s_nb sc' = s_nb sc /\
    s_areas sc' = s_areas sc /\ s_wall sc' = s_wall sc /\ s_visU sc' = s_visU sc /\
    s_F sc' = s_F sc /\ s_att sc' = s_att sc /\ s_tables sc' = s_tables sc /\
    s_tidx sc' = s_tidx sc /\ s_in sc' = s_in sc /\ s_out sc' = s_out sc /\
    forall i, i < s_np sc -> center sc' i = vadd (center sc i) t.

  Lemma translate_scene_translated t sc : s_np sc <= length (s_centers sc) ->
    translated t sc (translate_scene t sc).
  Proof.
    intros Hlen. unfold translated, translate_scene; simpl.
    repeat (split; [reflexivity|]).
    intros i Hi. unfold center, nthv; simpl.
    rewrite nth_indep with (d' := vadd vzero t) by (rewrite map_length; lia).
    exact (map_nth (fun c => vadd c t) (s_centers sc) vzero i).
  Qed.
End TranslateDefs.

Section TranslateRing.
  Context {T : Type} {O : Ops T} {RL : RingLaws T}.
  Add Ring TRingPlT : (@ring_th T O RL).

  Lemma vsub_shift (t a b : @vec T) : vsub (vadd a t) (vadd b t) = vsub a b.
  Proof.
    destruct t as [[t1 t2] t3], a as [[a1 a2] a3], b as [[b1 b2] b3].
    unfold vsub, vadd, mkv, vx, vy, vz; simpl. f_equal; [f_equal|]; ring.
  Qed.
  Lemma vdist_shift (t a b : @vec T) : vdist (vadd a t) (vadd b t) = vdist a b.
  Proof. unfold vdist. now rewrite vsub_shift. Qed.

  Variable t : @vec T.
  Variables sc sc' : @scene T.
  Hypothesis Htr : translated t sc sc'.

  Ltac tr := destruct Htr as (Hnp & Hnd & Hnb & Har & Hw & Hv & HF & Hat & Htb & Hti & Hin & Hout & Hc).

  Lemma tr_wall i : wall sc' i = wall sc i.
  Proof. tr. unfold wall. now rewrite Hw. Qed.
  Lemma tr_vis_sym i j : vis_sym sc' i j = vis_sym sc i j.
  Proof. tr. unfold vis_sym. now rewrite Hv. Qed.
  Lemma tr_ff i j : ff_full sc' i j = ff_full sc i j.
  Proof. tr. unfold ff_full, area. now rewrite HF, Har. Qed.
  Lemma tr_attn b d : attn sc' b d = attn sc b d.
  Proof. tr. unfold attn, att. now rewrite Hat. Qed.
  Lemma tr_beta w a d b : beta sc' w a d b = beta sc w a d b.
  Proof. tr. unfold beta. now rewrite Htb, Hti. Qed.
  Lemma tr_in_dirs w : in_dirs sc' w = in_dirs sc w.
  Proof. tr. unfold in_dirs. now rewrite Hin. Qed.
  Lemma tr_out_dirs w : out_dirs sc' w = out_dirs sc w.
  Proof. tr. unfold out_dirs. now rewrite Hout. Qed.
  Lemma tr_center i : i < s_np sc -> center sc' i = vadd (center sc i) t.
  Proof. tr. apply Hc. Qed.
  Lemma tr_vis_pairs : vis_pairs sc' = vis_pairs sc.
  Proof. tr. unfold vis_pairs. now rewrite Hv, Hnp. Qed.

  (** centre-to-centre quantities *)
  Lemma tr_dist i j : i < s_np sc -> j < s_np sc -> dist sc' i j = dist sc i j.
  Proof. intros Hi Hj. unfold dist. rewrite !tr_center by assumption. apply vdist_shift. Qed.
  Lemma tr_in_index i j : i < s_np sc -> j < s_np sc -> in_index sc' i j = in_index sc i j.
  Proof.
    intros Hi Hj. unfold in_index. now rewrite tr_in_dirs, tr_wall, !tr_center, vsub_shift by assumption.
  Qed.
  Lemma tr_out_index i j : i < s_np sc -> j < s_np sc -> out_index sc' i j = out_index sc i j.
  Proof.
    intros Hi Hj. unfold out_index. now rewrite tr_out_dirs, tr_wall, !tr_center, vsub_shift by assumption.
  Qed.
  Lemma tr_scene_delta tm i j : i < s_np sc -> j < s_np sc ->
    scene_delta sc' tm i j = scene_delta sc tm i j.
  Proof. intros Hi Hj. unfold scene_delta. now rewrite tr_dist. Qed.

  (** baked transfer factors *)
  Theorem tr_tilde_entry i j d b : i < s_np sc -> j < s_np sc ->
    tilde_entry sc' i j d b = tilde_entry sc i j d b.
  Proof.
    intros Hi Hj. unfold tilde_entry.
    now rewrite tr_vis_sym, tr_ff, tr_attn, tr_dist, tr_beta, tr_wall, tr_in_index by assumption.
  Qed.

  (** source side *)
  Variables s s' : @source T.
  Hypothesis Hsrc : src_pos s' = vadd (src_pos s) t /\ src_vis s' = src_vis s /\
                    src_share s' = src_share s /\ src_dirfac s' = src_dirfac s.

  Lemma tr_src_dist j : j < s_np sc -> src_dist sc' s' j = src_dist sc s j.
  Proof.
    intros Hj. destruct Hsrc as (Hp & Hvs & _). unfold src_dist.
    now rewrite Hp, Hvs, tr_center, vdist_shift by assumption.
  Qed.
  Lemma tr_scene_delta0 tm j : j < s_np sc -> scene_delta0 sc' tm s' j = scene_delta0 sc tm s j.
  Proof. intros Hj. unfold scene_delta0. now rewrite tr_src_dist. Qed.
  Lemma tr_src_in_index i : i < s_np sc -> src_in_index sc' s' i = src_in_index sc s i.
  Proof.
    intros Hi. destruct Hsrc as (Hp & _). unfold src_in_index.
    now rewrite Hp, tr_in_dirs, tr_wall, tr_center, vsub_shift by assumption.
  Qed.
  Theorem tr_e0dir_entry i d b : i < s_np sc -> e0dir_entry sc' s' i d b = e0dir_entry sc s i d b.
  Proof.
    intros Hi. unfold e0dir_entry, energy0.
    rewrite tr_src_dist, tr_src_in_index, tr_beta, tr_wall, tr_attn by assumption.
    destruct Hsrc as (_ & Hvs & Hsh & Hdf). now rewrite Hvs, Hsh, Hdf.
  Qed.

  (** the arrays of the pipeline model, as lists *)
  Theorem tr_tilde : tilde sc' = tilde sc.
  Proof.
    pose proof Htr as (Hnp & Hnd & Hnb & _). unfold tilde. rewrite Hnp, Hnd, Hnb.
    apply tab_ext; intros i Hi. apply tab_ext; intros j Hj. apply tab_ext; intros d _.
    apply tab_ext; intros b _. now apply tr_tilde_entry.
  Qed.
  Theorem tr_p2o : p2o sc' = p2o sc.
  Proof.
    pose proof Htr as (Hnp & Hnd & _). unfold p2o. rewrite Hnp, Hnd.
    apply tab_ext; intros i Hi. apply tab_ext; intros j Hj.
    now rewrite tr_vis_sym, tr_out_index.
  Qed.
  Theorem tr_delay_matrix tm : delay_matrix sc' tm = delay_matrix sc tm.
  Proof.
    pose proof Htr as (Hnp & _). unfold delay_matrix. rewrite Hnp.
    apply tab_ext; intros i Hi. apply tab_ext; intros j Hj. now rewrite tr_dist.
  Qed.
  Theorem tr_e0dir : e0dir sc' s' = e0dir sc s.
  Proof.
    pose proof Htr as (Hnp & Hnd & Hnb & _). unfold e0dir. rewrite Hnp, Hnd, Hnb.
    apply tab_ext; intros i Hi. apply tab_ext; intros d _. apply tab_ext; intros b _.
    now apply tr_e0dir_entry.
  Qed.
  Theorem tr_delay0 tm : delay0 sc' tm s' = delay0 sc tm s.
  Proof.
    pose proof Htr as (Hnp & _). unfold delay0. rewrite Hnp.
    apply tab_ext; intros i Hi. now rewrite tr_src_dist.
  Qed.

  (** [calculate_energy_exchange]: the histograms of all patches, slots, bands and bins *)
  Theorem tr_patch_hist tm K : patch_hist sc' tm s' K = patch_hist sc tm s K.
  Proof.
    pose proof Htr as (Hnp & Hnd & Hnb & _). unfold patch_hist.
    now rewrite tr_vis_pairs, Hnp, Hnd, Hnb, tr_e0dir, tr_delay0, tr_tilde, tr_p2o, tr_delay_matrix.
  Qed.

  (** receiver side *)
  Variables r r' : @receiver T.
  Hypothesis Hrcv : r_pos r' = vadd (r_pos r) t /\ r_vis r' = r_vis r /\ r_share r' = r_share r.

  Lemma tr_r_dist k : k < s_np sc -> r_dist sc' r' k = r_dist sc r k.
  Proof.
    intros Hk. destruct Hrcv as (Hp & _). unfold r_dist.
    now rewrite Hp, tr_center, vdist_shift by assumption.
  Qed.
  Lemma tr_r_out_index k : k < s_np sc -> r_out_index sc' r' k = r_out_index sc r k.
  Proof.
    intros Hk. destruct Hrcv as (Hp & _). unfold r_out_index.
    now rewrite Hp, tr_out_dirs, tr_wall, tr_center, vsub_shift by assumption.
  Qed.
  Lemma tr_r_factor k : r_factor r' k = r_factor r k.
  Proof. destruct Hrcv as (_ & Hv & Hs). unfold r_factor. now rewrite Hv, Hs. Qed.

  (** [collect_energy_receiver_patchwise] *)
  Theorem tr_patchwise tm E : patchwise sc' tm E r' = patchwise sc tm E r.
  Proof.
    pose proof Htr as (Hnp & _ & Hnb & _). unfold patchwise. rewrite Hnp, Hnb.
    apply tab_ext; intros k Hk. apply tab_ext; intros b _.
    now rewrite tr_r_dist, tr_r_out_index, tr_r_factor, tr_attn by assumption.
  Qed.

  Lemma tr_mono_of tm pw : mono_of sc' tm pw = mono_of sc tm pw.
  Proof. pose proof Htr as (Hnp & _ & Hnb & _). unfold mono_of. now rewrite Hnp, Hnb. Qed.

  Lemma tr_direct_r : direct_r s' r' = direct_r s r.
  Proof.
    destruct Hsrc as (Hps & _), Hrcv as (Hpr & _). unfold direct_r. now rewrite Hps, Hpr, vsub_shift.
  Qed.

  (** [collect_energy_receiver_mono], with or without the direct sound *)
  Theorem tr_mono tm E direct rdf : mono sc' tm E s' r' direct rdf = mono sc tm E s r direct rdf.
  Proof.
    pose proof Htr as (_ & _ & Hnb & _). unfold mono.
    rewrite tr_mono_of, tr_patchwise, Hnb.
    destruct direct; [|reflexivity].
    apply tab_ext; intros b _. apply tab_ext; intros u _.
    unfold direct_bin, direct_val. rewrite tr_direct_r. destruct rdf; now rewrite tr_attn.
  Qed.
End TranslateRing.

(** ** the same, for the explicit translation functions *)
Section TranslateFunctions.
  Context {T : Type} {O : Ops T} {RL : RingLaws T}.

  Theorem translate_pipeline (t : @vec T) (sc : @scene T) (s : @source T) (r : @receiver T)
      (tm : @timing T) (K : nat) (E : @arr4 T) (direct : bool) (rdf : option (list T)) :
    s_np sc <= length (s_centers sc) ->
    let sc' := translate_scene t sc in
    let s' := translate_source t s in
    let r' := translate_receiver t r in
    tilde sc' = tilde sc /\ p2o sc' = p2o sc /\ delay_matrix sc' tm = delay_matrix sc tm /\
    e0dir sc' s' = e0dir sc s /\ delay0 sc' tm s' = delay0 sc tm s /\
    patch_hist sc' tm s' K = patch_hist sc tm s K /\
    patchwise sc' tm E r' = patchwise sc tm E r /\
    mono sc' tm E s' r' direct rdf = mono sc tm E s r direct rdf.
  Proof.
    intros Hlen sc' s' r'.
    pose proof (translate_scene_translated t sc Hlen) as Htr.
    assert (Hs : src_pos s' = vadd (src_pos s) t /\ src_vis s' = src_vis s /\
                 src_share s' = src_share s /\ src_dirfac s' = src_dirfac s) by (repeat split).
    assert (Hr : r_pos r' = vadd (r_pos r) t /\ r_vis r' = r_vis r /\ r_share r' = r_share r)
      by (repeat split).
    repeat split.
    - exact (tr_tilde t sc sc' Htr).
    - exact (tr_p2o t sc sc' Htr).
    - exact (tr_delay_matrix t sc sc' Htr tm).
    - exact (tr_e0dir t sc sc' Htr s s' Hs).
    - exact (tr_delay0 t sc sc' Htr s s' Hs tm).
    - exact (tr_patch_hist t sc sc' Htr s s' Hs tm K).
    - exact (tr_patchwise t sc sc' Htr r r' Hr tm E).
    - exact (tr_mono t sc sc' Htr s s' Hs r r' Hr tm E direct rdf).
  Qed.
End TranslateFunctions.
