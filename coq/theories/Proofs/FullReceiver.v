(** * C11 on the composed model: the receiver formula of a room, in the room's own data.

    [room_mono rm tm src rcv K direct] is, band for band and bin for bin, the sum over the
    patches that [room_point_vis rm rcv] reports visible of

      patch histogram (slot nearest to the receiver direction) x pt_solution(receiver mode)
        x exp(-m d), delayed by the patch->receiver bins,

    plus the direct sound when [direct].  The delay is the [np.roll] of the code (it wraps:
    known finding C02/C11 receiver_wrap); when the delayed energy of every visible patch fits
    into the histogram it is the truncated shift.  Everything the scene-level theorems of
    [ReceiverProofs.v] leave as fields of the receiver record is unfolded here to what
    [Model/Full.v] puts into it. *)
From Coq Require Import List Arith Bool Ring Lia.
Import ListNotations.
From SV Require Import Base.Ops Base.Arr Base.Sums Model.Vec3 Model.Exchange Model.Scene Model.Frame
  Model.Tiling Model.Visibility Model.PtSolution Model.Full
  Proofs.SceneRefine Proofs.HistProofs Proofs.ReceiverProofs Proofs.FullProofs.

Section RoomData.
  Context {T : Type} {O : Ops T}.
  Variable rm : @room T.
  Variable tm : @timing T.

  (** length of the leg between patch centroid [k] and a point *)
  Definition room_leg (pos : @vec T) (k : nat) : T := vdist (nthv (rm_centers rm) k) pos.
  (** wall of patch [k] *)
  Definition room_patch_wall (k : nat) : nat := nthn (pr_wall_ids (rm_processed rm)) k.
  (** the outgoing direction set of the wall of patch [k]: reference set carried to the wall *)
  Definition room_patch_out_dirs (k : nat) : list (@vec T) :=
    wall_dirs (nthv (rm_normals rm) (room_patch_wall k)) (nthv (rm_ups rm) (room_patch_wall k))
              (rm_ref_out rm).
  (** outgoing slot of patch [k] nearest to the direction of the receiver *)
  Definition room_recv_slot (rcv : @vec T) (k : nat) : nat :=
    nearest (room_patch_out_dirs k) (vnormalize (vsub rcv (nthv (rm_centers rm) k))).
  (** [pt_solution(point, patch_points, mode='receiver')] of patch [k] *)
  Definition room_recv_factor (rcv : @vec T) (k : nat) : T :=
    pt_solution (rm_thr rm) true rcv (nth k (rm_patch_pts rm) []).
  (** [pt_solution(point, patch_points, mode='source')] of patch [k] *)
  Definition room_src_share (src : @vec T) (k : nat) : T :=
    pt_solution (rm_thr rm) false src (nth k (rm_patch_pts rm) []).
  (** air attenuation exp(-m_b d) *)
  Definition room_air (b : nat) (d : T) : T := texp ((- nthT (rm_att rm) b) * d)%T.
  (** patch -> receiver bins (ceiling) and source -> patch bins (truncation) *)
  Definition room_recv_bin (rcv : @vec T) (k : nat) : nat :=
    delay_ceil (room_leg rcv k) (t_c tm) (t_dt tm).
  Definition room_src_bin (src : @vec T) (k : nat) : nat :=
    delay_floor (vdist src (nthv (rm_centers rm) k)) (t_c tm) (t_dt tm).
  (** the patch histograms of the room for a source at [src] *)
  Definition room_hist (src : @vec T) (K : nat) : @arr4 T :=
    patch_hist (room_scene rm) tm (room_source rm src) K.
  (** what patch [k] sends to the receiver in band [b], read from histogram bin [u] *)
  Definition room_recv_term (src rcv : @vec T) (K k b u : nat) : T :=
    ((get4 (room_hist src K) k (room_recv_slot rcv k) b u * room_recv_factor rcv k) *
     room_air b (room_leg rcv k))%T.
  (** the patches seen from a point *)
  Definition room_visible_patches (pos : @vec T) : list nat :=
    filter (fun k => nthb (room_point_vis rm pos) k) (seq 0 (rm_np rm)).
  (** direct sound: bin of r/c and value 1/(4 pi r^2) exp(-m r) *)
  Definition room_direct_bin (src rcv : @vec T) : nat :=
    delay_floor (vnorm (vsub rcv src)) (t_c tm) (t_dt tm).
  Definition room_direct_val (src rcv : @vec T) (b : nat) : T :=
    let rr := vnorm (vsub rcv src) in
    ((1 * (1 / ((four * tpi) * (rr * rr)))) * room_air b rr)%T.
  (** the histogram bin that the cyclic delay of the code shows in bin [t] *)
  Definition rolled_bin (N d t : nat) : nat := (t + (N - d mod N)) mod N.
End RoomData.

Section FullReceiver.
  Context {T : Type} {O : Ops T}.
  Variable rm : @room T.
  Variable tm : @timing T.
  Local Notation sc := (room_scene rm).
  Local Notation N := (n_samples tm).

  Lemma room_np_patches : rm_np rm = length (rm_patch_pts rm).
  Proof. reflexivity. Qed.

  (** ** what [room_receiver] / [room_source] put into the records *)
  Lemma room_r_dist rcv k : r_dist sc (room_receiver rm rcv) k = room_leg rm rcv k.
  Proof. reflexivity. Qed.
  Lemma room_r_delay rcv k : r_delay sc tm (room_receiver rm rcv) k = room_recv_bin rm tm rcv k.
  Proof. reflexivity. Qed.
  Lemma room_attn b d : attn sc b d = room_air rm b d.
  Proof. reflexivity. Qed.

  Lemma room_recv_share_nth rcv k : k < rm_np rm ->
    nthT (r_share (room_receiver rm rcv)) k = room_recv_factor rm rcv k.
  Proof.
    intros Hk. unfold room_receiver, receiver_at, room_recv_factor. cbn [r_share]. unfold nthT.
    rewrite nth_indep with (d' := pt_solution (rm_thr rm) true rcv [])
      by (rewrite map_length; exact Hk).
    apply (map_nth (pt_solution (rm_thr rm) true rcv)).
  Qed.
  Lemma room_src_share_nth src k : k < rm_np rm ->
    nthT (src_share (room_source rm src)) k = room_src_share rm src k.
  Proof.
    intros Hk. unfold room_source, source_at, room_src_share. cbn [src_share]. unfold nthT.
    rewrite nth_indep with (d' := pt_solution (rm_thr rm) false src [])
      by (rewrite map_length; exact Hk).
    apply (map_nth (pt_solution (rm_thr rm) false src)).
  Qed.

  Lemma room_r_factor rcv k : k < rm_np rm ->
    r_factor (room_receiver rm rcv) k =
    if nthb (room_point_vis rm rcv) k then room_recv_factor rm rcv k else 0%T.
  Proof.
    intros Hk. unfold r_factor. rewrite (room_recv_share_nth rcv k Hk). reflexivity.
  Qed.

  (** the direction set stored for the wall of patch [k] is the reference set in that wall's frame *)
  Lemma room_out_dirs k : k < rm_np rm ->
    out_dirs sc (wall sc k) = room_patch_out_dirs rm k.
  Proof.
    intros Hk. pose proof (room_wall_lt rm k Hk) as Hw.
    unfold out_dirs, room_patch_out_dirs. cbn [s_out room_scene].
    change (wall sc k) with (room_patch_wall rm k) in *.
    rewrite nth_indep with (d' := wall_dirs (nthv (rm_normals rm) 0) (nthv (rm_ups rm) 0) (rm_ref_out rm))
      by (rewrite map_length, seq_length; exact Hw).
    rewrite (map_nth (fun w => wall_dirs (nthv (rm_normals rm) w) (nthv (rm_ups rm) w) (rm_ref_out rm))).
    now rewrite seq_nth by exact Hw.
  Qed.
  Lemma room_in_dirs k : k < rm_np rm ->
    in_dirs sc (wall sc k) =
    wall_dirs (nthv (rm_normals rm) (room_patch_wall rm k)) (nthv (rm_ups rm) (room_patch_wall rm k))
              (rm_ref_in rm).
  Proof.
    intros Hk. pose proof (room_wall_lt rm k Hk) as Hw.
    unfold in_dirs. cbn [s_in room_scene].
    change (wall sc k) with (room_patch_wall rm k) in *.
    rewrite nth_indep with (d' := wall_dirs (nthv (rm_normals rm) 0) (nthv (rm_ups rm) 0) (rm_ref_in rm))
      by (rewrite map_length, seq_length; exact Hw).
    rewrite (map_nth (fun w => wall_dirs (nthv (rm_normals rm) w) (nthv (rm_ups rm) w) (rm_ref_in rm))).
    now rewrite seq_nth by exact Hw.
  Qed.

  Lemma room_r_out_index rcv k : k < rm_np rm ->
    r_out_index sc (room_receiver rm rcv) k = room_recv_slot rm rcv k.
  Proof.
    intros Hk. unfold r_out_index, room_recv_slot. rewrite (room_out_dirs k Hk). reflexivity.
  Qed.

  (** the scene-level receiver term of a visible patch is the room-level term *)
  Lemma room_r_term src rcv K k b u : k < rm_np rm ->
    r_term sc (room_hist rm tm src K) (room_receiver rm rcv) k b u =
    if nthb (room_point_vis rm rcv) k then room_recv_term rm tm src rcv K k b u else
      ((get4 (room_hist rm tm src K) k (room_recv_slot rm rcv k) b u * 0) *
       room_air rm b (room_leg rm rcv k))%T.
  Proof.
    intros Hk. unfold r_term, room_recv_term.
    rewrite (room_r_out_index rcv k Hk), (room_r_factor rcv k Hk), room_r_dist, room_attn.
    destruct (nthb (room_point_vis rm rcv) k); reflexivity.
  Qed.

  Lemma room_mono_unfold src rcv K direct :
    room_mono rm tm src rcv K direct =
    mono sc tm (room_hist rm tm src K) (room_source rm src) (room_receiver rm rcv) direct None.
  Proof. reflexivity. Qed.

  Lemma room_direct_bin_eq src rcv :
    direct_bin tm (room_source rm src) (room_receiver rm rcv) = room_direct_bin tm src rcv.
  Proof. reflexivity. Qed.
  Lemma room_direct_val_eq src rcv b :
    direct_val sc (room_source rm src) (room_receiver rm rcv) None b = room_direct_val rm src rcv b.
  Proof. reflexivity. Qed.

  Section WithRing.
    Context {RL : RingLaws T}.
    Add Ring TRingFRcv : (@ring_th T O RL).

    (** reflections only: sum over the visible patches, cyclic delay as in the code *)
    Lemma room_reflections_roll src rcv K b t : b < rm_nb rm -> t < N ->
      get2 (room_mono rm tm src rcv K false) b t =
      sumf (room_visible_patches rm rcv) (fun k =>
        room_recv_term rm tm src rcv K k b (rolled_bin N (room_recv_bin rm tm rcv k) t)).
    Proof.
      intros Hb Ht. rewrite room_mono_unfold. unfold mono.
      rewrite (mono_is_sum sc tm _ b t Hb Ht).
      unfold room_visible_patches. rewrite sumf_filter. cbn [s_np room_scene].
      apply sumf_ext. intros k Hk. apply in_seq in Hk. rewrite Nat.add_0_l in Hk. destruct Hk as [_ Hk].
      destruct (nthb (room_point_vis rm rcv) k) eqn:Hv.
      - rewrite (patchwise_entry sc tm _ _ k b t Hk Hb Ht).
        rewrite room_r_delay, (room_r_term src rcv K k b _ Hk), Hv. reflexivity.
      - exact (patchwise_hidden sc tm _ (room_receiver rm rcv) k b t Hv).
    Qed.

    (** the delayed energy of every VISIBLE patch fits into the histogram *)
    Definition room_recv_fits (src rcv : @vec T) (K b : nat) : Prop :=
      forall k, k < rm_np rm -> nthb (room_point_vis rm rcv) k = true ->
        room_recv_bin rm tm rcv k < N /\
        forall u, N - room_recv_bin rm tm rcv k <= u -> u < N ->
          get4 (room_hist rm tm src K) k (room_recv_slot rm rcv k) b u = 0%T.

    (** reflections only, when the delayed energy fits: truncated shift *)
    Lemma room_reflections_fits src rcv K b t : b < rm_nb rm -> t < N ->
      room_recv_fits src rcv K b ->
      get2 (room_mono rm tm src rcv K false) b t =
      sumf (room_visible_patches rm rcv) (fun k =>
        if t <? room_recv_bin rm tm rcv k then 0%T
        else room_recv_term rm tm src rcv K k b (t - room_recv_bin rm tm rcv k)).
    Proof.
      intros Hb Ht HF. rewrite room_mono_unfold. unfold mono.
      rewrite (mono_is_sum sc tm _ b t Hb Ht).
      unfold room_visible_patches. rewrite sumf_filter. cbn [s_np room_scene].
      apply sumf_ext. intros k Hk. apply in_seq in Hk. rewrite Nat.add_0_l in Hk. destruct Hk as [_ Hk].
      destruct (nthb (room_point_vis rm rcv) k) eqn:Hv.
      - destruct (HF k Hk Hv) as [Hd Hz].
        rewrite (patchwise_fits sc tm _ (room_receiver rm rcv) k b t Hk Hb Ht).
        + rewrite room_r_delay. destruct (t <? room_recv_bin rm tm rcv k); [reflexivity|].
          rewrite (room_r_term src rcv K k b _ Hk), Hv. reflexivity.
        + rewrite room_r_delay. exact Hd.
        + intros u H1 H2. rewrite room_r_delay in H1. rewrite (room_r_out_index rcv k Hk).
          exact (Hz u H1 H2).
      - exact (patchwise_hidden sc tm _ (room_receiver rm rcv) k b t Hv).
    Qed.

    Lemma room_direct_split src rcv K direct b t : b < rm_nb rm -> t < N ->
      get2 (room_mono rm tm src rcv K direct) b t =
      (get2 (room_mono rm tm src rcv K false) b t +
       (if direct && (t =? room_direct_bin tm src rcv) then room_direct_val rm src rcv b else 0))%T.
    Proof.
      intros Hb Ht. destruct direct.
      - rewrite !room_mono_unfold. rewrite (mono_direct sc tm _ _ _ None b t Hb Ht).
        rewrite room_direct_bin_eq, room_direct_val_eq. reflexivity.
      - cbn [andb]. ring.
    Qed.

    (** C11 on the composed model, as the code computes it *)
    Theorem room_receiver_formula src rcv K direct b t : b < rm_nb rm -> t < N ->
      get2 (room_mono rm tm src rcv K direct) b t =
      (sumf (room_visible_patches rm rcv) (fun k =>
         room_recv_term rm tm src rcv K k b (rolled_bin N (room_recv_bin rm tm rcv k) t)) +
       (if direct && (t =? room_direct_bin tm src rcv) then room_direct_val rm src rcv b else 0))%T.
    Proof.
      intros Hb Ht. rewrite (room_direct_split src rcv K direct b t Hb Ht).
      now rewrite (room_reflections_roll src rcv K b t Hb Ht).
    Qed.

    (** ... and with the delay as a truncated shift when the delayed energy fits *)
    Theorem room_receiver_formula_fits src rcv K direct b t : b < rm_nb rm -> t < N ->
      room_recv_fits src rcv K b ->
      get2 (room_mono rm tm src rcv K direct) b t =
      (sumf (room_visible_patches rm rcv) (fun k =>
         if t <? room_recv_bin rm tm rcv k then 0%T
         else room_recv_term rm tm src rcv K k b (t - room_recv_bin rm tm rcv k)) +
       (if direct && (t =? room_direct_bin tm src rcv) then room_direct_val rm src rcv b else 0))%T.
    Proof.
      intros Hb Ht HF. rewrite (room_direct_split src rcv K direct b t Hb Ht).
      now rewrite (room_reflections_fits src rcv K b t Hb Ht HF).
    Qed.
  End WithRing.
End FullReceiver.
