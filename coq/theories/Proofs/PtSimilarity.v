(** * Invariance of the point-to-patch share under translation, linear isometries and
    uniform positive scaling (C04). *)
From Coq Require Import List Arith Bool Ring Lia.
Import ListNotations.
From SV Require Import Base.Ops Base.OpsGeom Base.Arr Base.Sums
  Model.Vec3 Model.Exchange Model.Scene Model.PtSolution Spec.Isometry Proofs.PtUpper.

Ltac vec_unfold :=
  unfold mapply, mrow1, mrow2, mrow3, mcol1, mcol2, mcol3, tangent_raw,
         vnorm2, vsub, vadd, vscale, vdivs, vcross, vdot, mkv, vx, vy, vz in *; simpl in *.
Ltac vec3 v := let a := fresh v "1" in let b := fresh v "2" in let c := fresh v "3" in
  destruct v as [[a b] c].

(** ** generic list helpers (no extensionality axiom) *)
Section ListHelpers.
  Lemma fold_left_ext_all {A B} (f g : A -> B -> A) (l : list B) (a : A) :
    (forall x y, f x y = g x y) -> fold_left f l a = fold_left g l a.
  Proof. intros H. revert a. induction l as [|b l IH]; intros a; simpl; [reflexivity|]. now rewrite H, IH. Qed.

  Lemma fold_left_map_in {A B C} (f : A -> C -> A) (h : B -> C) (l : list B) (a : A) :
    fold_left f (map h l) a = fold_left (fun acc x => f acc (h x)) l a.
  Proof. revert a. induction l as [|b l IH]; intros a; simpl; [reflexivity|]. now rewrite IH. Qed.

  Lemma tl_map {A B} (f : A -> B) (l : list A) : tl (map f l) = map f (tl l).
  Proof. destruct l; reflexivity. Qed.

  Lemma combine_map_both {A B} (f : A -> B) (l1 l2 : list A) :
    combine (map f l1) (map f l2) = map (fun pr => (f (fst pr), f (snd pr))) (combine l1 l2).
  Proof.
    revert l2. induction l1 as [|a l1 IH]; intros [|b l2]; simpl; try reflexivity. now rewrite IH.
  Qed.
End ListHelpers.

(** ** any vertex map that preserves triangle areas preserves [poly_area] *)
Section AreaMap.
  Context {T : Type} {O : Ops T}.

  Lemma poly_area_map (f : @vec T -> @vec T) (pts : list (@vec T)) :
    (forall a b c, tri_area (f a) (f b) (f c) = tri_area a b c) ->
    poly_area (map f pts) = poly_area pts.
  Proof.
    intros H. destruct pts as [|p0 r]; [reflexivity|]. simpl map. unfold poly_area.
    rewrite tl_map, combine_map_both, fold_left_map_in.
    apply fold_left_ext_all. intros x [a b]. simpl. now rewrite H.
  Qed.
End AreaMap.

(** ** translation of point and patch (commutative ring) *)
Section Translate.
  Context {T : Type} {O : Ops T} {RL : RingLaws T}.
  Add Ring TRingSimT : (@ring_th T O RL).

  Lemma vsub_translate (t a b : @vec T) : vsub (vadd a t) (vadd b t) = vsub a b.
  Proof. vec3 t; vec3 a; vec3 b. vec_unfold. f_equal; [f_equal|]; ring. Qed.

  Lemma to_sphere_translate (t pt p : @vec T) : to_sphere (vadd pt t) (vadd p t) = to_sphere pt p.
  Proof. unfold to_sphere. now rewrite vsub_translate. Qed.

  Lemma on_sphere_translate (t pt : @vec T) pts :
    on_sphere (vadd pt t) (map (fun p => vadd p t) pts) = on_sphere pt pts.
  Proof. unfold on_sphere. rewrite map_map. apply map_ext. intros p. apply to_sphere_translate. Qed.

  Lemma excess_translate thr (t pt : @vec T) pts :
    excess thr (vadd pt t) (map (fun p => vadd p t) pts) = excess thr pt pts.
  Proof. unfold excess. now rewrite on_sphere_translate, map_length. Qed.

  Lemma tri_area_translate (t a b c : @vec T) :
    tri_area (vadd a t) (vadd b t) (vadd c t) = tri_area a b c.
  Proof. unfold tri_area. now rewrite !vsub_translate. Qed.

  Theorem pt_solution_translate thr recv (t pt : @vec T) pts :
    pt_solution thr recv (vadd pt t) (map (fun p => vadd p t) pts) = pt_solution thr recv pt pts.
  Proof.
    unfold pt_solution, source_area. rewrite excess_translate.
    destruct recv; [|reflexivity].
    rewrite (poly_area_map (fun p => vadd p t)); [reflexivity|]. intros a b c. apply tri_area_translate.
  Qed.
End Translate.

(** ** linear isometries [M^T M = I] (commutative ring + division as multiplication by 1/b) *)
Section Isometries.
  Context {T : Type} {O : Ops T} {RL : RingLaws T} {DL : DivLaws T}.
  Add Ring TRingSimI : (@ring_th T O RL).

  Variable M : @mat T.
  Hypothesis HM : orthogonal M.

  Lemma mdot (u v : @vec T) : vdot (mapply M u) (mapply M v) = vdot u v.
  Proof.
    destruct HM as (H11 & H22 & H33 & H12 & H13 & H23).
    assert (E : vdot (mapply M u) (mapply M v) =
      (vdot (mcol1 M) (mcol1 M) * (vx u * vx v) + vdot (mcol2 M) (mcol2 M) * (vy u * vy v) +
       vdot (mcol3 M) (mcol3 M) * (vz u * vz v) +
       vdot (mcol1 M) (mcol2 M) * (vx u * vy v + vy u * vx v) +
       vdot (mcol1 M) (mcol3 M) * (vx u * vz v + vz u * vx v) +
       vdot (mcol2 M) (mcol3 M) * (vy u * vz v + vz u * vy v))%T).
    { clear H11 H22 H33 H12 H13 H23 HM. destruct M as [[r1 r2] r3]. vec3 r1; vec3 r2; vec3 r3; vec3 u; vec3 v.
      vec_unfold. ring. }
    rewrite E, H11, H22, H33, H12, H13, H23. vec3 u; vec3 v. vec_unfold. ring.
  Qed.

  Lemma msub (u v : @vec T) : mapply M (vsub u v) = vsub (mapply M u) (mapply M v).
  Proof.
    clear HM. destruct M as [[r1 r2] r3]. vec3 r1; vec3 r2; vec3 r3; vec3 u; vec3 v.
    vec_unfold. f_equal; [f_equal|]; ring.
  Qed.

  Lemma mscale c (v : @vec T) : mapply M (vscale c v) = vscale c (mapply M v).
  Proof.
    clear HM. destruct M as [[r1 r2] r3]. vec3 r1; vec3 r2; vec3 r3; vec3 v.
    vec_unfold. f_equal; [f_equal|]; ring.
  Qed.

  Lemma mzero : mapply M vzero = vzero.
  Proof.
    clear HM. destruct M as [[r1 r2] r3]. vec3 r1; vec3 r2; vec3 r3.
    unfold vzero. vec_unfold. f_equal; [f_equal|]; ring.
  Qed.

  Lemma mdivs (v : @vec T) c : mapply M (vdivs v c) = vdivs (mapply M v) c.
  Proof.
    clear HM. destruct M as [[r1 r2] r3]. vec3 r1; vec3 r2; vec3 r3; vec3 v.
    vec_unfold.
    assert (Hk : forall a : T, (a / c)%T = (a * (1 / c))%T) by (intros a; apply tdiv_inv).
    set (k := (1 / c)%T) in Hk. clearbody k. rewrite !Hk. f_equal; [f_equal|]; ring.
  Qed.

  Lemma vnorm_iso (v : @vec T) : vnorm (mapply M v) = vnorm v.
  Proof. unfold vnorm, vnorm2. now rewrite mdot. Qed.

  Lemma vnormalize_iso (v : @vec T) : vnormalize (mapply M v) = mapply M (vnormalize v).
  Proof. unfold vnormalize. rewrite vnorm_iso. symmetry. apply mdivs. Qed.

  Lemma tangent_raw_iso (u v : @vec T) :
    tangent_raw (mapply M u) (mapply M v) = mapply M (tangent_raw u v).
  Proof.
    unfold tangent_raw. cbv zeta. rewrite <- msub, !mdot, <- mscale, <- msub. reflexivity.
  Qed.

  Lemma sphere_tangent_iso thr (u v : @vec T) :
    sphere_tangent thr (mapply M u) (mapply M v) = mapply M (sphere_tangent thr u v).
  Proof.
    unfold sphere_tangent. rewrite mdot. destruct (tltb thr (tabs (vdot u v))).
    - rewrite tangent_raw_iso. apply vnormalize_iso.
    - apply vnormalize_iso.
  Qed.

  Lemma angle_of_iso thr (c a b : @vec T) :
    angle_of thr (mapply M c) (mapply M a) (mapply M b) = angle_of thr c a b.
  Proof. unfold angle_of. now rewrite !sphere_tangent_iso, mdot. Qed.

  Lemma to_sphere_iso (pt p : @vec T) :
    to_sphere (mapply M pt) (mapply M p) = mapply M (to_sphere pt p).
  Proof. unfold to_sphere. rewrite <- msub. apply vnormalize_iso. Qed.

  Lemma on_sphere_iso (pt : @vec T) pts :
    on_sphere (mapply M pt) (map (mapply M) pts) = map (mapply M) (on_sphere pt pts).
  Proof. unfold on_sphere. rewrite !map_map. apply map_ext. intros p. apply to_sphere_iso. Qed.

  Lemma nthv_map_iso (P : list (@vec T)) i : nthv (map (mapply M) P) i = mapply M (nthv P i).
  Proof.
    unfold nthv. transitivity (nth i (map (mapply M) P) (mapply M vzero)).
    - now rewrite mzero.
    - apply map_nth.
  Qed.

  Lemma angle_at_iso thr (P : list (@vec T)) i : angle_at thr (map (mapply M) P) i = angle_at thr P i.
  Proof. unfold angle_at. rewrite map_length, !nthv_map_iso. apply angle_of_iso. Qed.

  Lemma angle_sum_iso thr (P : list (@vec T)) : angle_sum thr (map (mapply M) P) = angle_sum thr P.
  Proof.
    unfold angle_sum. rewrite map_length. apply fold_left_ext_all. intros x i. now rewrite angle_at_iso.
  Qed.

  Lemma excess_iso thr (pt : @vec T) pts :
    excess thr (mapply M pt) (map (mapply M) pts) = excess thr pt pts.
  Proof. unfold excess. now rewrite on_sphere_iso, angle_sum_iso, map_length. Qed.

  (** Lagrange's identity [|a x b|^2 = |a|^2 |b|^2 - (a.b)^2] turns the area into dot products *)
  Lemma lagrange (a b : @vec T) :
    vnorm2 (vcross a b) = (vnorm2 a * vnorm2 b - vdot a b * vdot a b)%T.
  Proof. vec3 a; vec3 b. vec_unfold. ring. Qed.

  Lemma vnorm_cross_iso (a b : @vec T) :
    vnorm (vcross (mapply M a) (mapply M b)) = vnorm (vcross a b).
  Proof. unfold vnorm. rewrite !lagrange. unfold vnorm2. now rewrite !mdot. Qed.

  Lemma tri_area_iso (a b c : @vec T) :
    tri_area (mapply M a) (mapply M b) (mapply M c) = tri_area a b c.
  Proof. unfold tri_area. now rewrite <- !msub, vnorm_cross_iso. Qed.

  Theorem pt_solution_iso thr recv (pt : @vec T) pts :
    pt_solution thr recv (mapply M pt) (map (mapply M) pts) = pt_solution thr recv pt pts.
  Proof.
    unfold pt_solution, source_area. rewrite excess_iso.
    destruct recv; [|reflexivity].
    rewrite (poly_area_map (mapply M)); [reflexivity|]. intros a b c. apply tri_area_iso.
  Qed.
End Isometries.

(** ** uniform positive scaling (ordered field with square roots) *)
Section Scaling.
  Context {T : Type} {O : Ops T} {RL : RingLaws T} {OL : OrderLaws T} {FL : FieldLaws T}
          {SL : SqrtLaws T}.
  Add Ring TRingSimS : (@ring_th T O RL).

  Lemma sq_pos_of_neq0 a : a <> 0%T -> (0 < a * a)%T.
  Proof.
    intros Ha. destruct (tle_total 0%T a) as [H|H].
    - destruct (tle_lt_or_eq _ _ H) as [L|E]; [now apply tmul_pos|congruence].
    - assert (N : (0 <= - a)%T) by now apply topp_nonneg.
      destruct (tle_lt_or_eq _ _ N) as [L|E].
      + replace (a * a)%T with ((- a) * (- a))%T by ring. now apply tmul_pos.
      + exfalso. apply Ha. replace a with (- - a)%T by ring. rewrite <- E. ring.
  Qed.

  (** an ordered ring has no zero divisors *)
  Lemma tmul_eq0 a b : (a * b)%T = 0%T -> a = 0%T \/ b = 0%T.
  Proof.
    intros H. destruct (teqb a 0%T) eqn:Ea; [left; now apply teqb_spec|].
    destruct (teqb b 0%T) eqn:Eb; [right; now apply teqb_spec|].
    exfalso.
    assert (Ha : a <> 0%T) by (intros E; apply teqb_spec in E; congruence).
    assert (Hb : b <> 0%T) by (intros E; apply teqb_spec in E; congruence).
    pose proof (tmul_pos _ _ (sq_pos_of_neq0 a Ha) (sq_pos_of_neq0 b Hb)) as P.
    replace ((a * a) * (b * b))%T with ((a * b) * (a * b))%T in P by ring.
    rewrite H in P. replace (0 * 0)%T with 0%T in P by ring. exact (tlt_irrefl _ P).
  Qed.

  Lemma sub_eq0 a b : (a - b)%T = 0%T -> a = b.
  Proof. intros H. replace a with ((a - b) + b)%T by ring. rewrite H. ring. Qed.

  (** non-negative square roots are unique *)
  Lemma sq_inj_nonneg a b : (0 <= a)%T -> (0 <= b)%T -> (a * a)%T = (b * b)%T -> a = b.
  Proof.
    intros Ha Hb H.
    assert (E : ((a - b) * (a + b))%T = 0%T) by (replace ((a - b) * (a + b))%T with (a * a - b * b)%T by ring; rewrite H; ring).
    destruct (tmul_eq0 _ _ E) as [E1|E2]; [now apply sub_eq0|].
    (* a + b = 0 with both non-negative: both are 0 *)
    assert (Ha0 : a = 0%T).
    { assert (Hnb : (- b <= - 0)%T) by now apply topp_le.
      replace (- 0)%T with 0%T in Hnb by ring.
      assert (Eab : a = (- b)%T) by (replace a with ((a + b) + - b)%T by ring; rewrite E2; ring).
      apply tle_antisym; [rewrite Eab; exact Hnb|exact Ha]. }
    subst a. replace (0 + b)%T with b in E2 by ring. now subst b.
  Qed.

  Lemma sqrt_scale s x : (0 <= s)%T -> (0 <= x)%T -> tsqrt ((s * s) * x)%T = (s * tsqrt x)%T.
  Proof.
    intros Hs Hx.
    assert (Hsx : (0 <= (s * s) * x)%T) by (apply tmul_nonneg; [apply tsq_nonneg|exact Hx]).
    apply sq_inj_nonneg.
    - now apply tsqrt_nonneg.
    - apply tmul_nonneg; [exact Hs|now apply tsqrt_nonneg].
    - rewrite (tsqrt_sq _ Hsx).
      replace ((s * tsqrt x) * (s * tsqrt x))%T with ((s * s) * (tsqrt x * tsqrt x))%T by ring.
      now rewrite (tsqrt_sq _ Hx).
  Qed.

  Lemma sqrt_pos x : (0 < x)%T -> tsqrt x <> 0%T.
  Proof.
    intros Hx E. pose proof (tsqrt_sq x (tlt_le _ _ Hx)) as Q. rewrite E in Q.
    replace (0 * 0)%T with 0%T in Q by ring. rewrite <- Q in Hx. exact (tlt_irrefl _ Hx).
  Qed.

  (** cancelling a common non-zero factor of a quotient *)
  Lemma tdiv_cancel s a c : s <> 0%T -> c <> 0%T -> ((s * a) / (s * c))%T = (a / c)%T.
  Proof.
    intros Hs Hc.
    assert (Hsc : (s * c)%T <> 0%T) by (intros E; destruct (tmul_eq0 _ _ E); contradiction).
    apply sub_eq0.
    assert (E : ((((s * a) / (s * c)) - a / c) * (s * c))%T = 0%T).
    { replace ((((s * a) / (s * c)) - a / c) * (s * c))%T
        with ((((s * a) / (s * c)) * (s * c)) - s * ((a / c) * c))%T by ring.
      rewrite (tdiv_mul _ _ Hsc), (tdiv_mul _ _ Hc). ring. }
    destruct (tmul_eq0 _ _ E) as [E1|E2]; [exact E1|contradiction].
  Qed.

  Lemma vsub_scale s (a b : @vec T) : vsub (vscale s a) (vscale s b) = vscale s (vsub a b).
  Proof. vec3 a; vec3 b. vec_unfold. f_equal; [f_equal|]; ring. Qed.

  Lemma vnorm_scale s (d : @vec T) : (0 <= s)%T -> (0 <= vnorm2 d)%T -> vnorm (vscale s d) = (s * vnorm d)%T.
  Proof.
    intros Hs Hd. unfold vnorm.
    replace (vnorm2 (vscale s d)) with ((s * s) * vnorm2 d)%T by (vec3 d; vec_unfold; ring).
    now apply sqrt_scale.
  Qed.

  Lemma vnormalize_scale s (d : @vec T) :
    (0 < s)%T -> (0 < vnorm2 d)%T -> vnormalize (vscale s d) = vnormalize d.
  Proof.
    intros Hs Hd. unfold vnormalize.
    rewrite (vnorm_scale s d (tlt_le _ _ Hs) (tlt_le _ _ Hd)).
    assert (Hn : vnorm d <> 0%T) by (apply sqrt_pos; exact Hd).
    assert (Hs0 : s <> 0%T) by now apply tpos_neq0.
    generalize dependent (vnorm d). intros c Hc. vec3 d. unfold vdivs, vscale, mkv, vx, vy, vz. simpl.
    now rewrite !(tdiv_cancel s _ c Hs0 Hc).
  Qed.

  Lemma to_sphere_scale s (pt p : @vec T) :
    (0 < s)%T -> (0 < vnorm2 (vsub p pt))%T -> to_sphere (vscale s pt) (vscale s p) = to_sphere pt p.
  Proof. intros Hs Hd. unfold to_sphere. rewrite vsub_scale. now apply vnormalize_scale. Qed.

  Lemma on_sphere_scale s (pt : @vec T) pts :
    (0 < s)%T -> (forall p, In p pts -> (0 < vnorm2 (vsub p pt))%T) ->
    on_sphere (vscale s pt) (map (vscale s) pts) = on_sphere pt pts.
  Proof.
    intros Hs H. unfold on_sphere. rewrite map_map. apply map_ext_in. intros p Hp.
    apply to_sphere_scale; [exact Hs|now apply H].
  Qed.

  Theorem pt_solution_scale thr s (pt : @vec T) pts :
    (0 < s)%T -> (forall p, In p pts -> (0 < vnorm2 (vsub p pt))%T) ->
    pt_solution thr false (vscale s pt) (map (vscale s) pts) = pt_solution thr false pt pts.
  Proof.
    intros Hs H. unfold pt_solution, excess. now rewrite (on_sphere_scale s pt pts Hs H), map_length.
  Qed.
End Scaling.
