(** * The patch subdivision is an exact congruent tiling (proofs for C08). *)
From Coq Require Import List Arith Bool Ring Lia.
Import ListNotations.
From SV Require Import Base.Ops Base.Arr Base.Sums Model.Vec3 Model.Tiling
  Proofs.OrderField Proofs.TilingLists.

(** ** Vocabulary of the statements *)
Section Vocabulary.
  Context {T : Type} {O : Ops T}.

  (** in-plane axes of a wall whose flat axis is [f] (what the if-cascade selects) *)
  Definition plane_axes (f : nat) : nat * nat :=
    match f with 0 => (1, 2) | 1 => (0, 2) | _ => (0, 1) end.
  Definition px (f : nat) : nat := fst (plane_axes f).
  Definition py (f : nat) : nat := snd (plane_axes f).

  (** all four vertices have coordinate [c] on axis [f] *)
  Definition planar (q : @quad T) (f : nat) (c : T) : Prop :=
    forall v, In v (verts q) -> vget v f = c.

  (** [P] is the axis-aligned rectangle [xl,xh] x [yl,yh] on the axes [xi],[yi], vertices in the
      order lower-left, lower-right, upper-right, upper-left *)
  Definition is_rect (xi yi : nat) (P : @quad T) (xl xh yl yh : T) : Prop :=
    (vget (q0 P) xi = xl /\ vget (q0 P) yi = yl) /\
    (vget (q1 P) xi = xh /\ vget (q1 P) yi = yl) /\
    (vget (q2 P) xi = xh /\ vget (q2 P) yi = yh) /\
    (vget (q3 P) xi = xl /\ vget (q3 P) yi = yh).
  (** vertex [k] of [P] has the coordinate of vertex [k] of [q] on axis [f] *)
  Definition flat_kept (f : nat) (q P : @quad T) : Prop :=
    vget (q0 P) f = vget (q0 q) f /\ vget (q1 P) f = vget (q1 q) f /\
    vget (q2 P) f = vget (q2 q) f /\ vget (q3 P) f = vget (q3 q) f.

  (** open / closed cell spanned by vertex 0 (lower-left) and vertices 1, 3 *)
  Definition in_interior (xi yi : nat) (P : @quad T) (x y : T) : Prop :=
    (vget (q0 P) xi < x)%T /\ (x < vget (q1 P) xi)%T /\ (vget (q0 P) yi < y)%T /\ (y < vget (q3 P) yi)%T.
  Definition in_closed (xi yi : nat) (P : @quad T) (x y : T) : Prop :=
    (vget (q0 P) xi <= x)%T /\ (x <= vget (q1 P) xi)%T /\ (vget (q0 P) yi <= y)%T /\ (y <= vget (q3 P) yi)%T.
  Definition rect_area (xi yi : nat) (P : @quad T) : T :=
    ((vget (q1 P) xi - vget (q0 P) xi) * (vget (q3 P) yi - vget (q0 P) yi))%T.

  (** the hypotheses of the property: a wall lying in the plane [axis f = c] whose extents on the
      two other axes are at least the patch size [p > 0] *)
  Definition wall_ok (q : @quad T) (p : T) (f : nat) (c : T) : Prop :=
    f < 3 /\ planar q f c /\ (0 < p)%T /\ (p <= size q (px f))%T /\ (p <= size q (py f))%T.

  (** grid line [i]: [x_min + i * real_size], the expression of the code *)
  Definition gline (x0 r : T) (i : nat) : T := (x0 + tofnat i * r)%T.

  Definition dquad : @quad T := mkQuad vzero vzero vzero vzero.

  (** translation of a wall, and the reorderings of its vertices *)
  Definition translate_quad (t : @vec T) (q : @quad T) : @quad T :=
    mkQuad (vadd (q0 q) t) (vadd (q1 q) t) (vadd (q2 q) t) (vadd (q3 q) t).
  Definition rot_quad (q : @quad T) : @quad T := mkQuad (q1 q) (q2 q) (q3 q) (q0 q).
  Definition rev_quad (q : @quad T) : @quad T := mkQuad (q0 q) (q3 q) (q2 q) (q1 q).
  (** the 8 vertex orders: [o mod 4] rotations of the wall ([o < 4]) or of its reversal *)
  Definition reorder (o : nat) (q : @quad T) : @quad T :=
    Nat.iter (o mod 4) rot_quad (if o <? 4 then q else rev_quad q).
End Vocabulary.

(** ** Coordinates: reading back what was written *)
Section Coords.
  Context {T : Type} {O : Ops T}.

  Lemma vget_vset_same (v : @vec T) a x : vget (vset v a x) a = x.
  Proof. destruct a as [|[|a]]; reflexivity. Qed.

  Lemma plane_axes_cases f : f < 3 ->
    (f = 0 /\ px f = 1 /\ py f = 2) \/ (f = 1 /\ px f = 0 /\ py f = 2) \/ (f = 2 /\ px f = 0 /\ py f = 1).
  Proof. intros H. destruct f as [|[|[|f]]]; [auto|auto|auto 6|lia]. Qed.

  Lemma axes_of_cases n0 n1 n2 xi yi : axes_of n0 n1 n2 = Some (xi, yi) ->
    exists f, f < 3 /\ xi = px f /\ yi = py f.
  Proof.
    unfold axes_of. destruct (n0 =? 0); [intros [= <- <-]; exists 0; auto|].
    destruct (n1 =? 0); [intros [= <- <-]; exists 1; auto|].
    destruct (n2 =? 0); [intros [= <- <-]; exists 2; auto|discriminate].
  Qed.

  Lemma patch_at_rect (q : @quad T) f x0 y0 rx ry i j : f < 3 ->
    is_rect (px f) (py f) (patch_at q (px f) (py f) x0 y0 rx ry i j)
            (gline x0 rx i) (gline x0 rx (S i)) (gline y0 ry j) (gline y0 ry (S j)).
  Proof.
    intros Hf. destruct (plane_axes_cases f Hf) as [(-> & _)|[(-> & _)|(-> & _)]];
      unfold is_rect, gline; simpl; repeat split.
  Qed.

  Lemma patch_at_flat (q : @quad T) f x0 y0 rx ry i j : f < 3 ->
    flat_kept f q (patch_at q (px f) (py f) x0 y0 rx ry i j).
  Proof.
    intros Hf. destruct (plane_axes_cases f Hf) as [(-> & _)|[(-> & _)|(-> & _)]];
      unfold flat_kept; simpl; repeat split.
  Qed.

  (** the patch depends on the wall only through the flat coordinates of its vertices *)
  Lemma vset2_flat (v v' : @vec T) f X Y : f < 3 -> vget v f = vget v' f ->
    vset (vset v (px f) X) (py f) Y = vset (vset v' (px f) X) (py f) Y.
  Proof.
    intros Hf E. destruct v as [[a b] c], v' as [[a' b'] c'].
    destruct (plane_axes_cases f Hf) as [(-> & _)|[(-> & _)|(-> & _)]];
      cbv [vget vx vy vz fst snd] in E; subst; reflexivity.
  Qed.

  Lemma patch_at_ext (q q' : @quad T) f x0 y0 rx ry i j : f < 3 ->
    vget (q0 q') f = vget (q0 q) f -> vget (q1 q') f = vget (q1 q) f ->
    vget (q2 q') f = vget (q2 q) f -> vget (q3 q') f = vget (q3 q) f ->
    patch_at q' (px f) (py f) x0 y0 rx ry i j = patch_at q (px f) (py f) x0 y0 rx ry i j.
  Proof.
    intros Hf E0 E1 E2 E3. unfold patch_at.
    f_equal; apply vset2_flat; assumption.
  Qed.
End Coords.

(** ** Minimum / maximum over the four vertices *)
Section MinMax.
  Context {T : Type} {O : Ops T} {RL : RingLaws T} {OL : OrderLaws T}.
  Add Ring TRingTP1 : (@ring_th T O RL).

  Lemma tleb_false_le (a b : T) : tleb a b = false -> (b <= a)%T.
  Proof. intros E. destruct (tle_total a b) as [H|H]; [unfold tle in H; congruence|exact H]. Qed.

  Lemma tmin2_le_l (a b : T) : (tmin2 a b <= a)%T.
  Proof. unfold tmin2. destruct (tleb a b) eqn:E; [apply tle_refl|now apply tleb_false_le]. Qed.
  Lemma tmin2_le_r (a b : T) : (tmin2 a b <= b)%T.
  Proof. unfold tmin2. destruct (tleb a b) eqn:E; [exact E|apply tle_refl]. Qed.
  Lemma tmin2_cases (a b : T) : tmin2 a b = a \/ tmin2 a b = b.
  Proof. unfold tmin2. destruct (tleb a b); auto. Qed.
  Lemma tmax2_ge_l (a b : T) : (a <= tmax2 a b)%T.
  Proof. unfold tmax2. destruct (tleb a b) eqn:E; [exact E|apply tle_refl]. Qed.
  Lemma tmax2_ge_r (a b : T) : (b <= tmax2 a b)%T.
  Proof. unfold tmax2. destruct (tleb a b) eqn:E; [apply tle_refl|now apply tleb_false_le]. Qed.
  Lemma tmax2_cases (a b : T) : tmax2 a b = a \/ tmax2 a b = b.
  Proof. unfold tmax2. destruct (tleb a b); auto. Qed.

  Lemma col_min_le (q : @quad T) a v : In v (verts q) -> (col_min q a <= vget v a)%T.
  Proof.
    unfold col_min, verts. intros [<-|[<-|[<-|[<-|[]]]]].
    - eapply tle_trans; [apply tmin2_le_l|]. eapply tle_trans; [apply tmin2_le_l|]. apply tmin2_le_l.
    - eapply tle_trans; [apply tmin2_le_l|]. eapply tle_trans; [apply tmin2_le_l|]. apply tmin2_le_r.
    - eapply tle_trans; [apply tmin2_le_l|]. apply tmin2_le_r.
    - apply tmin2_le_r.
  Qed.
  Lemma col_min_in (q : @quad T) a : exists v, In v (verts q) /\ col_min q a = vget v a.
  Proof.
    unfold col_min, verts.
    destruct (tmin2_cases (tmin2 (tmin2 (vget (q0 q) a) (vget (q1 q) a)) (vget (q2 q) a)) (vget (q3 q) a)) as [-> | ->];
      [|exists (q3 q); simpl; auto 8].
    destruct (tmin2_cases (tmin2 (vget (q0 q) a) (vget (q1 q) a)) (vget (q2 q) a)) as [-> | ->];
      [|exists (q2 q); simpl; auto 8].
    destruct (tmin2_cases (vget (q0 q) a) (vget (q1 q) a)) as [-> | ->];
      [exists (q0 q)|exists (q1 q)]; simpl; auto 8.
  Qed.
  Lemma col_max_ge (q : @quad T) a v : In v (verts q) -> (vget v a <= col_max q a)%T.
  Proof.
    unfold col_max, verts. intros [<-|[<-|[<-|[<-|[]]]]].
    - eapply tle_trans; [|apply tmax2_ge_l]. eapply tle_trans; [|apply tmax2_ge_l]. apply tmax2_ge_l.
    - eapply tle_trans; [|apply tmax2_ge_l]. eapply tle_trans; [|apply tmax2_ge_l]. apply tmax2_ge_r.
    - eapply tle_trans; [|apply tmax2_ge_l]. apply tmax2_ge_r.
    - apply tmax2_ge_r.
  Qed.
  Lemma col_max_in (q : @quad T) a : exists v, In v (verts q) /\ col_max q a = vget v a.
  Proof.
    unfold col_max, verts.
    destruct (tmax2_cases (tmax2 (tmax2 (vget (q0 q) a) (vget (q1 q) a)) (vget (q2 q) a)) (vget (q3 q) a)) as [-> | ->];
      [|exists (q3 q); simpl; auto 8].
    destruct (tmax2_cases (tmax2 (vget (q0 q) a) (vget (q1 q) a)) (vget (q2 q) a)) as [-> | ->];
      [|exists (q2 q); simpl; auto 8].
    destruct (tmax2_cases (vget (q0 q) a) (vget (q1 q) a)) as [-> | ->];
      [exists (q0 q)|exists (q1 q)]; simpl; auto 8.
  Qed.

  (** minimum and maximum depend on the SET of vertices only *)
  Lemma col_min_set (q q' : @quad T) a :
    (forall v, In v (verts q') <-> In v (verts q)) -> col_min q' a = col_min q a.
  Proof.
    intros S. destruct (col_min_in q a) as (v & Hv & E), (col_min_in q' a) as (v' & Hv' & E').
    apply tle_antisym.
    - rewrite E. apply col_min_le. now apply S.
    - rewrite E'. apply col_min_le. now apply S.
  Qed.
  Lemma col_max_set (q q' : @quad T) a :
    (forall v, In v (verts q') <-> In v (verts q)) -> col_max q' a = col_max q a.
  Proof.
    intros S. destruct (col_max_in q a) as (v & Hv & E), (col_max_in q' a) as (v' & Hv' & E').
    apply tle_antisym.
    - rewrite E'. apply col_max_ge. now apply S.
    - rewrite E. apply col_max_ge. now apply S.
  Qed.

  Lemma planar_size_zero (q : @quad T) f c : planar q f c -> size q f = 0%T.
  Proof.
    intros Hp. unfold size.
    destruct (col_min_in q f) as (v & Hv & ->), (col_max_in q f) as (v' & Hv' & ->).
    rewrite (Hp v Hv), (Hp v' Hv'). ring.
  Qed.
  Lemma planar_col_min (q : @quad T) f c : planar q f c -> col_min q f = c.
  Proof. intros Hp. destruct (col_min_in q f) as (v & Hv & ->). now apply Hp. Qed.

  Lemma col_min_le_max (q : @quad T) a : (col_min q a <= col_max q a)%T.
  Proof.
    eapply tle_trans; [apply (col_min_le q a (q0 q))|apply (col_max_ge q a (q0 q))]; simpl; auto.
  Qed.

  (** translation *)
  Lemma tleb_add_r (a b t : T) : tleb (a + t)%T (b + t)%T = tleb a b.
  Proof.
    destruct (tleb a b) eqn:E.
    - now apply tadd_le_mono.
    - destruct (tleb (a + t)%T (b + t)%T) eqn:E'; [|reflexivity].
      apply (tadd_le_mono _ _ (- t)%T) in E'.
      replace (a + t + - t)%T with a in E' by ring. replace (b + t + - t)%T with b in E' by ring.
      unfold tle in E'. congruence.
  Qed.
  Lemma tmin2_add_r (a b t : T) : tmin2 (a + t)%T (b + t)%T = (tmin2 a b + t)%T.
  Proof. unfold tmin2. rewrite tleb_add_r. now destruct (tleb a b). Qed.
  Lemma tmax2_add_r (a b t : T) : tmax2 (a + t)%T (b + t)%T = (tmax2 a b + t)%T.
  Proof. unfold tmax2. rewrite tleb_add_r. now destruct (tleb a b). Qed.

  Lemma vget_vadd (v t : @vec T) a : vget (vadd v t) a = (vget v a + vget t a)%T.
  Proof. destruct a as [|[|a]]; reflexivity. Qed.

  Lemma col_min_translate (q : @quad T) t a : col_min (translate_quad t q) a = (col_min q a + vget t a)%T.
  Proof. unfold col_min, translate_quad. simpl. rewrite !vget_vadd, !tmin2_add_r. reflexivity. Qed.
  Lemma col_max_translate (q : @quad T) t a : col_max (translate_quad t q) a = (col_max q a + vget t a)%T.
  Proof. unfold col_max, translate_quad. simpl. rewrite !vget_vadd, !tmax2_add_r. reflexivity. Qed.
  Lemma size_translate (q : @quad T) t a : size (translate_quad t q) a = size q a.
  Proof. unfold size. rewrite col_min_translate, col_max_translate. ring. Qed.
End MinMax.

(** ** One direction of the grid: lines [x0 + i*r], i = 0..n *)
Section Grid1D.
  Context {T : Type} {O : Ops T} {RL : RingLaws T} {OL : OrderLaws T} {FlL : FloorLaws T}.
  Add Ring TRingTP2 : (@ring_th T O RL).
  Variables x0 r : T.
  Hypothesis Hr : (0 <= r)%T.

  Lemma gline_0 : gline x0 r 0 = x0.
  Proof. unfold gline. rewrite tofnat_0. ring. Qed.
  Lemma gline_S i : gline x0 r (S i) = (gline x0 r i + r)%T.
  Proof. unfold gline. rewrite tofnat_S. ring. Qed.
  Lemma gline_step i : (gline x0 r (S i) - gline x0 r i)%T = r.
  Proof. rewrite gline_S. ring. Qed.
  Lemma gline_mono i j : i <= j -> (gline x0 r i <= gline x0 r j)%T.
  Proof.
    intros H. unfold gline. apply tadd_le_mono_l. apply tmul_le_mono_nonneg_r; [exact Hr|].
    now apply tofnat_mono.
  Qed.

  Lemma gline_ge i : (x0 <= gline x0 r i)%T.
  Proof.
    apply (tle_trans _ (gline x0 r 0)); [rewrite gline_0; apply tle_refl|apply gline_mono; lia].
  Qed.

  (** every point of [x0, x0 + n r] lies in one of the [n] closed cells *)
  Lemma cover1d n x : 1 <= n -> (x0 <= x)%T -> (x <= gline x0 r n)%T ->
    exists i, i < n /\ (gline x0 r i <= x)%T /\ (x <= gline x0 r (S i))%T.
  Proof.
    intros Hn Hlo. induction n as [|n IH]; [lia|]. intros Hhi.
    destruct n as [|n].
    - exists 0. rewrite gline_0. auto.
    - destruct (tle_total x (gline x0 r (S n))) as [L|L].
      + destruct (IH ltac:(lia) L) as (i & Hi & H1 & H2). exists i. repeat split; [lia|exact H1|exact H2].
      + exists (S n). repeat split; [lia|exact L|exact Hhi].
  Qed.

  (** cells with different indices do not share interior points *)
  Lemma disjoint1d i i' x : i <> i' ->
    (gline x0 r i < x)%T -> (x < gline x0 r (S i))%T ->
    (gline x0 r i' < x)%T -> (x < gline x0 r (S i'))%T -> False.
  Proof.
    intros Hne A B A' B'.
    destruct (Nat.lt_trichotomy i i') as [L|[L|L]]; [|contradiction|].
    - apply (tlt_irrefl x). eapply tlt_le_trans; [exact B|].
      eapply tle_trans; [apply (gline_mono (S i) i'); lia|]. now apply tlt_le.
    - apply (tlt_irrefl x). eapply tlt_le_trans; [exact B'|].
      eapply tle_trans; [apply (gline_mono (S i') i); lia|]. now apply tlt_le.
  Qed.
End Grid1D.

(** ** The tiling of one wall *)
Section Wall.
  Context {T : Type} {O : Ops T} {RL : RingLaws T} {OL : OrderLaws T} {FL : FieldLaws T}
          {FlL : FloorLaws T}.
  Add Ring TRingTP3 : (@ring_th T O RL).

  Variables (q : @quad T) (p : T) (f : nat).
  Hypothesis Hf : f < 3.
  Hypothesis Hflat : size q f = 0%T.
  Hypothesis Hp : (0 < p)%T.
  Hypothesis Hpx : (p <= size q (px f))%T.
  Hypothesis Hpy : (p <= size q (py f))%T.

  Let xi := px f.
  Let yi := py f.
  Let nx := patch_num q p xi.
  Let ny := patch_num q p yi.
  Let rx := real_size q p xi.
  Let ry := real_size q p yi.
  Let x0 := col_min q xi.
  Let y0 := col_min q yi.

  Lemma patch_num_flat : patch_num q p f = 0.
  Proof. unfold patch_num. rewrite Hflat, tdiv_zero by exact Hp. apply ttrunc_zero. Qed.

  Lemma patch_num_pos a : (p <= size q a)%T -> 1 <= patch_num q p a.
  Proof. intros H. unfold patch_num. apply ttrunc_ge_one. now apply tdiv_ge_one. Qed.

  Lemma size_pos a : (p <= size q a)%T -> (0 < size q a)%T.
  Proof. intros H. eapply tlt_le_trans; [exact Hp|exact H]. Qed.

  (** floor: n*p <= side < (n+1)*p *)
  Lemma patch_num_floor a : (p <= size q a)%T ->
    (tofnat (patch_num q p a) * p <= size q a)%T /\ (size q a < tofnat (S (patch_num q p a)) * p)%T.
  Proof.
    intros H. assert (H0 : (0 <= size q a / p)%T) by (apply tdiv_nonneg; [apply tlt_le, size_pos, H|exact Hp]).
    pose proof (ttrunc_lo _ H0) as Lo. pose proof (ttrunc_hi _ H0) as Hi.
    fold (patch_num q p a) in Lo, Hi.
    assert (E : (size q a / p * p)%T = size q a) by (apply tdiv_mul; now apply tpos_neq).
    split.
    - assert (L : (tofnat (patch_num q p a) * p <= size q a / p * p)%T)
        by (apply tmul_le_mono_nonneg_r; [now apply tlt_le|exact Lo]).
      rewrite E in L. exact L.
    - assert (L : (size q a / p * p < tofnat (S (patch_num q p a)) * p)%T)
        by (apply tmul_lt_mono_pos_r; assumption).
      rewrite E in L. exact L.
  Qed.

  Lemma axes_wall : axes q p = Some (xi, yi).
  Proof.
    unfold axes. pose proof patch_num_flat as Z.
    pose proof (patch_num_pos _ Hpx) as Px. pose proof (patch_num_pos _ Hpy) as Py.
    subst xi yi. destruct (plane_axes_cases f Hf) as [(E & Ex & Ey)|[(E & Ex & Ey)|(E & Ex & Ey)]];
      rewrite Ex, Ey in *; rewrite E in Z; unfold axes_of; rewrite ?Z.
    - reflexivity.
    - destruct (patch_num q p 0) eqn:E0; [lia|]. reflexivity.
    - destruct (patch_num q p 0) eqn:E0; [lia|]. destruct (patch_num q p 1) eqn:E1; [lia|]. reflexivity.
  Qed.

  Lemma create_wall : create_patches q p = grid q xi yi x0 y0 rx ry nx ny.
  Proof. unfold create_patches. rewrite axes_wall. reflexivity. Qed.

  Lemma nx_pos : 1 <= nx. Proof. apply patch_num_pos, Hpx. Qed.
  Lemma ny_pos : 1 <= ny. Proof. apply patch_num_pos, Hpy. Qed.

  Lemma real_size_pos a : (p <= size q a)%T -> (0 < real_size q p a)%T.
  Proof.
    intros H. unfold real_size. apply tdiv_pos; [now apply size_pos|].
    apply tofnat_pos. now apply patch_num_pos.
  Qed.

  (** the last grid line is the far side of the wall: [x_min + n * (s/n) = x_max] *)
  Lemma gline_last a : (p <= size q a)%T ->
    gline (col_min q a) (real_size q p a) (patch_num q p a) = col_max q a.
  Proof.
    intros H. unfold gline, real_size. rewrite tmul_div_cancel.
    - unfold size. ring.
    - apply tpos_neq, tofnat_pos. now apply patch_num_pos.
  Qed.

  (** (1) count *)
  Lemma count_wall : length (create_patches q p) = nx * ny.
  Proof. rewrite create_wall. unfold grid. apply length_concat_tab. Qed.
  Lemma total_wall : total_number_of_patches q p = nx * ny.
  Proof. unfold total_number_of_patches. rewrite axes_wall. reflexivity. Qed.

  (** (2) cell formula *)
  Lemma nth_wall i j d : i < nx -> j < ny ->
    nth (i * ny + j) (create_patches q p) d = patch_at q xi yi x0 y0 rx ry i j.
  Proof. intros Hi Hj. rewrite create_wall. unfold grid. now apply nth_concat_tab. Qed.

  Lemma cell_wall i j d : i < nx -> j < ny ->
    let P := nth (i * ny + j) (create_patches q p) d in
    is_rect xi yi P (gline x0 rx i) (gline x0 rx (S i)) (gline y0 ry j) (gline y0 ry (S j)) /\
    flat_kept f q P.
  Proof.
    intros Hi Hj. cbv zeta. rewrite nth_wall by assumption. split.
    - apply patch_at_rect, Hf.
    - apply patch_at_flat, Hf.
  Qed.

  Lemma wall_index k : k < length (create_patches q p) ->
    exists i j, i < nx /\ j < ny /\ k = i * ny + j.
  Proof. rewrite count_wall. apply index_decomp. Qed.

  (** (3a) disjoint interiors *)
  Lemma disjoint_wall k k' d x y :
    k < length (create_patches q p) -> k' < length (create_patches q p) -> k <> k' ->
    in_interior xi yi (nth k (create_patches q p) d) x y ->
    in_interior xi yi (nth k' (create_patches q p) d) x y -> False.
  Proof.
    intros Hk Hk' Hne.
    destruct (wall_index k Hk) as (i & j & Hi & Hj & ->).
    destruct (wall_index k' Hk') as (i' & j' & Hi' & Hj' & ->).
    destruct (cell_wall i j d Hi Hj) as [R _]. destruct (cell_wall i' j' d Hi' Hj') as [R' _].
    cbv zeta in R, R'. unfold in_interior.
    destruct R as ((A0 & B0) & (A1 & _) & _ & (_ & B3)).
    destruct R' as ((A0' & B0') & (A1' & _) & _ & (_ & B3')).
    rewrite A0, B0, A1, B3, A0', B0', A1', B3'.
    intros (X1 & X2 & Y1 & Y2) (X1' & X2' & Y1' & Y2').
    assert (Hrx : (0 <= rx)%T) by (apply tlt_le, real_size_pos, Hpx).
    assert (Hry : (0 <= ry)%T) by (apply tlt_le, real_size_pos, Hpy).
    destruct (Nat.eq_dec i i') as [Ei|Ni].
    - subst i'. assert (Nj : j <> j') by (intros ->; now apply Hne).
      exact (disjoint1d y0 ry Hry j j' y Nj Y1 Y2 Y1' Y2').
    - exact (disjoint1d x0 rx Hrx i i' x Ni X1 X2 X1' X2').
  Qed.

  (** (3b) every point of the bounding rectangle lies in a closed cell ... *)
  Lemma cover_wall d x y :
    (col_min q xi <= x)%T -> (x <= col_max q xi)%T -> (col_min q yi <= y)%T -> (y <= col_max q yi)%T ->
    exists k, k < length (create_patches q p) /\ in_closed xi yi (nth k (create_patches q p) d) x y.
  Proof.
    intros X1 X2 Y1 Y2.
    assert (Hrx : (0 <= rx)%T) by (apply tlt_le, real_size_pos, Hpx).
    assert (Hry : (0 <= ry)%T) by (apply tlt_le, real_size_pos, Hpy).
    rewrite <- (gline_last xi Hpx) in X2. rewrite <- (gline_last yi Hpy) in Y2.
    destruct (cover1d x0 rx nx x nx_pos X1 X2) as (i & Hi & I1 & I2).
    destruct (cover1d y0 ry ny y ny_pos Y1 Y2) as (j & Hj & J1 & J2).
    exists (i * ny + j). split.
    - rewrite count_wall. fold ny in Hj. nia.
    - destruct (cell_wall i j d Hi Hj) as [R _]. cbv zeta in R. unfold in_closed.
      destruct R as ((A0 & B0) & (A1 & _) & _ & (_ & B3)). rewrite A0, B0, A1, B3. auto.
  Qed.

  (** ... and every cell lies in the bounding rectangle *)
  Lemma inside_wall k d x y : k < length (create_patches q p) ->
    in_closed xi yi (nth k (create_patches q p) d) x y ->
    (col_min q xi <= x)%T /\ (x <= col_max q xi)%T /\ (col_min q yi <= y)%T /\ (y <= col_max q yi)%T.
  Proof.
    intros Hk. destruct (wall_index k Hk) as (i & j & Hi & Hj & ->).
    destruct (cell_wall i j d Hi Hj) as [R _]. cbv zeta in R. unfold in_closed.
    destruct R as ((A0 & B0) & (A1 & _) & _ & (_ & B3)). rewrite A0, B0, A1, B3.
    intros (X1 & X2 & Y1 & Y2).
    assert (Hrx : (0 <= rx)%T) by (apply tlt_le, real_size_pos, Hpx).
    assert (Hry : (0 <= ry)%T) by (apply tlt_le, real_size_pos, Hpy).
    rewrite <- (gline_last xi Hpx), <- (gline_last yi Hpy).
    repeat split.
    - eapply tle_trans; [apply (gline_ge x0 rx Hrx i)|exact X1].
    - eapply tle_trans; [exact X2|apply (gline_mono x0 rx Hrx (S i) nx); lia].
    - eapply tle_trans; [apply (gline_ge y0 ry Hry j)|exact Y1].
    - eapply tle_trans; [exact Y2|apply (gline_mono y0 ry Hry (S j) ny); lia].
  Qed.

  (** congruence: every cell has the side lengths (s_x/n_x, s_y/n_y) *)
  Lemma congruent_wall k d : k < length (create_patches q p) ->
    let P := nth k (create_patches q p) d in
    (vget (q1 P) xi - vget (q0 P) xi)%T = rx /\ (vget (q3 P) yi - vget (q0 P) yi)%T = ry /\
    (vget (q2 P) xi - vget (q3 P) xi)%T = rx /\ (vget (q2 P) yi - vget (q1 P) yi)%T = ry.
  Proof.
    intros Hk. destruct (wall_index k Hk) as (i & j & Hi & Hj & ->).
    destruct (cell_wall i j d Hi Hj) as [R _]. cbv zeta in *.
    destruct R as ((A0 & B0) & (A1 & B1) & (A2 & B2) & (A3 & B3)).
    rewrite A0, B0, A1, B1, A2, B2, A3, B3. rewrite !gline_step. auto.
  Qed.

  (** (3c) the areas sum to the wall area *)
  Lemma sumf_const {A} (l : list A) (c : T) : sumf l (fun _ => c) = (tofnat (length l) * c)%T.
  Proof.
    induction l as [|a l IH]; simpl.
    - rewrite tofnat_0. ring.
    - rewrite IH, tofnat_S. ring.
  Qed.
  Lemma sumf_concat {A} (ls : list (list A)) (g : A -> T) :
    sumf (concat ls) g = sumf ls (fun l => sumf l g).
  Proof. induction ls as [|l ls IH]; simpl; [reflexivity|]. now rewrite sumf_app, IH. Qed.

  Lemma area_wall : sumf (create_patches q p) (rect_area xi yi) = (size q xi * size q yi)%T.
  Proof.
    rewrite create_wall. unfold grid, tab. rewrite sumf_concat, sumf_map.
    rewrite (sumf_ext _ _ (fun _ => (tofnat ny * (rx * ry))%T)).
    - rewrite sumf_const, seq_length.
      assert (Ex : (tofnat nx * rx)%T = size q xi).
      { unfold rx, real_size. apply tmul_div_cancel, tpos_neq, tofnat_pos, nx_pos. }
      assert (Ey : (tofnat ny * ry)%T = size q yi).
      { unfold ry, real_size. apply tmul_div_cancel, tpos_neq, tofnat_pos, ny_pos. }
      rewrite <- Ex, <- Ey. ring.
    - intros i _. rewrite sumf_map.
      rewrite (sumf_ext _ _ (fun _ => (rx * ry)%T)).
      + now rewrite sumf_const, seq_length.
      + intros j _. destruct (patch_at_rect q f x0 y0 rx ry i j Hf) as ((A0 & B0) & (A1 & _) & _ & (_ & B3)).
        unfold rect_area. fold xi yi in A0, B0, A1, B3. rewrite A0, B0, A1, B3, !gline_step. reflexivity.
  Qed.
End Wall.

(** ** What the tiling depends on; the Kang engine; [_process_patches] (no law needed) *)
Section Structure.
  Context {T : Type} {O : Ops T}.

  (** the output is a function of the per-axis minima and maxima and of the flat coordinate
      of each vertex *)
  Lemma create_patches_ext (q q' : @quad T) p f : f < 3 -> axes q p = Some (px f, py f) ->
    (forall a, col_min q' a = col_min q a) -> (forall a, col_max q' a = col_max q a) ->
    vget (q0 q') f = vget (q0 q) f -> vget (q1 q') f = vget (q1 q) f ->
    vget (q2 q') f = vget (q2 q) f -> vget (q3 q') f = vget (q3 q) f ->
    create_patches q' p = create_patches q p.
  Proof.
    intros Hf Hax Hmin Hmax E0 E1 E2 E3.
    assert (Hs : forall a, size q' a = size q a) by (intros a; unfold size; now rewrite Hmin, Hmax).
    assert (Hn : forall a, patch_num q' p a = patch_num q p a) by (intros a; unfold patch_num; now rewrite Hs).
    assert (Hr : forall a, real_size q' p a = real_size q p a) by (intros a; unfold real_size; now rewrite Hs, Hn).
    assert (Hax' : axes q' p = Some (px f, py f)) by (unfold axes in *; now rewrite !Hn).
    unfold create_patches. rewrite Hax, Hax'. unfold grid. rewrite !Hmin, !Hr, !Hn.
    f_equal. apply tab_ext. intros i _. apply tab_ext. intros j _.
    now apply patch_at_ext.
  Qed.

  Lemma verts_rot (q : @quad T) v : In v (verts (rot_quad q)) <-> In v (verts q).
  Proof. unfold verts, rot_quad. simpl. tauto. Qed.
  Lemma verts_rev (q : @quad T) v : In v (verts (rev_quad q)) <-> In v (verts q).
  Proof. unfold verts, rev_quad. simpl. tauto. Qed.
  Lemma verts_iter_rot n (q : @quad T) v : In v (verts (Nat.iter n rot_quad q)) <-> In v (verts q).
  Proof.
    induction n as [|n IH]; [simpl; tauto|].
    change (Nat.iter (S n) rot_quad q) with (rot_quad (Nat.iter n rot_quad q)).
    eapply iff_trans; [apply verts_rot|exact IH].
  Qed.
  Lemma verts_reorder o (q : @quad T) v : In v (verts (reorder o q)) <-> In v (verts q).
  Proof.
    unfold reorder. eapply iff_trans; [apply verts_iter_rot|].
    destruct (o <? 4); [tauto|apply verts_rev].
  Qed.

  (** Kang engine: the same function *)
  Lemma kang_same (q : @quad T) p : kang_patches q p = create_patches q p.
  Proof.
    unfold kang_patches. cbv zeta.
    change (vx (vsub (kang_max_point q) (kang_min_point q))) with (size q 0).
    change (vy (vsub (kang_max_point q) (kang_min_point q))) with (size q 1).
    change (vz (vsub (kang_max_point q) (kang_min_point q))) with (size q 2).
    change (ttrunc (size q 0 / p)%T) with (patch_num q p 0).
    change (ttrunc (size q 1 / p)%T) with (patch_num q p 1).
    change (ttrunc (size q 2 / p)%T) with (patch_num q p 2).
    unfold create_patches, axes.
    destruct (axes_of (patch_num q p 0) (patch_num q p 1) (patch_num q p 2)) as [[xi yi]|] eqn:E;
      [|reflexivity].
    rewrite fold_snoc_grid. simpl app.
    destruct (axes_of_cases _ _ _ _ _ E) as (f & Hf & -> & ->).
    destruct (plane_axes_cases f Hf) as [(-> & _)|[(-> & _)|(-> & _)]]; reflexivity.
  Qed.

  (** [_total_number_of_patches] is the length of [_create_patches], for every input *)
  Lemma total_eq_length (q : @quad T) p : total_number_of_patches q p = length (create_patches q p).
  Proof.
    unfold total_number_of_patches, create_patches. destruct (axes q p) as [[xi yi]|]; [|reflexivity].
    unfold grid. now rewrite length_concat_tab.
  Qed.

  Variables (walls : list (@quad T)) (normals : list (@vec T)) (p : T).
  Let counts := map (fun q => total_number_of_patches q p) walls.

  Lemma process_counts :
    map (@length (@quad T)) (map (fun q => create_patches q p) walls) = counts.
  Proof. subst counts. rewrite map_map. apply map_ext. intros q. symmetry. apply total_eq_length. Qed.

  Lemma process_n : pr_n (process walls normals p) = sumn counts.
  Proof. reflexivity. Qed.
  Lemma process_points_length : length (pr_points (process walls normals p)) = sumn counts.
  Proof. unfold process. simpl. now rewrite length_concat_sumn, process_counts. Qed.
  Lemma process_ids_length : length (pr_wall_ids (process walls normals p)) = sumn counts.
  Proof. unfold process. simpl. now rewrite length_wall_ids, process_counts. Qed.
  Lemma process_normals_length : length (pr_normals (process walls normals p)) = sumn counts.
  Proof. unfold process. simpl. now rewrite map_length, length_wall_ids, process_counts. Qed.

  (** patch [k] is attributed to wall [w] iff [k] lies in [w]'s contiguous block *)
  Lemma process_attribution k w d : k < sumn counts -> w < length walls ->
    (nth k (pr_wall_ids (process walls normals p)) d = w <->
     prefix_sum counts w <= k < prefix_sum counts (S w)).
  Proof.
    intros Hk Hw. unfold process. simpl. rewrite process_counts.
    apply wall_ids_block; [exact Hk|]. subst counts. now rewrite map_length.
  Qed.

  (** the [j]-th patch of wall [w]'s block is the [j]-th patch of that wall and has its normal *)
  Lemma process_block w j dq dv dn : w < length walls ->
    j < length (create_patches (nth w walls dquad) p) ->
    nth (prefix_sum counts w + j) (pr_points (process walls normals p)) dq
      = nth j (create_patches (nth w walls dquad) p) dq /\
    nth (prefix_sum counts w + j) (pr_wall_ids (process walls normals p)) dn = w /\
    nth (prefix_sum counts w + j) (pr_normals (process walls normals p)) dv = nthv normals w.
  Proof.
    intros Hw Hj.
    assert (Hc : nth w counts 0 = length (create_patches (nth w walls dquad) p)).
    { subst counts. rewrite nth_indep with (d' := total_number_of_patches dquad p) by now rewrite map_length.
      rewrite (map_nth (fun q => total_number_of_patches q p)). apply total_eq_length. }
    assert (Hid : forall dn', nth (prefix_sum counts w + j) (pr_wall_ids (process walls normals p)) dn' = w).
    { intros dn'. unfold process. simpl. rewrite process_counts. rewrite nth_wall_ids; [reflexivity| |].
      - subst counts. now rewrite map_length.
      - now rewrite Hc. }
    split; [|split].
    - unfold process. simpl. rewrite <- process_counts.
      rewrite nth_concat.
      + rewrite nth_indep with (d' := create_patches dquad p) by now rewrite map_length.
        now rewrite (map_nth (fun q => create_patches q p)).
      + now rewrite map_length.
      + rewrite nth_indep with (d' := create_patches dquad p) by now rewrite map_length.
        now rewrite (map_nth (fun q => create_patches q p)).
    - apply Hid.
    - assert (Hlt : prefix_sum counts w + j < length (pr_wall_ids (process walls normals p))).
      { rewrite process_ids_length.
        assert (Hw' : w < length counts) by (subst counts; now rewrite map_length).
        pose proof (prefix_sum_S counts w Hw') as S1.
        pose proof (prefix_sum_le_total counts (S w)) as S2. lia. }
      change (pr_normals (process walls normals p))
        with (map (fun w => nthv normals w) (pr_wall_ids (process walls normals p))).
      rewrite nth_indep with (d' := nthv normals 0) by now rewrite map_length.
      rewrite (map_nth (fun w => nthv normals w)). now rewrite Hid.
  Qed.
End Structure.

(** ** Translation equivariance (ordered ring; exact arithmetic) *)
Section Translate.
  Context {T : Type} {O : Ops T} {RL : RingLaws T} {OL : OrderLaws T}.
  Add Ring TRingTP4 : (@ring_th T O RL).

  Lemma vset2_translate (v t : @vec T) f X Y X' Y' : f < 3 ->
    X' = (X + vget t (px f))%T -> Y' = (Y + vget t (py f))%T ->
    vset (vset (vadd v t) (px f) X') (py f) Y' = vadd (vset (vset v (px f) X) (py f) Y) t.
  Proof.
    intros Hf -> ->. destruct v as [[a b] c], t as [[ta tb] tc].
    destruct (plane_axes_cases f Hf) as [(-> & _)|[(-> & _)|(-> & _)]]; reflexivity.
  Qed.

  Lemma patch_at_translate (q : @quad T) t f x0 y0 rx ry i j : f < 3 ->
    patch_at (translate_quad t q) (px f) (py f) (x0 + vget t (px f))%T (y0 + vget t (py f))%T rx ry i j
    = translate_quad t (patch_at q (px f) (py f) x0 y0 rx ry i j).
  Proof.
    intros Hf. unfold patch_at, translate_quad. simpl.
    f_equal; apply vset2_translate; try exact Hf; ring.
  Qed.

  Lemma create_patches_translate (q : @quad T) t p :
    create_patches (translate_quad t q) p = map (translate_quad t) (create_patches q p).
  Proof.
    assert (Hn : forall a, patch_num (translate_quad t q) p a = patch_num q p a)
      by (intros a; unfold patch_num; now rewrite size_translate).
    assert (Hr : forall a, real_size (translate_quad t q) p a = real_size q p a)
      by (intros a; unfold real_size; now rewrite size_translate, Hn).
    unfold create_patches. unfold axes at 1. rewrite !Hn. fold (axes q p).
    destruct (axes q p) as [[xi yi]|] eqn:E; [|reflexivity].
    destruct (axes_of_cases _ _ _ _ _ E) as (f & Hf & -> & ->).
    unfold grid. rewrite map_concat_tab, !Hr, !Hn, !col_min_translate.
    f_equal. apply tab_ext. intros i _. apply tab_ext. intros j _.
    now apply patch_at_translate.
  Qed.
End Translate.

(** ** The statements of C08, in the form used by [Properties/C08.v] *)
Section Statements.
  Context {T : Type} {O : Ops T} {RL : RingLaws T} {OL : OrderLaws T} {FL : FieldLaws T}
          {FlL : FloorLaws T}.
  Add Ring TRingTP5 : (@ring_th T O RL).

  Ltac wall_hyps H :=
    destruct H as (Hf & Hpl & Hp & Hpx & Hpy);
    pose proof (planar_size_zero _ _ _ Hpl) as Hflat.

  Lemma stmt_count (q : @quad T) p f c : wall_ok q p f c ->
    axes q p = Some (px f, py f) /\ patch_num q p f = 0 /\
    1 <= patch_num q p (px f) /\ 1 <= patch_num q p (py f) /\
    length (create_patches q p) = patch_num q p (px f) * patch_num q p (py f) /\
    total_number_of_patches q p = patch_num q p (px f) * patch_num q p (py f).
  Proof.
    intros H. wall_hyps H. repeat split.
    - eapply axes_wall; eassumption.
    - eapply patch_num_flat; eassumption.
    - eapply patch_num_pos; eassumption.
    - eapply patch_num_pos; eassumption.
    - eapply count_wall; eassumption.
    - eapply total_wall; eassumption.
  Qed.

  Lemma stmt_floor (q : @quad T) p f c a : wall_ok q p f c -> a = px f \/ a = py f ->
    (tofnat (patch_num q p a) * p <= size q a)%T /\ (size q a < tofnat (S (patch_num q p a)) * p)%T.
  Proof.
    intros H Ha. wall_hyps H. apply patch_num_floor; [exact Hp|]. destruct Ha as [-> | ->]; assumption.
  Qed.

  Lemma stmt_cell (q : @quad T) p f c i j d : wall_ok q p f c ->
    i < patch_num q p (px f) -> j < patch_num q p (py f) ->
    let P := nth (i * patch_num q p (py f) + j) (create_patches q p) d in
    is_rect (px f) (py f) P
      (gline (col_min q (px f)) (real_size q p (px f)) i) (gline (col_min q (px f)) (real_size q p (px f)) (S i))
      (gline (col_min q (py f)) (real_size q p (py f)) j) (gline (col_min q (py f)) (real_size q p (py f)) (S j)) /\
    flat_kept f q P /\ planar P f c.
  Proof.
    intros H Hi Hj. wall_hyps H.
    destruct (cell_wall q p f Hf Hflat Hp Hpx Hpy i j d Hi Hj) as [R K]. cbv zeta in *.
    split; [exact R|]. split; [exact K|].
    destruct K as (K0 & K1 & K2 & K3). intros v [<-|[<-|[<-|[<-|[]]]]].
    - rewrite K0. apply Hpl. simpl; auto.
    - rewrite K1. apply Hpl. simpl; auto.
    - rewrite K2. apply Hpl. simpl; auto.
    - rewrite K3. apply Hpl. simpl; auto 6.
  Qed.

  Lemma stmt_congruent (q : @quad T) p f c k d : wall_ok q p f c -> k < length (create_patches q p) ->
    let P := nth k (create_patches q p) d in
    (vget (q1 P) (px f) - vget (q0 P) (px f))%T = (size q (px f) / tofnat (patch_num q p (px f)))%T /\
    (vget (q3 P) (py f) - vget (q0 P) (py f))%T = (size q (py f) / tofnat (patch_num q p (py f)))%T /\
    (vget (q2 P) (px f) - vget (q3 P) (px f))%T = (size q (px f) / tofnat (patch_num q p (px f)))%T /\
    (vget (q2 P) (py f) - vget (q1 P) (py f))%T = (size q (py f) / tofnat (patch_num q p (py f)))%T.
  Proof. intros H Hk. wall_hyps H. exact (congruent_wall q p f Hf Hflat Hp Hpx Hpy k d Hk). Qed.

  Lemma stmt_disjoint (q : @quad T) p f c k k' d x y : wall_ok q p f c ->
    k < length (create_patches q p) -> k' < length (create_patches q p) -> k <> k' ->
    ~ (in_interior (px f) (py f) (nth k (create_patches q p) d) x y /\
       in_interior (px f) (py f) (nth k' (create_patches q p) d) x y).
  Proof.
    intros H Hk Hk' Hne [A B]. wall_hyps H.
    exact (disjoint_wall q p f Hf Hflat Hp Hpx Hpy k k' d x y Hk Hk' Hne A B).
  Qed.

  Lemma stmt_cover (q : @quad T) p f c d x y : wall_ok q p f c ->
    (col_min q (px f) <= x)%T -> (x <= col_max q (px f))%T ->
    (col_min q (py f) <= y)%T -> (y <= col_max q (py f))%T ->
    exists k, k < length (create_patches q p) /\ in_closed (px f) (py f) (nth k (create_patches q p) d) x y.
  Proof. intros H. wall_hyps H. exact (cover_wall q p f Hf Hflat Hp Hpx Hpy d x y). Qed.

  Lemma stmt_inside (q : @quad T) p f c k d x y : wall_ok q p f c -> k < length (create_patches q p) ->
    in_closed (px f) (py f) (nth k (create_patches q p) d) x y ->
    (col_min q (px f) <= x)%T /\ (x <= col_max q (px f))%T /\
    (col_min q (py f) <= y)%T /\ (y <= col_max q (py f))%T.
  Proof. intros H. wall_hyps H. exact (inside_wall q p f Hf Hflat Hp Hpx Hpy k d x y). Qed.

  Lemma stmt_area (q : @quad T) p f c : wall_ok q p f c ->
    sumf (create_patches q p) (rect_area (px f) (py f)) = (size q (px f) * size q (py f))%T.
  Proof. intros H. wall_hyps H. exact (area_wall q p f Hf Hflat Hp Hpx Hpy). Qed.

  (** vertex order: any wall with the same SET of vertices gives the identical list of patches *)
  Lemma stmt_vertex_set (q q' : @quad T) p f c : wall_ok q p f c ->
    (forall v, In v (verts q') <-> In v (verts q)) ->
    create_patches q' p = create_patches q p.
  Proof.
    intros H S. wall_hyps H.
    assert (Hc : forall v, In v (verts q') -> vget v f = c) by (intros v Hv; apply Hpl; now apply S).
    apply (create_patches_ext q q' p f Hf).
    - eapply axes_wall; eassumption.
    - intros a. now apply col_min_set.
    - intros a. now apply col_max_set.
    - rewrite (Hc (q0 q')), (Hpl (q0 q)); simpl; auto.
    - rewrite (Hc (q1 q')), (Hpl (q1 q)); simpl; auto.
    - rewrite (Hc (q2 q')), (Hpl (q2 q)); simpl; auto.
    - rewrite (Hc (q3 q')), (Hpl (q3 q)); simpl; auto 6.
  Qed.

  Lemma stmt_eight_orders (q : @quad T) p f c o : wall_ok q p f c ->
    create_patches (reorder o q) p = create_patches q p.
  Proof. intros H. apply (stmt_vertex_set q (reorder o q) p f c H). intros v. apply verts_reorder. Qed.

  (** a rectangle given by its corners, in any vertex order, is its own bounding box *)
  Lemma stmt_rect_extents (q q' : @quad T) xi yi xl xh yl yh :
    is_rect xi yi q xl xh yl yh -> (xl <= xh)%T -> (yl <= yh)%T ->
    (forall v, In v (verts q') <-> In v (verts q)) ->
    col_min q' xi = xl /\ col_max q' xi = xh /\ col_min q' yi = yl /\ col_max q' yi = yh.
  Proof.
    intros ((A0 & B0) & (A1 & B1) & (A2 & B2) & (A3 & B3)) Hx Hy S.
    rewrite !(col_min_set q q') by exact S. rewrite !(col_max_set q q') by exact S.
    assert (I0 : In (q0 q) (verts q)) by (simpl; auto).
    assert (I1 : In (q1 q) (verts q)) by (simpl; auto).
    assert (I2 : In (q2 q) (verts q)) by (simpl; auto).
    repeat split; apply tle_antisym.
    - rewrite <- A0. now apply col_min_le.
    - destruct (col_min_in q xi) as (v & [<-|[<-|[<-|[<-|[]]]]] & ->);
        rewrite ?A0, ?A1, ?A2, ?A3; try apply tle_refl; exact Hx.
    - destruct (col_max_in q xi) as (v & [<-|[<-|[<-|[<-|[]]]]] & ->);
        rewrite ?A0, ?A1, ?A2, ?A3; try apply tle_refl; exact Hx.
    - rewrite <- A1. now apply col_max_ge.
    - rewrite <- B0. now apply col_min_le.
    - destruct (col_min_in q yi) as (v & [<-|[<-|[<-|[<-|[]]]]] & ->);
        rewrite ?B0, ?B1, ?B2, ?B3; try apply tle_refl; exact Hy.
    - destruct (col_max_in q yi) as (v & [<-|[<-|[<-|[<-|[]]]]] & ->);
        rewrite ?B0, ?B1, ?B2, ?B3; try apply tle_refl; exact Hy.
    - rewrite <- B2. now apply col_max_ge.
  Qed.
End Statements.

(** ** [_polygon_area] (fan of triangles, Euclidean norm of a cross product) of a cell is the
    product of its side lengths; needs the square-root laws *)
Section Area.
  Context {T : Type} {O : Ops T} {RL : RingLaws T} {OL : OrderLaws T} {FL : FieldLaws T}
          {FlL : FloorLaws T} {SL : SqrtLaws T}.
  Add Ring TRingTP6 : (@ring_th T O RL).

  Lemma sq_inj_le (a b : T) : (0 <= a)%T -> (a <= b)%T -> (a * a)%T = (b * b)%T -> a = b.
  Proof.
    intros Ha Hab E. destruct (tle_lt_or_eq a b Hab) as [L|L]; [exfalso|exact L].
    assert (Hb : (0 < b)%T) by (eapply tle_lt_trans; eassumption).
    assert (L1 : (a * a <= a * b)%T) by (apply tmul_le_mono_nonneg_l; assumption).
    assert (L2 : (a * b < b * b)%T) by (apply tmul_lt_mono_pos_r; assumption).
    rewrite E in L1. exact (tle_not_lt _ _ L1 L2).
  Qed.
  Lemma sq_inj (a b : T) : (0 <= a)%T -> (0 <= b)%T -> (a * a)%T = (b * b)%T -> a = b.
  Proof.
    intros Ha Hb E. destruct (tle_total a b) as [L|L].
    - now apply sq_inj_le.
    - symmetry. now apply sq_inj_le.
  Qed.
  Lemma tsqrt_square (x : T) : (0 <= x)%T -> tsqrt (x * x)%T = x.
  Proof.
    intros Hx. assert (H2 : (0 <= x * x)%T) by now apply tmul_nonneg.
    apply sq_inj; [now apply tsqrt_nonneg|exact Hx|now apply tsqrt_sq].
  Qed.
  Lemma half_twice (X : T) : (1 / (1 + 1) * X + (1 / (1 + 1) * X + 0))%T = X.
  Proof.
    assert (H2 : (1 + 1)%T <> 0%T).
    { apply tpos_neq. apply (tlt_le_trans _ 1%T); [apply tone_pos|].
      replace 1%T with (0 + 1)%T at 1 by ring. apply tadd_le_mono, tzero_le_one. }
    replace (1 / (1 + 1) * X + (1 / (1 + 1) * X + 0))%T with ((1 / (1 + 1) * (1 + 1)) * X)%T by ring.
    rewrite tdiv_mul by exact H2. ring.
  Qed.

  Lemma rect_patch_area (P : @quad T) f c xl xh yl yh : f < 3 ->
    is_rect (px f) (py f) P xl xh yl yh -> planar P f c -> (xl <= xh)%T -> (yl <= yh)%T ->
    patch_area P = ((xh - xl) * (yh - yl))%T.
  Proof.
    intros Hf R Hpl Hx Hy.
    assert (Hwh : (0 <= (xh - xl) * (yh - yl))%T)
      by (apply tmul_nonneg; now apply (proj1 (tle_sub _ _))).
    pose proof (Hpl (q0 P) ltac:(simpl; auto)) as F0. pose proof (Hpl (q1 P) ltac:(simpl; auto)) as F1.
    pose proof (Hpl (q2 P) ltac:(simpl; auto)) as F2. pose proof (Hpl (q3 P) ltac:(simpl; auto 6)) as F3.
    destruct R as ((A0 & B0) & (A1 & B1) & (A2 & B2) & (A3 & B3)).
    destruct P as [[[a0 b0] c0] [[a1 b1] c1] [[a2 b2] c2] [[a3 b3] c3]].
    unfold patch_area, fan_area, tri_area, vnorm.
    destruct (plane_axes_cases f Hf) as [(-> & Ex & Ey)|[(-> & Ex & Ey)|(-> & Ex & Ey)]];
      rewrite Ex, Ey in *;
      cbv [vget vx vy vz fst snd q0 q1 q2 q3] in *; subst;
      repeat match goal with
             | |- context [tsqrt ?e] =>
                 lazymatch e with
                 | (((xh - xl) * (yh - yl)) * ((xh - xl) * (yh - yl)))%T => fail
                 | _ => replace e with (((xh - xl) * (yh - yl)) * ((xh - xl) * (yh - yl)))%T
                     by (cbv [vnorm2 vdot vcross vsub mkv vx vy vz fst snd]; ring)
                 end
             end;
      rewrite (tsqrt_square _ Hwh); apply half_twice.
  Qed.

  Lemma stmt_patch_area (q : @quad T) p f c : wall_ok q p f c ->
    (forall P, In P (create_patches q p) ->
       patch_area P = (size q (px f) / tofnat (patch_num q p (px f)) *
                       (size q (py f) / tofnat (patch_num q p (py f))))%T) /\
    sumf (create_patches q p) patch_area = (size q (px f) * size q (py f))%T.
  Proof.
    intros H.
    assert (Hcell : forall P, In P (create_patches q p) ->
              patch_area P = rect_area (px f) (py f) P /\
              rect_area (px f) (py f) P = (real_size q p (px f) * real_size q p (py f))%T).
    { intros P HP. destruct (In_nth _ _ dquad HP) as (k & Hk & <-).
      pose proof H as H'. destruct H' as (Hf & Hpl & Hp & Hpx & Hpy).
      pose proof (planar_size_zero _ _ _ Hpl) as Hflat.
      destruct (wall_index q p f Hf Hflat Hp Hpx Hpy k Hk) as (i & j & Hi & Hj & ->).
      destruct (stmt_cell q p f c i j dquad H Hi Hj) as (R & _ & Pl). cbv zeta in R, Pl.
      assert (Hrx : (0 <= real_size q p (px f))%T) by (apply tlt_le; eapply real_size_pos; eassumption).
      assert (Hry : (0 <= real_size q p (py f))%T) by (apply tlt_le; eapply real_size_pos; eassumption).
      rewrite (rect_patch_area _ f c _ _ _ _ Hf R Pl
                 (gline_mono _ _ Hrx i (S i) ltac:(lia)) (gline_mono _ _ Hry j (S j) ltac:(lia))).
      destruct R as ((A0 & B0) & (A1 & _) & _ & (_ & B3)).
      unfold rect_area. rewrite A0, B0, A1, B3, !gline_step. split; reflexivity. }
    split.
    - intros P HP. destruct (Hcell P HP) as [E1 E2]. rewrite E1, E2. reflexivity.
    - rewrite (sumf_ext _ patch_area (rect_area (px f) (py f))) by (intros P HP; apply (Hcell P HP)).
      now apply (stmt_area q p f c).
  Qed.
End Area.
