(** * Form-factor assembly: exact zeros for pairs outside the visible list, reciprocity of the
    full matrix produced by the i<j rule, non-negativity of the Stokes branch. *)
From Coq Require Import List Arith Bool Ring Lia.
Import ListNotations.
From SV Require Import Base.Ops Base.Arr Base.Sums Model.Vec3 Model.Exchange Model.Scene Model.Stokes
  Proofs.ExchangeRefine Proofs.SceneRefine Proofs.FieldFacts.

Section Assembly.
  Context {T : Type} {O : Ops T}.

  Lemma get2_tab_total n m (f : nat -> nat -> T) i j :
    get2 (tab n (fun i => tab m (fun j => f i j))) i j = if (i <? n) && (j <? m) then f i j else 0%T.
  Proof.
    unfold get2, nthT, nthl.
    destruct (Nat.ltb_spec i n) as [Hi|Hi]; simpl.
    - rewrite (nth_tab n _ [] i Hi). destruct (Nat.ltb_spec j m) as [Hj|Hj].
      + now rewrite (nth_tab m _ 0%T j Hj).
      + now rewrite (nth_tab_out m _ 0%T j Hj).
    - rewrite (nth_tab_out n _ [] i Hi). now destruct j.
  Qed.

  Lemma pair_in_In pairs i j : pair_in pairs i j = true <-> In (i, j) pairs.
  Proof.
    unfold pair_in. rewrite existsb_exists. split.
    - intros ((a, b) & Hin & H). simpl in H. apply andb_true_iff in H. destruct H as [Ha Hb].
      apply Nat.eqb_eq in Ha, Hb. now subst.
    - intros H. exists (i, j). split; [exact H|]. simpl. now rewrite !Nat.eqb_refl.
  Qed.

  (** only pairs of the list are written *)
  Lemma p2p_unlisted thres cut pts areas pairs nus i j :
    pair_in pairs i j = false -> get2 (patch2patch_ff thres cut pts areas pairs nus) i j = 0%T.
  Proof.
    intros H. unfold patch2patch_ff. rewrite get2_tab_total, H. now destruct (_ && _).
  Qed.

  (** a listed pair holds the Stokes value, or the datum on the Nusselt branch *)
  Lemma p2p_listed thres cut pts areas pairs nus i j :
    i < length areas -> j < length areas -> pair_in pairs i j = true ->
    get2 (patch2patch_ff thres cut pts areas pairs nus) i j =
    universal_ff thres cut (get2 nus i j) (nth i pts []) (nthT areas i) (nth j pts []).
  Proof.
    intros Hi Hj H. unfold patch2patch_ff. rewrite get2_tab_total, H.
    destruct (Nat.ltb_spec i (length areas)); [|lia]. destruct (Nat.ltb_spec j (length areas)); [|lia].
    reflexivity.
  Qed.

  Lemma universal_ff_stokes thres cut nus src a rcv :
    coincidence_check thres rcv src = false ->
    universal_ff thres cut nus src a rcv = stokes_integration cut src rcv a.
  Proof. intros H. unfold universal_ff, universal_branch. now rewrite H. Qed.

  Variable sc : @scene T.

  Lemma pair_in_vis i j : pair_in (vis_pairs sc) i j = true -> get2b (s_visU sc) i j = true.
  Proof. intros H. apply pair_in_In in H. apply in_vis_pairs in H. tauto. Qed.

  Lemma baked_F_invisible thres cut pts nus i j :
    s_F sc = patch2patch_ff thres cut pts (s_areas sc) (vis_pairs sc) nus ->
    get2b (s_visU sc) i j = false -> get2 (s_F sc) i j = 0%T.
  Proof.
    intros HF Hv. rewrite HF. apply p2p_unlisted.
    destruct (pair_in (vis_pairs sc) i j) eqn:E; [|reflexivity].
    apply pair_in_vis in E. congruence.
  Qed.

  Section WithField.
    Context {RL : RingLaws T} {OL : OrderLaws T} {FL : FieldLaws T}.
    Add Ring TRingSA : (@ring_th T O RL).

    (** C05_invisible_zero *)
    Theorem invisible_zero thres cut pts nus i j :
      s_F sc = patch2patch_ff thres cut pts (s_areas sc) (vis_pairs sc) nus ->
      area sc i <> 0%T -> vis_sym sc i j = false ->
      (if i <? j then get2 (s_F sc) i j else get2 (s_F sc) j i) = 0%T /\
      ff_full sc i j = 0%T /\
      forall d b, get4 (tilde sc) i j d b = 0%T.
    Proof.
      intros HF Ha Hv.
      assert (H0 : (if i <? j then get2 (s_F sc) i j else get2 (s_F sc) j i) = 0%T).
      { unfold vis_sym in Hv. destruct (i <? j); now apply (baked_F_invisible thres cut pts nus). }
      split; [exact H0|]. split.
      - unfold ff_full. destruct (i <? j); [exact H0|]. rewrite H0.
        replace (0 * area sc j)%T with 0%T by ring. now apply tdiv_0_l.
      - intros d b. now apply tilde_invisible.
    Qed.

    (** C05_reciprocity for the matrix implied by the i<j rule *)
    Theorem ff_full_reciprocity i j :
      i <> j -> area sc i <> 0%T -> area sc j <> 0%T ->
      (area sc i * ff_full sc i j)%T = (area sc j * ff_full sc j i)%T.
    Proof.
      intros Hne Hi Hj. unfold ff_full.
      destruct (Nat.ltb_spec i j) as [H|H]; destruct (Nat.ltb_spec j i) as [H'|H']; try lia.
      - rewrite tdiv_mul_l by assumption. ring.
      - rewrite tdiv_mul_l by assumption. ring.
    Qed.
  End WithField.

  (** C05_stokes_nonneg: the Stokes value is an absolute value *)
  Section WithAbs.
    Context {AL : AbsLaws T}.
    Theorem stokes_gen_nonneg act pi pj a : (0 <= stokes_gen act pi pj a)%T.
    Proof. unfold stokes_gen. apply abs_nonneg. Qed.

    Theorem stokes_branch_nonneg thres cut src a rcv v :
      universal_branch thres cut src a rcv = inl v -> (0 <= v)%T.
    Proof.
      unfold universal_branch. destruct (coincidence_check thres rcv src); [discriminate|].
      intros E. injection E as <-. apply stokes_gen_nonneg.
    Qed.

    Theorem baked_stokes_entry_nonneg thres cut pts areas pairs nus i j :
      i < length areas -> j < length areas -> pair_in pairs i j = true ->
      coincidence_check thres (nth j pts []) (nth i pts []) = false ->
      (0 <= get2 (patch2patch_ff thres cut pts areas pairs nus) i j)%T.
    Proof.
      intros Hi Hj Hp Hc. rewrite p2p_listed by assumption. rewrite universal_ff_stokes by assumption.
      apply stokes_gen_nonneg.
    Qed.
  End WithAbs.
End Assembly.
