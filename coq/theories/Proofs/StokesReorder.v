(** * The Stokes contour form factor does not depend on the order in which the vertices of the
    two quadrilateral patches are listed.

    The sampled boundary of a quadrilateral [A0 A1 A2 A3] with Boole's rule is, for each
    coordinate, a sum over the four edges [(A, B)] of a term [ET] that depends on the two end
    points of the edge only.  A cyclic rotation of the vertex list permutes the four edges; the
    reversal of the list replaces every edge [(A, B)] by [(B, A)], which flips the sign of the edge
    term: same sample points in the opposite order, symmetric Boole weights, opposite step, and a
    segment rule that looks at the absolute extent only.  The double sum therefore keeps its value
    under rotations and changes its sign under the reversal of ONE polygon; the absolute value in
    [stokes_gen] removes the sign.

    Name clash: [quad] is both the record of [Model/Tiling.v] and the quadrature list of
    [Proofs/StokesSum.v]; both are written qualified below. *)
From Coq Require Import List Arith Bool Ring Lia Permutation.
Import ListNotations.
From SV Require Import Base.Ops Base.OpsGeom Base.Arr Base.Sums Model.Vec3 Model.Exchange Model.Stokes Model.Tiling
  Proofs.FieldFacts Proofs.StokesSum Proofs.StokesSimilarity Proofs.TilingProofs.

Section StokesReorder.
  Context {T : Type} {O : Ops T} {RL : RingLaws T} {OL : OrderLaws T} {FL : FieldLaws T}
          {DL : DivLaws T} {AL : AbsLaws T}.
  Add Ring TRingSReo : (@ring_th T O RL).

  (** ** scalar facts *)
  Lemma tnat4_neq0 : (tnat 4 : T) <> 0%T.
  Proof. rewrite tnat4. apply c4_neq0. Qed.

  Lemma scal_zero (a x : T) : (a + (0 * x) / tnat 4)%T = a.
  Proof.
    replace (0 * x)%T with (0 : T)%T by ring.
    rewrite tdiv_0_l by apply tnat4_neq0. ring.
  Qed.

  Lemma scal_rev (a b k k' : T) : (k + k')%T = tnat 4 ->
    (b + (k * (a - b)) / tnat 4)%T = (a + (k' * (b - a)) / tnat 4)%T.
  Proof.
    intros Hk.
    rewrite (tdiv_fdiv (k * (a - b))%T _ tnat4_neq0), (tdiv_fdiv (k' * (b - a))%T _ tnat4_neq0).
    unfold fdiv.
    assert (H : (tinv (tnat 4) * (k + k'))%T = 1%T) by (rewrite Hk; apply tinv_l, tnat4_neq0).
    transitivity (b * (tinv (tnat 4) * (k + k')) + k * (a - b) * tinv (tnat 4))%T; [rewrite H; ring|].
    transitivity (a * (tinv (tnat 4) * (k + k')) + k' * (b - a) * tinv (tnat 4))%T; [ring|rewrite H; ring].
  Qed.

  Lemma scal_step (a b : T) :
    ((b + (tnat 1 * (a - b)) / tnat 4) - b)%T = (- ((a + (tnat 1 * (b - a)) / tnat 4) - a))%T.
  Proof.
    rewrite (tdiv_fdiv (tnat 1 * (a - b))%T _ tnat4_neq0), (tdiv_fdiv (tnat 1 * (b - a))%T _ tnat4_neq0).
    unfold fdiv. ring.
  Qed.

  Lemma tabs_div_opp (x d : T) : tabs ((- x) / d)%T = tabs (x / d)%T.
  Proof.
    rewrite (tdiv_inv (- x)%T d), (tdiv_inv x d).
    replace (- x * (1 / d))%T with (- (x * (1 / d)))%T by ring.
    apply tabs_opp_al.
  Qed.

  Lemma cut_active_even (cut e : T) : cut_active cut (- e)%T = cut_active cut e.
  Proof. unfold cut_active. now rewrite tabs_opp_al. Qed.

  (** ** the sample points of an edge *)
  Lemma vec_eq3 (u v : @vec T) : vx u = vx v -> vy u = vy v -> vz u = vz v -> u = v.
  Proof.
    destruct u as [[a b] c], v as [[a' b'] c']. unfold vx, vy, vz. cbn [fst snd].
    intros -> -> ->. reflexivity.
  Qed.

  (** [ii]-th sample of the edge from [A] to [B] *)
  Definition spt (A B : @vec T) (ii : nat) : @vec T :=
    vadd A (vdivs (vscale (tnat ii) (vsub B A)) (tnat 4)).

  Lemma coord_spt dim A B k :
    coord dim (spt A B k) = (coord dim A + (tnat k * (coord dim B - coord dim A)) / tnat 4)%T.
  Proof. unfold spt. now rewrite coord_vadd, coord_vdivs, coord_vscale, coord_vsub. Qed.

  Lemma spt_0 A B : spt A B 0 = A.
  Proof.
    apply vec_eq3.
    - exact (scal_zero (vx A) (vx B - vx A)%T).
    - exact (scal_zero (vy A) (vy B - vy A)%T).
    - exact (scal_zero (vz A) (vz B - vz A)%T).
  Qed.

  (** the samples of the reversed edge are the samples of the edge in the opposite order *)
  Lemma spt_rev A B k k' : (tnat k + tnat k')%T = (tnat 4 : T) -> spt B A k = spt A B k'.
  Proof.
    intros H. apply vec_eq3.
    - exact (scal_rev (vx A) (vx B) (tnat k) (tnat k') H).
    - exact (scal_rev (vy A) (vy B) (tnat k) (tnat k') H).
    - exact (scal_rev (vz A) (vz B) (tnat k) (tnat k') H).
  Qed.

  Lemma step_rev dim A B :
    (coord dim (spt B A 1) - coord dim B)%T = (- (coord dim (spt A B 1) - coord dim A))%T.
  Proof. rewrite !coord_spt. apply scal_step. Qed.

  (** ** the boundary points of a quadrilateral *)
  Lemma nthv_sample (el : list (@vec T)) k : k < 4 * length el ->
    nthv (sample_pts 5 el) k = bpoint 4 el k.
  Proof.
    intros H. unfold sample_pts, nthv. change (5 - 1) with 4. rewrite nth_tab by lia. reflexivity.
  Qed.

  Lemma pt_inner (el : list (@vec T)) i ii : length el = 4 -> i < 4 -> ii < 4 ->
    nthv (sample_pts 5 el) (seg_idx 4 i ii) = spt (nthv el i) (nthv el ((i + 1) mod 4)) ii.
  Proof.
    intros Hl Hi Hii. unfold seg_idx. rewrite Nat.mod_small by lia.
    rewrite nthv_sample by lia. unfold bpoint, spt. cbv zeta. rewrite Hl.
    replace ((i * 4 + ii) / 4) with i
      by (rewrite Nat.div_add_l by lia; rewrite (Nat.div_small ii 4) by lia; lia).
    replace ((i * 4 + ii) mod 4) with ii
      by (rewrite Nat.add_comm, Nat.mod_add by lia; now rewrite Nat.mod_small).
    reflexivity.
  Qed.

  Lemma pt_first (el : list (@vec T)) i : length el = 4 -> i < 4 ->
    nthv (sample_pts 5 el) (seg_idx 4 i 0) = nthv el i.
  Proof. intros Hl Hi. rewrite pt_inner by (assumption || lia). apply spt_0. Qed.

  Lemma pt_last (el : list (@vec T)) i : length el = 4 -> i < 4 ->
    nthv (sample_pts 5 el) (seg_idx 4 i 4) = nthv el ((i + 1) mod 4).
  Proof.
    intros Hl Hi.
    assert (Hm : (i + 1) mod 4 < 4) by (apply Nat.mod_upper_bound; lia).
    replace (seg_idx 4 i 4) with (seg_idx 4 ((i + 1) mod 4) 0).
    - now apply pt_first.
    - unfold seg_idx. destruct i as [|[|[|[|i]]]]; try lia; reflexivity.
  Qed.

  (** ** one coordinate of one boundary as a sum of edge terms *)
  Section OneRule.
    Context (act : T -> bool).

    (** Boole term of the edge from [A] to [B] for the integrand [g] *)
    Definition ET (dim : nat) (A B : @vec T) (g : @vec T -> T) : T :=
      if act (coord dim B - coord dim A)%T
      then (bcoef (coord dim (spt A B 1) - coord dim A) *
            ((((bw 0 * g A + bw 1 * g (spt A B 1)) + bw 2 * g (spt A B 2)) + bw 3 * g (spt A B 3))
             + bw 4 * g B))%T
      else 0%T.

    (** the quadrature list applied to a function of the boundary POINT *)
    Definition Lf (el : list (@vec T)) (dim : nat) (g : @vec T -> T) : T :=
      sumf (StokesSum.quad act (sample_pts 5 el) (length el) dim)
           (fun p => (fst p * g (nthv (sample_pts 5 el) (snd p)))%T).

    Lemma seg_ET (el : list (@vec T)) dim i g : length el = 4 -> i < 4 ->
      sumf (quad_seg act (sample_pts 5 el) 4 dim i)
           (fun p => (fst p * g (nthv (sample_pts 5 el) (snd p)))%T) =
      ET dim (nthv el i) (nthv el ((i + 1) mod 4)) g.
    Proof.
      intros Hl Hi. unfold quad_seg, sx, ET.
      rewrite (pt_last el i Hl Hi), (pt_first el i Hl Hi).
      rewrite (pt_inner el i 1) by (assumption || lia).
      destruct (act _); [|reflexivity].
      rewrite sumf_map. cbn [sumf fold_right fst snd].
      rewrite (pt_last el i Hl Hi), (pt_first el i Hl Hi).
      rewrite (pt_inner el i 1), (pt_inner el i 2), (pt_inner el i 3) by (assumption || lia).
      ring.
    Qed.

    Lemma Lf_edges A0 A1 A2 A3 dim g :
      Lf [A0; A1; A2; A3] dim g =
      (ET dim A0 A1 g + (ET dim A1 A2 g + (ET dim A2 A3 g + (ET dim A3 A0 g + 0))))%T.
    Proof.
      unfold Lf. change (length [A0; A1; A2; A3]) with 4. unfold StokesSum.quad.
      rewrite sumf_flat_map.
      rewrite (sumf_ext _ _ (fun i => ET dim (nthv [A0; A1; A2; A3] i)
                                         (nthv [A0; A1; A2; A3] ((i + 1) mod 4)) g)).
      - reflexivity.
      - intros i Hi. apply in_seq in Hi. apply seg_ET; [reflexivity|lia].
    Qed.

    (** rotation of the vertex list: the same four edges *)
    Lemma Lf_rot A0 A1 A2 A3 dim g : Lf [A1; A2; A3; A0] dim g = Lf [A0; A1; A2; A3] dim g.
    Proof. rewrite !Lf_edges. ring. Qed.

    (** every boundary index of a quadrature list is in range *)
    Lemma quad_snd_lt (b : list (@vec T)) n dim p : In p (StokesSum.quad act b n dim) -> snd p < 4 * n.
    Proof.
      unfold StokesSum.quad. intros H. apply in_flat_map in H. destruct H as (i & Hi & Hp).
      apply in_seq in Hi. unfold quad_seg in Hp. destruct (act _); [|destruct Hp].
      apply in_map_iff in Hp. destruct Hp as (ii & <- & _). cbn [snd]. apply seg_idx_lt. lia.
    Qed.

    (** the double sum in terms of the point functionals *)
    Lemma outer_Lf pi pj :
      stokes_outer act pi pj =
      sumf [0; 1; 2] (fun dim => Lf pi dim (fun P => Lf pj dim (fun Q => stokes_entry P Q))).
    Proof.
      rewrite stokes_outer_dsum. unfold dsum. apply sumf_ext. intros dim _.
      unfold bil, Lf. apply sumf_ext. intros p Hp. f_equal. apply sumf_ext. intros q Hq. f_equal.
      rewrite get2_load, !sample_pts_length.
      apply quad_snd_lt in Hp. apply quad_snd_lt in Hq.
      apply Nat.ltb_lt in Hp. apply Nat.ltb_lt in Hq. rewrite Hp, Hq. reflexivity.
    Qed.

    (** rotating the vertex list of the first patch: ANY segment rule *)
    Theorem stokes_outer_rot_l_gen (Q1 : @Tiling.quad T) pj :
      stokes_outer act (verts (rot_quad Q1)) pj = stokes_outer act (verts Q1) pj.
    Proof.
      destruct Q1 as [A0 A1 A2 A3]. rewrite !outer_Lf. apply sumf_ext. intros dim _.
      change (verts (rot_quad (mkQuad A0 A1 A2 A3))) with [A1; A2; A3; A0].
      change (verts (mkQuad A0 A1 A2 A3)) with [A0; A1; A2; A3].
      apply Lf_rot.
    Qed.
    Theorem stokes_outer_rot_r_gen pi (Q2 : @Tiling.quad T) :
      stokes_outer act pi (verts (rot_quad Q2)) = stokes_outer act pi (verts Q2).
    Proof.
      rewrite (stokes_outer_sym act pi (verts (rot_quad Q2))), (stokes_outer_sym act pi (verts Q2)).
      apply stokes_outer_rot_l_gen.
    Qed.

    Lemma outer_iter_rot n (Q : @Tiling.quad T) pj :
      stokes_outer act (verts (Nat.iter n rot_quad Q)) pj = stokes_outer act (verts Q) pj.
    Proof.
      induction n as [|n IH]; [reflexivity|].
      change (Nat.iter (S n) rot_quad Q) with (rot_quad (Nat.iter n rot_quad Q)).
      rewrite stokes_outer_rot_l_gen. exact IH.
    Qed.

    (** ** reversal: needs a segment rule that does not see the sign of the extent *)
    Section EvenRule.
      Context (Hact : forall e : T, act (- e)%T = act e).

      Lemma ET_rev dim A B g : ET dim B A g = (- ET dim A B g)%T.
      Proof.
        unfold ET.
        replace (coord dim A - coord dim B)%T with (- (coord dim B - coord dim A))%T by ring.
        rewrite Hact. destruct (act _); [|ring].
        rewrite step_rev, !bcoef_lin.
        rewrite (spt_rev A B 1 3), (spt_rev A B 2 2), (spt_rev A B 3 1) by (cbn [tnat]; ring).
        unfold bw. ring.
      Qed.

      Lemma Lf_rev A0 A1 A2 A3 dim g : Lf [A0; A3; A2; A1] dim g = (- Lf [A0; A1; A2; A3] dim g)%T.
      Proof.
        rewrite !Lf_edges.
        rewrite (ET_rev dim A3 A0 g), (ET_rev dim A2 A3 g), (ET_rev dim A1 A2 g), (ET_rev dim A0 A1 g).
        ring.
      Qed.

      Theorem stokes_outer_rev_l_gen (Q1 : @Tiling.quad T) pj :
        stokes_outer act (verts (rev_quad Q1)) pj = (- stokes_outer act (verts Q1) pj)%T.
      Proof.
        destruct Q1 as [A0 A1 A2 A3]. rewrite !outer_Lf.
        change (verts (rev_quad (mkQuad A0 A1 A2 A3))) with [A0; A3; A2; A1].
        change (verts (mkQuad A0 A1 A2 A3)) with [A0; A1; A2; A3].
        rewrite !sumf_cons, !sumf_nil.
        rewrite (Lf_rev A0 A1 A2 A3 0), (Lf_rev A0 A1 A2 A3 1), (Lf_rev A0 A1 A2 A3 2).
        ring.
      Qed.
      Theorem stokes_outer_rev_r_gen pi (Q2 : @Tiling.quad T) :
        stokes_outer act pi (verts (rev_quad Q2)) = (- stokes_outer act pi (verts Q2))%T.
      Proof.
        rewrite (stokes_outer_sym act pi (verts (rev_quad Q2))), (stokes_outer_sym act pi (verts Q2)).
        apply stokes_outer_rev_l_gen.
      Qed.

      (** the eight orders: the double sum up to its sign *)
      Lemma outer_reorder_l o (Q : @Tiling.quad T) pj :
        stokes_outer act (verts (reorder o Q)) pj = stokes_outer act (verts Q) pj \/
        stokes_outer act (verts (reorder o Q)) pj = (- stokes_outer act (verts Q) pj)%T.
      Proof.
        unfold reorder. rewrite outer_iter_rot.
        destruct (o <? 4); [left; reflexivity|right; apply stokes_outer_rev_l_gen].
      Qed.

      Lemma stokes_gen_reorder_l o (Q : @Tiling.quad T) pj a :
        stokes_gen act (verts (reorder o Q)) pj a = stokes_gen act (verts Q) pj a.
      Proof.
        unfold stokes_gen. destruct (outer_reorder_l o Q pj) as [E|E]; rewrite E;
          [reflexivity|apply tabs_div_opp].
      Qed.
      Lemma stokes_gen_reorder_r o pi (Q : @Tiling.quad T) a :
        stokes_gen act pi (verts (reorder o Q)) a = stokes_gen act pi (verts Q) a.
      Proof.
        unfold stokes_gen.
        rewrite (stokes_outer_sym act pi (verts (reorder o Q))), (stokes_outer_sym act pi (verts Q)).
        destruct (outer_reorder_l o Q pi) as [E|E]; rewrite E; [reflexivity|apply tabs_div_opp].
      Qed.

      Theorem stokes_gen_reorder o1 o2 (Q1 Q2 : @Tiling.quad T) a :
        stokes_gen act (verts (reorder o1 Q1)) (verts (reorder o2 Q2)) a =
        stokes_gen act (verts Q1) (verts Q2) a.
      Proof. now rewrite stokes_gen_reorder_l, stokes_gen_reorder_r. Qed.
    End EvenRule.
  End OneRule.

  (** ** the code's rule [np.abs(x[-1]-x[0]) > cut] *)
  Theorem stokes_outer_rot_l (cut : T) (Q1 : @Tiling.quad T) (pj : list (@vec T)) :
    stokes_outer (cut_active cut) (verts (rot_quad Q1)) pj = stokes_outer (cut_active cut) (verts Q1) pj.
  Proof. apply stokes_outer_rot_l_gen. Qed.
  Theorem stokes_outer_rot_r (cut : T) (pi : list (@vec T)) (Q2 : @Tiling.quad T) :
    stokes_outer (cut_active cut) pi (verts (rot_quad Q2)) = stokes_outer (cut_active cut) pi (verts Q2).
  Proof. apply stokes_outer_rot_r_gen. Qed.
  Theorem stokes_outer_rev_l (cut : T) (Q1 : @Tiling.quad T) (pj : list (@vec T)) :
    stokes_outer (cut_active cut) (verts (rev_quad Q1)) pj =
    (- stokes_outer (cut_active cut) (verts Q1) pj)%T.
  Proof. apply stokes_outer_rev_l_gen. apply cut_active_even. Qed.
  Theorem stokes_outer_rev_r (cut : T) (pi : list (@vec T)) (Q2 : @Tiling.quad T) :
    stokes_outer (cut_active cut) pi (verts (rev_quad Q2)) =
    (- stokes_outer (cut_active cut) pi (verts Q2))%T.
  Proof. apply stokes_outer_rev_r_gen. apply cut_active_even. Qed.

  (** the value is the same for each of the 8 x 8 pairs of vertex orders *)
  Theorem stokes_integration_reorder (cut : T) (o1 o2 : nat) (Q1 Q2 : @Tiling.quad T) (a : T) :
    stokes_integration cut (verts (reorder o1 Q1)) (verts (reorder o2 Q2)) a =
    stokes_integration cut (verts Q1) (verts Q2) a.
  Proof. unfold stokes_integration. apply stokes_gen_reorder. apply cut_active_even. Qed.
End StokesReorder.

Print Assumptions stokes_integration_reorder.
