(** * Band independence (C12) and air attenuation (C10) of the pipeline model. *)
From Coq Require Import List Arith Bool Ring Lia.
Import ListNotations.
From SV Require Import Base.Ops Base.Arr Base.Sums Model.Vec3 Model.Exchange Model.Scene
  Spec.ExchangeSpec Proofs.ExchangeL0 Proofs.ExchangeRefine Proofs.SceneRefine
  Proofs.HistProofs Proofs.ReceiverProofs.

(** ** C12: a band's results depend only on that band's material and attenuation data *)
Section Bands.
  Context {T : Type} {O : Ops T}.

  (** two scenes with the same geometry and direction sets (band data may differ) *)
  Definition same_geometry (sc sc' : @scene T) : Prop :=
    s_np sc = s_np sc' /\ s_nd sc = s_nd sc' /\ s_centers sc = s_centers sc' /\
    s_areas sc = s_areas sc' /\ s_wall sc = s_wall sc' /\ s_visU sc = s_visU sc' /\
    s_F sc = s_F sc' /\ s_in sc = s_in sc' /\ s_out sc = s_out sc'.

  (** band [b] of [sc] carries the same data as band [b'] of [sc'] *)
  Definition band_match (sc : @scene T) b (sc' : @scene T) b' : Prop :=
    att sc b = att sc' b' /\ forall w a d, beta sc w a d b = beta sc' w a d b'.

  Definition source_match (s : @source T) b (s' : @source T) b' : Prop :=
    src_pos s = src_pos s' /\ src_vis s = src_vis s' /\ src_share s = src_share s' /\
    match src_dirfac s, src_dirfac s' with
    | None, None => True
    | Some f, Some f' => forall i, get2 f i b = get2 f' i b'
    | _, _ => False
    end.

  Variables sc sc' : @scene T.
  Hypothesis Hgeo : same_geometry sc sc'.

  Ltac geo := destruct Hgeo as (Hnp & Hnd & Hc & Ha & Hw & Hv & HF & Hi & Ho).

  Lemma geo_center i : center sc i = center sc' i.
  Proof. geo. unfold center. now rewrite Hc. Qed.
  Lemma geo_wall i : wall sc i = wall sc' i.
  Proof. geo. unfold wall. now rewrite Hw. Qed.
  Lemma geo_vis_sym i j : vis_sym sc i j = vis_sym sc' i j.
  Proof. geo. unfold vis_sym. now rewrite Hv. Qed.
  Lemma geo_ff i j : ff_full sc i j = ff_full sc' i j.
  Proof. geo. unfold ff_full, area. now rewrite HF, Ha. Qed.
  Lemma geo_dist i j : dist sc i j = dist sc' i j.
  Proof. unfold dist. now rewrite !geo_center. Qed.
  Lemma geo_in_index i j : in_index sc i j = in_index sc' i j.
  Proof. geo. unfold in_index, in_dirs. now rewrite Hi, !geo_center, geo_wall. Qed.
  Lemma geo_out_index i j : out_index sc i j = out_index sc' i j.
  Proof. geo. unfold out_index, out_dirs. now rewrite Ho, !geo_center, geo_wall. Qed.
  Lemma geo_vis_pairs : vis_pairs sc = vis_pairs sc'.
  Proof. geo. unfold vis_pairs. now rewrite Hv, Hnp. Qed.

  Variables b b' : nat.
  Hypothesis Hband : band_match sc b sc' b'.

  (** baked factors *)
  Theorem tilde_band i j d : tilde_entry sc i j d b = tilde_entry sc' i j d b'.
  Proof.
    destruct Hband as [Hatt Hbeta]. unfold tilde_entry, attn.
    rewrite geo_vis_sym, geo_ff, geo_dist, geo_in_index, geo_wall, Hatt, Hbeta. reflexivity.
  Qed.

  (** initial energy *)
  Theorem e0dir_band s s' i d : source_match s b s' b' ->
    e0dir_entry sc s i d b = e0dir_entry sc' s' i d b'.
  Proof.
    intros (Hp & Hvs & Hsh & Hdf). destruct Hband as [Hatt Hbeta].
    unfold e0dir_entry, energy0, src_dist, src_in_index, attn, in_dirs.
    destruct Hgeo as (Hnp & Hnd & Hc & Ha & Hw & Hv & HF & Hi & Ho).
    rewrite Hp, Hvs, Hsh, geo_center, geo_wall, Hatt, Hbeta, Hi.
    destruct (src_dirfac s), (src_dirfac s'); try contradiction; [now rewrite Hdf|reflexivity].
  Qed.

  Lemma src_dist_band s s' j : src_pos s = src_pos s' -> src_vis s = src_vis s' ->
    src_dist sc s j = src_dist sc' s' j.
  Proof. intros Hp Hvs. unfold src_dist. now rewrite Hp, Hvs, geo_center. Qed.

  (** patch histograms *)
  Theorem patch_hist_band {RL : RingLaws T} tm s s' K j d t :
    wf_scene sc -> wf_scene sc' -> source_match s b s' b' ->
    j < s_np sc -> d < s_nd sc -> b < s_nb sc -> b' < s_nb sc' -> t < n_samples tm ->
    get4 (patch_hist sc tm s K) j d b t = get4 (patch_hist sc' tm s' K) j d b' t.
  Proof.
    intros WF WF' Hsrc Hj Hd Hb Hb' Ht.
    pose proof Hgeo as (Hnp & Hnd & _).
    rewrite (patch_hist_refines sc tm s K j d b t) by assumption.
    rewrite (patch_hist_refines sc' tm s' K j d b' t) by (try assumption; lia).
    unfold ExchangeSpec.Tot. apply sumf_ext. intros k _.
    rewrite <- geo_vis_pairs.
    assert (Hdl : forall i j0, scene_delta sc tm i j0 = scene_delta sc' tm i j0)
      by (intros; unfold scene_delta; now rewrite geo_dist).
    assert (Hd0 : forall j0, scene_delta0 sc tm s j0 = scene_delta0 sc' tm s' j0).
    { intros j0. unfold scene_delta0. destruct Hsrc as (Hp & Hvs & _). now rewrite (src_dist_band s s' j0 Hp Hvs). }
    rewrite (E_ext (directed (vis_pairs sc)) _ (scene_delta sc' tm) _ (tilde_entry sc) _ (out_index sc') _
               (scene_delta0 sc' tm s') _ (e0dir_entry sc s) (fun _ => True) (fun _ => True) (fun _ => True));
      try (intros; auto; fail).
    - apply E_band_independent.
      + intros; apply tilde_band.
      + intros; now apply e0dir_band.
    - intros; apply geo_out_index.
  Qed.

  (** receiver stage: the patch-wise entry of band b depends on E and the attenuation of
      band b only *)
  Theorem patchwise_band tm (E E' : @arr4 T) r k t :
    (forall d u, get4 E k d b u = get4 E' k d b' u) ->
    k < s_np sc -> b < s_nb sc -> b' < s_nb sc' -> t < n_samples tm ->
    get3 (patchwise sc tm E r) k b t = get3 (patchwise sc' tm E' r) k b' t.
  Proof.
    intros HE Hk Hb Hb' Ht. pose proof Hgeo as (Hnp & _).
    rewrite !patchwise_entry by (try assumption; lia).
    destruct Hband as [Hatt _].
    assert (Hrd : r_dist sc r k = r_dist sc' r k) by (unfold r_dist; now rewrite geo_center).
    unfold r_delay, r_term, r_out_index, attn, out_dirs. rewrite Hrd, Hatt, HE, geo_center, geo_wall.
    destruct Hgeo as (_ & _ & _ & _ & _ & _ & _ & _ & Ho). now rewrite Ho.
  Qed.

  (** receiver curve (mono, with or without direct sound): band b of the multi-band run is the
      single-band curve *)
  Theorem mono_band {RL : RingLaws T} tm (E E' : @arr4 T) (s s' : @source T) r direct rdf rdf' t :
    (forall k d u, k < s_np sc -> get4 E k d b u = get4 E' k d b' u) ->
    src_pos s = src_pos s' ->
    match rdf, rdf' with
    | None, None => True
    | Some f, Some f' => nthT f b = nthT f' b'
    | _, _ => False
    end ->
    b < s_nb sc -> b' < s_nb sc' -> t < n_samples tm ->
    get2 (mono sc tm E s r direct rdf) b t = get2 (mono sc' tm E' s' r direct rdf') b' t.
  Proof.
    intros HE Hp Hrdf Hb Hb' Ht. pose proof Hgeo as (Hnp & _).
    assert (Hm : get2 (mono_of sc tm (patchwise sc tm E r)) b t =
                 get2 (mono_of sc' tm (patchwise sc' tm E' r)) b' t).
    { rewrite !mono_is_sum by assumption. rewrite <- Hnp. apply sumf_ext. intros k Hk.
      apply in_seq in Hk. apply patchwise_band; try assumption; try lia.
      intros d u. apply HE. lia. }
    unfold mono. destruct direct; [|exact Hm].
    rewrite !get2_tab by assumption. rewrite Hm.
    assert (Hbin : direct_bin tm s r = direct_bin tm s' r) by (unfold direct_bin, direct_r; now rewrite Hp).
    rewrite Hbin. destruct (t =? direct_bin tm s' r); [|reflexivity]. f_equal.
    destruct Hband as [Hatt _]. unfold direct_val, direct_r, attn. rewrite Hp, Hatt.
    destruct rdf, rdf'; try contradiction; [now rewrite Hrdf|reflexivity].
  Qed.
End Bands.

(** ** C10: exp(-m d) on every leg *)
Section Attenuation.
  Context {T : Type} {O : Ops T} {RL : RingLaws T}.
  Add Ring TRingAt : (@ring_th T O RL).

  Section Zero.
    Context {EL : ExpLaws T}.
    Variable sc : @scene T.
    (** m = 0 reproduces the unattenuated result: every attenuation factor is 1 *)
    Theorem attn_zero b d : att sc b = 0%T -> attn sc b d = 1%T.
    Proof. intros H. unfold attn. rewrite H. replace (- 0 * d)%T with 0%T by ring. apply texp_0. Qed.
    (** legs compose: the factor of a path is exp(-m * total length) *)
    Theorem attn_compose b d1 d2 : (attn sc b d1 * attn sc b d2)%T = attn sc b (d1 + d2)%T.
    Proof. unfold attn. rewrite <- texp_add. f_equal. ring. Qed.
  End Zero.

  Section Mono.
    Context {OL : OrderLaws T} {EL : ExpLaws T}.
    Variable sc : @scene T.
    (** longer legs are attenuated more *)
    Theorem attn_mono_d b d d' : (0 <= att sc b)%T -> (d <= d')%T -> (attn sc b d' <= attn sc b d)%T.
    Proof.
      intros Hm Hd. unfold attn. apply texp_mono.
      replace (- att sc b * d')%T with (- (att sc b * d'))%T by ring.
      replace (- att sc b * d)%T with (- (att sc b * d))%T by ring.
      apply topp_le. now apply tmul_le_mono_nonneg_l.
    Qed.
    (** results are non-increasing in m *)
    Theorem attn_mono_m (sc' : @scene T) b d : (0 <= d)%T -> (att sc b <= att sc' b)%T ->
      (attn sc' b d <= attn sc b d)%T.
    Proof.
      intros Hd Hm. unfold attn. apply texp_mono.
      replace (- att sc' b * d)%T with (- (att sc' b * d))%T by ring.
      replace (- att sc b * d)%T with (- (att sc b * d))%T by ring.
      apply topp_le. now apply tmul_le_mono_nonneg_r.
    Qed.
    Lemma attn_nonneg b d : (0 <= attn sc b d)%T.
    Proof. unfold attn. apply tlt_le, texp_pos. Qed.
  End Mono.

  (** path attenuation on the recursion: if every transfer factor is an unattenuated factor
      times exp(-m len) of its leg, every contribution carries exp(-m L) of its total
      geometric path length L, and depends on m in no other way *)
  Section Path.
    Context {EL : ExpLaws T}.
    Variable P : list (nat * nat).
    Variable delta : nat -> nat -> nat.
    Variable out : nat -> nat -> nat.
    Variable delta0 : nat -> nat.
    Variable m : nat -> T.                          (* attenuation coefficient per band *)
    Variable len : nat -> nat -> T.                 (* geometric length of the leg i -> j *)
    Variable len0 : nat -> T.                       (* source -> patch length *)
    Variable g : nat -> nat -> nat -> nat -> T.     (* unattenuated transfer factor *)
    Variable h : nat -> nat -> nat -> T.            (* unattenuated initial energy *)
    Definition A (b : nat) (x : T) : T := texp (- m b * x)%T.
    Definition c_att i j d b : T := (g i j d b * A b (len i j))%T.
    Definition e0_att j d b : T := (h j d b * A b (len0 j))%T.

    (** contributions annotated with their geometric length *)
    Fixpoint contribL (k : nat) (j d b : nat) : list (nat * (T * T)) :=
      match k with
      | 0 => [(delta0 j, (len0 j, h j d b))]
      | S k' =>
          flat_map (fun p =>
            map (fun x => (fst x + delta (fst p) j, ((fst (snd x) + len (fst p) j)%T, (g (fst p) j d b * snd (snd x))%T)))
                (contribL k' (fst p) (out (fst p) j) b)) (into P j)
      end.

    Theorem path_attenuation k : forall j d b,
      contrib P delta c_att out delta0 e0_att k j d b =
      map (fun x => (fst x, (snd (snd x) * A b (fst (snd x)))%T)) (contribL k j d b).
    Proof.
      induction k as [|k IH]; intros j d b; simpl; [reflexivity|].
      induction (into P j) as [|p l IHl]; [reflexivity|].
      simpl. rewrite map_app, <- IHl. f_equal.
      rewrite IH, !map_map. apply map_ext. intros x. simpl. f_equal.
      unfold c_att, A.
      replace (- m b * (fst (snd x) + len (fst p) j))%T
        with (- m b * len (fst p) j + - m b * fst (snd x))%T by ring.
      rewrite texp_add. ring.
    Qed.
  End Path.
End Attenuation.

(** ** monotonicity of the recursion in its data (used for "non-increasing in m") *)
Section Monotone.
  Context {T : Type} {O : Ops T} {RL : RingLaws T} {OL : OrderLaws T}.
  Variable P : list (nat * nat).
  Variable delta : nat -> nat -> nat.
  Variable out : nat -> nat -> nat.
  Variable delta0 : nat -> nat.
  Variables (c c' : nat -> nat -> nat -> nat -> T) (e0 e0' : nat -> nat -> nat -> T).
  Hypothesis c_nonneg : forall i j d b, (0 <= c i j d b)%T.
  Hypothesis e0_nonneg : forall j d b, (0 <= e0 j d b)%T.
  Hypothesis c_le : forall i j d b, (c i j d b <= c' i j d b)%T.
  Hypothesis e0_le : forall j d b, (e0 j d b <= e0' j d b)%T.

  Theorem E_monotone k : forall j d b t,
    (E P delta c out delta0 e0 k j d b t <= E P delta c' out delta0 e0' k j d b t)%T.
  Proof.
    induction k as [|k IH]; intros j d b t; simpl.
    - unfold E0. destruct (t =? delta0 j); [apply e0_le|apply tle_refl].
    - apply sumf_le. intros p _. unfold shiftf. destruct (t <? _); [apply tle_refl|].
      apply tmul_le_mono2; [apply c_nonneg|apply E_nonneg; assumption|apply c_le|apply IH].
  Qed.
End Monotone.
