(** * Bisimulation of an object and its restored twin for the setter and round-trip calls. *)
From Coq Require Import List Arith Bool.
Import ListNotations.
From SV Require Import Model.Object Spec.ObjectSpec Proofs.ObjectProofs Proofs.ObjectBisim.

(** calls for which commutation with the normalisation is proved *)
Definition covered (o : op) : bool :=
  match o with
  | OpSetBrdf _ _ _ _ _ _ _ | OpSetAtt _ _ _ | OpDictRoundTrip | OpFileRoundTrip => true
  | _ => false
  end.

Lemma roundtrip_step_norm g b s :
  normr (match restore g b (norm s) with (c, Some s') => (c, s', ONone) | (c, None) => (c, norm s, ONone) end) =
  normr (match restore g b s with (c, Some s') => (c, s', ONone) | (c, None) => (c, s, ONone) end).
Proof.
  rewrite restore_norm. destruct (restore g b s) as [c [s'|]]; unfold normr, oclass_of, ostate_of, oobs_of;
    cbn [fst snd]; rewrite ?norm_norm; reflexivity.
Qed.

Lemma pnorm_normr (r1 r2 : rclass * ostate) :
  pnorm r1 = pnorm r2 ->
  normr (let '(c, s') := r1 in (c, s', ONone)) = normr (let '(c, s') := r2 in (c, s', ONone)).
Proof.
  destruct r1 as [c1 s1], r2 as [c2 s2]. unfold pnorm, normr, oclass_of, ostate_of, oobs_of. cbn [fst snd].
  intro H. pose proof (f_equal fst H) as H1. pose proof (f_equal snd H) as H2. cbn [fst snd] in H1, H2.
  rewrite H1, H2. reflexivity.
Qed.

Lemma step_norm g s o : covered o = true -> normr (ostep g (norm s) o) = normr (ostep g s o).
Proof.
  destruct o as [walls tab dirs n fid nb negz|aid fid nb| | |? ? ? ?|? ?| |]; cbn [covered]; try discriminate; intros _.
  - cbn [ostep]. apply pnorm_normr, set_brdf_norm.
  - cbn [ostep]. apply pnorm_normr, set_att_norm.
  - cbn [ostep]. apply roundtrip_step_norm.
  - cbn [ostep]. apply roundtrip_step_norm.
Qed.

(** similar states answer a covered call with the same class and observation and similar successors *)
Lemma bisim_step g s s' o :
  covered o = true -> sim s s' -> normr (ostep g s o) = normr (ostep g s' o).
Proof.
  intros Hc H. rewrite <- (step_norm g s o Hc), <- (step_norm g s' o Hc). unfold sim in H. rewrite H. reflexivity.
Qed.

(** ... hence every continuation by covered calls yields equal classes and observations *)
Lemma bisim_trace g h : forall s s',
  forallb covered h = true -> sim s s' ->
  map (fun r => (oclass_of r, oobs_of r)) (otrace g s h) = map (fun r => (oclass_of r, oobs_of r)) (otrace g s' h) /\
  sim (orun g s h) (orun g s' h).
Proof.
  induction h as [|o r IH]; intros s s' Hc H; [split; [reflexivity|exact H]|].
  cbn [forallb] in Hc. apply andb_prop in Hc. destruct Hc as [Ho Hr].
  pose proof (bisim_step g s s' o Ho H) as E. unfold normr in E.
  pose proof (f_equal (fun x => fst (fst x)) E) as E1. pose proof (f_equal (fun x => snd (fst x)) E) as E2.
  pose proof (f_equal snd E) as E3. cbn [fst snd] in E1, E2, E3.
  destruct (IH (ostate_of (ostep g s o)) (ostate_of (ostep g s' o)) Hr E2) as [T S].
  split.
  - cbn [otrace map]. rewrite E1, E3. f_equal. exact T.
  - exact S.
Qed.
