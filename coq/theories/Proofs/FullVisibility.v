(** * Semantic visibility of the composed shoebox model.

    [Proofs/FullProofs.v] shows that two patches of the composed model ([Model/Full.v]) exchange
    energy iff [basic_visibility] holds between their centroids for EVERY patch surface.  Here that
    scan is given its geometric meaning for rooms whose patch surfaces are axis-aligned rectangles:

    - [blocked r p q]: the rectangle [r] hides [q] from [p], stated with exact geometry only
      (no tolerance occurs in it);
    - [gen_pos eps eta m r p q]: the pair is in general position with respect to [r] -- each
      centroid is either farther than eta and eps from the plane of [r] or lies in that plane
      farther than [m] from the four edge lines; if both are off the plane, the point where the
      OPEN SEGMENT crosses the plane (if it does) is farther than [m] from the edge lines -- for two
      points of a convex room and the plane of one of its walls there is no such point;
    - [blocked_iff_rect]: in general position [basic_visibility] = false <-> [blocked];
    - [room_visibility_geometric]: the pipeline's relation [vis_sym] between two patches is
      "no patch rectangle blocks the segment between the centroids";
    - [room_patches_are_rects]: the hypothesis "the patch surfaces are well-formed axis-aligned
      rectangles" is DERIVED from the tiling theorems for rooms whose walls satisfy the C08
      predicate [wall_ok] and carry an axis normal;
    - [rect_own_centroid], [room_behind_hidden], [room_coplanar_hidden]: the clauses of [gen_pos]
      about a patch's own rectangle hold for the centroid the model computes, hence -- with no
      hypothesis on the other surfaces -- a patch never exchanges energy with a patch behind it
      or in its own plane.

    Besides the three cases of [Proofs/PipRectSurface.v] (surface off both endpoints / one endpoint
    in the surface / coplanar with one endpoint in the surface) two more occur in every shoebox room
    and are proved here: an endpoint in the plane of the surface but outside the rectangle (another
    patch of the same wall), with the other endpoint off the plane or in it: never hidden. *)
From Coq Require Import List Arith Bool Ring Lia ZArith.
Import ListNotations.
From SV Require Import Base.Ops Base.Arr Base.Sums Model.Vec3 Model.Exchange Model.Scene Model.Tiling
  Model.Visibility Model.Full Spec.VisibilitySpec
  Proofs.OrderField Proofs.TilingLists Proofs.TilingProofs
  Proofs.VisibilityScan Proofs.VisibilitySym Proofs.VisibilitySegment
  Proofs.PipRect Proofs.PipRectSurface Proofs.FullProofs.

(** ** 1. the two remaining cases of the four-way branch, for any surface *)
Section MoreSegmentCases.
  Context {T : Type} {O : Ops T} {RL : RingLaws T} {OL : OrderLaws T} {FL : FieldLaws T}
          {AL : AbsLaws T}.
  Add Ring TRingFullVis1 : (@ring_th T O RL).
  Local Notation vec := (@vec T).
  Local Open Scope T_scope.

  Lemma lerp_zero (p q : vec) : lerp p q 0 = p.
  Proof.
    destruct p as [[p1 p2] p3]. destruct q as [[q1 q2] q3].
    unfold lerp, vadd, vscale, vsub, mkv, vx, vy, vz. cbn [fst snd].
    f_equal; [f_equal|]; ring.
  Qed.

  (** (a') endpoints off the plane, as [basic_visibility_off_plane], but [point_in_polygon] has to be
      right only where the OPEN SEGMENT meets the plane: at a crossing point of the line outside
      the segment its answer is irrelevant (the test (x-p).(x-q) < 0 fails there anyway) *)
  Section OffPlaneSeg.
    Variables (eps eta : T) (inpoly : vec -> Prop) (s : @surface T) (p q : vec).
    Hypothesis Heps : 0 <= eps.
    Hypothesis Hp_eps : eps < tabs (side_of s p).
    Hypothesis Hp_eta : eta < tabs (side_of s p).
    Hypothesis Hq_eta : eta < tabs (side_of s q).
    Hypothesis Hpip : forall t : T, 0 < t -> t < 1 -> on_plane s (lerp p q t) ->
                                    pip_correct_at eps eta inpoly s (lerp p q t).

    Lemma basic_visibility_off_plane_seg :
      basic_visibility eps eta p q s = false <-> seg_meets inpoly s p q.
    Proof.
      unfold basic_visibility. cbv zeta.
      rewrite (pip_off_plane eps eta s p Hp_eta), (pip_off_plane eps eta s q Hq_eta). cbn [negb andb].
      unfold project_to_plane. cbv zeta.
      set (d := vdot (vsub q p) (s_nrm s)).
      assert (Hdd : d = side_of s q - side_of s p) by apply denom_is_side_diff.
      destruct (tltb eps (tabs d)) eqn:Hg.
      - pose proof (gate_nonzero _ _ Heps Hg) as Hd.
        rewrite (side_of_alt s q).
        set (r := side_of s q / d).
        assert (Hr : r * d = side_of s q) by (apply tdiv_mul; exact Hd).
        rewrite (projected_is_lerp p q (s_p0 s) r).
        set (t0 := 1 - r).
        assert (Hon : on_plane s (lerp p q t0)).
        { unfold on_plane. rewrite side_lerp, <- Hdd. unfold t0.
          replace (side_of s p + (1 - r) * d) with ((side_of s p + d) - r * d) by ring.
          rewrite Hr, Hdd. ring. }
        rewrite dot_lerp.
        split.
        + intros H.
          destruct (tltb (t0 * (t0 - 1) * vnorm2 (vsub q p)) 0) eqn:Hs.
          * pose proof (tmul_neg_factor _ _ (vnorm2_nonneg (vsub q p)) Hs) as Hk.
            destruct (between_of_neg t0 Hk) as (H0 & H1).
            destruct (pip eps eta s (lerp p q t0)) eqn:Hx; [|discriminate].
            exists t0. repeat split; try assumption. now apply (Hpip t0 H0 H1 Hon).
          * destruct (pip eps eta s (lerp p q t0)); discriminate.
        + intros (t & H0 & H1 & Hont & Hin).
          assert (Ht : t = t0).
          { assert (Hz : (t - t0) * d = 0).
            { unfold on_plane in Hont, Hon. rewrite side_lerp, <- Hdd in Hont, Hon.
              transitivity ((side_of s p + t * d) - (side_of s p + t0 * d)); [ring|].
              rewrite Hont, Hon. ring. }
            pose proof (tmul_cancel_r _ _ Hd Hz) as Hk.
            transitivity ((t - t0) + t0); [ring|]. rewrite Hk. ring. }
          subst t.
          rewrite (proj2 (Hpip t0 H0 H1 Hon) Hin).
          assert (Hneg : t0 * (t0 - 1) * vnorm2 (vsub q p) < 0).
          { apply tmul_neg_pos; [now apply neg_of_between|].
            apply (vnorm2_pos_of_dot _ (s_nrm s)). exact Hd. }
          unfold tlt in Hneg. now rewrite Hneg.
      - split; [discriminate|].
        intros (t & H0 & H1 & Hont & _). exfalso.
        unfold on_plane in Hont. rewrite side_lerp, <- Hdd in Hont.
        assert (Hsp : side_of s p = - (t * d)).
        { transitivity ((side_of s p + t * d) - t * d); [ring|]. rewrite Hont. ring. }
        pose proof (tlt_false_le _ _ Hg) as Hle.
        pose proof (tabs_mul_le t d (tlt_le _ _ H0) (tlt_le _ _ H1)) as Hm.
        rewrite Hsp, tabs_opp in Hp_eps.
        apply (proj1 (tlt_iff _ _)) in Hp_eps. apply Hp_eps.
        now apply (tle_trans _ (tabs d)).
    Qed.
  End OffPlaneSeg.

  (** [point_in_polygon] reports neither endpoint nor the crossing point inside: visible *)
  Lemma basic_visibility_none_in (eps eta : T) (s : surface) (p q : vec) :
    pip eps eta s p = false -> pip eps eta s q = false ->
    (forall x, project_to_plane false eps p q (s_p0 s) (s_nrm s) = Some x -> pip eps eta s x = false) ->
    basic_visibility eps eta p q s = true.
  Proof.
    intros Hp Hq Hx. unfold basic_visibility. cbv zeta. rewrite Hp, Hq. cbn [negb andb].
    destruct (project_to_plane false eps p q (s_p0 s) (s_nrm s)) as [x|] eqn:E; [|reflexivity].
    now rewrite (Hx x eq_refl).
  Qed.

  (** a segment that starts in the plane crosses it at its start *)
  Lemma project_from_plane (eps : T) (s : surface) (p q x : vec) :
    0 <= eps -> on_plane s p ->
    project_to_plane false eps p q (s_p0 s) (s_nrm s) = Some x -> x = p.
  Proof.
    intros He Hon. unfold project_to_plane. cbv zeta.
    set (d := vdot (vsub q p) (s_nrm s)).
    assert (Hdd : d = side_of s q - side_of s p) by apply denom_is_side_diff.
    destruct (tltb eps (tabs d)) eqn:Hg; [|discriminate].
    intros Hx. injection Hx as Hx. subst x.
    pose proof (gate_nonzero _ _ He Hg) as Hd.
    rewrite (side_of_alt s q).
    set (r := side_of s q / d).
    assert (Hr : r * d = side_of s q) by (apply tdiv_mul; exact Hd).
    rewrite (projected_is_lerp p q (s_p0 s) r).
    unfold on_plane in Hon.
    assert (Hr1 : r - 1 = 0).
    { apply (tmul_cancel_r _ d Hd).
      transitivity (r * d - d); [ring|]. rewrite Hr, Hdd, Hon. ring. }
    replace (1 - r) with (0 : T).
    - apply lerp_zero.
    - transitivity (- (r - 1)); [rewrite Hr1|]; ring.
  Qed.

  Lemma pip_false_of_not_in (eps eta : T) (inpoly : vec -> Prop) (s : surface) (x : vec) :
    pip_correct_at eps eta inpoly s x -> ~ inpoly x -> pip eps eta s x = false.
  Proof.
    intros Hc Hn. destruct (pip eps eta s x) eqn:E; [|reflexivity].
    exfalso. apply Hn. now apply Hc.
  Qed.

  (** (d) one endpoint in the plane but NOT in the polygon, the other off the plane: visible *)
  Lemma basic_visibility_beside_fwd (eps eta : T) (inpoly : vec -> Prop) (s : surface) (p q : vec) :
    0 <= eps -> on_plane s p -> pip_correct_at eps eta inpoly s p -> ~ inpoly p ->
    eta < tabs (side_of s q) ->
    basic_visibility eps eta p q s = true.
  Proof.
    intros He Hon Hc Hn Hq.
    pose proof (pip_false_of_not_in eps eta inpoly s p Hc Hn) as Hp.
    apply basic_visibility_none_in; [exact Hp|now apply pip_off_plane|].
    intros x Hx. now rewrite (project_from_plane eps s p q x He Hon Hx).
  Qed.

  Lemma basic_visibility_beside (eps eta : T) (inpoly : vec -> Prop) (s : surface) (this other : vec) :
    0 <= eps -> on_plane s this -> pip_correct_at eps eta inpoly s this -> ~ inpoly this ->
    eta < tabs (side_of s other) ->
    basic_visibility eps eta this other s = true /\ basic_visibility eps eta other this s = true.
  Proof.
    intros He Hon Hc Hn Hq. split.
    - now apply (basic_visibility_beside_fwd eps eta inpoly).
    - rewrite (basic_visibility_sym eps eta other this s He).
      now apply (basic_visibility_beside_fwd eps eta inpoly).
  Qed.

  (** (e) both endpoints in the plane, neither reported inside: the gate of
      [_project_to_plane] stays closed (|0| > eps is false), visible *)
  Lemma basic_visibility_in_plane_beside (eps eta : T) (s : surface) (p q : vec) :
    0 <= eps -> on_plane s p -> on_plane s q ->
    pip eps eta s p = false -> pip eps eta s q = false ->
    basic_visibility eps eta p q s = true.
  Proof.
    intros He Hp Hq Pp Pq. apply basic_visibility_none_in; [exact Pp|exact Pq|].
    intros x. unfold project_to_plane. cbv zeta.
    rewrite (denom_is_side_diff s p q). unfold on_plane in Hp, Hq. rewrite Hp, Hq.
    replace (0 - 0) with (0 : T) by ring. rewrite tabs_zero.
    destruct (tltb eps 0) eqn:E; [|discriminate].
    exfalso. exact (tle_not_lt _ _ He E).
  Qed.
End MoreSegmentCases.

(** ** 2. one axis-aligned rectangle: blocked <-> basic_visibility = false *)
Section RectBlocked.
  Context {T : Type} {O : Ops T} {RL : RingLaws T} {OL : OrderLaws T} {FL : FieldLaws T}
          {SL : SqrtLaws T}.
  Add Ring TRingFullVis2 : (@ring_th T O RL).
  Local Notation vec := (@vec T).
  Local Open Scope T_scope.

  (** the position of a centroid relative to the rectangle [r] *)
  Definition pt_off (eps eta : T) (r : rect) (x : vec) : Prop :=
    eps < tabs (side_of (rect_surface r) x) /\ eta < tabs (side_of (rect_surface r) x).
  Definition pt_on (m : T) (r : rect) (x : vec) : Prop :=
    on_plane (rect_surface r) x /\ off_bands m r x.

  (** general position of the pair (p, q) with respect to [r] *)
  Definition gen_pos (eps eta m : T) (r : rect) (p q : vec) : Prop :=
    (pt_off eps eta r p /\ pt_off eps eta r q /\
     forall t : T, 0 < t -> t < 1 ->
       on_plane (rect_surface r) (lerp p q t) -> off_bands m r (lerp p q t)) \/
    (pt_on m r p /\ pt_off eps eta r q) \/
    (pt_off eps eta r p /\ pt_on m r q) \/
    (pt_on m r p /\ pt_on m r q).

  (** [r] hides [q] from [p] -- exact geometry, no tolerance:
      (1) both off the plane and the open segment meets the open rectangle;
      (2) p in the rectangle, q off the plane and BEHIND the (one-sided) surface;
      (3) the same with the roles exchanged;
      (4) both in the plane and one of them in the rectangle. *)
  Definition blocked (r : rect) (p q : vec) : Prop :=
    let s := rect_surface r in
    (~ on_plane s p /\ ~ on_plane s q /\ seg_meets (in_rect r) s p q) \/
    (on_plane s p /\ in_rect r p /\ ~ on_plane s q /\ vdot (s_nrm s) (vsub q p) < 0) \/
    (on_plane s q /\ in_rect r q /\ ~ on_plane s p /\ vdot (s_nrm s) (vsub p q) < 0) \/
    (on_plane s p /\ on_plane s q /\ (in_rect r p \/ in_rect r q)).

  Lemma pt_off_not_on (eps eta : T) (r : rect) (x : vec) :
    0 <= eta -> pt_off eps eta r x -> ~ on_plane (rect_surface r) x.
  Proof.
    intros He [_ H] Hon. unfold on_plane in Hon. rewrite Hon, tabs_zero in H.
    exact (tle_not_lt _ _ He H).
  Qed.

  Variables (eps eta m : T).
  Hypothesis He : 0 <= eps.
  Hypothesis He1 : eps < 1.
  Hypothesis Heta : 0 < eta.
  Hypothesis Hm : eta <= m + m.

  Let Heta0 : 0 <= eta := tlt_le _ _ Heta.

  Lemma pip_rect_on (r : rect) (x : vec) :
    rect_wf r -> pt_on m r x -> (pip eps eta (rect_surface r) x = true <-> in_rect r x).
  Proof.
    intros Hwf [Hon Hoff].
    apply (pip_correct_rect eps eta m r x He He1 Heta0 Hm Hwf); [|exact Hoff].
    now apply on_plane_gate.
  Qed.

  Lemma on_plane_near (r : rect) (x : vec) :
    on_plane (rect_surface r) x -> tabs (side_of (rect_surface r) x) < eta.
  Proof. intros H. unfold on_plane in H. now rewrite H, tabs_zero. Qed.

  (** [segment_logic_rect] with the margin required on the open segment only *)
  Lemma segment_logic_rect_seg (r : rect) (p q : vec) :
    rect_wf r ->
    eps < tabs (side_of (rect_surface r) p) ->
    eta < tabs (side_of (rect_surface r) p) -> eta < tabs (side_of (rect_surface r) q) ->
    (forall t : T, 0 < t -> t < 1 ->
       on_plane (rect_surface r) (lerp p q t) -> off_bands m r (lerp p q t)) ->
    (basic_visibility eps eta p q (rect_surface r) = false
     <-> seg_meets (in_rect r) (rect_surface r) p q).
  Proof.
    intros Hwf Hpe Hp Hq Hoff.
    apply (basic_visibility_off_plane_seg eps eta (in_rect r) (rect_surface r) p q He Hpe Hp Hq).
    intros t H0 H1 Hon. apply (pip_correct_rect eps eta m r _ He He1 Heta0 Hm Hwf).
    - now apply on_plane_gate.
    - now apply Hoff.
  Qed.

  (** case off / off *)
  Lemma blocked_off_off (r : rect) (p q : vec) :
    rect_wf r -> pt_off eps eta r p -> pt_off eps eta r q ->
    (forall t : T, 0 < t -> t < 1 ->
       on_plane (rect_surface r) (lerp p q t) -> off_bands m r (lerp p q t)) ->
    (basic_visibility eps eta p q (rect_surface r) = false <-> blocked r p q).
  Proof.
    intros Hwf Hp Hq Hx.
    pose proof (pt_off_not_on eps eta r p Heta0 Hp) as Np.
    pose proof (pt_off_not_on eps eta r q Heta0 Hq) as Nq.
    destruct Hp as [Hpe Hp]. destruct Hq as [_ Hq].
    rewrite (segment_logic_rect_seg r p q Hwf Hpe Hp Hq Hx).
    unfold blocked. cbv zeta. split.
    - intros H. left. auto.
    - intros [(_ & _ & H)|[(H & _)|[(H & _)|(H & _)]]]; [exact H|contradiction..].
  Qed.

  (** case on / off, in both orders of the arguments *)
  Lemma blocked_on_off (r : rect) (this other : vec) :
    rect_wf r -> pt_on m r this -> pt_off eps eta r other ->
    (basic_visibility eps eta this other (rect_surface r) = false <-> blocked r this other) /\
    (basic_visibility eps eta other this (rect_surface r) = false <-> blocked r other this).
  Proof.
    intros Hwf Hthis Hother.
    pose proof (pt_off_not_on eps eta r other Heta0 Hother) as No.
    pose proof (pip_rect_on r this Hwf Hthis) as Hpip.
    assert (Hc : pip_correct_at eps eta (in_rect r) (rect_surface r) this) by exact Hpip.
    destruct Hthis as [Hon Hoff]. destruct Hother as [_ Ho].
    destruct (pip eps eta (rect_surface r) this) eqn:E.
    - (* this in the rectangle *)
      assert (Hin : in_rect r this) by now apply Hpip.
      destruct (segment_logic_rect_endpoint eps eta m r this other He He1 Heta0 Hm Hwf
                  (on_plane_gate eta _ _ Heta0 Hon) Hoff Hin Ho) as [F B].
      rewrite F, B. unfold blocked. cbv zeta. split; split.
      + intros H. right. left. auto.
      + intros [(H & _)|[(_ & _ & _ & H)|[(H & _)|(_ & H & _)]]]; [contradiction|exact H|contradiction..].
      + intros H. right. right. left. auto.
      + intros [(_ & H & _)|[(H & _)|[(_ & _ & _ & H)|(H & _)]]]; [contradiction|contradiction|exact H|contradiction].
    - (* this beside the rectangle *)
      assert (Hnin : ~ in_rect r this).
      { intros Hin. apply Hpip in Hin. discriminate. }
      destruct (basic_visibility_beside eps eta (in_rect r) (rect_surface r) this other He Hon Hc Hnin Ho)
        as [F B].
      rewrite F, B. unfold blocked. cbv zeta. split; split; try discriminate.
      + intros [(H & _)|[(_ & H & _)|[(H & _)|(_ & H & _)]]]; contradiction.
      + intros [(_ & H & _)|[(H & _)|[(_ & H & _)|(H & _)]]]; contradiction.
  Qed.

  (** case on / on *)
  Lemma blocked_on_on (r : rect) (p q : vec) :
    rect_wf r -> pt_on m r p -> pt_on m r q ->
    (basic_visibility eps eta p q (rect_surface r) = false <-> blocked r p q).
  Proof.
    intros Hwf Hp Hq.
    pose proof (pip_rect_on r p Hwf Hp) as Pp. pose proof (pip_rect_on r q Hwf Hq) as Pq.
    destruct Hp as [Hop Hbp]. destruct Hq as [Hoq Hbq].
    destruct (pip eps eta (rect_surface r) p) eqn:Ep; [|destruct (pip eps eta (rect_surface r) q) eqn:Eq].
    - assert (Hin : in_rect r p) by now apply Pp.
      rewrite (segment_logic_rect_coplanar eps eta m r p q He He1 Heta0 Hm Hwf
                 (on_plane_near r p Hop) (on_plane_near r q Hoq) Hbp Hbq (or_introl Hin)).
      split; [intros _|reflexivity]. unfold blocked. cbv zeta. right. right. right. auto.
    - assert (Hin : in_rect r q) by now apply Pq.
      rewrite (segment_logic_rect_coplanar eps eta m r p q He He1 Heta0 Hm Hwf
                 (on_plane_near r p Hop) (on_plane_near r q Hoq) Hbp Hbq (or_intror Hin)).
      split; [intros _|reflexivity]. unfold blocked. cbv zeta. right. right. right. auto.
    - assert (Np : ~ in_rect r p) by (intros Hin; apply Pp in Hin; discriminate).
      assert (Nq : ~ in_rect r q) by (intros Hin; apply Pq in Hin; discriminate).
      rewrite (basic_visibility_in_plane_beside eps eta (rect_surface r) p q He Hop Hoq Ep Eq).
      split; [discriminate|]. unfold blocked. cbv zeta.
      intros [(H & _)|[(_ & H & _)|[(_ & H & _)|(_ & _ & [H|H])]]]; contradiction.
  Qed.

  (** the four-way branch of [_basic_visibility] decides [blocked] for every axis-aligned
      rectangular surface and every pair in general position *)
  Theorem blocked_iff_rect (r : rect) (p q : vec) :
    rect_wf r -> gen_pos eps eta m r p q ->
    (basic_visibility eps eta p q (rect_surface r) = false <-> blocked r p q).
  Proof.
    intros Hwf [(Hp & Hq & Hx)|[(Hp & Hq)|[(Hp & Hq)|(Hp & Hq)]]].
    - now apply blocked_off_off.
    - exact (proj1 (blocked_on_off r p q Hwf Hp Hq)).
    - exact (proj2 (blocked_on_off r q p Hwf Hq Hp)).
    - now apply blocked_on_on.
  Qed.
End RectBlocked.

(** ** 3. the composed room: [vis_sym] is "no patch rectangle blocks the segment" *)
Section RoomVisibility.
  Context {T : Type} {O : Ops T} {RL : RingLaws T} {OL : OrderLaws T} {FL : FieldLaws T}
          {SL : SqrtLaws T}.
  Local Notation vec := (@vec T).

  (** [rs] lists, patch by patch, a well-formed axis-aligned rectangle that IS the patch surface *)
  Definition rects_of (surfs : list (@surface T)) (rs : list (@rect T)) : Prop :=
    Forall2 (fun s r => s = rect_surface r /\ rect_wf r) surfs rs.

  Lemma rects_of_map (surfs : list (@surface T)) (rs : list (@rect T)) :
    rects_of surfs rs -> surfs = map rect_surface rs /\ Forall rect_wf rs.
  Proof.
    intros H. induction H as [|s r surfs rs [Hs Hw] _ [IH1 IH2]]; [split; [reflexivity|constructor]|].
    split; [cbn [map]; now rewrite Hs, IH1|now constructor].
  Qed.

  Variable rm : @room T.
  Variable rs : list (@rect T).
  Variable m : T.
  Hypothesis He : (0 <= rm_eps rm)%T.
  Hypothesis He1 : (rm_eps rm < 1)%T.
  Hypothesis Heta : (0 < rm_eta rm)%T.
  Hypothesis Hm : (rm_eta rm <= m + m)%T.
  Hypothesis Hrs : rects_of (rm_patch_surfs rm) rs.

  Theorem room_visibility_geometric (i j : nat) :
    i < j -> j < rm_np rm ->
    (forall r, In r rs ->
       gen_pos (rm_eps rm) (rm_eta rm) m r (nthv (rm_centers rm) i) (nthv (rm_centers rm) j)) ->
    (vis_sym (room_scene rm) i j = true <->
     forall r, In r rs -> ~ blocked r (nthv (rm_centers rm) i) (nthv (rm_centers rm) j)).
  Proof.
    intros Hij Hj Hgp.
    rewrite (room_pairs_are_line_of_sight rm i j Hij Hj).
    destruct (rects_of_map _ _ Hrs) as [Hmap Hwf]. rewrite Forall_forall in Hwf.
    unfold visible_all. rewrite forallb_forall. rewrite Hmap. split.
    - intros H r Hr Hb.
      pose proof (H (rect_surface r) (in_map rect_surface rs r Hr)) as Hv.
      apply (blocked_iff_rect (rm_eps rm) (rm_eta rm) m He He1 Heta Hm r _ _ (Hwf r Hr) (Hgp r Hr)) in Hb.
      rewrite Hb in Hv. discriminate.
    - intros H s Hs. apply in_map_iff in Hs. destruct Hs as (r & <- & Hr).
      destruct (basic_visibility (rm_eps rm) (rm_eta rm) (nthv (rm_centers rm) i) (nthv (rm_centers rm) j)
                  (rect_surface r)) eqn:E; [reflexivity|].
      exfalso. apply (H r Hr).
      now apply (blocked_iff_rect (rm_eps rm) (rm_eta rm) m He He1 Heta Hm r _ _ (Hwf r Hr) (Hgp r Hr)).
  Qed.
End RoomVisibility.

(** ** 4. the patch surfaces of a room with axis-aligned rectangular walls ARE such rectangles *)
Section PatchesAreRects.
  Context {T : Type} {O : Ops T} {RL : RingLaws T} {OL : OrderLaws T} {FL : FieldLaws T}
          {FlL : FloorLaws T}.
  Add Ring TRingFullVis4 : (@ring_th T O RL).
  Local Notation vec := (@vec T).

  (** flat axis index of the tiling -> axis of [rect] *)
  Definition ax_of (f : nat) : axis := match f with 0 => AxX | 1 => AxY | _ => AxZ end.

  Lemma vec_eta3 (v : vec) : v = mkv (vx v) (vy v) (vz v).
  Proof. destruct v as [[a b] c]. reflexivity. Qed.

  (** a tiling cell with an axis normal is a [rect_surface] *)
  Lemma cell_is_rect_surface (P : @quad T) (f : nat) (c xl xh yl yh : T) (up : bool) :
    f < 3 -> is_rect (px f) (py f) P xl xh yl yh -> planar P f c ->
    (verts P, axis_normal (ax_of f) up) = rect_surface (mkrect (ax_of f) up c xl xh yl yh false).
  Proof.
    intros Hf ((A0 & B0) & (A1 & B1) & (A2 & B2) & (A3 & B3)) Hpl.
    pose proof (Hpl (q0 P) (or_introl eq_refl)) as C0.
    pose proof (Hpl (q1 P) (or_intror (or_introl eq_refl))) as C1.
    pose proof (Hpl (q2 P) (or_intror (or_intror (or_introl eq_refl)))) as C2.
    pose proof (Hpl (q3 P) (or_intror (or_intror (or_intror (or_introl eq_refl))))) as C3.
    unfold rect_surface, rect_pts, rect_nrm, verts.
    cbn [r_axis r_up r_c r_ua r_ub r_va r_vb r_vfirst].
    rewrite (vec_eta3 (q0 P)), (vec_eta3 (q1 P)), (vec_eta3 (q2 P)), (vec_eta3 (q3 P)).
    destruct (plane_axes_cases f Hf) as [(E & Ex & Ey)|[(E & Ex & Ey)|(E & Ex & Ey)]];
      rewrite Ex, Ey in *; subst f; cbn [vget ax_of emb] in *;
      rewrite A0, B0, A1, B1, A2, B2, A3, B3, C0, C1, C2, C3; reflexivity.
  Qed.

  Lemma gline_step_neq (x0 r : T) (i : nat) : (0 < r)%T -> gline x0 r i <> gline x0 r (S i).
  Proof.
    intros Hr E. apply (tpos_neq r Hr).
    transitivity (gline x0 r (S i) - gline x0 r i)%T.
    - unfold gline. rewrite tofnat_S. ring.
    - rewrite E. ring.
  Qed.

  (** every patch of a wall of the C08 domain, paired with the wall's axis normal, is a
      well-formed [rect_surface] *)
  Lemma wall_patches_are_rects (q : @quad T) (p : T) (f : nat) (c : T) (up : bool) :
    wall_ok q p f c ->
    Forall (fun P => exists r, (verts P, axis_normal (ax_of f) up) = rect_surface r /\ rect_wf r)
           (create_patches q p).
  Proof.
    intros Hok. apply Forall_forall. intros P HP.
    destruct (In_nth _ _ dquad HP) as (k & Hk & <-).
    destruct (stmt_count q p f c Hok) as (_ & _ & _ & _ & Hlen & _).
    rewrite Hlen in Hk. destruct (index_decomp _ _ _ Hk) as (i & j & Hi & Hj & ->).
    destruct (stmt_cell q p f c i j dquad Hok Hi Hj) as (R & _ & Pl). cbv zeta in R, Pl.
    pose proof Hok as (Hf & Hpl & Hp & Hpx & Hpy).
    pose proof (planar_size_zero _ _ _ Hpl) as Hflat.
    eexists. split.
    - exact (cell_is_rect_surface _ f c _ _ _ _ up Hf R Pl).
    - split; cbn [r_ua r_ub r_va r_vb]; apply gline_step_neq.
      + eapply real_size_pos; eassumption.
      + eapply real_size_pos; eassumption.
  Qed.
End PatchesAreRects.

(** list plumbing of [_process_patches] (no scalar law) *)
Section ProcessBlocks.
  Context {T : Type} {O : Ops T}.
  Local Notation vec := (@vec T).

  Lemma combine_app_eq {A B} (l1 l1' : list A) (l2 l2' : list B) :
    length l1 = length l2 -> combine (l1 ++ l1') (l2 ++ l2') = combine l1 l2 ++ combine l1' l2'.
  Proof.
    revert l2. induction l1 as [|a l1 IH]; intros [|b l2] H; simpl in H; try discriminate; [reflexivity|].
    cbn [app combine]. f_equal. apply IH. now injection H.
  Qed.

  Lemma map_repeat_eq {A B} (g : A -> B) (a : A) (n : nat) : map g (repeat a n) = repeat (g a) n.
  Proof. induction n as [|n IH]; [reflexivity|]. cbn [repeat map]. now rewrite IH. Qed.

  Lemma block_surfs (Q : @surface T -> Prop) (n : vec) (b : list (@quad T)) :
    Forall (fun P => Q (verts P, n)) b ->
    Forall Q (combine (map verts b) (repeat n (length b))).
  Proof.
    intros H. induction H as [|P b HP _ IH]; [constructor|].
    cbn [map length repeat combine]. now constructor.
  Qed.

  Lemma process_surfs_forall (Q : @surface T -> Prop) (normals : list vec) (p : T) :
    forall (walls : list (@quad T)) (w0 : nat),
    (forall k, k < length walls ->
       Forall (fun P => Q (verts P, nthv normals (w0 + k))) (create_patches (nth k walls dquad) p)) ->
    Forall Q (combine (map verts (concat (map (fun q => create_patches q p) walls)))
                      (map (fun w => nthv normals w)
                           (wall_ids_from w0 (map (@length _) (map (fun q => create_patches q p) walls))))).
  Proof.
    induction walls as [|q walls IH]; intros w0 H; [constructor|].
    cbn [map concat wall_ids_from]. rewrite !map_app, map_repeat_eq.
    rewrite combine_app_eq by now rewrite map_length, repeat_length.
    apply Forall_app. split.
    - apply block_surfs. specialize (H 0 (Nat.lt_0_succ _)). rewrite Nat.add_0_r in H. exact H.
    - apply IH. intros k Hk. specialize (H (S k) (proj1 (Nat.succ_lt_mono _ _) Hk)).
      rewrite Nat.add_succ_r in H. exact H.
  Qed.

  Lemma Forall_exists_Forall2 {A B} (R : A -> B -> Prop) (l : list A) :
    Forall (fun a => exists b, R a b) l -> exists l', Forall2 R l l'.
  Proof.
    intros H. induction H as [|a l [b Hb] _ [l' IH]]; [exists []; constructor|].
    exists (b :: l'). now constructor.
  Qed.
End ProcessBlocks.

Section ShoeboxRoom.
  Context {T : Type} {O : Ops T} {RL : RingLaws T} {OL : OrderLaws T} {FL : FieldLaws T}
          {FlL : FloorLaws T} {SL : SqrtLaws T}.
  Local Notation vec := (@vec T).

  (** every wall lies in an axis plane, is at least one patch wide in both in-plane directions
      ([wall_ok], the domain of C08) and carries + or - the unit vector of its flat axis as normal *)
  Definition axis_walls (rm : @room T) : Prop :=
    forall w, w < length (rm_walls rm) ->
      exists (f : nat) (c : T) (up : bool),
        wall_ok (nth w (rm_walls rm) dquad) (rm_patch_size rm) f c /\
        nthv (rm_normals rm) w = axis_normal (ax_of f) up.

  Theorem room_patches_are_rects (rm : @room T) :
    axis_walls rm -> exists rs, rects_of (rm_patch_surfs rm) rs.
  Proof.
    intros Hw. apply Forall_exists_Forall2.
    unfold rm_patch_surfs, rm_patch_pts, rm_processed, process. cbn [pr_points pr_normals].
    apply process_surfs_forall. intros k Hk.
    destruct (Hw k Hk) as (f & c & up & Hok & Hn). cbn [Nat.add]. rewrite Hn.
    exact (wall_patches_are_rects _ _ f c up Hok).
  Qed.

  (** the semantic visibility theorem with the rectangle hypothesis discharged by the tiling *)
  Theorem room_visibility_geometric_shoebox (rm : @room T) (m : T) :
    (0 <= rm_eps rm)%T -> (rm_eps rm < 1)%T -> (0 < rm_eta rm)%T -> (rm_eta rm <= m + m)%T ->
    axis_walls rm ->
    exists rs, rects_of (rm_patch_surfs rm) rs /\
      forall i j, i < j -> j < rm_np rm ->
        (forall r, In r rs ->
           gen_pos (rm_eps rm) (rm_eta rm) m r (nthv (rm_centers rm) i) (nthv (rm_centers rm) j)) ->
        (vis_sym (room_scene rm) i j = true <->
         forall r, In r rs -> ~ blocked r (nthv (rm_centers rm) i) (nthv (rm_centers rm) j)).
  Proof.
    intros He He1 Heta Hm Hw. destruct (room_patches_are_rects rm Hw) as [rs Hrs].
    exists rs. split; [exact Hrs|]. intros i j.
    exact (room_visibility_geometric rm rs m He He1 Heta Hm Hrs i j).
  Qed.
End ShoeboxRoom.

(** ** 5. the general-position clauses that concern a patch's OWN rectangle are theorems:
    the centroid the model computes ([np.sum(points)/4]) lies exactly in the plane of its patch,
    strictly inside the rectangle, and farther than [m] from its edge lines whenever both sides of
    the cell exceed [2 m].  Consequences that need no hypothesis on the other surfaces: a patch
    never exchanges energy with a patch whose centroid is behind it, nor with a patch whose centroid
    lies in its own plane (same wall). *)
Section OwnCentroid.
  Context {T : Type} {O : Ops T} {RL : RingLaws T} {OL : OrderLaws T} {FL : FieldLaws T}
          {FlL : FloorLaws T} {SL : SqrtLaws T}.
  Add Ring TRingFullVis5 : (@ring_th T O RL).
  Local Notation vec := (@vec T).
  Local Open Scope T_scope.

  Let K : T := tofnat 4.
  Lemma K_eq : K = ((1 + 1) + 1) + 1.
  Proof. unfold K. rewrite !tofnat_S, tofnat_0. ring. Qed.
  Lemma K_pos : 0 < K.
  Proof. unfold K. apply tofnat_pos. apply Nat.lt_0_succ. Qed.
  Lemma K_neq : K <> 0.
  Proof. apply tpos_neq, K_pos. Qed.

  Lemma pos_double (d : T) : 0 < d -> 0 < d + d.
  Proof.
    intros H. apply (tlt_trans _ d); [exact H|].
    replace d with (d + 0) at 1 by ring. now apply tadd_lt_mono_l.
  Qed.

  (** [np.sum] of four numbers starting from 0, divided by 4 *)
  Definition avg4 (a b c d : T) : T := ((((0 + a) + b) + c) + d) / K.
  Lemma avg4_mul (a b c d : T) : avg4 a b c d * K = (((0 + a) + b) + c) + d.
  Proof. unfold avg4. apply tdiv_mul, K_neq. Qed.
  Lemma avg4_const (c : T) : avg4 c c c c = c.
  Proof.
    apply (tmul_eq_cancel_pos_r _ _ K K_pos). rewrite avg4_mul, K_eq. ring.
  Qed.

  Lemma centroid_emb4 (ax : axis) (c u1 v1 u2 v2 u3 v3 u4 v4 : T) :
    centroid [emb ax c u1 v1; emb ax c u2 v2; emb ax c u3 v3; emb ax c u4 v4]
    = emb ax (avg4 c c c c) (avg4 u1 u2 u3 u4) (avg4 v1 v2 v3 v4).
  Proof. destruct ax; reflexivity. Qed.

  Lemma ucoord_emb (ax : axis) (c u v : T) : ucoord ax (emb ax c u v) = u.
  Proof. destruct ax; reflexivity. Qed.
  Lemma vcoord_emb (ax : axis) (c u v : T) : vcoord ax (emb ax c u v) = v.
  Proof. destruct ax; reflexivity. Qed.

  Lemma half_lt (x y : T) : x + x < y + y -> x < y.
  Proof.
    intros H. apply tlt_iff. intros L. apply (tle_not_lt _ _ (tadd_le_mono2 _ _ _ _ L L)). exact H.
  Qed.

  (** the midpoint h of a and b (given by 4 h = 2 a + 2 b): strictly between them, and farther
      than m from both when 2 m < |b - a| *)
  Lemma mid_facts (a b h m : T) :
    a <> b -> h * K = (a + b) + (b + a) ->
    between a b h /\ (m + m < tabs (b - a) -> m < tabs (h - a) /\ m < tabs (h - b)).
  Proof.
    intros Hab Hh.
    assert (H2 : 0 < 1 + 1) by (apply pos_double, tone_pos).
    assert (Hx : (h - a) + (h - a) = b - a).
    { apply (tmul_eq_cancel_pos_r _ _ (1 + 1) H2).
      transitivity (h * K - a * K); [rewrite K_eq; ring|rewrite Hh, K_eq; ring]. }
    assert (Hy : (b - h) + (b - h) = b - a).
    { transitivity ((b - a) + (b - a) - ((h - a) + (h - a))); [ring|rewrite Hx; ring]. }
    destruct (tle_total a b) as [L|L]; destruct (tle_lt_or_eq _ _ L) as [Lt|E];
      try (exfalso; apply Hab; congruence).
    - (* a < b *)
      assert (Hd : 0 < b - a) by (apply (proj1 (tlt_sub _ _)); exact Lt).
      assert (A : a < h).
      { apply (proj2 (tlt_sub _ _)). apply half_lt. rewrite Hx. replace (0 + 0) with (0 : T) by ring. exact Hd. }
      assert (B : h < b).
      { apply (proj2 (tlt_sub _ _)). apply half_lt. rewrite Hy. replace (0 + 0) with (0 : T) by ring. exact Hd. }
      split; [left; split; assumption|].
      rewrite (tabs_sub_ge b a L), (tabs_sub_ge h a (tlt_le _ _ A)), (tabs_sub_le h b (tlt_le _ _ B)).
      intros Hm2. split; apply half_lt; [rewrite Hx|rewrite Hy]; exact Hm2.
    - (* b < a *)
      assert (Hd : 0 < a - b) by (apply (proj1 (tlt_sub _ _)); exact Lt).
      assert (Hx' : (a - h) + (a - h) = a - b).
      { transitivity (- ((h - a) + (h - a))); [ring|rewrite Hx; ring]. }
      assert (Hy' : (h - b) + (h - b) = a - b).
      { transitivity (- ((b - h) + (b - h))); [ring|rewrite Hy; ring]. }
      assert (A : h < a).
      { apply (proj2 (tlt_sub _ _)). apply half_lt. rewrite Hx'. replace (0 + 0) with (0 : T) by ring. exact Hd. }
      assert (B : b < h).
      { apply (proj2 (tlt_sub _ _)). apply half_lt. rewrite Hy'. replace (0 + 0) with (0 : T) by ring. exact Hd. }
      split; [right; split; assumption|].
      rewrite (tabs_sub_le b a L), (tabs_sub_le h a (tlt_le _ _ A)), (tabs_sub_ge h b (tlt_le _ _ B)).
      intros Hm2. split; apply half_lt; [rewrite Hx'|rewrite Hy']; exact Hm2.
  Qed.
End OwnCentroid.

Section OwnCentroidRect.
  Context {T : Type} {O : Ops T} {RL : RingLaws T} {OL : OrderLaws T} {FL : FieldLaws T}
          {FlL : FloorLaws T} {SL : SqrtLaws T}.
  Add Ring TRingFullVis6 : (@ring_th T O RL).
  Local Notation vec := (@vec T).
  Local Open Scope T_scope.

  Lemma on_plane_emb (r : rect) (u v : T) : on_plane (rect_surface r) (emb (r_axis r) (r_c r) u v).
  Proof.
    destruct r as [ax up c ua ub va vb vf].
    unfold on_plane, side_of, s_p0, s_pts, s_nrm, rect_surface, rect_pts, rect_nrm, axis_normal, nthv.
    cbn [r_axis r_up r_c r_ua r_ub r_va r_vb r_vfirst fst snd].
    destruct vf; cbn [nth]; destruct ax; unfold emb, vdot, vsub, mkv, vx, vy, vz; cbn [fst snd]; ring.
  Qed.

  (** the centroid of an axis-aligned rectangle, in its own coordinates *)
  Definition rect_mid_u (r : rect) : T :=
    if r_vfirst r then avg4 (r_ua r) (r_ua r) (r_ub r) (r_ub r) else avg4 (r_ua r) (r_ub r) (r_ub r) (r_ua r).
  Definition rect_mid_v (r : rect) : T :=
    if r_vfirst r then avg4 (r_va r) (r_vb r) (r_vb r) (r_va r) else avg4 (r_va r) (r_va r) (r_vb r) (r_vb r).

  Lemma rect_centroid (r : rect) :
    centroid (rect_pts r) = emb (r_axis r) (r_c r) (rect_mid_u r) (rect_mid_v r).
  Proof.
    unfold rect_pts, rect_mid_u, rect_mid_v. destruct (r_vfirst r); rewrite centroid_emb4, avg4_const; reflexivity.
  Qed.

  Lemma rect_mid_u_mul (r : rect) : rect_mid_u r * tofnat 4 = (r_ua r + r_ub r) + (r_ub r + r_ua r).
  Proof. unfold rect_mid_u. destruct (r_vfirst r); rewrite avg4_mul; ring. Qed.
  Lemma rect_mid_v_mul (r : rect) : rect_mid_v r * tofnat 4 = (r_va r + r_vb r) + (r_vb r + r_va r).
  Proof. unfold rect_mid_v. destruct (r_vfirst r); rewrite avg4_mul; ring. Qed.

  (** the own-surface clauses of [gen_pos] *)
  Theorem rect_own_centroid (m : T) (r : rect) :
    rect_wf r ->
    m + m < tabs (r_ub r - r_ua r) -> m + m < tabs (r_vb r - r_va r) ->
    pt_on m r (centroid (rect_pts r)) /\ in_rect r (centroid (rect_pts r)).
  Proof.
    intros [Nu Nv] Mu Mv. rewrite rect_centroid.
    destruct (mid_facts (r_ua r) (r_ub r) (rect_mid_u r) m Nu (rect_mid_u_mul r)) as [Bu Ou].
    destruct (mid_facts (r_va r) (r_vb r) (rect_mid_v r) m Nv (rect_mid_v_mul r)) as [Bv Ov].
    destruct (Ou Mu) as [Ou1 Ou2]. destruct (Ov Mv) as [Ov1 Ov2].
    unfold pt_on, off_bands, in_rect. rewrite ucoord_emb, vcoord_emb.
    split; [split; [apply on_plane_emb|]|]; tauto.
  Qed.
End OwnCentroidRect.

(** the centroids of the composed model are the centroids of the patch rectangles *)
Section RoomOwnSurface.
  Context {T : Type} {O : Ops T} {RL : RingLaws T} {OL : OrderLaws T} {FL : FieldLaws T}
          {FlL : FloorLaws T} {SL : SqrtLaws T}.
  Local Notation vec := (@vec T).

  Definition drect : @rect T := mkrect AxZ true 0%T 0%T 0%T 0%T 0%T false.

  Lemma room_surfs_fst (rm : @room T) : map fst (rm_patch_surfs rm) = rm_patch_pts rm.
  Proof.
    unfold rm_patch_surfs.
    assert (Hlen : length (rm_patch_pts rm) = length (pr_normals (rm_processed rm))).
    { unfold rm_patch_pts, rm_processed. rewrite map_length, process_points_length, process_normals_length.
      reflexivity. }
    revert Hlen. generalize (rm_patch_pts rm) as l1, (pr_normals (rm_processed rm)) as l2.
    induction l1 as [|a l1 IH]; intros [|b l2] H; cbn [length] in H; try discriminate; [reflexivity|].
    cbn [combine map fst]. f_equal. apply IH. now injection H.
  Qed.

  Variable rm : @room T.
  Variable rs : list (@rect T).
  Hypothesis Hrs : rects_of (rm_patch_surfs rm) rs.

  Lemma room_pts_rects : rm_patch_pts rm = map rect_pts rs.
  Proof.
    rewrite <- room_surfs_fst. destruct (rects_of_map _ _ Hrs) as [-> _].
    rewrite map_map. reflexivity.
  Qed.

  Lemma room_rects_length : length rs = rm_np rm.
  Proof. unfold rm_np. rewrite room_pts_rects. now rewrite map_length. Qed.

  Lemma room_center_is_rect_centroid (i : nat) :
    i < rm_np rm -> nthv (rm_centers rm) i = centroid (rect_pts (nth i rs drect)).
  Proof.
    intros Hi. unfold rm_centers, nthv. rewrite room_pts_rects, map_map.
    rewrite nth_indep with (d' := centroid (rect_pts drect))
      by (rewrite map_length, room_rects_length; exact Hi).
    apply (map_nth (fun r => centroid (rect_pts r))).
  Qed.

  Lemma room_rect_in (i : nat) :
    i < rm_np rm -> In (rect_surface (nth i rs drect)) (rm_patch_surfs rm) /\ rect_wf (nth i rs drect).
  Proof.
    intros Hi. destruct (rects_of_map _ _ Hrs) as [Hmap Hwf].
    assert (Hin : In (nth i rs drect) rs) by (apply nth_In; rewrite room_rects_length; exact Hi).
    split; [rewrite Hmap; now apply in_map|]. rewrite Forall_forall in Hwf. now apply Hwf.
  Qed.

  Variable m : T.
  Hypothesis He : (0 <= rm_eps rm)%T.
  Hypothesis He1 : (rm_eps rm < 1)%T.
  Hypothesis Heta : (0 < rm_eta rm)%T.
  Hypothesis Hm : (rm_eta rm <= m + m)%T.

  (** cells larger than twice the margin *)
  Definition cell_margin (r : @rect T) : Prop :=
    (m + m < tabs (r_ub r - r_ua r))%T /\ (m + m < tabs (r_vb r - r_va r))%T.

  Lemma vis_false_of_surface (i j : nat) (s : @surface T) :
    i < j -> j < rm_np rm -> In s (rm_patch_surfs rm) ->
    basic_visibility (rm_eps rm) (rm_eta rm) (nthv (rm_centers rm) i) (nthv (rm_centers rm) j) s = false ->
    vis_sym (room_scene rm) i j = false.
  Proof.
    intros Hij Hj Hin Hb. rewrite (room_pairs_are_line_of_sight rm i j Hij Hj). unfold visible_all.
    destruct (forallb _ (rm_patch_surfs rm)) eqn:E; [|reflexivity].
    rewrite forallb_forall in E. rewrite (E s Hin) in Hb. discriminate.
  Qed.

  (** a patch whose centroid is BEHIND patch k (k one of the two) is hidden from it: the own
      surface of k blocks -- no hypothesis on any other surface *)
  Theorem room_behind_hidden (i j : nat) :
    i < j -> j < rm_np rm ->
    let ci := nthv (rm_centers rm) i in
    let cj := nthv (rm_centers rm) j in
    let ri := nth i rs drect in
    let rj := nth j rs drect in
    (cell_margin ri -> (rm_eta rm < tabs (side_of (rect_surface ri) cj))%T ->
     (vdot (s_nrm (rect_surface ri)) (vsub cj ci) < 0)%T -> vis_sym (room_scene rm) i j = false) /\
    (cell_margin rj -> (rm_eta rm < tabs (side_of (rect_surface rj) ci))%T ->
     (vdot (s_nrm (rect_surface rj)) (vsub ci cj) < 0)%T -> vis_sym (room_scene rm) i j = false).
  Proof.
    intros Hij Hj. cbv zeta.
    assert (Hi : i < rm_np rm) by lia.
    assert (Heta0 : (0 <= rm_eta rm)%T) by now apply tlt_le.
    split; intros [Mu Mv] Hoff Hbehind.
    - destruct (room_rect_in i Hi) as [Hin Hwf].
      destruct (rect_own_centroid m _ Hwf Mu Mv) as [[Hon Hob] Hir].
      rewrite <- (room_center_is_rect_centroid i Hi) in Hon, Hob, Hir.
      apply (vis_false_of_surface i j _ Hij Hj Hin).
      apply (proj1 (segment_logic_rect_endpoint _ _ m _ _ _ He He1 Heta0 Hm Hwf
                      (on_plane_gate _ _ _ Heta0 Hon) Hob Hir Hoff)).
      exact Hbehind.
    - destruct (room_rect_in j Hj) as [Hin Hwf].
      destruct (rect_own_centroid m _ Hwf Mu Mv) as [[Hon Hob] Hir].
      rewrite <- (room_center_is_rect_centroid j Hj) in Hon, Hob, Hir.
      apply (vis_false_of_surface i j _ Hij Hj Hin).
      apply (proj2 (segment_logic_rect_endpoint _ _ m _ _ _ He He1 Heta0 Hm Hwf
                      (on_plane_gate _ _ _ Heta0 Hon) Hob Hir Hoff)).
      exact Hbehind.
  Qed.

  (** two patches of the same wall never exchange energy: if the centroid of j lies in the plane of
      patch i (off its edge bands), the own surface of i hides it (coplanar branch) *)
  Theorem room_coplanar_hidden (i j : nat) :
    i < j -> j < rm_np rm ->
    let cj := nthv (rm_centers rm) j in
    let ri := nth i rs drect in
    cell_margin ri -> on_plane (rect_surface ri) cj -> off_bands m ri cj ->
    vis_sym (room_scene rm) i j = false.
  Proof.
    intros Hij Hj. cbv zeta. intros [Mu Mv] Honj Hobj.
    assert (Hi : i < rm_np rm) by lia.
    assert (Heta0 : (0 <= rm_eta rm)%T) by now apply tlt_le.
    destruct (room_rect_in i Hi) as [Hin Hwf].
    destruct (rect_own_centroid m _ Hwf Mu Mv) as [[Hon Hob] Hir].
    rewrite <- (room_center_is_rect_centroid i Hi) in Hon, Hob, Hir.
    apply (vis_false_of_surface i j _ Hij Hj Hin).
    apply (segment_logic_rect_coplanar _ _ m _ _ _ He He1 Heta0 Hm Hwf); try assumption.
    - unfold on_plane in Hon. rewrite Hon, tabs_zero. exact Heta.
    - unfold on_plane in Honj. rewrite Honj, tabs_zero. exact Heta.
    - now left.
  Qed.
End RoomOwnSurface.
